/- C17 invariant Q2: preservation by `exec` for write() and unlink(source); assembly. -/
import XzVerif.Lemmas.XzIoQ2a
import XzVerif.Lemmas.XzIoQ2b
import XzVerif.Lemmas.XzIoStep

namespace XzVerif.XzIo
variable {α : Type}

section
variable {c : Cfg α} {s : St α} (i : Inv c s) (hl : s.fs.srcLinked = true) (q : Q2 c s)
include i hl q

set_option hygiene false in
local macro "q2_explicit" : tactic =>
  `(tactic| exact q2_neutral q hne _ rfl (by simp) id id id id (by simp [emit, msgError, msgWarn, hpc])
      (by simp [Pc.isCloseD, emit, msgError, msgWarn, hpc]) (fun h1 _ h3 => ⟨h1, h3⟩))
set_option hygiene false in
local macro "q2_iofail" : tactic =>
  `(tactic| exact q2_via_fail q hne (frame_ioFail c _).1 rfl (by simp) rfl rfl (ioFail_ne_fsyncFile c _) (ioFail_success c _))

theorem q2_exec_write (hpc : s.pc = .write) : Q2 c (exec c s) := by
  have hne : s.pc ≠ .done := by rw [hpc]; simp
  have h := i.pcinv; simp only [PcInv, hpc] at h
  obtain ⟨h1, h2, h3, h4, h5⟩ := h
  have hW : s.fs.ownLinked = true → s.destOpen = true := fun ho => h3 (q.ownFile ho).1 (q.ownFile ho).2
  unfold exec; simp only [hpc]
  split
  · repeat' split
    all_goals first
      | q2_explicit
      | q2_iofail
  · generalize count (c.fault s.k) s.wr.length = n
    split
    · refine q2_neutral q hne ⟨.write s.wr.length, .ok n⟩ (by simp [emit]) (by simp) (by simp [emit]) ?_ ?_
        (by simp [emit]) (afterWrite_ne_fsyncFile c _)
        (fun h1 h2 => by have := afterWrite_origin c _ h1; rw [this] at h2; simp at h2) ?_
      · intro hm; have := (frame_afterWrite c _).1.mainMono hm; simpa [emit] using this
      · intro hx; rw [afterWrite_fs] at hx
        have := appendData_ownSynced_mono c (emit s (Call.write s.wr.length) (Res.ok n)) _ hx; exact this
      · intro _ hx hy
        have a := hW (by simpa [emit] using hx)
        have b : s.destOpen = false := by simpa [emit] using hy
        rw [a] at b; simp at b
    · refine q2_neutral q hne ⟨.write s.wr.length, .ok n⟩ (by simp [emit]) (by simp) (by simp [emit]) ?_ ?_
        (by simp [emit]) (by simp [emit, hpc]) (by simp [Pc.isCloseD, emit, hpc]) ?_
      · intro hm; simpa [emit] using hm
      · intro hx
        have := appendData_ownSynced_mono c (emit s (Call.write s.wr.length) (Res.ok n)) _ hx; exact this
      · intro hx _ hy
        exact ⟨by simpa [emit] using hx, by simpa [emit] using hy⟩

theorem q2_exec_unlinkSrc (hpc : s.pc = .unlinkSrc) : Q2 c (exec c s) := by
  have b := i.toBase hl
  have h := i.pcinv; simp only [PcInv, hpc] at h
  obtain ⟨hsu, hk, hi, hdo, hg⟩ := h
  have hcl := q.closed hsu hg.1 hdo
  obtain ⟨f1, f2, f3, f4, f5, f6⟩ := unlinkSrcName_fields s.fs b.srcName
  -- whatever the result of unlink(), the new state is `done` with one more event `unlink source`
  have key : ∀ (s' : St α) (r : Res), s'.trace = ⟨.unlink .src, r⟩ :: s.trace → s'.pc = .done → s'.success = s.success →
      s'.destOpen = s.destOpen → s'.main = s.main → s'.fs.ownLinked = s.fs.ownLinked → s'.fs.ownSynced = s.fs.ownSynced →
      s'.fs.dirSynced = s.fs.dirSynced → Q2 c s' := by
    intro s' r ht hp e1 e2 e3 e4 e5 e6
    refine ⟨by rw [e4]; exact q.ownFile, by rw [e3, e4]; exact q.preOwn, ?_, by rw [hp]; simp, ?_,
      by rw [hp]; simp [Pc.isCloseD], ?_, ?_⟩
    · rw [e5, ht]; exact fun hx => subPat_cons _ (q.synced hx)
    · rw [e6, ht]; exact fun hx => subPat_cons _ (q.dsynced hx)
    · rw [ht]; exact fun _ _ _ => subPat_cons _ hcl
    · intro _; rw [ht]; exact ⟨hp, by rw [e1]; exact hsu, hk, hi, subPat_push (by simp [isUnlinkSrc]) hcl⟩
  unfold exec; simp only [hpc]
  repeat' split
  all_goals first
    | exact key _ _ rfl rfl rfl rfl rfl rfl rfl rfl
    | exact key _ _ rfl rfl rfl rfl rfl f1 f3 f4

end

theorem q2_exec {c : Cfg α} {s : St α} (i : Inv c s) (hl : s.fs.srcLinked = true) (q : Q2 c s) : Q2 c (exec c s) := by
  cases hpc : s.pc with
  | openSrc => exact q2_exec_openSrc i hl q hpc
  | fstatSrc => exact q2_exec_fstatSrc i hl q hpc
  | closeSrcErr => exact q2_exec_closeSrcErr i hl q hpc
  | openDir => exact q2_exec_openDir i hl q hpc
  | unlinkForce => exact q2_exec_unlinkForce i hl q hpc
  | openDest => exact q2_exec_openDest i hl q hpc
  | closeDirErr => exact q2_exec_closeDirErr i hl q hpc
  | fstatDest => exact q2_exec_fstatDest i hl q hpc
  | lseekOut => exact q2_exec_lseekOut i hl q hpc
  | read => exact q2_exec_read i hl q hpc
  | readPoll => exact q2_exec_readPoll i hl q hpc
  | write => exact q2_exec_write i hl q hpc
  | writePoll => exact q2_exec_writePoll i hl q hpc
  | seekHole => exact q2_exec_seekHole i hl q hpc
  | fixPos => exact q2_exec_fixPos i hl q hpc
  | tailSeek => exact q2_exec_tailSeek i hl q hpc
  | fchownUid => exact q2_exec_attrs i hl q (Or.inl hpc)
  | fchownGid => exact q2_exec_attrs i hl q (Or.inr (Or.inl hpc))
  | fchmod => exact q2_exec_attrs i hl q (Or.inr (Or.inr hpc))
  | futimens => exact q2_exec_futimens i hl q hpc
  | fsyncFile => exact q2_exec_fsyncFile i hl q hpc
  | fsyncDir => exact q2_exec_fsyncDir i hl q hpc
  | closeDir => exact q2_exec_closeDir i hl q hpc
  | closeDest => exact q2_exec_closeDest i hl q hpc
  | statDest => exact q2_exec_statDest i hl q hpc
  | unlinkDest => exact q2_exec_unlinkDest i hl q hpc
  | closeSrc => exact q2_exec_closeSrc i hl q hpc
  | statSrc => exact q2_exec_statSrc i hl q hpc
  | unlinkSrc => exact q2_exec_unlinkSrc i hl q hpc
  | done => unfold exec; simp only [hpc]; exact q

theorem q2_preActions {c : Cfg α} {s : St α} (q : Q2 c s) : Q2 c (preActions c s) := by
  obtain ⟨h1, h2, h3, h4, h5, h6, h7, h8⟩ := q
  unfold preActions FS.replace
  simp only
  refine ⟨?_, ?_, ?_, ?_, ?_, ?_, ?_, ?_⟩
  all_goals (repeat' split)
  all_goals assumption

theorem q2_step {c : Cfg α} {s : St α} (hsp : SparseOk c.zero c.ops) (i : Inv c s) (q : Q2 c s) : Q2 c (step c s) := by
  unfold step
  split
  · exact q
  · rename_i hpc
    have i' := inv_preActions (c := c) i
    refine q2_exec i' ?_ (q2_preActions q)
    rw [preActions_srcLinked]
    cases hsl : s.fs.srcLinked with
    | true => rfl
    | false => exact absurd (i.srcGone hsl).1 hpc

theorem q2_runN {c : Cfg α} (hsp : SparseOk c.zero c.ops) (n : Nat) (s : St α) (i : Inv c s) (q : Q2 c s) :
    Q2 c (runN c n s) := by
  induction n generalizing s with
  | zero => exact q
  | succ n ih => exact ih _ (inv_step hsp i) (q2_step hsp i q)

theorem q2_start {c : Cfg α} (de : Bool) (k0 e0 : Nat) : Q2 c (start c de k0 e0) := by
  have b : Q2 c (start0 c de k0 e0) := by
    refine ⟨by simp [start0], by simp [start0], by simp [start0], by simp [start0], by simp [start0],
      by simp [start0, Pc.isCloseD], by simp [start0], by simp [start0]⟩
  have e : start c de k0 e0 = if c.o.stdin then continueLoop c (start0 c de k0 e0)
      else { start0 c de k0 e0 with blk := (start0 c de k0 e0).blk + 1 } := rfl
  rw [e]
  split
  · have fr := frame_continueLoop c (start0 c de k0 e0)
    refine ⟨by rw [fr.1.fs]; exact b.ownFile, fun _ => by rw [fr.1.fs]; simp [start0], by rw [fr.1.fs]; simp [start0],
      fun hx => absurd hx (continueLoop_ne_fsyncFile c _), by rw [fr.1.fs]; simp [start0], ?_, by rw [fr.1.fs]; simp [start0],
      by rw [fr.1.trace]; simp [start0]⟩
    intro h1 h2
    have := continueLoop_origin c (start0 c de k0 e0) (by simp [start0]) h1
    rw [this] at h2; simp at h2
  · exact ⟨b.ownFile, b.preOwn, b.synced, b.atFsync, b.dsynced, b.attrs, b.closed, b.srcUnl⟩

end XzVerif.XzIo
