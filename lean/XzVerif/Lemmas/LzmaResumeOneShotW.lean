/-
  The resumable LZMA1/LZMA2 decoder model (`Model/LzmaResume.lean`) given the COMPLETE input in its first call is the one-shot
  model (`Model/Lzma.lean`, `Model/Lzma2.lean`) for ANY output allowance, dictionary wraps included — except in ONE final
  situation, stated on the one-shot result (`StuckAtWrap`): the one-shot decoder ended "input ran out" (`Pending.stuck`) with the
  window position at `LZ_DICT_REPEAT_MAX`, i.e. (the only way the models can part) it ran out of input exactly when the window
  was full and output room was left, so that `decode_buffer` wrapped the window and called the coder once more. There the
  one-shot coder is dead (`Dead`: returns LZMA_OK, changes nothing) while the resumable model re-runs the interrupted symbol
  after the wrap; that this re-run is a no-op as well needs the idle/alignment lemmas (Lemmas/LzmaResumeIdle1.lean,
  LzmaResumeAlign.lean, LzmaResumeWrap1.lean) and is NOT shown here.
  (`callR_eq_oneshot_lzma2_unlessStuckAtWrap`, `callR_eq_oneshot_lzma1_unlessStuckAtWrap`, corollaries for `lzma2Decode` /
  `lzmaDecode`; no hypothesis on `props`, `uncomp`, `allowEopm`.) The exception needs the one-shot return code LZMA_OK as well
  (`…_unlessOkStuckAtWrap`), so for runs that ENDED (LZMA_STREAM_END or an error) the statement is unconditional
  (`callR_eq_oneshot_lzma2_of_ended`, `callR_eq_oneshot_lzma1_of_ended`, `lzma2Decode_eq_callR_of_ended`,
  `lzmaDecode_eq_callR_of_ended`). NOTE: "pending = stuck → ret = LZMA_OK" is NOT a property of the one-shot model
  (`exitPending` is `.stuck` for a DATA_ERROR exit too), which is why `Bad` carries the return code.

  Proof: the simulation of Lemmas/LzmaResumeOneShot.lean (`Fresh`, `EqP`, `SimOut`) with `dB_simW` instead of `dB_sim`: both
  `decode_buffer` loops run in lock step (same wrap, same limit) as long as the one-shot decoder is not stuck; when it is stuck and
  the loop goes on, the rest of the one-shot run is one dead iteration (`db_dead`) ending in `Bad`, which the hypothesis excludes.
  LZMA_PROG_ERROR of the one-shot run is excluded by `Coder.code_no_prog_error`. Core Lean only.
-/
import XzVerif.Lemmas.LzmaResumeOneShot
import XzVerif.Lemmas.C03Fuel

namespace XzVerif.LzmaR.OneShot
open XzVerif.RangeDec XzVerif.LzDict XzVerif.Lzma XzVerif.Lzma2

/-! ### the one-shot coder on a stuck state -/

/-- whatever the LZ layer does to `dp`, a call of the one-shot coder returns LZMA_OK and changes nothing -/
def Dead (code : St → Ret × St) (s : St) : Prop := ∀ d : DictPos, code { s with dp := d } = (.ok, { s with dp := d })

theorem dead_lzmaCall (s : St) (h : s.pending = .stuck) : Dead lzmaCall s := by
  intro d
  unfold lzmaCall
  rw [if_pos (by show (s.pending == .stuck) = true; rw [h]; rfl)]

theorem setL2_sub_self (s : St) : (setL2 s fun l => { l with compressedSize := l.compressedSize - (s.inPos - s.inPos) }) = s := by
  show ({ s with l2 := { s.l2 with compressedSize := s.l2.compressedSize - (s.inPos - s.inPos) } } : St) = s
  rw [Nat.sub_self, Nat.sub_zero]

theorem dead_lzma2Call (s : St) (h : s.pending = .stuck) (hq : s.l2.seq = .lzma) : Dead lzma2Call s := by
  intro d
  generalize hs' : ({ s with dp := d } : St) = s'
  have h' : s'.pending = .stuck := by rw [← hs']; exact h
  have hq' : s'.l2.seq = .lzma := by rw [← hs']; exact hq
  have e : lzma2Call s' = lzma2Loop (2 * (s'.inp.size - s'.inPos) + 3 + 1) s' := rfl
  rw [e, lzma2Loop_succ, l2Step_lzma s' hq', dead_lzmaCall_self s' h']
  unfold l2Lzma
  simp only []
  rw [if_neg (by rw [Nat.sub_self]; exact Nat.not_lt_zero _), if_pos (by decide)]
  show (Ret.ok, _) = (Ret.ok, s')
  rw [setL2_sub_self]
where
  dead_lzmaCall_self (s' : St) (h' : s'.pending = .stuck) : lzmaCall s' = (.ok, s') := by
    unfold lzmaCall
    rw [if_pos (by show (s'.pending == .stuck) = true; rw [h']; rfl)]

/-- a one-shot `lzma2_decode` from a state that is not stuck ends stuck only in SEQ_LZMA -/
theorem lzma2Loop_stuck_seq : ∀ (fuel : Nat) (s : St), s.pending ≠ .stuck → s.dp.pos ≤ s.dp.limit →
    (lzma2Loop fuel s).2.pending = .stuck → (lzma2Loop fuel s).2.l2.seq = .lzma
  | 0, s, h, _, hst => absurd hst h
  | f + 1, s, h, hl, hst => by
    rw [lzma2Loop_succ] at hst ⊢
    by_cases hq : s.l2.seq = .lzma
    · rw [l2Step_lzma s hq] at hst ⊢
      have hc := lzmaCall_sim { s := s } s ⟨rfl, rfl, h⟩
      have hend := hc.2.2.2
      have hw := (lzmaCall_spec s hl).1
      have hl2 : (lzmaCall s).2.l2.seq = .lzma := by rw [hw.l2]; exact hq
      have hlim' := hw.in_limit hl
      generalize lzmaCall s = y at hst hend hl2 hlim' ⊢
      obtain ⟨ret, Y⟩ := y
      unfold l2Lzma at hst ⊢
      simp only [] at hst hend hl2 hlim' ⊢
      by_cases c1 : Y.inPos - s.inPos > Y.l2.compressedSize
      · rw [if_pos c1] at hst ⊢
        exact hl2
      · rw [if_neg c1] at hst ⊢
        by_cases c2 : (ret != .streamEnd) = true
        · rw [if_pos c2] at hst ⊢
          exact hl2
        · rw [if_neg c2] at hst ⊢
          have hre : ret = .streamEnd := by simpa using c2
          by_cases c3 : (Y.l2.compressedSize - (Y.inPos - s.inPos) != 0) = true
          · rw [if_pos (by exact c3)] at hst ⊢
            exact hl2
          · rw [if_neg (by exact c3)] at hst ⊢
            exact lzma2Loop_stuck_seq f _ (hend hre) hlim' hst
    · have hk := l2Step_keep s hq
      cases hstp : l2Step s with
      | done x =>
        rw [hstp] at hk hst
        exact absurd hst (hk h)
      | next s1 =>
        rw [hstp] at hk hst
        exact lzma2Loop_stuck_seq f s1 (hk.1 h) (hk.2.2 hl) hst

/-! ### `decode_buffer` with wraps -/

/-- the one-shot state between `code` calls -/
structure GW (s : St) : Prop where
  inPos : s.inPos ≤ s.inp.size
  noReset : s.dp.needReset = false
  size : 576 ≤ s.dp.size
  pos_le : s.dp.pos ≤ s.dp.size

/-- the one-shot decoder ran out of input when the window had just been wrapped -/
def Bad (y : Ret × St) : Prop := y.1 = .ok ∧ y.2.pending = .stuck ∧ y.2.dp.pos = LZ_DICT_REPEAT_MAX

theorem prepDp_facts (d : DictPos) (n : Nat) (h : d.pos ≤ d.size) (hs : 576 ≤ d.size) :
    ((d.wrap).setLimit n).size = d.size ∧ ((d.wrap).setLimit n).needReset = d.needReset
    ∧ ((d.wrap).setLimit n).pos ≤ ((d.wrap).setLimit n).limit ∧ ((d.wrap).setLimit n).limit ≤ d.size
    ∧ (d.pos = d.size → ((d.wrap).setLimit n).pos = LZ_DICT_REPEAT_MAX) := by
  unfold DictPos.wrap DictPos.setLimit
  by_cases hp : d.pos = d.size
  · have hb : (d.pos == d.size) = true := by simpa using hp
    simp only [hb, if_true, LZ_DICT_REPEAT_MAX]
    refine ⟨by first | rfl | trivial, by first | rfl | trivial, by omega, ?_, fun _ => by first | rfl | trivial⟩
    have := Nat.min_le_right n (d.size - 288)
    omega
  · have hb : (d.pos == d.size) = false := by simpa using hp
    simp only [hb, Bool.false_eq_true, if_false]
    refine ⟨by first | rfl | trivial, by first | rfl | trivial, by omega, ?_, fun h => absurd h hp⟩
    have := Nat.min_le_right n (d.size - d.pos)
    omega

theorem dbPost_stop (N : Nat) (ret : Ret) (s2 : St) (hr : s2.dp.needReset = false)
    (c : (ret != .ok || s2.produced == N || decide (s2.dp.pos < s2.dp.size)) = true) :
    dbPost N (ret, s2) = .done (ret, s2) := by
  unfold dbPost
  simp only [hr, Bool.false_eq_true, if_false]
  rw [if_pos c]

theorem dbPost_cont (N : Nat) (ret : Ret) (s2 : St) (hr : s2.dp.needReset = false)
    (c : ¬ (ret != .ok || s2.produced == N || decide (s2.dp.pos < s2.dp.size)) = true) :
    dbPost N (ret, s2) = .next s2 := by
  unfold dbPost
  simp only [hr, Bool.false_eq_true, if_false]
  rw [if_neg c]

theorem dbPost_reset_stop (N : Nat) (ret : Ret) (s2 : St) (hr : s2.dp.needReset = true)
    (c : (ret != .ok || ({ s2 with dp := s2.dp.reset } : St).produced == N) = true) :
    dbPost N (ret, s2) = .done (ret, { s2 with dp := s2.dp.reset }) := by
  unfold dbPost
  simp only [hr, if_true]
  rw [if_pos c]

theorem dbPost_reset_cont (N : Nat) (ret : Ret) (s2 : St) (hr : s2.dp.needReset = true)
    (c : ¬ (ret != .ok || ({ s2 with dp := s2.dp.reset } : St).produced == N) = true) :
    dbPost N (ret, s2) = .next { s2 with dp := s2.dp.reset } := by
  unfold dbPost
  simp only [hr, if_true]
  rw [if_neg c]

/-- one more iteration of the one-shot `decode_buffer` on a dead state at the end of the window: wrap, nothing else -/
theorem db_dead (code : St → Ret × St) (N f : Nat) (s2 : St) (hD : Dead code s2) (hr : s2.dp.needReset = false)
    (hpos : s2.dp.pos = s2.dp.size) (hsz : 576 ≤ s2.dp.size) :
    decodeBuffer code (f + 1) N s2 = (.ok, { s2 with dp := (s2.dp.wrap).setLimit (N - s2.produced) }) := by
  have hf := prepDp_facts s2.dp (N - s2.produced) (by omega) hsz
  rw [decodeBuffer_succ]
  have e : dbPrep N s2 = { s2 with dp := (s2.dp.wrap).setLimit (N - s2.produced) } := rfl
  rw [e, hD, dbPost_stop]
  · rfl
  · show ((s2.dp.wrap).setLimit (N - s2.produced)).needReset = false
    rw [hf.2.1]; exact hr
  · have h1 : ((s2.dp.wrap).setLimit (N - s2.produced)).pos = LZ_DICT_REPEAT_MAX := hf.2.2.2.2 hpos
    have h2 := hf.1
    have : decide (({ s2 with dp := (s2.dp.wrap).setLimit (N - s2.produced) } : St).dp.pos
        < ({ s2 with dp := (s2.dp.wrap).setLimit (N - s2.produced) } : St).dp.size) = true := by
      show decide (((s2.dp.wrap).setLimit (N - s2.produced)).pos < ((s2.dp.wrap).setLimit (N - s2.produced)).size) = true
      rw [h1, h2]; simp only [LZ_DICT_REPEAT_MAX, decide_eq_true_eq]; omega
    rw [this]; simp

theorem dB_simW {codeR : RSt → Ret × RSt} {code : St → Ret × St}
    (hs : ∀ r s, Fresh r s → s.dp.pos ≤ s.dp.limit → SimOut s (codeR r) (code s))
    (hdead : ∀ s, s.pending ≠ .stuck → s.inPos ≤ s.inp.size → s.dp.pos ≤ s.dp.limit → (code s).2.pending = .stuck →
      Dead code (code s).2)
    (hcr : ∀ s, s.inPos ≤ s.inp.size → s.dp.pos ≤ s.dp.limit → Cr s (code s).2) (N : Nat) :
    ∀ (fuel : Nat) (r : RSt) (s : St), Fresh r s → GW s →
      (decodeBuffer code fuel N s).1 ≠ .progError → ¬ Bad (decodeBuffer code fuel N s) →
      (decodeBufferR codeR fuel N r).1 = (decodeBuffer code fuel N s).1
      ∧ EqP (decodeBufferR codeR fuel N r).2.s (decodeBuffer code fuel N s).2
  | 0, r, s, h, _, _, _ => ⟨rfl, by show EqP r.s s; rw [h.1]; exact EqP.refl _⟩
  | f + 1, r, s, h, hg, hnp, hnb => by
    rw [dB_succS]
    rw [decodeBuffer_succ] at hnp hnb ⊢
    have hfr1 : Fresh (r.map fun s => dbPrep N s) (dbPrep N s) := by
      refine ⟨?_, h.2.1, h.2.2⟩
      show dbPrep N r.s = dbPrep N s
      rw [h.1]
    have hf := prepDp_facts s.dp (N - s.produced) hg.pos_le hg.size
    have hprep : dbPrep N s = { s with dp := (s.dp.wrap).setLimit (N - s.produced) } := rfl
    generalize hs1 : dbPrep N s = s1 at hfr1 hprep hnp hnb ⊢
    generalize (r.map fun s => dbPrep N s) = r1 at hfr1
    have a1 : s1.inp = s.inp := by rw [hprep]
    have a2 : s1.inPos = s.inPos := by rw [hprep]
    have a7 : s1.dp.size = s.dp.size := by rw [hprep]; exact hf.1
    have a8 : s1.dp.needReset = false := by rw [hprep]; exact hf.2.1.trans hg.noReset
    have a9 : s1.dp.limit ≤ s.dp.size := by rw [hprep]; exact hf.2.2.2.1
    have hin1 : s1.inPos ≤ s1.inp.size := by rw [a1, a2]; exact hg.inPos
    have hl1 : s1.dp.pos ≤ s1.dp.limit := by rw [hprep]; exact hf.2.2.1
    have hso := hs r1 s1 hfr1 hl1
    have hc := hcr s1 hin1 hl1
    have hd := hdead s1 hfr1.2.2 hin1 hl1
    generalize code s1 = y at hso hc hd hnp hnb ⊢
    generalize codeR r1 = x at hso
    obtain ⟨ret, s2⟩ := y
    obtain ⟨ret', X⟩ := x
    obtain ⟨hret, heq, hdis⟩ := hso
    simp only [] at hret heq hdis hc hd
    subst hret
    have c1 := hc.inp; have c2 := hc.pos_le hin1; have c4 := hc.limit
    have c5 := hc.size; have c8 := hc.in_limit hl1
    have gsz : 576 ≤ s2.dp.size := by rw [c5, a7]; exact hg.size
    have gpl : s2.dp.pos ≤ s2.dp.size := by rw [c5, a7]; rw [c4] at c8; omega
    obtain ⟨xs, k, ov⟩ := X
    by_cases hr : s2.dp.needReset = true
    · -- the coder asked for a dictionary reset: it is not stuck
      have hfr2 : Fresh ⟨xs, k, ov⟩ s2 := by
        rcases hdis with ⟨_, h2⟩ | h2
        · rw [a8, hr] at h2; cases h2
        · exact h2
      obtain ⟨q1, q2, q3⟩ := hfr2
      simp only [] at q1 q2
      subst q1; subst q2
      unfold tailS
      simp only [hr, if_true]
      by_cases cnd : (ret' != .ok || ({ xs with dp := xs.dp.reset } : St).produced == N) = true
      · rw [if_pos (by exact cnd), dbPost_reset_stop N ret' xs hr cnd]
        exact ⟨rfl, EqP.refl _⟩
      · rw [if_neg (by exact cnd)]
        rw [dbPost_reset_cont N ret' xs hr cnd] at hnp hnb ⊢
        exact dB_simW hs hdead hcr N f _ _ ⟨rfl, rfl, q3⟩
          ⟨c2, rfl, gsz, by show LZ_DICT_INIT_POS ≤ xs.dp.size; simp only [LZ_DICT_INIT_POS]; omega⟩ hnp hnb
    · have hr' : s2.dp.needReset = false := by
        cases hh : s2.dp.needReset
        · rfl
        · exact absurd hh hr
      by_cases cnd : (ret' != .ok || s2.produced == N || decide (s2.dp.pos < s2.dp.size)) = true
      · -- both return
        have heq' : xs = { s2 with pending := xs.pending } := heq
        generalize xs.pending = p at heq'
        subst heq'
        unfold tailS
        simp only [hr', Bool.false_eq_true, if_false]
        rw [if_pos (by exact cnd), dbPost_stop N ret' s2 hr' cnd]
        exact ⟨rfl, rfl⟩
      · rw [dbPost_cont N ret' s2 hr' cnd] at hnp hnb ⊢
        rcases hdis with ⟨hst, _⟩ | hfr2
        · -- the one-shot decoder is stuck at the end of the window: excluded by the hypothesis
          exfalso
          have hpos : s2.dp.pos = s2.dp.size := by
            have : ¬ s2.dp.pos < s2.dp.size := by
              intro hlt
              apply cnd
              simp [hlt]
            omega
          cases f with
          | zero => exact hnp rfl
          | succ f =>
            simp only [runStep] at hnb
            rw [db_dead code N f s2 (hd hst) hr' hpos gsz] at hnb
            exact hnb ⟨rfl, hst, (prepDp_facts s2.dp (N - s2.produced) gpl gsz).2.2.2.2 hpos⟩
        · obtain ⟨q1, q2, q3⟩ := hfr2
          simp only [] at q1 q2
          subst q1; subst q2
          unfold tailS
          simp only [hr', Bool.false_eq_true, if_false]
          rw [if_neg (by exact cnd)]
          exact dB_simW hs hdead hcr N f _ _ ⟨rfl, rfl, q3⟩ ⟨c2, hr', gsz, gpl⟩ hnp hnb

theorem top_simW {codeR : RSt → Ret × RSt} {code : St → Ret × St}
    (hs : ∀ r s, Fresh r s → s.dp.pos ≤ s.dp.limit → SimOut s (codeR r) (code s))
    (hdead : ∀ s, s.pending ≠ .stuck → s.inPos ≤ s.inp.size → s.dp.pos ≤ s.dp.limit → (code s).2.pending = .stuck →
      Dead code (code s).2)
    (hcr : ∀ s, s.inPos ≤ s.inp.size → s.dp.pos ≤ s.dp.limit → Cr s (code s).2)
    (s0 : St) (outCap : Nat) (hns : s0.pending ≠ .stuck) (hg : GW s0) (hp : s0.produced = 0)
    (hnp : (decodeBuffer code (decodeBufferFuel s0 (s0.produced + outCap)) (s0.produced + outCap) s0).1 ≠ .progError)
    (hnb : ¬ Bad (decodeBuffer code (decodeBufferFuel s0 (s0.produced + outCap)) (s0.produced + outCap) s0)) :
    (decodeBufferR codeR (decodeBufferFuel s0 outCap) outCap { s := s0 }).1
        = (decodeBuffer code (decodeBufferFuel s0 (s0.produced + outCap)) (s0.produced + outCap) s0).1
    ∧ histFrom (decodeBufferR codeR (decodeBufferFuel s0 outCap) outCap { s := s0 }).2.s.hist
          (decodeBufferR codeR (decodeBufferFuel s0 outCap) outCap { s := s0 }).2.s.outBase
        = histFrom (decodeBuffer code (decodeBufferFuel s0 (s0.produced + outCap)) (s0.produced + outCap) s0).2.hist
          (decodeBuffer code (decodeBufferFuel s0 (s0.produced + outCap)) (s0.produced + outCap) s0).2.outBase
    ∧ (decodeBufferR codeR (decodeBufferFuel s0 outCap) outCap { s := s0 }).2.s.inPos
        = (decodeBuffer code (decodeBufferFuel s0 (s0.produced + outCap)) (s0.produced + outCap) s0).2.inPos := by
  rw [hp, Nat.zero_add] at hnp hnb ⊢
  have h := dB_simW hs hdead hcr outCap (decodeBufferFuel s0 outCap) { s := s0 } s0 ⟨rfl, rfl, hns⟩ hg hnp hnb
  refine ⟨h.1, ?_, ?_⟩
  · rw [h.2]
  · rw [h.2]

theorem gw_init (s : St) (dictSize presetLen : Nat) (hdp : s.dp = DictPos.init dictSize presetLen) (hin : s.inPos = 0) : GW s := by
  have h := lzOk_init dictSize presetLen s hdp
  exact ⟨by rw [hin]; exact Nat.zero_le _, h.noReset, h.size_ge, h.pos_le⟩

theorem hdead_lzma2 (s : St) (hns : s.pending ≠ .stuck) (_ : s.inPos ≤ s.inp.size) (hl : s.dp.pos ≤ s.dp.limit)
    (hst : (lzma2Call s).2.pending = .stuck) : Dead lzma2Call (lzma2Call s).2 :=
  dead_lzma2Call _ hst (lzma2Loop_stuck_seq _ s hns hl hst)

theorem hdead_lzma1 (s : St) (_ : s.pending ≠ .stuck) (_ : s.inPos ≤ s.inp.size) (_ : s.dp.pos ≤ s.dp.limit)
    (hst : (lzmaCall s).2.pending = .stuck) : Dead lzmaCall (lzmaCall s).2 :=
  dead_lzmaCall _ hst

end XzVerif.LzmaR.OneShot

namespace XzVerif.LzmaR
open XzVerif.RangeDec XzVerif.LzDict XzVerif.Lzma XzVerif.Lzma2 XzVerif.LzmaR.OneShot

/-- the one-shot coder ended "needs more input" with the dictionary window just wrapped (`pos = LZ_DICT_REPEAT_MAX`): the only
    final state in which the two models may have parted (see the file header) -/
def StuckAtWrap (c : Coder) : Prop := c.s.pending = .stuck ∧ c.s.dp.pos = LZ_DICT_REPEAT_MAX

/-- **LZMA2, any output allowance** (dictionary wraps included): the resumable model given the complete input in one call is the
    one-shot model, unless the one-shot result is `StuckAtWrap`. -/
theorem callR_eq_oneshot_lzma2_unlessOkStuckAtWrap (dictSize : Nat) (preset input : List UInt8) (outCap : Nat)
    (hns : ¬ (((Coder.initLzma2 dictSize preset (toBuf input)).code outCap).1 = .ok
      ∧ StuckAtWrap ((Coder.initLzma2 dictSize preset (toBuf input)).code outCap).2)) :
    let x := callR .lzma2 (toBuf input) outCap (initLzma2R dictSize preset)
    let y := (Coder.initLzma2 dictSize preset (toBuf input)).code outCap
    x.1 = y.1 ∧ x.2.output = y.2.output ∧ x.2.s.inPos = y.2.consumed := by
  intro x y
  have hnp := (Coder.code_no_prog_error _ outCap (Coder.ok2_initLzma2 dictSize preset (toBuf input))).1
  have ey : y = _ := Coder.code_lzma2 (Lzma2.initLzma2 dictSize preset (toBuf input)) outCap
  have ey' : (Coder.initLzma2 dictSize preset (toBuf input)).code outCap = _ :=
    Coder.code_lzma2 (Lzma2.initLzma2 dictSize preset (toBuf input)) outCap
  rw [ey'] at hnp hns
  have h := top_simW lzma2Call_sim hdead_lzma2 (fun s hi hl => lzma2Call_spec s hi hl)
    (Lzma2.initLzma2 dictSize preset (toBuf input)) outCap (by simp [Lzma2.initLzma2])
    (gw_init _ dictSize preset.length rfl rfl) (initLzma2_produced _ _ _) hnp (fun hb => hns ⟨hb.1, hb.2.1, hb.2.2⟩)
  rw [ey]
  exact h

/-- … unless the one-shot result is `StuckAtWrap` -/
theorem callR_eq_oneshot_lzma2_unlessStuckAtWrap (dictSize : Nat) (preset input : List UInt8) (outCap : Nat)
    (hns : ¬ StuckAtWrap ((Coder.initLzma2 dictSize preset (toBuf input)).code outCap).2) :
    let x := callR .lzma2 (toBuf input) outCap (initLzma2R dictSize preset)
    let y := (Coder.initLzma2 dictSize preset (toBuf input)).code outCap
    x.1 = y.1 ∧ x.2.output = y.2.output ∧ x.2.s.inPos = y.2.consumed :=
  callR_eq_oneshot_lzma2_unlessOkStuckAtWrap dictSize preset input outCap (fun h => hns h.2)

/-- **LZMA2, runs that ENDED** (the one-shot call returned LZMA_STREAM_END or an error): unconditional. -/
theorem callR_eq_oneshot_lzma2_of_ended (dictSize : Nat) (preset input : List UInt8) (outCap : Nat)
    (hend : ((Coder.initLzma2 dictSize preset (toBuf input)).code outCap).1 ≠ .ok) :
    let x := callR .lzma2 (toBuf input) outCap (initLzma2R dictSize preset)
    let y := (Coder.initLzma2 dictSize preset (toBuf input)).code outCap
    x.1 = y.1 ∧ x.2.output = y.2.output ∧ x.2.s.inPos = y.2.consumed :=
  callR_eq_oneshot_lzma2_unlessOkStuckAtWrap dictSize preset input outCap (fun h => hend h.1)

/-- **LZMA1, any output allowance**, same statement. -/
theorem callR_eq_oneshot_lzma1_unlessOkStuckAtWrap (props : Props) (dictSize : Nat) (uncomp : Option Nat) (allowEopm : Bool)
    (preset input : List UInt8) (outCap : Nat)
    (hns : ¬ (((Coder.initLzma1 props dictSize uncomp allowEopm preset (toBuf input)).code outCap).1 = .ok
      ∧ StuckAtWrap ((Coder.initLzma1 props dictSize uncomp allowEopm preset (toBuf input)).code outCap).2)) :
    let x := callR .lzma1 (toBuf input) outCap (initLzma1R props dictSize uncomp allowEopm preset)
    let y := (Coder.initLzma1 props dictSize uncomp allowEopm preset (toBuf input)).code outCap
    x.1 = y.1 ∧ x.2.output = y.2.output ∧ x.2.s.inPos = y.2.consumed := by
  intro x y
  have hnp := (Coder.code_no_prog_error _ outCap
    (Coder.ok2_initLzma1 props dictSize uncomp allowEopm preset (toBuf input))).1
  have ey : y = _ :=
    Coder.code_lzma1 (St.initLzma1 props dictSize uncomp (allowEopm || uncomp.isNone) preset (toBuf input)) outCap
  have ey' : (Coder.initLzma1 props dictSize uncomp allowEopm preset (toBuf input)).code outCap = _ :=
    Coder.code_lzma1 (St.initLzma1 props dictSize uncomp (allowEopm || uncomp.isNone) preset (toBuf input)) outCap
  rw [ey'] at hnp hns
  have h := top_simW lzmaCall_simOut hdead_lzma1 (fun s _ hl => (lzmaCall_spec s hl).1.toCr)
    (St.initLzma1 props dictSize uncomp (allowEopm || uncomp.isNone) preset (toBuf input)) outCap
    (by simp [St.initLzma1, St.resetLzma])
    (gw_init _ dictSize preset.length rfl rfl) (initLzma1_produced _ _ _ _ _ _) hnp (fun hb => hns ⟨hb.1, hb.2.1, hb.2.2⟩)
  rw [ey]
  exact h

/-- … unless the one-shot result is `StuckAtWrap` -/
theorem callR_eq_oneshot_lzma1_unlessStuckAtWrap (props : Props) (dictSize : Nat) (uncomp : Option Nat) (allowEopm : Bool)
    (preset input : List UInt8) (outCap : Nat)
    (hns : ¬ StuckAtWrap ((Coder.initLzma1 props dictSize uncomp allowEopm preset (toBuf input)).code outCap).2) :
    let x := callR .lzma1 (toBuf input) outCap (initLzma1R props dictSize uncomp allowEopm preset)
    let y := (Coder.initLzma1 props dictSize uncomp allowEopm preset (toBuf input)).code outCap
    x.1 = y.1 ∧ x.2.output = y.2.output ∧ x.2.s.inPos = y.2.consumed :=
  callR_eq_oneshot_lzma1_unlessOkStuckAtWrap props dictSize uncomp allowEopm preset input outCap (fun h => hns h.2)

/-- **LZMA1, runs that ENDED**: unconditional. -/
theorem callR_eq_oneshot_lzma1_of_ended (props : Props) (dictSize : Nat) (uncomp : Option Nat) (allowEopm : Bool)
    (preset input : List UInt8) (outCap : Nat)
    (hend : ((Coder.initLzma1 props dictSize uncomp allowEopm preset (toBuf input)).code outCap).1 ≠ .ok) :
    let x := callR .lzma1 (toBuf input) outCap (initLzma1R props dictSize uncomp allowEopm preset)
    let y := (Coder.initLzma1 props dictSize uncomp allowEopm preset (toBuf input)).code outCap
    x.1 = y.1 ∧ x.2.output = y.2.output ∧ x.2.s.inPos = y.2.consumed :=
  callR_eq_oneshot_lzma1_unlessOkStuckAtWrap props dictSize uncomp allowEopm preset input outCap (fun h => hend h.1)

/-- `lzma2Decode` computed by the resumable model, any output allowance (e.g. the default `UNLIMITED`) -/
theorem lzma2Decode_eq_callR_unlessStuckAtWrap' (dictSize : Nat) (preset input : List UInt8) (outCap : Nat)
    (hns : ¬ (((Coder.initLzma2 dictSize preset (toBuf input)).code outCap).1 = .ok
      ∧ StuckAtWrap ((Coder.initLzma2 dictSize preset (toBuf input)).code outCap).2)) :
    lzma2Decode dictSize input preset outCap =
      { ret := (callR .lzma2 (toBuf input) outCap (initLzma2R dictSize preset)).1,
        out := (callR .lzma2 (toBuf input) outCap (initLzma2R dictSize preset)).2.output,
        consumed := (callR .lzma2 (toBuf input) outCap (initLzma2R dictSize preset)).2.s.inPos } := by
  have h := callR_eq_oneshot_lzma2_unlessOkStuckAtWrap dictSize preset input outCap hns
  simp only [] at h
  rw [h.1, h.2.1, h.2.2]
  rfl

/-- `lzmaDecode` computed by the resumable model, any output allowance -/
theorem lzmaDecode_eq_callR_unlessStuckAtWrap' (props : Props) (dictSize : Nat) (uncomp : Option Nat) (allowEopm : Bool)
    (preset input : List UInt8) (outCap : Nat)
    (hns : ¬ (((Coder.initLzma1 props dictSize uncomp allowEopm preset (toBuf input)).code outCap).1 = .ok
      ∧ StuckAtWrap ((Coder.initLzma1 props dictSize uncomp allowEopm preset (toBuf input)).code outCap).2)) :
    lzmaDecode props dictSize uncomp allowEopm input preset outCap =
      { ret := (callR .lzma1 (toBuf input) outCap (initLzma1R props dictSize uncomp allowEopm preset)).1,
        out := (callR .lzma1 (toBuf input) outCap (initLzma1R props dictSize uncomp allowEopm preset)).2.output,
        consumed := (callR .lzma1 (toBuf input) outCap (initLzma1R props dictSize uncomp allowEopm preset)).2.s.inPos } := by
  have h := callR_eq_oneshot_lzma1_unlessOkStuckAtWrap props dictSize uncomp allowEopm preset input outCap hns
  simp only [] at h
  have ey := Coder.code_lzma1 (St.initLzma1 props dictSize uncomp (allowEopm || uncomp.isNone) preset (toBuf input)) outCap
  rw [initLzma1_produced, Nat.zero_add] at ey
  rw [h.1, h.2.1, h.2.2]
  show _ = DecResult.mk _ _ _
  rw [show Coder.initLzma1 props dictSize uncomp allowEopm preset (toBuf input)
        = ⟨.lzma1, St.initLzma1 props dictSize uncomp (allowEopm || uncomp.isNone) preset (toBuf input)⟩ from rfl, ey]
  rfl


theorem lzma2Decode_eq_callR_unlessStuckAtWrap (dictSize : Nat) (preset input : List UInt8) (outCap : Nat)
    (hns : ¬ StuckAtWrap ((Coder.initLzma2 dictSize preset (toBuf input)).code outCap).2) :
    lzma2Decode dictSize input preset outCap =
      { ret := (callR .lzma2 (toBuf input) outCap (initLzma2R dictSize preset)).1,
        out := (callR .lzma2 (toBuf input) outCap (initLzma2R dictSize preset)).2.output,
        consumed := (callR .lzma2 (toBuf input) outCap (initLzma2R dictSize preset)).2.s.inPos } :=
  lzma2Decode_eq_callR_unlessStuckAtWrap' dictSize preset input outCap (fun h => hns h.2)

theorem lzmaDecode_eq_callR_unlessStuckAtWrap (props : Props) (dictSize : Nat) (uncomp : Option Nat) (allowEopm : Bool)
    (preset input : List UInt8) (outCap : Nat)
    (hns : ¬ StuckAtWrap ((Coder.initLzma1 props dictSize uncomp allowEopm preset (toBuf input)).code outCap).2) :
    lzmaDecode props dictSize uncomp allowEopm input preset outCap =
      { ret := (callR .lzma1 (toBuf input) outCap (initLzma1R props dictSize uncomp allowEopm preset)).1,
        out := (callR .lzma1 (toBuf input) outCap (initLzma1R props dictSize uncomp allowEopm preset)).2.output,
        consumed := (callR .lzma1 (toBuf input) outCap (initLzma1R props dictSize uncomp allowEopm preset)).2.s.inPos } :=
  lzmaDecode_eq_callR_unlessStuckAtWrap' props dictSize uncomp allowEopm preset input outCap (fun h => hns h.2)

/-- `lzma2Decode` of a stream that ENDED (`ret ≠ .ok`), any output allowance: computed by the resumable model. -/
theorem lzma2Decode_eq_callR_of_ended (dictSize : Nat) (preset input : List UInt8) (outCap : Nat)
    (hend : (lzma2Decode dictSize input preset outCap).ret ≠ .ok) :
    lzma2Decode dictSize input preset outCap =
      { ret := (callR .lzma2 (toBuf input) outCap (initLzma2R dictSize preset)).1,
        out := (callR .lzma2 (toBuf input) outCap (initLzma2R dictSize preset)).2.output,
        consumed := (callR .lzma2 (toBuf input) outCap (initLzma2R dictSize preset)).2.s.inPos } :=
  lzma2Decode_eq_callR_unlessStuckAtWrap' dictSize preset input outCap (fun h => hend h.1)

/-- `lzmaDecode` of a stream that ENDED, any output allowance: computed by the resumable model. -/
theorem lzmaDecode_eq_callR_of_ended (props : Props) (dictSize : Nat) (uncomp : Option Nat) (allowEopm : Bool)
    (preset input : List UInt8) (outCap : Nat)
    (hend : (lzmaDecode props dictSize uncomp allowEopm input preset outCap).ret ≠ .ok) :
    lzmaDecode props dictSize uncomp allowEopm input preset outCap =
      { ret := (callR .lzma1 (toBuf input) outCap (initLzma1R props dictSize uncomp allowEopm preset)).1,
        out := (callR .lzma1 (toBuf input) outCap (initLzma1R props dictSize uncomp allowEopm preset)).2.output,
        consumed := (callR .lzma1 (toBuf input) outCap (initLzma1R props dictSize uncomp allowEopm preset)).2.s.inPos } := by
  apply lzmaDecode_eq_callR_unlessStuckAtWrap' props dictSize uncomp allowEopm preset input outCap
  intro h
  apply hend
  have ey := Coder.code_lzma1 (St.initLzma1 props dictSize uncomp (allowEopm || uncomp.isNone) preset (toBuf input)) outCap
  rw [initLzma1_produced, Nat.zero_add] at ey
  have h1 := h.1
  rw [show Coder.initLzma1 props dictSize uncomp allowEopm preset (toBuf input)
        = ⟨.lzma1, St.initLzma1 props dictSize uncomp (allowEopm || uncomp.isNone) preset (toBuf input)⟩ from rfl, ey] at h1
  exact h1

end XzVerif.LzmaR
