/-
  C17 invariant Q6 (EINTR / EAGAIN / short counts are harmless): as long as every failed call in the trace is a
  retryable one and no signal has arrived, the run is on its success path.
-/
import XzVerif.Lemmas.XzIoFrame

namespace XzVerif.XzIo
variable {α : Type}

/-- a call that succeeded, an EINTR/EAGAIN on read/write/poll, or the ENOENT of the `--force` unlink -/
def benign (e : Event) : Bool :=
  match e.res, e.call with
  | .ok _, _ => true
  | .err k, .read _ => k == EINTR || k == EAGAIN
  | .err k, .write _ => k == EINTR || k == EAGAIN
  | .err k, .poll _ => k == EINTR || k == EAGAIN
  | .err k, .unlinkForce => k == ENOENT
  | .err _, _ => false

/-- program counters only reached after something failed -/
def Pc.bad : Pc → Bool
  | .closeSrcErr | .closeDirErr | .statDest | .unlinkDest => true
  | _ => false

/-- program counters of io_close (and the end) -/
def Pc.fin : Pc → Bool
  | .tailSeek | .fchownUid | .fchownGid | .fchmod | .futimens | .fsyncFile | .fsyncDir | .closeDir | .closeDest
  | .closeSrc | .statSrc | .unlinkSrc | .done => true
  | _ => false

structure Happy (s : St α) : Prop where
  nb : s.pc.bad = false
  ok : s.pc.fin = true → s.success = true

variable (c : Cfg α)

theorem happy_closeSrcPhase (s : St α) (hs : s.success = true) : Happy (closeSrcPhase c s) := by
  unfold closeSrcPhase; split <;> exact ⟨rfl, fun _ => hs⟩

theorem happy_closeDestPhase (s : St α) (hs : s.success = true) : Happy (closeDestPhase c s) := by
  unfold closeDestPhase
  split
  · exact happy_closeSrcPhase c s hs
  · split <;> exact ⟨rfl, fun _ => hs⟩

theorem happy_afterAttrs (s : St α) (hs : s.success = true) : Happy (afterAttrs c s) := by
  unfold afterAttrs
  split
  · exact ⟨rfl, fun _ => hs⟩
  · exact happy_closeDestPhase c s hs

theorem happy_closeBlock (s : St α) (hs : s.success = true) : Happy (closeBlock c s) := by
  unfold closeBlock
  split
  · exact ⟨rfl, fun _ => hs⟩
  · exact happy_closeDestPhase c _ hs

theorem happy_ioClose (s : St α) (hs : s.success = true) : Happy (ioClose c s) := by
  unfold ioClose
  split
  · exact ⟨rfl, fun _ => hs⟩
  · exact happy_closeBlock c s hs

theorem happy_finish (hf : c.fin = .ok) (s : St α) : Happy (finish c s) := by
  unfold finish; rw [hf]; exact happy_ioClose c _ rfl

theorem happy_nextMain (hf : c.fin = .ok) (ops : List (Op α)) (s : St α) (hua : s.userAbort = false) :
    Happy (nextMain c ops s) := by
  induction ops generalizing s with
  | nil => unfold nextMain; exact happy_finish c hf _
  | cons op r ih =>
    cases op <;> unfold nextMain
    · simp only [hua]; exact ih s hua
    · split
      · exact ih s hua
      · exact ⟨rfl, fun h => by simp [Pc.fin] at h⟩
    · split
      · exact ih s hua
      · split
        · exact ih _ hua
        · split
          · exact ih s hua
          · split <;> exact ⟨rfl, fun h => by simp [Pc.fin] at h⟩
    · split
      · exact ih s hua
      · exact ⟨rfl, fun h => by simp [Pc.fin] at h⟩

theorem happy_doInit (hi : c.init = .ok) (hf : c.fin = .ok) (s : St α) (hua : s.userAbort = false) :
    Happy (doInit c s) := by
  unfold doInit; simp only
  split
  · rename_i h; rw [hi] at h; simp at h
  · split
    · rename_i h; have h' : s.userAbort = true := h; rw [hua] at h'; simp at h' 
    · split
      · exact happy_nextMain c hf _ _ hua
      · split
        · exact ⟨rfl, fun h => by simp [Pc.fin] at h⟩
        · split
          · exact ⟨rfl, fun h => by simp [Pc.fin] at h⟩
          · split <;> exact ⟨rfl, fun h => by simp [Pc.fin] at h⟩

theorem happy_nextPre (hi : c.init = .ok) (hf : c.fin = .ok) (ops : List (Op α)) (s : St α) (hua : s.userAbort = false) :
    Happy (nextPre c ops s) := by
  induction ops generalizing s with
  | nil => unfold nextPre; exact happy_doInit c hi hf s hua
  | cons op r ih =>
    cases op <;> unfold nextPre
    · exact ih s hua
    · split
      · exact ih s hua
      · exact ⟨rfl, fun h => by simp [Pc.fin] at h⟩
    · exact ih s hua
    · exact ih s hua

theorem happy_continueLoop (hi : c.init = .ok) (hf : c.fin = .ok) (s : St α) (hua : s.userAbort = false) :
    Happy (continueLoop c s) := by
  unfold continueLoop; split
  · exact happy_nextMain c hf _ s hua
  · exact happy_nextPre c hi hf _ s hua

theorem happy_afterWrite (hi : c.init = .ok) (hf : c.fin = .ok) (s : St α) (hua : s.userAbort = false) :
    Happy (afterWrite c s) := by
  unfold afterWrite; split
  · rename_i h; exact happy_closeBlock c s h
  · exact happy_continueLoop c hi hf s hua

/-- the invariant: retryable failures only and no signal ⇒ on the success path -/
def Q6 (s : St α) : Prop := (∀ e ∈ s.trace, benign e = true) → s.userAbort = false → Happy s

end XzVerif.XzIo
