/-
  LiveInv: label enablePartial, the end of a direct-mode threads_end, and the assembly over all reachable states.
-/
import XzVerif.Lemmas.MtDecLive7

namespace XzVerif.MtDec

theorem LiveInv.enablePartial {s s' : State} (h : LiveInv s) (hI : Inv s) (hs : step s .enablePartial = some s') :
    LiveInv s' := by
  simp only [step] at hs
  split at hs
  case isFalse => cases hs
  rename_i hpc
  have hpc : s.pc = .init5 := by simpa using hpc
  cases hs
  have hseq : s.seq = .thrInit := hI.2.initSeq (by simp [hpc])
  have h1 : LiveG HeadOn (enablePartialHead s) := (h.mono HeadOk.weak).enable hI.1
  obtain ⟨f, _⟩ := enablePartialHead_spec s
  obtain ⟨t, ht⟩ := h.thr5 hpc
  have eg : ∀ j, getW ({ enablePartialHead s with seq := Seq.thrRun, pc := MPc.seq } : State) j = getW (enablePartialHead s) j :=
    fun _ => rfl
  refine ⟨h1.own, ?_, h1.wrk, h1.tailW, ?_, h1.pub, h1.snap, h1.full, h1.pos, ?_, ?_, ?_, ?_, ?_, ?_⟩
  · intro j hj ho hb
    rcases h1.run j hj ho hb with x | ⟨x, _⟩
    · exact Or.inl x
    · rw [f.pc, hpc] at x; cases x
  · intro hh tl hq hf
    exact Or.inl (h1.head hh tl hq hf)
  · intro hx; cases hx
  · intro hx; cases hx
  · intro hx; cases hx
  · intro _; exact ⟨t, f.thr.trans ht⟩
  · intro hx; cases hx
  · intro hx; rcases hx with hx | hx | hx | hx <;> cases hx

/-- After a direct-mode threads_end there is no worker and no outbuf: everything holds vacuously. -/
theorem LiveInv.fresh {s : State} (hq : s.queue = []) (hw : s.workers = []) (hseq : s.seq = .directRun) (hpc : s.pc = .seq) :
    LiveInv s := by
  refine ⟨?_, ?_, ?_, ?_, ?_, ?_, ?_, ?_, ?_, ?_, ?_, ?_, ?_, ?_, ?_⟩
  · intro o ho; rw [hq] at ho; cases ho
  · intro j hj; rw [hw] at hj; cases hj
  · intro o ho; rw [hq] at ho; cases ho
  · intro hh t hq'; rw [hq] at hq'; cases hq'
  · intro hh t hq'; rw [hq] at hq'; cases hq'
  · intro j hj; rw [hw] at hj; cases hj
  · intro j hj; rw [hw] at hj; cases hj
  · intro j hj; rw [hw] at hj; cases hj
  · intro j hj; rw [hw] at hj; cases hj
  · intro hx; rw [hseq] at hx; cases hx
  · intro hx; rw [hseq] at hx; cases hx
  · intro hx; rw [hseq] at hx; cases hx
  · intro hx; rw [hseq] at hx; cases hx
  · intro hx; rw [hpc] at hx; cases hx
  · intro hx; rw [hpc] at hx; rcases hx with hx | hx | hx | hx <;> cases hx

/-- States in which LiveInv is claimed: no fatal value on its way out, threads_end not running, handle not freed. -/
def Steady (s : State) : Prop := exitCode s = none ∧ ¬ isEnding s.pc ∧ s.pc ≠ .ended

theorem rowIter_ok_of_steady {s s' : State} {c : Cause} (hI : Inv s) (hret : s.returned = none)
    (hs : step s (.rowIter c) = some s') (hx' : exitCode s' = none) :
    ∃ k w, rowKOf s.pc = some k ∧ s' = rowIterate s k w ∧ (readLoop (s.queue.length + 1) s).2 = OK := by
  have key : ∀ k w, rowKOf s.pc = some k → s' = rowIterate s k w → (readLoop (s.queue.length + 1) s).2 = OK := by
    intro k w hk e
    by_cases hok : (readLoop (s.queue.length + 1) s).2 = OK
    · exact hok
    · exfalso
      obtain ⟨_, _, _, dbad⟩ := readLoop_spec (s.queue.length + 1) hI.1
      have hb := dbad hok
      have hpc' : s'.pc = .rowDone k (readLoop (s.queue.length + 1) s).2 false := by
        rw [e]; unfold rowIterate; dsimp only; rw [if_pos (by simpa using hok)]
      have hr' : s'.returned = none := by
        obtain ⟨core, _⟩ := rowIterate_core s k w
        obtain ⟨f, _⟩ := readLoop_spec (s.queue.length + 1) hI.1
        rw [e, core.returned, f.returned]; exact hret
      have hfat : fatal (readLoop (s.queue.length + 1) s).2 = true := by simp [fatal, hb.nok.1, hb.nok.2]
      have : exitCode s' = some (readLoop (s.queue.length + 1) s).2 := by simp [exitCode, hr', hpc', hfat]
      rw [hx'] at this; cases this
  simp only [step] at hs
  split at hs
  · rename_i k w hpc
    injection hs with hs
    exact ⟨k, w, by rw [hpc]; rfl, hs.symm, key k w (by rw [hpc]; rfl) hs.symm⟩
  · rename_i k w hpc
    split at hs
    · injection hs with hs
      exact ⟨k, w, by rw [hpc]; rfl, hs.symm, key k w (by rw [hpc]; rfl) hs.symm⟩
    · cases hs
  · rename_i k w hpc
    injection hs with hs
    exact ⟨k, w, by rw [hpc]; rfl, hs.symm, key k w (by rw [hpc]; rfl) hs.symm⟩
  · cases hs

/-- A step into a steady state comes from a steady state, except the last step of a direct-mode threads_end. -/
theorem steady_back {s s' : State} {l : Label} (hs : step s l = some s') (hne : ¬ isEnding s'.pc) (hned : s'.pc ≠ .ended) :
    (¬ isEnding s.pc ∧ s.pc ≠ .ended) ∨
    (∃ j, s.pc = .endJoin j .direct ∧ s'.pc = .seq ∧ s'.seq = .directRun ∧ s'.workers = [] ∧ s'.queue = s.queue) := by
  cases hw : l.worker? with
  | some i =>
    have sh := workerShape hw hs
    rw [sh.pc] at hne hned
    exact Or.inl ⟨hne, hned⟩
  | none =>
    cases l <;> simp only [Label.worker?, reduceCtorEq] at hw <;> simp only [step] at hs
    case rowIter c =>
      left
      split at hs
      · rename_i hp; rw [hp]; exact ⟨(fun x => by cases x), (fun x => by cases x)⟩
      · rename_i hp; rw [hp]; exact ⟨(fun x => by cases x), (fun x => by cases x)⟩
      · rename_i hp; rw [hp]; exact ⟨(fun x => by cases x), (fun x => by cases x)⟩
      · cases hs
    case enablePartial =>
      left
      split at hs
      · rename_i hp
        have hp : s.pc = .init5 := by simpa using hp
        rw [hp]; exact ⟨(fun x => by cases x), (fun x => by cases x)⟩
      · cases hs
    case endJoin =>
      split at hs
      case h_2 => cases hs
      rename_i j k hpc
      split at hs
      · split at hs
        · cases hs; exact absurd trivial hne
        · cases hs
      · cases k
        · cases hs
          exact Or.inr ⟨j, hpc, rfl, rfl, rfl, rfl⟩
        · cases hs; exact absurd rfl hned
    all_goals (repeat' split at hs)
    all_goals first | (cases hs; done) | skip
    all_goals (cases hs)
    all_goals first
      | (left; refine ⟨?_, ?_⟩ <;> (intro hx; simp_all [isEnding]); done)
      | (exfalso; simp_all [isEnding]; done)

/-- LiveInv is preserved by every step between steady states (the Data/Control invariants are available there). -/
theorem liveInv_step {s s' : State} {l : Label} (h : LiveInv s) (hI : Inv s) (hx : exitCode s = none) (hret : s.returned = none)
    (hs : step s l = some s') (hx' : exitCode s' = none) (hne : ¬ isEnding s.pc) : LiveInv s' := by
  cases hw : l.worker? with
  | some i => exact h.worker hI.1 (by simp [hw]) hs
  | none =>
    cases hsim : l.liveSimple with
    | true => exact h.mainSimple hI hw hsim hs
    | false =>
      cases l <;> simp only [Label.liveSimple, reduceCtorEq] at hsim
      case rowIter c =>
        obtain ⟨k, w, hk, e, hok⟩ := rowIter_ok_of_steady hI hret hs hx'
        rw [e]; exact h.rowIterate hI k w hk hok
      case assign => exact h.assign hI hs
      case enablePartial => exact h.enablePartial hI hs
      case getThread => exact h.getThread hI hs
      case startThr => exact h.startThr hI hs
      case tell => exact h.tell hI hs
      case rowOk => exact h.rowOk hI hs
      case hdrGot => exact h.hdrGot hI hs
      case blockInit => exact h.blockInit hI hs
      case stopOne =>
        -- only enabled while a fatal value is on its way out
        exfalso
        simp only [step] at hs
        split at hs
        · rename_i i r hpc
          have : exitCode s = some r := by simp [exitCode, hret, hpc]
          rw [hx] at this; cases this
        · cases hs
      case endSet =>
        exfalso
        simp only [step] at hs
        split at hs
        · rename_i i k hpc; rw [hpc] at hne; exact hne trivial
        · cases hs
      case endJoin =>
        exfalso
        simp only [step] at hs
        split at hs
        · rename_i i k hpc; rw [hpc] at hne; exact hne trivial
        · cases hs

theorem LiveInv.reachable {cfg : Cfg} {blocks : List Block} (hwf : ∀ b ∈ blocks, b.WF) {s : State}
    (h : Reachable cfg blocks s) : Steady s → LiveInv s := by
  induction h with
  | init => intro _; exact LiveInv.init cfg blocks
  | @step s s' l hr hs ih =>
    intro ⟨hx', hne', hned'⟩
    have g := GInv.reachable hwf hr
    have hx := exitCode_none_back g hs hx'
    have hI := g.inv hx
    have hret : s.returned = none := by
      unfold exitCode at hx
      split at hx
      · cases hx
      · assumption
    rcases steady_back hs hne' hned' with ⟨hne, hned⟩ | ⟨j, hpc, e1, e2, e3, e4⟩
    · exact liveInv_step (ih ⟨hx, hne, hned⟩) hI hx hret hs hx' hne
    · have hq : s.queue = [] := (hI.2.endDirect ⟨j, Or.inr hpc⟩).2
      exact LiveInv.fresh (e4.trans hq) e3 e2 e1

end XzVerif.MtDec
