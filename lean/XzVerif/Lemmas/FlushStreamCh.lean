/-
  C12 ↔ C01/C02, Stream level: the chunk-specification invariant of Lemmas/FlushC01Props.lean (`ChunkInvP`) carried through
  the single-threaded Stream encoder model (`StreamEnc`), next to the abstract invariant `StreamInv` of FlushStream2.lean.
  For every Block that LZMA_FULL_FLUSH / LZMA_FULL_BARRIER / LZMA_FINISH has closed: its body is chunks ++ end marker ++
  Block Padding ++ Check, its Index Record is (header size + compressed size + check size, uncompressed size), the sizes
  are within the format limits, and the executable LZMA2 decoder decodes the Compressed Data field to the Block data.
  Scope: chains of exactly one LZMA2 filter (pre-filters are the identity in the flush model); lc/lp/pb and dict_size may
  change with every `lzma_filters_update`, also in the middle of a Block.
-/
import XzVerif.Lemmas.FlushStream2
import XzVerif.Lemmas.FlushC01Props
import XzVerif.Lemmas.E2EChunks
import XzVerif.Lemmas.FlushTruncPLe

namespace XzVerif.FlushC01
open XzVerif XzVerif.Flush XzVerif.Lzma XzVerif.LzmaSym XzVerif.LzmaSpec XzVerif.LzmaExec XzVerif.Lzma2Enc

/-- ghost facts about an open Block in terms of the chunk specification -/
structure BlockCh (dictSize : Nat) (b : BlockEnc St) : Prop where
  cmax : b.emitted.length ≤ COMPRESSED_SIZE_MAX
  umax : b.data.length ≤ Vli.VLI_MAX
  ch : ∃ sw p0, p0.valid = true ∧ ChunkInvP sw p0 dictSize b.raw.l2 b.emitted

/-- a Block that LZMA_FINISH / LZMA_FULL_FLUSH / LZMA_FULL_BARRIER has closed: chunks, end marker, padding, check -/
def ClosedCh (E : Env St) (dictSize : Nat) (checkId : Nat) (emitted data : Bytes) (csize : Nat) : Prop :=
  ∃ bytes l sw p0, emitted = bytes ++ [0] ++ blockTail E checkId (bytes.length + 1) data ∧ csize = bytes.length + 1 ∧
    bytes.length + 1 ≤ COMPRESSED_SIZE_MAX ∧ data.length ≤ Vli.VLI_MAX ∧ p0.valid = true ∧
    ChunkInvP sw p0 dictSize l bytes ∧ l.unenc = [] ∧ l.hist = data

theorem BlockEnc.code_ch {E : Env St} (dictSize : Nat) (hd : dictSize ≤ 4294967295) (P : Parser) (hS : (lzmaCodec dictSize P).Sound)
    {b : BlockEnc St} (hb : BlockOk (lzmaCodec dictSize P) b) (hc : BlockCh dictSize b) (inp : Bytes) (a : Action)
    (ha : a = .run ∨ a = .syncFlush ∨ a = .finish)
    (hret : (b.code E (lzmaCodec dictSize P) inp a).2.2.2 = .ok ∨ (b.code E (lzmaCodec dictSize P) inp a).2.2.2 = .streamEnd) :
    (returnsInnerRet a (b.code E (lzmaCodec dictSize P) inp a).2.2.2 = true → BlockCh dictSize (b.code E (lzmaCodec dictSize P) inp a).1) ∧
    (returnsInnerRet a (b.code E (lzmaCodec dictSize P) inp a).2.2.2 = false →
      ClosedCh E dictSize b.checkId (b.code E (lzmaCodec dictSize P) inp a).1.emitted (b.data ++ inp)
        (b.code E (lzmaCodec dictSize P) inp a).1.compressedSize) := by
  rw [BlockEnc.code_eq E _ b hb.seq inp a] at hret ⊢
  by_cases hv : Vli.VLI_MAX - b.uncompressedSize < inp.length
  · simp [hv] at hret
  simp only [hv, if_false] at hret ⊢
  have hnr : (refusesSync a && !b.raw.pre.canSync) = false := by
    by_cases hr : (refusesSync a && !b.raw.pre.canSync) = true
    · exfalso
      have hsync : a = .syncFlush := by
        cases a <;> simp [refusesSync] at hr ⊢
      subst hsync
      have hcs : b.raw.pre.canSync = false := by simpa [refusesSync] using hr
      have href := RawEnc.sync_refused E (lzmaCodec dictSize P) b.raw (Or.inr hcs) inp
      simp only [href] at hret
      by_cases hcm : COMPRESSED_SIZE_MAX - b.compressedSize < (b.raw.code E (lzmaCodec dictSize P) inp .syncFlush).2.1.length
      · simp [hcm] at hret
      · simp [hcm, returnsInnerRet] at hret
    · simpa using hr
  obtain ⟨k, hk1, hk2, hcode⟩ := RawEnc.code_l2 E (lzmaCodec dictSize P) b.raw hb.lzma2 inp a hnr
  rw [hcode] at hret ⊢
  simp only at hret ⊢
  generalize hdel : (b.raw.pre.held ++ inp).take ((b.raw.pre.held ++ inp).length - k) = delivered at hret ⊢
  generalize hheld : (b.raw.pre.held ++ inp).drop ((b.raw.pre.held ++ inp).length - k) = held' at hret ⊢
  by_cases hcm : COMPRESSED_SIZE_MAX - b.compressedSize < (b.raw.l2.code (lzmaCodec dictSize P) delivered a).2.1.length
  · simp [hcm] at hret
  simp only [hcm, if_false, List.take_length] at hret ⊢
  obtain ⟨sw, p0, hp0, hci⟩ := hc.ch
  obtain ⟨k1, k2⟩ := l2_code_chunksP dictSize hd P hS sw p0 hci delivered a
  obtain ⟨d0, _, had0, hdata0⟩ := hb.dec []
  obtain ⟨c1, _, c3, c4, _, _⟩ := l2_code_spec hS b.raw.l2 d0 had0 delivered a []
  have hus : b.uncompressedSize = b.data.length := hb.usize
  have hcs : b.compressedSize = b.emitted.length := hb.csize
  have hcmax := hc.cmax
  have humax := hc.umax
  by_cases hri : returnsInnerRet a (b.raw.l2.code (lzmaCodec dictSize P) delivered a).2.2 = true
  · simp only [hri, if_true]
    refine ⟨fun _ => ?_, by simp⟩
    have hanf : a ≠ .finish := by
      intro haf; subst haf
      have := (c4 (by decide)).1
      simp [this, returnsInnerRet] at hri
    refine ⟨?_, ?_, sw, p0, hp0, k1 hanf⟩
    · show (b.emitted ++ _).length ≤ _
      simp only [List.length_append]; omega
    · show (b.data ++ _).length ≤ _
      simp only [List.length_append]; omega
  · have hri' : returnsInnerRet a (b.raw.l2.code (lzmaCodec dictSize P) delivered a).2.2 = false := by simpa using hri
    have haf : a = .finish := by
      rcases ha with h | h | h
      · subst h; simp [c3 rfl, returnsInnerRet] at hri'
      · subst h; simp [returnsInnerRet] at hri'
      · exact h
    subst haf
    have hk0 := hk2 (Or.inl (by decide))
    subst hk0
    have hdl : delivered = b.raw.pre.held ++ inp := by
      rw [← hdel]; exact List.take_of_length_le (by simp)
    subst hdl
    have hfalse : returnsInnerRet Action.finish Ret.streamEnd = false := by decide
    simp only [hri', Bool.false_eq_true, if_false, hfalse]
    refine ⟨fun h => (by cases h), fun _ => ?_⟩
    obtain ⟨hre, hun⟩ := c4 (by decide)
    obtain ⟨bytes, hbytes, hcb⟩ := k2 rfl hre
    have hlen : bytes.length + 1 = b.emitted.length + (b.raw.l2.code (lzmaCodec dictSize P) (b.raw.pre.held ++ inp) .finish).2.1.length := by
      have := congrArg List.length hbytes
      simp only [List.length_append, List.length_cons, List.length_nil] at this
      omega
    refine ⟨bytes, _, sw, p0, ?_, ?_, ?_, ?_, hp0, hcb, hun, ?_⟩
    · rw [← hbytes, hcs, hlen]
    · rw [hcs, hlen]
    · omega
    · simp only [List.length_append]; omega
    · rw [hun, List.append_nil] at c1
      rw [c1, ← hdata0]
      simp [List.append_assoc]

/-! ### Stream level -/

/-- a chain of exactly one LZMA2 filter with acceptable options, whose dictionary is at least `dictSize` (the bound on
    match distances of the chunk codec in use) -/
def SingleL2 (dictSize : Nat) (fs : Chain) : Prop := ∃ f, fs = [f] ∧ f.id = ID_LZMA2 ∧ f.memOk = true ∧ dictSize ≤ f.dict

/-- ghost facts about a finished Block and its Index Record -/
structure DoneCh (E : Env St) (dictSize : Nat) (check : Nat) (b : DoneBlock) (rec : Nat × Nat) : Prop where
  chain : SingleL2 dictSize b.chain
  closed : ∃ hs csize, blockHeaderSize b.chain none none = .ok hs ∧ rec = (hs + csize + checkSize check, b.data.length) ∧
      ClosedCh E dictSize check b.body b.data csize
  nonempty : b.data ≠ []

structure StreamCh (E : Env St) (dictSize : Nat) (s : StreamEnc St) : Prop where
  filters : SingleL2 dictSize s.filters
  doneCh : ∀ (i : Nat) (b : DoneBlock), s.done[i]? = some b → ∃ r, s.records[i]? = some r ∧ DoneCh E dictSize s.check b r
  openCh : s.seq = .blockEncode → BlockCh dictSize s.block ∧ SingleL2 dictSize s.openChain ∧ blockHeaderSize s.openChain none none = .ok s.headerSize

theorem getElem?_snoc_cases {α β : Type} (l : List α) (x : α) (m : List β) (y : β) (hlen : m.length = l.length)
    (Q : α → β → Prop) (hold : ∀ (i : Nat) (a : α), l[i]? = some a → ∃ r, m[i]? = some r ∧ Q a r) (hnew : Q x y) :
    ∀ (i : Nat) (a : α), (l ++ [x])[i]? = some a → ∃ r, (m ++ [y])[i]? = some r ∧ Q a r := by
  intro i a h
  rcases getElem?_append_one l x i a h with h1 | ⟨h1, h2⟩
  · obtain ⟨r, hr, hq⟩ := hold i a h1
    have hi : i < m.length := by
      have := List.getElem?_eq_some_iff.mp hr
      exact this.1
    exact ⟨r, by rw [List.getElem?_append_left hi]; exact hr, hq⟩
  · subst h1 h2
    refine ⟨y, ?_, hnew⟩
    rw [← hlen]; simp

/-- SEQ_BLOCK_ENCODE -/
theorem StreamCh.encode {E : Env St} (dictSize : Nat) (hd : dictSize ≤ 4294967295) (P : Parser) (hS : (lzmaCodec dictSize P).Sound)
    (hEc : ∀ i, E.codec i = lzmaCodec dictSize P) {s : StreamEnc St} (h : StreamCh E dictSize s) (hs : s.seq = .blockEncode)
    (hb : BlockOk (lzmaCodec dictSize P) s.block) (hck : s.block.checkId = s.check) (hrl : s.records.length = s.done.length)
    (fuel : Nat) (inp : Bytes) (a : Action) (hne : s.block.data ≠ [] ∨ inp ≠ [])
    (hret : (StreamEnc.code E (fuel + 3) s inp a).2.2.2 = .ok ∨ (StreamEnc.code E (fuel + 3) s inp a).2.2.2 = .streamEnd) :
    StreamCh E dictSize (StreamEnc.code E (fuel + 3) s inp a).1 := by
  obtain ⟨hbc, hoc, hhs⟩ := h.openCh hs
  rw [StreamEnc.code_encode E fuel s hs inp a] at hret ⊢
  rw [hEc] at hret ⊢
  have hconv := convert_cases a
  by_cases hri : returnsInnerRet a (s.block.code E (lzmaCodec dictSize P) inp (convert a)).2.2.2 = true
  · rw [if_pos hri] at hret ⊢
    simp only at hret
    have hch := (BlockEnc.code_ch dictSize hd P hS hb hbc inp (convert a) hconv hret).1 (by rw [returnsInnerRet_convert]; exact hri)
    exact ⟨h.filters, h.doneCh, fun _ => ⟨hch, hoc, hhs⟩⟩
  · rw [if_neg hri] at hret ⊢
    have hri' : returnsInnerRet a (s.block.code E (lzmaCodec dictSize P) inp (convert a)).2.2.2 = false := by simpa using hri
    -- the inner call ended with LZMA_STREAM_END
    have hinner : (s.block.code E (lzmaCodec dictSize P) inp (convert a)).2.2.2 = .ok ∨
        (s.block.code E (lzmaCodec dictSize P) inp (convert a)).2.2.2 = .streamEnd := by
      cases hr : (s.block.code E (lzmaCodec dictSize P) inp (convert a)).2.2.2 <;> first | (left; rfl) | (right; rfl) | skip
      all_goals (rw [hr] at hri'; cases a <;> simp [returnsInnerRet] at hri')
    obtain ⟨_, _, e3, e4, e5, _, _⟩ := BlockEnc.code_spec hS hb inp (convert a) hconv hinner
    have hcl := (BlockEnc.code_ch dictSize hd P hS hb hbc inp (convert a) hconv hinner).2 (by rw [returnsInnerRet_convert]; exact hri')
    have hnew : DoneCh E dictSize s.check
        { chain := s.openChain, data := (s.block.code E (lzmaCodec dictSize P) inp (convert a)).1.data,
          body := (s.block.code E (lzmaCodec dictSize P) inp (convert a)).1.emitted }
        (s.headerSize + (s.block.code E (lzmaCodec dictSize P) inp (convert a)).1.compressedSize + checkSize s.check,
          (s.block.code E (lzmaCodec dictSize P) inp (convert a)).1.uncompressedSize) := by
      refine ⟨hoc, ⟨s.headerSize, (s.block.code E (lzmaCodec dictSize P) inp (convert a)).1.compressedSize, hhs, ?_, ?_⟩, ?_⟩
      · simp only [e5, e3]
      · simp only [e3]; rw [← hck]; exact hcl
      · simp only [e3]
        rcases hne with h1 | h1
        · intro h2; exact h1 (List.append_eq_nil_iff.mp h2).1
        · intro h2; exact h1 (List.append_eq_nil_iff.mp h2).2
    have hdone := getElem?_snoc_cases s.done _ s.records _ hrl (DoneCh E dictSize s.check) h.doneCh hnew
    cases hbi : blockInitNoInput a with
    | some ret => exact ⟨h.filters, hdone, fun hx => by cases hx⟩
    | none => exact ⟨h.filters, hdone, fun hx => by cases hx⟩

/-- a freshly initialised Block encoder -/
theorem BlockCh.fresh {dictSize : Nat} {P : Parser} {fs : Chain} {check : Nat} {b : BlockEnc St} {h : Nat}
    (hok : streamBlockInit (lzmaCodec dictSize P) fs check = .ok (b, h)) : BlockCh dictSize b := by
  obtain ⟨_, hb, f, hl, hk, hv⟩ := streamBlockInit_ok hok
  subst hb
  have : lastProps fs = f.props := by simp [lastProps, hl]
  refine ⟨Nat.zero_le _, Nat.zero_le _, false, f.props, hv, ?_⟩
  simp only [RawEnc.init, this]
  exact ChunkInvP.init f.props dictSize P

/-- SEQ_BLOCK_INIT with input -/
theorem StreamCh.init_data {E : Env St} (dictSize : Nat) (hd : dictSize ≤ 4294967295) (P : Parser) (hS : (lzmaCodec dictSize P).Sound)
    (hEc : ∀ i, E.codec i = lzmaCodec dictSize P) {s : StreamEnc St} (h : StreamCh E dictSize s) (hs : s.seq = .blockInit)
    (hinit : s.blockInited = true → streamBlockInit (E.codec s.records.length) s.filters s.check = .ok (s.block, s.headerSize))
    (hrl : s.records.length = s.done.length) (fuel : Nat) (inp : Bytes) (hne : inp ≠ []) (a : Action)
    (hret : (StreamEnc.code E (fuel + 4) s inp a).2.2.2 = .ok ∨ (StreamEnc.code E (fuel + 4) s inp a).2.2.2 = .streamEnd) :
    StreamCh E dictSize (StreamEnc.code E (fuel + 4) s inp a).1 := by
  rw [StreamEnc.code_init_data E (fuel + 3) s hs inp hne a] at hret ⊢
  have hx : (if s.blockInited = true then Except.ok (s.block, s.headerSize)
      else streamBlockInit (E.codec s.records.length) s.filters s.check) = streamBlockInit (E.codec s.records.length) s.filters s.check := by
    by_cases hbi : s.blockInited = true
    · rw [if_pos hbi, hinit hbi]
    · rw [if_neg hbi]
  rw [hx] at hret ⊢
  cases hsi : streamBlockInit (E.codec s.records.length) s.filters s.check with
  | error r => simp only; exact h
  | ok p =>
    obtain ⟨b, hh⟩ := p
    rw [hsi] at hret
    simp only at hret ⊢
    rw [hEc] at hsi
    obtain ⟨hbok, _, hdata, hchk⟩ := BlockOk.fresh hsi
    have hhs := (streamBlockInit_ok hsi).1
    have h1 : StreamCh E dictSize { s with blockInited := false, block := b, headerSize := hh, seq := .blockEncode, openChain := s.filters } :=
      ⟨h.filters, h.doneCh, fun _ => ⟨BlockCh.fresh hsi, h.filters, hhs⟩⟩
    exact StreamCh.encode dictSize hd P hS hEc h1 rfl hbok hchk hrl fuel inp a (Or.inr hne) hret

/-- SEQ_BLOCK_INIT without input -/
theorem StreamCh.init_empty {E : Env St} (dictSize : Nat) {s : StreamEnc St} (h : StreamCh E dictSize s) (hs : s.seq = .blockInit)
    (fuel : Nat) (a : Action) : StreamCh E dictSize (StreamEnc.code E (fuel + 2) s [] a).1 := by
  rw [StreamEnc.code_init_empty E fuel s hs a]
  cases blockInitNoInput a with
  | some r => exact h
  | none => exact ⟨h.filters, h.doneCh, fun hx => by cases hx⟩

/-- one operation of `stream_encode` that does not fail, from any resting state -/
theorem StreamCh.code {E : Env St} {F : Fmt} (dictSize : Nat) (hd : dictSize ≤ 4294967295) (P : Parser) (hS : (lzmaCodec dictSize P).Sound)
    (hEc : ∀ i, E.codec i = lzmaCodec dictSize P) {s : StreamEnc St} {out input : Bytes}
    (h : StreamCh E dictSize s) (hok : StreamOk E F s out input false) (inp : Bytes) (a : Action)
    (hret : (StreamEnc.code E 8 s inp a).2.2.2 = .ok ∨ (StreamEnc.code E 8 s inp a).2.2.2 = .streamEnd) :
    StreamCh E dictSize (StreamEnc.code E 8 s inp a).1 := by
  rcases hok.seqs rfl with hs | hs | hs
  · rw [StreamEnc.code_header E 7 s hs inp a] at hret ⊢
    simp only at hret ⊢
    have h' : StreamCh E dictSize { s with seq := .blockInit } := ⟨h.filters, h.doneCh, fun hx => by cases hx⟩
    by_cases hne : inp = []
    · subst hne; exact StreamCh.init_empty dictSize h' rfl 5 a
    · exact StreamCh.init_data dictSize hd P hS hEc h' rfl (fun hbi => (hok.inited hbi).2) hok.recs 3 inp hne a hret
  · by_cases hne : inp = []
    · subst hne; exact StreamCh.init_empty dictSize h hs 6 a
    · exact StreamCh.init_data dictSize hd P hS hEc h hs (fun hbi => (hok.inited hbi).2) hok.recs 4 inp hne a hret
  · obtain ⟨hbok, hchk⟩ := hok.openOk hs
    rw [← hok.recs, hEc] at hbok
    exact StreamCh.encode dictSize hd P hS hEc h hs hbok hchk hok.recs 5 inp a (Or.inl (hok.openNe hs)) hret

/-- `block_encoder_update` -/
theorem BlockCh.update {dictSize : Nat} {C : Codec St} {b : BlockEnc St} (hb : BlockOk C b) (hc : BlockCh dictSize b) (fs : Chain) :
    BlockCh dictSize (b.update fs).1 := by
  have key : (b.update fs).1 = b ∨ ∃ p, (b.update fs).1 = { b with raw := { b.raw with l2 := (b.raw.l2.optionsUpdate p).1 } } := by
    unfold BlockEnc.update
    have hne : (b.seq != BSeq.code) = false := by rw [hb.seq]; rfl
    simp only [hne, Bool.false_eq_true, if_false]
    cases fs.getLast? with
    | none => left; simp
    | some n =>
      cases b.raw.chain.getLast? with
      | none => left; simp
      | some c =>
        simp only
        by_cases hid : n.id = c.id
        · simp only [hid]
          rcases RawEnc.update_l2 b.raw fs with h | ⟨p, h⟩
          · left; simp [h]
          · right; exact ⟨p, by simp [h]⟩
        · left; simp [hid]
  rcases key with h | ⟨p, h⟩
  · rw [h]; exact hc
  · rw [h]
    obtain ⟨sw, p0, hp0, hci⟩ := hc.ch
    obtain ⟨sw', hci'⟩ := optionsUpdate_chunksP hci p
    exact ⟨hc.cmax, hc.umax, sw', p0, hp0, hci'⟩

/-- `stream_encoder_update` with a chain of one LZMA2 filter -/
theorem StreamCh.update {E : Env St} {F : Fmt} (dictSize : Nat) {s : StreamEnc St} {out input : Bytes} {fin : Bool}
    (h : StreamCh E dictSize s) (hok : StreamOk E F s out input fin) (fs : Chain) (hfs : SingleL2 dictSize fs) :
    StreamCh E dictSize (s.update (E.codec s.records.length) fs).1 := by
  unfold StreamEnc.update
  by_cases hlen : fs.length > FILTERS_MAX
  · simp only [hlen, if_true]; exact h
  simp only [hlen, if_false]
  by_cases h1 : s.seq.code ≤ SSeq.blockInit.code
  · simp only [h1, if_true]
    have hnb : s.seq ≠ .blockEncode := by intro hh; rw [hh] at h1; revert h1; decide
    cases hsi : streamBlockInit (E.codec s.records.length) fs s.check with
    | error r => exact ⟨h.filters, h.doneCh, fun hx => absurd hx hnb⟩
    | ok p =>
      obtain ⟨b, hh⟩ := p
      exact ⟨hfs, h.doneCh, fun hx => absurd hx hnb⟩
  · simp only [h1, if_false]
    by_cases h2 : s.seq.code ≤ SSeq.blockEncode.code
    · simp only [h2, if_true]
      by_cases hs : s.seq = .blockEncode
      · obtain ⟨hbc, hoc, hhs⟩ := h.openCh hs
        obtain ⟨hbok, _⟩ := hok.openOk hs
        have hb' := BlockCh.update hbok hbc fs
        by_cases hr : (s.block.update fs).2 = .ok
        · simp only [hr]
          exact ⟨hfs, h.doneCh, fun _ => ⟨hb', hoc, hhs⟩⟩
        · have : ((s.block.update fs).2 != .ok) = true := by simpa using hr
          simp only [this, if_true]
          exact ⟨h.filters, h.doneCh, fun _ => ⟨hb', hoc, hhs⟩⟩
      · by_cases hr : (s.block.update fs).2 = .ok
        · simp only [hr]
          exact ⟨hfs, h.doneCh, fun hx => absurd hx hs⟩
        · have : ((s.block.update fs).2 != .ok) = true := by simpa using hr
          simp only [this, if_true]
          exact ⟨h.filters, h.doneCh, fun hx => absurd hx hs⟩
    · simp only [h2, if_false]; exact h

/-! ### lzma_stream level -/

/-- histories whose `lzma_filters_update` calls pass one LZMA2 filter -/
def SingleOp (dictSize : Nat) : Flush.Op → Prop
  | .update fs => SingleL2 dictSize fs
  | .code _ _ => True

structure StreamChInv (E : Env St) (F : Fmt) (dictSize : Nat) (e : Enc St) (t : Trace) : Prop where
  inv : StreamInv E F e t
  ch : e.dead = false → ∃ s, e.core = .stream s ∧ StreamCh E dictSize s

theorem StreamChInv.step {E : Env St} {F : Fmt} (dictSize : Nat) (hd : dictSize ≤ 4294967295) (P : Parser)
    (hS : (lzmaCodec dictSize P).Sound) (hEc : ∀ i, E.codec i = lzmaCodec dictSize P) {e : Enc St} {t : Trace}
    (h : StreamChInv E F dictSize e t) (op : Flush.Op) (hop : SingleOp dictSize op) :
    StreamChInv E F dictSize (Enc.exec E (e, t) op).1 (Enc.exec E (e, t) op).2 := by
  have hE : ∀ i, (E.codec i).Sound := fun i => by rw [hEc]; exact hS
  refine ⟨StreamInv.step hE h.inv op, ?_⟩
  by_cases hal : e.dead = true
  · intro hd'; rw [Enc.exec_dead E e t op hal] at hd'; cases hd'
  have hal' : e.dead = false := by simpa using hal
  obtain ⟨s, hcore, hch⟩ := h.ch hal'
  obtain ⟨s0, hcore0, hok⟩ := h.inv.core hal'
  rw [hcore] at hcore0; cases hcore0
  cases op with
  | update fs =>
    simp only [Enc.exec, Enc.step, Enc.updateOp, Flush.Op.data, List.take_nil, List.append_nil]
    by_cases hm : memusageOk fs = true
    · simp only [hm, Bool.not_true, Bool.false_eq_true, if_false, hcore]
      intro _
      exact ⟨_, rfl, StreamCh.update dictSize hch hok fs hop⟩
    · simp only [hm, Bool.not_false, if_true]
      intro _; exact ⟨s, hcore, hch⟩
  | code a data =>
    by_cases hfin : e.finished = true
    · have hs : e.supported.testBit a.code = true := by rw [h.inv.sup]; exact supportedStream_all a
      simp only [Enc.exec, Enc.step, Enc.codeOp, hal', Bool.false_eq_true, if_false, hs, Bool.not_true, hfin, if_true, Flush.Op.data,
        List.take_zero, List.append_nil]
      intro _; exact ⟨s, hcore, hch⟩
    · have hnf : e.finished = false := by simpa using hfin
      intro halive
      obtain ⟨s', hc', hok', c1, _, _, _, _, _, hstep⟩ := StreamInv.code_step hE h.inv hal' hnf a data halive
      rw [hcore] at hc'; cases hc'
      refine ⟨_, c1, ?_⟩
      have hret : (StreamEnc.code E 8 s data a).2.2.2 = .ok ∨ (StreamEnc.code E 8 s data a).2.2.2 = .streamEnd := by
        rw [hstep.ret]; by_cases ha : a = .run <;> simp [ha]
      exact StreamCh.code dictSize hd P hS hEc hch hok' data a hret

theorem StreamChInv.execAll {E : Env St} {F : Fmt} (dictSize : Nat) (hd : dictSize ≤ 4294967295) (P : Parser)
    (hS : (lzmaCodec dictSize P).Sound) (hEc : ∀ i, E.codec i = lzmaCodec dictSize P) :
    ∀ (ops : List Flush.Op) (e : Enc St) (t : Trace), (∀ op ∈ ops, SingleOp dictSize op) → StreamChInv E F dictSize e t →
      StreamChInv E F dictSize (ops.foldl (Enc.exec E) (e, t)).1 (ops.foldl (Enc.exec E) (e, t)).2
  | [], e, t, _, h => h
  | op :: rest, e, t, hk, h => by
    simp only [List.foldl_cons]
    exact StreamChInv.execAll dictSize hd P hS hEc rest _ _ (fun o ho => hk o (List.mem_cons_of_mem _ ho))
      (StreamChInv.step dictSize hd P hS hEc h op (hk op List.mem_cons_self))

theorem StreamChInv.init (E : Env St) (F : Fmt) (dictSize : Nat) {fs : Chain} {check : Nat} (hfs : SingleL2 dictSize fs)
    (hacc : (StreamEnc.init (E.codec 0) fs check).2 = .ok) : StreamChInv E F dictSize (Enc.streamInit E fs check) {} := by
  refine ⟨StreamInv.init E F hacc, fun _ => ⟨_, rfl, ?_⟩⟩
  unfold StreamEnc.init StreamEnc.update at hacc ⊢
  by_cases hlen : fs.length > FILTERS_MAX
  · simp [hlen] at hacc
  simp only [hlen, if_false] at hacc ⊢
  have h1 : SSeq.streamHeader.code ≤ SSeq.blockInit.code := by decide
  simp only [h1, if_true] at hacc ⊢
  cases hsi : streamBlockInit (E.codec 0) fs check with
  | error r =>
    simp only [hsi] at hacc
    exact absurd hacc (streamBlockInit_error hsi).1
  | ok p =>
    obtain ⟨b, hh⟩ := p
    simp only
    exact ⟨hfs, (by intro i b hx; simp at hx), (by intro hx; cases hx)⟩

/-! ### the decoder facts of a closed Block -/

theorem ChunksP.mono {d d' : Nat} (hdd : d ≤ d') {buf : ByteArray} {base : Nat} {sw : Bool} {p p' : Lzma.Props} {C CF : L2Cfg}
    {bytes : List UInt8} (h : ChunksP d buf base sw p C bytes p' CF) : ChunksP d' buf base sw p C bytes p' CF := by
  induction h with
  | nil p C => exact ChunksP.nil p C
  | chunk hc _ ih => exact ChunksP.chunk (hc.mono hdd) ih
  | switch hp _ ih => exact ChunksP.switch hp ih

theorem ChunkInvP.mono {d d' : Nat} (hdd : d ≤ d') {sw : Bool} {p0 : Flush.Props} {l : L2 St} {out : Bytes}
    (h : ChunkInvP sw p0 d l out) : ChunkInvP sw p0 d' l out := fun buf hbuf => ChunksP.mono hdd (h buf hbuf)

/-- The Compressed Data field of a closed Block (chunks ++ end marker) under the executable LZMA2 decoder with ANY
    dictionary size that is at least the encoder's: the Block's data, LZMA_STREAM_END, every byte consumed. -/
theorem ClosedCh.decodes {E : Env St} {dictSize checkId : Nat} {emitted data : Bytes} {csize : Nat}
    (h : ClosedCh E dictSize checkId emitted data csize) :
    ∃ comp, emitted = comp ++ blockTail E checkId comp.length data ∧ csize = comp.length ∧ comp.length ≤ COMPRESSED_SIZE_MAX ∧
      data.length ≤ Vli.VLI_MAX ∧
      ∀ s cap, dictSize ≤ s → s ≤ 4294967295 → data.length < cap →
        Lzma2.lzma2Decode s comp [] cap = { ret := .streamEnd, out := data, consumed := comp.length } := by
  obtain ⟨bytes, l, sw, p0, he, hc, hcm, hum, hp0, hci, hun, hh⟩ := h
  refine ⟨bytes ++ [0], by simpa using he, by simpa using hc, by simpa using hcm, hum, ?_⟩
  intro s cap hs1 hs2 hcap
  have := chunkInvP_decodes s hs2 p0 hp0 (hci.mono hs1) hun cap (by rw [hh]; exact hcap)
  rw [hh] at this
  simpa using this

/-- `chunkInvP_decodes` with the output capacity equal to the data length allowed -/
theorem chunkInvP_decodes_le (dictSize : Nat) (hd : dictSize ≤ 4294967295) (p0 : Flush.Props) (hp : p0.valid = true) {sw : Bool}
    {l : L2 St} {bytes : Bytes} (h : ChunkInvP sw p0 dictSize l bytes) (hun : l.unenc = []) (cap : Nat) (hcap : l.hist.length ≤ cap) :
    Lzma2.lzma2Decode dictSize (bytes ++ [0]) [] cap = { ret := .streamEnd, out := l.hist, consumed := bytes.length + 1 } := by
  have hbuf : (hl (ByteArray.mk l.hist.toArray)).take (l.hist.length + l.unenc.length) = l.hist ++ l.unenc := by
    rw [hl_mk, hun]; simp
  have hch := h _ hbuf
  have hsz : (ByteArray.mk l.hist.toArray).size = l.hist.length := by rw [← hl_length, hl_mk]
  have := lzma2Decode_of_chunksP_le (toProps p0) (propsOk_of_valid hp) dictSize hd (ByteArray.mk l.hist.toArray) sw bytes _ _ hch
    (by simp [cfgOfL2, hsz]) cap (by rw [hsz]; exact hcap)
  simpa [hl_mk] using this

/-- `ClosedCh.decodes` in the form the container grammar needs (capacity ≥ data length, Compressed Data not empty) -/
theorem ClosedCh.decodes_le {E : Env St} {dictSize checkId : Nat} {emitted data : Bytes} {csize : Nat}
    (h : ClosedCh E dictSize checkId emitted data csize) :
    ∃ comp, emitted = comp ++ blockTail E checkId comp.length data ∧ csize = comp.length ∧ 1 ≤ comp.length ∧
      comp.length ≤ COMPRESSED_SIZE_MAX ∧ data.length ≤ Vli.VLI_MAX ∧
      ∀ s cap, dictSize ≤ s → s ≤ 4294967295 → data.length ≤ cap →
        Lzma2.lzma2Decode s comp [] cap = { ret := .streamEnd, out := data, consumed := comp.length } := by
  obtain ⟨bytes, l, sw, p0, he, hc, hcm, hum, hp0, hci, hun, hh⟩ := h
  refine ⟨bytes ++ [0], by simpa using he, by simpa using hc, by simp, by simpa using hcm, hum, ?_⟩
  intro s cap hs1 hs2 hcap
  have := chunkInvP_decodes_le s hs2 p0 hp0 (hci.mono hs1) hun cap (by rw [hh]; exact hcap)
  rw [hh] at this
  simpa using this

end XzVerif.FlushC01
