/-
  The bytes of the range encoder depend on the probability contexts only up to an injective renaming that respects the
  current probability values. (Why the encoder's position lag after uncompressed LZMA2 chunks, and the decoder's different
  position origin with a preset dictionary, are harmless: a constant position shift renames pos_state / literal-position
  contexts injectively, and after a state reset all probabilities are equal.)
-/
import XzVerif.Lemmas.RangeCoderAdaptive

namespace XzVerif.RangeCoder
open XzVerif.RangeDec XzVerif.RangeEnc

def opRename (f : Nat → Nat) : Op → Op
  | .bit c b => .bit (f c) b
  | .direct b => .direct b

/-- `ps2` is `ps1` seen through the renaming `f` -/
def Renamed (f : Nat → Nat) (ps1 ps2 : Probs) : Prop := ∀ c, c < ps1.size → f c < ps2.size ∧ ps2.getD (f c) 0 = ps1.getD c 0

theorem resolve_rename (f : Nat → Nat) (hinj : ∀ a b, f a = f b → a = b) : ∀ (ops : List Op) (ps1 ps2 : Probs),
    Renamed f ps1 ps2 → (∀ op ∈ ops, Op.ctxOk ps1.size op = true) →
    (resolve ps2 (ops.map (opRename f))).1 = (resolve ps1 ops).1
  | [], _, _, _, _ => rfl
  | .bit c b :: ops, ps1, ps2, hr, hc => by
    have hc0 : c < ps1.size := by
      have := hc (.bit c b) (List.mem_cons_self ..)
      simpa [Op.ctxOk] using this
    obtain ⟨hfc, hv⟩ := hr c hc0
    simp only [List.map_cons, opRename, resolve, hv]
    congr 1
    apply resolve_rename f hinj ops
    · intro c' hc'
      rw [Array.size_setIfInBounds] at hc'
      obtain ⟨hfc', hv'⟩ := hr c' hc'
      refine ⟨by rw [Array.size_setIfInBounds]; exact hfc', ?_⟩
      rw [getD_set, getD_set]
      by_cases hcc : c = c'
      · subst hcc; simp [hc0, hfc]
      · have : ¬ (f c = f c') := fun h => hcc (hinj _ _ h)
        simp [hcc, this, hv']
    · intro op hop
      rw [Array.size_setIfInBounds]
      exact hc op (List.mem_cons_of_mem _ hop)
  | .direct b :: ops, ps1, ps2, hr, hc => by
    simp only [List.map_cons, opRename, resolve]
    congr 1
    exact resolve_rename f hinj ops ps1 ps2 hr (fun op hop => hc op (List.mem_cons_of_mem _ hop))

/-- the produced bytes are invariant under the renaming -/
theorem rcEncode_rename (f : Nat → Nat) (hinj : ∀ a b, f a = f b → a = b) (ops : List Op) (ps1 ps2 : Probs)
    (hr : Renamed f ps1 ps2) (hc : ∀ op ∈ ops, Op.ctxOk ps1.size op = true) :
    (rcEncode ps2 (ops.map (opRename f))).1 = (rcEncode ps1 ops).1 := by
  simp only [rcEncode, encOps_resolve, resolve_rename f hinj ops ps1 ps2 hr hc]

end XzVerif.RangeCoder
