/-
  The grammar `ValidXz` (Lemmas/XzDecodeStream.lean) is functional: a byte string has at most one reading as a sequence
  of valid Streams, hence at most one decoded output and one consumed length.  Kernel proofs, core Lean only.
-/
import XzVerif.Lemmas.XzDecodeStream
namespace XzVerif.XzDecode
open XzVerif XzVerif.Vli XzVerif.Container

theorem indexEncode_head (rs : List IndexRecord) : ∃ t, indexEncode rs = 0 :: t := by
  unfold indexEncode
  simp only [INDEX_INDICATOR, List.cons_append]
  exact ⟨_, rfl⟩

theorem FooterFacts.head_zero {hdr : StreamFlags} {blocks : HashInfo} {inp : List UInt8} {s : SRes}
    (F : FooterFacts hdr blocks inp s) : inp.head? = some 0 := by
  obtain ⟨t, ht⟩ := indexEncode_head blocks
  have h := F.index_bytes
  rw [ht] at h
  cases inp with
  | nil => simp at h
  | cons a l =>
    have hl := F.index_len
    rw [ht] at hl
    cases hn : indexHashSize blocks with
    | zero => rw [hn] at hl; simp at hl
    | succ n =>
      rw [hn, List.take_succ_cons] at h
      simp only [List.cons.injEq] at h
      simp [h.1]

theorem BlocksRun_inv {E : Env} {fl : Flags} {hdr : StreamFlags} {blocks : HashInfo} {inp : List UInt8} {cap : Nat}
    {out : List UInt8} {c : Nat} {final : HashInfo} (r : BlocksRun E fl hdr blocks inp cap out c final) :
    (out = [] ∧ c = 0 ∧ final = blocks) ∨
    (∃ (b0 : UInt8) (tl : List UInt8) (h : BlockHeader) (b : BRes) (out' : List UInt8) (c' : Nat),
      inp = b0 :: tl ∧ b0.toNat ≠ 0 ∧
      blockHeaderDecodeWith ((b0.toNat + 1) * 4) hdr.check (inp.take ((b0.toNat + 1) * 4)) = .ok h ∧
      blockDecode E hdr.check fl.ignoreCheck ((b0.toNat + 1) * 4) h (inp.drop ((b0.toNat + 1) * 4)) cap = b ∧
      b.ret = .streamEnd ∧ (b0.toNat + 1) * 4 ≤ inp.length ∧
      out = b.out ++ out' ∧ c = (b0.toNat + 1) * 4 + b.consumed + c' ∧
      BlocksRun E fl hdr (blocks ++ [⟨b.compressed + (b0.toNat + 1) * 4 + checkSize hdr.check, b.out.length⟩])
        (inp.drop ((b0.toNat + 1) * 4 + b.consumed)) (cap - b.out.length) out' c' final) := by
  cases r with
  | done => exact Or.inl ⟨rfl, rfl, rfl⟩
  | block b0 tl h b out' c' _ h1 h2 h3 h4 h5 h6 h7 h8 h9 =>
    exact Or.inr ⟨_, _, _, _, _, _, by assumption, by assumption, by assumption, by assumption, by assumption, by assumption,
      rfl, rfl, by assumption⟩

theorem BlocksRun_functional {E : Env} {fl : Flags} {hdr : StreamFlags} {blocks : HashInfo} {inp : List UInt8} {cap : Nat}
    {out : List UInt8} {c : Nat} {final : HashInfo} (r1 : BlocksRun E fl hdr blocks inp cap out c final) :
    ∀ {out' : List UInt8} {c' : Nat} {final' : HashInfo}, BlocksRun E fl hdr blocks inp cap out' c' final' →
      (inp.drop c).head? = some 0 → (inp.drop c').head? = some 0 → out = out' ∧ c = c' ∧ final = final' := by
  induction r1 with
  | done blocks inp cap =>
    intro out' c' final' r2 hz hz'
    rcases BlocksRun_inv r2 with ⟨h1, h2, h3⟩ | ⟨b0, tl, h, b, out2, c2, hinp, hb0, _⟩
    · subst h1 h2 h3; exact ⟨rfl, rfl, rfl⟩
    · subst hinp
      simp only [List.drop_zero, List.head?_cons, Option.some.injEq] at hz
      rw [hz] at hb0; simp at hb0
  | block blocks inp cap b0 tl h b out1 c1 final hinp hb0 hlen hh hv hbd hbret hF hsub ih =>
    intro out' c' final' r2 hz hz'
    rcases BlocksRun_inv r2 with ⟨h1, h2, h3⟩ | ⟨b0', tl', h', b', out2, c2, hinp', hb0', hh', hbd', _, _, ho, hc, hsub'⟩
    · subst h2
      subst hinp
      simp only [List.drop_zero, List.head?_cons, Option.some.injEq] at hz'
      rw [hz'] at hb0; simp at hb0
    · rw [hinp] at hinp'
      simp only [List.cons.injEq] at hinp'
      obtain ⟨e1, e2⟩ := hinp'
      subst e1 e2
      rw [hh] at hh'
      simp only [Except.ok.injEq] at hh'
      subst hh'
      rw [hbd] at hbd'
      subst hbd'
      subst ho hc
      rw [← List.drop_drop] at hz hz'
      obtain ⟨h1, h2, h3⟩ := ih hsub' hz hz'
      subst h1 h2 h3
      exact ⟨rfl, rfl, rfl⟩

theorem ValidStream_functional {E : Env} {fl : Flags} {inp : List UInt8} {cap : Nat} {out out' : List UInt8} {len len' : Nat}
    (v1 : ValidStream E fl inp cap out len) (v2 : ValidStream E fl inp cap out' len') : out = out' ∧ len = len' := by
  obtain ⟨hdr, c, final, s2, _, hh, hrun, hF, hlen, _⟩ := v1
  obtain ⟨hdr', c', final', s2', _, hh', hrun', hF', hlen', _⟩ := v2
  rw [hh] at hh'
  simp only [Except.ok.injEq] at hh'
  subst hh'
  have hz := hF.head_zero
  have hz' := hF'.head_zero
  rw [← List.drop_drop] at hz hz'
  obtain ⟨h1, h2, h3⟩ := BlocksRun_functional hrun hrun' hz hz'
  subst h1 h2 h3
  refine ⟨rfl, ?_⟩
  rw [hlen, hlen', hF.consumed_eq, hF'.consumed_eq]

theorem replicate_zero_split : ∀ (m m' : Nat) (b b' : UInt8) (r r' : List UInt8), b ≠ 0 → b' ≠ 0 →
    List.replicate m (0 : UInt8) ++ b :: r = List.replicate m' 0 ++ b' :: r' → m = m' ∧ b = b' ∧ r = r' := by
  intro m
  induction m with
  | zero =>
    intro m' b b' r r' hb hb' h
    cases m' with
    | zero => simpa using h
    | succ k => simp [List.replicate_succ] at h; exact absurd h.1 hb
  | succ m ih =>
    intro m' b b' r r' hb hb' h
    cases m' with
    | zero => simp [List.replicate_succ] at h; exact absurd h.1.symm hb'
    | succ k =>
      simp only [List.replicate_succ, List.cons_append, List.cons.injEq, true_and] at h
      obtain ⟨h1, h2, h3⟩ := ih k b b' r r' hb hb' h
      exact ⟨by omega, h2, h3⟩

theorem replicate_zero_ne (m m' : Nat) (b : UInt8) (r : List UInt8) (hb : b ≠ 0) :
    List.replicate m (0 : UInt8) ≠ List.replicate m' 0 ++ b :: r := by
  intro h
  have : b ∈ List.replicate m (0 : UInt8) := by rw [h]; simp
  exact hb (List.eq_of_mem_replicate this)

theorem ValidXz_functional {E : Env} {fl : Flags} {inp : List UInt8} {cap : Nat} {out : List UInt8} {n : Nat}
    (v1 : ValidXz E fl inp cap out n) : ∀ {out' : List UInt8} {n' : Nat}, ValidXz E fl inp cap out' n' → out = out' ∧ n = n' := by
  induction v1 with
  | single inp cap out len hc hv =>
    intro out' n' v2
    cases v2 with
    | single _ _ _ _ hc' hv' => exact ValidStream_functional hv hv'
    | last _ _ _ _ k hc' => rw [hc] at hc'; simp at hc'
    | more _ _ _ _ k b rest out2 c2 hc' => rw [hc] at hc'; simp at hc'
  | last inp cap out len k hc hv hpad =>
    intro out' n' v2
    cases v2 with
    | single _ _ _ _ hc' => rw [hc] at hc'; simp at hc'
    | last _ _ out2 len2 k' hc' hv' hpad' =>
      obtain ⟨h1, h2⟩ := ValidStream_functional hv hv'
      subst h1 h2
      rw [hpad] at hpad'
      have := congrArg List.length hpad'
      simp only [List.length_replicate] at this
      exact ⟨rfl, by omega⟩
    | more _ _ out2 len2 k' b rest out3 c3 hc' hv' hpad' hb' =>
      obtain ⟨h1, h2⟩ := ValidStream_functional hv hv'
      subst h1 h2
      rw [hpad] at hpad'
      exact absurd hpad' (replicate_zero_ne _ _ _ _ hb')
  | more inp cap out len k b rest out2 c2 hc hv hpad hb hsub ih =>
    intro out' n' v2
    cases v2 with
    | single _ _ _ _ hc' => rw [hc] at hc'; simp at hc'
    | last _ _ out3 len3 k' hc' hv' hpad' =>
      obtain ⟨h1, h2⟩ := ValidStream_functional hv hv'
      subst h1 h2
      rw [hpad] at hpad'
      exact absurd hpad'.symm (replicate_zero_ne _ _ _ _ hb)
    | more _ _ out3 len3 k' b' rest' out4 c4 hc' hv' hpad' hb' hsub' =>
      obtain ⟨h1, h2⟩ := ValidStream_functional hv hv'
      subst h1 h2
      rw [hpad] at hpad'
      obtain ⟨e1, e2, e3⟩ := replicate_zero_split _ _ _ _ _ _ hb hb' hpad'
      subst e2 e3
      obtain ⟨f1, f2⟩ := ih hsub'
      subst f1 f2
      exact ⟨rfl, by omega⟩

end XzVerif.XzDecode
