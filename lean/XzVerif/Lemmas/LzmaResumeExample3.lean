/-
  Non-vacuity of the exact-window theorems (`runSlicedX`, Model/LzmaResumeRun.lean), kernel-evaluated: the stream of
  Lemmas/LzmaResumeExample.lean with `avail_in = avail_out = 1` in every call, and raggedly with empty calls, calls without output space
  and shrinking windows; a truncated input (settled with LZMA_OK); the chunk-overrun input (settled, flagged).
-/
import XzVerif.Model.LzmaResumeRun
import XzVerif.Lemmas.LzmaResumeExample2

namespace XzVerif.LzmaR
open XzVerif XzVerif.Lzma XzVerif.Lzma2

def showX (x : XRun) : Ret × List UInt8 × Nat × Bool × Bool := (x.ret, x.r.output, x.r.s.inPos, x.settled, x.r.overrun)

theorem ex_x_bytewise : showX (runSlicedX .lzma2 exStream (List.replicate 30 (1, 1)) { r := initLzma2R 4096 [] })
    = (.streamEnd, exPlain, 14, true, false) := by decide +kernel

theorem ex_x_ragged : showX (runSlicedX .lzma2 exStream [(5, 0), (0, 3), (9, 2), (2, 0), (1, 1), (9, 1), (9, 9), (9, 9)]
      { r := initLzma2R 4096 [] }) = (.streamEnd, exPlain, 14, true, false) := by decide +kernel

theorem ex_x_truncated : showX (runSlicedX .lzma2 (exStream.take 12) [(5, 0), (0, 3), (9, 2), (2, 0), (1, 1), (9, 1), (9, 9)]
      { r := initLzma2R 4096 [] }) = (.ok, [97], 12, true, false) := by decide +kernel

theorem ex_x_overrun : showX (runSlicedX .lzma2 exOverrun (List.replicate 30 (1, 1)) { r := initLzma2R 4096 [] })
    = (.dataError, exPlain, 14, true, true) := by decide +kernel

end XzVerif.LzmaR
