/-
  C13 helper lemmas: the concrete model (Model/IndexImpl.lean) refines the list-of-records specification.
  `Impl.Inv` is the representation invariant; `abs` the abstraction function.
-/
import XzVerif.Lemmas.IndexSpecL

namespace XzVerif.Index
namespace Impl

/-! ### cumulative Records ↔ Blocks -/

/-- Records are cumulative: each Unpadded sum starts from the previous one rounded up to 4. -/
def RecsOk : List Rec → Nat → Nat → Prop
  | [], _, _ => True
  | r :: rest, pu, pc => vliCeil4 pu ≤ r.unpaddedSum ∧ pc ≤ r.uncompressedSum ∧ RecsOk rest r.unpaddedSum r.uncompressedSum

def lastUnp (recs : List Rec) (pu : Nat) : Nat := (recs.getLast?.map (·.unpaddedSum)).getD pu
def lastUnc (recs : List Rec) (pc : Nat) : Nat := (recs.getLast?.map (·.uncompressedSum)).getD pc

theorem lastUnp_cons (r : Rec) (rest : List Rec) (pu : Nat) : lastUnp (r :: rest) pu = lastUnp rest r.unpaddedSum := by
  unfold lastUnp
  cases rest with
  | nil => simp
  | cons a b =>
    rw [List.getLast?_cons_cons]
    cases h : (a :: b).getLast? with
    | none => simp at h
    | some z => simp

theorem lastUnc_cons (r : Rec) (rest : List Rec) (pc : Nat) : lastUnc (r :: rest) pc = lastUnc rest r.uncompressedSum := by
  unfold lastUnc
  cases rest with
  | nil => simp
  | cons a b =>
    rw [List.getLast?_cons_cons]
    cases h : (a :: b).getLast? with
    | none => simp at h
    | some z => simp

theorem blocksOfRecs_sums : ∀ (recs : List Rec) (pu pc : Nat), RecsOk recs pu pc →
    vliCeil4 (lastUnp recs pu) = vliCeil4 pu + blocksSize (blocksOfRecs recs pu pc)
    ∧ lastUnc recs pc = pc + uncompSize (blocksOfRecs recs pu pc)
  | [], pu, pc, _ => by simp [lastUnp, lastUnc, blocksOfRecs, blocksSize, uncompSize]
  | r :: rest, pu, pc, h => by
    obtain ⟨h1, h2, h3⟩ := h
    obtain ⟨ih1, ih2⟩ := blocksOfRecs_sums rest r.unpaddedSum r.uncompressedSum h3
    rw [lastUnp_cons, lastUnc_cons, ih1, ih2]
    simp only [blocksOfRecs, blocksSize, uncompSize, List.map_cons, List.sum_cons]
    constructor
    · have : vliCeil4 r.unpaddedSum = vliCeil4 pu + vliCeil4 (r.unpaddedSum - vliCeil4 pu) := by
        unfold vliCeil4 at *; omega
      omega
    · omega

theorem blocksOfRecs_append : ∀ (recs : List Rec) (pu pc : Nat) (r : Rec),
    blocksOfRecs (recs ++ [r]) pu pc
      = blocksOfRecs recs pu pc ++ [⟨r.unpaddedSum - vliCeil4 (lastUnp recs pu), r.uncompressedSum - lastUnc recs pc⟩]
  | [], pu, pc, r => by simp [blocksOfRecs, lastUnp, lastUnc]
  | a :: rest, pu, pc, r => by
    simp only [List.cons_append, blocksOfRecs, lastUnp_cons, lastUnc_cons]
    rw [blocksOfRecs_append rest]

theorem recsOk_append : ∀ (recs : List Rec) (pu pc : Nat) (r : Rec), RecsOk recs pu pc →
    vliCeil4 (lastUnp recs pu) ≤ r.unpaddedSum → lastUnc recs pc ≤ r.uncompressedSum → RecsOk (recs ++ [r]) pu pc
  | [], pu, pc, r, _, h1, h2 => by simpa [RecsOk, lastUnp, lastUnc] using ⟨h1, h2⟩
  | a :: rest, pu, pc, r, h, h1, h2 => by
    obtain ⟨ha, hb, hc⟩ := h
    rw [lastUnp_cons] at h1; rw [lastUnc_cons] at h2
    exact ⟨ha, hb, recsOk_append rest _ _ r hc h1 h2⟩

theorem blocksOfRecs_length : ∀ (recs : List Rec) (pu pc : Nat), (blocksOfRecs recs pu pc).length = recs.length
  | [], _, _ => rfl
  | r :: rest, pu, pc => by simp [blocksOfRecs, blocksOfRecs_length rest]

/-! ### group bases -/

/-- the Records of the groups before group `k` -/
def recsBefore (gs : List Group) (k : Nat) : List Rec := (gs.take k).flatMap fun g => g.records.toList

/-- every group starts where the Records before it end: `uncompressed_base` / `compressed_base` are the last
    cumulative sums before the group (the latter rounded up to 4), `number_base` is the number of its first Record -/
def GroupsOk (gs : List Group) : Prop :=
  ∀ (k : Nat) (g : Group), gs[k]? = some g →
    g.uncompressedBase = lastUnc (recsBefore gs k) 0 ∧ g.compressedBase = vliCeil4 (lastUnp (recsBefore gs k) 0)
    ∧ g.numberBase = (recsBefore gs k).length + 1

theorem groupsOk_nil : GroupsOk [] := by intro k g h; simp at h

theorem recsBefore_snoc_of_le (front : List Group) (g : Group) {k : Nat} (hk : k ≤ front.length) :
    recsBefore (front ++ [g]) k = recsBefore front k := by
  unfold recsBefore; rw [List.take_append_of_le_length hk]

theorem recsBefore_length_eq (gs : List Group) : recsBefore gs gs.length = gs.flatMap fun g => g.records.toList := by
  unfold recsBefore; rw [List.take_length]

/-- appending a group whose bases continue the Records so far -/
theorem groupsOk_snoc {gs : List Group} (h : GroupsOk gs) (g : Group)
    (h1 : g.uncompressedBase = lastUnc (gs.flatMap fun g => g.records.toList) 0)
    (h2 : g.compressedBase = vliCeil4 (lastUnp (gs.flatMap fun g => g.records.toList) 0))
    (h3 : g.numberBase = (gs.flatMap fun g => g.records.toList).length + 1) : GroupsOk (gs ++ [g]) := by
  intro k x hx
  by_cases hk : k < gs.length
  · rw [List.getElem?_append_left hk] at hx
    rw [recsBefore_snoc_of_le gs g (by omega)]
    exact h k x hx
  · have hlen := (List.getElem?_eq_some_iff.mp hx).1
    simp only [List.length_append, List.length_cons, List.length_nil] at hlen
    have hke : k = gs.length := by omega
    subst hke
    have : x = g := by simpa using hx.symm
    subst this
    rw [recsBefore_snoc_of_le gs x (Nat.le_refl _), recsBefore_length_eq]
    exact ⟨h1, h2, h3⟩

/-- replacing the last group by one with the same bases (more Records, or a smaller `allocated`) -/
theorem groupsOk_replace_last {front : List Group} {g g' : Group} (h : GroupsOk (front ++ [g]))
    (h1 : g'.uncompressedBase = g.uncompressedBase) (h2 : g'.compressedBase = g.compressedBase)
    (h3 : g'.numberBase = g.numberBase) : GroupsOk (front ++ [g']) := by
  intro k x hx
  by_cases hk : k < front.length
  · rw [List.getElem?_append_left hk] at hx
    rw [recsBefore_snoc_of_le front g' (by omega), ← recsBefore_snoc_of_le front g (by omega)]
    exact h k x (by rw [List.getElem?_append_left hk]; exact hx)
  · have hlen := (List.getElem?_eq_some_iff.mp hx).1
    simp only [List.length_append, List.length_cons, List.length_nil] at hlen
    have hke : k = front.length := by omega
    subst hke
    have : x = g' := by simpa using hx.symm
    subst this
    rw [recsBefore_snoc_of_le front x (Nat.le_refl _), ← recsBefore_snoc_of_le front g (Nat.le_refl _), h1, h2, h3]
    exact h front.length g (by simp)

/-! ### the representation invariant -/

structure StreamInv (s : Stream) : Prop where
  groupsNe : ∀ g ∈ s.groups.toList, g.records.size ≠ 0
  recs : RecsOk s.allRecs 0 0
  count : s.recordCount = s.allRecs.length
  listSz : s.indexListSize = listSize (absStream s).blocks
  gcount : s.groups.count = s.groups.toList.length
  gbases : GroupsOk s.groups.toList

structure Inv (i : Index) : Prop where
  ne : i.streams.toList ≠ []
  scount : i.streams.count = i.streams.toList.length
  streams : ∀ s ∈ i.streams.toList, StreamInv s
  bases : ∀ (k : Nat) (s : Stream), i.streams.toList[k]? = some s →
    s.compressedBase = Spec.rawFileSize ((abs i).take k) ∧ s.uncompressedBase = Spec.uncompressedSize ((abs i).take k)
    ∧ s.number = k + 1 ∧ s.blockNumberBase = Spec.blockCount ((abs i).take k)
  unc : i.uncompressedSize = Spec.uncompressedSize (abs i)
  total : i.totalSize = Spec.totalSize (abs i)
  rcount : i.recordCount = Spec.blockCount (abs i)
  lsize : i.indexListSize = Spec.listSizeAll (abs i)
  checks : i.checks = Spec.checks (abs i).dropLast
  valid : Spec.Valid (abs i)

/-! ### the last group of a Stream holds the last Record -/

theorem getLast?_flatMap_of_last_ne {α β : Type} (f : α → List β) :
    ∀ (l : List α) (x : α), f x ≠ [] → ((l ++ [x]).flatMap f).getLast? = (f x).getLast? := by
  intro l x hx
  rw [List.flatMap_append]
  simp only [List.flatMap_cons, List.flatMap_nil, List.append_nil]
  obtain ⟨init, z, hz⟩ := exists_snoc hx
  rw [hz, ← List.append_assoc, List.getLast?_concat, List.getLast?_concat]

theorem Group.lastRec_eq (g : Group) (h : g.records.size ≠ 0) : some g.lastRec = g.records.toList.getLast? := by
  unfold Group.lastRec Group.recAt Group.last
  rw [List.getLast?_eq_getElem?]
  simp only [Array.length_toList]
  have : g.records.size - 1 < g.records.size := by omega
  simp [Array.getD, this]

/-- what `lzma_index_append` reads from `s->groups.rightmost`: the last cumulative sums of the Stream (0 if none) -/
theorem lastSums_of_stream (s : Stream) (hs : StreamInv s) :
    s.lastSums.unpaddedSum = lastUnp s.allRecs 0 ∧ s.lastSums.uncompressedSum = lastUnc s.allRecs 0 := by
  unfold Stream.lastSums
  rw [Tree.rightmost?_eq_getLast?]
  unfold Stream.allRecs lastUnp lastUnc
  have hne := hs.groupsNe
  unfold CTree.toList at hne
  cases hl : s.groups.root.toList.getLast? with
  | none =>
    have : s.groups.root.toList = [] := by simpa using hl
    simp [this]
  | some g =>
    obtain ⟨front, hfront⟩ : ∃ front, s.groups.root.toList = front ++ [g] := by
      have hne' : s.groups.root.toList ≠ [] := by intro h; simp [h] at hl
      obtain ⟨init, z, hz⟩ := exists_snoc hne'
      rw [hz] at hl; simp at hl; subst hl; exact ⟨init, hz⟩
    have hg : g.records.size ≠ 0 := hne g (by rw [hfront]; simp)
    have hgl : g.records.toList ≠ [] := by
      intro h; apply hg; simpa using congrArg List.length h
    rw [hfront, getLast?_flatMap_of_last_ne _ front g hgl, ← Group.lastRec_eq g hg]
    simp

theorem take_map_snoc {α β : Type} (h : α → β) (front : List α) (x : α) (k : Nat) (hk : k ≤ front.length) :
    ((front ++ [x]).map h).take k = (front.map h).take k := by
  rw [List.map_append, List.take_append_of_le_length (by simpa using hk)]

theorem abs_snoc {i : Index} {front : List Stream} {last : Stream} (h : i.streams.root.toList = front ++ [last]) :
    abs i = front.map absStream ++ [absStream last] := by
  unfold abs; rw [h]; simp

theorem rightmost_snoc {i : Index} {front : List Stream} {last : Stream} (h : i.streams.root.toList = front ++ [last]) :
    i.streams.root.rightmost? = some last := by
  rw [Tree.rightmost?_eq_getLast?, h]; simp

theorem setLast_toList {i : Index} {front : List Stream} {last : Stream} (h : i.streams.root.toList = front ++ [last])
    (f : Stream → Stream) : (setLastStream i f).streams.root.toList = front ++ [f last] := by
  unfold setLastStream
  simp only [Tree.toList_modifyRightmost, h, Spec.modifyLast_append_singleton]

/-- the quantities `lzma_index_append` reads, expressed over the specification state -/
theorem append_quantities {i : Index} (hi : Inv i) {front : List Stream} {last : Stream}
    (h : i.streams.root.toList = front ++ [last]) :
    vliCeil4 last.lastSums.unpaddedSum = blocksSize (absStream last).blocks
    ∧ last.lastSums.uncompressedSum = uncompSize (absStream last).blocks
    ∧ last.compressedBase = Spec.rawFileSize (abs i).dropLast
    ∧ last.recordCount = (absStream last).blocks.length
    ∧ last.indexListSize = listSize (absStream last).blocks := by
  have hs : StreamInv last := hi.streams last (by unfold CTree.toList; rw [h]; simp)
  obtain ⟨q1, q2⟩ := lastSums_of_stream last hs
  obtain ⟨s1, s2⟩ := blocksOfRecs_sums last.allRecs 0 0 hs.recs
  refine ⟨?_, ?_, ?_, ?_, hs.listSz⟩
  · rw [q1, s1]; simp [absStream, vliCeil4]
  · rw [q2, s2]; simp [absStream]
  · have := (hi.bases front.length last (by unfold CTree.toList; rw [h]; simp)).1
    rw [this, abs_snoc h]
    simp [List.take_append_of_le_length]
  · rw [hs.count]; simp [absStream, blocksOfRecs_length]

/-- the successful branch of `lzma_index_append` -/
def appendOk (i : Index) (last : Stream) (u c : Nat) : Ret × Index :=
  let compressedBase := vliCeil4 last.lastSums.unpaddedSum
  let uncompressedBase := last.lastSums.uncompressedSum
  let add := vliSize u + vliSize c
  let r : Rec := ⟨uncompressedBase + c, compressedBase + u⟩
  let totals (i : Index) : Index :=
    { i with totalSize := i.totalSize + vliCeil4 u, uncompressedSize := i.uncompressedSize + c,
             recordCount := i.recordCount + 1, indexListSize := i.indexListSize + add }
  if last.hasRoom then
    (.ok, totals (setLastStream i fun s =>
      { s with groups := ⟨s.groups.root.modifyRightmost fun g => { g with records := g.records.push r }, s.groups.count⟩,
               recordCount := s.recordCount + 1, indexListSize := s.indexListSize + add }))
  else if ¬ allocOk (SIZEOF_INDEX_GROUP + i.prealloc * SIZEOF_INDEX_RECORD) then (.memError, i)
  else
    let g : Group := { uncompressedBase, compressedBase, numberBase := last.recordCount + 1, allocated := i.prealloc,
                       records := #[r] }
    let i1 := setLastStream i fun s =>
      { s with groups := s.groups.append g, recordCount := s.recordCount + 1, indexListSize := s.indexListSize + add }
    (.ok, totals { i1 with prealloc := INDEX_GROUP_SIZE })

theorem append_eq {i : Index} (hi : Inv i) {front : List Stream} {last : Stream}
    (h : i.streams.root.toList = front ++ [last]) (u c : Nat) :
    Impl.append i u c =
      match Spec.appendCheck (abs i) u c with
      | some r => (r, i)
      | none => appendOk i last u c := by
  obtain ⟨q1, q2, q3, q4, q5⟩ := append_quantities hi h
  have hroot := rightmost_snoc h
  have hlast : (abs i).getLast? = some (absStream last) := by rw [abs_snoc h]; simp
  unfold Impl.append Spec.appendCheck
  rw [hroot, hlast]
  simp only [q1, q2, q3, q4, q5, hi.unc, hi.rcount, hi.lsize]
  have hp : (absStream last).padding = last.padding := rfl
  rw [hp]
  split
  · rfl
  · split
    · rfl
    · split
      · rfl
      · split
        · rfl
        · split
          · rfl
          · simp only [appendOk, q1, q2, q4]


/-! ### replacing the last Stream -/

theorem inv_of_replace {i i' : Index} (hi : Inv i) {front : List Stream} {last last' : Stream}
    (h : i.streams.root.toList = front ++ [last]) (h' : i'.streams.root.toList = front ++ [last'])
    (hcount : i'.streams.count = i.streams.count)
    (hsinv : StreamInv last')
    (hb1 : last'.compressedBase = last.compressedBase) (hb2 : last'.uncompressedBase = last.uncompressedBase)
    (hb3 : last'.number = last.number) (hb4 : last'.blockNumberBase = last.blockNumberBase)
    (hunc : i'.uncompressedSize = Spec.uncompressedSize (abs i'))
    (htotal : i'.totalSize = Spec.totalSize (abs i'))
    (hrcount : i'.recordCount = Spec.blockCount (abs i'))
    (hlsize : i'.indexListSize = Spec.listSizeAll (abs i'))
    (hchecks : i'.checks = i.checks)
    (hvalid : Spec.Valid (abs i')) : Inv i' := by
  have hlen : i'.streams.toList.length = i.streams.toList.length := by
    unfold CTree.toList; rw [h, h']; simp
  refine ⟨by unfold CTree.toList; rw [h']; simp, by rw [hcount, hi.scount, hlen], ?_, ?_, hunc, htotal, hrcount, hlsize, ?_, hvalid⟩
  · intro s hs
    unfold CTree.toList at hs; rw [h'] at hs
    rcases List.mem_append.mp hs with hs | hs
    · exact hi.streams s (by unfold CTree.toList; rw [h]; exact List.mem_append_left _ hs)
    · simp only [List.mem_singleton] at hs; subst hs; exact hsinv
  · intro k s hk
    unfold CTree.toList at hk; rw [h'] at hk
    have hkl : k ≤ front.length := by
      have := (List.getElem?_eq_some_iff.mp hk).1; simp at this; omega
    have htake : (abs i').take k = (abs i).take k := by
      unfold abs; rw [h, h', take_map_snoc _ _ _ _ hkl, take_map_snoc _ _ _ _ hkl]
    rw [htake]
    by_cases hlt : k < front.length
    · have : (front ++ [last])[k]? = some s := by
        rw [List.getElem?_append_left hlt] at hk ⊢; exact hk
      exact hi.bases k s (by unfold CTree.toList; rw [h]; exact this)
    · have hke : k = front.length := by omega
      subst hke
      have : s = last' := by simpa using hk.symm
      subst this
      have := hi.bases front.length last (by unfold CTree.toList; rw [h]; simp)
      rw [hb1, hb2, hb3, hb4]; exact this
  · rw [hchecks, hi.checks]
    unfold abs; rw [h, h']; simp

end Impl
end XzVerif.Index
