/-
  C01 end-to-end, step 3: the non-last filters.  For every delta / BCJ filter that passes its initialisation test, the
  whole-buffer decoder of `XzEnv.preFilterWith` undoes the whole-buffer encoder of `XzEncEnv.preEnc` (Props/C15.lean:
  `delta_roundtrip`, `bcj_fixed_roundtrip`, `x86_roundtrip`, `riscv_roundtrip`), and so does a whole chain of them in
  the order the raw coders apply them (encoder: filters[0] first; decoder: filters[0] last).
  x86 needs `length + 5 < 2^32` (C15's hypothesis: `prev_pos` arithmetic must not wrap between two candidates).
-/
import XzVerif.Model.XzEncEnv
import XzVerif.Props.C15

namespace XzVerif.E2E
open XzVerif XzVerif.Container XzVerif.XzEncEnv XzVerif.Bcj

/-- the filter is x86 (the only one whose round trip is proved for buffers below 4 GiB only) -/
def isX86 : FilterOpts → Bool
  | .bcj id _ => decide (id = FILTER_X86)
  | _ => false

/-- the length condition of a list of non-last filters on an input of `n` bytes -/
def LenOk (pre : List FilterOpts) (n : Nat) : Prop := pre.any isX86 = true → n + 5 < 2 ^ 32

theorem bcjId_cases (id : Nat) (fid : Simple.FilterId) (h : XzEnv.bcjId id = some fid) :
    bcjAlignment id = fid.alignment ∧ (fid = .x86 → id = FILTER_X86) := by
  unfold XzEnv.bcjId at h
  repeat' split at h
  all_goals first
    | (cases h; rename_i hid; subst hid; exact ⟨by decide, by intro h; first | rfl | cases h⟩)
    | cases h

theorem ofNat_toNat32 (off : Nat) (h : off < 4294967296) : (BitVec.ofNat 32 off).toNat = off := by
  simp [BitVec.toNat_ofNat]; omega

/-- One non-last filter: the decoder model undoes the encoder model and the length is preserved. -/
theorem pre_roundtrip (o : FilterOpts) (hok : preInitOk o = true) (x : List UInt8)
    (hx : isX86 o = true → x.length + 5 < 2 ^ 32) :
    ∃ enc dec, preEnc o = some enc ∧ XzEnv.preFilterWith Delta.decodeAll o = some dec ∧ filterInitOk o = true ∧
      dec (enc x) = x ∧ (enc x).length = x.length := by
  cases o with
  | delta dist =>
    simp only [preInitOk, Bool.and_eq_true, decide_eq_true_eq] at hok
    obtain ⟨h1, h2⟩ := C15.delta_roundtrip dist hok.1 hok.2 x
    exact ⟨_, _, rfl, rfl, by simp [filterInitOk, hok.1, hok.2], h1, h2⟩
  | bcj id off =>
    simp only [preInitOk, Bool.and_eq_true, decide_eq_true_eq] at hok
    obtain ⟨⟨hsome, hal⟩, hoff⟩ := hok
    obtain ⟨fid, hfid⟩ := Option.isSome_iff_exists.mp hsome
    obtain ⟨halign, hx86⟩ := bcjId_cases id fid hfid
    have htn := ofNat_toNat32 off hoff
    have hal' : (BitVec.ofNat 32 off).toNat % fid.alignment = 0 := by rw [htn, ← halign]; exact hal
    refine ⟨fun buf => (Simple.filterCode fid true X86State.init (BitVec.ofNat 32 off) buf).1,
      fun buf => (Simple.filterCode fid false X86State.init (BitVec.ofNat 32 off) buf).1,
      by simp only [preEnc, hfid, Option.map_some], by simp only [XzEnv.preFilterWith, hfid, Option.map_some],
      by simp [filterInitOk, hal], ?_⟩
    obtain ⟨harm, hthumb, harm64, hppc, hsparc, hia64⟩ := C15.bcj_fixed_roundtrip
    cases fid with
    | x86 =>
      have hid := hx86 rfl
      have hlen := hx (by simp [isX86, hid])
      obtain ⟨h1, h2⟩ := C15.x86_roundtrip (BitVec.ofNat 32 off) x hlen
      simp only [Simple.filterCode]
      exact ⟨by rw [h1], h2⟩
    | powerpc =>
      obtain ⟨h1, h2, _⟩ := hppc (BitVec.ofNat 32 off) x hal'
      exact ⟨h1, h2⟩
    | ia64 =>
      obtain ⟨h1, h2, _⟩ := hia64 (BitVec.ofNat 32 off) x hal'
      exact ⟨h1, h2⟩
    | arm =>
      obtain ⟨h1, h2, _⟩ := harm (BitVec.ofNat 32 off) x hal'
      exact ⟨h1, h2⟩
    | armthumb =>
      obtain ⟨h1, h2, _⟩ := hthumb (BitVec.ofNat 32 off) x hal'
      exact ⟨h1, h2⟩
    | sparc =>
      obtain ⟨h1, h2, _⟩ := hsparc (BitVec.ofNat 32 off) x hal'
      exact ⟨h1, h2⟩
    | arm64 =>
      obtain ⟨h1, h2, _⟩ := harm64 (BitVec.ofNat 32 off) x hal'
      exact ⟨h1, h2⟩
    | riscv =>
      obtain ⟨h1, h2, _⟩ := C15.riscv_roundtrip (BitVec.ofNat 32 off) x hal'
      exact ⟨h1, h2⟩
  | lzma1 id lc lp pb d => simp [preInitOk] at hok
  | lzma2 d => simp [preInitOk] at hok
  | other id => simp [preInitOk] at hok

/-- the decoder's post-processing (`Lzma2.Chain.post`): `pre[0]` is applied last -/
def post (decs : List (List UInt8 → List UInt8)) (out : List UInt8) : List UInt8 := decs.foldr (fun f acc => f acc) out

/-- A chain of non-last filters: the decoder chain exists, passes initialisation, and undoes the encoder chain. -/
theorem preChain_roundtrip : ∀ (pre : List FilterOpts), pre.all preInitOk = true → ∀ (x : List UInt8), LenOk pre x.length →
    ∃ decs y, pre.mapM (XzEnv.preFilterWith Delta.decodeAll) = some decs ∧ pre.all filterInitOk = true ∧
      applyPre pre x = some y ∧ post decs y = x ∧ y.length = x.length
  | [], _, x, _ => ⟨[], x, rfl, rfl, rfl, rfl, rfl⟩
  | o :: os, hall, x, hlen => by
    simp only [List.all_cons, Bool.and_eq_true] at hall
    obtain ⟨enc, dec, henc, hdec, hinit, hrt, hl⟩ := pre_roundtrip o hall.1 x (fun h => hlen (by simp [h]))
    obtain ⟨decs, y, hm, hi, ha, hp, hyl⟩ := preChain_roundtrip os hall.2 (enc x) (fun h => by
      rw [hl]; exact hlen (by simp only [List.any_cons, h, Bool.or_true]))
    refine ⟨dec :: decs, y, ?_, ?_, ?_, ?_, by rw [hyl, hl]⟩
    · simp [List.mapM_cons, hdec, hm]
    · simp [hinit, hi]
    · simp only [applyPre, henc]; exact ha
    · show dec (post decs y) = x
      rw [hp, hrt]

end XzVerif.E2E
