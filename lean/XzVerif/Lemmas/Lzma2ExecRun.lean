/-
  C01, LZMA2 decoder side, part 3: running `lzma2_decode` (`Lzma2.lzma2Loop`) over a valid chunk sequence.
  `LRdy` / `URdy`: the decoder inside an LZMA / uncompressed chunk with `n` bytes of the chunk still to produce;
  one loop iteration either finishes the chunk and reaches the next boundary (`BSt` for the next configuration) or fills
  the dictionary and pauses in the same kind of state with fewer bytes to go.
-/
import XzVerif.Lemmas.Lzma2ExecChunk

namespace XzVerif.LzmaExec
open XzVerif.RangeDec XzVerif.RangeEnc XzVerif.RangeCoder XzVerif.LzDict XzVerif.Lzma XzVerif.LzmaEnc XzVerif.LzmaSymDec
open XzVerif.LzmaSym XzVerif.LzmaSpec XzVerif.Lzma2Enc XzVerif.Lzma2

/-- the unread input -/
def In (s : St) (bs : List UInt8) : Prop := s.inp.data.toList.drop s.inPos = bs

/-- inside an LZMA chunk: `t` is the state of the SEQ_LZMA iteration, `t'` the same with the init bytes read (`t' = t`
    when resuming); `n` bytes of the chunk are still to be produced; `C'` is the configuration after the chunk -/
structure LRdy (p : Props) (dictSize : Nat) (buf : ByteArray) (base : Nat) (t t' : St) (n : Nat) (C' : L2Cfg)
    (rest : List UInt8) : Prop where
  ex : ∃ k psF, CallSt p dictSize k false rest psF t' n C'.encPos C'.st (win buf (base + C'.off)) ∧
    RenamedT (ctxMap p k) C'.ps psF ∧ PsOk p psF ∧ (t'.dp.pos + n) % 16 = (C'.encPos + k) % 16
  call : lzmaCall t = lzmaCall t'
  seq : t.l2.seq = .lzma
  l2 : t'.l2 = t.l2
  pos : t.inPos ≤ t'.inPos
  inp : t'.inp = t.inp
  cs : t.l2.compressedSize + rest.length = t.inp.size - t.inPos
  np : t.l2.needProperties = false
  ndr : t.l2.needDictionaryReset = false
  props : t.l2.props = p
  nr : t'.dp.needReset = false
  prod : t'.hist.size + n = t'.outBase + C'.off
  flags : C'.needProps = false ∧ C'.needStateReset = false ∧ C'.needDictReset = false
  off : base + C'.off ≤ buf.size
  npos : 1 ≤ n

/-- what a loop iteration keeps of the state it started from (`lzma2_decode` level) -/
structure Keep2 (s t : St) : Prop where
  inp : t.inp = s.inp
  outBase : t.outBase = s.outBase
  limit : t.dp.limit = s.dp.limit
  size : t.dp.size = s.dp.size
  needReset : t.dp.needReset = s.dp.needReset
  grow : s.hist.size ≤ t.hist.size
  histpos : t.hist.size + s.dp.pos = s.hist.size + t.dp.pos
  inPosMono : s.inPos ≤ t.inPos

theorem Keep2.refl (s : St) : Keep2 s s := ⟨rfl, rfl, rfl, rfl, rfl, Nat.le_refl _, rfl, Nat.le_refl _⟩

theorem Keep2.trans {a b c : St} (h1 : Keep2 a b) (h2 : Keep2 b c) : Keep2 a c :=
  ⟨h2.inp.trans h1.inp, h2.outBase.trans h1.outBase, h2.limit.trans h1.limit, h2.size.trans h1.size,
   h2.needReset.trans h1.needReset, Nat.le_trans h1.grow h2.grow, (by have := h1.histpos; have := h2.histpos; omega),
   Nat.le_trans h1.inPosMono h2.inPosMono⟩

theorem KeepC.keep2 {s t : St} (h : KeepC s t) : Keep2 s t :=
  ⟨h.inp, h.outBase, h.limit, h.size, h.needReset, h.grow, h.histpos, h.inPosMono⟩

/-- One SEQ_LZMA iteration from `LRdy`. -/
theorem lrdy_step (p : Props) (hp : PropsOk p) (dictSize : Nat) (hd : dictSize ≤ 4294967295) (buf : ByteArray) (base : Nat)
    (t t' : St) (n : Nat) (C' : L2Cfg) (rest : List UInt8) (h : LRdy p dictSize buf base t t' n C' rest) (f : Nat) :
    (n ≤ t'.dp.limit - t'.dp.pos ∧ ∃ sB, lzma2Loop (f + 1) t = lzma2Loop f sB ∧ BSt p dictSize buf base C' sB ∧ In sB rest ∧
      Keep2 t' sB ∧ sB.dp.pos = t'.dp.pos + n) ∨
    (t'.dp.limit - t'.dp.pos < n ∧ ∃ s2, lzma2Loop (f + 1) t = (.ok, s2) ∧
      LRdy p dictSize buf base s2 s2 (n - (t'.dp.limit - t'.dp.pos)) C' rest ∧ s2.dp.pos = t'.dp.limit ∧ Keep2 t' s2) := by
  obtain ⟨⟨k, psF, hcs, hren, hpsok, hkk⟩, hcall, hseq, hl2, hpos, hinp, hcsz, hnp, hndr, hprops, hnr, hprod, hflags, hoff, hnpos⟩ := h
  rcases lbody_step p hp dictSize hd k rest psF t t' n C'.encPos C'.st _ hcall hcs hseq hl2 hpos hcsz hinp f with
    ⟨hfit, sF, hend, hrun⟩ | ⟨hnofit, s2, hrun, hcs2, hp2, hseq2, hcsz2, hk2, hnp2, hndr2, hpr2⟩
  · left
    refine ⟨hfit, _, hrun, ?_, ?_, ?_, ?_⟩
    · obtain ⟨stF', hsim, hmode⟩ := hend.sim
      obtain ⟨rfl, hprobs, hrep⟩ := hmode rfl
      have hl2F : sF.l2 = t.l2 := by rw [hend.keep.l2, hl2]
      refine ⟨rfl, ?_, ?_, hflags.2.2, ?_, hend.initLeft, hend.range, hend.code, hend.pending, hsim.win.congr rfl rfl, ?_, ?_,
        ?_, hoff, ?_⟩
      · show sF.l2.needProperties = C'.needProps; rw [hl2F, hnp, hflags.1]
      · show sF.l2.needDictionaryReset = false; rw [hl2F, hndr]
      · intro _; show sF.l2.props = p; rw [hl2F, hprops]
      · intro _ _
        refine ⟨hsim.lc, hsim.lp, hsim.pb, ⟨hsim.stOk.state, hsim.stOk.rep0, hsim.stOk.rep1, hsim.stOk.rep2, hsim.stOk.rep3⟩,
          hsim.stlt, hrep, ⟨k, ?_, ?_⟩, ?_⟩
        · show sF.dp.pos % 16 = _; rw [hend.pos]; exact hkk
        · show RenamedT _ _ sF.probs; rw [hprobs]; exact hren
        · show PsOk p sF.probs; rw [hprobs]; exact hpsok
      · show sF.dp.needReset = false; rw [hend.keep.needReset]; exact hnr
      · intro h1; rw [hflags.1] at h1; cases h1
      · show sF.hist.size = sF.outBase + C'.off
        have := hend.keep.histpos
        have := hend.pos
        rw [hend.keep.outBase]
        omega
    · show sF.inp.data.toList.drop sF.inPos = rest
      exact hend.rest.symm
    · exact ⟨hend.keep.inp, hend.keep.outBase, hend.keep.limit, hend.keep.size, hend.keep.needReset, hend.keep.grow,
        hend.keep.histpos, hend.keep.inPosMono⟩
    · exact hend.pos
  · right
    refine ⟨hnofit, s2, hrun, ?_, hp2, ?_⟩
    · refine ⟨⟨k, psF, hcs2, hren, hpsok, ?_⟩, rfl, hseq2, rfl, Nat.le_refl _, rfl, hcsz2, ?_, ?_, ?_, ?_, ?_, hflags, hoff, by omega⟩
      · rw [hp2]
        have := hcs.work
        obtain ⟨_, _, _, _, _, _, _, _, _, _, hsx, _⟩ := this
        have := hsx.win.pos_le
        rw [← hkk]
        congr 1; omega
      · rw [hnp2]; exact hnp
      · rw [hndr2]; exact hndr
      · rw [hpr2]; exact hprops
      · have := hk2.needReset; simp only [] at this; rw [this]; exact hnr
      · have h1 := hk2.histpos
        have h2 := hk2.outBase
        simp only [] at h1 h2
        have := hcs.work
        obtain ⟨_, _, _, _, _, _, _, _, _, _, hsx, _⟩ := this
        have := hsx.win.pos_le
        rw [h2]
        omega
    · exact ⟨hk2.inp, hk2.outBase, hk2.limit, hk2.size, hk2.needReset, hk2.grow, hk2.histpos, hk2.inPosMono⟩

/-! ### uncompressed chunks -/

/-- inside an uncompressed chunk (SEQ_COPY) with `n` bytes still to copy -/
structure URdy (p : Props) (dictSize : Nat) (buf : ByteArray) (base : Nat) (t : St) (n : Nat) (C' : L2Cfg)
    (rest : List UInt8) : Prop where
  seq : t.l2.seq = .copy
  cs : t.l2.compressedSize = n
  npos : 1 ≤ n
  le : n ≤ C'.off
  inp : In t (sliceList buf (base + (C'.off - n)) n ++ rest)
  win : Win t (win buf (base + (C'.off - n))) dictSize
  np : t.l2.needProperties = C'.needProps
  ndr : t.l2.needDictionaryReset = false
  props : C'.needProps = false → t.l2.props = p
  initLeft : t.initLeft = 5
  range : t.range = UINT32_MAX
  code : t.code = 0
  pending : t.pending = Pending.none
  nr : t.dp.needReset = false
  prod : t.hist.size + n = t.outBase + C'.off
  flags : C'.needStateReset = true ∧ C'.needDictReset = false
  off : base + C'.off ≤ buf.size

theorem in_length {s : St} {bs : List UInt8} (h : In s bs) : s.inPos + bs.length = s.inp.size ∨ (bs = [] ∧ s.inp.size ≤ s.inPos) := by
  unfold In at h
  have := congrArg List.length h
  simp only [List.length_drop, Array.length_toList, ByteArray.size_data] at this
  by_cases hle : s.inPos ≤ s.inp.size
  · left; omega
  · right
    refine ⟨?_, by omega⟩
    have : bs.length = 0 := by omega
    exact List.eq_nil_of_length_eq_zero this

/-- the state after `dict_write` copied `m` bytes -/
def copied (t : St) (m : Nat) : St :=
  { t with hist := appendSlice t.inp m t.inPos t.hist, inPos := t.inPos + m, dp := t.dp.advance m }

/-- One SEQ_COPY iteration. -/
theorem urdy_step (p : Props) (dictSize : Nat) (buf : ByteArray) (base : Nat) (t : St) (n : Nat) (C' : L2Cfg)
    (rest : List UInt8) (h : URdy p dictSize buf base t n C' rest) (hcfg2 : C'.needProps = true → C'.needStateReset = false →
      C'.st = {} ∧ C'.ps = initProbs p) (f : Nat) :
    (n ≤ t.dp.limit - t.dp.pos ∧ ∃ sB, lzma2Loop (f + 1) t = lzma2Loop f sB ∧ BSt p dictSize buf base C' sB ∧ In sB rest ∧
      Keep2 t sB ∧ sB.dp.pos = t.dp.pos + n) ∨
    (t.dp.limit - t.dp.pos < n ∧ ∃ s2, lzma2Loop (f + 1) t = (.ok, s2) ∧
      URdy p dictSize buf base s2 (n - (t.dp.limit - t.dp.pos)) C' rest ∧ s2.dp.pos = t.dp.limit ∧ Keep2 t s2) := by
  obtain ⟨hseq, hcs, hnpos, hle, hin, hwin, hnp, hndr, hprops, hil, hrg, hcd, hpd, hnr, hprod, hflags, hoff⟩ := h
  have hsl := sliceList_length buf (base + (C'.off - n)) n (by omega)
  have hinlen : t.inPos + (n + rest.length) = t.inp.size := by
    rcases in_length hin with h1 | ⟨h1, _⟩
    · rw [List.length_append, hsl] at h1; exact h1
    · have := congrArg List.length h1
      rw [List.length_append, hsl] at this
      simp at this; omega
  have hlt : t.inPos < t.inp.size := by omega
  have hpl := hwin.pos_le
  rw [loop_copy f t hlt hseq]
  -- what `dict_write` copies
  generalize hm : min (min (t.inp.size - t.inPos) t.l2.compressedSize) t.dp.avail = m
  have hmval : m = min n (t.dp.limit - t.dp.pos) := by
    rw [← hm, hcs]; simp only [DictPos.avail]; omega
  have hdw : dictWrite t t.l2.compressedSize
      = (m, copied t m) := by
    simp only [dictWrite, hm, copied]
  rw [hdw]
  simp only []
  -- the window after the copy
  have hbytes : hl (appendSlice t.inp m t.inPos t.hist) = hl t.hist ++ sliceList buf (base + (C'.off - n)) m := by
    rw [hl_appendSlice t.inp m t.inPos t.hist (by omega)]
    congr 1
    have : (hl t.inp).drop t.inPos = sliceList buf (base + (C'.off - n)) n ++ rest := hin
    rw [this, List.take_append_of_le_length (by rw [hsl]; omega), sliceList_eq, sliceList_eq, List.take_take]
    congr 1; omega
  have hslm := sliceList_length buf (base + (C'.off - n)) m (by omega)
  have hwin2 : Win (copied t m)
      (win buf (base + (C'.off - n) + m)) dictSize := by
    rw [win_add, ← sliceList_eq]
    exact hwin.append _ hbytes (by rw [hslm]; rfl) (by rw [hslm]; omega)
  have hin2 : In (copied t m)
      (sliceList buf (base + (C'.off - n) + m) (n - m) ++ rest) := by
    show t.inp.data.toList.drop (t.inPos + m) = _
    rw [← List.drop_drop, hin, List.drop_append_of_le_length (by rw [hsl]; omega), sliceList_eq, sliceList_eq]
    congr 1
    rw [List.drop_take, List.drop_drop]
  by_cases hfit : n ≤ t.dp.limit - t.dp.pos
  · left
    have hmn : m = n := by omega
    subst hmn
    refine ⟨hfit, setL2 (setL2 (copied t m) fun l => { l with compressedSize := l.compressedSize - m })
      fun l => { l with seq := .control }, ?_, ?_, ?_, ?_, rfl⟩
    · have : ((setL2 (copied t m)
          fun l => { l with compressedSize := l.compressedSize - m }).l2.compressedSize != 0) = false := by
        show (t.l2.compressedSize - m != 0) = false
        rw [hcs]; simp
      rw [this]
      simp only [Bool.false_eq_true, if_false]
    · have e : base + (C'.off - m) + m = base + C'.off := by omega
      rw [e] at hwin2
      refine ⟨rfl, hnp, hndr, hflags.2, hprops, hil, hrg, hcd, hpd, hwin2.congr rfl rfl, ?_, hnr, hcfg2, hoff, ?_⟩
      · intro _ h2; rw [hflags.1] at h2; cases h2
      · show (appendSlice t.inp m t.inPos t.hist).size = t.outBase + C'.off
        rw [size_appendSlice]; exact hprod
    · have : sliceList buf (base + (C'.off - m) + m) 0 = [] := by simp [sliceList_eq]
      rw [Nat.sub_self, this] at hin2
      exact hin2
    · exact ⟨rfl, rfl, rfl, rfl, rfl, by show t.hist.size ≤ (appendSlice t.inp m t.inPos t.hist).size; rw [size_appendSlice]; omega,
        by show (appendSlice t.inp m t.inPos t.hist).size + t.dp.pos = t.hist.size + (t.dp.pos + m); rw [size_appendSlice]; omega,
        by show t.inPos ≤ t.inPos + m; omega⟩
  · right
    have hmn : m = t.dp.limit - t.dp.pos := by omega
    refine ⟨by omega, setL2 (copied t m) fun l => { l with compressedSize := l.compressedSize - m }, ?_, ?_, ?_, ?_⟩
    · have : ((setL2 (copied t m)
          fun l => { l with compressedSize := l.compressedSize - m }).l2.compressedSize != 0) = true := by
        show (t.l2.compressedSize - m != 0) = true
        rw [hcs]; simp; omega
      rw [this]
      simp only [if_true]
    · have e1 : base + (C'.off - n) + m = base + (C'.off - (n - (t.dp.limit - t.dp.pos))) := by omega
      have e2 : n - m = n - (t.dp.limit - t.dp.pos) := by omega
      rw [e1] at hwin2 hin2
      rw [e2] at hin2
      refine ⟨hseq, ?_, by omega, by omega, hin2, hwin2.congr rfl rfl, hnp, hndr, hprops, hil, hrg, hcd, hpd, hnr, ?_, hflags, hoff⟩
      · show t.l2.compressedSize - m = _; rw [hcs]; omega
      · show (appendSlice t.inp m t.inPos t.hist).size + (n - (t.dp.limit - t.dp.pos)) = t.outBase + C'.off
        rw [size_appendSlice]; omega
    · show t.dp.pos + m = t.dp.limit; omega
    · exact ⟨rfl, rfl, rfl, rfl, rfl, by show t.hist.size ≤ (appendSlice t.inp m t.inPos t.hist).size; rw [size_appendSlice]; omega,
        by show (appendSlice t.inp m t.inPos t.hist).size + t.dp.pos = t.hist.size + (t.dp.pos + m); rw [size_appendSlice]; omega,
        by show t.inPos ≤ t.inPos + m; omega⟩

/-! ### chunk headers -/

theorem psOk_init (p : Props) : PsOk p (initProbs p) := by
  refine ⟨by simp [initProbs], fun i hi => ?_⟩
  have hi' : i < probsSize p.lc p.lp := by simpa [initProbs] using hi
  have : (initProbs p).getD i 0 = 1024 := by
    simp [initProbs, Array.getD_eq_getD_getElem?, hi', PROB_INIT]
  rw [this]; decide

/-- after `lzma_decoder_reset` the decoder is in step with a freshly reset encoder, whatever the positions are -/
theorem lzOk_fresh (p : Props) (hp : PropsOk p) (x : St) (encPos : Nat) : LzOk p encPos {} (initProbs p) (x.resetLzma p) := by
  refine ⟨rfl, rfl, rfl, ⟨rfl, rfl, rfl, rfl, rfl⟩, by decide, ?_, ⟨(x.dp.pos + 16 - encPos % 16) % 16, ?_, ?_⟩, psOk_init p⟩
  · intro h; simp [isLiteralState, LIT_STATES] at h
  · show x.dp.pos % 16 = _; omega
  · exact renamedT_init p _ hp

/-- the state after the control byte of an uncompressed chunk -/
structure AfterCtlU (p : Props) (dictSize : Nat) (buf : ByteArray) (base : Nat) (t : St) (C : L2Cfg) (usize : Nat)
    (rest : List UInt8) : Prop where
  seq : t.l2.seq = .compressed0
  nextSeq : t.l2.nextSeq = .copy
  np : t.l2.needProperties = C.needProps
  ndr : t.l2.needDictionaryReset = false
  props : C.needProps = false → t.l2.props = p
  initLeft : t.initLeft = 5
  range : t.range = UINT32_MAX
  code : t.code = 0
  pending : t.pending = Pending.none
  win : Win t (win buf (base + C.off)) dictSize
  nr : t.dp.needReset = false
  prod : t.hist.size = t.outBase + C.off
  inp : In t (UInt8.ofNat ((usize - 1) / 256) :: UInt8.ofNat ((usize - 1) % 256) :: (sliceList buf (base + C.off) usize ++ rest))
  u1 : 1 ≤ usize
  u2 : usize ≤ LZMA2_CHUNK_MAX
  off : base + C.off + usize ≤ buf.size

/-- the configuration after an uncompressed chunk of `usize` bytes (the encoder-side fields do not matter: a state reset follows) -/
def cfgAfterU (C : L2Cfg) (usize encPos' : Nat) (st' : SymSt) (ps' : Probs) : L2Cfg :=
  { off := C.off + usize, encPos := encPos', st := st', ps := ps', needProps := C.needProps, needStateReset := true,
    needDictReset := false }

/-- SEQ_COMPRESSED_0/1 of an uncompressed chunk -/
theorem sizesU (p : Props) (dictSize : Nat) (buf : ByteArray) (base : Nat) (t : St) (C : L2Cfg) (usize : Nat)
    (rest : List UInt8) (h : AfterCtlU p dictSize buf base t C usize rest) (encPos' : Nat) (st' : SymSt) (ps' : Probs) (f : Nat) :
    ∃ t2, lzma2Loop (f + 2) t = lzma2Loop f t2 ∧ URdy p dictSize buf base t2 usize (cfgAfterU C usize encPos' st' ps') rest ∧
      t2.dp = t.dp ∧ t2.hist = t.hist ∧ t2.outBase = t.outBase ∧ t2.inp = t.inp ∧ t2.inPos = t.inPos + 2 := by
  obtain ⟨hseq, hns, hnp, hndr, hprops, hil, hrg, hcd, hpd, hwin, hnr, hprod, hin, hu1, hu2, hoff⟩ := h
  simp only [LZMA2_CHUNK_MAX] at hu2
  obtain ⟨hlt1, hb1, hd1⟩ := curByte_of_drop hin
  rw [show f + 2 = (f + 1) + 1 from rfl, loop_c0 _ t hlt1 hseq]
  generalize ht1 : (setL2 { t with inPos := t.inPos + 1 } fun l =>
      { l with compressedSize := curByte t <<< 8, seq := L2Seq.compressed1 }) = t1
  have h1in : t1.inp.data.toList.drop t1.inPos = UInt8.ofNat ((usize - 1) % 256) :: (sliceList buf (base + C.off) usize ++ rest) := by
    rw [← ht1]; exact hd1
  have h1seq : t1.l2.seq = .compressed1 := by rw [← ht1]; rfl
  obtain ⟨hlt2, hb2, hd2⟩ := curByte_of_drop h1in
  rw [loop_c1 _ t1 hlt2 h1seq]
  have hcsz : t1.l2.compressedSize + curByte t1 + 1 = usize := by
    have : t1.l2.compressedSize = curByte t <<< 8 := by rw [← ht1]; rfl
    rw [this, hb1, hb2, ofNat_toNat_of_lt _ (by omega), ofNat_toNat_of_lt _ (by omega), Nat.shiftLeft_eq]
    norm_num; omega
  have e0 : C.off + usize - usize = C.off := by omega
  refine ⟨_, rfl, ?_, ?_, ?_, ?_, ?_, ?_⟩
  · refine ⟨?_, hcsz, hu1, by show usize ≤ C.off + usize; omega, ?_, ?_, ?_, ?_, ?_, ?_, ?_, ?_, ?_, ?_, ?_, ⟨rfl, rfl⟩, ?_⟩
    · show t1.l2.nextSeq = .copy; rw [← ht1]; exact hns
    · show In _ (sliceList buf (base + (C.off + usize - usize)) usize ++ rest); rw [e0]; exact hd2
    · show Win _ (win buf (base + (C.off + usize - usize))) dictSize
      rw [e0, ← ht1]; exact hwin.congr rfl rfl
    · show t1.l2.needProperties = C.needProps; rw [← ht1]; exact hnp
    · show t1.l2.needDictionaryReset = false; rw [← ht1]; exact hndr
    · intro h; show t1.l2.props = p; rw [← ht1]; exact hprops h
    · show t1.initLeft = 5; rw [← ht1]; exact hil
    · show t1.range = UINT32_MAX; rw [← ht1]; exact hrg
    · show t1.code = 0; rw [← ht1]; exact hcd
    · show t1.pending = Pending.none; rw [← ht1]; exact hpd
    · show t1.dp.needReset = false; rw [← ht1]; exact hnr
    · show t1.hist.size + usize = t1.outBase + (C.off + usize); rw [← ht1]
      show t.hist.size + usize = t.outBase + (C.off + usize); rw [hprod]; omega
    · show base + (C.off + usize) ≤ buf.size; omega
  · rw [← ht1]; rfl
  · rw [← ht1]; rfl
  · rw [← ht1]; rfl
  · rw [← ht1]; rfl
  · rw [← ht1]; rfl

/-- the configuration after an LZMA chunk -/
def cfgAfterL (p : Props) (C : L2Cfg) (ops : List Op) (encPos' : Nat) (st' : SymSt) (usize : Nat) : L2Cfg :=
  { off := C.off + usize, encPos := encPos', st := st', ps := (encOps (C.ps0 p) Enc.init ops).1,
    needProps := false, needStateReset := false, needDictReset := false }

/-- the state after the control byte of an LZMA chunk -/
structure AfterCtlL (p : Props) (dictSize : Nat) (buf : ByteArray) (base : Nat) (t : St) (C : L2Cfg) (syms : List Sym)
    (ops : List Op) (encPos' : Nat) (st' : SymSt) (usize : Nat) (rest : List UInt8) : Prop where
  seq : t.l2.seq = .uncompressed1
  high : t.l2.uncompressedSize = ((usize - 1) / 65536) <<< 16
  nextSeq : t.l2.nextSeq = if C.needProps = true then L2Seq.properties else L2Seq.lzma
  np : t.l2.needProperties = false
  ndr : t.l2.needDictionaryReset = false
  lz : C.needProps = false → t.l2.props = p ∧ LzOk p C.encPos C.st0 (C.ps0 p) t ∧ t.initLeft = 5 ∧ t.range = UINT32_MAX ∧
    t.code = 0 ∧ t.pending = Pending.none
  fresh : C.needProps = true → C.st0 = {} ∧ C.ps0 p = initProbs p
  win : Win t (win buf (base + C.off)) dictSize
  nr : t.dp.needReset = false
  prod : t.hist.size = t.outBase + C.off
  enc : encSyms p dictSize syms C.encPos C.st0 (LzmaExec.win buf (base + C.off)) =
    some (ops, encPos', st', LzmaExec.win buf (base + C.off + usize))
  len : symsLen syms = usize
  u1 : 1 ≤ usize
  u2 : usize ≤ LZMA2_UNCOMPRESSED_MAX
  off : base + C.off + usize ≤ buf.size
  c2 : (encFlush (encOps (C.ps0 p) Enc.init ops).2).out.length ≤ LZMA2_CHUNK_MAX
  inp : In t (UInt8.ofNat (((usize - 1) / 256) % 256) :: UInt8.ofNat ((usize - 1) % 256) ::
    UInt8.ofNat (((encFlush (encOps (C.ps0 p) Enc.init ops).2).out.length - 1) / 256) ::
    UInt8.ofNat (((encFlush (encOps (C.ps0 p) Enc.init ops).2).out.length - 1) % 256) ::
    ((if C.needProps = true then [UInt8.ofNat p.encode] else []) ++ (encFlush (encOps (C.ps0 p) Enc.init ops).2).out ++ rest))

/-- SEQ_UNCOMPRESSED_1 … SEQ_PROPERTIES of an LZMA chunk, and `rc_read_init`: the decoder is inside the chunk -/
theorem sizesL (p : Props) (hp : PropsOk p) (dictSize : Nat) (hd : dictSize ≤ 4294967295) (buf : ByteArray) (base : Nat)
    (t : St) (C : L2Cfg) (syms : List Sym) (ops : List Op) (encPos' : Nat) (st' : SymSt) (usize : Nat) (rest : List UInt8)
    (h : AfterCtlL p dictSize buf base t C syms ops encPos' st' usize rest) (f : Nat) :
    ∃ t5 t5', lzma2Loop (f + (4 + if C.needProps = true then 1 else 0)) t = lzma2Loop f t5 ∧
      LRdy p dictSize buf base t5 t5' usize (cfgAfterL p C ops encPos' st' usize) rest ∧
      t5'.dp = t.dp ∧ t5'.hist = t.hist ∧ t5'.outBase = t.outBase ∧ t5'.inp = t.inp ∧ t.inPos ≤ t5'.inPos := by
  obtain ⟨hseq, hhigh, hns, hnp, hndr, hlz, hfresh, hwin, hnr, hprod, henc, hlen, hu1, hu2, hoff, hc2, hin⟩ := h
  simp only [LZMA2_UNCOMPRESSED_MAX] at hu2
  simp only [LZMA2_CHUNK_MAX] at hc2
  have hc5 : 5 ≤ (encFlush (encOps (C.ps0 p) Enc.init ops).2).out.length :=
    flush_len5 (outOk2_encOps ops _ _ outOk2_init).2
  generalize hpay : (encFlush (encOps (C.ps0 p) Enc.init ops).2).out = payload at *
  have hc5' : 5 ≤ payload.length := by rw [← hpay]; exact flush_len5 (outOk2_encOps ops _ _ outOk2_init).2
  obtain ⟨t4, hrun4, hsame, hpos4, hin4, hunc4, hae4, hev4, hseq4, hns4, hcs4, hnp4, hndr4, hpr4⟩ :=
    loop_sizes (f + (if C.needProps = true then 1 else 0)) t (usize - 1) (payload.length - 1) (by omega) (by omega) _ hseq hhigh hin
  have hunc4' : t4.uncomp = some usize := by rw [hunc4]; congr 1; omega
  have hcs4' : t4.l2.compressedSize = payload.length := by rw [hcs4]; omega
  by_cases hnpC : C.needProps = true
  · -- SEQ_PROPERTIES: new lc/lp/pb, state reset
    simp only [hnpC, if_true] at hin4 hrun4 hns hseq4
    obtain ⟨hfst, hfps⟩ := hfresh hnpC
    have hin4' : t4.inp.data.toList.drop t4.inPos = UInt8.ofNat p.encode :: (payload ++ rest) := by
      rw [hin4]; simp
    obtain ⟨hlt5, hb5, hd5⟩ := curByte_of_drop hin4'
    have henc256 : p.encode < 256 := by
      obtain ⟨h1, h2⟩ := hp; simp only [Props.encode]; omega
    have hpd : propsDecode (curByte t4) = some p := by
      rw [hb5, ofNat_toNat_of_lt _ henc256]; exact propsDecode_encode p hp
    have hrun5 := loop_props f t4 hlt5 (by rw [hseq4, hns]) p hpd
    generalize ht5 : ((setL2 { t4 with inPos := t4.inPos + 1 } fun l => { l with props := p, seq := L2Seq.lzma }).resetLzma p) = t5
      at hrun5
    have hlz5 : LzOk p C.encPos C.st0 (C.ps0 p) t5 := by
      rw [hfst, hfps, ← ht5]; exact lzOk_fresh p hp _ _
    have hwin5 : Win t5 (win buf (base + C.off)) dictSize := by
      rw [← ht5]; exact hwin.congr (by show t4.hist = t.hist; exact hsame.hist) (by show t4.dp = t.dp; exact hsame.dp)
    have hin5 : t5.inp.data.toList.drop t5.inPos = payload ++ rest := by rw [← ht5]; exact hd5
    obtain ⟨k, t5', psF, hcall, hcst, hren, hpsok, hk, hp5, hl25, hdp5, hh5, hob5, hinp5, _⟩ :=
      lz_start p hp dictSize hd buf base C.off C.encPos C.st0 (C.ps0 p) t5 hlz5 hwin5 (by rw [← ht5]; rfl) (by rw [← ht5]; rfl)
        (by rw [← ht5]; rfl) (by rw [← ht5]; rfl) syms ops encPos' st' usize henc hlen rest (by rw [hpay]; exact hin5)
        (by rw [← ht5]; exact hunc4')
    obtain ⟨_, hposF⟩ := encSyms_len p dictSize syms _ _ _ henc
    rw [Nat.add_assoc] at hcst
    refine ⟨t5, t5', by rw [if_pos hnpC, show f + (4 + 1) = (f + 1) + 4 from rfl, hrun4, hrun5], ?_, ?_, ?_, ?_, ?_, ?_⟩
    · refine ⟨⟨k, psF, hcst, hren, hpsok, ?_⟩, hcall, by rw [← ht5]; rfl, hl25, by omega, hinp5, ?_, ?_, ?_, ?_, ?_, ?_,
        ⟨rfl, rfl, rfl⟩, (by show base + (C.off + usize) ≤ buf.size; omega), hu1⟩
      · show (t5'.dp.pos + usize) % 16 = (encPos' + k) % 16
        rw [hdp5, hposF, hlen]; omega
      · -- bytes of the chunk still unread
        have hl := in_length (s := t5) (bs := payload ++ rest) hin5
        have e5p : t5.inPos = t4.inPos + 1 := by rw [← ht5]; rfl
        have e5i : t5.inp = t4.inp := by rw [← ht5]; rfl
        have e5c : t5.l2.compressedSize = t4.l2.compressedSize := by rw [← ht5]; rfl
        rw [e5c, e5i, e5p]
        rw [e5i, e5p] at hl
        rcases hl with hl | ⟨hl, _⟩
        · simp only [List.length_append] at hl
          omega
        · have hl2 := congrArg List.length hl; rw [List.length_append, List.length_nil] at hl2; omega
      · rw [← ht5]; exact hnp4.trans hnp
      · rw [← ht5]; exact hndr4.trans hndr
      · rw [← ht5]; rfl
      · rw [hdp5, ← ht5]; show t4.dp.needReset = false; rw [hsame.dp]; exact hnr
      · show t5'.hist.size + usize = t5'.outBase + (C.off + usize)
        rw [hh5, hob5, ← ht5]
        show t4.hist.size + usize = t4.outBase + (C.off + usize)
        rw [hsame.hist, hsame.outBase, hprod]; omega
    · rw [hdp5, ← ht5]; exact hsame.dp
    · rw [hh5, ← ht5]; exact hsame.hist
    · rw [hob5, ← ht5]; exact hsame.outBase
    · rw [hinp5, ← ht5]; exact hsame.inp
    · rw [hp5, ← ht5]; show t.inPos ≤ t4.inPos + 1 + 5; omega
  · have hnpC' : C.needProps = false := by simpa using hnpC
    simp only [hnpC', Bool.false_eq_true, if_false, Nat.add_zero, List.nil_append] at hin4 hrun4 hns hseq4
    obtain ⟨hprops, hlz0, hil, hrg, hcd, hpd⟩ := hlz hnpC'
    have hlz4 : LzOk p C.encPos C.st0 (C.ps0 p) t4 := by
      obtain ⟨a, b, c, d, e, g, ⟨k, hk1, hk2⟩, i⟩ := hlz0
      exact ⟨by rw [hsame.lc]; exact a, by rw [hsame.lp]; exact b, by rw [hsame.pb]; exact c,
        ⟨by rw [hsame.state]; exact d.state, by rw [hsame.rep0]; exact d.rep0, by rw [hsame.rep1]; exact d.rep1,
         by rw [hsame.rep2]; exact d.rep2, by rw [hsame.rep3]; exact d.rep3⟩, e,
        fun hl => by rw [hsame.hist]; exact g hl, ⟨k, by rw [hsame.dp]; exact hk1, by rw [hsame.probs]; exact hk2⟩,
        by rw [hsame.probs]; exact i⟩
    have hwin4 : Win t4 (win buf (base + C.off)) dictSize := hwin.congr hsame.hist hsame.dp
    obtain ⟨k, t5', psF, hcall, hcst, hren, hpsok, hk, hp5, hl25, hdp5, hh5, hob5, hinp5, _⟩ :=
      lz_start p hp dictSize hd buf base C.off C.encPos C.st0 (C.ps0 p) t4 hlz4 hwin4 (by rw [hsame.initLeft]; exact hil)
        (by rw [hsame.range]; exact hrg) (by rw [hsame.code]; exact hcd) (by rw [hsame.pending]; exact hpd) syms ops encPos' st'
        usize henc hlen rest (by rw [hpay]; exact hin4) hunc4'
    obtain ⟨_, hposF⟩ := encSyms_len p dictSize syms _ _ _ henc
    rw [Nat.add_assoc] at hcst
    refine ⟨t4, t5', by rw [if_neg hnpC]; exact hrun4, ?_, ?_, ?_, ?_, ?_, ?_⟩
    · refine ⟨⟨k, psF, hcst, hren, hpsok, ?_⟩, hcall, by rw [hseq4, hns], hl25, by omega, hinp5, ?_, ?_, ?_, ?_, ?_, ?_,
        ⟨rfl, rfl, rfl⟩, (by show base + (C.off + usize) ≤ buf.size; omega), hu1⟩
      · show (t5'.dp.pos + usize) % 16 = (encPos' + k) % 16
        rw [hdp5, hposF, hlen]; omega
      · have hl := in_length (s := t4) (bs := payload ++ rest) hin4
        rcases hl with hl | ⟨hl, _⟩
        · simp only [List.length_append] at hl; omega
        · have hl2 := congrArg List.length hl; rw [List.length_append, List.length_nil] at hl2; omega
      · exact hnp4.trans hnp
      · exact hndr4.trans hndr
      · rw [hpr4]; exact hprops
      · rw [hdp5, hsame.dp]; exact hnr
      · show t5'.hist.size + usize = t5'.outBase + (C.off + usize)
        rw [hh5, hob5, hsame.hist, hsame.outBase, hprod]; omega
    · rw [hdp5]; exact hsame.dp
    · rw [hh5]; exact hsame.hist
    · rw [hob5]; exact hsame.outBase
    · rw [hinp5]; exact hsame.inp
    · rw [hp5]; omega

end XzVerif.LzmaExec
