/-
  C01, LZMA2 decoder side, part 3: running `lzma2_decode` (`Lzma2.lzma2Loop`) over a valid chunk sequence.
  `LRdy` / `URdy`: the decoder inside an LZMA / uncompressed chunk with `n` bytes of the chunk still to produce;
  one loop iteration either finishes the chunk and reaches the next boundary (`BSt` for the next configuration) or fills
  the dictionary and pauses in the same kind of state with fewer bytes to go.
-/
import XzVerif.Lemmas.Lzma2ExecChunk

namespace XzVerif.LzmaExec
open XzVerif.RangeDec XzVerif.RangeEnc XzVerif.RangeCoder XzVerif.LzDict XzVerif.Lzma XzVerif.LzmaEnc XzVerif.LzmaSymDec
open XzVerif.LzmaSym XzVerif.LzmaSpec XzVerif.Lzma2Enc XzVerif.Lzma2

/-- the unread input -/
def In (s : St) (bs : List UInt8) : Prop := s.inp.data.toList.drop s.inPos = bs

/-- inside an LZMA chunk: `t` is the state of the SEQ_LZMA iteration, `t'` the same with the init bytes read (`t' = t`
    when resuming); `n` bytes of the chunk are still to be produced; `C'` is the configuration after the chunk -/
structure LRdy (p : Props) (dictSize : Nat) (buf : ByteArray) (base : Nat) (t t' : St) (n : Nat) (C' : L2Cfg)
    (rest : List UInt8) : Prop where
  ex : ∃ k psF, CallSt p dictSize k false rest psF t' n C'.encPos C'.st (win buf (base + C'.off)) ∧
    RenamedT (ctxMap p k) C'.ps psF ∧ PsOk p psF ∧ (t'.dp.pos + n) % 16 = (C'.encPos + k) % 16
  call : lzmaCall t = lzmaCall t'
  seq : t.l2.seq = .lzma
  l2 : t'.l2 = t.l2
  pos : t.inPos ≤ t'.inPos
  inp : t'.inp = t.inp
  cs : t.l2.compressedSize + rest.length = t.inp.size - t.inPos
  np : t.l2.needProperties = false
  ndr : t.l2.needDictionaryReset = false
  props : t.l2.props = p
  nr : t'.dp.needReset = false
  prod : t'.hist.size + n = t'.outBase + C'.off
  flags : C'.needProps = false ∧ C'.needStateReset = false ∧ C'.needDictReset = false
  off : base + C'.off ≤ buf.size

/-- what a loop iteration keeps of the state it started from (`lzma2_decode` level) -/
structure Keep2 (s t : St) : Prop where
  inp : t.inp = s.inp
  outBase : t.outBase = s.outBase
  limit : t.dp.limit = s.dp.limit
  size : t.dp.size = s.dp.size
  needReset : t.dp.needReset = s.dp.needReset
  grow : s.hist.size ≤ t.hist.size
  histpos : t.hist.size + s.dp.pos = s.hist.size + t.dp.pos
  inPosMono : s.inPos ≤ t.inPos

theorem Keep2.refl (s : St) : Keep2 s s := ⟨rfl, rfl, rfl, rfl, rfl, Nat.le_refl _, rfl, Nat.le_refl _⟩

theorem Keep2.trans {a b c : St} (h1 : Keep2 a b) (h2 : Keep2 b c) : Keep2 a c :=
  ⟨h2.inp.trans h1.inp, h2.outBase.trans h1.outBase, h2.limit.trans h1.limit, h2.size.trans h1.size,
   h2.needReset.trans h1.needReset, Nat.le_trans h1.grow h2.grow, (by have := h1.histpos; have := h2.histpos; omega),
   Nat.le_trans h1.inPosMono h2.inPosMono⟩

theorem KeepC.keep2 {s t : St} (h : KeepC s t) : Keep2 s t :=
  ⟨h.inp, h.outBase, h.limit, h.size, h.needReset, h.grow, h.histpos, h.inPosMono⟩

/-- One SEQ_LZMA iteration from `LRdy`. -/
theorem lrdy_step (p : Props) (hp : PropsOk p) (dictSize : Nat) (hd : dictSize ≤ 4294967295) (buf : ByteArray) (base : Nat)
    (t t' : St) (n : Nat) (C' : L2Cfg) (rest : List UInt8) (h : LRdy p dictSize buf base t t' n C' rest) (f : Nat) :
    (n ≤ t'.dp.limit - t'.dp.pos ∧ ∃ sB, lzma2Loop (f + 1) t = lzma2Loop f sB ∧ BSt p dictSize buf base C' sB ∧ In sB rest ∧
      Keep2 t' sB ∧ sB.dp.pos = t'.dp.pos + n) ∨
    (t'.dp.limit - t'.dp.pos < n ∧ ∃ s2, lzma2Loop (f + 1) t = (.ok, s2) ∧
      LRdy p dictSize buf base s2 s2 (n - (t'.dp.limit - t'.dp.pos)) C' rest ∧ s2.dp.pos = t'.dp.limit ∧ Keep2 t' s2) := by
  obtain ⟨⟨k, psF, hcs, hren, hpsok, hkk⟩, hcall, hseq, hl2, hpos, hinp, hcsz, hnp, hndr, hprops, hnr, hprod, hflags, hoff⟩ := h
  rcases lbody_step p hp dictSize hd k rest psF t t' n C'.encPos C'.st _ hcall hcs hseq hl2 hpos hcsz hinp f with
    ⟨hfit, sF, hend, hrun⟩ | ⟨hnofit, s2, hrun, hcs2, hp2, hseq2, hcsz2, hk2, hnp2, hndr2, hpr2⟩
  · left
    refine ⟨hfit, _, hrun, ?_, ?_, ?_, ?_⟩
    · obtain ⟨stF', hsim, hmode⟩ := hend.sim
      obtain ⟨rfl, hprobs, hrep⟩ := hmode rfl
      have hl2F : sF.l2 = t.l2 := by rw [hend.keep.l2, hl2]
      refine ⟨rfl, ?_, ?_, hflags.2.2, ?_, hend.initLeft, hend.range, hend.code, hend.pending, hsim.win.congr rfl rfl, ?_, ?_,
        ?_, hoff, ?_⟩
      · show sF.l2.needProperties = C'.needProps; rw [hl2F, hnp, hflags.1]
      · show sF.l2.needDictionaryReset = false; rw [hl2F, hndr]
      · intro _; show sF.l2.props = p; rw [hl2F, hprops]
      · intro _ _
        refine ⟨hsim.lc, hsim.lp, hsim.pb, ⟨hsim.stOk.state, hsim.stOk.rep0, hsim.stOk.rep1, hsim.stOk.rep2, hsim.stOk.rep3⟩,
          hsim.stlt, hrep, ⟨k, ?_, ?_⟩, ?_⟩
        · show sF.dp.pos % 16 = _; rw [hend.pos]; exact hkk
        · show RenamedT _ _ sF.probs; rw [hprobs]; exact hren
        · show PsOk p sF.probs; rw [hprobs]; exact hpsok
      · show sF.dp.needReset = false; rw [hend.keep.needReset]; exact hnr
      · intro h1; rw [hflags.1] at h1; cases h1
      · show sF.hist.size = sF.outBase + C'.off
        have := hend.keep.histpos
        have := hend.pos
        rw [hend.keep.outBase]
        omega
    · show sF.inp.data.toList.drop sF.inPos = rest
      exact hend.rest.symm
    · exact ⟨hend.keep.inp, hend.keep.outBase, hend.keep.limit, hend.keep.size, hend.keep.needReset, hend.keep.grow,
        hend.keep.histpos, hend.keep.inPosMono⟩
    · exact hend.pos
  · right
    refine ⟨hnofit, s2, hrun, ?_, hp2, ?_⟩
    · refine ⟨⟨k, psF, hcs2, hren, hpsok, ?_⟩, rfl, hseq2, rfl, Nat.le_refl _, rfl, hcsz2, ?_, ?_, ?_, ?_, ?_, hflags, hoff⟩
      · rw [hp2]
        have := hcs.work
        obtain ⟨_, _, _, _, _, _, _, _, _, _, hsx, _⟩ := this
        have := hsx.win.pos_le
        rw [← hkk]
        congr 1; omega
      · rw [hnp2]; exact hnp
      · rw [hndr2]; exact hndr
      · rw [hpr2]; exact hprops
      · have := hk2.needReset; simp only [] at this; rw [this]; exact hnr
      · have h1 := hk2.histpos
        have h2 := hk2.outBase
        simp only [] at h1 h2
        have := hcs.work
        obtain ⟨_, _, _, _, _, _, _, _, _, _, hsx, _⟩ := this
        have := hsx.win.pos_le
        rw [h2]
        omega
    · exact ⟨hk2.inp, hk2.outBase, hk2.limit, hk2.size, hk2.needReset, hk2.grow, hk2.histpos, hk2.inPosMono⟩

/-! ### uncompressed chunks -/

/-- inside an uncompressed chunk (SEQ_COPY) with `n` bytes still to copy -/
structure URdy (p : Props) (dictSize : Nat) (buf : ByteArray) (base : Nat) (t : St) (n : Nat) (C' : L2Cfg)
    (rest : List UInt8) : Prop where
  seq : t.l2.seq = .copy
  cs : t.l2.compressedSize = n
  npos : 1 ≤ n
  le : n ≤ C'.off
  inp : In t (sliceList buf (base + (C'.off - n)) n ++ rest)
  win : Win t (win buf (base + (C'.off - n))) dictSize
  np : t.l2.needProperties = C'.needProps
  ndr : t.l2.needDictionaryReset = false
  props : C'.needProps = false → t.l2.props = p
  initLeft : t.initLeft = 5
  range : t.range = UINT32_MAX
  code : t.code = 0
  pending : t.pending = Pending.none
  nr : t.dp.needReset = false
  prod : t.hist.size + n = t.outBase + C'.off
  flags : C'.needStateReset = true ∧ C'.needDictReset = false
  off : base + C'.off ≤ buf.size

theorem in_length {s : St} {bs : List UInt8} (h : In s bs) : s.inPos + bs.length = s.inp.size ∨ (bs = [] ∧ s.inp.size ≤ s.inPos) := by
  unfold In at h
  have := congrArg List.length h
  simp only [List.length_drop, Array.length_toList, ByteArray.size_data] at this
  by_cases hle : s.inPos ≤ s.inp.size
  · left; omega
  · right
    refine ⟨?_, by omega⟩
    have : bs.length = 0 := by omega
    exact List.eq_nil_of_length_eq_zero this

/-- One SEQ_COPY iteration. -/
theorem urdy_step (p : Props) (dictSize : Nat) (buf : ByteArray) (base : Nat) (t : St) (n : Nat) (C' : L2Cfg)
    (rest : List UInt8) (h : URdy p dictSize buf base t n C' rest) (hcfg2 : C'.needProps = true → C'.needStateReset = false →
      C'.st = {} ∧ C'.ps = initProbs p) (f : Nat) :
    (n ≤ t.dp.limit - t.dp.pos ∧ ∃ sB, lzma2Loop (f + 1) t = lzma2Loop f sB ∧ BSt p dictSize buf base C' sB ∧ In sB rest ∧
      Keep2 t sB ∧ sB.dp.pos = t.dp.pos + n) ∨
    (t.dp.limit - t.dp.pos < n ∧ ∃ s2, lzma2Loop (f + 1) t = (.ok, s2) ∧
      URdy p dictSize buf base s2 (n - (t.dp.limit - t.dp.pos)) C' rest ∧ s2.dp.pos = t.dp.limit ∧ Keep2 t s2) := by
  obtain ⟨hseq, hcs, hnpos, hle, hin, hwin, hnp, hndr, hprops, hil, hrg, hcd, hpd, hnr, hprod, hflags, hoff⟩ := h
  have hsl := sliceList_length buf (base + (C'.off - n)) n (by omega)
  have hinlen : t.inPos + (n + rest.length) = t.inp.size := by
    rcases in_length hin with h1 | ⟨h1, _⟩
    · rw [List.length_append, hsl] at h1; exact h1
    · have := congrArg List.length h1
      rw [List.length_append, hsl] at this
      simp at this; omega
  have hlt : t.inPos < t.inp.size := by omega
  have hpl := hwin.pos_le
  rw [loop_copy f t hlt hseq]
  -- what `dict_write` copies
  generalize hm : min (min (t.inp.size - t.inPos) t.l2.compressedSize) t.dp.avail = m
  have hmval : m = min n (t.dp.limit - t.dp.pos) := by
    rw [← hm, hcs]; simp only [DictPos.avail]; omega
  have hdw : dictWrite t t.l2.compressedSize
      = (m, { t with hist := appendSlice t.inp m t.inPos t.hist, inPos := t.inPos + m, dp := t.dp.advance m }) := by
    simp only [dictWrite, hm]
  rw [hdw]
  simp only []
  -- the window after the copy
  have hbytes : hl (appendSlice t.inp m t.inPos t.hist) = hl t.hist ++ sliceList buf (base + (C'.off - n)) m := by
    rw [hl_appendSlice t.inp m t.inPos t.hist (by omega)]
    congr 1
    have : (hl t.inp).drop t.inPos = sliceList buf (base + (C'.off - n)) n ++ rest := hin
    rw [this, List.take_append_of_le_length (by rw [hsl]; omega), sliceList_eq, sliceList_eq, List.take_take]
    congr 1; omega
  have hslm := sliceList_length buf (base + (C'.off - n)) m (by omega)
  have hwin2 : Win ({ t with hist := appendSlice t.inp m t.inPos t.hist, inPos := t.inPos + m, dp := t.dp.advance m } : St)
      (win buf (base + (C'.off - n) + m)) dictSize := by
    rw [win_add, ← sliceList_eq]
    exact hwin.append _ hbytes (by rw [hslm]) (by rw [hslm]; omega)
  have hin2 : In ({ t with hist := appendSlice t.inp m t.inPos t.hist, inPos := t.inPos + m, dp := t.dp.advance m } : St)
      (sliceList buf (base + (C'.off - n) + m) (n - m) ++ rest) := by
    show t.inp.data.toList.drop (t.inPos + m) = _
    rw [← List.drop_drop, hin, List.drop_append_of_le_length (by rw [hsl]; omega), sliceList_eq, sliceList_eq]
    congr 1
    rw [List.drop_take, List.drop_drop]
  by_cases hfit : n ≤ t.dp.limit - t.dp.pos
  · left
    have hmn : m = n := by omega
    subst hmn
    refine ⟨hfit, setL2 (setL2 ({ t with hist := appendSlice t.inp m t.inPos t.hist, inPos := t.inPos + m,
        dp := t.dp.advance m } : St) fun l => { l with compressedSize := l.compressedSize - m })
      fun l => { l with seq := .control }, ?_, ?_, ?_, ?_, rfl⟩
    · have : ((setL2 ({ t with hist := appendSlice t.inp m t.inPos t.hist, inPos := t.inPos + m, dp := t.dp.advance m } : St)
          fun l => { l with compressedSize := l.compressedSize - m }).l2.compressedSize != 0) = false := by
        show (t.l2.compressedSize - m != 0) = false
        rw [hcs]; simp
      rw [this]
      simp only [Bool.false_eq_true, if_false]
    · have e : base + (C'.off - m) + m = base + C'.off := by omega
      rw [e] at hwin2
      refine ⟨rfl, hnp, hndr, hflags.2, hprops, hil, hrg, hcd, hpd, hwin2.congr rfl rfl, ?_, hnr, hcfg2, hoff, ?_⟩
      · intro _ h2; rw [hflags.1] at h2; cases h2
      · show (appendSlice t.inp m t.inPos t.hist).size = t.outBase + C'.off
        rw [size_appendSlice]; exact hprod
    · have : sliceList buf (base + (C'.off - m) + m) (m - m) = [] := by simp [sliceList_eq]
      rw [Nat.sub_self] at hin2
      rw [this] at hin2
      exact hin2
    · exact ⟨rfl, rfl, rfl, rfl, rfl, by show t.hist.size ≤ (appendSlice t.inp m t.inPos t.hist).size; rw [size_appendSlice]; omega,
        by show (appendSlice t.inp m t.inPos t.hist).size + t.dp.pos = t.hist.size + (t.dp.pos + m); rw [size_appendSlice]; omega,
        by show t.inPos ≤ t.inPos + m; omega⟩
  · right
    have hmn : m = t.dp.limit - t.dp.pos := by omega
    refine ⟨by omega, setL2 ({ t with hist := appendSlice t.inp m t.inPos t.hist, inPos := t.inPos + m,
        dp := t.dp.advance m } : St) fun l => { l with compressedSize := l.compressedSize - m }, ?_, ?_, ?_, ?_⟩
    · have : ((setL2 ({ t with hist := appendSlice t.inp m t.inPos t.hist, inPos := t.inPos + m, dp := t.dp.advance m } : St)
          fun l => { l with compressedSize := l.compressedSize - m }).l2.compressedSize != 0) = true := by
        show (t.l2.compressedSize - m != 0) = true
        rw [hcs]; simp; omega
      rw [this]
      simp only [if_true]
    · have e1 : base + (C'.off - n) + m = base + (C'.off - (n - (t.dp.limit - t.dp.pos))) := by omega
      have e2 : n - m = n - (t.dp.limit - t.dp.pos) := by omega
      rw [e1] at hwin2 hin2
      rw [e2] at hin2
      refine ⟨hseq, ?_, by omega, by omega, hin2, hwin2.congr rfl rfl, hnp, hndr, hprops, hil, hrg, hcd, hpd, hnr, ?_, hflags, hoff⟩
      · show t.l2.compressedSize - m = _; rw [hcs]; omega
      · show (appendSlice t.inp m t.inPos t.hist).size + (n - (t.dp.limit - t.dp.pos)) = t.outBase + C'.off
        rw [size_appendSlice]; omega
    · show t.dp.pos + m = t.dp.limit; omega
    · exact ⟨rfl, rfl, rfl, rfl, rfl, by show t.hist.size ≤ (appendSlice t.inp m t.inPos t.hist).size; rw [size_appendSlice]; omega,
        by show (appendSlice t.inp m t.inPos t.hist).size + t.dp.pos = t.hist.size + (t.dp.pos + m); rw [size_appendSlice]; omega,
        by show t.inPos ≤ t.inPos + m; omega⟩

end XzVerif.LzmaExec
