/- C17: the block counter is a function of the program counter (preservation by `exec`; generated layout). -/
import XzVerif.Lemmas.XzIoBlk

namespace XzVerif.XzIo
variable {α : Type}
set_option linter.unusedSimpArgs false

theorem qb_exec_openSrc {c : Cfg α} {s : St α} (hpc : s.pc = .openSrc) (q : QB s) : QB (exec c s) := by
  have hb : s.blk = if (Pc.openSrc).region then 1 else 0 := by rw [← hpc]; exact q
  simp only [Pc.region, if_true, if_false] at hb
  unfold exec; simp only [hpc]
  repeat' split
  all_goals first
    | (simp [QB, Pc.region, emit, msgError, msgWarn, hb, hpc]; done)
    | (apply qb_continueLoop; simp [emit, msgError, msgWarn, hb]; done)
    | (apply qb_ioFail; simp [emit, msgError, msgWarn, hb]; done)
    | (apply qb_afterWrite; simp [emit, msgError, msgWarn, hb]; done)
    | (apply qb_closeBlock; simp [emit, msgError, msgWarn, hb]; done)
    | (apply qb_closeSrcPhase; simp [emit, msgError, msgWarn, hb]; done)
    | (apply qb_closeDestPhase; simp [emit, msgError, msgWarn, hb]; done)
    | (apply qb_afterAttrs; simp [emit, msgError, msgWarn, hb]; done)
    | (apply qb_openDestErr; simp [emit, msgError, msgWarn, hb]; done)

theorem qb_exec_fstatSrc {c : Cfg α} {s : St α} (hpc : s.pc = .fstatSrc) (q : QB s) : QB (exec c s) := by
  have hb : s.blk = if (Pc.fstatSrc).region then 1 else 0 := by rw [← hpc]; exact q
  simp only [Pc.region, if_true, if_false] at hb
  unfold exec; simp only [hpc]
  repeat' split
  all_goals first
    | (simp [QB, Pc.region, emit, msgError, msgWarn, hb, hpc]; done)
    | (apply qb_continueLoop; simp [emit, msgError, msgWarn, hb]; done)
    | (apply qb_ioFail; simp [emit, msgError, msgWarn, hb]; done)
    | (apply qb_afterWrite; simp [emit, msgError, msgWarn, hb]; done)
    | (apply qb_closeBlock; simp [emit, msgError, msgWarn, hb]; done)
    | (apply qb_closeSrcPhase; simp [emit, msgError, msgWarn, hb]; done)
    | (apply qb_closeDestPhase; simp [emit, msgError, msgWarn, hb]; done)
    | (apply qb_afterAttrs; simp [emit, msgError, msgWarn, hb]; done)
    | (apply qb_openDestErr; simp [emit, msgError, msgWarn, hb]; done)

theorem qb_exec_closeSrcErr {c : Cfg α} {s : St α} (hpc : s.pc = .closeSrcErr) (q : QB s) : QB (exec c s) := by
  have hb : s.blk = if (Pc.closeSrcErr).region then 1 else 0 := by rw [← hpc]; exact q
  simp only [Pc.region, if_true, if_false] at hb
  unfold exec; simp only [hpc]
  repeat' split
  all_goals first
    | (simp [QB, Pc.region, emit, msgError, msgWarn, hb, hpc]; done)
    | (apply qb_continueLoop; simp [emit, msgError, msgWarn, hb]; done)
    | (apply qb_ioFail; simp [emit, msgError, msgWarn, hb]; done)
    | (apply qb_afterWrite; simp [emit, msgError, msgWarn, hb]; done)
    | (apply qb_closeBlock; simp [emit, msgError, msgWarn, hb]; done)
    | (apply qb_closeSrcPhase; simp [emit, msgError, msgWarn, hb]; done)
    | (apply qb_closeDestPhase; simp [emit, msgError, msgWarn, hb]; done)
    | (apply qb_afterAttrs; simp [emit, msgError, msgWarn, hb]; done)
    | (apply qb_openDestErr; simp [emit, msgError, msgWarn, hb]; done)

theorem qb_exec_openDir {c : Cfg α} {s : St α} (hpc : s.pc = .openDir) (q : QB s) : QB (exec c s) := by
  have hb : s.blk = if (Pc.openDir).region then 1 else 0 := by rw [← hpc]; exact q
  simp only [Pc.region, if_true, if_false] at hb
  unfold exec; simp only [hpc]
  repeat' split
  all_goals first
    | (simp [QB, Pc.region, emit, msgError, msgWarn, hb, hpc]; done)
    | (apply qb_continueLoop; simp [emit, msgError, msgWarn, hb]; done)
    | (apply qb_ioFail; simp [emit, msgError, msgWarn, hb]; done)
    | (apply qb_afterWrite; simp [emit, msgError, msgWarn, hb]; done)
    | (apply qb_closeBlock; simp [emit, msgError, msgWarn, hb]; done)
    | (apply qb_closeSrcPhase; simp [emit, msgError, msgWarn, hb]; done)
    | (apply qb_closeDestPhase; simp [emit, msgError, msgWarn, hb]; done)
    | (apply qb_afterAttrs; simp [emit, msgError, msgWarn, hb]; done)
    | (apply qb_openDestErr; simp [emit, msgError, msgWarn, hb]; done)

theorem qb_exec_unlinkForce {c : Cfg α} {s : St α} (hpc : s.pc = .unlinkForce) (q : QB s) : QB (exec c s) := by
  have hb : s.blk = if (Pc.unlinkForce).region then 1 else 0 := by rw [← hpc]; exact q
  simp only [Pc.region, if_true, if_false] at hb
  unfold exec; simp only [hpc]
  repeat' split
  all_goals first
    | (simp [QB, Pc.region, emit, msgError, msgWarn, hb, hpc]; done)
    | (apply qb_continueLoop; simp [emit, msgError, msgWarn, hb]; done)
    | (apply qb_ioFail; simp [emit, msgError, msgWarn, hb]; done)
    | (apply qb_afterWrite; simp [emit, msgError, msgWarn, hb]; done)
    | (apply qb_closeBlock; simp [emit, msgError, msgWarn, hb]; done)
    | (apply qb_closeSrcPhase; simp [emit, msgError, msgWarn, hb]; done)
    | (apply qb_closeDestPhase; simp [emit, msgError, msgWarn, hb]; done)
    | (apply qb_afterAttrs; simp [emit, msgError, msgWarn, hb]; done)
    | (apply qb_openDestErr; simp [emit, msgError, msgWarn, hb]; done)

theorem qb_exec_openDest {c : Cfg α} {s : St α} (hpc : s.pc = .openDest) (q : QB s) : QB (exec c s) := by
  have hb : s.blk = if (Pc.openDest).region then 1 else 0 := by rw [← hpc]; exact q
  simp only [Pc.region, if_true, if_false] at hb
  unfold exec; simp only [hpc]
  repeat' split
  all_goals first
    | (simp [QB, Pc.region, emit, msgError, msgWarn, hb, hpc]; done)
    | (apply qb_continueLoop; simp [emit, msgError, msgWarn, hb]; done)
    | (apply qb_ioFail; simp [emit, msgError, msgWarn, hb]; done)
    | (apply qb_afterWrite; simp [emit, msgError, msgWarn, hb]; done)
    | (apply qb_closeBlock; simp [emit, msgError, msgWarn, hb]; done)
    | (apply qb_closeSrcPhase; simp [emit, msgError, msgWarn, hb]; done)
    | (apply qb_closeDestPhase; simp [emit, msgError, msgWarn, hb]; done)
    | (apply qb_afterAttrs; simp [emit, msgError, msgWarn, hb]; done)
    | (apply qb_openDestErr; simp [emit, msgError, msgWarn, hb]; done)

theorem qb_exec_closeDirErr {c : Cfg α} {s : St α} (hpc : s.pc = .closeDirErr) (q : QB s) : QB (exec c s) := by
  have hb : s.blk = if (Pc.closeDirErr).region then 1 else 0 := by rw [← hpc]; exact q
  simp only [Pc.region, if_true, if_false] at hb
  unfold exec; simp only [hpc]
  repeat' split
  all_goals first
    | (simp [QB, Pc.region, emit, msgError, msgWarn, hb, hpc]; done)
    | (apply qb_continueLoop; simp [emit, msgError, msgWarn, hb]; done)
    | (apply qb_ioFail; simp [emit, msgError, msgWarn, hb]; done)
    | (apply qb_afterWrite; simp [emit, msgError, msgWarn, hb]; done)
    | (apply qb_closeBlock; simp [emit, msgError, msgWarn, hb]; done)
    | (apply qb_closeSrcPhase; simp [emit, msgError, msgWarn, hb]; done)
    | (apply qb_closeDestPhase; simp [emit, msgError, msgWarn, hb]; done)
    | (apply qb_afterAttrs; simp [emit, msgError, msgWarn, hb]; done)
    | (apply qb_openDestErr; simp [emit, msgError, msgWarn, hb]; done)

theorem qb_exec_fstatDest {c : Cfg α} {s : St α} (hpc : s.pc = .fstatDest) (q : QB s) : QB (exec c s) := by
  have hb : s.blk = if (Pc.fstatDest).region then 1 else 0 := by rw [← hpc]; exact q
  simp only [Pc.region, if_true, if_false] at hb
  unfold exec; simp only [hpc]
  repeat' split
  all_goals first
    | (simp [QB, Pc.region, emit, msgError, msgWarn, hb, hpc]; done)
    | (apply qb_continueLoop; simp [emit, msgError, msgWarn, hb]; done)
    | (apply qb_ioFail; simp [emit, msgError, msgWarn, hb]; done)
    | (apply qb_afterWrite; simp [emit, msgError, msgWarn, hb]; done)
    | (apply qb_closeBlock; simp [emit, msgError, msgWarn, hb]; done)
    | (apply qb_closeSrcPhase; simp [emit, msgError, msgWarn, hb]; done)
    | (apply qb_closeDestPhase; simp [emit, msgError, msgWarn, hb]; done)
    | (apply qb_afterAttrs; simp [emit, msgError, msgWarn, hb]; done)
    | (apply qb_openDestErr; simp [emit, msgError, msgWarn, hb]; done)

theorem qb_exec_lseekOut {c : Cfg α} {s : St α} (hpc : s.pc = .lseekOut) (q : QB s) : QB (exec c s) := by
  have hb : s.blk = if (Pc.lseekOut).region then 1 else 0 := by rw [← hpc]; exact q
  simp only [Pc.region, if_true, if_false] at hb
  unfold exec; simp only [hpc]
  repeat' split
  all_goals first
    | (simp [QB, Pc.region, emit, msgError, msgWarn, hb, hpc]; done)
    | (apply qb_continueLoop; simp [emit, msgError, msgWarn, hb]; done)
    | (apply qb_ioFail; simp [emit, msgError, msgWarn, hb]; done)
    | (apply qb_afterWrite; simp [emit, msgError, msgWarn, hb]; done)
    | (apply qb_closeBlock; simp [emit, msgError, msgWarn, hb]; done)
    | (apply qb_closeSrcPhase; simp [emit, msgError, msgWarn, hb]; done)
    | (apply qb_closeDestPhase; simp [emit, msgError, msgWarn, hb]; done)
    | (apply qb_afterAttrs; simp [emit, msgError, msgWarn, hb]; done)
    | (apply qb_openDestErr; simp [emit, msgError, msgWarn, hb]; done)

theorem qb_exec_read {c : Cfg α} {s : St α} (hpc : s.pc = .read) (q : QB s) : QB (exec c s) := by
  have hb : s.blk = if (Pc.read).region then 1 else 0 := by rw [← hpc]; exact q
  simp only [Pc.region, if_true, if_false] at hb
  unfold exec; simp only [hpc]
  repeat' split
  all_goals first
    | (simp [QB, Pc.region, emit, msgError, msgWarn, hb, hpc]; done)
    | (apply qb_continueLoop; simp [emit, msgError, msgWarn, hb]; done)
    | (apply qb_ioFail; simp [emit, msgError, msgWarn, hb]; done)
    | (apply qb_afterWrite; simp [emit, msgError, msgWarn, hb]; done)
    | (apply qb_closeBlock; simp [emit, msgError, msgWarn, hb]; done)
    | (apply qb_closeSrcPhase; simp [emit, msgError, msgWarn, hb]; done)
    | (apply qb_closeDestPhase; simp [emit, msgError, msgWarn, hb]; done)
    | (apply qb_afterAttrs; simp [emit, msgError, msgWarn, hb]; done)
    | (apply qb_openDestErr; simp [emit, msgError, msgWarn, hb]; done)

theorem qb_exec_readPoll {c : Cfg α} {s : St α} (hpc : s.pc = .readPoll) (q : QB s) : QB (exec c s) := by
  have hb : s.blk = if (Pc.readPoll).region then 1 else 0 := by rw [← hpc]; exact q
  simp only [Pc.region, if_true, if_false] at hb
  unfold exec; simp only [hpc]
  repeat' split
  all_goals first
    | (simp [QB, Pc.region, emit, msgError, msgWarn, hb, hpc]; done)
    | (apply qb_continueLoop; simp [emit, msgError, msgWarn, hb]; done)
    | (apply qb_ioFail; simp [emit, msgError, msgWarn, hb]; done)
    | (apply qb_afterWrite; simp [emit, msgError, msgWarn, hb]; done)
    | (apply qb_closeBlock; simp [emit, msgError, msgWarn, hb]; done)
    | (apply qb_closeSrcPhase; simp [emit, msgError, msgWarn, hb]; done)
    | (apply qb_closeDestPhase; simp [emit, msgError, msgWarn, hb]; done)
    | (apply qb_afterAttrs; simp [emit, msgError, msgWarn, hb]; done)
    | (apply qb_openDestErr; simp [emit, msgError, msgWarn, hb]; done)

theorem qb_exec_write {c : Cfg α} {s : St α} (hpc : s.pc = .write) (q : QB s) : QB (exec c s) := by
  have hb : s.blk = if (Pc.write).region then 1 else 0 := by rw [← hpc]; exact q
  simp only [Pc.region, if_true, if_false] at hb
  unfold exec; simp only [hpc]
  repeat' split
  all_goals first
    | (simp [QB, Pc.region, emit, msgError, msgWarn, hb, hpc]; done)
    | (apply qb_continueLoop; simp [emit, msgError, msgWarn, hb]; done)
    | (apply qb_ioFail; simp [emit, msgError, msgWarn, hb]; done)
    | (apply qb_afterWrite; simp [emit, msgError, msgWarn, hb]; done)
    | (apply qb_closeBlock; simp [emit, msgError, msgWarn, hb]; done)
    | (apply qb_closeSrcPhase; simp [emit, msgError, msgWarn, hb]; done)
    | (apply qb_closeDestPhase; simp [emit, msgError, msgWarn, hb]; done)
    | (apply qb_afterAttrs; simp [emit, msgError, msgWarn, hb]; done)
    | (apply qb_openDestErr; simp [emit, msgError, msgWarn, hb]; done)

theorem qb_exec_writePoll {c : Cfg α} {s : St α} (hpc : s.pc = .writePoll) (q : QB s) : QB (exec c s) := by
  have hb : s.blk = if (Pc.writePoll).region then 1 else 0 := by rw [← hpc]; exact q
  simp only [Pc.region, if_true, if_false] at hb
  unfold exec; simp only [hpc]
  repeat' split
  all_goals first
    | (simp [QB, Pc.region, emit, msgError, msgWarn, hb, hpc]; done)
    | (apply qb_continueLoop; simp [emit, msgError, msgWarn, hb]; done)
    | (apply qb_ioFail; simp [emit, msgError, msgWarn, hb]; done)
    | (apply qb_afterWrite; simp [emit, msgError, msgWarn, hb]; done)
    | (apply qb_closeBlock; simp [emit, msgError, msgWarn, hb]; done)
    | (apply qb_closeSrcPhase; simp [emit, msgError, msgWarn, hb]; done)
    | (apply qb_closeDestPhase; simp [emit, msgError, msgWarn, hb]; done)
    | (apply qb_afterAttrs; simp [emit, msgError, msgWarn, hb]; done)
    | (apply qb_openDestErr; simp [emit, msgError, msgWarn, hb]; done)

theorem qb_exec_seekHole {c : Cfg α} {s : St α} (hpc : s.pc = .seekHole) (q : QB s) : QB (exec c s) := by
  have hb : s.blk = if (Pc.seekHole).region then 1 else 0 := by rw [← hpc]; exact q
  simp only [Pc.region, if_true, if_false] at hb
  unfold exec; simp only [hpc]
  repeat' split
  all_goals first
    | (simp [QB, Pc.region, emit, msgError, msgWarn, hb, hpc]; done)
    | (apply qb_continueLoop; simp [emit, msgError, msgWarn, hb]; done)
    | (apply qb_ioFail; simp [emit, msgError, msgWarn, hb]; done)
    | (apply qb_afterWrite; simp [emit, msgError, msgWarn, hb]; done)
    | (apply qb_closeBlock; simp [emit, msgError, msgWarn, hb]; done)
    | (apply qb_closeSrcPhase; simp [emit, msgError, msgWarn, hb]; done)
    | (apply qb_closeDestPhase; simp [emit, msgError, msgWarn, hb]; done)
    | (apply qb_afterAttrs; simp [emit, msgError, msgWarn, hb]; done)
    | (apply qb_openDestErr; simp [emit, msgError, msgWarn, hb]; done)

theorem qb_exec_fixPos {c : Cfg α} {s : St α} (hpc : s.pc = .fixPos) (q : QB s) : QB (exec c s) := by
  have hb : s.blk = if (Pc.fixPos).region then 1 else 0 := by rw [← hpc]; exact q
  simp only [Pc.region, if_true, if_false] at hb
  unfold exec; simp only [hpc]
  repeat' split
  all_goals first
    | (simp [QB, Pc.region, emit, msgError, msgWarn, hb, hpc]; done)
    | (apply qb_continueLoop; simp [emit, msgError, msgWarn, hb]; done)
    | (apply qb_ioFail; simp [emit, msgError, msgWarn, hb]; done)
    | (apply qb_afterWrite; simp [emit, msgError, msgWarn, hb]; done)
    | (apply qb_closeBlock; simp [emit, msgError, msgWarn, hb]; done)
    | (apply qb_closeSrcPhase; simp [emit, msgError, msgWarn, hb]; done)
    | (apply qb_closeDestPhase; simp [emit, msgError, msgWarn, hb]; done)
    | (apply qb_afterAttrs; simp [emit, msgError, msgWarn, hb]; done)
    | (apply qb_openDestErr; simp [emit, msgError, msgWarn, hb]; done)

theorem qb_exec_tailSeek {c : Cfg α} {s : St α} (hpc : s.pc = .tailSeek) (q : QB s) : QB (exec c s) := by
  have hb : s.blk = if (Pc.tailSeek).region then 1 else 0 := by rw [← hpc]; exact q
  simp only [Pc.region, if_true, if_false] at hb
  unfold exec; simp only [hpc]
  repeat' split
  all_goals first
    | (simp [QB, Pc.region, emit, msgError, msgWarn, hb, hpc]; done)
    | (apply qb_continueLoop; simp [emit, msgError, msgWarn, hb]; done)
    | (apply qb_ioFail; simp [emit, msgError, msgWarn, hb]; done)
    | (apply qb_afterWrite; simp [emit, msgError, msgWarn, hb]; done)
    | (apply qb_closeBlock; simp [emit, msgError, msgWarn, hb]; done)
    | (apply qb_closeSrcPhase; simp [emit, msgError, msgWarn, hb]; done)
    | (apply qb_closeDestPhase; simp [emit, msgError, msgWarn, hb]; done)
    | (apply qb_afterAttrs; simp [emit, msgError, msgWarn, hb]; done)
    | (apply qb_openDestErr; simp [emit, msgError, msgWarn, hb]; done)

theorem qb_exec_fchownUid {c : Cfg α} {s : St α} (hpc : s.pc = .fchownUid) (q : QB s) : QB (exec c s) := by
  have hb : s.blk = if (Pc.fchownUid).region then 1 else 0 := by rw [← hpc]; exact q
  simp only [Pc.region, if_true, if_false] at hb
  unfold exec; simp only [hpc]
  repeat' split
  all_goals first
    | (simp [QB, Pc.region, emit, msgError, msgWarn, hb, hpc]; done)
    | (apply qb_continueLoop; simp [emit, msgError, msgWarn, hb]; done)
    | (apply qb_ioFail; simp [emit, msgError, msgWarn, hb]; done)
    | (apply qb_afterWrite; simp [emit, msgError, msgWarn, hb]; done)
    | (apply qb_closeBlock; simp [emit, msgError, msgWarn, hb]; done)
    | (apply qb_closeSrcPhase; simp [emit, msgError, msgWarn, hb]; done)
    | (apply qb_closeDestPhase; simp [emit, msgError, msgWarn, hb]; done)
    | (apply qb_afterAttrs; simp [emit, msgError, msgWarn, hb]; done)
    | (apply qb_openDestErr; simp [emit, msgError, msgWarn, hb]; done)

theorem qb_exec_fchownGid {c : Cfg α} {s : St α} (hpc : s.pc = .fchownGid) (q : QB s) : QB (exec c s) := by
  have hb : s.blk = if (Pc.fchownGid).region then 1 else 0 := by rw [← hpc]; exact q
  simp only [Pc.region, if_true, if_false] at hb
  unfold exec; simp only [hpc]
  repeat' split
  all_goals first
    | (simp [QB, Pc.region, emit, msgError, msgWarn, hb, hpc]; done)
    | (apply qb_continueLoop; simp [emit, msgError, msgWarn, hb]; done)
    | (apply qb_ioFail; simp [emit, msgError, msgWarn, hb]; done)
    | (apply qb_afterWrite; simp [emit, msgError, msgWarn, hb]; done)
    | (apply qb_closeBlock; simp [emit, msgError, msgWarn, hb]; done)
    | (apply qb_closeSrcPhase; simp [emit, msgError, msgWarn, hb]; done)
    | (apply qb_closeDestPhase; simp [emit, msgError, msgWarn, hb]; done)
    | (apply qb_afterAttrs; simp [emit, msgError, msgWarn, hb]; done)
    | (apply qb_openDestErr; simp [emit, msgError, msgWarn, hb]; done)

theorem qb_exec_fchmod {c : Cfg α} {s : St α} (hpc : s.pc = .fchmod) (q : QB s) : QB (exec c s) := by
  have hb : s.blk = if (Pc.fchmod).region then 1 else 0 := by rw [← hpc]; exact q
  simp only [Pc.region, if_true, if_false] at hb
  unfold exec; simp only [hpc]
  repeat' split
  all_goals first
    | (simp [QB, Pc.region, emit, msgError, msgWarn, hb, hpc]; done)
    | (apply qb_continueLoop; simp [emit, msgError, msgWarn, hb]; done)
    | (apply qb_ioFail; simp [emit, msgError, msgWarn, hb]; done)
    | (apply qb_afterWrite; simp [emit, msgError, msgWarn, hb]; done)
    | (apply qb_closeBlock; simp [emit, msgError, msgWarn, hb]; done)
    | (apply qb_closeSrcPhase; simp [emit, msgError, msgWarn, hb]; done)
    | (apply qb_closeDestPhase; simp [emit, msgError, msgWarn, hb]; done)
    | (apply qb_afterAttrs; simp [emit, msgError, msgWarn, hb]; done)
    | (apply qb_openDestErr; simp [emit, msgError, msgWarn, hb]; done)

theorem qb_exec_futimens {c : Cfg α} {s : St α} (hpc : s.pc = .futimens) (q : QB s) : QB (exec c s) := by
  have hb : s.blk = if (Pc.futimens).region then 1 else 0 := by rw [← hpc]; exact q
  simp only [Pc.region, if_true, if_false] at hb
  unfold exec; simp only [hpc]
  repeat' split
  all_goals first
    | (simp [QB, Pc.region, emit, msgError, msgWarn, hb, hpc]; done)
    | (apply qb_continueLoop; simp [emit, msgError, msgWarn, hb]; done)
    | (apply qb_ioFail; simp [emit, msgError, msgWarn, hb]; done)
    | (apply qb_afterWrite; simp [emit, msgError, msgWarn, hb]; done)
    | (apply qb_closeBlock; simp [emit, msgError, msgWarn, hb]; done)
    | (apply qb_closeSrcPhase; simp [emit, msgError, msgWarn, hb]; done)
    | (apply qb_closeDestPhase; simp [emit, msgError, msgWarn, hb]; done)
    | (apply qb_afterAttrs; simp [emit, msgError, msgWarn, hb]; done)
    | (apply qb_openDestErr; simp [emit, msgError, msgWarn, hb]; done)

theorem qb_exec_fsyncFile {c : Cfg α} {s : St α} (hpc : s.pc = .fsyncFile) (q : QB s) : QB (exec c s) := by
  have hb : s.blk = if (Pc.fsyncFile).region then 1 else 0 := by rw [← hpc]; exact q
  simp only [Pc.region, if_true, if_false] at hb
  unfold exec; simp only [hpc]
  repeat' split
  all_goals first
    | (simp [QB, Pc.region, emit, msgError, msgWarn, hb, hpc]; done)
    | (apply qb_continueLoop; simp [emit, msgError, msgWarn, hb]; done)
    | (apply qb_ioFail; simp [emit, msgError, msgWarn, hb]; done)
    | (apply qb_afterWrite; simp [emit, msgError, msgWarn, hb]; done)
    | (apply qb_closeBlock; simp [emit, msgError, msgWarn, hb]; done)
    | (apply qb_closeSrcPhase; simp [emit, msgError, msgWarn, hb]; done)
    | (apply qb_closeDestPhase; simp [emit, msgError, msgWarn, hb]; done)
    | (apply qb_afterAttrs; simp [emit, msgError, msgWarn, hb]; done)
    | (apply qb_openDestErr; simp [emit, msgError, msgWarn, hb]; done)

theorem qb_exec_fsyncDir {c : Cfg α} {s : St α} (hpc : s.pc = .fsyncDir) (q : QB s) : QB (exec c s) := by
  have hb : s.blk = if (Pc.fsyncDir).region then 1 else 0 := by rw [← hpc]; exact q
  simp only [Pc.region, if_true, if_false] at hb
  unfold exec; simp only [hpc]
  repeat' split
  all_goals first
    | (simp [QB, Pc.region, emit, msgError, msgWarn, hb, hpc]; done)
    | (apply qb_continueLoop; simp [emit, msgError, msgWarn, hb]; done)
    | (apply qb_ioFail; simp [emit, msgError, msgWarn, hb]; done)
    | (apply qb_afterWrite; simp [emit, msgError, msgWarn, hb]; done)
    | (apply qb_closeBlock; simp [emit, msgError, msgWarn, hb]; done)
    | (apply qb_closeSrcPhase; simp [emit, msgError, msgWarn, hb]; done)
    | (apply qb_closeDestPhase; simp [emit, msgError, msgWarn, hb]; done)
    | (apply qb_afterAttrs; simp [emit, msgError, msgWarn, hb]; done)
    | (apply qb_openDestErr; simp [emit, msgError, msgWarn, hb]; done)

theorem qb_exec_closeDir {c : Cfg α} {s : St α} (hpc : s.pc = .closeDir) (q : QB s) : QB (exec c s) := by
  have hb : s.blk = if (Pc.closeDir).region then 1 else 0 := by rw [← hpc]; exact q
  simp only [Pc.region, if_true, if_false] at hb
  unfold exec; simp only [hpc]
  repeat' split
  all_goals first
    | (simp [QB, Pc.region, emit, msgError, msgWarn, hb, hpc]; done)
    | (apply qb_continueLoop; simp [emit, msgError, msgWarn, hb]; done)
    | (apply qb_ioFail; simp [emit, msgError, msgWarn, hb]; done)
    | (apply qb_afterWrite; simp [emit, msgError, msgWarn, hb]; done)
    | (apply qb_closeBlock; simp [emit, msgError, msgWarn, hb]; done)
    | (apply qb_closeSrcPhase; simp [emit, msgError, msgWarn, hb]; done)
    | (apply qb_closeDestPhase; simp [emit, msgError, msgWarn, hb]; done)
    | (apply qb_afterAttrs; simp [emit, msgError, msgWarn, hb]; done)
    | (apply qb_openDestErr; simp [emit, msgError, msgWarn, hb]; done)

theorem qb_exec_closeDest {c : Cfg α} {s : St α} (hpc : s.pc = .closeDest) (q : QB s) : QB (exec c s) := by
  have hb : s.blk = if (Pc.closeDest).region then 1 else 0 := by rw [← hpc]; exact q
  simp only [Pc.region, if_true, if_false] at hb
  unfold exec; simp only [hpc]
  repeat' split
  all_goals first
    | (simp [QB, Pc.region, emit, msgError, msgWarn, hb, hpc]; done)
    | (apply qb_continueLoop; simp [emit, msgError, msgWarn, hb]; done)
    | (apply qb_ioFail; simp [emit, msgError, msgWarn, hb]; done)
    | (apply qb_afterWrite; simp [emit, msgError, msgWarn, hb]; done)
    | (apply qb_closeBlock; simp [emit, msgError, msgWarn, hb]; done)
    | (apply qb_closeSrcPhase; simp [emit, msgError, msgWarn, hb]; done)
    | (apply qb_closeDestPhase; simp [emit, msgError, msgWarn, hb]; done)
    | (apply qb_afterAttrs; simp [emit, msgError, msgWarn, hb]; done)
    | (apply qb_openDestErr; simp [emit, msgError, msgWarn, hb]; done)

theorem qb_exec_statDest {c : Cfg α} {s : St α} (hpc : s.pc = .statDest) (q : QB s) : QB (exec c s) := by
  have hb : s.blk = if (Pc.statDest).region then 1 else 0 := by rw [← hpc]; exact q
  simp only [Pc.region, if_true, if_false] at hb
  unfold exec; simp only [hpc]
  repeat' split
  all_goals first
    | (simp [QB, Pc.region, emit, msgError, msgWarn, hb, hpc]; done)
    | (apply qb_continueLoop; simp [emit, msgError, msgWarn, hb]; done)
    | (apply qb_ioFail; simp [emit, msgError, msgWarn, hb]; done)
    | (apply qb_afterWrite; simp [emit, msgError, msgWarn, hb]; done)
    | (apply qb_closeBlock; simp [emit, msgError, msgWarn, hb]; done)
    | (apply qb_closeSrcPhase; simp [emit, msgError, msgWarn, hb]; done)
    | (apply qb_closeDestPhase; simp [emit, msgError, msgWarn, hb]; done)
    | (apply qb_afterAttrs; simp [emit, msgError, msgWarn, hb]; done)
    | (apply qb_openDestErr; simp [emit, msgError, msgWarn, hb]; done)

theorem qb_exec_unlinkDest {c : Cfg α} {s : St α} (hpc : s.pc = .unlinkDest) (q : QB s) : QB (exec c s) := by
  have hb : s.blk = if (Pc.unlinkDest).region then 1 else 0 := by rw [← hpc]; exact q
  simp only [Pc.region, if_true, if_false] at hb
  unfold exec; simp only [hpc]
  repeat' split
  all_goals first
    | (simp [QB, Pc.region, emit, msgError, msgWarn, hb, hpc]; done)
    | (apply qb_continueLoop; simp [emit, msgError, msgWarn, hb]; done)
    | (apply qb_ioFail; simp [emit, msgError, msgWarn, hb]; done)
    | (apply qb_afterWrite; simp [emit, msgError, msgWarn, hb]; done)
    | (apply qb_closeBlock; simp [emit, msgError, msgWarn, hb]; done)
    | (apply qb_closeSrcPhase; simp [emit, msgError, msgWarn, hb]; done)
    | (apply qb_closeDestPhase; simp [emit, msgError, msgWarn, hb]; done)
    | (apply qb_afterAttrs; simp [emit, msgError, msgWarn, hb]; done)
    | (apply qb_openDestErr; simp [emit, msgError, msgWarn, hb]; done)

theorem qb_exec_closeSrc {c : Cfg α} {s : St α} (hpc : s.pc = .closeSrc) (q : QB s) : QB (exec c s) := by
  have hb : s.blk = if (Pc.closeSrc).region then 1 else 0 := by rw [← hpc]; exact q
  simp only [Pc.region, if_true, if_false] at hb
  unfold exec; simp only [hpc]
  repeat' split
  all_goals first
    | (simp [QB, Pc.region, emit, msgError, msgWarn, hb, hpc]; done)
    | (apply qb_continueLoop; simp [emit, msgError, msgWarn, hb]; done)
    | (apply qb_ioFail; simp [emit, msgError, msgWarn, hb]; done)
    | (apply qb_afterWrite; simp [emit, msgError, msgWarn, hb]; done)
    | (apply qb_closeBlock; simp [emit, msgError, msgWarn, hb]; done)
    | (apply qb_closeSrcPhase; simp [emit, msgError, msgWarn, hb]; done)
    | (apply qb_closeDestPhase; simp [emit, msgError, msgWarn, hb]; done)
    | (apply qb_afterAttrs; simp [emit, msgError, msgWarn, hb]; done)
    | (apply qb_openDestErr; simp [emit, msgError, msgWarn, hb]; done)

theorem qb_exec_statSrc {c : Cfg α} {s : St α} (hpc : s.pc = .statSrc) (q : QB s) : QB (exec c s) := by
  have hb : s.blk = if (Pc.statSrc).region then 1 else 0 := by rw [← hpc]; exact q
  simp only [Pc.region, if_true, if_false] at hb
  unfold exec; simp only [hpc]
  repeat' split
  all_goals first
    | (simp [QB, Pc.region, emit, msgError, msgWarn, hb, hpc]; done)
    | (apply qb_continueLoop; simp [emit, msgError, msgWarn, hb]; done)
    | (apply qb_ioFail; simp [emit, msgError, msgWarn, hb]; done)
    | (apply qb_afterWrite; simp [emit, msgError, msgWarn, hb]; done)
    | (apply qb_closeBlock; simp [emit, msgError, msgWarn, hb]; done)
    | (apply qb_closeSrcPhase; simp [emit, msgError, msgWarn, hb]; done)
    | (apply qb_closeDestPhase; simp [emit, msgError, msgWarn, hb]; done)
    | (apply qb_afterAttrs; simp [emit, msgError, msgWarn, hb]; done)
    | (apply qb_openDestErr; simp [emit, msgError, msgWarn, hb]; done)

theorem qb_exec_unlinkSrc {c : Cfg α} {s : St α} (hpc : s.pc = .unlinkSrc) (q : QB s) : QB (exec c s) := by
  have hb : s.blk = if (Pc.unlinkSrc).region then 1 else 0 := by rw [← hpc]; exact q
  simp only [Pc.region, if_true, if_false] at hb
  unfold exec; simp only [hpc]
  repeat' split
  all_goals first
    | (simp [QB, Pc.region, emit, msgError, msgWarn, hb, hpc]; done)
    | (apply qb_continueLoop; simp [emit, msgError, msgWarn, hb]; done)
    | (apply qb_ioFail; simp [emit, msgError, msgWarn, hb]; done)
    | (apply qb_afterWrite; simp [emit, msgError, msgWarn, hb]; done)
    | (apply qb_closeBlock; simp [emit, msgError, msgWarn, hb]; done)
    | (apply qb_closeSrcPhase; simp [emit, msgError, msgWarn, hb]; done)
    | (apply qb_closeDestPhase; simp [emit, msgError, msgWarn, hb]; done)
    | (apply qb_afterAttrs; simp [emit, msgError, msgWarn, hb]; done)
    | (apply qb_openDestErr; simp [emit, msgError, msgWarn, hb]; done)

theorem qb_exec {c : Cfg α} {s : St α} (q : QB s) : QB (exec c s) := by
  cases hpc : s.pc with
  | openSrc => exact qb_exec_openSrc hpc q
  | fstatSrc => exact qb_exec_fstatSrc hpc q
  | closeSrcErr => exact qb_exec_closeSrcErr hpc q
  | openDir => exact qb_exec_openDir hpc q
  | unlinkForce => exact qb_exec_unlinkForce hpc q
  | openDest => exact qb_exec_openDest hpc q
  | closeDirErr => exact qb_exec_closeDirErr hpc q
  | fstatDest => exact qb_exec_fstatDest hpc q
  | lseekOut => exact qb_exec_lseekOut hpc q
  | read => exact qb_exec_read hpc q
  | readPoll => exact qb_exec_readPoll hpc q
  | write => exact qb_exec_write hpc q
  | writePoll => exact qb_exec_writePoll hpc q
  | seekHole => exact qb_exec_seekHole hpc q
  | fixPos => exact qb_exec_fixPos hpc q
  | tailSeek => exact qb_exec_tailSeek hpc q
  | fchownUid => exact qb_exec_fchownUid hpc q
  | fchownGid => exact qb_exec_fchownGid hpc q
  | fchmod => exact qb_exec_fchmod hpc q
  | futimens => exact qb_exec_futimens hpc q
  | fsyncFile => exact qb_exec_fsyncFile hpc q
  | fsyncDir => exact qb_exec_fsyncDir hpc q
  | closeDir => exact qb_exec_closeDir hpc q
  | closeDest => exact qb_exec_closeDest hpc q
  | statDest => exact qb_exec_statDest hpc q
  | unlinkDest => exact qb_exec_unlinkDest hpc q
  | closeSrc => exact qb_exec_closeSrc hpc q
  | statSrc => exact qb_exec_statSrc hpc q
  | unlinkSrc => exact qb_exec_unlinkSrc hpc q
  | done => unfold exec; simp only [hpc]; exact q

theorem preActions_blk {c : Cfg α} {s : St α} : (preActions c s).blk = s.blk := by
  unfold preActions; simp only; split <;> (try split) <;> (try split) <;> rfl

theorem preActions_pcB {c : Cfg α} {s : St α} : (preActions c s).pc = s.pc := by
  unfold preActions; simp only; split <;> (try split) <;> (try split) <;> rfl

theorem qb_preActions {c : Cfg α} {s : St α} (q : QB s) : QB (preActions c s) := by
  unfold QB; rw [preActions_blk, preActions_pcB]; exact q

theorem qb_step {c : Cfg α} {s : St α} (q : QB s) : QB (step c s) := by
  unfold step
  split
  · exact q
  · exact qb_exec (qb_preActions q)

theorem qb_runN {c : Cfg α} (n : Nat) (s : St α) (q : QB s) : QB (runN c n s) := by
  induction n generalizing s with
  | zero => exact q
  | succ n ih => exact ih _ (qb_step q)

theorem qb_start {c : Cfg α} (de : Bool) (k0 e0 : Nat) : QB (start c de k0 e0) := by
  unfold start
  simp only
  split
  · exact qb_continueLoop c _ rfl
  · simp [QB, Pc.region]

end XzVerif.XzIo
