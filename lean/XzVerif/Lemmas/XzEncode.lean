/-
  What the container encoder models of Model/XzEncode.lean write is accepted by the decoder model of Model/XzDecode.lean
  and decodes to the input, given the contract of the payload encoder.  Inversion lemmas for each encoder ("it returned
  LZMA_OK, so the bytes have this shape") feeding the decoder completeness lemmas of Lemmas/XzEncodeDec.lean.
  Kernel proofs, core Lean only.
-/
import XzVerif.Model.XzEncode
import XzVerif.Lemmas.XzEncodeDec
import XzVerif.Lemmas.C02Block
import XzVerif.Lemmas.C02Uncomp
namespace XzVerif.XzEncode
open XzVerif XzVerif.Vli XzVerif.Container XzVerif.XzDecode

/-! ## contracts -/

/-- The payload contract for the chain `fs`: whatever `encPayload` writes for `x`, the raw decoder for the chain as it
    is stored in the Block Header gives `x` back, stops by itself at the end of the Compressed Data (it does not need to
    be told the size: LZMA2 end marker / LZMA1 end marker) and ignores what follows.  Proved for the concrete
    LZMA2 / delta / BCJ models in Props/C01EndToEnd.lean (`payload_contract_std_on`, `payload_contract_std`). -/
def PayloadContract (DE : Env) (E : EncEnv) (fs : List FilterOpts) : Prop :=
  ∀ raws, Forall2 FilterMatches fs raws → ∀ (x t : List UInt8) (c : Nat), x.length ≤ c →
    DE.payload raws (E.encPayload fs x ++ t) c = ⟨.streamEnd, x, (E.encPayload fs x).length⟩

/-- The same for the uncompressed LZMA2 chunks the single-call and threaded encoders fall back to. -/
def UncompContract (DE : Env) : Prop :=
  ∀ (x t : List UInt8) (c : Nat), x.length ≤ c →
    DE.payload [⟨FILTER_LZMA2, [0x00]⟩] (lzma2UncompressedChunks x ++ t) c
      = ⟨.streamEnd, x, (lzma2UncompressedChunks x).length⟩

/-- The encoder's check function returns `lzma_check_size(id)` bytes for the supported Check IDs. -/
def CheckLen (E : EncEnv) : Prop := ∀ id x, checkIsSupported id = true → (E.check id x).length = checkSize id

/-- Encoder and decoder compute the same Check, of the size the format prescribes. -/
def CheckAgrees (DE : Env) (E : EncEnv) : Prop := (∀ id x, DE.check id x = E.check id x) ∧ CheckLen E

/-! ## small facts -/

theorem checkSize_facts : ∀ c < 16, checkSize c % 4 = 0 ∧ checkSize c ≤ 64 := by decide

theorem checkIsSupported_le (c : Nat) (h : checkIsSupported c = true) : c ≤ 15 := by
  unfold checkIsSupported at h
  simp only [decide_eq_true_eq] at h
  omega

theorem forall2_ids : ∀ (fs : List FilterOpts) (raws : List Filter), Forall2 FilterMatches fs raws →
    raws.map (·.id) = fs.map (·.id) := by
  intro fs raws h
  induction h with
  | nil => rfl
  | cons hm _ ih => simp only [List.map_cons, ih, hm.1]

theorem blockPadding_length (n : Nat) : (blockPadding n).length = blockPadLen n := by simp [blockPadding, blockPadLen]

theorem blockPadding_eq (n : Nat) : blockPadding n = List.replicate (blockPadLen n) 0 := rfl

/-! ## Index totals on both sides -/

/-- The encoder's `lzma_index` totals `a` describe the Records `pre`. -/
def AccOf (pre : HashInfo) (a : IndexAcc) : Prop :=
  a.count = pre.length ∧ a.listSize = hIndexListSize pre ∧ ceil4 a.unpaddedSum = hBlocksSize pre ∧
  a.uncompressedSum = hUncompressedSize pre

theorem accOf_nil : AccOf [] {} := by
  simp [AccOf, hIndexListSize, hBlocksSize, hUncompressedSize, ceil4]

/-- Whatever `lzma_index_append` accepts, `lzma_index_hash_append` accepts too (same limits). -/
theorem indexAppend_hash (pre : HashInfo) (a a' : IndexAcc) (u c : Nat) (hacc : AccOf pre a)
    (h : indexAppend a u c = .ok a') :
    indexHashAppend pre u c = .ok (pre ++ [⟨u, c⟩]) ∧ AccOf (pre ++ [⟨u, c⟩]) a' := by
  obtain ⟨hc, hl, hb, hu⟩ := hacc
  unfold indexAppend at h
  by_cases g1 : u < UNPADDED_SIZE_MIN ∨ u > UNPADDED_SIZE_MAX ∨ c > VLI_MAX
  · rw [if_pos g1] at h; simp at h
  rw [if_neg g1] at h
  simp only at h
  by_cases g2 : a.uncompressedSum + c > VLI_MAX
  · rw [if_pos g2] at h; simp at h
  rw [if_neg g2] at h
  by_cases g3 : ceil4 a.unpaddedSum + u > UNPADDED_SIZE_MAX
  · rw [if_pos g3] at h; simp at h
  rw [if_neg g3] at h
  by_cases g4 : indexFileSize 0 (ceil4 a.unpaddedSum + u) (a.count + 1) (a.listSize + (vliSize u + vliSize c)) 0 = none
  · rw [if_pos g4] at h; simp at h
  rw [if_neg g4] at h
  by_cases g5 : indexSize (a.count + 1) (a.listSize + (vliSize u + vliSize c)) > BACKWARD_SIZE_MAX
  · rw [if_pos g5] at h; simp at h
  rw [if_neg g5] at h
  simp only [Except.ok.injEq] at h
  subst h
  have hB : hBlocksSize (pre ++ [⟨u, c⟩]) = hBlocksSize pre + ceil4 u := by simp [hBlocksSize]
  have hU : hUncompressedSize (pre ++ [⟨u, c⟩]) = hUncompressedSize pre + c := by simp [hUncompressedSize]
  have hL : hIndexListSize (pre ++ [⟨u, c⟩]) = hIndexListSize pre + (vliSize u + vliSize c) := by simp [hIndexListSize]
  have hC : hCount (pre ++ [⟨u, c⟩]) = pre.length + 1 := by simp [hCount]
  -- the file-size test of lzma_index_append
  have hfs : 24 + ceil4 (ceil4 a.unpaddedSum + u) + indexSize (a.count + 1) (a.listSize + (vliSize u + vliSize c)) ≤ VLI_MAX := by
    unfold indexFileSize at g4
    simp only [STREAM_HEADER_SIZE, Nat.zero_add, Nat.add_zero] at g4
    by_cases k1 : 2 * 12 + ceil4 (ceil4 a.unpaddedSum + u) > VLI_MAX
    · rw [if_pos k1] at g4; exact absurd rfl g4
    rw [if_neg k1] at g4
    by_cases k2 : 2 * 12 + ceil4 (ceil4 a.unpaddedSum + u) + indexSize (a.count + 1) (a.listSize + (vliSize u + vliSize c)) > VLI_MAX
    · rw [if_pos k2] at g4; exact absurd rfl g4
    omega
  have hce : ceil4 (ceil4 a.unpaddedSum + u) = ceil4 a.unpaddedSum + ceil4 u := by unfold ceil4; omega
  refine ⟨?_, by simp only [List.length_append, List.length_cons, List.length_nil]; omega, by simp only [hL]; omega,
    by simp only []; rw [hce, hB, hb], by simp only [hU]; omega⟩
  unfold indexHashAppend
  rw [if_neg g1]
  simp only []
  rw [hB, hU, hL, hC, ← hb, ← hu, ← hl, ← hc]
  have k : ¬ (ceil4 a.unpaddedSum + ceil4 u > VLI_MAX ∨ a.uncompressedSum + c > VLI_MAX
      ∨ indexSize (a.count + 1) (a.listSize + (vliSize u + vliSize c)) > BACKWARD_SIZE_MAX
      ∨ indexStreamSize (ceil4 a.unpaddedSum + ceil4 u) (a.count + 1) (a.listSize + (vliSize u + vliSize c)) > VLI_MAX) := by
    unfold indexStreamSize STREAM_HEADER_SIZE
    rw [hce] at hfs
    omega
  rw [if_neg k]

theorem indexAppend_sum (a a' : IndexAcc) (u c : Nat) (h : indexAppend a u c = .ok a') :
    a'.unpaddedSum = ceil4 a.unpaddedSum + u ∧ a'.unpaddedSum ≤ UNPADDED_SIZE_MAX := by
  unfold indexAppend at h
  by_cases g1 : u < UNPADDED_SIZE_MIN ∨ u > UNPADDED_SIZE_MAX ∨ c > VLI_MAX
  · rw [if_pos g1] at h; simp at h
  rw [if_neg g1] at h
  simp only at h
  by_cases g2 : a.uncompressedSum + c > VLI_MAX
  · rw [if_pos g2] at h; simp at h
  rw [if_neg g2] at h
  by_cases g3 : ceil4 a.unpaddedSum + u > UNPADDED_SIZE_MAX
  · rw [if_pos g3] at h; simp at h
  rw [if_neg g3] at h
  by_cases g4 : indexFileSize 0 (ceil4 a.unpaddedSum + u) (a.count + 1) (a.listSize + (vliSize u + vliSize c)) 0 = none
  · rw [if_pos g4] at h; simp at h
  rw [if_neg g4] at h
  by_cases g5 : indexSize (a.count + 1) (a.listSize + (vliSize u + vliSize c)) > BACKWARD_SIZE_MAX
  · rw [if_pos g5] at h; simp at h
  rw [if_neg g5] at h
  simp only [Except.ok.injEq] at h
  subst h
  exact ⟨rfl, by simp only []; omega⟩

/-- Five bytes per Record at least: the number of Records `lzma_index_append` accepts is far below LZMA_VLI_MAX. -/
theorem indexAppendAll_sum : ∀ (rs : List IndexRecord) (a a' : IndexAcc), indexAppendAll rs a = .ok a' →
    a.unpaddedSum + 5 * rs.length ≤ a'.unpaddedSum ∧ (rs ≠ [] → a'.unpaddedSum ≤ UNPADDED_SIZE_MAX) := by
  intro rs
  induction rs with
  | nil =>
    intro a a' h
    simp only [indexAppendAll, Except.ok.injEq] at h
    subst h
    simp
  | cons r rs ih =>
    intro a a' h
    simp only [indexAppendAll] at h
    cases h1 : indexAppend a r.unpadded r.uncompressed with
    | error e => simp [h1] at h
    | ok a1 =>
      simp only [h1] at h
      obtain ⟨i1, i2⟩ := ih a1 a' h
      have hmin := (indexAppend_ok _ _ _ _ h1).1
      -- a1.unpaddedSum = ceil4 a.unpaddedSum + u ≤ UNPADDED_SIZE_MAX
      have hsum := indexAppend_sum _ _ _ _ h1
      have hge := ceil4_ge a.unpaddedSum
      unfold UNPADDED_SIZE_MIN at hmin
      refine ⟨by simp only [List.length_cons]; omega, fun _ => ?_⟩
      by_cases hn : rs = []
      · subst hn
        simp only [indexAppendAll, Except.ok.injEq] at h
        subst h
        exact hsum.2
      · exact i2 hn

theorem indexAppendAll_count_le (rs : List IndexRecord) (a : IndexAcc) (h : indexAppendAll rs {} = .ok a) :
    rs.length ≤ VLI_MAX := by
  obtain ⟨h1, h2⟩ := indexAppendAll_sum rs {} a h
  by_cases hn : rs = []
  · subst hn; simp
  · have := h2 hn
    unfold UNPADDED_SIZE_MAX at this
    unfold VLI_MAX
    omega

/-! ## one Block -/

/-- A header written by `lzma_block_header_encode` in front of Compressed Data, padding and Check gives a `GoodBlock`. -/
theorem goodBlock_of_header (DE : Env) (check hs : Nat) (cs us : Option Nat) (fs : List FilterOpts)
    (hdr p x ck : List UInt8) (n : Nat)
    (hw : ∀ o ∈ fs, o.wf) (hh : blockHeaderEncodeWith 0 hs check cs us fs = .ok hdr)
    (hchain : validateChain (fs.map (·.id)) = .ok n)
    (hcs : cs = none ∨ cs = some p.length) (hus : us = none ∨ us = some x.length)
    (hpay : ∀ raws, Forall2 FilterMatches fs raws → ∀ (t : List UInt8) (c : Nat), x.length ≤ c →
        DE.payload raws (p ++ t) c = ⟨.streamEnd, x, p.length⟩)
    (hp : p.length ≤ COMPRESSED_SIZE_MAX) (hx : x.length ≤ VLI_MAX)
    (hck : ck = DE.check check x) (hckl : ck.length = checkSize check) :
    GoodBlock DE check x (hdr ++ p ++ blockPadding p.length ++ ck) (blockUnpaddedSize 0 hs check (some p.length)) := by
  obtain ⟨hlen, hs4, hs8, hs1024, hb0, raws, hfa, hdec⟩ := blockHeader_roundtrip 0 hs check cs us fs hdr [] hw hh
  obtain ⟨hu0, -⟩ := blockHeaderEncodeWith_ok 0 hs check cs us fs hdr hw hh
  have hc15 := (blockUnpaddedSize_ne_zero _ _ _ _ hu0).2.2.2.2.1
  rw [List.append_nil] at hdec
  cases hdr with
  | nil => simp at hlen; omega
  | cons b0 tl =>
    have hb0' : (b0.toNat + 1) * 4 = hs := by simpa using hb0
    have hdec' : blockHeaderDecodeWith ((b0.toNat + 1) * 4) check (b0 :: tl)
        = .ok { compressedSize := cs, uncompressedSize := us, filters := raws } := by
      unfold blockHeaderDecode at hdec
      simpa using hdec
    have hcsz := (checkSize_facts check (by omega)).2
    refine ⟨b0, tl, p, _, n, by omega, by rw [hlen, hb0'], by rw [hck, blockPadding_eq], hdec', ?_, hcs, hus,
      hpay raws hfa, ?_, hx, by rw [← hck]; exact hckl, ?_⟩
    · simp only []; rw [forall2_ids fs raws hfa]; exact hchain
    · rw [hb0']
      have := consts_eval.1
      show p.length ≤ VLI_MAX / 4 * 4 - hs - checkSize check
      unfold VLI_MAX
      omega
    · rw [hb0']; exact blockUnpaddedSize_version 1 0 hs check _ (by omega) (by omega)

theorem blockBody_ok (E : EncEnv) (check : Nat) (fs : List FilterOpts) (data body : List UInt8) (cs : Nat)
    (h : blockBody E check fs data = .ok (body, cs)) :
    data.length ≤ VLI_MAX ∧ cs = (E.encPayload fs data).length ∧ cs ≤ COMPRESSED_SIZE_MAX ∧
    body = E.encPayload fs data ++ blockPadding cs ++ E.check check data := by
  unfold blockBody at h
  by_cases g1 : data.length > VLI_MAX
  · rw [if_pos g1] at h; simp at h
  rw [if_neg g1] at h
  simp only [] at h
  by_cases g2 : (E.encPayload fs data).length > COMPRESSED_SIZE_MAX
  · rw [if_pos g2] at h; simp at h
  rw [if_neg g2] at h
  simp only [Except.ok.injEq, Prod.mk.injEq] at h
  obtain ⟨h1, h2⟩ := h
  subst h2
  exact ⟨by omega, rfl, by omega, h1.symm⟩

theorem blockEncoderInit_ok (E : EncEnv) (check : Nat) (fs : List FilterOpts) (h : ¬ blockEncoderInit E check fs ≠ .ok) :
    checkIsSupported check = true := by
  unfold blockEncoderInit at h
  by_cases g1 : check > CHECK_ID_MAX
  · rw [if_pos g1] at h; simp at h
  rw [if_neg g1] at h
  by_cases g2 : (!checkIsSupported check) = true
  · rw [if_pos g2] at h; simp at h
  · simpa using g2

/-- The streaming Block encoder writes a truthful Block. -/
theorem blockEncodeST_good (DE : Env) (E : EncEnv) (check : Nat) (fs : List FilterOpts) (n : Nat)
    (hw : ∀ o ∈ fs, o.wf) (hchain : validateChain (fs.map (·.id)) = .ok n)
    (hck : CheckAgrees DE E) (hpc : PayloadContract DE E fs) (data : List UInt8) (b : BlockOut)
    (h : blockEncodeST E check fs data = .ok b) :
    GoodBlock DE check data b.bytes b.unpadded ∧ b.uncompressed = data.length := by
  unfold blockEncodeST at h
  cases h1 : blockHeaderSize 0 none none fs with
  | error e => simp [h1] at h
  | ok hs =>
    simp only [h1] at h
    by_cases g : blockEncoderInit E check fs ≠ .ok
    · rw [if_pos g] at h; simp at h
    rw [if_neg g] at h
    have hsup := blockEncoderInit_ok E check fs g
    cases h2 : blockHeaderEncodeWith 0 hs check none none fs with
    | error e => simp [h2] at h
    | ok hdr =>
      simp only [h2] at h
      cases h3 : blockBody E check fs data with
      | error e => simp [h3] at h
      | ok r =>
        obtain ⟨body, cs⟩ := r
        simp only [h3, Except.ok.injEq] at h
        subst h
        obtain ⟨hx, hcs, hcsm, hbody⟩ := blockBody_ok E check fs data body cs h3
        refine ⟨?_, rfl⟩
        simp only []
        have := goodBlock_of_header DE check hs none none fs hdr (E.encPayload fs data) data (E.check check data) n hw h2 hchain
          (Or.inl rfl) (Or.inl rfl) (fun raws hr t c hc => hpc raws hr data t c hc) (by omega) hx (hck.1 _ _).symm
          (hck.2 _ _ hsup)
        rw [hbody, hcs]
        simpa [List.append_assoc] using this

/-! ## the Blocks of a Stream -/

theorem blocksEncode_good (DE : Env) (check : Nat) (enc : List UInt8 → Res BlockOut)
    (henc : ∀ d b, enc d = .ok b → GoodBlock DE check d b.bytes b.unpadded ∧ b.uncompressed = d.length) :
    ∀ (blocks : List (List UInt8)) (acc : IndexAcc) (pre : HashInfo) (bytes : List UInt8) (recs : List IndexRecord),
      AccOf pre acc → blocksEncode enc blocks acc = .ok (bytes, recs) →
      ∃ bl : BlockList, bl.bytes = bytes ∧ bl.recs = recs ∧ bl.data = blocks.flatten ∧
        (∀ q ∈ bl, GoodBlock DE check q.1 q.2.1 q.2.2) ∧ AppendsOk pre recs ∧
        ∃ acc', indexAppendAll recs acc = .ok acc' := by
  intro blocks
  induction blocks with
  | nil =>
    intro acc pre bytes recs _ h
    simp only [blocksEncode, Except.ok.injEq, Prod.mk.injEq] at h
    obtain ⟨h1, h2⟩ := h
    subst h1 h2
    refine ⟨[], rfl, rfl, rfl, ?_, ?_, ?_⟩
    · intro q hq; simp at hq
    · exact trivial
    · exact ⟨acc, rfl⟩
  | cons d rest ih =>
    intro acc pre bytes recs hacc h
    simp only [blocksEncode] at h
    by_cases he : d.isEmpty = true
    · rw [if_pos he] at h
      obtain ⟨bl, h1, h2, h3, h4, h5, h6⟩ := ih acc pre bytes recs hacc h
      have hd : d = [] := by simpa using he
      exact ⟨bl, h1, h2, by rw [h3, hd]; simp, h4, h5, h6⟩
    rw [if_neg he] at h
    cases h1 : enc d with
    | error e => simp [h1] at h
    | ok b =>
      simp only [h1] at h
      cases h2 : indexAppend acc b.unpadded b.uncompressed with
      | error e => simp [h2] at h
      | ok acc1 =>
        simp only [h2] at h
        cases h3 : blocksEncode enc rest acc1 with
        | error e => simp [h3] at h
        | ok r =>
          obtain ⟨bytes', recs'⟩ := r
          simp only [h3, Except.ok.injEq, Prod.mk.injEq] at h
          obtain ⟨hb, hr⟩ := h
          subst hb hr
          obtain ⟨hgood, hunc⟩ := henc d b h1
          obtain ⟨happ, hacc1⟩ := indexAppend_hash pre acc acc1 _ _ hacc h2
          obtain ⟨bl, e1, e2, e3, e4, e5, acc', e6⟩ := ih acc1 _ bytes' recs' hacc1 h3
          refine ⟨(d, b.bytes, b.unpadded) :: bl, ?_, ?_, ?_, ?_, ?_, acc', ?_⟩
          · rw [BlockList.bytes_cons, e1]
          · rw [BlockList.recs_cons, e2, hunc]
          · rw [BlockList.data_cons, e3]; simp
          · intro q hq
            rcases List.mem_cons.mp hq with hq | hq
            · subst hq; exact hgood
            · exact e4 q hq
          · rw [AppendsOk_cons]; exact ⟨happ, e5⟩
          · simp only [indexAppendAll, h2]; exact e6

/-! ## whole Streams -/

theorem streamTail_ok (check : Nat) (recs : List IndexRecord) (tail : List UInt8) (h : streamTail check recs = .ok tail) :
    ∃ ftr, streamFooterEncode { check := check } (indexHashSize recs) = .ok ftr ∧ tail = indexEncode recs ++ ftr := by
  unfold streamTail at h
  cases h1 : streamFooterEncode { check := check } (indexSize recs.length (indexListSize recs)) with
  | error e => simp [h1] at h
  | ok ftr =>
    simp only [h1, Except.ok.injEq] at h
    exact ⟨ftr, h1, h.symm⟩

/-- Header ++ truthful Blocks ++ `streamTail` decodes to the Blocks' data: the common end of all Stream encoders. -/
theorem stream_assembled_decodes (DE : Env) (fl : Flags) (check : Nat) (hb tail : List UInt8) (bl : BlockList)
    (acc : IndexAcc) (cap : Nat)
    (hhdr : streamHeaderEncode { check := check } = .ok hb)
    (hgood : ∀ q ∈ bl, GoodBlock DE check q.1 q.2.1 q.2.2)
    (hap : AppendsOk [] bl.recs) (hall : indexAppendAll bl.recs {} = .ok acc)
    (htail : streamTail check bl.recs = .ok tail) (hcap : bl.data.length ≤ cap) :
    xzDecode DE fl (hb ++ bl.bytes ++ tail) cap
      = { ret := .streamEnd, out := bl.data, consumed := (hb ++ bl.bytes ++ tail).length,
          events := headerEvents DE fl check } := by
  obtain ⟨ftr, hf, ht⟩ := streamTail_ok check bl.recs tail htail
  have hcnt := indexAppendAll_count_le _ _ hall
  have hlen : (indexEncode bl.recs).length = indexHashSize bl.recs := (index_roundtrip bl.recs acc [] hcnt hall).2
  have hone := streamOne_complete_enc DE fl true { check := check } hb ftr bl cap [] hhdr hgood hap hcnt hlen hf hcap
  rw [List.append_nil] at hone
  have e : hb ++ bl.bytes ++ tail = hb ++ bl.bytes ++ indexEncode bl.recs ++ ftr := by rw [ht]; simp
  rw [e]
  exact xzDecode_of_streamOne DE fl _ cap _ hone rfl rfl

theorem streamInit_ok (E : EncEnv) (cfg : Cfg) (hb : List UInt8) (h : streamInit E cfg = .ok hb) :
    streamHeaderEncode { check := cfg.check } = .ok hb := by
  unfold streamInit at h
  cases h1 : streamHeaderEncode { check := cfg.check } with
  | error e => simp [h1] at h
  | ok hdr =>
    simp only [h1] at h
    cases h2 : blockHeaderSize 0 none none cfg.filters with
    | error e => simp [h2] at h
    | ok hs =>
      simp only [h2] at h
      by_cases g : blockEncoderInit E cfg.check cfg.filters ≠ .ok
      · rw [if_pos g] at h; simp at h
      · rw [if_neg g] at h
        simp only [Except.ok.injEq] at h
        rw [h]

/-- **The multi-call Stream encoder writes a valid Stream.**  Whatever `streamEncodeST` returns with LZMA_OK is accepted
    by the decoder model (for every decoder flag combination), decodes to the concatenation of the pieces, and is
    consumed to the last byte. -/
theorem streamEncodeST_decodes (DE : Env) (E : EncEnv) (cfg : Cfg) (blocks : List (List UInt8)) (out : List UInt8)
    (fl : Flags) (cap n : Nat)
    (hw : ∀ o ∈ cfg.filters, o.wf) (hchain : validateChain (cfg.filters.map (·.id)) = .ok n)
    (hck : CheckAgrees DE E) (hpc : PayloadContract DE E cfg.filters)
    (henc : streamEncodeST E cfg blocks = .ok out) (hcap : blocks.flatten.length ≤ cap) :
    xzDecode DE fl out cap
      = { ret := .streamEnd, out := blocks.flatten, consumed := out.length, events := headerEvents DE fl cfg.check } := by
  unfold streamEncodeST at henc
  cases h1 : streamInit E cfg with
  | error e => simp [h1] at henc
  | ok hb =>
    simp only [h1] at henc
    cases h2 : blocksEncode (blockEncodeST E cfg.check cfg.filters) blocks {} with
    | error e => simp [h2] at henc
    | ok r =>
      obtain ⟨bytes, recs⟩ := r
      simp only [h2] at henc
      cases h3 : streamTail cfg.check recs with
      | error e => simp [h3] at henc
      | ok tail =>
        simp only [h3, Except.ok.injEq] at henc
        subst henc
        obtain ⟨bl, e1, e2, e3, e4, e5, acc', e6⟩ := blocksEncode_good DE cfg.check _
          (fun d b hb => blockEncodeST_good DE E cfg.check cfg.filters n hw hchain hck hpc d b hb) blocks {} [] bytes recs
          accOf_nil h2
        subst e1 e2
        rw [← e3] at hcap ⊢
        exact stream_assembled_decodes DE fl cfg.check hb tail bl acc' cap (streamInit_ok E cfg hb h1) e4 e5 e6 h3 hcap

end XzVerif.XzEncode
