/-
  Helper lemmas for C12: Block encoder and Stream encoder (stream_encoder.c) along an arbitrary history. Core Lean only.
-/
import XzVerif.Lemmas.FlushRaw
set_option linter.unusedSimpArgs false
set_option linter.unusedVariables false

namespace XzVerif.Flush
variable {σ : Type}

/-! ### chains a Block can be made of -/

theorem validateLoop_last : ∀ (fs : Chain) (nl l : Bool) (c i : Nat) (hne : fs ≠ []),
    (validateLoop fs nl l c i).1 = .ok → (validateLoop fs nl l c i).2.1 = (fs.getLast hne).isLzma := by
  intro fs
  induction fs with
  | nil => intro _ _ _ _ hne; exact absurd rfl hne
  | cons f rest ih =>
    intro nl l c i hne hok
    unfold validateLoop at hok ⊢
    by_cases hnl : nl = true
    · simp only [hnl, Bool.not_true, Bool.false_eq_true, if_false] at hok ⊢
      cases rest with
      | nil =>
        simp [validateLoop, Filter.features]
        cases f.isLzma <;> simp
      | cons g rest' =>
        have := ih f.features.1 f.features.2.1 (c + if f.features.2.2 = true then 1 else 0) (i + 1) (by simp) hok
        simpa using this
    · simp [hnl] at hok

theorem validateChain_last {fs : Chain} (h : validateChain fs = .ok) :
    ∃ f, fs.getLast? = some f ∧ f.isLzma = true := by
  unfold validateChain at h
  by_cases he : fs.isEmpty = true
  · simp [he] at h
  · have hne : fs ≠ [] := by simpa using he
    simp only [he, Bool.false_eq_true, if_false] at h
    have hl := validateLoop_last fs true false 0 0 hne
    generalize validateLoop fs true false 0 0 = res at h hl
    obtain ⟨r, lastOk, csc, i⟩ := res
    simp only at h hl
    by_cases hr : r = .ok
    · subst hr
      have hlo : lastOk = true := by
        cases lastOk
        · simp at h
        · rfl
      exact ⟨fs.getLast hne, List.getLast?_eq_some_getLast hne, by rw [← hl rfl, hlo]⟩
    · simp [hr] at h

theorem flagsSizeSum_ids : ∀ (fs : Chain) (i : Nat) (n : Nat), flagsSizeSum fs i = .ok n → ∀ f ∈ fs, f.id < FILTER_RESERVED_START := by
  intro fs
  induction fs with
  | nil => intro _ _ _ f hf; cases hf
  | cons g rest ih =>
    intro i n h f hf
    unfold flagsSizeSum at h
    by_cases hi : i = FILTERS_MAX
    · simp [hi] at h
    · simp only [hi, if_false] at h
      by_cases hg : g.id ≥ FILTER_RESERVED_START
      · simp [Filter.flagsSize, hg] at h
      · simp only [Filter.flagsSize, hg, if_false] at h
        cases hrest : flagsSizeSum rest (i + 1) with
        | error r => simp [hrest] at h
        | ok b =>
          rcases List.mem_cons.mp hf with rfl | hm
          · omega
          · exact ih (i + 1) b hrest f hm

/-- What `block_encoder_init` of stream_encoder.c guarantees about a chain it accepts. -/
theorem streamBlockInit_ok {C : Codec σ} {fs : Chain} {check : Nat} {b : BlockEnc σ} {h : Nat}
    (hok : streamBlockInit C fs check = .ok (b, h)) :
    blockHeaderSize fs none none = .ok h ∧
    b = { raw := RawEnc.init C fs, seq := .code, compressedSize := 0, uncompressedSize := 0, checkId := check, data := [], emitted := [] } ∧
    ∃ f, fs.getLast? = some f ∧ f.kind = .lzma2 ∧ f.props.valid = true := by
  unfold streamBlockInit at hok
  cases hh : blockHeaderSize fs none none with
  | error r => simp [hh] at hok
  | ok h' =>
    simp only [hh] at hok
    unfold BlockEnc.init at hok
    cases hr : rawInitRet fs <;> simp [hr] at hok
    obtain ⟨hb, hhh⟩ := hok
    refine ⟨by rw [hhh], hb.symm, ?_⟩
    -- the last filter is an LZMA filter with valid options, and its ID is not LZMA1's
    unfold rawInitRet at hr
    by_cases hv : validateChain fs = .ok
    · simp [hv] at hr
      obtain ⟨f, hl, hz⟩ := validateChain_last hv
      have hmem : f ∈ fs := List.mem_of_getLast? hl
      by_cases hall : fs.all Filter.initOk = true
      · have hi := List.all_eq_true.mp hall f hmem
        -- id < RESERVED_START
        have hid : f.id < FILTER_RESERVED_START := by
          unfold blockHeaderSize at hh
          simp at hh
          by_cases hemp : fs = []
          · simp [hemp] at hh
          · simp [hemp] at hh
            cases hs : flagsSizeSum fs 0 with
            | error r => simp [hs] at hh
            | ok c => exact flagsSizeSum_ids fs 0 c hs f hmem
        have hk : f.kind = .lzma2 := by
          have e1 : ¬ ID_LZMA2 = ID_LZMA1 := by decide
          have e2 : ¬ ID_DELTA = ID_LZMA1 := by decide
          have e3 : ¬ ID_DELTA = ID_LZMA2 := by decide
          unfold Filter.isLzma Filter.kind at hz
          unfold Filter.kind
          by_cases h1 : f.id = ID_LZMA1
          · rw [h1] at hid; exact absurd hid (by decide)
          · by_cases h2 : f.id = ID_LZMA2
            · simp [h2, e1]
            · by_cases h3 : f.id = ID_DELTA
              · simp [h3, e2, e3] at hz
              · simp [h1, h2, h3] at hz
        refine ⟨f, hl, hk, ?_⟩
        unfold Filter.initOk at hi
        rw [hk] at hi
        simp only at hi
        unfold Filter.memOk at hi
        rw [hk] at hi
        cases hv' : f.props.valid with
        | true => rfl
        | false => simp [hv'] at hi
      · exact absurd (List.all_eq_true.mpr hr) hall
    · have : (validateChain fs != .ok) = true := by simpa using hv
      simp [this] at hr
      exact absurd hr hv


/-! ### Block encoder -/

theorem RawEnc.code_l2 (E : Env σ) (C : Codec σ) (r : RawEnc σ) (h1 : r.isLzma1 = false) (inp : Bytes) (a : Action)
    (hnr : (refusesSync a && !r.pre.canSync) = false) :
    ∃ k, k ≤ (r.pre.held ++ inp).length ∧ ((a ≠ .run ∨ r.pre.canSync = true) → k = 0) ∧
      r.code E C inp a =
        ({ r with pre := { r.pre with held := (r.pre.held ++ inp).drop ((r.pre.held ++ inp).length - k) },
                  l2 := (r.l2.code C ((r.pre.held ++ inp).take ((r.pre.held ++ inp).length - k)) a).1 },
         (r.l2.code C ((r.pre.held ++ inp).take ((r.pre.held ++ inp).length - k)) a).2.1, inp.length,
         (r.l2.code C ((r.pre.held ++ inp).take ((r.pre.held ++ inp).length - k)) a).2.2) := by
  refine ⟨if (a == .run && !r.pre.canSync) = true then min (E.hold r.chain (r.pre.held ++ inp)) (r.pre.held ++ inp).length else 0, ?_, ?_, ?_⟩
  · split
    · exact Nat.min_le_right _ _
    · exact Nat.zero_le _
  · intro h
    rcases h with h | h
    · have : (a == Action.run) = false := by cases a <;> simp at h ⊢
      simp [this]
    · simp [h]
  · unfold RawEnc.code
    simp only [hnr, Bool.false_eq_true, if_false, h1]

structure BlockOk (C : Codec σ) (b : BlockEnc σ) : Prop where
  seq : b.seq = .code
  lzma2 : b.raw.isLzma1 = false
  csize : b.compressedSize = b.emitted.length
  usize : b.uncompressedSize = b.data.length
  heldSync : b.raw.pre.canSync = true → b.raw.pre.held = []
  dec : ∀ tail : Bytes, ∃ d, Decodes C (Dec.init C) (b.emitted ++ tail) d tail ∧ Agree C b.raw.l2 d
      ∧ b.raw.l2.hist ++ b.raw.l2.unenc ++ b.raw.pre.held = b.data

/-- `block_encode` at SEQ_CODE, seen from outside. `BlockEnc.code` in explicit form when nothing fatal happens. -/
theorem BlockEnc.code_eq (E : Env σ) (C : Codec σ) (b : BlockEnc σ) (hseq : b.seq = .code) (inp : Bytes) (a : Action) :
    b.code E C inp a =
      if Vli.VLI_MAX - b.uncompressedSize < inp.length then (b, [], 0, .dataError)
      else if COMPRESSED_SIZE_MAX - b.compressedSize < (b.raw.code E C inp a).2.1.length then
        ({ b with raw := (b.raw.code E C inp a).1, emitted := b.emitted ++ (b.raw.code E C inp a).2.1 },
          (b.raw.code E C inp a).2.1, (b.raw.code E C inp a).2.2.1, .dataError)
      else if returnsInnerRet a (b.raw.code E C inp a).2.2.2 then
        ({ b with raw := (b.raw.code E C inp a).1, compressedSize := b.compressedSize + (b.raw.code E C inp a).2.1.length,
                  uncompressedSize := b.uncompressedSize + (b.raw.code E C inp a).2.2.1,
                  data := b.data ++ inp.take (b.raw.code E C inp a).2.2.1, emitted := b.emitted ++ (b.raw.code E C inp a).2.1 },
          (b.raw.code E C inp a).2.1, (b.raw.code E C inp a).2.2.1, (b.raw.code E C inp a).2.2.2)
      else
        ({ b with raw := (b.raw.code E C inp a).1, compressedSize := b.compressedSize + (b.raw.code E C inp a).2.1.length,
                  uncompressedSize := b.uncompressedSize + (b.raw.code E C inp a).2.2.1,
                  data := b.data ++ inp.take (b.raw.code E C inp a).2.2.1,
                  seq := .check,
                  emitted := b.emitted ++ (b.raw.code E C inp a).2.1 ++
                    blockTail E b.checkId (b.compressedSize + (b.raw.code E C inp a).2.1.length) (b.data ++ inp.take (b.raw.code E C inp a).2.2.1) },
          (b.raw.code E C inp a).2.1 ++
            blockTail E b.checkId (b.compressedSize + (b.raw.code E C inp a).2.1.length) (b.data ++ inp.take (b.raw.code E C inp a).2.2.1),
          (b.raw.code E C inp a).2.2.1, .streamEnd) := by
  unfold BlockEnc.code
  simp only [hseq]

/-- One call of `block_encode` at SEQ_CODE that did not fail. -/
theorem BlockEnc.code_spec {E : Env σ} {C : Codec σ} (hC : C.Sound) {b : BlockEnc σ} (hb : BlockOk C b) (inp : Bytes) (a : Action)
    (ha : a = .run ∨ a = .syncFlush ∨ a = .finish)
    (hret : (b.code E C inp a).2.2.2 = .ok ∨ (b.code E C inp a).2.2.2 = .streamEnd) :
    (b.code E C inp a).2.2.1 = inp.length ∧
    (b.code E C inp a).1.emitted = b.emitted ++ (b.code E C inp a).2.1 ∧
    (b.code E C inp a).1.data = b.data ++ inp ∧
    (b.code E C inp a).1.checkId = b.checkId ∧
    (b.code E C inp a).1.uncompressedSize = (b.data ++ inp).length ∧
    (returnsInnerRet a (b.code E C inp a).2.2.2 = true →
        BlockOk C (b.code E C inp a).1 ∧ (a = .run → (b.code E C inp a).2.2.2 = .ok) ∧
        (a ≠ .run → (b.code E C inp a).2.2.2 = .streamEnd ∧ (b.code E C inp a).1.raw.l2.unenc = [] ∧ (b.code E C inp a).1.raw.pre.held = [])) ∧
    (returnsInnerRet a (b.code E C inp a).2.2.2 = false →
        a = .finish ∧ (b.code E C inp a).2.2.2 = .streamEnd ∧
        ∃ comp d, (b.code E C inp a).1.emitted = comp ++ blockTail E b.checkId comp.length (b.data ++ inp) ∧
          (b.code E C inp a).1.compressedSize = comp.length ∧
          Decodes C (Dec.init C) comp d [] ∧ d.ended = true ∧ d.out = b.data ++ inp) := by
  rw [BlockEnc.code_eq E C b hb.seq inp a] at hret ⊢
  by_cases hv : Vli.VLI_MAX - b.uncompressedSize < inp.length
  · simp [hv] at hret
  simp only [hv, if_false] at hret ⊢
  -- the chain did not refuse
  have hnr : (refusesSync a && !b.raw.pre.canSync) = false := by
    by_cases hr : (refusesSync a && !b.raw.pre.canSync) = true
    · exfalso
      have hsync : a = .syncFlush := by
        cases a <;> simp [refusesSync] at hr ⊢
      subst hsync
      have hcs : b.raw.pre.canSync = false := by simpa [refusesSync] using hr
      have href := RawEnc.sync_refused E C b.raw (Or.inr hcs) inp
      simp only [href] at hret
      by_cases hcm : COMPRESSED_SIZE_MAX - b.compressedSize < (b.raw.code E C inp .syncFlush).2.1.length
      · simp [hcm] at hret
      · simp [hcm, returnsInnerRet] at hret
    · simpa using hr
  obtain ⟨k, hk1, hk2, hcode⟩ := RawEnc.code_l2 E C b.raw hb.lzma2 inp a hnr
  rw [hcode] at hret ⊢
  simp only at hret ⊢
  generalize hdel : (b.raw.pre.held ++ inp).take ((b.raw.pre.held ++ inp).length - k) = delivered at hret ⊢
  generalize hheld : (b.raw.pre.held ++ inp).drop ((b.raw.pre.held ++ inp).length - k) = held' at hret ⊢
  have hsplit : delivered ++ held' = b.raw.pre.held ++ inp := by rw [← hdel, ← hheld, List.take_append_drop]
  by_cases hcm : COMPRESSED_SIZE_MAX - b.compressedSize < (b.raw.l2.code C delivered a).2.1.length
  · simp [hcm] at hret
  simp only [hcm, if_false, List.take_length] at hret ⊢
  by_cases hri : returnsInnerRet a (b.raw.l2.code C delivered a).2.2 = true
  · simp only [hri, if_true]
    refine ⟨by simp, by simp, by simp, by simp, by simp [hb.usize], ?_, by simp⟩
    intro _
    -- code_spec for every decoder state
    have hspec := fun d (had : Agree C b.raw.l2 d) tail => l2_code_spec hC b.raw.l2 d had delivered a tail
    obtain ⟨d0, _, had0, hdata0⟩ := hb.dec []
    obtain ⟨c1, _, c3, c4, _, _⟩ := hspec d0 had0 []
    have hanf : a ≠ .finish := by
      intro haf; subst haf
      have := (c4 (by decide)).1
      simp [this, returnsInnerRet] at hri
    refine ⟨⟨hb.seq, hb.lzma2, by simp [hb.csize], by simp [hb.usize], ?_, ?_⟩, c3, ?_⟩
    · intro hcs
      simp only at hcs
      have hk0 := hk2 (Or.inr hcs)
      subst hk0
      simp [← hheld]
    · intro tail
      obtain ⟨d, hd, had, hdata⟩ := hb.dec ((b.raw.l2.code C delivered a).2.1 ++ tail)
      obtain ⟨e1, _, _, _, e5, _⟩ := hspec d had tail
      obtain ⟨d', hd', had'⟩ := e5 hanf
      refine ⟨d', by rw [List.append_assoc]; exact hd.trans hd', had', ?_⟩
      simp only
      rw [e1, List.append_assoc, List.append_assoc, hsplit, ← List.append_assoc, ← List.append_assoc, ← hdata]
      try simp [List.append_assoc]
    · intro har
      obtain ⟨r1, r2⟩ := c4 har
      refine ⟨r1, r2, ?_⟩
      have hk0 := hk2 (Or.inl har)
      subst hk0
      simp [← hheld]
  · have hri' : returnsInnerRet a (b.raw.l2.code C delivered a).2.2 = false := by simpa using hri
    obtain ⟨d0, _, had0, hdata0⟩ := hb.dec []
    obtain ⟨c1, _, c3, c4, _, _⟩ := l2_code_spec hC b.raw.l2 d0 had0 delivered a []
    have haf : a = .finish := by
      rcases ha with h | h | h
      · subst h; simp [c3 rfl, returnsInnerRet] at hri'
      · subst h; simp [returnsInnerRet] at hri'
      · exact h
    subst haf
    have hk0 := hk2 (Or.inl (by decide))
    subst hk0
    have hdl : delivered = b.raw.pre.held ++ inp := by
      rw [← hdel]; exact List.take_of_length_le (by simp)
    subst hdl
    have hfalse : returnsInnerRet Action.finish Ret.streamEnd = false := by decide
    simp only [hri', Bool.false_eq_true, if_false, hfalse]
    refine ⟨trivial, by simp [List.append_assoc], trivial, trivial, by simp [hb.usize], ?_⟩
    refine ⟨fun h => h.elim, ?_⟩
    intro _
    refine ⟨trivial, trivial, b.emitted ++ (b.raw.l2.code C (b.raw.pre.held ++ inp) .finish).2.1, ?_⟩
    obtain ⟨d, hd, had, hdata⟩ := hb.dec ((b.raw.l2.code C (b.raw.pre.held ++ inp) .finish).2.1 ++ [])
    obtain ⟨e1, _, _, e4, _, e6⟩ := l2_code_spec hC b.raw.l2 d had (b.raw.pre.held ++ inp) .finish []
    obtain ⟨d', hd', hended, hout⟩ := e6 rfl
    refine ⟨d', by simp [hb.csize], by simp [hb.csize], by simpa [List.append_assoc] using hd.trans hd', hended, ?_⟩
    have hu := (e4 (by decide)).2
    rw [hu, List.append_nil] at e1
    rw [hout, e1, ← hdata]
    simp [List.append_assoc]

/-- a Block encoder as `block_encoder_init` of stream_encoder.c leaves it -/
theorem BlockOk.fresh {C : Codec σ} {fs : Chain} {check : Nat} {b : BlockEnc σ} {h : Nat}
    (hok : streamBlockInit C fs check = .ok (b, h)) : BlockOk C b ∧ b.emitted = [] ∧ b.data = [] ∧ b.checkId = check := by
  obtain ⟨_, hb, f, hl, hk, hv⟩ := streamBlockInit_ok hok
  subst hb
  refine ⟨⟨rfl, by simp [RawEnc.init, hl, hk], rfl, rfl, by intro _; rfl, ?_⟩, rfl, rfl, rfl⟩
  intro tail
  refine ⟨Dec.init C, by simpa using Decodes.refl _ tail, ?_, by simp [RawEnc.init, L2.init]⟩
  have : lastProps fs = f.props := by simp [lastProps, hl]
  simp only [RawEnc.init, this]
  exact Agree.init _ _ hv


/-! ### Stream encoder -/

theorem render_append (F : Fmt) (a b : List Seg) : render F (a ++ b) = render F a ++ render F b := by
  simp [render]

@[simp] theorem render_nil (F : Fmt) : render F [] = [] := rfl
@[simp] theorem render_cons (F : Fmt) (s : Seg) (rest : List Seg) : render F (s :: rest) = s.bytes F ++ render F rest := by
  simp [render]

/-- the bytes of the finished Blocks: Block Header, then everything the Block encoder wrote -/
def doneBytes (F : Fmt) (done : List DoneBlock) : Bytes := (done.map fun b => F.blockHeader b.chain none none ++ b.body).flatten
def doneData (done : List DoneBlock) : Bytes := (done.map (·.data)).flatten

theorem doneBytes_append (F : Fmt) (a b : List DoneBlock) : doneBytes F (a ++ b) = doneBytes F a ++ doneBytes F b := by
  simp [doneBytes]
theorem doneData_append (a b : List DoneBlock) : doneData (a ++ b) = doneData a ++ doneData b := by
  simp [doneData]

/-- A finished Block: non-empty; LZMA2 chunks + end marker that decode to its data, then Block Padding and Check. -/
structure BodyOk (E : Env σ) (C : Codec σ) (checkId : Nat) (b : DoneBlock) : Prop where
  nonempty : b.data ≠ []
  shape : ∃ comp d, b.body = comp ++ blockTail E checkId comp.length b.data ∧
      Decodes C (Dec.init C) comp d [] ∧ d.ended = true ∧ d.out = b.data

/-- Invariant of the single-threaded Stream encoder. `out` = all bytes written (rendered with any `Fmt`),
    `input` = all input consumed, `finished` = LZMA_FINISH has completed. -/
structure StreamPre (E : Env σ) (F : Fmt) (s : StreamEnc σ) (out input : Bytes) (finished : Bool) : Prop where
  recs : s.records.length = s.done.length
  usizes : s.records.map (·.2) = s.done.map (·.data.length)
  doneOk : ∀ i b, s.done[i]? = some b → BodyOk E (E.codec i) s.check b
  inited : s.blockInited = true → s.seq ≠ .blockEncode
      ∧ streamBlockInit (E.codec s.records.length) s.filters s.check = .ok (s.block, s.headerSize)
  seqs : finished = false → s.seq = .streamHeader ∨ s.seq = .blockInit ∨ s.seq = .blockEncode
  outEq : finished = false → out = (if s.seq = .streamHeader then [] else F.streamHeader s.check) ++ doneBytes F s.done
      ++ (if s.seq = .blockEncode then F.blockHeader s.openChain none none ++ s.block.emitted else [])
  inEq : finished = false → input = doneData s.done ++ (if s.seq = .blockEncode then s.block.data else [])
  openOk : s.seq = .blockEncode → BlockOk (E.codec s.done.length) s.block ∧ s.block.checkId = s.check
  fresh : s.seq = .streamHeader → s.done = []
  ended : finished = true → s.seq = .streamFooter
      ∧ out = F.streamHeader s.check ++ doneBytes F s.done ++ F.index s.records ++ F.streamFooter s.check s.records
      ∧ input = doneData s.done

/-- The invariant proper: additionally, an open Block has already taken input (no Block is started without input). -/
structure StreamOk (E : Env σ) (F : Fmt) (s : StreamEnc σ) (out input : Bytes) (finished : Bool) : Prop
    extends StreamPre E F s out input finished where
  openNe : s.seq = .blockEncode → s.block.data ≠ []

/-- SEQ_INDEX_ENCODE -/
theorem StreamEnc.code_index (E : Env σ) (fuel : Nat) (s : StreamEnc σ) (hs : s.seq = .indexEncode) (inp : Bytes) (a : Action) :
    StreamEnc.code E (fuel + 1) s inp a
      = ({ s with seq := .streamFooter }, [Seg.index s.records, Seg.streamFooter s.check s.records], 0, .streamEnd) := by
  unfold StreamEnc.code; simp [hs]

/-- SEQ_BLOCK_INIT without input -/
theorem StreamEnc.code_init_empty (E : Env σ) (fuel : Nat) (s : StreamEnc σ) (hs : s.seq = .blockInit) (a : Action) :
    StreamEnc.code E (fuel + 2) s [] a
      = match blockInitNoInput a with
        | some r => (s, [], 0, r)
        | none => ({ s with seq := .streamFooter }, [Seg.index s.records, Seg.streamFooter s.check s.records], 0, .streamEnd) := by
  rw [StreamEnc.code]
  simp only [hs, List.isEmpty_nil, if_true]
  cases h : blockInitNoInput a with
  | some r => rfl
  | none => simp only; rw [StreamEnc.code_index E fuel _ rfl]

/-- SEQ_BLOCK_ENCODE -/
theorem StreamEnc.code_encode (E : Env σ) (fuel : Nat) (s : StreamEnc σ) (hs : s.seq = .blockEncode) (inp : Bytes) (a : Action) :
    StreamEnc.code E (fuel + 3) s inp a =
      if returnsInnerRet a (s.block.code E (E.codec s.records.length) inp (convert a)).2.2.2 then
        ({ s with block := (s.block.code E (E.codec s.records.length) inp (convert a)).1 },
          [Seg.body (s.block.code E (E.codec s.records.length) inp (convert a)).2.1],
          (s.block.code E (E.codec s.records.length) inp (convert a)).2.2.1,
          (s.block.code E (E.codec s.records.length) inp (convert a)).2.2.2)
      else
        match blockInitNoInput a with
        | some ret =>
          ({ s with block := (s.block.code E (E.codec s.records.length) inp (convert a)).1,
                    records := s.records ++ [(s.headerSize + (s.block.code E (E.codec s.records.length) inp (convert a)).1.compressedSize + checkSize s.check,
                                              (s.block.code E (E.codec s.records.length) inp (convert a)).1.uncompressedSize)],
                    seq := .blockInit,
                    done := s.done ++ [{ chain := s.openChain, data := (s.block.code E (E.codec s.records.length) inp (convert a)).1.data,
                                         body := (s.block.code E (E.codec s.records.length) inp (convert a)).1.emitted }] },
            [Seg.body (s.block.code E (E.codec s.records.length) inp (convert a)).2.1],
            (s.block.code E (E.codec s.records.length) inp (convert a)).2.2.1, ret)
        | none =>
          ({ s with block := (s.block.code E (E.codec s.records.length) inp (convert a)).1,
                    records := s.records ++ [(s.headerSize + (s.block.code E (E.codec s.records.length) inp (convert a)).1.compressedSize + checkSize s.check,
                                              (s.block.code E (E.codec s.records.length) inp (convert a)).1.uncompressedSize)],
                    seq := .streamFooter,
                    done := s.done ++ [{ chain := s.openChain, data := (s.block.code E (E.codec s.records.length) inp (convert a)).1.data,
                                         body := (s.block.code E (E.codec s.records.length) inp (convert a)).1.emitted }] },
            [Seg.body (s.block.code E (E.codec s.records.length) inp (convert a)).2.1,
             Seg.index (s.records ++ [(s.headerSize + (s.block.code E (E.codec s.records.length) inp (convert a)).1.compressedSize + checkSize s.check,
                                              (s.block.code E (E.codec s.records.length) inp (convert a)).1.uncompressedSize)]),
             Seg.streamFooter s.check (s.records ++ [(s.headerSize + (s.block.code E (E.codec s.records.length) inp (convert a)).1.compressedSize + checkSize s.check,
                                              (s.block.code E (E.codec s.records.length) inp (convert a)).1.uncompressedSize)])],
            (s.block.code E (E.codec s.records.length) inp (convert a)).2.2.1, .streamEnd) := by
  rw [StreamEnc.code]
  simp only [hs]
  generalize s.block.code E (E.codec s.records.length) inp (convert a) = r
  obtain ⟨b1, out, used, ret⟩ := r
  simp only
  split
  · rfl
  · rw [StreamEnc.code_init_empty E fuel _ rfl]
    cases blockInitNoInput a <;> rfl

theorem returnsInnerRet_convert (a : Action) (r : Ret) : returnsInnerRet (convert a) r = returnsInnerRet a r := by
  cases a <;> cases r <;> rfl

theorem convert_cases (a : Action) : convert a = .run ∨ convert a = .syncFlush ∨ convert a = .finish := by
  cases a <;> simp [convert]

/-- What one completed operation of the Stream encoder guarantees (given that it did not fail). -/
structure StepOk (E : Env σ) (F : Fmt) (s : StreamEnc σ) (out input inp : Bytes) (a : Action)
    (r : StreamEnc σ × List Seg × Nat × Ret) : Prop where
  used : r.2.2.1 = inp.length
  ok : StreamOk E F r.1 (out ++ render F r.2.1) (input ++ inp) (a == .finish)
  ret : r.2.2.2 = if a = .run then .ok else .streamEnd
  blockEnded : a ≠ .run → a ≠ .syncFlush → r.1.seq ≠ .blockEncode
  synced : a = .syncFlush → r.1.seq = .blockEncode → r.1.block.raw.l2.unenc = [] ∧ r.1.block.raw.pre.held = []
  count : r.1.done.length = s.done.length +
      (if (a = .fullFlush ∨ a = .fullBarrier ∨ a = .finish) ∧ (s.seq = .blockEncode ∨ inp ≠ []) then 1 else 0)
  same : r.1.check = s.check ∧ r.1.filters = s.filters
  started : r.1.seq ≠ .streamHeader

theorem getElem?_append_one {α : Type} (l : List α) (x : α) (i : Nat) (y : α) (h : (l ++ [x])[i]? = some y) :
    l[i]? = some y ∨ (i = l.length ∧ y = x) := by
  by_cases hi : i < l.length
  · left; rw [List.getElem?_append_left hi] at h; exact h
  · right
    have hi' : l.length ≤ i := by omega
    rw [List.getElem?_append_right hi'] at h
    by_cases h0 : i - l.length = 0
    · rw [h0] at h; simp at h; exact ⟨by omega, h.symm⟩
    · have : i - l.length ≥ 1 := by omega
      rw [List.getElem?_eq_none (by simp; omega)] at h; cases h

theorem StreamEnc.spec_encode {E : Env σ} (hE : ∀ i, (E.codec i).Sound) (F : Fmt) {s : StreamEnc σ} {out input : Bytes}
    (h : StreamPre E F s out input false) (hs : s.seq = .blockEncode) (fuel : Nat) (inp : Bytes) (a : Action)
    (hne : s.block.data ≠ [] ∨ inp ≠ [])
    (hret : (StreamEnc.code E (fuel + 3) s inp a).2.2.2 = .ok ∨ (StreamEnc.code E (fuel + 3) s inp a).2.2.2 = .streamEnd) :
    StepOk E F s out input inp a (StreamEnc.code E (fuel + 3) s inp a) := by
  rw [StreamEnc.code_encode E fuel s hs inp a] at hret ⊢
  obtain ⟨hbok, hchk⟩ := h.openOk hs
  have hdne : ∀ x : Bytes, x = s.block.data ++ inp → x ≠ [] := by
    intro x hx hnil; subst hx
    rcases hne with h1 | h1
    · exact h1 (List.append_eq_nil_iff.mp hnil).1
    · exact h1 (List.append_eq_nil_iff.mp hnil).2
  have hrl : s.records.length = s.done.length := h.recs
  rw [hrl] at hret ⊢
  have hC := hE s.done.length
  have hni : s.blockInited = false := by
    cases hbi : s.blockInited
    · rfl
    · exact absurd hs (h.inited hbi).1
  have hout := h.outEq rfl
  have hin := h.inEq rfl
  simp only [hs, if_true] at hout hin
  have hnh : (SSeq.blockEncode = SSeq.streamHeader) = False := by simp
  simp only [hnh, if_false] at hout
  generalize hr : s.block.code E (E.codec s.done.length) inp (convert a) = r at hret ⊢
  by_cases hri : returnsInnerRet a r.2.2.2 = true
  · -- the Block goes on
    simp only [hri, if_true] at hret ⊢
    have hspec := BlockEnc.code_spec (E := E) hC hbok inp (convert a) (convert_cases a) (by rw [hr]; exact hret)
    rw [hr] at hspec
    obtain ⟨e1, e2, e3, e4, e5, e6, _⟩ := hspec
    obtain ⟨hb', hrun, hfl⟩ := e6 (by rw [returnsInnerRet_convert]; exact hri)
    have hanf : a ≠ .finish := by
      intro haf; subst haf
      have := (hfl (by simp [convert])).1
      simp [this, returnsInnerRet] at hri
    have hafl : a = .run ∨ a = .syncFlush := by
      cases a
      · left; rfl
      · right; rfl
      · have := (hfl (by simp [convert])).1; simp [this, returnsInnerRet] at hri
      · exact absurd rfl hanf
      · have := (hfl (by simp [convert])).1; simp [this, returnsInnerRet] at hri
    have hfin : (a == Action.finish) = false := by cases a <;> simp at hanf ⊢
    refine ⟨e1, ?_, ?_, ?_, ?_, ?_, ⟨rfl, rfl⟩, (by simp [hs])⟩
    · rw [hfin]
      refine ⟨⟨h.recs, h.usizes, h.doneOk, ?_, ?_, ?_, ?_, ?_, ?_, (by intro hh; cases hh)⟩, ?_⟩
      · intro hbi; simp only at hbi; rw [hni] at hbi; cases hbi
      · intro _; right; right; exact hs
      · intro _
        simp only [hs, if_true, hnh, if_false, render_cons, render_nil, Seg.bytes, List.append_nil]
        rw [hout, e2]; simp [List.append_assoc]
      · intro _
        simp only [hs, if_true]
        rw [hin, e3]; simp [List.append_assoc]
      · intro _
        exact ⟨hb', by rw [e4, hchk]⟩
      · intro hh; simp only at hh; rw [hs] at hh; cases hh
      · intro _; exact hdne _ e3
    · rcases hafl with h1 | h1
      · subst h1; simpa using hrun (by simp [convert])
      · subst h1; simpa using (hfl (by simp [convert])).1
    · intro h1 h2; rcases hafl with h3 | h3 <;> contradiction
    · intro h1 _; subst h1; exact (hfl (by simp [convert])).2
    · have : ¬ (a = .fullFlush ∨ a = .fullBarrier ∨ a = .finish) := by
        rcases hafl with h1 | h1 <;> subst h1 <;> simp
      simp [this]
  · -- the Block ends here
    have hri' : returnsInnerRet a r.2.2.2 = false := by simpa using hri
    -- the Block encoder answered LZMA_STREAM_END to LZMA_FINISH
    have hrs : r.2.2.2 = .streamEnd := by
      cases hrr : r.2.2.2 <;> simp [returnsInnerRet, hrr] at hri'
      rfl
    have hspec := BlockEnc.code_spec (E := E) hC hbok inp (convert a) (convert_cases a) (by rw [hr]; right; exact hrs)
    rw [hr] at hspec
    obtain ⟨e1, e2, e3, e4, e5, _, e7⟩ := hspec
    obtain ⟨hcf, _, comp, d, hemit, hcsz, hdec, hend, hdout⟩ := e7 (by rw [returnsInnerRet_convert]; exact hri')
    have hakind : a = .fullFlush ∨ a = .fullBarrier ∨ a = .finish := by
      cases a <;> simp [convert] at hcf ⊢
    have hnewOk : BodyOk E (E.codec s.done.length) s.check { chain := s.openChain, data := r.1.data, body := r.1.emitted } := by
      refine ⟨hdne _ e3, comp, d, ?_, hdec, hend, ?_⟩
      · simp only; rw [hemit, e3, hchk]
      · simp only; rw [hdout, e3]
    have hdoneOk : ∀ i b, (s.done ++ [({ chain := s.openChain, data := r.1.data, body := r.1.emitted } : DoneBlock)])[i]? = some b
        → BodyOk E (E.codec i) s.check b := by
      intro i b hib
      rcases getElem?_append_one _ _ _ _ hib with h1 | ⟨h1, h2⟩
      · exact h.doneOk i b h1
      · subst h1; subst h2; exact hnewOk
    have hus : (s.records ++ [(s.headerSize + r.1.compressedSize + checkSize s.check, r.1.uncompressedSize)]).map (·.2)
        = (s.done ++ [({ chain := s.openChain, data := r.1.data, body := r.1.emitted } : DoneBlock)]).map (·.data.length) := by
      simp [h.usizes, e5, e3]
    simp only [hri', Bool.false_eq_true, if_false] at hret ⊢
    have hcount : s.done.length + 1 = s.done.length +
        (if (a = .fullFlush ∨ a = .fullBarrier ∨ a = .finish) ∧ (s.seq = .blockEncode ∨ inp ≠ []) then 1 else 0) := by
      simp [hakind, hs]
    have hrender : out ++ (r.2.1 ++ []) = F.streamHeader s.check
        ++ doneBytes F (s.done ++ [({ chain := s.openChain, data := r.1.data, body := r.1.emitted } : DoneBlock)]) := by
      rw [doneBytes_append, hout, e2]; simp [doneBytes, List.append_assoc]
    have hinput : input ++ inp
        = doneData (s.done ++ [({ chain := s.openChain, data := r.1.data, body := r.1.emitted } : DoneBlock)]) := by
      rw [doneData_append, hin, e3]; simp [doneData, List.append_assoc]
    by_cases haf : a = .finish
    · subst haf
      have hbn : blockInitNoInput Action.finish = none := rfl
      simp only [hbn] at hret ⊢
      refine ⟨e1, ?_, (by simp), (by intro _ _ hh; simp at hh), (by intro hh; cases hh), (by simpa using hcount), ⟨rfl, rfl⟩, (by simp)⟩
      refine ⟨⟨(by simp [h.recs]), hus, hdoneOk, ?_, (by intro hh; cases hh), (by intro hh; cases hh), (by intro hh; cases hh),
        (by intro hh; cases hh), (by intro hh; cases hh), ?_⟩, (by intro hh; cases hh)⟩
      · intro hbi; rw [hni] at hbi; cases hbi
      · intro _
        refine ⟨rfl, ?_, hinput⟩
        simp only [render_cons, render_nil, Seg.bytes, List.append_nil]
        rw [← List.append_assoc, ← List.append_assoc]
        have := hrender; simp only [List.append_nil] at this
        rw [this]
    · have hbi : blockInitNoInput a = some .streamEnd := by
        rcases hakind with h1 | h1 | h1 <;> subst h1 <;> simp [blockInitNoInput] at haf ⊢
      have hfin : (a == Action.finish) = false := by cases a <;> simp at haf ⊢
      have hnr : a ≠ .run := by rcases hakind with h1 | h1 | h1 <;> subst h1 <;> simp
      simp only [hbi] at hret ⊢
      refine ⟨e1, ?_, (by simp [hnr]), (by intro _ _ hh; simp at hh), (by intro h1 hh; cases hh), (by simpa using hcount), ⟨rfl, rfl⟩, (by simp)⟩
      rw [hfin]
      refine ⟨⟨(by simp [h.recs]), hus, hdoneOk, ?_, (by intro _; right; left; rfl), ?_, ?_, (by intro hh; cases hh),
        (by intro hh; cases hh), (by intro hh; cases hh)⟩, (by intro hh; cases hh)⟩
      · intro hbi'; simp only at hbi'; rw [hni] at hbi'; cases hbi'
      · intro _
        simp only [render_cons, render_nil, Seg.bytes]
        rw [hrender]; simp
      · intro _
        rw [hinput]; simp


end XzVerif.Flush
