/-
  The LZMA1 instance of the LZ-layer interface: `CodeAbsorb P1 lzmaCallR` from the call-level results `L1Absorb`, `L1Spec`.
-/
import XzVerif.Lemmas.LzmaResumeDefs

namespace XzVerif.LzmaR
open XzVerif.RangeDec XzVerif.LzDict XzVerif.Lzma XzVerif.Lzma2

theorem agree_trans' {n : Nat} {a b c : ByteArray} (h1 : Agree n a b) (h2 : Agree n b c) : Agree n a c :=
  ⟨h1.le, h2.le', fun i ha hc hi => by
    have hb : i < b.size := Nat.lt_of_lt_of_le hi h1.le'
    exact (h1.eq i ha hb hi).trans (h2.eq i hb hc hi)⟩

/-- the replay invariant survives a new input that continues the consumed bytes, and any `dict.limit` -/
theorem SymPre.view {r : RSt} (h : SymPre r) (b : ByteArray) (L : Nat) (hag : Agree r.s.inPos r.s.inp b) : SymPre (r.view b L) := by
  intro k hk
  obtain ⟨h1, h2, h3⟩ := h k hk
  refine ⟨h1, h2, fun L' b' hb' => ?_⟩
  exact h3 L' b' (agree_trans' hag hb')

/-- invariant of the LZMA1 coder between `lzma_decode` calls -/
def P1 (r : RSt) : Prop :=
  SymPre r ∧ (r.s.allowEopm = false ∨ r.s.uncomp = none) ∧ r.s.dp.needReset = false

theorem codeAbsorb_lzma1 (h1 : L1Absorb) (s1 : L1Spec) : CodeAbsorb P1 lzmaCallR where
  spec := by
    intro r hp _ hin hlim
    obtain ⟨hs, he, hn⟩ := hp
    obtain ⟨a1, a2, a3, _, a5, a6, a7, a8⟩ := s1 r hs hin hlim
    refine ⟨a2.toCr, a3, ⟨a1, ?_, ?_⟩, ?_, a7, a8⟩
    · rcases he with he | he
      · exact Or.inl (a5.trans he)
      · exact Or.inr (a6.mpr he)
    · rw [a2.needReset]; exact hn
    · intro hr; left; rw [← a2.needReset]; exact hr
  frame_view := by
    intro r b L hp hag
    exact ⟨hp.1.view b L hag, hp.2.1, hp.2.2⟩
  frame_reset := by
    intro r hp hr
    rw [hp.2.2] at hr; cases hr
  stop := by
    intro r b b' L L' hp hag hin hpos hbb hL _ hne
    have := h1 r b b' L L' ⟨hin, hpos, hag, hp.1, hp.2.1⟩ hbb hL
    rw [if_neg hne] at this
    exact Or.inl this
  yield := by
    intro r b b' L L' hp hag hin hpos hbb hL hnr _ hy
    exfalso
    have hv : SymPre (r.view b L) := hp.1.view b L hag
    have hsp := s1 (r.view b L) hv (by show r.s.inPos ≤ b.size; exact hin) (by show r.s.dp.pos ≤ L; exact hpos)
    have := hsp.2.1.needReset
    rw [hy] at this
    have h2 : (r.view b L).s.dp.needReset = r.s.dp.needReset := rfl
    rw [h2, hnr] at this
    cases this
  resume := by
    intro r b b' L L' hp hag hin hpos hbb hL _ hok _
    have := h1 r b b' L L' ⟨hin, hpos, hag, hp.1, hp.2.1⟩ hbb hL
    rw [if_pos hok] at this
    exact Or.inl this

/-- the initial state: LZMA1 with unknown size (end marker required), or with known size and no end marker allowed -/
theorem p1_init (props : Props) (dictSize : Nat) (uncomp : Option Nat) (allowEopm : Bool) (preset : List UInt8)
    (h : uncomp = none ∨ allowEopm = false) : P1 (initLzma1R props dictSize uncomp allowEopm preset) := by
  have hs : SymPre (initLzma1R props dictSize uncomp allowEopm preset) := by
    intro k hk; cases hk
  refine ⟨hs, ?_, rfl⟩
  cases uncomp with
  | none => exact Or.inr rfl
  | some u =>
    rcases h with h | h
    · cases h
    · left
      show (allowEopm || (some u).isNone) = false
      rw [h]; rfl

end XzVerif.LzmaR
