/-
  Helper lemmas for C04 `in_required_20`: how fast `range` can shrink, hence how many normalisation bytes one LZMA
  symbol can read.

  Potential argument. Write C = 2^24 - 1, E = 2^25. From a range `r` with `65536 ≤ r < 2^32`:
    * `rc_normalize` multiplies the range by 256 per byte read (no wrap, because it fires only below 2^24);
    * a probability bit (31 ≤ prob ≤ 2017) from a normalised range `t` leaves `r2` with `t ≤ 67 * r2`
      (both branches keep at least `(t >> 11) * 31`, and `(t >> 11) * 31 * 67 ≥ t` for `t ≥ 2^24`);
    * a direct bit leaves `r2 = t / 2` with `t * C ≤ r2 * E`.
  Hence after the bits `ops` (a probability bits, b direct bits, k bytes read)
        r * 256^k * C^b  ≤  r_final * 67^a * E^b                                  (`runR_inv`)
  and `r_final < 2^32` bounds k.
-/
import XzVerif.Model.C04Sym
import Mathlib.Tactic.Ring
import Mathlib.Tactic.Linarith

namespace XzVerif.C04Sym
open XzVerif.RangeDec

def cntP : List Op → Nat
  | [] => 0
  | op :: t => (if op.kind = .prob then 1 else 0) + cntP t

def cntD : List Op → Nat
  | [] => 0
  | op :: t => (if op.kind = .direct then 1 else 0) + cntD t

/-- every probability bit uses a probability in the invariant range [31, 2017] -/
def OpsOk (ops : List Op) : Prop := ∀ op ∈ ops, op.kind = .prob → ProbInv op.p

/-- The same, also allowing the one degenerate case the executable model (Model/Lzma.lean) has: an index outside the
    probability array reads as probability 0, for which `rc_bit` always decodes 1 and leaves the range unchanged.
    (With valid lc/lp/pb no index is outside — Props/C03 `prob_indices_in_bounds` — but the byte bound does not need that.) -/
def OpOk0 (op : Op) : Prop := op.kind = .prob → ProbInv op.p ∨ (op.p = 0 ∧ op.bit = true)

def OpsOk0 (ops : List Op) : Prop := ∀ op ∈ ops, OpOk0 op

theorem OpsOk.to0 {ops : List Op} (h : OpsOk ops) : OpsOk0 ops := fun op ho hk => Or.inl (h op ho hk)

theorem cntP_eq (ops : List Op) : cntP ops = countKind P (shapeOf ops) := by
  induction ops with
  | nil => rfl
  | cons op t ih =>
    unfold cntP
    cases hk : op.kind <;> simp [countKind, shapeOf, hk] at * <;> omega

theorem cntD_eq (ops : List Op) : cntD ops = countKind D (shapeOf ops) := by
  induction ops with
  | nil => rfl
  | cons op t ih =>
    unfold cntD
    cases hk : op.kind <;> simp [countKind, shapeOf, hk] at * <;> omega

/-- `rc_normalize`: from `65536 ≤ r < 2^32` the result is normalised and equals `r * 256^(bytes read)`. -/
theorem normR_spec (r : Nat) (hlo : 65536 ≤ r) (hhi : r < U32) :
    RC_TOP_VALUE ≤ (normR r).1 ∧ (normR r).1 < U32 ∧ (normR r).1 = r * 256 ^ (normR r).2 ∧ (normR r).2 ≤ 1
    ∧ ((normR r).2 = 1 ↔ r < RC_TOP_VALUE) := by
  unfold normR
  simp only [RC_TOP_VALUE, U32] at *
  by_cases h : r < 16777216
  · simp only [h, if_true]
    refine ⟨by omega, by omega, by omega, by omega, by simp⟩
  · simp only [h, if_false]
    refine ⟨by omega, by omega, by omega, by omega, by simp⟩

/-- a probability bit from a normalised range: shrinks by less than a factor 67, stays ≥ 8192·31, strictly shrinks -/
theorem opR_prob0 (t p : Nat) (bit : Bool) (hlo : RC_TOP_VALUE ≤ t) (hhi : t < U32) (hp : ProbInv p ∨ (p = 0 ∧ bit = true)) :
    t ≤ 67 * opR t { kind := .prob, p := p, bit := bit } ∧ 253952 ≤ opR t { kind := .prob, p := p, bit := bit }
    ∧ opR t { kind := .prob, p := p, bit := bit } ≤ t := by
  rcases hp with hp | ⟨hp, hb⟩
  · unfold ProbInv at hp
    simp only [RC_TOP_VALUE, U32] at hlo hhi
    have hq1 : 31 * (t / 2048) ≤ (t / 2048) * p := by
      rw [Nat.mul_comm]; exact Nat.mul_le_mul_left _ hp.1
    have hq2 : (t / 2048) * p ≤ (t / 2048) * 2017 := Nat.mul_le_mul_left _ hp.2
    unfold opR rcBound
    simp only [RC_BIT_MODEL_TOTAL]
    generalize (t / 2048) * p = bound at *
    cases bit <;> simp <;> omega
  · subst hp; subst hb
    simp only [RC_TOP_VALUE, U32] at hlo hhi
    unfold opR rcBound
    simp
    omega

theorem opR_prob (t p : Nat) (bit : Bool) (hlo : RC_TOP_VALUE ≤ t) (hhi : t < U32) (hp : ProbInv p) :
    t ≤ 67 * opR t { kind := .prob, p := p, bit := bit } ∧ 253952 ≤ opR t { kind := .prob, p := p, bit := bit }
    ∧ opR t { kind := .prob, p := p, bit := bit } < t := by
  unfold ProbInv at hp
  simp only [RC_TOP_VALUE, U32] at hlo hhi
  have hq1 : 31 * (t / 2048) ≤ (t / 2048) * p := by
    rw [Nat.mul_comm]; exact Nat.mul_le_mul_left _ hp.1
  have hq2 : (t / 2048) * p ≤ (t / 2048) * 2017 := Nat.mul_le_mul_left _ hp.2
  unfold opR rcBound
  simp only [RC_BIT_MODEL_TOTAL]
  generalize (t / 2048) * p = bound at *
  cases bit <;> simp <;> omega

/-- a direct bit from a normalised range -/
theorem opR_direct (t : Nat) (op : Op) (hk : op.kind = .direct) (hlo : RC_TOP_VALUE ≤ t) (hhi : t < U32) :
    t * 16777215 ≤ opR t op * 33554432 ∧ 8388608 ≤ opR t op ∧ opR t op < t := by
  simp only [RC_TOP_VALUE, U32] at hlo hhi
  unfold opR
  simp only [hk]
  omega

/-- The potential inequality, and the range stays in `[65536, 2^32)`. -/
theorem runR_inv : ∀ (ops : List Op) (r : Nat), 65536 ≤ r → r < U32 → OpsOk0 ops →
    65536 ≤ (runR r ops).1 ∧ (runR r ops).1 < U32
    ∧ r * 256 ^ (runR r ops).2 * 16777215 ^ cntD ops ≤ (runR r ops).1 * 67 ^ cntP ops * 33554432 ^ cntD ops := by
  intro ops
  induction ops with
  | nil =>
    intro r hlo hhi _
    simp [runR, cntP, cntD, hlo, hhi]
  | cons op ops ih =>
    intro r hlo hhi hok
    obtain ⟨n1, n2, n3, _, _⟩ := normR_spec r hlo hhi
    have hok' : OpsOk0 ops := fun o ho hk => hok o (List.mem_cons_of_mem _ ho) hk
    cases hk : op.kind with
    | prob =>
      have hp : ProbInv op.p ∨ (op.p = 0 ∧ op.bit = true) := hok op List.mem_cons_self hk
      have hop : opR (normR r).1 op = opR (normR r).1 { kind := .prob, p := op.p, bit := op.bit } := by
        unfold opR; simp [hk]
      obtain ⟨s1, s2, s3⟩ := opR_prob0 (normR r).1 op.p op.bit n1 n2 hp
      rw [← hop] at s1 s2 s3
      obtain ⟨i1, i2, i3⟩ := ih (opR (normR r).1 op) (by omega) (by omega) hok'
      refine ⟨by simpa [runR] using i1, by simpa [runR] using i2, ?_⟩
      simp only [runR, cntP, cntD, hk, if_true, reduceCtorEq, if_false, Nat.zero_add]
      generalize (runR (opR (normR r).1 op) ops).1 = R at *
      generalize (runR (opR (normR r).1 op) ops).2 = k' at *
      generalize cntP ops = a at *
      generalize cntD ops = b at *
      generalize opR (normR r).1 op = r2 at *
      generalize (normR r).2 = k0 at *
      generalize (normR r).1 = t at *
      subst n3
      calc r * 256 ^ (k0 + k') * 16777215 ^ b
          = (r * 256 ^ k0) * (256 ^ k' * 16777215 ^ b) := by ring
        _ ≤ (67 * r2) * (256 ^ k' * 16777215 ^ b) := Nat.mul_le_mul_right _ s1
        _ = 67 * (r2 * 256 ^ k' * 16777215 ^ b) := by ring
        _ ≤ 67 * (R * 67 ^ a * 33554432 ^ b) := Nat.mul_le_mul_left _ i3
        _ = R * 67 ^ (1 + a) * 33554432 ^ b := by ring
    | direct =>
      obtain ⟨s1, s2, s3⟩ := opR_direct (normR r).1 op hk n1 n2
      obtain ⟨i1, i2, i3⟩ := ih (opR (normR r).1 op) (by omega) (by omega) hok'
      refine ⟨by simpa [runR] using i1, by simpa [runR] using i2, ?_⟩
      simp only [runR, cntP, cntD, hk, if_true, reduceCtorEq, if_false, Nat.zero_add]
      generalize (runR (opR (normR r).1 op) ops).1 = R at *
      generalize (runR (opR (normR r).1 op) ops).2 = k' at *
      generalize cntP ops = a at *
      generalize cntD ops = b at *
      generalize opR (normR r).1 op = r2 at *
      generalize (normR r).2 = k0 at *
      generalize (normR r).1 = t at *
      subst n3
      calc r * 256 ^ (k0 + k') * 16777215 ^ (1 + b)
          = (r * 256 ^ k0 * 16777215) * (256 ^ k' * 16777215 ^ b) := by ring
        _ ≤ (r2 * 33554432) * (256 ^ k' * 16777215 ^ b) := Nat.mul_le_mul_right _ s1
        _ = 33554432 * (r2 * 256 ^ k' * 16777215 ^ b) := by ring
        _ ≤ 33554432 * (R * 67 ^ a * 33554432 ^ b) := Nat.mul_le_mul_left _ i3
        _ = R * 67 ^ a * 33554432 ^ (1 + b) := by ring

/-- Bits within the budget (`budgetOk`), started from any range a finished symbol can leave (≥ 8192·31): at most 20
    bytes are read, and if 20 were read the range is normalised afterwards (so the normalisation before one more bit
    reads nothing). -/
theorem runR_bound (ops : List Op) (r : Nat) (hlo : 253952 ≤ r) (hhi : r < U32) (hok : OpsOk0 ops)
    (hbud : budgetOk (cntP ops) (cntD ops) = true) :
    (runR r ops).2 ≤ 20 ∧ ((runR r ops).2 = 20 → RC_TOP_VALUE ≤ (runR r ops).1) := by
  obtain ⟨_, i2, i3⟩ := runR_inv ops r (by omega) hhi hok
  unfold budgetOk at hbud
  simp only [Bool.and_eq_true, decide_eq_true_eq] at hbud
  obtain ⟨hb21, hb20⟩ := hbud
  generalize (runR r ops).1 = R at *
  generalize (runR r ops).2 = k at *
  simp only [U32, RC_TOP_VALUE] at *
  have i3' : r * 256 ^ k * 16777215 ^ cntD ops ≤ R * (67 ^ cntP ops * 33554432 ^ cntD ops) := by
    rw [← Nat.mul_assoc]; exact i3
  generalize 67 ^ cntP ops * 33554432 ^ cntD ops = X at *
  generalize 16777215 ^ cntD ops = Cb at *
  have key : 253952 * 256 ^ k * Cb ≤ R * X :=
    Nat.le_trans (Nat.mul_le_mul_right _ (Nat.mul_le_mul_right _ hlo)) i3'
  constructor
  · -- k ≥ 21 contradicts R < 2^32
    by_contra hk
    have hk21 : 21 ≤ k := by omega
    have hp : (256 : Nat) ^ 21 ≤ 256 ^ k := Nat.pow_le_pow_right (by norm_num) hk21
    have h1 : 253952 * 256 ^ 21 * Cb ≤ 253952 * 256 ^ k * Cb :=
      Nat.mul_le_mul_right _ (Nat.mul_le_mul_left _ hp)
    have h2 : R * X ≤ 4294967296 * X := Nat.mul_le_mul_right _ (by omega)
    omega
  · intro hk20
    subst hk20
    by_contra hR
    have h2 : R * X ≤ 16777216 * X := Nat.mul_le_mul_right _ (by omega)
    omega

theorem runR_append (r : Nat) (ops1 ops2 : List Op) :
    runR r (ops1 ++ ops2) = ((runR (runR r ops1).1 ops2).1, (runR r ops1).2 + (runR (runR r ops1).1 ops2).2) := by
  induction ops1 generalizing r with
  | nil => simp [runR]
  | cons op t ih => simp only [List.cons_append, runR, ih]; ext <;> simp [Nat.add_assoc]

theorem cntP_append (a b : List Op) : cntP (a ++ b) = cntP a + cntP b := by
  induction a with
  | nil => simp [cntP]
  | cons op t ih => simp only [List.cons_append, cntP, ih]; omega

theorem cntD_append (a b : List Op) : cntD (a ++ b) = cntD a + cntD b := by
  induction a with
  | nil => simp [cntD]
  | cons op t ih => simp only [List.cons_append, cntD, ih]; omega

/-- One whole symbol: the bits before the last are within the budget and the last bit is a probability bit.
    At most 20 bytes are read, and the range left behind is again ≥ 8192·31 (so the bound chains over symbols). -/
theorem symbol_bound (ops : List Op) (last : Op) (r : Nat) (hlo : 253952 ≤ r) (hhi : r < U32)
    (hok : OpsOk0 (ops ++ [last])) (hl : last.kind = .prob) (hbud : budgetOk (cntP ops) (cntD ops) = true) :
    (runR r (ops ++ [last])).2 ≤ 20 ∧ 253952 ≤ (runR r (ops ++ [last])).1 ∧ (runR r (ops ++ [last])).1 < U32 := by
  have hok1 : OpsOk0 ops := fun o ho hk => hok o (List.mem_append_left _ ho) hk
  have hpl : ProbInv last.p ∨ (last.p = 0 ∧ last.bit = true) := hok last (List.mem_append_right _ List.mem_cons_self) hl
  obtain ⟨b1, b2⟩ := runR_bound ops r hlo hhi hok1 hbud
  obtain ⟨i1, i2, _⟩ := runR_inv ops r (by omega) hhi hok1
  rw [runR_append]
  simp only [runR, Nat.add_zero]
  obtain ⟨n1, n2, _, n4, n5⟩ := normR_spec (runR r ops).1 i1 i2
  have hop : opR (normR (runR r ops).1).1 last = opR (normR (runR r ops).1).1 { kind := .prob, p := last.p, bit := last.bit } := by
    unfold opR; simp [hl]
  obtain ⟨_, s2, s3⟩ := opR_prob0 (normR (runR r ops).1).1 last.p last.bit n1 n2 hpl
  rw [← hop] at s2 s3
  refine ⟨?_, s2, by omega⟩
  by_cases h20 : (runR r ops).2 = 20
  · have hn := b2 h20
    have : (normR (runR r ops).1).2 = 0 := by
      have : ¬ (normR (runR r ops).1).2 = 1 := fun h => by have := n5.mp h; omega
      omega
    omega
  · omega

/-- The same from the shape predicate of Model/C04Sym.lean (`shapeOk`: the last bit is a probability bit and the bits
    before it are within the budget). -/
theorem symbol_bound_of_shape (ops : List Op) (r : Nat) (hs : shapeOk (shapeOf ops) = true) (hok : OpsOk0 ops)
    (hlo : 253952 ≤ r) (hhi : r < U32) :
    (runR r ops).2 ≤ 20 ∧ 253952 ≤ (runR r ops).1 ∧ (runR r ops).1 < U32 := by
  unfold shapeOk at hs
  simp only [Bool.and_eq_true, beq_iff_eq] at hs
  obtain ⟨hl, hbud⟩ := hs
  rcases List.eq_nil_or_concat ops with h | ⟨init, last, h⟩
  · subst h; simp [shapeOf] at hl
  · rw [List.concat_eq_append] at h
    subst h
    have hk : last.kind = .prob := by
      simp [shapeOf] at hl
      exact hl
    rw [← cntP_eq, ← cntD_eq, cntP_append, cntD_append] at hbud
    simp only [cntP, cntD, hk, if_true, reduceCtorEq, if_false, Nat.add_zero] at hbud
    exact symbol_bound init last r hlo hhi hok hk (by simpa using hbud)

end XzVerif.C04Sym
