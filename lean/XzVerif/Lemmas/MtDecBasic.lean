/-
  Basic facts about Model/MtDec.lean used by the invariant proofs: worker-array access, the output bookkeeping
  (`outOf`, `stRun`), and the "consecutive Block numbers" predicate of the output queue.
-/
import XzVerif.Model.MtDec

namespace XzVerif.MtDec

-- ---------------------------------------------------------------------------------------------
-- workers
-- ---------------------------------------------------------------------------------------------

@[simp] theorem getW_setW_same (s : State) (i : Nat) (w : Worker) (h : i < s.workers.length) :
    getW (setW s i w) i = w := by
  simp [getW, setW, h]

@[simp] theorem getW_setW_ne (s : State) (i j : Nat) (w : Worker) (h : i ≠ j) :
    getW (setW s i w) j = getW s j := by
  simp [getW, setW, List.getD, List.getElem?_set_ne h]

theorem getW_setW (s : State) (i j : Nat) (w : Worker) (h : i < s.workers.length) :
    getW (setW s i w) j = if i = j then w else getW s j := by
  by_cases e : i = j
  · subst e; simp [h]
  · simp [e]

@[simp] theorem setW_workers_length (s : State) (i : Nat) (w : Worker) :
    (setW s i w).workers.length = s.workers.length := by simp [setW]

@[simp] theorem setW_cfg (s : State) (i : Nat) (w : Worker) : (setW s i w).cfg = s.cfg := rfl
@[simp] theorem setW_blocks (s : State) (i : Nat) (w : Worker) : (setW s i w).blocks = s.blocks := rfl
@[simp] theorem setW_pc (s : State) (i : Nat) (w : Worker) : (setW s i w).pc = s.pc := rfl
@[simp] theorem setW_seq (s : State) (i : Nat) (w : Worker) : (setW s i w).seq = s.seq := rfl
@[simp] theorem setW_cur (s : State) (i : Nat) (w : Worker) : (setW s i w).cur = s.cur := rfl
@[simp] theorem setW_pend (s : State) (i : Nat) (w : Worker) : (setW s i w).pend = s.pend := rfl
@[simp] theorem setW_threadError (s : State) (i : Nat) (w : Worker) : (setW s i w).threadError = s.threadError := rfl
@[simp] theorem setW_outCap (s : State) (i : Nat) (w : Worker) : (setW s i w).outCap = s.outCap := rfl
@[simp] theorem setW_outRev (s : State) (i : Nat) (w : Worker) : (setW s i w).outRev = s.outRev := rfl
@[simp] theorem setW_readPos (s : State) (i : Nat) (w : Worker) : (setW s i w).readPos = s.readPos := rfl
@[simp] theorem setW_queue (s : State) (i : Nat) (w : Worker) : (setW s i w).queue = s.queue := rfl
@[simp] theorem setW_threadsFree (s : State) (i : Nat) (w : Worker) : (setW s i w).threadsFree = s.threadsFree := rfl
@[simp] theorem setW_thr (s : State) (i : Nat) (w : Worker) : (setW s i w).thr = s.thr := rfl
@[simp] theorem setW_mwoken (s : State) (i : Nat) (w : Worker) : (setW s i w).mwoken = s.mwoken := rfl
@[simp] theorem setW_memInUse (s : State) (i : Nat) (w : Worker) : (setW s i w).memInUse = s.memInUse := rfl
@[simp] theorem setW_directPos (s : State) (i : Nat) (w : Worker) : (setW s i w).directPos = s.directPos := rfl
@[simp] theorem setW_returned (s : State) (i : Nat) (w : Worker) : (setW s i w).returned = s.returned := rfl
@[simp] theorem setW_fin (s : State) (i : Nat) (w : Worker) : (setW s i w).fin = s.fin := rfl
@[simp] theorem setW_waitingAllowed (s : State) (i : Nat) (w : Worker) : (setW s i w).waitingAllowed = s.waitingAllowed := rfl
@[simp] theorem setW_outWasFilled (s : State) (i : Nat) (w : Worker) : (setW s i w).outWasFilled = s.outWasFilled := rfl

@[simp] theorem blk_setW (s : State) (i : Nat) (w : Worker) (j : Nat) : blk (setW s i w) j = blk s j := rfl
@[simp] theorem dataLen_setW (s : State) (i : Nat) (w : Worker) (j : Nat) : dataLen (setW s i w) j = dataLen s j := rfl
@[simp] theorem delivered_setW (s : State) (i : Nat) (w : Worker) : (setW s i w).delivered = s.delivered := rfl

@[simp] theorem signalMain_workers (s : State) : (signalMain s).workers = s.workers := rfl
@[simp] theorem getW_signalMain (s : State) (i : Nat) : getW (signalMain s) i = getW s i := rfl

-- ---------------------------------------------------------------------------------------------
-- output bookkeeping
-- ---------------------------------------------------------------------------------------------

/-- Concatenated output of the first `k` items. -/
def outOf (bs : List Block) (k : Nat) : List UInt8 := ((bs.take k).map Block.data).flatten

@[simp] theorem outOf_zero (bs : List Block) : outOf bs 0 = [] := by simp [outOf]

theorem outOf_succ (bs : List Block) (k : Nat) (h : k < bs.length) :
    outOf bs (k + 1) = outOf bs k ++ (bs.getD k default).data := by
  have : bs.getD k default = bs[k] := by simp [List.getD, List.getElem?_eq_getElem h]
  rw [this]
  unfold outOf
  rw [List.take_succ_eq_append_getElem h, List.map_append, List.flatten_append]
  simp

theorem stRun_split (bs : List Block) (k : Nat) (hk : k ≤ bs.length)
    (good : ∀ j, j < k → (bs.getD j default).ret = END) :
    stRun bs = (outOf bs k ++ (stRun (bs.drop k)).1, (stRun (bs.drop k)).2) := by
  induction k generalizing bs with
  | zero => simp
  | succ k ih =>
    match bs, hk with
    | b :: bs, hk =>
      have hb : b.ret = END := by simpa using good 0 (by omega)
      have ih' := ih bs (by simpa using hk) (fun j hj => by simpa using good (j + 1) (by omega))
      simp only [stRun, hb, if_true, List.drop_succ_cons]
      rw [ih']
      simp [outOf, List.take_succ_cons]

/-- Whatever has been delivered so far is a prefix of the single-threaded output, provided the first `k` items are good
    and the delivered bytes are those items' output plus a prefix of item `k`'s output. -/
theorem prefix_of_good (bs : List Block) (k n : Nat) (hk : k ≤ bs.length)
    (good : ∀ j, j < k → (bs.getD j default).ret = END) :
    (outOf bs k ++ ((bs.getD k default).data.take n)) <+: stOutput bs := by
  unfold stOutput
  rw [stRun_split bs k hk good]
  simp only
  apply List.prefix_append_right_inj _ |>.mpr
  by_cases hlt : k < bs.length
  · have hd : bs.drop k = bs[k] :: bs.drop (k + 1) := by simp
    have hg : bs.getD k default = bs[k] := by simp [List.getD, List.getElem?_eq_getElem hlt]
    rw [hd, hg]
    simp only [stRun]
    split
    · exact (List.take_prefix _ _).trans (List.prefix_append _ _)
    · exact List.take_prefix _ _
  · have : bs.getD k default = default := by simp [List.getD, List.getElem?_eq_none (by omega : bs.length ≤ k)]
    rw [this]
    simp [show (default : Block).data = [] from rfl]

/-- Final states: the first `k` items are good and item `k` ends the run with `r` after all of its output. -/
theorem stRun_bad (bs : List Block) (k : Nat) (hk : k < bs.length)
    (good : ∀ j, j < k → (bs.getD j default).ret = END) (bad : (bs.getD k default).ret ≠ END) :
    stRun bs = (outOf bs k ++ (bs.getD k default).data, (bs.getD k default).ret) := by
  rw [stRun_split bs k (by omega) good]
  have hd : bs.drop k = bs[k] :: bs.drop (k + 1) := by simp
  have hg : bs.getD k default = bs[k] := by simp [List.getD, List.getElem?_eq_getElem hk]
  rw [hg] at bad ⊢
  rw [hd]
  simp [stRun, bad]

theorem stRun_all_good (bs : List Block) (good : ∀ j, j < bs.length → (bs.getD j default).ret = END) :
    stRun bs = (outOf bs bs.length, END) := by
  rw [stRun_split bs bs.length (Nat.le_refl _) good]
  simp [stRun]

-- ---------------------------------------------------------------------------------------------
-- queue numbering
-- ---------------------------------------------------------------------------------------------

/-- The outbufs carry consecutive item numbers starting at `n`. -/
def Consec : Nat → List Outbuf → Prop
  | _, [] => True
  | n, o :: t => o.blk = n ∧ Consec (n + 1) t

theorem Consec.append {n : Nat} {q : List Outbuf} (h : Consec n q) (o : Outbuf) (ho : o.blk = n + q.length) :
    Consec n (q ++ [o]) := by
  induction q generalizing n with
  | nil => simpa [Consec] using ho
  | cons a t ih =>
    simp only [Consec, List.cons_append] at h ⊢
    exact ⟨h.1, ih h.2 (by simp at ho; omega)⟩

theorem Consec.mem {n : Nat} {q : List Outbuf} (h : Consec n q) {o : Outbuf} (ho : o ∈ q) :
    n ≤ o.blk ∧ o.blk < n + q.length := by
  induction q generalizing n with
  | nil => simp at ho
  | cons a t ih =>
    simp only [Consec] at h
    rcases List.mem_cons.mp ho with rfl | ht
    · simp [h.1]
    · have := ih h.2 ht
      simp; omega

theorem Consec.map {n : Nat} {q : List Outbuf} (h : Consec n q) (f : Outbuf → Outbuf) (hf : ∀ o, (f o).blk = o.blk) :
    Consec n (q.map f) := by
  induction q generalizing n with
  | nil => simp [Consec]
  | cons a t ih =>
    simp only [Consec, List.map_cons] at h ⊢
    exact ⟨by rw [hf]; exact h.1, ih h.2⟩

theorem Consec.unique {n : Nat} {q : List Outbuf} (h : Consec n q) {a b : Outbuf} (ha : a ∈ q) (hb : b ∈ q)
    (e : a.blk = b.blk) : a = b := by
  induction q generalizing n with
  | nil => simp at ha
  | cons x t ih =>
    simp only [Consec] at h
    rcases List.mem_cons.mp ha with rfl | hat <;> rcases List.mem_cons.mp hb with rfl | hbt
    · rfl
    · have := (h.2.mem hbt).1; omega
    · have := (h.2.mem hat).1; omega
    · exact ih h.2 hat hbt

@[simp] theorem updOut_length (q : List Outbuf) (b : Nat) (f : Outbuf → Outbuf) : (updOut q b f).length = q.length := by
  simp [updOut]

theorem Consec.updOut {n : Nat} {q : List Outbuf} (h : Consec n q) (b : Nat) (f : Outbuf → Outbuf)
    (hf : ∀ o, (f o).blk = o.blk) : Consec n (updOut q b f) := by
  unfold MtDec.updOut
  apply h.map
  intro o
  split <;> simp [hf]

end XzVerif.MtDec
