/-
  C01 end-to-end, acceptance of concrete parsers, part 1: tools.
  * a total-correctness rule for `while` loops in `Except` (`loop_except_total`);
  * how much a list of range-coder operations can add to `rc->out_total + rc_pending` (one byte per operation), and what
    `rc_flush` adds (at most five);
  * an upper bound on the number of operations `encode_symbol` queues for a literal or a normal match (≤ 60, far below
    LOOP_INPUT_MAX = 4097: the chunk-size rule of `lzma_lzma_encode` therefore keeps every LZMA2 chunk ≤ 64 KiB);
  * `nextMarker` on a trace without flush markers.
-/
import XzVerif.Lemmas.E2EKernel

namespace XzVerif.LzmaExec
open XzVerif.RangeDec XzVerif.RangeEnc XzVerif.RangeCoder XzVerif.Lzma XzVerif.LzmaEnc XzVerif.Lzma2Enc

/-! ## loops that cannot fail -/

/-- Total correctness of a `while` loop in `Except`: from an invariant `P`, if every iteration either continues with `P` and a
    smaller measure or stops with `Q` — and never throws — the loop returns a state satisfying `Q`. -/
theorem loop_except_total {β ε : Type} (f : Unit → β → Except ε (ForInStep β)) (P Q : β → Prop) (measure : β → Nat)
    (hstep : ∀ b, P b → (∃ b', f () b = .ok (.yield b') ∧ P b' ∧ measure b' < measure b) ∨ (∃ b', f () b = .ok (.done b') ∧ Q b')) :
    ∀ (n : Nat) (b : β), measure b ≤ n → P b → ∃ r, forIn Lean.Loop.mk b f = .ok r ∧ Q r := by
  intro n
  induction n with
  | zero =>
    intro b hm hP
    show ∃ r, Lean.Loop.forIn Lean.Loop.mk b f = .ok r ∧ Q r
    rw [Lean.Loop.forIn_eq_of_monadTail]
    rcases hstep b hP with ⟨b', hf, _, hlt⟩ | ⟨b', hf, hQ⟩
    · omega
    · rw [hf]; exact ⟨b', rfl, hQ⟩
  | succ n ih =>
    intro b hm hP
    show ∃ r, Lean.Loop.forIn Lean.Loop.mk b f = .ok r ∧ Q r
    rw [Lean.Loop.forIn_eq_of_monadTail]
    rcases hstep b hP with ⟨b', hf, hP', hlt⟩ | ⟨b', hf, hQ⟩
    · rw [hf]
      simp only [bind, Except.bind]
      exact ih b' (by omega) hP'
    · rw [hf]; exact ⟨b', rfl, hQ⟩

/-! ## growth of the range coder's byte count -/

theorem T_range (e : Enc) (r : Nat) : T { e with range := r } = T e := rfl

theorem T_normalize {e : Enc} (h : 1 ≤ e.cacheSize) : T (normalize e) ≤ T e + 1 ∧ 1 ≤ (normalize e).cacheSize := by
  unfold normalize
  split
  · obtain ⟨h1, h2, _⟩ := shiftLow_T h
    exact ⟨Nat.le_of_eq (by rw [T_range, h1]), h2⟩
  · exact ⟨Nat.le_succ _, h⟩

theorem T_encBit {e : Enc} (h : 1 ≤ e.cacheSize) (p : Nat) (b : Bool) :
    T (encBit e p b) ≤ T e + 1 ∧ 1 ≤ (encBit e p b).cacheSize := by
  have := T_normalize h
  cases b
  · rw [encBit_false]; exact this
  · rw [encBit_true]; exact this

theorem T_encDirect {e : Enc} (h : 1 ≤ e.cacheSize) (b : Bool) :
    T (encDirect e b) ≤ T e + 1 ∧ 1 ≤ (encDirect e b).cacheSize := by
  have := T_normalize h
  cases b
  · rw [encDirect_false]; exact this
  · rw [encDirect_true]; exact this

/-- every queued operation shifts out at most one byte -/
theorem T_encOps : ∀ (ops : List Op) (ps : Probs) (e : Enc), 1 ≤ e.cacheSize →
    T (encOps ps e ops).2 ≤ T e + ops.length ∧ 1 ≤ (encOps ps e ops).2.cacheSize
  | [], _, _, h => ⟨Nat.le_refl _, h⟩
  | .bit ctx b :: ops, ps, e, h => by
    obtain ⟨h1, h2⟩ := T_encBit h (ps.getD ctx 0) b
    obtain ⟨h3, h4⟩ := T_encOps ops (ps.setIfInBounds ctx (probUpdate (ps.getD ctx 0) b)) (encBit e (ps.getD ctx 0) b) h2
    have e1 : encOps ps e (.bit ctx b :: ops) =
        encOps (ps.setIfInBounds ctx (probUpdate (ps.getD ctx 0) b)) (encBit e (ps.getD ctx 0) b) ops := by
      simp only [encOps, List.foldl_cons, encOp]
    rw [e1]
    exact ⟨by simp only [List.length_cons]; omega, h4⟩
  | .direct b :: ops, ps, e, h => by
    obtain ⟨h1, h2⟩ := T_encDirect h b
    obtain ⟨h3, h4⟩ := T_encOps ops ps (encDirect e b) h2
    have e1 : encOps ps e (.direct b :: ops) = encOps ps (encDirect e b) ops := by
      simp only [encOps, List.foldl_cons, encOp]
    rw [e1]
    exact ⟨by simp only [List.length_cons]; omega, h4⟩

/-- `rc->out_total + rc_pending(rc)` in terms of `T` -/
theorem total_pending {e : Enc} (h : OutOk2 e) : e.outTotal + e.pending = T e + 4 := by
  simp only [Enc.pending, T, h.1]; omega

/-- `rc_flush` writes at most five bytes more than are written or pending -/
theorem flush_le {e : Enc} (h : OutOk2 e) : (encFlush e).outTotal ≤ T e + 5 := by
  have hcs := h.2
  obtain ⟨hn, hncs⟩ := T_normalize hcs
  generalize he0 : ({ normalize e with range := UINT32_MAX } : Enc) = e0
  have h0 : 1 ≤ e0.cacheSize := by rw [← he0]; exact hncs
  have hT0 : T e0 = T (normalize e) := by rw [← he0]; rfl
  obtain ⟨t1, c1, _⟩ := shiftLow_T h0
  obtain ⟨t2, c2, _⟩ := shiftLow_T c1
  obtain ⟨t3, c3, _⟩ := shiftLow_T c2
  obtain ⟨t4, c4, _⟩ := shiftLow_T c3
  obtain ⟨t5, c5, _⟩ := shiftLow_T c4
  have hfl : encFlush e = shiftLow (shiftLow (shiftLow (shiftLow (shiftLow e0)))) := by rw [← he0]; rfl
  have hok := (outOk2_encFlush h).1
  have hTf : T (encFlush e) = T e0 + 5 := by rw [hfl]; omega
  have hlen : (encFlush e).outRev.length + (encFlush e).cacheSize = T (encFlush e) := rfl
  have hc5 : 1 ≤ (encFlush e).cacheSize := by rw [hfl]; exact c5
  rw [hok]
  omega

/-! ## number of operations per symbol -/

theorem bittreeOps_length (base : Nat) : ∀ (n sym m : Nat), (bittreeOps base n sym m).length = n
  | 0, _, _ => rfl
  | n + 1, sym, m => by simp only [bittreeOps, List.length_cons, bittreeOps_length base n]

theorem bittreeRevOps_length (base : Nat) : ∀ (n sym m : Nat), (bittreeRevOps base n sym m).length = n
  | 0, _, _ => rfl
  | n + 1, sym, m => by simp only [bittreeRevOps, List.length_cons, bittreeRevOps_length base n]

theorem directOps_length (v : Nat) : ∀ n, (directOps v n).length = n
  | 0 => rfl
  | n + 1 => by simp only [directOps, List.length_cons, directOps_length v n]

theorem litMatchedOps_length (base : Nat) : ∀ (n off mb sym : Nat), (litMatchedOps base n off mb sym).length = n
  | 0, _, _, _ => rfl
  | n + 1, off, mb, sym => by simp only [litMatchedOps, List.length_cons, litMatchedOps_length base n]

theorem literalOps_length (p : Props) (state pos prev mb : Nat) (cur : UInt8) : (literalOps p state pos prev mb cur).1.length = 8 := by
  unfold literalOps
  split
  · exact bittreeOps_length _ 8 _ _
  · exact litMatchedOps_length _ 8 _ _ _

theorem lengthOps_length (lenBase posState len : Nat) : (lengthOps lenBase posState len).length ≤ 10 := by
  unfold lengthOps
  simp only []
  split
  · simp only [List.length_cons, bittreeOps_length, LEN_LOW_BITS]; omega
  · split
    · simp only [List.length_cons, bittreeOps_length, LEN_MID_BITS]; omega
    · simp only [List.length_cons, bittreeOps_length, LEN_HIGH_BITS]; omega

theorem getDistSlot_le (dist : Nat) (h : dist < 4294967296) : getDistSlot dist ≤ 63 := by
  unfold getDistSlot
  split
  · omega
  · rename_i h4
    simp only []
    have hl : LzmaEnc.log2 dist < 32 := by
      unfold LzmaEnc.log2
      exact (Nat.log2_lt (by omega)).2 h
    have hb : (dist >>> (LzmaEnc.log2 dist - 1)) &&& 1 ≤ 1 := Nat.and_le_right
    omega

theorem distOps_length (dist len : Nat) (h : dist < 4294967296) : (distOps dist len).length ≤ 41 := by
  have hs := getDistSlot_le dist h
  unfold distOps
  simp only []
  have hf : (getDistSlot dist >>> 1) - 1 ≤ 30 := by
    rw [Nat.shiftRight_eq_div_pow]; omega
  split
  · split
    · simp only [List.length_append, bittreeOps_length, bittreeRevOps_length, DIST_SLOT_BITS]; omega
    · simp only [List.length_append, bittreeOps_length, bittreeRevOps_length, directOps_length, DIST_SLOT_BITS, ALIGN_BITS]; omega
  · simp only [bittreeOps_length, DIST_SLOT_BITS]; omega

/-- `encode_symbol` queues at most 60 operations for a literal or a normal match with a 32-bit distance -/
theorem symOps_length (p : Props) (s : SymSt) (pos prev mb : Nat) (sym : Sym)
    (h : (∃ b, sym = .lit b) ∨ (∃ d l, sym = .mtch d l ∧ d < 4294967296)) : (symOps p s pos prev mb sym).1.length ≤ 60 := by
  rcases h with ⟨b, rfl⟩ | ⟨d, l, rfl, hd⟩
  · simp only [symOps, List.length_cons, literalOps_length]; omega
  · have h1 := lengthOps_length P_MATCH_LEN (pos &&& ((1 <<< p.pb) - 1)) l
    have h2 := distOps_length d l hd
    simp only [symOps, matchOps, List.length_cons, List.length_append]
    omega

theorem initOps_length (b : UInt8) : (initOps b).length = 9 := by
  simp only [initOps, List.length_cons, bittreeOps_length]

/-! ## traces without flush markers -/

theorem nextMarkerK_none (tr : Array TraceRec) (hk : ∀ i, i < tr.size → tr[i]!.kind = 0) :
    ∀ (n j : Nat), j ≤ tr.size → tr.size - j ≤ n → nextMarkerK tr n j = tr.size
  | 0, j, hj, hn => by simp only [nextMarkerK]; omega
  | n + 1, j, hj, hn => by
    simp only [nextMarkerK]
    by_cases hlt : j < tr.size
    · have hc : (decide (j < tr.size) && tr[j]!.kind != 2) = true := by
        rw [hk j hlt]; simp [hlt]
      rw [if_pos hc]
      exact nextMarkerK_none tr hk n (j + 1) (by omega) (by omega)
    · have hc : ¬ (decide (j < tr.size) && tr[j]!.kind != 2) = true := by simp [hlt]
      rw [if_neg hc]; omega

theorem nextMarker_none (tr : Array TraceRec) (hk : ∀ i, i < tr.size → tr[i]!.kind = 0) (j : Nat) (hj : j ≤ tr.size) :
    nextMarker tr j = tr.size := by
  rw [nextMarker_eq]
  exact nextMarkerK_none tr hk _ j hj (Nat.le_refl _)

end XzVerif.LzmaExec
