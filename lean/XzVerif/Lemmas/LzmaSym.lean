/-
  Symbol-level round trip: the specification decoder `decodeSym`, run against the operations queued by the encoder's
  `encode_symbol` (`symOps`), asks for exactly the same probability contexts in the same order and returns the symbol and
  the same new state / rep registers.
-/
import XzVerif.Lemmas.LzmaSymDist

namespace XzVerif.LzmaSym
open XzVerif.RangeDec XzVerif.RangeEnc XzVerif.Lzma XzVerif.LzmaEnc XzVerif.LzmaSymDec

/-- the symbols `encode_symbol` can be asked to code (`mtch 4294967295 2` is the end marker) -/
def ValidSym : Sym → Prop
  | .lit _ => True
  | .mtch dist len => 2 ≤ len ∧ len ≤ 273 ∧ dist < 4294967296
  | .rep idx len => idx < 4 ∧ 2 ≤ len ∧ len ≤ 273
  | .shortrep => True

theorem runOps_bit {α : Type} (ctx : Nat) (k : Bool → Prog α) (b : Bool) (ops : List Op) :
    (Prog.bit ctx k).runOps (.bit ctx b :: ops) = (k b).runOps ops := by
  simp [Prog.runOps]

theorem ofNat_byte (cur : UInt8) : UInt8.ofNat (2 ^ 8 * 1 + cur.toNat % 2 ^ 8 - 256) = cur := by
  have h : cur.toNat < 256 := UInt8.toNat_lt_size cur
  have : 2 ^ 8 * 1 + cur.toNat % 2 ^ 8 - 256 = cur.toNat := by norm_num
  rw [this]; exact UInt8.ofNat_toNat

theorem ofNat_byte' (cur : UInt8) : UInt8.ofNat (cur.toNat + 256 - 256) = cur := by
  simp

theorem decodeSym_ops (p : Props) (s : SymSt) (pos prev mb : Nat) (sym : Sym) (hv : ValidSym sym) (rest : List Op) :
    (decodeSym p s pos prev mb).runOps ((symOps p s pos prev mb sym).1 ++ rest)
      = some ((sym, (symOps p s pos prev mb sym).2), rest) := by
  unfold decodeSym symOps
  cases sym with
  | lit cur =>
    simp only [List.cons_append, runOps_bit, Bool.not_false, if_true, literalOps]
    by_cases hl : isLiteralState s.state
    · simp only [hl, if_true]
      rw [runOps_bind_of _ (pBittree_ops _ 8 cur.toNat 1 rest)]
      simp only [Prog.runOps, ofNat_byte]
    · simp only [hl, Bool.false_eq_true, if_false]
      rw [runOps_bind_of _ (pLitMatched_ops _ mb cur.toNat (UInt8.toNat_lt_size cur) rest)]
      simp only [Prog.runOps, ofNat_byte']
  | mtch dist len =>
    obtain ⟨h2, h273, h32⟩ := hv
    simp only [List.cons_append, runOps_bit, Bool.not_true, Bool.not_false, Bool.false_eq_true, if_false, if_true, matchOps,
      List.append_assoc]
    rw [runOps_bind_of _ (pLen_ops _ _ len h2 h273 _), runOps_bind_of _ (pDist_ops dist len h32 rest)]
    simp only [Prog.runOps]
  | rep idx len =>
    obtain ⟨hi, h2, h273⟩ := hv
    have hl1 : (len == 1) = false := by simp; omega
    have hl1' : (len != 1) = true := by simp; omega
    have hidx : idx = 0 ∨ idx = 1 ∨ idx = 2 ∨ idx = 3 := by omega
    rcases hidx with rfl | rfl | rfl | rfl
    · simp only [repOps, beq_self_eq_true, if_true, hl1, hl1', Bool.false_eq_true, if_false, List.cons_append, List.nil_append,
        runOps_bit, Bool.not_true, Bool.not_false]
      rw [runOps_bind_of _ (pLen_ops _ _ len h2 h273 rest)]
      simp only [Prog.runOps]
    · simp only [repOps, show ((1 : Nat) == 0) = false from rfl, beq_self_eq_true, if_true, hl1, Bool.false_eq_true, if_false,
        List.cons_append, List.nil_append, runOps_bit, Bool.not_true, Bool.not_false]
      rw [runOps_bind_of _ (pLen_ops _ _ len h2 h273 rest)]
      simp only [Prog.runOps]
    · simp only [repOps, show ((2 : Nat) == 0) = false from rfl, show ((2 : Nat) == 1) = false from rfl, beq_self_eq_true, if_true,
        hl1, Bool.false_eq_true, if_false, List.cons_append, List.nil_append, runOps_bit, Bool.not_true, Bool.not_false]
      rw [runOps_bind_of _ (pLen_ops _ _ len h2 h273 rest)]
      simp only [Prog.runOps]
    · simp only [repOps, show ((3 : Nat) == 0) = false from rfl, show ((3 : Nat) == 1) = false from rfl,
        show ((3 : Nat) == 2) = false from rfl, hl1, Bool.false_eq_true, if_false, List.cons_append, List.nil_append,
        runOps_bit, Bool.not_true]
      rw [runOps_bind_of _ (pLen_ops _ _ len h2 h273 rest)]
      simp only [Prog.runOps]
  | shortrep =>
    simp only [repOps, beq_self_eq_true, if_true, bne_self_eq_false, List.cons_append, List.nil_append, runOps_bit, Bool.not_true,
      Bool.not_false, Bool.false_eq_true, if_false, Prog.runOps]

end XzVerif.LzmaSym
