/-
  C01, executable decoder ↔ specification decoder, part 5: the dictionary.
  `Win s rb dictSize`: the decoder's abstract history `s.hist` (tail of the preset dictionary ++ everything produced) is
  the newest part of the specification window `rb` (reversed: newest byte first; the encoder's window may know older
  preset bytes), and the position members of `lzma_dict` are consistent with it: every distance the encoder may use
  (`< dictSize`, inside the window) passes `dict_is_distance_valid` and reads the same byte. The output steps
  `dict_put` / `dict_repeat` extend both sides alike (`lzCopy`).
-/
import XzVerif.Lemmas.Lzma1ExecChan

namespace XzVerif.LzmaExec
open XzVerif.RangeDec XzVerif.RangeEnc XzVerif.LzDict XzVerif.Lzma XzVerif.LzmaEnc XzVerif.LzmaSymDec XzVerif.LzmaSym
open XzVerif.LzmaSpec

/-! ### ByteArray as a list -/

def hl (h : ByteArray) : List UInt8 := h.data.toList

theorem hl_length (h : ByteArray) : (hl h).length = h.size := by
  show h.data.toList.length = h.size
  rw [Array.length_toList, ByteArray.size_data]

theorem hl_push (h : ByteArray) (b : UInt8) : hl (h.push b) = hl h ++ [b] := by
  simp [hl, ByteArray.data_push]

theorem get!_eq (h : ByteArray) (i : Nat) (hi : i < h.size) : (hl h)[i]? = some (h.get! i) := by
  cases h with
  | mk d =>
    have hi' : i < d.size := hi
    simp [hl, ByteArray.get!, hi']

/-- the byte at distance `d` of the reversed history -/
theorem rev_get (h : ByteArray) (d : Nat) (hd : d < h.size) : (hl h).reverse[d]? = some (h.get! (h.size - 1 - d)) := by
  rw [List.getElem?_reverse (by rw [hl_length]; exact hd), hl_length]
  exact get!_eq h _ (by omega)

/-! ### the window relation -/

structure Win (s : St) (rb : List UInt8) (dictSize : Nat) : Prop where
  pre : ∃ extra, rb = (hl s.hist).reverse ++ extra
  full_le : s.dp.full ≤ s.hist.size
  full_ge : rb.length ≤ s.dp.full ∨ roundDictSize dictSize ≤ s.dp.full
  size : s.dp.size = allocSize dictSize
  unwrapped : s.dp.hasWrapped = false → LZ_DICT_INIT_POS ≤ s.dp.pos ∧ s.dp.full = s.dp.pos - LZ_DICT_INIT_POS
  wrapped : s.dp.hasWrapped = true → LZ_DICT_REPEAT_MAX ≤ s.dp.pos ∧ s.dp.full = roundDictSize dictSize
  pos_le : s.dp.pos ≤ s.dp.limit
  limit_le : s.dp.limit ≤ s.dp.size

theorem Win.congr {s t : St} {rb : List UInt8} {dictSize : Nat} (h : Win s rb dictSize) (h1 : t.hist = s.hist)
    (h2 : t.dp = s.dp) : Win t rb dictSize := by
  obtain ⟨a, b, c, d, e, f, g, i⟩ := h
  exact ⟨by rw [h1]; exact a, by rw [h1, h2]; exact b, by rw [h2]; exact c, by rw [h2]; exact d, by rw [h2]; exact e,
    by rw [h2]; exact f, by rw [h2]; exact g, by rw [h2]; exact i⟩

theorem roundDictSize_ge (dictSize : Nat) : dictSize ≤ roundDictSize dictSize ∧ 4096 ≤ roundDictSize dictSize ∧
    roundDictSize dictSize % 16 = 0 := by
  simp only [roundDictSize]
  split <;> omega

/-- `dict_get0` is the previous byte -/
theorem Win.prev {s : St} {rb : List UInt8} {dictSize : Nat} (h : Win s rb dictSize) : s.dictGet0.toNat = prevByte rb := by
  obtain ⟨⟨extra, hpre⟩, hfl, hfg, _⟩ := h
  unfold St.dictGet0
  by_cases h0 : s.dp.full = 0
  · have hlen : rb.length = 0 := by
      have := (roundDictSize_ge dictSize).2.1
      omega
    have : rb = [] := List.eq_nil_of_length_eq_zero hlen
    simp [h0, this, prevByte]
  · have hb : (s.dp.full == 0) = false := by simpa using h0
    have hsz : 0 < s.hist.size := by omega
    simp only [hb, Bool.false_eq_true, if_false, St.dictGet, hsz, if_true]
    have hget := rev_get s.hist 0 hsz
    have hrb : rb[0]? = some (s.hist.get! (s.hist.size - 1 - 0)) := by
      rw [hpre, List.getElem?_append_left (by simp [hl_length]; exact hsz)]; exact hget
    cases rb with
    | nil => simp at hrb
    | cons b r =>
      simp only [List.getElem?_cons_zero, Option.some.injEq] at hrb
      simp [prevByte, hrb]

/-- `dict_get(distance)` for a distance inside the history -/
theorem Win.get {s : St} {rb : List UInt8} {dictSize : Nat} (h : Win s rb dictSize) (d : Nat) (hd : d < s.hist.size) :
    rb[d]? = some (s.dictGet d) := by
  obtain ⟨⟨extra, hpre⟩, _⟩ := h
  unfold St.dictGet
  simp only [hd, if_true]
  rw [hpre, List.getElem?_append_left (by simp [hl_length]; exact hd)]
  exact rev_get s.hist d hd

theorem Win.matchByte {s : St} {rb : List UInt8} {dictSize : Nat} (h : Win s rb dictSize) (d : Nat) (hd : d < s.hist.size) :
    (s.dictGet d).toNat = matchByte rb d := by
  simp [LzmaSpec.matchByte, h.get d hd]

/-- a distance the encoder may use is valid for the decoder -/
theorem Win.valid {s : St} {rb : List UInt8} {dictSize : Nat} (h : Win s rb dictSize) (d : Nat) (h1 : d < dictSize)
    (h2 : d < rb.length) : d < s.dp.full := by
  have := (roundDictSize_ge dictSize).1
  rcases h.full_ge with hh | hh <;> omega

/-! ### output steps -/

theorem lzCopy_pos {n d : Nat} {rb rb' : List UInt8} (hn : 0 < n) (h : lzCopy n d rb = some rb') : d < rb.length := by
  obtain ⟨m, rfl⟩ : ∃ m, n = m + 1 := ⟨n - 1, by omega⟩
  simp only [lzCopy] at h
  cases hg : rb[d]? with
  | none => rw [hg] at h; cases h
  | some b => exact (List.getElem?_eq_some_iff.mp hg).1

theorem lzCopy_length : ∀ {n d : Nat} {rb rb' : List UInt8}, lzCopy n d rb = some rb' → rb'.length = rb.length + n
  | 0, d, rb, rb', h => by simp only [lzCopy, Option.some.injEq] at h; subst h; rfl
  | n + 1, d, rb, rb', h => by
    simp only [lzCopy] at h
    cases hg : rb[d]? with
    | none => rw [hg] at h; cases h
    | some b =>
      rw [hg] at h
      have := lzCopy_length h
      simp at this; omega

theorem lzCopy_add : ∀ (a b d : Nat) (rb : List UInt8),
    lzCopy (a + b) d rb = (lzCopy a d rb).bind fun r => lzCopy b d r
  | 0, b, d, rb => by simp [lzCopy]
  | a + 1, b, d, rb => by
    have e : a + 1 + b = (a + b) + 1 := by omega
    rw [e]
    simp only [lzCopy]
    cases rb[d]? with
    | none => rfl
    | some x => exact lzCopy_add a b d _

theorem put_pos (s : St) (b : UInt8) : (s.put b).dp.pos = s.dp.pos + 1 := rfl

theorem Win.put {s : St} {rb : List UInt8} {dictSize : Nat} (h : Win s rb dictSize) (b : UInt8) (hlt : s.dp.pos < s.dp.limit) :
    Win (s.put b) (b :: rb) dictSize := by
  obtain ⟨⟨extra, hpre⟩, hfl, hfg, hsz, hun, hwr, hpl, hll⟩ := h
  simp only [LZ_DICT_INIT_POS, LZ_DICT_REPEAT_MAX] at hun hwr ⊢
  refine ⟨⟨extra, ?_⟩, ?_, ?_, hsz, ?_, ?_, ?_, hll⟩
  · show b :: rb = (hl (s.hist.push b)).reverse ++ extra
    rw [hl_push, hpre]; simp
  · show (s.dp.advance 1).full ≤ (s.hist.push b).size
    rw [ByteArray.size_push]
    simp only [DictPos.advance, LZ_DICT_INIT_POS]
    by_cases hw : s.dp.hasWrapped = true
    · simp only [hw, if_true]; omega
    · have hw' : s.dp.hasWrapped = false := by simpa using hw
      have := hun hw'
      simp only [hw', Bool.false_eq_true, if_false]; omega
  · show (b :: rb).length ≤ (s.dp.advance 1).full ∨ roundDictSize dictSize ≤ (s.dp.advance 1).full
    simp only [DictPos.advance, LZ_DICT_INIT_POS]
    by_cases hw : s.dp.hasWrapped = true
    · have := hwr hw
      simp only [hw, if_true]; right; omega
    · have hw' : s.dp.hasWrapped = false := by simpa using hw
      have := hun hw'
      simp only [hw', Bool.false_eq_true, if_false, List.length_cons]
      rcases hfg with hh | hh
      · left; omega
      · right; omega
  · intro hw
    have hw' : s.dp.hasWrapped = false := hw
    have := hun hw'
    show 576 ≤ s.dp.pos + 1 ∧ (s.dp.advance 1).full = s.dp.pos + 1 - 576
    simp only [DictPos.advance, LZ_DICT_INIT_POS]
    simp only [hw', Bool.false_eq_true, if_false, and_true]; omega
  · intro hw
    have hw' : s.dp.hasWrapped = true := hw
    have := hwr hw'
    show 288 ≤ s.dp.pos + 1 ∧ (s.dp.advance 1).full = roundDictSize dictSize
    simp only [DictPos.advance, LZ_DICT_INIT_POS]
    simp only [hw', if_true]; omega
  · show s.dp.pos + 1 ≤ s.dp.limit
    omega

/-- `dict_repeat` of `n` bytes is `lzCopy` on the window -/
theorem copyBytes_spec : ∀ (n d : Nat) (h : ByteArray) (extra rb' : List UInt8), d < h.size →
    lzCopy n d ((hl h).reverse ++ extra) = some rb' → rb' = (hl (St.copyBytes n d h)).reverse ++ extra
  | 0, d, h, extra, rb', _, hc => by
    simp only [lzCopy, Option.some.injEq] at hc
    rw [← hc]; rfl
  | n + 1, d, h, extra, rb', hd, hc => by
    simp only [lzCopy] at hc
    have hget : ((hl h).reverse ++ extra)[d]? = some (h.get! (h.size - 1 - d)) := by
      rw [List.getElem?_append_left (by simp [hl_length]; exact hd)]; exact rev_get h d hd
    rw [hget] at hc
    unfold St.copyBytes
    simp only [hd, if_true]
    have := copyBytes_spec n d (h.push (h.get! (h.size - 1 - d))) extra rb' (by rw [ByteArray.size_push]; omega)
      (by rw [hl_push]; simpa using hc)
    exact this

theorem copyBytes_size : ∀ n d (h : ByteArray), (St.copyBytes n d h).size = h.size + n
  | 0, _, _ => rfl
  | n + 1, d, h => by
    unfold St.copyBytes
    simp only []
    rw [copyBytes_size n d _, ByteArray.size_push]
    omega

theorem repeatN_pos (s : St) (n : Nat) : (s.repeatN n).dp.pos = s.dp.pos + n := rfl

theorem Win.repeatN {s : St} {rb rb' : List UInt8} {dictSize : Nat} (h : Win s rb dictSize) (n : Nat)
    (hn : s.dp.pos + n ≤ s.dp.limit) (hd : s.rep0 < s.dp.full) (hc : lzCopy n s.rep0 rb = some rb') :
    Win (s.repeatN n) rb' dictSize := by
  obtain ⟨⟨extra, hpre⟩, hfl, hfg, hsz, hun, hwr, hpl, hll⟩ := h
  have hlen := lzCopy_length hc
  simp only [LZ_DICT_INIT_POS, LZ_DICT_REPEAT_MAX] at hun hwr ⊢
  refine ⟨⟨extra, ?_⟩, ?_, ?_, hsz, ?_, ?_, ?_, hll⟩
  · show rb' = (hl (St.copyBytes n s.rep0 s.hist)).reverse ++ extra
    exact copyBytes_spec n s.rep0 s.hist extra rb' (by omega) (by rw [← hpre]; exact hc)
  · show (s.dp.advance n).full ≤ (St.copyBytes n s.rep0 s.hist).size
    rw [copyBytes_size]
    simp only [DictPos.advance, LZ_DICT_INIT_POS]
    by_cases hw : s.dp.hasWrapped = true
    · simp only [hw, if_true]; omega
    · have hw' : s.dp.hasWrapped = false := by simpa using hw
      have := hun hw'
      simp only [hw', Bool.false_eq_true, if_false]; omega
  · show rb'.length ≤ (s.dp.advance n).full ∨ roundDictSize dictSize ≤ (s.dp.advance n).full
    simp only [DictPos.advance, LZ_DICT_INIT_POS]
    by_cases hw : s.dp.hasWrapped = true
    · have := hwr hw
      simp only [hw, if_true]; right; omega
    · have hw' : s.dp.hasWrapped = false := by simpa using hw
      have := hun hw'
      simp only [hw', Bool.false_eq_true, if_false]
      rcases hfg with hh | hh
      · left; omega
      · right; omega
  · intro hw
    have hw' : s.dp.hasWrapped = false := hw
    have := hun hw'
    show 576 ≤ s.dp.pos + n ∧ (s.dp.advance n).full = s.dp.pos + n - 576
    simp only [DictPos.advance, LZ_DICT_INIT_POS]
    simp only [hw', Bool.false_eq_true, if_false, and_true]; omega
  · intro hw
    have hw' : s.dp.hasWrapped = true := hw
    have := hwr hw'
    show 288 ≤ s.dp.pos + n ∧ (s.dp.advance n).full = roundDictSize dictSize
    simp only [DictPos.advance, LZ_DICT_INIT_POS]
    simp only [hw', if_true]; omega
  · show s.dp.pos + n ≤ s.dp.limit
    exact hn

end XzVerif.LzmaExec
