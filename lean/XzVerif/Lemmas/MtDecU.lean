/-
  Worker-shape invariant of the threaded-decoder model that holds in EVERY reachable state (also while a fatal value is on its
  way out and during threads_end): a worker that is decoding or finishing owns an outbuf; a running worker owns one; the
  worker being set up by SEQ_BLOCK_THR_INIT and the members of the free list are idle and not running; at most threads_max
  workers exist. Used by the termination measure.
-/
import XzVerif.Lemmas.MtDecAcct3

namespace XzVerif.MtDec

def busyPc : WPc → Prop
  | .decode _ _ | .publish | .fin1 _ | .fin2 _ | .fin3 _ => True
  | _ => False

structure UInv (s : State) : Prop where
  busy : ∀ i, i < s.workers.length → busyPc (getW s i).pc → (getW s i).hasOut = true
  run : ∀ i, i < s.workers.length → (getW s i).st = .run → (getW s i).hasOut = true
  fin : ∀ i, i < s.workers.length → (∃ r, (getW s i).pc = .fin2 r ∨ (getW s i).pc = .fin3 r) → (getW s i).st ≠ .run
  thr3 : (s.pc = .init3 ∨ s.pc = .init4) → ∀ t, s.thr = some t →
    t < s.workers.length ∧ idlePc (getW s t).pc ∧ (getW s t).st ≠ .run ∧ t ∉ s.threadsFree ∧ (s.pc = .init4 → (getW s t).hasOut = true)
  free : ∀ i ∈ s.threadsFree, i < s.workers.length ∧ idlePc (getW s i).pc ∧ (getW s i).st ≠ .run
  nodup : s.threadsFree.Nodup
  len : s.workers.length ≤ s.cfg.threadsMax
  snap : ∀ i, i < s.workers.length → ∀ lim pu, (getW s i).pc = .decode lim pu →
    (lim = (getW s i).inPos → pu = .start) ∧ (pu = .start → (getW s i).pu = .start)

theorem UInv.init (cfg : Cfg) (blocks : List Block) : UInv (init cfg blocks) := by
  constructor <;> simp [MtDec.init]

theorem UInv.congr {s s' : State} (h : UInv s) (e1 : s'.workers = s.workers) (e2 : s'.pc = s.pc) (e3 : s'.thr = s.thr)
    (e4 : s'.threadsFree = s.threadsFree) (e5 : s'.cfg = s.cfg) : UInv s' := by
  have eg : ∀ j, getW s' j = getW s j := fun j => by simp [getW, e1]
  refine ⟨?_, ?_, ?_, ?_, ?_, by rw [e4]; exact h.nodup, by rw [e1, e5]; exact h.len, ?_⟩
  · intro i hi; rw [e1] at hi; rw [eg]; exact h.busy i hi
  · intro i hi; rw [e1] at hi; rw [eg]; exact h.run i hi
  · intro i hi; rw [e1] at hi; rw [eg]; exact h.fin i hi
  · intro hp t ht; rw [e2] at hp; rw [e3] at ht; rw [e1, eg, e4, e2]; exact h.thr3 hp t ht
  · intro i hi; rw [e4] at hi; rw [e1, eg]; exact h.free i hi
  · intro i hi; rw [e1] at hi; rw [eg]; exact h.snap i hi

/-- A step that only replaces worker `i`. -/
theorem UInv.setW {s : State} (h : UInv s) (i : Nat) (hi : i < s.workers.length) (w : Worker)
    (c1 : busyPc w.pc → w.hasOut = true) (c2 : w.st = .run → w.hasOut = true)
    (c3 : (∃ r, w.pc = .fin2 r ∨ w.pc = .fin3 r) → w.st ≠ .run)
    (c4 : idlePc (getW s i).pc → (getW s i).st ≠ .run → idlePc w.pc ∧ w.st ≠ .run ∧ w.hasOut = (getW s i).hasOut)
    (c5 : ∀ lim pu, w.pc = .decode lim pu → (lim = w.inPos → pu = .start) ∧ (pu = .start → w.pu = .start)) :
    UInv (MtDec.setW s i w) := by
  have eg : ∀ j, getW (MtDec.setW s i w) j = if i = j then w else getW s j := fun j => getW_setW s i j w hi
  refine ⟨?_, ?_, ?_, ?_, ?_, h.nodup, by simpa using h.len, ?_⟩
  · intro j hj; simp only [setW_workers_length] at hj; rw [eg]
    by_cases e : i = j
    · subst e; simpa using c1
    · simp only [e, if_false]; exact h.busy j hj
  · intro j hj; simp only [setW_workers_length] at hj; rw [eg]
    by_cases e : i = j
    · subst e; simpa using c2
    · simp only [e, if_false]; exact h.run j hj
  · intro j hj; simp only [setW_workers_length] at hj; rw [eg]
    by_cases e : i = j
    · subst e; simpa using c3
    · simp only [e, if_false]; exact h.fin j hj
  · intro hp t ht
    obtain ⟨a1, a2, a3, a4, a5⟩ := h.thr3 hp t ht
    simp only [setW_workers_length, setW_threadsFree, setW_pc]
    rw [eg]
    by_cases e : i = t
    · subst e
      have := c4 a2 a3
      simp only [if_true]
      exact ⟨a1, this.1, this.2.1, a4, fun hq => this.2.2 ▸ a5 hq⟩
    · simp only [e, if_false]; exact ⟨a1, a2, a3, a4, a5⟩
  · intro j hj
    obtain ⟨a1, a2, a3⟩ := h.free j hj
    simp only [setW_workers_length]
    rw [eg]
    by_cases e : i = j
    · subst e
      have := c4 a2 a3
      simp only [if_true]
      exact ⟨a1, this.1, this.2.1⟩
    · simp only [e, if_false]; exact ⟨a1, a2, a3⟩
  · intro j hj; simp only [setW_workers_length] at hj; rw [eg]
    by_cases e : i = j
    · subst e; simpa using c5
    · simp only [e, if_false]; exact h.snap j hj

theorem UInv.workerDecide {s : State} (h : UInv s) (i : Nat) (hi : i < s.workers.length)
    (hp : idlePc (getW s i).pc) : UInv (MtDec.setW s i (MtDec.workerDecide (getW s i))) := by
  have hr := h.run i hi
  apply h.setW i hi
  · unfold MtDec.workerDecide; split
    · intro hb; exact hb.elim
    · intro hb; exact hb.elim
    · split
      · intro hb; exact hb.elim
      · intro _; exact hr (by assumption)
  · unfold MtDec.workerDecide; split <;> (try split) <;> (intro hst; simp_all)
  · unfold MtDec.workerDecide; split <;> (try split) <;> (rintro ⟨r, hx | hx⟩ <;> cases hx)
  · intro _ hnr
    unfold MtDec.workerDecide; split
    · exact ⟨trivial, by simp_all, rfl⟩
    · exact ⟨trivial, by simp_all, rfl⟩
    · exact absurd (by assumption) hnr
  · intro lim pu hpc
    rw [workerDecide_inPos, workerDecide_pu]
    unfold MtDec.workerDecide at hpc; split at hpc
    · cases hpc
    · cases hpc
    · split at hpc
      · cases hpc
      · rename_i hc
        injection hpc with e1 e2
        subst e2
        refine ⟨?_, fun x => x⟩
        intro hl
        have := e1.trans hl
        simpa [this] using hc

theorem UInv.worker {s s' : State} {l : Label} {i : Nat} (h : UInv s) (hl : l.worker? = some i)
    (hs : step s l = some s') : UInv s' := by
  have hi := (workerShape hl hs).hi
  have hb := h.busy i hi
  have hf := h.fin i hi
  have hrn := h.run i hi
  cases l <;> simp only [Label.worker?, Option.some.injEq, reduceCtorEq] at hl <;> subst hl <;> simp only [step] at hs
  case wLoop i c =>
    simp only [hi, if_true] at hs
    split at hs
    · cases hs; exact h.workerDecide i hi (by simp_all [idlePc])
    · split at hs
      · cases hs; exact h.workerDecide i hi (by simp_all [idlePc])
      · cases hs
    · cases hs; exact h.workerDecide i hi (by simp_all [idlePc])
    · cases hs
  case wFin3 i =>
    simp only [hi, if_true] at hs
    split at hs
    case h_2 => cases hs
    rename_i r hpc
    have hnr : (getW s i).st ≠ .run := hf ⟨r, Or.inr hpc⟩
    have base : UInv (MtDec.setW s i { getW s i with hasOut := false, failed := r != END, pc := .top }) := by
      apply h.setW i hi
      · intro x; exact x.elim
      · intro x; exact absurd x hnr
      · rintro ⟨r', x | x⟩ <;> cases x
      · intro x; rw [hpc] at x; exact x.elim
      · intro lim pu x; cases x
    have hif : i ∉ s.threadsFree := by
      intro hm
      have := (h.free i hm).2.1
      rw [hpc] at this; exact this
    have key : ∀ s1 : State, s1.workers = (MtDec.setW s i { getW s i with hasOut := false, failed := r != END, pc := .top }).workers →
        s1.pc = s.pc → s1.thr = s.thr → s1.cfg = s.cfg → (s1.threadsFree = s.threadsFree ∨ s1.threadsFree = i :: s.threadsFree) → UInv s1 := by
      intro s1 e1 e2 e3 e5 e4
      rcases e4 with e4 | e4
      · exact base.congr e1 e2 e3 e4 e5
      · have eg : ∀ j, getW s1 j = getW (MtDec.setW s i { getW s i with hasOut := false, failed := r != END, pc := .top }) j :=
          fun j => by simp [getW, e1]
        refine ⟨?_, ?_, ?_, ?_, ?_, ?_, ?_, ?_⟩
        · intro j hj; rw [e1] at hj; rw [eg]; exact base.busy j hj
        · intro j hj; rw [e1] at hj; rw [eg]; exact base.run j hj
        · intro j hj; rw [e1] at hj; rw [eg]; exact base.fin j hj
        · intro hp t ht
          rw [e2] at hp; rw [e3] at ht
          obtain ⟨a1, a2, a3, a4, a5⟩ := base.thr3 hp t ht
          rw [e1, eg, e4, e2]
          refine ⟨a1, a2, a3, ?_, a5⟩
          intro hm
          rcases List.mem_cons.mp hm with e | e
          · -- t = i: but worker i was at fin3, coder->thr is idle
            subst e
            have := (h.thr3 hp t ht).2.1
            rw [hpc] at this; exact this
          · exact a4 e
        · intro j hj
          rw [e4] at hj; rw [e1, eg]
          rcases List.mem_cons.mp hj with e | e
          · subst e
            refine ⟨by simpa using hi, ?_, ?_⟩
            · rw [getW_setW_same _ _ _ hi]; trivial
            · rw [getW_setW_same _ _ _ hi]; exact hnr
          · exact base.free j e
        · rw [e4]; exact List.nodup_cons.mpr ⟨hif, h.nodup⟩
        · rw [e1, e5]; exact base.len
        · intro j hj; rw [e1] at hj; rw [eg]; exact base.snap j hj
    simp only [signalMain] at hs
    cases hs
    apply key
    · repeat' split
      all_goals rfl
    · repeat' split
      all_goals rfl
    · repeat' split
      all_goals rfl
    · repeat' split
      all_goals rfl
    · repeat' split
      all_goals first | exact Or.inl rfl | exact Or.inr rfl
  all_goals (repeat' split at hs)
  all_goals first | (cases hs; done) | skip
  all_goals (cases hs)
  all_goals first
    | (apply h.setW _ hi <;> simp_all [busyPc, idlePc] <;> done)
    | (refine UInv.congr (h.setW _ hi _ ?_ ?_ ?_ ?_ ?_) rfl rfl rfl rfl rfl <;> simp_all [busyPc, idlePc] <;> done)

end XzVerif.MtDec
