/-
  C04 (termination / totality), direct form: THE OUT-OF-FUEL BRANCH OF THE DECODER MODELS IS NEVER REACHED
  (audit finding S-3: fuel INDEPENDENCE `measure < fuel → ∀ k, f (fuel + k) x = f fuel x` alone is also satisfied by a loop
  that stutters, `f (n+1) x = f n x`, and so runs out of fuel for every fuel).

  For every fuelled loop `f : Nat → args → res` with a branch `| 0, … => v₀` this file defines an Option-valued instrumented
  twin `f?`: the same code, except that the `0` branch returns `none` and every recursive call propagates `none`. So
  `f? fuel x = none` iff the evaluation of `f fuel x` REACHES the out-of-fuel branch. Proved:

        measure(x) < fuel  →  f? fuel x = some (f fuel x)                     (`*_reach`)

  i.e. with more fuel than the stated measure the branch is never reached and the twin computes exactly the model's
  result; and the same for the amount each top-level caller supplies (`xzCall_reach`, `streamOne_reach`, `xzDecode_reach`,
  `lzipDecode_reach`). The measures are those of Lemmas/C04FuelXz.lean.

  This file: Model/XzDecode.lean (`blocksLoop`, `xzLoop`), Model/XzConcat.lean (`xzLoop`), Model/Lzip.lean (`lzipLoop`).
  Core Lean only.
-/
import XzVerif.Lemmas.C04FuelXz

namespace XzVerif.XzDecode
open XzVerif XzVerif.Vli XzVerif.Container

/-- `blocksLoop` with the out-of-fuel branch made visible: `none` iff the `0` branch is REACHED -/
def blocksLoop? (E : Env) (fl : Flags) (hdr : StreamFlags) : Nat → HashInfo → List UInt8 → Nat → Option SRes
  | 0, _, _, _ => none
  | fuel + 1, blocks, inp, outCap =>
    match inp with
    | [] => some { ret := .ok, out := [], consumed := 0 }
    | b0 :: _ =>
      if b0.toNat = INDEX_INDICATOR then some (indexAndFooter hdr blocks inp)
      else
        let hs := (b0.toNat + 1) * 4
        if inp.length < hs then some { ret := .ok, out := [], consumed := inp.length }
        else
          match blockHeaderDecodeWith hs hdr.check (inp.take hs) with
          | .error e => some { ret := e, out := [], consumed := hs }
          | .ok h =>
            match validateChain (h.filters.map (·.id)) with
            | .error _ => some { ret := .optionsError, out := [], consumed := hs }
            | .ok _ =>
              let b := blockDecode E hdr.check fl.ignoreCheck hs h (inp.drop hs) outCap
              if b.ret ≠ .streamEnd then some { ret := b.ret, out := b.out, consumed := hs + b.consumed }
              else
                match indexHashAppend blocks (blockUnpaddedSize 1 hs hdr.check (some b.compressed)) b.out.length with
                | .error e => some { ret := e, out := b.out, consumed := hs + b.consumed }
                | .ok blocks' =>
                  match blocksLoop? E fl hdr fuel blocks' (inp.drop (hs + b.consumed)) (outCap - b.out.length) with
                  | none => none
                  | some r => some { ret := r.ret, out := b.out ++ r.out, consumed := hs + b.consumed + r.consumed }

theorem blocksLoop_reach (E : Env) (fl : Flags) (hdr : StreamFlags) :
    ∀ (fuel : Nat) (blocks : HashInfo) (inp : List UInt8) (outCap : Nat), inp.length < fuel →
      blocksLoop? E fl hdr fuel blocks inp outCap = some (blocksLoop E fl hdr fuel blocks inp outCap) := by
  intro fuel
  induction fuel with
  | zero => intro _ _ _ h; omega
  | succ f ih =>
    intro blocks inp outCap h
    cases inp with
    | nil => rfl
    | cons b0 t =>
      simp only [blocksLoop?, blocksLoop]
      split
      · rfl
      · split
        · rfl
        · split
          · rename_i heq; simp only [heq]
          · rename_i heq; simp only [heq]
            split
            · rename_i heq2; simp only [heq2]
            · rename_i heq2; simp only [heq2]
              split
              · rfl
              · split
                · rename_i heq3; simp only [heq3]
                · rename_i heq3; simp only [heq3]
                  rw [ih]
                  simp only [List.length_drop, List.length_cons] at *
                  omega
/-- `xzLoop` with the out-of-fuel branch made visible -/
def xzLoop? (E : Env) (fl : Flags) : Nat → Bool → List UInt8 → Nat → Option DRes
  | 0, _, _, _ => none
  | fuel + 1, first, inp, outCap =>
    let s := streamOne E fl first inp outCap
    if s.ret ≠ .streamEnd then some s
    else if !fl.concatenated then some s
    else
      match streamPadding (inp.drop s.consumed) 0 0 with
      | .inl (r, n) => some { s with ret := r, consumed := s.consumed + n }
      | .inr n =>
        match xzLoop? E fl fuel false (inp.drop (s.consumed + n)) (outCap - s.out.length) with
        | none => none
        | some t => some (prepend { s with consumed := s.consumed + n } t)

theorem xzLoop_reach (E : Env) (fl : Flags) :
    ∀ (fuel : Nat) (first : Bool) (inp : List UInt8) (outCap : Nat), inp.length < fuel →
      xzLoop? E fl fuel first inp outCap = some (xzLoop E fl fuel first inp outCap) := by
  intro fuel
  induction fuel with
  | zero => intro _ _ _ h; omega
  | succ f ih =>
    intro first inp outCap h
    simp only [xzLoop?, xzLoop]
    split
    · rfl
    · rename_i hse
      have hc := streamOne_streamEnd_consumed E fl first inp outCap (by simpa using hse)
      split
      · rfl
      · split
        · rename_i heq; simp only [heq]
        · rename_i heq; simp only [heq]
          rw [ih]
          simp only [List.length_drop]
          unfold STREAM_HEADER_SIZE at hc
          omega

/-- with the fuel `xzCall` supplies the out-of-fuel branch is never reached -/
theorem xzCall_reach (E : Env) (fl : Flags) (inp : List UInt8) (outCap : Nat) :
    xzLoop? E fl (inp.length + 1) true inp outCap = some (xzCall E fl inp outCap) :=
  xzLoop_reach E fl (inp.length + 1) true inp outCap (by omega)

/-- `streamOne` supplies `inp.length + 1` to `blocksLoop` for `inp.length − 12` bytes -/
theorem streamOne_reach (E : Env) (fl : Flags) (hdr : StreamFlags) (inp : List UInt8) (outCap : Nat) :
    blocksLoop? E fl hdr (inp.length + 1) [] (inp.drop STREAM_HEADER_SIZE) outCap
      = some (blocksLoop E fl hdr (inp.length + 1) [] (inp.drop STREAM_HEADER_SIZE) outCap) :=
  blocksLoop_reach E fl hdr _ _ _ _ (by simp only [List.length_drop]; omega)

end XzVerif.XzDecode

namespace XzVerif.XzConcat
open XzVerif.Alone

def xzLoop? (X1 : One) (cfg : Cfg) : Nat → Bool → List UInt8 → Option DRes
  | 0, _, _ => none
  | f + 1, first, inp =>
    let r := X1 inp
    let ret1 := if r.ret = .formatError && !first then Ret.dataError else r.ret
    if ret1 ≠ .streamEnd then some { r with ret := ret1 }
    else if !cfg.concatenated then some r
    else
      let t := inp.drop r.consumed
      match padding cfg t with
      | .inl p => some (prepend r p)
      | .inr z =>
        match xzLoop? X1 cfg f false (t.drop z) with
        | none => none
        | some u => some (prepend { r with consumed := r.consumed + z } u)

theorem xzLoop_reach (X1 : One) (hX : Progress X1) (cfg : Cfg) :
    ∀ (fuel : Nat) (first : Bool) (inp : List UInt8), inp.length < fuel →
      xzLoop? X1 cfg fuel first inp = some (xzLoop X1 cfg fuel first inp) := by
  intro fuel
  induction fuel with
  | zero => intro _ _ h; omega
  | succ f ih =>
    intro first inp h
    simp only [xzLoop?, xzLoop]
    split
    · rfl
    · split
      · rfl
      · rename_i hr
        have hr := Classical.not_not.mp hr
        have hc := hX inp hr
        split
        · rfl
        · split
          · rename_i heq; simp only [heq]
          · rename_i heq; simp only [heq]
            rw [ih]
            simp only [List.length_drop]; omega

theorem xzDecode_reach (X1 : One) (hX : Progress X1) (cfg : Cfg) (inp : List UInt8) :
    xzLoop? X1 cfg (inp.length + 1) true inp = some (xzDecode X1 cfg inp) :=
  xzLoop_reach X1 hX cfg (inp.length + 1) true inp (by omega)

end XzVerif.XzConcat

namespace XzVerif.Lzip
open XzVerif.Alone

def lzipLoop? (P : Payload) (cfg : Cfg) : Nat → Bool → List UInt8 → Option DRes
  | 0, _, _ => none
  | f + 1, first, inp =>
    match lzipMember P cfg first inp with
    | .done r => some r
    | .next o c ev =>
      match lzipLoop? P cfg f false (inp.drop c) with
      | none => none
      | some r => some (prepend o c ev r)

theorem lzipLoop_reach (P : Payload) (cfg : Cfg) :
    ∀ (fuel : Nat) (first : Bool) (inp : List UInt8), inp.length < fuel →
      lzipLoop? P cfg fuel first inp = some (lzipLoop P cfg fuel first inp) := by
  intro fuel
  induction fuel with
  | zero => intro _ _ h; omega
  | succ f ih =>
    intro first inp h
    simp only [lzipLoop?, lzipLoop]
    split
    · rename_i heq; simp only [heq]
    · rename_i o c ev hm
      simp only [hm]
      have hc := lzipMember_next P cfg first inp o c ev hm
      have : 0 < inp.length := List.length_pos_iff.mpr hc.2
      rw [ih]
      simp only [List.length_drop]
      omega

theorem lzipDecode_reach (P : Payload) (cfg : Cfg) (inp : List UInt8) :
    lzipLoop? P cfg (inp.length + 1) true inp = some (lzipDecode P cfg inp) :=
  lzipLoop_reach P cfg (inp.length + 1) true inp (by omega)

end XzVerif.Lzip
