/-
  Inductive invariant of the C17 state machine (Model/XzIo.lean) and its preservation by `step`.
  The invariant is `Inv c s`: pc-independent facts (`Base`) plus one fact sheet per program counter (`PcInv`).
  Each internal dispatcher (closeSrcPhase … nextMain, nextPre) gets a lemma "facts known at its entry ⇒ Inv of its result".
-/
import XzVerif.Model.XzIo

namespace XzVerif.XzIo
variable {α : Type}

/-! ### list facts -/

theorem content_cons (p : List α) (ps : List (List α)) : content (p :: ps) = content ps ++ p := by
  simp [content]

@[simp] theorem content_nil : content ([] : List (List α)) = [] := rfl

theorem replicate_add_append (z : α) (a b : Nat) :
    List.replicate a z ++ List.replicate b z = List.replicate (a + b) z := by
  simp [List.replicate_append_replicate]

/-! ### the invariant -/

/-- the target created by this run holds the whole coder output, and it is on stable storage when syncing is on -/
def Good (c : Cfg α) (s : St α) : Prop :=
  s.fs.ownLinked = true ∧ content s.fs.own = payload c.ops ∧ (c.o.syncEff = true → s.fs.durable = true)

/-- everything written so far, the pending hole, the rest of the buffer in flight and the requests still to come
    make up the whole coder output -/
def LayoutEq (c : Cfg α) (s : St α) (ops : List (Op α)) : Prop :=
  s.destOpen = true →
    content s.fs.own ++ List.replicate (s.hole + s.pending) c.zero ++ s.wr ++ payload ops = payload c.ops

def Complete (c : Cfg α) (s : St α) : Prop := content s.fs.own = payload c.ops

structure Base (c : Cfg α) (s : St α) : Prop where
  dstName : s.fs.dstName ≠ some inoSrc
  srcName : s.fs.srcName ≠ some inoOwn
  srcLinked : s.fs.srcLinked = true
  openLinked : s.destOpen = true → s.fs.ownLinked = true ∧ s.main = true ∧ c.o.destStdout = false
  pend : 0 < s.pending → s.trySparse = true
  sparse : s.main = true → SparseOk c.zero s.ops
  preMain : s.main = false → s.destOpen = false ∧ s.trySparse = false ∧ s.success = false ∧ s.hole = 0

/-- facts at the head of the coding loop (between two requests); a plain conjunction so that it unfolds -/
def LoopSt (c : Cfg α) (s : St α) (ops : List (Op α)) : Prop :=
  s.main = true ∧ s.success = false ∧ s.wr = [] ∧ s.hole = 0 ∧
  (c.o.destStdout = false → c.o.mode ≠ .test → s.destOpen = true) ∧ LayoutEq c s ops ∧ SparseOk c.zero ops

namespace LoopSt
variable {c : Cfg α} {s : St α} {ops : List (Op α)}
theorem main (l : LoopSt c s ops) : s.main = true := l.1
theorem nosucc (l : LoopSt c s ops) : s.success = false := l.2.1
theorem wr (l : LoopSt c s ops) : s.wr = [] := l.2.2.1
theorem hole (l : LoopSt c s ops) : s.hole = 0 := l.2.2.2.1
theorem dest (l : LoopSt c s ops) : c.o.destStdout = false → c.o.mode ≠ .test → s.destOpen = true := l.2.2.2.2.1
theorem layout (l : LoopSt c s ops) : LayoutEq c s ops := l.2.2.2.2.2.1
theorem sparse (l : LoopSt c s ops) : SparseOk c.zero ops := l.2.2.2.2.2.2
end LoopSt

def PcInv (c : Cfg α) (s : St α) : Prop :=
  match s.pc with
  | .openSrc | .fstatSrc => s.main = false ∧ s.wr = [] ∧ s.pending = 0
  | .closeSrcErr => s.success = false
  | .openDir | .unlinkForce | .openDest =>
      s.main = true ∧ s.destOpen = false ∧ s.trySparse = false ∧ s.success = false ∧ s.pending = 0 ∧ s.hole = 0 ∧
      s.wr = [] ∧ s.ops = c.ops ∧ c.o.destStdout = false ∧ c.o.mode ≠ .test
  | .closeDirErr => s.success = false ∧ s.destOpen = false
  | .fstatDest | .lseekOut =>
      s.main = true ∧ s.trySparse = false ∧ s.success = false ∧ s.pending = 0 ∧ s.hole = 0 ∧ s.wr = [] ∧ s.ops = c.ops ∧
      c.o.mode ≠ .test ∧ (c.o.destStdout = false → s.destOpen = true ∧ s.fs.own = [])
  | .read | .readPoll | .fixPos =>
      (s.main = false → s.wr = [] ∧ s.pending = 0) ∧ (s.main = true → LoopSt c s s.ops)
  | .write | .writePoll =>
      s.main = true ∧ s.pending = 0 ∧ (c.o.destStdout = false → c.o.mode ≠ .test → s.destOpen = true) ∧ LayoutEq c s s.ops ∧
      (s.success = true → s.ops = [])
  | .seekHole =>
      s.main = true ∧ s.success = false ∧ (c.o.destStdout = false → c.o.mode ≠ .test → s.destOpen = true) ∧ LayoutEq c s s.ops
  | .tailSeek =>
      s.main = true ∧ s.success = true ∧ s.ops = [] ∧ s.wr = [] ∧ 0 < s.pending ∧
      (c.o.destStdout = false → c.o.mode ≠ .test → s.destOpen = true) ∧ LayoutEq c s []
  | .fchownUid | .fchownGid | .fchmod | .futimens =>
      s.success = true ∧ s.destOpen = true ∧ Complete c s
  | .fsyncFile => s.success = true ∧ s.destOpen = true ∧ Complete c s ∧ c.o.syncEff = true
  | .fsyncDir => s.success = true ∧ s.destOpen = true ∧ Complete c s ∧ s.fs.ownSynced = true ∧ c.o.syncEff = true
  | .closeDir | .closeDest =>
      s.destOpen = true ∧ (s.success = true → Complete c s ∧ (c.o.syncEff = true → s.fs.durable = true))
  | .statDest | .unlinkDest => s.success = false ∧ s.destOpen = false
  | .closeSrc => s.destOpen = false ∧ c.o.stdin = false ∧
      (s.success = true → c.o.destStdout = false → c.o.mode ≠ .test → Good c s)
  | .statSrc | .unlinkSrc => s.success = true ∧ c.o.keepEff = false ∧ c.o.stdin = false ∧ s.destOpen = false ∧ Good c s
  | .done => s.success = true → c.o.destStdout = false → c.o.mode ≠ .test → Good c s

structure Inv (c : Cfg α) (s : St α) : Prop where
  dstName : s.fs.dstName ≠ some inoSrc
  srcName : s.fs.srcName ≠ some inoOwn
  srcGone : s.fs.srcLinked = false → s.pc = .done ∧ s.success = true ∧ c.o.keepEff = false ∧ c.o.stdin = false ∧ Good c s
  openLinked : s.destOpen = true → s.fs.ownLinked = true ∧ s.main = true ∧ c.o.destStdout = false
  pend : 0 < s.pending → s.trySparse = true
  sparse : s.main = true → SparseOk c.zero s.ops
  preMain : s.main = false → s.destOpen = false ∧ s.trySparse = false ∧ s.success = false ∧ s.hole = 0
  pcinv : PcInv c s

theorem Base.toInv {c : Cfg α} {s : St α} (b : Base c s) (h : PcInv c s) : Inv c s :=
  ⟨b.dstName, b.srcName, by simp [b.srcLinked], b.openLinked, b.pend, b.sparse, b.preMain, h⟩

theorem Inv.toBase {c : Cfg α} {s : St α} (i : Inv c s) (h : s.fs.srcLinked = true) : Base c s :=
  ⟨i.dstName, i.srcName, h, i.openLinked, i.pend, i.sparse, i.preMain⟩

/-- options: a source that may be removed goes to a file target -/
theorem fileDest_of_noKeep {o : Opts} (hk : o.keepEff = false) (hs : o.stdin = false) :
    o.destStdout = false ∧ o.mode ≠ .test := by
  simp [Opts.keepEff, Opts.toStdout, Opts.destStdout] at *
  obtain ⟨h1, h2, h3⟩ := hk
  refine ⟨⟨⟨h2, ?_⟩, hs⟩, ?_⟩ <;> simpa using h3

/-! ### io_close dispatchers -/

theorem inv_closeSrcPhase {c : Cfg α} {s : St α} (b : Base c s) (hd : s.destOpen = false)
    (hg : s.success = true → c.o.destStdout = false → c.o.mode ≠ .test → Good c s) :
    Inv c (closeSrcPhase c s) := by
  unfold closeSrcPhase
  split
  · exact Base.toInv ⟨b.dstName, b.srcName, b.srcLinked, b.openLinked, b.pend, b.sparse, b.preMain⟩
      (by simp only [PcInv]; exact hg)
  · rename_i h
    simp at h
    refine Base.toInv ⟨b.dstName, b.srcName, b.srcLinked, b.openLinked, b.pend, b.sparse, b.preMain⟩ ?_
    simp only [PcInv]
    exact ⟨hd, h.1, hg⟩

theorem inv_closeDestPhase {c : Cfg α} {s : St α} (b : Base c s)
    (h1 : s.destOpen = false → s.success = true → c.o.destStdout = false → c.o.mode ≠ .test → Good c s)
    (h2 : s.destOpen = true → s.success = true → Complete c s ∧ (c.o.syncEff = true → s.fs.durable = true)) :
    Inv c (closeDestPhase c s) := by
  unfold closeDestPhase
  split
  · rename_i h
    simp at h
    exact inv_closeSrcPhase b h (h1 h)
  · rename_i h
    simp at h
    split <;>
    · refine Base.toInv ⟨b.dstName, b.srcName, b.srcLinked, b.openLinked, b.pend, b.sparse, b.preMain⟩ ?_
      simp only [PcInv]
      exact ⟨h, h2 h⟩

/-- a successful run without a file target never removes its source -/
theorem keep_of_stdout {o : Opts} (h : o.destStdout = true ∨ o.mode = .test) : o.keepEff = true ∨ o.stdin = true := by
  simp [Opts.keepEff, Opts.toStdout, Opts.destStdout] at *
  rcases h with (h | h) | h
  · exact Or.inl (Or.inr h)
  · exact Or.inr h
  · exact Or.inl (Or.inr (Or.inr h))

theorem inv_closeBlock {c : Cfg α} {s : St α} (b : Base c s)
    (hd : s.success = true → c.o.destStdout = false → c.o.mode ≠ .test → s.destOpen = true)
    (hc : s.success = true → s.destOpen = true → Complete c s) :
    Inv c (closeBlock c s) := by
  unfold closeBlock
  split
  · rename_i h
    simp at h
    refine Base.toInv ⟨b.dstName, b.srcName, b.srcLinked, b.openLinked, b.pend, b.sparse, b.preMain⟩ ?_
    simp only [PcInv]
    exact ⟨h.1, h.2, hc h.1 h.2⟩
  · rename_i h
    simp at h
    have b' : Base c { s with blk := s.blk + 1 } :=
      ⟨b.dstName, b.srcName, b.srcLinked, b.openLinked, b.pend, b.sparse, b.preMain⟩
    apply inv_closeDestPhase b'
    · intro hdo hs h1 h2
      have := hd hs h1 h2
      have hdo' : s.destOpen = false := hdo
      simp [hdo'] at this
    · intro hdo hs
      have hdo' : s.destOpen = true := hdo
      exact absurd hdo' (by simpa using h hs)

theorem inv_ioFail {c : Cfg α} {s : St α} (b : Base c s) : Inv c (ioFail c s) := by
  unfold ioFail
  apply inv_closeBlock
  · exact ⟨b.dstName, b.srcName, b.srcLinked, b.openLinked, b.pend, by simp [SparseOk], by
      intro h; have := b.preMain h; simp_all⟩
  · simp
  · simp


theorem Base.congr {c : Cfg α} {s s' : St α} (b : Base c s)
    (h1 : s'.fs.dstName = s.fs.dstName) (h2 : s'.fs.srcName = s.fs.srcName) (h3 : s'.fs.srcLinked = s.fs.srcLinked)
    (h4 : s'.destOpen = s.destOpen) (h5 : s'.fs.ownLinked = s.fs.ownLinked) (h6 : s'.main = s.main)
    (h7 : s'.pending = s.pending) (h8 : s'.trySparse = s.trySparse) (h9 : s'.success = s.success)
    (h10 : s'.hole = s.hole) (hs : s'.main = true → SparseOk c.zero s'.ops) : Base c s' := by
  refine ⟨?_, ?_, ?_, ?_, ?_, hs, ?_⟩
  · rw [h1]; exact b.dstName
  · rw [h2]; exact b.srcName
  · rw [h3]; exact b.srcLinked
  · rw [h4, h5, h6]; exact b.openLinked
  · rw [h7, h8]; exact b.pend
  · rw [h6, h4, h8, h9, h10]; exact b.preMain

theorem test_destStdout {o : Opts} (h : o.mode = .test) : o.destStdout = true := by
  simp [Opts.destStdout, Opts.toStdout, h]

theorem inv_ioClose {c : Cfg α} {s : St α} (b : Base c s) (hs : s.success = true) (hm : s.main = true)
    (ho : s.ops = []) (hw : s.wr = []) (hh : s.hole = 0)
    (hd : c.o.destStdout = false → c.o.mode ≠ .test → s.destOpen = true) (hl : LayoutEq c s []) :
    Inv c (ioClose c s) := by
  unfold ioClose
  split
  · rename_i h
    simp at h
    refine Base.toInv (b.congr rfl rfl rfl rfl rfl rfl rfl rfl rfl rfl (by intro; simp [ho, SparseOk])) ?_
    simp only [PcInv]
    exact ⟨hm, hs, ho, hw, h.2, hd, hl⟩
  · rename_i h
    simp [hs] at h
    apply inv_closeBlock b (fun _ => hd)
    intro _ hdo
    have hp : s.pending = 0 := by
      rcases Nat.eq_zero_or_pos s.pending with h0 | h0
      · exact h0
      · have := h (b.pend h0); omega
    have := hl hdo
    simpa [Complete, hp, hh, hw, payload] using this

theorem inv_finish {c : Cfg α} {s : St α} (b : Base c s) (l : LoopSt c s []) (ho : s.ops = []) :
    Inv c (finish c s) := by
  unfold finish
  split
  · apply inv_ioClose
    · exact ⟨b.dstName, b.srcName, b.srcLinked, b.openLinked, b.pend, b.sparse, by intro h; simp [l.main] at h⟩
    · rfl
    · exact l.main
    · exact ho
    · exact l.wr
    · exact l.hole
    · exact l.dest
    · exact l.layout
  · apply inv_ioFail
    exact b.congr rfl rfl rfl rfl rfl rfl rfl rfl rfl rfl b.sparse

theorem inv_nextMain {c : Cfg α} (ops : List (Op α)) (s : St α) (b : Base c s) (l : LoopSt c s ops) :
    Inv c (nextMain c ops s) := by
  induction ops generalizing s with
  | nil =>
    unfold nextMain
    apply inv_finish
    · exact b.congr rfl rfl rfl rfl rfl rfl rfl rfl rfl rfl (by intro; simp [SparseOk])
    · exact ⟨l.main, l.nosucc, l.wr, l.hole, l.dest, l.layout, l.sparse⟩
    · rfl
  | cons op r ih =>
    cases op with
    | tick =>
      unfold nextMain
      split
      · exact inv_ioFail b
      · exact ih s b ⟨l.main, l.nosucc, l.wr, l.hole, l.dest, by simpa [LayoutEq, payload] using l.layout,
          by simpa [SparseOk] using l.sparse⟩
    | read n =>
      have l' : LoopSt c s r := ⟨l.main, l.nosucc, l.wr, l.hole, l.dest, by simpa [LayoutEq, payload] using l.layout,
          by simpa [SparseOk] using l.sparse⟩
      unfold nextMain
      split
      · exact ih s b l'
      · refine Base.toInv (b.congr rfl rfl rfl rfl rfl rfl rfl rfl rfl rfl (fun _ => l'.sparse)) ?_
        simp only [PcInv]
        refine ⟨by simp [l.main], fun _ => ?_⟩
        exact ⟨l'.main, l'.nosucc, l'.wr, l'.hole, l'.dest, l'.layout, l'.sparse⟩
    | fixPos n =>
      have l' : LoopSt c s r := ⟨l.main, l.nosucc, l.wr, l.hole, l.dest, by simpa [LayoutEq, payload] using l.layout,
          by simpa [SparseOk] using l.sparse⟩
      unfold nextMain
      split
      · exact ih s b l'
      · refine Base.toInv (b.congr rfl rfl rfl rfl rfl rfl rfl rfl rfl rfl (fun _ => l'.sparse)) ?_
        simp only [PcInv]
        refine ⟨by simp [l.main], fun _ => ?_⟩
        exact ⟨l'.main, l'.nosucc, l'.wr, l'.hole, l'.dest, l'.layout, l'.sparse⟩
    | write d sp =>
      have hsp : SparseOk c.zero r := (by simpa [SparseOk] using l.sparse : _ ∧ _).2
      have hd0 : sp = true → d = List.replicate d.length c.zero := (by simpa [SparseOk] using l.sparse : _ ∧ _).1
      unfold nextMain
      split
      · -- test mode: nothing is written and there is no target
        rename_i ht
        have ht : c.o.mode = .test := by simpa using ht
        have hno : s.destOpen = false := by
          cases hdo : s.destOpen with
          | false => rfl
          | true => have := (b.openLinked hdo).2.2; simp [test_destStdout ht] at this
        exact ih s b ⟨l.main, l.nosucc, l.wr, l.hole, l.dest, by simp [LayoutEq, hno], hsp⟩
      · split
        · -- sparse block: only counted
          rename_i hts
          simp at hts
          obtain ⟨n, rfl⟩ : ∃ n, d = List.replicate n c.zero := ⟨_, hd0 hts.2⟩
          refine ih _ ⟨b.dstName, b.srcName, b.srcLinked, b.openLinked, fun _ => hts.1, b.sparse, b.preMain⟩
            ⟨l.main, l.nosucc, l.wr, l.hole, l.dest, ?_, hsp⟩
          intro hdo
          have h := l.layout hdo
          simp [payload, l.wr] at h ⊢
          rw [← h]
          simp [List.replicate_append_replicate, ← List.append_assoc, Nat.add_assoc]
        · split
          · rename_i he
            have he : d = [] := by simpa using he
            subst he
            exact ih s b ⟨l.main, l.nosucc, l.wr, l.hole, l.dest, by simpa [LayoutEq, payload] using l.layout, hsp⟩
          · split
            · refine Base.toInv (b.congr rfl rfl rfl rfl rfl rfl rfl rfl rfl rfl (fun _ => hsp)) ?_
              simp only [PcInv]
              refine ⟨l.main, l.nosucc, l.dest, ?_⟩
              intro hdo
              have h := l.layout hdo
              simpa [payload, l.wr, List.append_assoc] using h
            · rename_i hp
              simp at hp
              have hp0 : s.pending = 0 := by
                rcases Nat.eq_zero_or_pos s.pending with h0 | h0
                · exact h0
                · have := hp (b.pend h0); omega
              refine Base.toInv (b.congr rfl rfl rfl rfl rfl rfl rfl rfl rfl rfl (fun _ => hsp)) ?_
              simp only [PcInv]
              refine ⟨l.main, hp0, l.dest, ?_, by simp [l.nosucc]⟩
              intro hdo
              have h := l.layout hdo
              simpa [payload, l.wr, List.append_assoc] using h

theorem inv_doInit {c : Cfg α} {s : St α} (hsp : SparseOk c.zero c.ops) (b : Base c s) (hm : s.main = false)
    (hw : s.wr = []) (hp : s.pending = 0) : Inv c (doInit c s) := by
  obtain ⟨hdo, hts, hsu, hh⟩ := b.preMain hm
  have b' : Base c { s with main := true, ops := c.ops } :=
    ⟨b.dstName, b.srcName, b.srcLinked, by simp [hdo], b.pend, fun _ => hsp, by simp⟩
  unfold doInit
  simp only
  split
  · exact inv_ioFail (b'.congr rfl rfl rfl rfl rfl rfl rfl rfl rfl rfl b'.sparse)
  · split
    · exact inv_ioFail b'
    · split
      · rename_i ht
        have ht : c.o.mode = .test := by simpa using ht
        exact inv_nextMain _ _ b' ⟨rfl, hsu, hw, hh, by simp [ht], by simp [LayoutEq, hdo], hsp⟩
      · rename_i ht
        have ht : c.o.mode ≠ .test := by simpa using ht
        split
        · rename_i hso
          refine Base.toInv (b'.congr rfl rfl rfl rfl rfl rfl rfl rfl rfl rfl b'.sparse) ?_
          simp only [PcInv]
          simp [hts, hsu, hp, hh, hw, ht, hso]
        · rename_i hso
          have hso : c.o.destStdout = false := by simpa using hso
          split
          · refine Base.toInv (b'.congr rfl rfl rfl rfl rfl rfl rfl rfl rfl rfl b'.sparse) ?_
            simp only [PcInv]
            simp [hts, hsu, hp, hh, hw, ht, hso, hdo]
          · split
            · refine Base.toInv (b'.congr rfl rfl rfl rfl rfl rfl rfl rfl rfl rfl b'.sparse) ?_
              simp only [PcInv]
              simp [hts, hsu, hp, hh, hw, ht, hso, hdo]
            · refine Base.toInv (b'.congr rfl rfl rfl rfl rfl rfl rfl rfl rfl rfl b'.sparse) ?_
              simp only [PcInv]
              simp [hts, hsu, hp, hh, hw, ht, hso, hdo]

theorem inv_nextPre {c : Cfg α} (hsp : SparseOk c.zero c.ops) (ops : List (Op α)) (s : St α) (b : Base c s)
    (hm : s.main = false) (hw : s.wr = []) (hp : s.pending = 0) : Inv c (nextPre c ops s) := by
  induction ops generalizing s with
  | nil => unfold nextPre; exact inv_doInit hsp b hm hw hp
  | cons op r ih =>
    cases op with
    | read n =>
      unfold nextPre
      split
      · exact ih s b hm hw hp
      · refine Base.toInv (b.congr rfl rfl rfl rfl rfl rfl rfl rfl rfl rfl (by simp [hm])) ?_
        simp only [PcInv]
        simp [hm, hw, hp]
    | tick => unfold nextPre; exact ih s b hm hw hp
    | write d sp => unfold nextPre; exact ih s b hm hw hp
    | fixPos n => unfold nextPre; exact ih s b hm hw hp

theorem inv_continueLoop {c : Cfg α} {s : St α} (hsp : SparseOk c.zero c.ops) (b : Base c s)
    (h0 : s.main = false → s.wr = [] ∧ s.pending = 0) (h1 : s.main = true → LoopSt c s s.ops) :
    Inv c (continueLoop c s) := by
  unfold continueLoop
  split
  · rename_i hm; exact inv_nextMain _ _ b (h1 hm)
  · rename_i hm
    have hm : s.main = false := by simpa using hm
    exact inv_nextPre hsp _ _ b hm (h0 hm).1 (h0 hm).2

end XzVerif.XzIo
