/-
  C04 `in_required_20` on the executable decoder: a walk through `Lzma.decodeSymbol` (Model/Lzma.lean) showing that the bits
  one symbol decode reads form one of the 203 shapes of `C04Sym.symbolShapes`, that the range and the input cursor evolve
  exactly as `C04Sym.runR` says for those bits, and that the probabilities used are in [31, 2017] (or the model's
  out-of-array 0). With `symbol_bound_of_shape` (Lemmas/C04Rc.lean): one symbol consumes at most 20 bytes.

  Method: a Hoare triple `TrB x pre S` over the decoding monad. `Acc s0 sh s` = "state `s` was reached from `s0` by decoding
  bits of shape `sh`, reading `s.inPos − s0.inPos` bytes, leaving `s.range`, all as `runR` computes"; `TrB x pre S` says that
  `x`, started in a state accumulated with shape `pre`, returns a value `a` in a state accumulated with a shape `sh` such
  that `S a sh`.
-/
import XzVerif.Model.Lzma
import XzVerif.Lemmas.C04Rc
import XzVerif.Lemmas.C03Hoare
import XzVerif.Lemmas.C03Rc
import XzVerif.Lemmas.C03Reps

namespace XzVerif.C04Sym
open XzVerif.RangeDec XzVerif.Lzma

/-- every slot of the probability array is in [31, 2017] -/
def PI (s : St) : Prop := ∀ i, i < s.probs.size → ProbInv (s.probs.getD i 0)

/-- `s` is reached from `s0` by decoding bits of shape `sh` -/
def Acc (s0 : St) (sh : List Kind) (s : St) : Prop :=
  PI s ∧ s0.inPos ≤ s.inPos ∧ ∃ ops, OpsOk0 ops ∧ shapeOf ops = sh ∧ runR s0.range ops = (s.range, s.inPos - s0.inPos)

theorem Acc.init (s : St) (h : PI s) : Acc s [] s := by
  refine ⟨h, Nat.le_refl _, [], ?_, rfl, ?_⟩
  · intro _ ho; cases ho
  · simp [runR]

/-- one more bit: normalisation (0 or 1 byte) followed by the range update `opR` -/
theorem Acc.snoc {s0 s s' : St} {pre : List Kind} (h : Acc s0 pre s) (op : Op) (hop : OpOk0 op)
    (hr : s'.range = opR (normR s.range).1 op) (hi : s'.inPos = s.inPos + (normR s.range).2) (hpi : PI s') :
    Acc s0 (pre ++ [op.kind]) s' := by
  obtain ⟨_, hle, ops, hok, hsh, hrun⟩ := h
  refine ⟨hpi, by omega, ops ++ [op], ?_, ?_, ?_⟩
  · intro o ho
    rcases List.mem_append.mp ho with ho | ho
    · exact hok o ho
    · rw [List.mem_singleton.mp ho]; exact hop
  · simp [shapeOf] at hsh ⊢; exact hsh
  · rw [runR_append, hrun]
    simp only [runR, Nat.add_zero]
    rw [hr, hi]
    congr 1
    omega

/-- a step that touches neither the range, nor the cursor, nor the probabilities -/
theorem Acc.frame {s0 s s' : St} {pre : List Kind} (h : Acc s0 pre s) (h1 : s'.range = s.range) (h2 : s'.inPos = s.inPos)
    (h3 : s'.probs = s.probs) : Acc s0 pre s' := by
  obtain ⟨hpi, hle, ops, hok, hsh, hrun⟩ := h
  refine ⟨?_, by omega, ops, hok, hsh, by rw [h1, h2]; exact hrun⟩
  unfold PI at *; rw [h3]; exact hpi

def TrB {α : Type} (x : M α) (pre : List Kind) (S : α → List Kind → Prop) : Prop :=
  ∀ s0 s, Acc s0 pre s → ∀ a s', x s = .ok a s' → ∃ sh, S a sh ∧ Acc s0 sh s'

theorem TrB.pure {α} (a : α) {pre : List Kind} {S : α → List Kind → Prop} (h : S a pre) : TrB (pure a : M α) pre S := by
  intro s0 s hacc b s' e
  have : (EStateM.Result.ok a s : EStateM.Result Exit St α) = .ok b s' := e
  injection this with h1 h2
  subst h1; subst h2
  exact ⟨pre, h, hacc⟩

theorem TrB.throw {α} (e : Exit) {pre : List Kind} {S : α → List Kind → Prop} : TrB (MonadExcept.throw e : M α) pre S := by
  intro s0 s _ b s' h
  have : (EStateM.Result.error e s : EStateM.Result Exit St α) = .ok b s' := h
  cases this

theorem TrB.bind {α β} {x : M α} {f : α → M β} {pre : List Kind} {S1 : α → List Kind → Prop} {S : β → List Kind → Prop}
    (hx : TrB x pre S1) (hf : ∀ a sh1, S1 a sh1 → TrB (f a) sh1 S) : TrB (x >>= f) pre S := by
  intro s0 s hacc b s' e
  have e' : EStateM.bind x f s = .ok b s' := e
  unfold EStateM.bind at e'
  cases hxs : x s with
  | ok a s1 =>
    rw [hxs] at e'
    obtain ⟨sh1, h1, hacc1⟩ := hx s0 s hacc a s1 hxs
    exact hf a sh1 h1 s0 s1 hacc1 b s' e'
  | error er s1 => rw [hxs] at e'; cases e'

theorem TrB.weaken {α} {x : M α} {pre : List Kind} {S S' : α → List Kind → Prop} (h : TrB x pre S)
    (hs : ∀ a sh, S a sh → S' a sh) : TrB x pre S' := by
  intro s0 s hacc a s' e
  obtain ⟨sh, h1, h2⟩ := h s0 s hacc a s' e
  exact ⟨sh, hs a sh h1, h2⟩

theorem TrB.read {α} (g : St → α) {pre : List Kind} {S : α → List Kind → Prop} (h : ∀ s, S (g s) pre) :
    TrB (fun s => EStateM.Result.ok (g s) s : M α) pre S := by
  intro s0 s hacc a s' e
  injection e with h1 h2
  subst h1; subst h2
  exact ⟨pre, h s, hacc⟩

theorem TrB.modify (f : St → St) {pre : List Kind} {S : PUnit → List Kind → Prop}
    (hf : ∀ s, (f s).range = s.range ∧ (f s).inPos = s.inPos ∧ (f s).probs = s.probs) (h : S PUnit.unit pre) :
    TrB (modify f : M PUnit) pre S := by
  intro s0 s hacc a s' e
  have : (EStateM.Result.ok PUnit.unit (f s) : EStateM.Result Exit St PUnit) = .ok a s' := e
  injection this with h1 h2
  subst h2
  exact ⟨pre, h, hacc.frame (hf s).1 (hf s).2.1 (hf s).2.2⟩

/-- computations that never return normally -/
def NoOk {α : Type} (x : M α) : Prop := ∀ s a s', x s ≠ .ok a s'

theorem NoOk.throw {α} (e : Exit) : NoOk (MonadExcept.throw e : M α) := by
  intro s a s' h
  have : (EStateM.Result.error e s : EStateM.Result Exit St α) = .ok a s' := h
  cases this

theorem NoOk.bind_right {α β} {x : M α} {f : α → M β} (hf : ∀ a, NoOk (f a)) : NoOk (x >>= f) := by
  intro s b s' e
  have e' : EStateM.bind x f s = .ok b s' := e
  unfold EStateM.bind at e'
  cases hxs : x s with
  | ok a s1 => rw [hxs] at e'; exact hf a s1 b s' e'
  | error er s1 => rw [hxs] at e'; cases e'

theorem TrB.ofNoOk {α} {x : M α} {pre : List Kind} {S : α → List Kind → Prop} (h : NoOk x) : TrB x pre S :=
  fun _ s _ a s' e => (h s a s' e).elim

/-! ### range-decoder level -/

theorem rcNormalize_ok (s : St) (u : Unit) (s1 : St) (h : rcNormalize s = .ok u s1) :
    s1.range = (normR s.range).1 ∧ s1.inPos = s.inPos + (normR s.range).2 ∧ s1.probs = s.probs := by
  unfold rcNormalize at h
  unfold normR
  split at h
  · next hlt =>
    split at h
    · injection h with _ h2
      subst h2
      rw [if_pos hlt]
      exact ⟨rfl, rfl, rfl⟩
    · cases h
  · next hge =>
    injection h with _ h2
    subst h2
    rw [if_neg hge]
    exact ⟨rfl, rfl, rfl⟩

theorem getD_setIfInBounds (a : Array Nat) (i j v : Nat) (hj : j < a.size) :
    (a.setIfInBounds i v).getD j 0 = if i = j then v else a.getD j 0 := by
  simp [Array.getD, Array.getElem_setIfInBounds, hj]

theorem pi_setProb (s : St) (idx v : Nat) (h : PI s) (hv : idx < s.probs.size → ProbInv v) (r c : Nat) :
    PI (({ s with range := r, code := c } : St).setProb idx v) := by
  unfold PI St.setProb at *
  simp only [Array.size_setIfInBounds]
  intro i hi
  rw [getD_setIfInBounds _ _ _ _ hi]
  by_cases he : idx = i
  · rw [if_pos he]; subst he; exact hv hi
  · rw [if_neg he]; exact h i hi

theorem probInv_bitCore (rc : Rc) (p : Nat) (hp : ProbInv p) : ProbInv (bitCore rc p).2.2 := by
  unfold bitCore
  dsimp only
  split
  · exact probInv_update0 hp
  · exact probInv_update1 hp

/-- `rc_bit`: one probability bit -/
theorem trb_rcBit (idx : Nat) (pre : List Kind) : TrB (rcBit idx) pre (fun b sh => sh = pre ++ [P] ∧ b ≤ 1) := by
  intro s0 s hacc b s' e
  unfold rcBit at e
  cases hn : rcNormalize s with
  | error er s1 => rw [hn] at e; cases e
  | ok u s1 =>
    rw [hn] at e
    simp only [] at e
    injection e with h1 h2
    obtain ⟨n1, n2, n3⟩ := rcNormalize_ok s u s1 hn
    have hpi1 : PI s1 := by unfold PI; rw [n3]; exact hacc.1
    refine ⟨pre ++ [P], ⟨rfl, by rw [← h1]; exact bitCore_bit_le _ _⟩, ?_⟩
    let p := s1.probs.getD idx 0
    have hacc' := hacc.snoc (s' := s')
      { kind := .prob, p := p, bit := (bitCore (Rc.mk s1.range s1.code) p).1 == 1 } ?_ ?_ ?_ ?_
    · exact hacc'
    · -- the probability used
      intro _
      by_cases hidx : idx < s1.probs.size
      · exact Or.inl (hpi1 idx hidx)
      · right
        have hp0 : p = 0 := by
          show s1.probs.getD idx 0 = 0
          simp [Array.getD, hidx]
        refine ⟨hp0, ?_⟩
        show ((bitCore (Rc.mk s1.range s1.code) p).1 == 1) = true
        rw [hp0]
        unfold bitCore rcBound
        simp
    · rw [← h2, ← n1]
      show (bitCore (Rc.mk s1.range s1.code) p).2.1.range = _
      rw [bitCore_range]
    · rw [← h2, ← n2]; rfl
    · rw [← h2]
      refine pi_setProb s1 idx _ hpi1 (fun hidx => ?_) _ _
      exact probInv_bitCore _ _ (hpi1 idx hidx)

theorem replicate_snoc (n : Nat) (k : Kind) (pre : List Kind) : pre ++ [k] ++ List.replicate n k = pre ++ List.replicate (n + 1) k := by
  rw [List.append_assoc]; rfl

/-- state after the normalisation that precedes a bit -/
def AccN (s0 : St) (pre : List Kind) (s1 : St) : Prop :=
  ∃ s, Acc s0 pre s ∧ s1.range = (normR s.range).1 ∧ s1.inPos = s.inPos + (normR s.range).2 ∧ s1.probs = s.probs

theorem tri_normalize (s0 : St) (pre : List Kind) : Tri (Acc s0 pre) rcNormalize (fun _ s1 => AccN s0 pre s1) :=
  fun s hacc u s1 hn => ⟨s, hacc, rcNormalize_ok s u s1 hn⟩

/-- the direct-bit step, for an abstract core (`directCore` must not be unfolded by the defeq checker: its
    `/ 2147483648` sends `whnf` into the literal) -/
theorem tri_coreStep (core : Rc → Nat × Rc) (hcore : ∀ rc, (core rc).2.range = opR rc.range { kind := .direct })
    (s0 : St) (pre : List Kind) :
    Tri (AccN s0 pre)
      (fun s : St =>
        let r := core (Rc.mk s.range s.code)
        EStateM.Result.ok r.1 { s with range := r.2.range, code := r.2.code } : M Nat)
      (fun _ s2 => Acc s0 (pre ++ [D]) s2) := by
  intro s1 hp b s2 e
  obtain ⟨s, hacc, n1, n2, n3⟩ := hp
  injection e with _ h2
  refine hacc.snoc { kind := .direct } (fun hk => by cases hk) ?_ ?_ ?_
  · have hd := hcore (Rc.mk s1.range s1.code)
    rw [← h2, ← n1]
    exact hd
  · rw [← h2, ← n2]
  · rw [← h2]; unfold PI; show ∀ i, i < s1.probs.size → _; rw [n3]; exact hacc.1

/-- `rc_direct`: `n` direct bits -/
theorem trb_rcDirect : ∀ (n dest : Nat) (pre : List Kind),
    TrB (rcDirect n dest) pre (fun _ sh => sh = pre ++ List.replicate n D)
  | 0, dest, pre => by
    unfold rcDirect
    exact TrB.pure _ (by simp)
  | n + 1, dest, pre => by
    unfold rcDirect
    intro s0
    refine Tri.bind (tri_normalize s0 pre) (fun _ => Tri.bind (tri_coreStep directCore directCore_range s0 pre) (fun b => ?_))
    refine Tri.weaken (trb_rcDirect n _ (pre ++ [D]) s0) (fun _ h => h) (fun _ s' h => ?_)
    obtain ⟨sh, hsh, hacc2⟩ := h
    exact ⟨sh, by rw [hsh, replicate_snoc], hacc2⟩

/-- normal bit tree of `n` levels: `n` probability bits, result in `[sym·2^n, (sym+1)·2^n)` -/
theorem trb_bittree (base : Nat) : ∀ (n sym : Nat) (pre : List Kind),
    TrB (bittree base n sym) pre (fun r sh => sh = pre ++ List.replicate n P ∧ sym * 2 ^ n ≤ r ∧ r < (sym + 1) * 2 ^ n)
  | 0, sym, pre => by
    unfold bittree
    exact TrB.pure _ ⟨by simp, by omega, by omega⟩
  | n + 1, sym, pre => by
    unfold bittree
    refine TrB.bind (trb_rcBit _ pre) (fun b sh1 h1 => ?_)
    obtain ⟨rfl, hb⟩ := h1
    refine (trb_bittree base n (sym * 2 + b) _).weaken (fun r sh h => ?_)
    obtain ⟨hs, h2, h3⟩ := h
    refine ⟨by rw [hs, replicate_snoc], ?_, ?_⟩
    · calc sym * 2 ^ (n + 1) = (sym * 2) * 2 ^ n := by rw [Nat.pow_succ]; ring
        _ ≤ (sym * 2 + b) * 2 ^ n := Nat.mul_le_mul_right _ (by omega)
        _ ≤ r := h2
    · calc r < (sym * 2 + b + 1) * 2 ^ n := h3
        _ ≤ ((sym + 1) * 2) * 2 ^ n := Nat.mul_le_mul_right _ (by omega)
        _ = (sym + 1) * 2 ^ (n + 1) := by rw [Nat.pow_succ]; ring

theorem trb_litMatched (base : Nat) : ∀ (n sym offset len : Nat) (pre : List Kind),
    TrB (litMatched base n sym offset len) pre (fun _ sh => sh = pre ++ List.replicate n P)
  | 0, sym, _, _, pre => by
    unfold litMatched
    exact TrB.pure _ (by simp)
  | n + 1, sym, offset, len, pre => by
    unfold litMatched
    refine TrB.bind (trb_rcBit _ pre) (fun b sh1 h1 => ?_)
    obtain ⟨rfl, _⟩ := h1
    exact (trb_litMatched base n _ _ _ _).weaken (fun r sh h => by rw [h, replicate_snoc])

theorem trb_revBittree (base : Nat) : ∀ (n sym offset acc : Nat) (pre : List Kind),
    TrB (revBittree base n sym offset acc) pre (fun _ sh => sh = pre ++ List.replicate n P)
  | 0, _, _, acc, pre => by
    unfold revBittree
    exact TrB.pure _ (by simp)
  | n + 1, sym, offset, acc, pre => by
    unfold revBittree
    refine TrB.bind (trb_rcBit _ pre) (fun b sh1 h1 => ?_)
    obtain ⟨rfl, _⟩ := h1
    exact (trb_revBittree base n _ _ _ _).weaken (fun r sh h => by rw [h, replicate_snoc])

theorem trb_revAlign : ∀ (n sym offset : Nat) (pre : List Kind),
    TrB (revAlign n sym offset) pre (fun _ sh => sh = pre ++ List.replicate n P)
  | 0, sym, _, pre => by
    unfold revAlign
    exact TrB.pure _ (by simp)
  | n + 1, sym, offset, pre => by
    unfold revAlign
    refine TrB.bind (trb_rcBit _ pre) (fun b sh1 h1 => ?_)
    obtain ⟨rfl, _⟩ := h1
    exact (trb_revAlign n _ _ _).weaken (fun r sh h => by rw [h, replicate_snoc])

/-- `len_decode`: choice [+ choice2] + a bit tree of 3, 3 or 8 bits -/
theorem trb_lenDecode (lenBase posState : Nat) (pre : List Kind) :
    TrB (lenDecode lenBase posState) pre (fun _ sh => ∃ l, l ∈ lenShapes ∧ sh = pre ++ l) := by
  unfold lenDecode
  refine TrB.bind (trb_rcBit _ pre) (fun c sh1 h1 => ?_)
  obtain ⟨rfl, _⟩ := h1
  split
  · refine TrB.bind (trb_bittree _ 3 1 _) (fun s sh2 h2 => TrB.pure _ ?_)
    refine ⟨List.replicate 4 P, by simp [lenShapes], ?_⟩
    rw [h2.1, List.append_assoc]; rfl
  · refine TrB.bind (trb_rcBit _ _) (fun c2 sh2 h2 => ?_)
    obtain ⟨rfl, _⟩ := h2
    split
    · refine TrB.bind (trb_bittree _ 3 1 _) (fun s sh3 h3 => TrB.pure _ ?_)
      refine ⟨List.replicate 5 P, by simp [lenShapes], ?_⟩
      rw [h3.1, List.append_assoc, List.append_assoc]; rfl
    · refine TrB.bind (trb_bittree _ 8 1 _) (fun s sh3 h3 => TrB.pure _ ?_)
      refine ⟨List.replicate 10 P, by simp [lenShapes], ?_⟩
      rw [h3.1, List.append_assoc, List.append_assoc]; rfl

/-- the distance of a simple match: 6 dist_slot bits + the tail of that slot -/
theorem trb_distDecode (len : Nat) (pre : List Kind) :
    TrB (distDecode len) pre (fun _ sh => ∃ d, d ∈ distShapes ∧ sh = pre ++ d) := by
  unfold distDecode
  refine TrB.bind (trb_bittree _ 6 1 pre) (fun slot1 sh1 h1 => ?_)
  obtain ⟨rfl, hlo, hhi⟩ := h1
  have hslot : slot1 - DIST_SLOTS < 64 := by simp only [DIST_SLOTS] at *; omega
  have hmem : ∀ tail, tail = distTail (slot1 - DIST_SLOTS) →
      ∃ d, d ∈ distShapes ∧ pre ++ List.replicate 6 P ++ tail = pre ++ d := by
    intro tail ht
    refine ⟨List.replicate 6 P ++ distTail (slot1 - DIST_SLOTS), ?_, by rw [ht, List.append_assoc]⟩
    unfold distShapes
    exact List.mem_map.mpr ⟨slot1 - DIST_SLOTS, List.mem_range.mpr hslot, rfl⟩
  simp only []
  split
  · next h4 =>
    refine TrB.pure _ ?_
    have := hmem [] (by unfold distTail; simp only [DIST_MODEL_START] at h4; simp [h4])
    simpa using this
  · next h4 =>
    split
    · next h14 =>
      refine (trb_revBittree _ _ _ _ _ _).weaken (fun r sh h => ?_)
      rw [h]
      exact hmem _ (by unfold distTail; simp only [DIST_MODEL_START, DIST_MODEL_END] at h4 h14; simp [h4, h14])
    · next h14 =>
      refine TrB.bind (trb_rcDirect _ _ _) (fun r sh2 h2 => ?_)
      subst h2
      refine TrB.bind (trb_revAlign 4 0 1 _) (fun a sh3 h3 => TrB.pure _ ?_)
      subst h3
      have := hmem (List.replicate ((slot1 - DIST_SLOTS) >>> 1 - 1 - ALIGN_BITS) D ++ List.replicate 4 P)
        (by unfold distTail; simp only [DIST_MODEL_START, DIST_MODEL_END] at h4 h14; simp [h4, h14])
      rw [List.append_assoc] at this ⊢
      rw [List.append_assoc]
      simpa using this

/-! ### membership in `symbolShapes` -/

theorem mem_lit : List.replicate 9 P ∈ symbolShapes := by
  unfold symbolShapes
  simp

theorem mem_match {l d : List Kind} (hl : l ∈ lenShapes) (hd : d ∈ distShapes) : [P, P] ++ l ++ d ∈ symbolShapes := by
  unfold symbolShapes
  refine List.mem_append_left _ (List.mem_append_left _ (List.mem_append_right _ ?_))
  exact List.mem_flatMap.mpr ⟨l, hl, List.mem_map.mpr ⟨d, hd, rfl⟩⟩

theorem mem_short : List.replicate 4 P ∈ symbolShapes := by
  unfold symbolShapes
  exact List.mem_append_left _ (List.mem_append_right _ (List.mem_singleton.mpr rfl))

theorem mem_long4 {l : List Kind} (hl : l ∈ lenShapes) : List.replicate 4 P ++ l ∈ symbolShapes := by
  unfold symbolShapes
  refine List.mem_append_right _ (List.mem_flatMap.mpr ⟨l, hl, ?_⟩)
  simp

theorem mem_long5 {l : List Kind} (hl : l ∈ lenShapes) : List.replicate 5 P ++ l ∈ symbolShapes := by
  unfold symbolShapes
  refine List.mem_append_right _ (List.mem_flatMap.mpr ⟨l, hl, ?_⟩)
  simp

/-! ### one symbol -/

/-- ONE SYMBOL of the executable decoder: the bits it decodes form one of the shapes of `symbolShapes`. -/
theorem trb_decodeSymbol (ev : Bool) : TrB (decodeSymbol ev) [] (fun _ sh => sh ∈ symbolShapes) := by
  have md : ∀ (f : St → St) (pre : List Kind), (∀ s, (f s).range = s.range ∧ (f s).inPos = s.inPos ∧ (f s).probs = s.probs) →
      TrB (modify f : M PUnit) pre (fun _ sh => sh = pre) := fun f pre hf => TrB.modify f hf rfl
  have rd : ∀ {α} (g : St → α) (pre : List Kind), TrB (fun s => EStateM.Result.ok (g s) s : M α) pre (fun _ sh => sh = pre) :=
    fun g pre => TrB.read g (fun _ => rfl)
  unfold decodeSymbol
  refine TrB.bind (rd _ _) (fun t sh0 h0 => ?_)
  subst h0
  obtain ⟨state, posState, full⟩ := t
  simp only []
  refine TrB.bind (trb_rcBit _ _) (fun isMatch sh1 h1 => ?_)
  obtain ⟨rfl, _⟩ := h1
  split
  · -- literal
    refine TrB.bind (rd _ _) (fun base sh h => ?_)
    subst h
    split
    · refine TrB.bind (md _ _ (fun s => ⟨rfl, rfl, rfl⟩)) (fun _ sh h => ?_)
      subst h
      refine TrB.bind (trb_bittree _ 8 1 _) (fun sym sh h => TrB.pure _ ?_)
      rw [h.1]; exact mem_lit
    · refine TrB.bind (md _ _ (fun s => ⟨rfl, rfl, rfl⟩)) (fun _ sh h => ?_)
      subst h
      refine TrB.bind (rd _ _) (fun mb sh h => ?_)
      subst h
      refine TrB.bind (trb_litMatched _ 8 1 _ _ _) (fun sym sh h => TrB.pure _ ?_)
      rw [h]; exact mem_lit
  · refine TrB.bind (trb_rcBit _ _) (fun isRep sh2 h2 => ?_)
    obtain ⟨rfl, _⟩ := h2
    split
    · -- simple match
      refine TrB.bind (md _ _ (fun s => ⟨rfl, rfl, rfl⟩)) (fun _ sh h => ?_)
      subst h
      refine TrB.bind (trb_lenDecode _ _ _) (fun len sh h => ?_)
      obtain ⟨l, hl, rfl⟩ := h
      refine TrB.bind (trb_distDecode _ _) (fun d sh h => ?_)
      obtain ⟨dd, hd, rfl⟩ := h
      refine TrB.bind (md _ _ (fun s => ⟨rfl, rfl, rfl⟩)) (fun _ sh h => ?_)
      subst h
      split
      · -- end marker: never returns normally
        split
        · exact TrB.bind (S1 := fun _ _ => False) (TrB.throw _) (fun _ _ h => h.elim)
        · refine TrB.ofNoOk (NoOk.bind_right (fun _ => NoOk.bind_right (fun fin => ?_)))
          split <;> exact NoOk.throw _
      · split
        · exact TrB.throw _
        · exact TrB.pure _ (mem_match hl hd)
    · -- repeated match
      split
      · exact TrB.throw _
      · refine TrB.bind (trb_rcBit _ _) (fun isRep0 sh3 h3 => ?_)
        obtain ⟨rfl, _⟩ := h3
        refine TrB.bind (S1 := fun (isShort : Bool) sh =>
            (isShort = true ∧ sh = List.replicate 4 P) ∨ (isShort = false ∧ (sh = List.replicate 4 P ∨ sh = List.replicate 5 P)))
          ?_ (fun isShort sh h => ?_)
        · split
          · refine TrB.bind (trb_rcBit _ _) (fun isLong sh4 h4 => TrB.pure _ ?_)
            obtain ⟨rfl, _⟩ := h4
            cases hb : (isLong == 0)
            · exact Or.inr ⟨rfl, Or.inl rfl⟩
            · exact Or.inl ⟨rfl, rfl⟩
          · refine TrB.bind (trb_rcBit _ _) (fun isRep1 sh4 h4 => ?_)
            obtain ⟨rfl, _⟩ := h4
            split
            · refine TrB.bind (md _ _ (fun s => ⟨rfl, rfl, rfl⟩)) (fun _ sh h => TrB.pure _ ?_)
              subst h
              exact Or.inr ⟨rfl, Or.inl rfl⟩
            · refine TrB.bind (trb_rcBit _ _) (fun isRep2 sh5 h5 => ?_)
              obtain ⟨rfl, _⟩ := h5
              split
              · refine TrB.bind (md _ _ (fun s => ⟨rfl, rfl, rfl⟩)) (fun _ sh h => TrB.pure _ ?_)
                subst h
                exact Or.inr ⟨rfl, Or.inr rfl⟩
              · refine TrB.bind (md _ _ (fun s => ⟨rfl, rfl, rfl⟩)) (fun _ sh h => TrB.pure _ ?_)
                subst h
                exact Or.inr ⟨rfl, Or.inr rfl⟩
        · split
          · next hs =>
            refine TrB.bind (md _ _ (fun s => ⟨rfl, rfl, rfl⟩)) (fun _ sh' h' => TrB.pure _ ?_)
            subst h'
            rcases h with ⟨_, rfl⟩ | ⟨hf, _⟩
            · exact mem_short
            · rw [hf] at hs; cases hs
          · refine TrB.bind (md _ _ (fun s => ⟨rfl, rfl, rfl⟩)) (fun _ sh' h' => ?_)
            subst h'
            refine TrB.bind (trb_lenDecode _ _ _) (fun len sh'' h'' => TrB.pure _ ?_)
            obtain ⟨l, hl, rfl⟩ := h''
            rcases h with ⟨_, rfl⟩ | ⟨_, rfl | rfl⟩
            · exact mem_long4 hl
            · exact mem_long4 hl
            · exact mem_long5 hl

/-- ONE SYMBOL of the executable decoder reads at most 20 bytes: from any range a finished symbol or `rc_reset` leaves
    (≥ 8192·31, < 2^32) and probabilities in [31, 2017], a call of `decodeSymbol` that completes has moved the input cursor by at
    most 20, and leaves a range and probabilities satisfying the same conditions (so the bound chains over all symbols).
    `hall` is `Props/C04.symbol_shapes_ok` (every shape is within the range-shrink budget; `decide +kernel`). -/
theorem decodeSymbol_bytes (hall : symbolShapes.all shapeOk = true) (ev : Bool) (s s' : St) (pend : Pending)
    (hlo : 253952 ≤ s.range) (hhi : s.range < U32) (hpi : PI s) (h : decodeSymbol ev s = .ok pend s') :
    s.inPos ≤ s'.inPos ∧ s'.inPos ≤ s.inPos + 20 ∧ 253952 ≤ s'.range ∧ s'.range < U32 ∧ PI s' := by
  obtain ⟨sh, hmem, hpi', hle, ops, hok, hsh, hrun⟩ := trb_decodeSymbol ev s s (Acc.init s hpi) pend s' h
  have hs : shapeOk (shapeOf ops) = true := by rw [hsh]; exact List.all_eq_true.mp hall _ hmem
  have hb := symbol_bound_of_shape ops s.range hs hok hlo hhi
  rw [hrun] at hb
  simp only [] at hb
  exact ⟨hle, by omega, hb.2.1, hb.2.2, hpi'⟩

end XzVerif.C04Sym
