/-
  Layer 3 of the range-coder round-trip proof (DESIGN Appendix A): the decoder of `Model/RangeDec.lean`
  (`readInit`, `normalizeL`, `bitCore`, `directCore`) stays in lock step with the C-style encoder of `Model/RangeEnc.lean`.

  `F`  = the number the complete encoder output denotes (`numLE (finish e ops).outRev`)
  Sync = decoder range equals encoder range, `code < range`, and
         (V e + code) · 256^m + N(unread encoder bytes) = F     with m = number of unread encoder bytes.
  `future`: F lies in the interval of every later encoder state (nesting), which is what decides each bit.
-/
import XzVerif.Lemmas.RangeCoderEnc

namespace XzVerif.RangeCoder
open XzVerif.RangeDec XzVerif.RangeEnc

/-- every probability used by the operation list satisfies `ProbInv` -/
def OpsOk : List ROp → Prop
  | [] => True
  | .bit p _ :: ops => ProbInv p ∧ OpsOk ops
  | .direct _ :: ops => OpsOk ops

/-- the encoder state after the remaining operations and `rc_flush` -/
def finish (e : Enc) (ops : List ROp) : Enc := encFlush (encROps e ops)

theorem finish_cons (e : Enc) (op : ROp) (ops : List ROp) : finish e (op :: ops) = finish (encROp e op) ops := rfl

theorem encROp_inv {e : Enc} (h : Inv e) : ∀ (op : ROp), OpsOk [op] → Inv (encROp e op)
  | .bit _ b, hp => (encBit_spec h hp.1 b).1
  | .direct b, _ => (encDirect_spec h b).1

private theorem nest {Vn rn V2 r2 P F : Nat} (hV : Vn ≤ V2) (hU : V2 + r2 ≤ Vn + rn)
    (hl : V2 * P ≤ F) (hu : F < (V2 + r2) * P) : Vn * P ≤ F ∧ F < (Vn + rn) * P :=
  ⟨le_trans (Nat.mul_le_mul_right P hV) hl, lt_of_lt_of_le hu (Nat.mul_le_mul_right P hU)⟩

/-- One operation (after normalisation) maps the interval `[V, V + range)` into itself. -/
theorem encROp_nest {e : Enc} (h : Inv e) (op : ROp) (hop : OpsOk [op]) :
    T (encROp e op) = T (normalize e) ∧ V (normalize e) ≤ V (encROp e op) ∧
    V (encROp e op) + (encROp e op).range ≤ V (normalize e) + (normalize e).range := by
  obtain ⟨hI, hr, _⟩ := normalize_spec h
  cases op with
  | bit p b =>
    obtain ⟨_, hT, h0, h1⟩ := encBit_spec h hop.1 b
    obtain ⟨hb0, hb1, _⟩ := bound_lt hr hI.rlt hop.1
    refine ⟨hT, ?_, ?_⟩
    · cases b
      · exact le_of_eq (h0 rfl).1.symm
      · show V (normalize e) ≤ V (encBit e p true); rw [(h1 rfl).1]; omega
    · cases b
      · show V (encBit e p false) + (encBit e p false).range ≤ _
        rw [(h0 rfl).1, (h0 rfl).2]; omega
      · show V (encBit e p true) + (encBit e p true).range ≤ _
        rw [(h1 rfl).1, (h1 rfl).2]; omega
  | direct b =>
    obtain ⟨_, hT, hrg, hV⟩ := encDirect_spec h b
    refine ⟨hT, ?_, ?_⟩
    · show V (normalize e) ≤ V (encDirect e b); rw [hV]; omega
    · show V (encDirect e b) + (encDirect e b).range ≤ _
      rw [hV, hrg]; cases b <;> simp <;> omega

private theorem future_step {Te Tn Tf Ve Vn re rn F : Nat} (hTf : Tn + 5 ≤ Tf)
    (hlo : Vn * 256 ^ (Tf - Tn - 5) ≤ F) (hhi : F < (Vn + rn) * 256 ^ (Tf - Tn - 5))
    (hc : (Vn = 256 * Ve ∧ Tn = Te + 1 ∧ rn = 256 * re) ∨ (Vn = Ve ∧ Tn = Te ∧ rn = re)) :
    Te + 5 ≤ Tf ∧ Ve * 256 ^ (Tf - Te - 5) ≤ F ∧ F < (Ve + re) * 256 ^ (Tf - Te - 5) := by
  rcases hc with ⟨rfl, rfl, rfl⟩ | ⟨rfl, rfl, rfl⟩
  · have hx : Tf - Te - 5 = (Tf - (Te + 1) - 5) + 1 := by omega
    rw [hx, pow_succ]
    refine ⟨by omega, ?_, ?_⟩
    · calc Ve * (256 ^ (Tf - (Te + 1) - 5) * 256) = 256 * Ve * 256 ^ (Tf - (Te + 1) - 5) := by ring
        _ ≤ F := hlo
    · calc F < (256 * Ve + 256 * re) * 256 ^ (Tf - (Te + 1) - 5) := hhi
        _ = (Ve + re) * (256 ^ (Tf - (Te + 1) - 5) * 256) := by ring
  · exact ⟨hTf, hlo, hhi⟩

private theorem normalize_cases {e : Enc} (h : Inv e) :
    (V (normalize e) = 256 * V e ∧ T (normalize e) = T e + 1 ∧ (normalize e).range = 256 * e.range) ∨
    (V (normalize e) = V e ∧ T (normalize e) = T e ∧ (normalize e).range = e.range) := by
  obtain ⟨_, _, hc⟩ := normalize_spec h
  rcases hc with ⟨_, hV, hTn, hR⟩ | ⟨_, heq⟩
  · exact Or.inl ⟨hV, hTn, hR⟩
  · rw [heq]; exact Or.inr ⟨rfl, rfl, rfl⟩

/-- Nesting: the final number lies in the interval of every earlier encoder state (at the right scale). -/
theorem future : ∀ (ops : List ROp), OpsOk ops → ∀ e, Inv e →
    T e + 5 ≤ T (finish e ops) ∧
    V e * 256 ^ (T (finish e ops) - T e - 5) ≤ numLE (finish e ops).outRev ∧
    numLE (finish e ops).outRev < (V e + e.range) * 256 ^ (T (finish e ops) - T e - 5)
  | [], _, e, h => by
    obtain ⟨hF, _, hT⟩ := encFlush_spec h
    obtain ⟨hI, _, _⟩ := normalize_spec h
    have hrge := hI.rge
    have hfin : finish e [] = encFlush e := rfl
    rw [hfin, hF, hT]
    apply future_step (Tn := T (normalize e)) (Vn := V (normalize e)) (rn := (normalize e).range) (by omega) _ _
      (normalize_cases h)
    · have : T (normalize e) + 5 - T (normalize e) - 5 = 0 := by omega
      rw [this]; omega
    · have : T (normalize e) + 5 - T (normalize e) - 5 = 0 := by omega
      rw [this]; omega
  | op :: ops, hops, e, h => by
    have hop : OpsOk [op] ∧ OpsOk ops := by
      cases op <;> simp only [OpsOk] at hops ⊢
      · exact ⟨⟨hops.1, trivial⟩, hops.2⟩
      · exact ⟨trivial, hops⟩
    obtain ⟨hT2, hVle, hUle⟩ := encROp_nest h op hop.1
    obtain ⟨hTf, hlo, hhi⟩ := future ops hop.2 (encROp e op) (encROp_inv h op hop.1)
    rw [finish_cons]
    generalize finish (encROp e op) ops = f at *
    generalize numLE f.outRev = F at *
    obtain ⟨hlo', hhi'⟩ := nest hVle hUle hlo hhi
    rw [hT2] at hTf hlo' hhi'
    exact future_step hTf hlo' hhi' (normalize_cases h)

/-! ### the coupling invariant -/

/-- Decoder `(rc, rest)` is in step with an encoder position given by its number `Vv`, range `r` and byte count `Tt`;
    `F`, `Tf` are the final number and final byte count; `tail` is whatever follows the encoder output. -/
def SyncN (Vv r Tt F Tf : Nat) (tail : List UInt8) (rc : Rc) (rest : List UInt8) : Prop :=
  ∃ re, rest = re ++ tail ∧ rc.range = r ∧ rc.code < r ∧ re.length + Tt + 5 = Tf ∧
        (Vv + rc.code) * 256 ^ re.length + numBE re = F

def Sync (e : Enc) (ops : List ROp) (tail : List UInt8) (rc : Rc) (rest : List UInt8) : Prop :=
  SyncN (V e) e.range (T e) (numLE (finish e ops).outRev) (T (finish e ops)) tail rc rest

/-- The decoder's `rc_normalize` mirrors the encoder's normalisation. -/
theorem sync_normalize {e : Enc} (h : Inv e) {F Tf : Nat} {tail : List UInt8} {rc : Rc} {rest : List UInt8}
    (hs : SyncN (V e) e.range (T e) F Tf tail rc rest) (hT : T (normalize e) + 5 ≤ Tf) :
    ∃ rc' rest', normalizeL rc rest = some (rc', rest') ∧
      SyncN (V (normalize e)) (normalize e).range (T (normalize e)) F Tf tail rc' rest' := by
  obtain ⟨re, hrest, hrange, hcode, hlen, heq⟩ := hs
  obtain ⟨_, _, hc⟩ := normalize_spec h
  rcases hc with ⟨hlt, hV, hTn, hR⟩ | ⟨hge, heq'⟩
  · -- both sides shift one byte
    rw [hTn] at hT
    have hre : 1 ≤ re.length := by omega
    obtain ⟨b, re', rfl⟩ : ∃ b re', re = b :: re' := by
      cases re with
      | nil => simp at hre
      | cons b re' => exact ⟨b, re', rfl⟩
    simp only [RC_TOP_VALUE] at hlt
    have hb : b.toNat < 256 := UInt8.toNat_lt_size b
    have hnb : rc.needsByte = true := by simp [Rc.needsByte, hrange, RC_TOP_VALUE, hlt]
    refine ⟨rc.shiftIn b.toNat, re' ++ tail, ?_, re', rfl, ?_, ?_, ?_, ?_⟩
    · simp [normalizeL, hnb, hrest]
    · simp only [Rc.shiftIn, hrange, hR, U32]; omega
    · simp only [Rc.shiftIn, hR, U32]; omega
    · simp only [List.length_cons] at hlen; omega
    · have hcm : (rc.shiftIn b.toNat).code = 256 * rc.code + b.toNat := by
        simp only [Rc.shiftIn, U32]; omega
      rw [hcm, hV, ← heq]
      simp only [numBE, List.length_cons, pow_succ]
      ring
  · -- no normalisation on either side
    simp only [RC_TOP_VALUE] at hge
    have hnb : rc.needsByte = false := by simp [Rc.needsByte, hrange, RC_TOP_VALUE]; omega
    refine ⟨rc, rest, ?_, ?_⟩
    · simp [normalizeL, hnb]
    · rw [heq']; exact ⟨re, hrest, hrange, hcode, hlen, heq⟩

/-- Channel law, probability bit: the decoder returns the encoded bit and stays in step. -/
theorem sync_bit {e : Enc} (h : Inv e) {p : Nat} (hp : ProbInv p) (b : Bool) {ops : List ROp} (hops : OpsOk ops)
    {tail : List UInt8} {rc : Rc} {rest : List UInt8} (hs : Sync e (.bit p b :: ops) tail rc rest) :
    ∃ rc' rest', decodeBitL rc p rest = some (b.toNat, rc', probUpdate p b, rest') ∧
      Sync (encBit e p b) ops tail rc' rest' := by
  have hI2 : Inv (encBit e p b) := (encBit_spec h hp b).1
  obtain ⟨hTf, hlo, hhi⟩ := future ops hops (encBit e p b) hI2
  obtain ⟨_, hT2, h0, h1⟩ := encBit_spec h hp b
  obtain ⟨hIn, hrn, _⟩ := normalize_spec h
  unfold Sync at hs ⊢
  rw [finish_cons] at hs
  change SyncN _ _ _ (numLE (finish (encBit e p b) ops).outRev) (T (finish (encBit e p b) ops)) _ _ _ at hs
  generalize numLE (finish (encBit e p b) ops).outRev = F at *
  generalize T (finish (encBit e p b) ops) = Tf at *
  obtain ⟨rc1, rest1, hn, re, hrest, hrange, hcode, hlen, heq⟩ := sync_normalize h hs (by omega)
  obtain ⟨hb0, hb1, _⟩ := bound_lt hrn hIn.rlt hp
  have hm : Tf - T (encBit e p b) - 5 = re.length := by omega
  rw [hm] at hlo hhi
  have hN := numBE_lt re
  have hP : 0 < 256 ^ re.length := Nat.pow_pos (by norm_num)
  simp only [decodeBitL, hn]
  generalize hbd : ((normalize e).range / 2048) * p = bound at *
  have hbound : rcBound rc1.range p = bound := by simp only [rcBound, RC_BIT_MODEL_TOTAL, hrange, hbd]
  cases b
  · obtain ⟨hV, hR⟩ := h0 rfl
    rw [hV, hR] at hhi
    have hlt : rc1.code < bound := by
      have : (V (normalize e) + rc1.code) * 256 ^ re.length < (V (normalize e) + bound) * 256 ^ re.length := by omega
      have := Nat.lt_of_mul_lt_mul_right this
      omega
    refine ⟨{ range := bound, code := rc1.code }, rest1, ?_, re, hrest, ?_, ?_, ?_, ?_⟩
    · simp [bitCore, hbound, hlt, probUpdate]
    · rw [hR]
    · rw [hR]; exact hlt
    · rw [hT2]; exact hlen
    · rw [hV]; exact heq
  · obtain ⟨hV, hR⟩ := h1 rfl
    rw [hV] at hlo
    have hge : bound ≤ rc1.code := by
      have : (V (normalize e) + bound) * 256 ^ re.length < (V (normalize e) + rc1.code + 1) * 256 ^ re.length := by
        have : (V (normalize e) + rc1.code + 1) * 256 ^ re.length
            = (V (normalize e) + rc1.code) * 256 ^ re.length + 256 ^ re.length := by ring
        omega
      have := Nat.lt_of_mul_lt_mul_right this
      omega
    refine ⟨{ range := rc1.range - bound, code := rc1.code - bound }, rest1, ?_, re, hrest, ?_, ?_, ?_, ?_⟩
    · have : ¬ rc1.code < bound := by omega
      simp [bitCore, hbound, this, probUpdate]
    · rw [hR, hrange]
    · rw [hR]; show rc1.code - bound < _; omega
    · rw [hT2]; exact hlen
    · rw [hV]
      have : V (normalize e) + bound + (rc1.code - bound) = V (normalize e) + rc1.code := by omega
      show (V (normalize e) + bound + (rc1.code - bound)) * _ + _ = F
      rw [this]; exact heq

/-- Channel law, direct bit (the `uint32_t` wrap-around form of `rc_direct` equals the plain comparison). -/
theorem sync_direct {e : Enc} (h : Inv e) (b : Bool) {ops : List ROp} (hops : OpsOk ops)
    {tail : List UInt8} {rc : Rc} {rest : List UInt8} (hs : Sync e (.direct b :: ops) tail rc rest) :
    ∃ rc1 rest' rc', normalizeL rc rest = some (rc1, rest') ∧ directCore rc1 = (b.toNat, rc') ∧
      Sync (encDirect e b) ops tail rc' rest' := by
  have hI2 : Inv (encDirect e b) := (encDirect_spec h b).1
  obtain ⟨hTf, hlo, hhi⟩ := future ops hops (encDirect e b) hI2
  obtain ⟨_, hT2, hR, hV⟩ := encDirect_spec h b
  obtain ⟨hIn, hrn, _⟩ := normalize_spec h
  unfold Sync at hs ⊢
  rw [finish_cons] at hs
  change SyncN _ _ _ (numLE (finish (encDirect e b) ops).outRev) (T (finish (encDirect e b) ops)) _ _ _ at hs
  generalize numLE (finish (encDirect e b) ops).outRev = F at *
  generalize T (finish (encDirect e b) ops) = Tf at *
  obtain ⟨rc1, rest1, hn, re, hrest, hrange, hcode, hlen, heq⟩ := sync_normalize h hs (by omega)
  have hm : Tf - T (encDirect e b) - 5 = re.length := by omega
  rw [hm, hV] at hlo
  rw [hm, hV, hR] at hhi
  have hN := numBE_lt re
  have hP : 0 < 256 ^ re.length := Nat.pow_pos (by norm_num)
  have hrl := hIn.rlt
  simp only [RC_TOP_VALUE] at hrn
  generalize hhalf : (normalize e).range / 2 = half at *
  cases b
  · simp only [Bool.false_eq_true, if_false, Nat.add_zero] at hlo hhi hV
    have hlt : rc1.code < half := by
      have : (V (normalize e) + rc1.code) * 256 ^ re.length < (V (normalize e) + half) * 256 ^ re.length := by omega
      have := Nat.lt_of_mul_lt_mul_right this
      omega
    refine ⟨rc1, rest1, { range := half, code := rc1.code }, hn, ?_, re, hrest, ?_, ?_, ?_, ?_⟩
    · simp only [directCore, hrange, hhalf, U32]
      have h1 : (rc1.code + 4294967296 - half) % 4294967296 / 2147483648 = 1 := by omega
      have h2 : ((rc1.code + 4294967296 - half) % 4294967296 + half) % 4294967296 = rc1.code := by omega
      simp [h1, h2]
    · rw [hR]
    · rw [hR]; exact hlt
    · rw [hT2]; exact hlen
    · rw [hV]; exact heq
  · simp only [if_true] at hlo hhi hV
    have hge : half ≤ rc1.code := by
      have : (V (normalize e) + half) * 256 ^ re.length < (V (normalize e) + rc1.code + 1) * 256 ^ re.length := by
        have : (V (normalize e) + rc1.code + 1) * 256 ^ re.length
            = (V (normalize e) + rc1.code) * 256 ^ re.length + 256 ^ re.length := by ring
        omega
      have := Nat.lt_of_mul_lt_mul_right this
      omega
    have hlt2 : rc1.code < half + half := by
      have : (V (normalize e) + rc1.code) * 256 ^ re.length < (V (normalize e) + half + half) * 256 ^ re.length := by omega
      have := Nat.lt_of_mul_lt_mul_right this
      omega
    refine ⟨rc1, rest1, { range := half, code := rc1.code - half }, hn, ?_, re, hrest, ?_, ?_, ?_, ?_⟩
    · have h2 : (rc1.code + 4294967296 - half) % 4294967296 = rc1.code - half := by omega
      have h3 : ¬ ((rc1.code - half) / 2147483648 = 1) := by omega
      simp only [directCore, hrange, hhalf, U32, h2]
      rw [if_neg h3]; rfl
    · rw [hR]
    · rw [hR]; show rc1.code - half < half; omega
    · rw [hT2]; exact hlen
    · rw [hV]
      have : V (normalize e) + half + (rc1.code - half) = V (normalize e) + rc1.code := by omega
      show (V (normalize e) + half + (rc1.code - half)) * _ + _ = F
      rw [this]; exact heq

/-- At the end of the operation list the decoder's `rc_normalize` consumes the last encoder byte (if any) and
    `rc_is_finished` holds: `code = 0`; exactly the bytes after the encoder output remain. -/
theorem sync_end {e : Enc} (h : Inv e) {tail : List UInt8} {rc : Rc} {rest : List UInt8} (hs : Sync e [] tail rc rest) :
    ∃ rc', normalizeL rc rest = some (rc', tail) ∧ rc'.code = 0 := by
  obtain ⟨hF, _, hT⟩ := encFlush_spec h
  unfold Sync at hs
  change SyncN _ _ _ (numLE (encFlush e).outRev) (T (encFlush e)) _ _ _ at hs
  rw [hF, hT] at hs
  obtain ⟨rc1, rest1, hn, re, hrest, hrange, hcode, hlen, heq⟩ := sync_normalize h hs (by omega)
  have hre : re = [] := by
    cases re with
    | nil => rfl
    | cons _ _ => simp only [List.length_cons] at hlen; omega
  subst hre
  simp only [List.length_nil, pow_zero, numBE, Nat.mul_one, Nat.add_zero] at heq
  refine ⟨rc1, ?_, by omega⟩
  rw [hn, hrest]; rfl

theorem encROps_inv : ∀ (ops : List ROp), OpsOk ops → ∀ e, Inv e → Inv (encROps e ops)
  | [], _, _, h => h
  | op :: ops, hops, e, h => by
    have hop : OpsOk [op] ∧ OpsOk ops := by
      cases op <;> simp only [OpsOk] at hops ⊢
      · exact ⟨⟨hops.1, trivial⟩, hops.2⟩
      · exact ⟨trivial, hops⟩
    exact encROps_inv ops hop.2 (encROp e op) (encROp_inv h op hop.1)

private theorem list_ge5 {α : Type} : ∀ (l : List α), 5 ≤ l.length → ∃ a b c d e r, l = a :: b :: c :: d :: e :: r
  | a :: b :: c :: d :: e :: r, _ => ⟨a, b, c, d, e, r, rfl⟩
  | [], h | [_], h | [_, _], h | [_, _, _], h | [_, _, _, _], h => by simp at h

/-- `rc_read_init` on the encoder's complete output: the first byte is 0x00 and the decoder starts in step. -/
theorem sync_init {ops : List ROp} (hops : OpsOk ops) (tail : List UInt8) :
    ∃ rc rest, readInit ((finish Enc.init ops).out ++ tail) = .ok rc rest ∧ Sync Enc.init ops tail rc rest ∧
      (finish Enc.init ops).out.head? = some 0 := by
  obtain ⟨hTf, _, hhi⟩ := future ops hops Enc.init inv_init
  have hlenF : (finish Enc.init ops).outRev.length + 1 = T (finish Enc.init ops) := by
    obtain ⟨_, h1, h2⟩ := encFlush_spec (encROps_inv ops hops Enc.init inv_init)
    show (encFlush (encROps Enc.init ops)).outRev.length + 1 = T (encFlush (encROps Enc.init ops))
    omega
  unfold Sync
  rw [V_init, T_init] at *
  have hFnum : numBE (finish Enc.init ops).out = numLE (finish Enc.init ops).outRev := by
    simp only [Enc.out]; exact numBE_reverse _
  have hlenO : (finish Enc.init ops).out.length + 1 = T (finish Enc.init ops) := by
    simp only [Enc.out, List.length_reverse]; exact hlenF
  generalize T (finish Enc.init ops) = Tf at *
  generalize numLE (finish Enc.init ops).outRev = F at *
  generalize (finish Enc.init ops).out = out at *
  obtain ⟨b0, b1, b2, b3, b4, re, rfl⟩ := list_ge5 out (by omega)
  simp only [List.length_cons] at hlenO
  have hexp : Tf - 1 - 5 = re.length := by omega
  rw [hexp] at hhi
  have hr : Enc.init.range = 4294967295 := rfl
  rw [hr, Nat.zero_add] at hhi
  have hP : 0 < 256 ^ re.length := Nat.pow_pos (by norm_num)
  have hb0 : b0 = 0 := by
    apply numBE_head_zero b0 (b1 :: b2 :: b3 :: b4 :: re)
    rw [hFnum]
    simp only [List.length_cons, pow_succ]
    omega
  subst hb0
  have h1 := UInt8.toNat_lt_size b1
  have h2 := UInt8.toNat_lt_size b2
  have h3 := UInt8.toNat_lt_size b3
  have h4 := UInt8.toNat_lt_size b4
  have hN := numBE_lt re
  -- the number, byte by byte
  have hF : (((b1.toNat * 256 + b2.toNat) * 256 + b3.toNat) * 256 + b4.toNat) * 256 ^ re.length + numBE re = F := by
    rw [← hFnum]
    simp only [numBE, List.length_cons, pow_succ]
    have : (0 : UInt8).toNat = 0 := rfl
    rw [this]; ring
  obtain ⟨code, hcode⟩ : ∃ code, ((b1.toNat * 256 + b2.toNat) * 256 + b3.toNat) * 256 + b4.toNat = code := ⟨_, rfl⟩
  rw [hcode] at hF
  have hclt : code < 4294967295 := by
    have : code * 256 ^ re.length < 4294967295 * 256 ^ re.length := by omega
    exact Nat.lt_of_mul_lt_mul_right this
  refine ⟨{ range := UINT32_MAX, code := code }, re ++ tail, ?_, ⟨re, rfl, rfl, hclt, by omega, ?_⟩, rfl⟩
  · simp only [List.cons_append, readInit, ne_eq, not_true_eq_false, if_false]
    congr 1
    simp only [Rc.initByte, Rc.reset, U32, UINT32_MAX]
    congr 1
    have : (0 : UInt8).toNat = 0 := rfl
    omega
  · rw [Nat.zero_add]; exact hF

end XzVerif.RangeCoder
