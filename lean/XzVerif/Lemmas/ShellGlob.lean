/-
  Helper lemmas for the suffix-dispatch part of C20: a `case` pattern `*` followed by fixed bracket sets
  matches exactly the names that end in one of finitely many suffixes.
-/
import XzVerif.Model.Shell

namespace XzVerif.Shell

/-- All byte strings matched by a sequence of positive bracket sets. -/
def expandSets : List Bytes → List Bytes
  | [] => [[]]
  | a :: r => a.flatMap fun c => (expandSets r).map (c :: ·)

/-- The sets of a glob of the form `*[s₁][s₂]…` (literals are singleton sets). -/
def toSets : Glob → Option (List Bytes)
  | .star :: rest => rest.mapM fun
      | .cls false s => some s
      | _ => none
  | _ => none

/-- The finitely many suffixes a list of alternatives `*[..]… | *[..]… | …` stands for. -/
def armSuffixes (gs : List Glob) : Option (List Bytes) := (gs.mapM toSets).map (·.flatMap expandSets)

theorem anySuffix_iff (p : Bytes → Bool) (s : Bytes) : anySuffix p s = true ↔ ∃ t, t <:+ s ∧ p t = true := by
  induction s with
  | nil => simp [anySuffix]
  | cons c cs ih =>
    simp only [anySuffix, Bool.or_eq_true, ih, List.suffix_cons_iff]
    constructor
    · rintro (h | ⟨t, ht, hp⟩)
      · exact ⟨c :: cs, Or.inl rfl, h⟩
      · exact ⟨t, Or.inr ht, hp⟩
    · rintro ⟨t, (rfl | ht), hp⟩
      · exact Or.inl hp
      · exact Or.inr ⟨t, ht, hp⟩

theorem fixed_iff (sets : List Bytes) (t : Bytes) :
    globMatch (sets.map (GAtom.cls false)) t = true ↔ t ∈ expandSets sets := by
  induction sets generalizing t with
  | nil => cases t <;> simp [globMatch, expandSets]
  | cons a r ih =>
    cases t with
    | nil => simp [globMatch, expandSets]
    | cons c cs =>
      simp only [List.map_cons, globMatch, expandSets, Bool.and_eq_true, ih, List.mem_flatMap, List.mem_map]
      constructor
      · rintro ⟨h1, h2⟩
        refine ⟨c, ?_, cs, h2, rfl⟩
        simpa using h1
      · rintro ⟨x, hx, y, hy, e⟩
        injection e with e1 e2
        subst e1 e2
        exact ⟨by simpa using hx, hy⟩

theorem toSets_eq (g : Glob) (sets : List Bytes) (h : toSets g = some sets) : g = .star :: sets.map (GAtom.cls false) := by
  cases g with
  | nil => simp [toSets] at h
  | cons a rest =>
    cases a with
    | any => simp [toSets] at h
    | cls n s => simp [toSets] at h
    | star =>
      simp only [toSets] at h
      congr 1
      induction rest generalizing sets with
      | nil => simp at h; subst h; rfl
      | cons b bs ih =>
        cases b with
        | star => simp [List.mapM_cons] at h
        | any => simp [List.mapM_cons] at h
        | cls n s =>
          cases n with
          | true => simp [List.mapM_cons] at h
          | false =>
            simp only [List.mapM_cons, Option.pure_def, Option.bind_eq_bind, Option.bind_some] at h
            cases hb : List.mapM (fun x => match x with | GAtom.cls false s => some s | _ => none) bs with
            | none => simp [hb] at h
            | some r =>
              simp only [hb, Option.bind_some, Option.some.injEq] at h
              subst h
              simp [ih r hb]

/-- `*[s₁]…[sₙ]` matches exactly the names with a suffix in `expandSets [s₁,…,sₙ]`. -/
theorem globMatch_toSets (g : Glob) (sets : List Bytes) (h : toSets g = some sets) (name : Bytes) :
    globMatch g name = (expandSets sets).any (fun t => t.isSuffixOf name) := by
  rw [toSets_eq g sets h]
  rw [Bool.eq_iff_iff]
  have : globMatch (.star :: sets.map (GAtom.cls false)) name = anySuffix (globMatch (sets.map (GAtom.cls false))) name := by
    cases name <;> simp [globMatch]
  rw [this, anySuffix_iff, List.any_eq_true]
  constructor
  · rintro ⟨t, ht, hp⟩
    exact ⟨t, (fixed_iff sets t).mp hp, by simpa using ht⟩
  · rintro ⟨t, ht, hs⟩
    exact ⟨t, by simpa using hs, (fixed_iff sets t).mpr ht⟩

theorem any_globMatch_armSuffixes (gs : List Glob) (L : List Bytes) (h : armSuffixes gs = some L) (name : Bytes) :
    gs.any (globMatch · name) = L.any (fun t => t.isSuffixOf name) := by
  induction gs generalizing L with
  | nil => simp [armSuffixes] at h; subst h; simp
  | cons g gs ih =>
    simp only [armSuffixes, List.mapM_cons, Option.pure_def, Option.bind_eq_bind] at h
    cases hg : toSets g with
    | none => simp [hg] at h
    | some sets =>
      cases hgs : gs.mapM toSets with
      | none => simp [hg, hgs] at h
      | some rest =>
        simp only [hg, hgs, Option.bind_some, Option.map_some, Option.some.injEq] at h
        subst h
        have ih' := ih (rest.flatMap expandSets) (by simp [armSuffixes, hgs])
        simp [List.any_cons, globMatch_toSets g sets hg, ih', List.any_append]

/-- Two suffix tables with the same members decide the same names. -/
theorem any_suffix_congr (A B : List Bytes) (h : (A.all (B.contains ·) && B.all (A.contains ·)) = true) (name : Bytes) :
    A.any (fun t => t.isSuffixOf name) = B.any (fun t => t.isSuffixOf name) := by
  simp only [Bool.and_eq_true, List.all_eq_true, List.contains_iff_mem] at h
  rw [Bool.eq_iff_iff, List.any_eq_true, List.any_eq_true]
  constructor
  · rintro ⟨t, ht, hs⟩; exact ⟨t, h.1 t ht, hs⟩
  · rintro ⟨t, ht, hs⟩; exact ⟨t, h.2 t ht, hs⟩

end XzVerif.Shell
