/-
  "Starved calls are idle", LZMA1 call level, ANY `allow_eopm` / size configuration: `l1IdleQ : L1IdleQ` and
  `codeIdle_lzma1Q : CodeIdle P1Q lzmaCallR` (statements in Lemmas/LzmaResumeQDefs.lean). Same proof as Lemmas/LzmaResumeIdle1.lean
  (whose restriction-independent parts — `idle1_full_head`, `idle1_tail`, `idle1_init`, the `finOf` lemmas — are imported), with
  the restriction `Pre1.eopm` replaced by the range-decoder invariant `RcQ` (Lemmas/LzmaResumeRcQ.lean) carried along the loop:
  a known-size test that lets the loop go on after CHANGING the state (end marker allowed, known size reached, code ≠ 0) leaves
  the range ≥ 2^24, so the first normalisation of the next symbol is a no-op and cannot starve (`rcNormalize_of_top`): a run that
  "starved at the loop top" has an unchanged loop-top state as before; a run that starved inside that symbol saved
  `SymSnap.of t1` with `t1.eopmValid = true`, and the restart recomputes `eopm_is_valid = true`, the value the run used.
  Core Lean only.
-/
import XzVerif.Lemmas.LzmaResumeIdle1
import XzVerif.Lemmas.LzmaResumeQDefs
import XzVerif.Lemmas.LzmaResumeRcQ

namespace XzVerif.LzmaR
open XzVerif.RangeDec XzVerif.LzDict XzVerif.Lzma XzVerif.Lzma2

section run
variable (b : ByteArray) (vn mf mf2 : Bool) (Lc L2 : Nat) (v2 : Option Nat)

/-- the second run starves at the place where the first one stopped -/
def Idle1qRes (X : Res) : Prop :=
  ∀ t k', X = (.error .needInput t, k') → (mf && (t.dp.pos == Lc)) = (mf2 && (t.dp.pos == L2)) →
    t.inp = b ∧
    ∀ f2, 1 ≤ f2 → headR f2 (vn || t.eopmValid) mf2 .none k' (idle1_og L2 v2 t) = (.error .needInput (idle1_og L2 v2 t), k')

structure Idle1qInv (ev : Bool) (u : St) : Prop where
  inp : u.inp = b
  rcq : RcQ u
  ev : ev = (vn || u.eopmValid)
  limit : u.dp.limit = Lc

theorem idle1q_starve_top (ev : Bool) (u : St) (hinv : Idle1qInv b vn Lc ev u)
    (hX : (symPrelude ev mf u = .error .needInput u) ∨
          ((mf && (u.dp.pos == u.dp.limit)) = false ∧ rcNormalize u = .error .needInput u)) :
    Idle1qRes b vn mf mf2 Lc L2 v2 ((.error .needInput u : EStateM.Result Exit St Unit), (none : Option SymSnap)) := by
  intro t k' he htest
  injection he with h1 h2
  injection h1 with _ h1
  subst h1
  subst h2
  refine ⟨hinv.inp, ?_⟩
  intro f2 hf2
  obtain ⟨f, rfl⟩ : ∃ f, f2 = f + 1 := ⟨f2 - 1, by omega⟩
  show symLoopR (f + 1) (vn || u.eopmValid) mf2 (idle1_og L2 v2 u) = _
  rw [symLoopR_succ]
  have hlim : (idle1_og L2 v2 u).dp.limit = L2 := rfl
  have hpos : (idle1_og L2 v2 u).dp.pos = u.dp.pos := rfl
  rw [← hinv.limit] at htest
  rcases hX with hX | ⟨hc, hn⟩
  · obtain ⟨hc, hn⟩ := idle1_prelude_inv ev mf u u hX
    have hc2 : (mf2 && ((idle1_og L2 v2 u).dp.pos == (idle1_og L2 v2 u).dp.limit)) = true := by
      rw [hlim, hpos, ← htest]; exact hc
    rw [idle1_prelude_mk _ mf2 _ hc2 (idle1_norm_og L2 v2 u hn)]
  · have hc2 : (mf2 && ((idle1_og L2 v2 u).dp.pos == (idle1_og L2 v2 u).dp.limit)) = false := by
      rw [hlim, hpos, ← htest]; exact hc
    rw [idle1_prelude_skip _ mf2 _ hc2]
    simp only [idle1_norm_og L2 v2 u hn]

theorem idle1q_write (f : Nat) (hIH : ∀ ev u, Idle1qInv b vn Lc ev u → Idle1qRes b vn mf mf2 Lc L2 v2 (symLoopR f ev mf u))
    (ev : Bool) (p : Pending) (u : St) (hinv : Idle1qInv b vn Lc ev u) :
    Idle1qRes b vn mf mf2 Lc L2 v2 (afterWrite f ev mf (doWrite p u)) := by
  have hk := keep_doWrite p u
  cases hw : doWrite p u with
  | error e u2 =>
    obtain ⟨q, rfl, _⟩ := doWrite_exits p u u2 e hw
    intro t k' he
    injection he with h1 _
    injection h1 with h1 _
    cases h1
  | ok a u2 =>
    rw [hw] at hk
    have hinv2 : Idle1qInv b vn Lc ev u2 :=
      ⟨(by have : u2.inp = u.inp := hk.inp
           rw [this]; exact hinv.inp),
       (by have := rcq_doWrite p u hinv.rcq
           rw [hw] at this; exact this),
       (by have : u2.eopmValid = u.eopmValid := hk.eopmValid
           rw [this]; exact hinv.ev),
       (by have : u2.dp.limit = u.dp.limit := hk.limit
           rw [this]; exact hinv.limit)⟩
    exact hIH ev u2 hinv2

theorem idle1q_sym (f : Nat) (hIH : ∀ ev u, Idle1qInv b vn Lc ev u → Idle1qRes b vn mf mf2 Lc L2 v2 (symLoopR f ev mf u))
    (ev : Bool) (kk : SymSnap) (u0 : St) (hkk : kk.restore u0 = u0) (hinv : Idle1qInv b vn Lc ev u0) :
    Idle1qRes b vn mf mf2 Lc L2 v2 (afterSym f ev mf kk (decodeSymbol ev u0)) := by
  have hfr := decodeSymbol_frame ev u0
  have hk := keep_decodeSymbol ev u0
  have hind := (ind_decodeSymbol (fun _ => L2) (fun _ => v2) id id ev).comm u0
  cases hd : decodeSymbol ev u0 with
  | ok act t2 =>
    rw [hd] at hk
    have hinv2 : Idle1qInv b vn Lc ev t2 :=
      ⟨(by have : t2.inp = u0.inp := hk.inp
           rw [this]; exact hinv.inp),
       (by have := rcq_decodeSymbol ev u0 hinv.rcq
           rw [hd] at this; exact this),
       (by have : t2.eopmValid = u0.eopmValid := hk.eopmValid
           rw [this]; exact hinv.ev),
       (by have : t2.dp.limit = u0.dp.limit := hk.limit
           rw [this]; exact hinv.limit)⟩
    exact idle1q_write b vn mf mf2 Lc L2 v2 f hIH ev act t2 hinv2
  | error e t =>
    rw [hd] at hfr hk hind
    have hfr1 : SymSnap.restore (SymSnap.of t) u0 = t := hfr.1
    have hind' : decodeSymbol ev (idle1_og L2 v2 u0) = .error e (idle1_og L2 v2 t) := hind
    cases e with
    | needInput =>
      intro t' k' he _
      injection he with h1 h2
      injection h1 with _ h1
      subst h1
      subst h2
      refine ⟨(by have : t.inp = u0.inp := hk.inp
                  rw [this]; exact hinv.inp), ?_⟩
      intro f2 _
      have hrest : kk.restore (idle1_og L2 v2 t) = idle1_og L2 v2 u0 :=
        calc kk.restore (idle1_og L2 v2 t)
            = kk.restore (idle1_og L2 v2 (SymSnap.restore (SymSnap.of t) u0)) := by rw [hfr1]
          _ = idle1_og L2 v2 (kk.restore u0) := rfl
          _ = idle1_og L2 v2 u0 := by rw [hkk]
      have hev : (vn || t.eopmValid) = ev := by
        have : t.eopmValid = u0.eopmValid := hk.eopmValid
        rw [this]; exact hinv.ev.symm
      show afterSym f2 (vn || t.eopmValid) mf2 kk (decodeSymbol (vn || t.eopmValid) (kk.restore (idle1_og L2 v2 t))) = _
      rw [hev, hrest, hind']
      rfl
    | dataError => intro t' k' he; injection he with h1 _; injection h1 with h1 _; cases h1
    | streamEnd => intro t' k' he; injection he with h1 _; injection h1 with h1 _; cases h1
    | outFull q => intro t' k' he; injection he with h1 _; injection h1 with h1 _; cases h1
    | fuel => intro t' k' he; injection he with h1 _; injection h1 with h1 _; cases h1

theorem idle1q_loop : ∀ (f : Nat) (ev : Bool) (u : St), Idle1qInv b vn Lc ev u → Idle1qRes b vn mf mf2 Lc L2 v2 (symLoopR f ev mf u)
  | 0, ev, u, _ => by
    intro t' k' he; injection he with h1 _; injection h1 with h1 _; cases h1
  | f + 1, ev, u, hinv => by
    have ih := idle1q_loop f
    rw [symLoopR_succ]
    cases hpre : symPrelude ev mf u with
    | error e t =>
      cases e with
      | needInput =>
        have := symPrelude_starved ev mf _ _ hpre
        subst this
        exact idle1q_starve_top b vn mf mf2 Lc L2 v2 ev t hinv (Or.inl hpre)
      | dataError => intro t' k' he; injection he with h1 _; injection h1 with h1 _; cases h1
      | streamEnd => intro t' k' he; injection he with h1 _; injection h1 with h1 _; cases h1
      | outFull q => intro t' k' he; injection he with h1 _; injection h1 with h1 _; cases h1
      | fuel => intro t' k' he; injection he with h1 _; injection h1 with h1 _; cases h1
    | ok ev1 t1 =>
      rcases symPrelude_ok_top ev mf _ _ _ hinv.rcq hpre with ⟨h1, h2, h3⟩ | ⟨htop, hev1, hvalid, _, ht1⟩
      · subst h1
        subst h2
        simp only []
        cases hn : rcNormalize t1 with
        | error e t =>
          obtain ⟨rfl, rfl⟩ := rcNormalize_starved _ _ _ hn
          exact idle1q_starve_top b vn mf mf2 Lc L2 v2 ev1 t hinv (Or.inr ⟨h3, hn⟩)
        | ok a t =>
          exact idle1q_sym b vn mf mf2 Lc L2 v2 f ih ev1 (SymSnap.of t1) t1 rfl hinv
      · -- the test normalised the range decoder and switched `eopm_is_valid` on: the first normalisation of the symbol is a
        -- no-op, so the run cannot starve before the symbol; inside the symbol the saved resume point is `SymSnap.of t1`
        subst hev1
        have hn : rcNormalize t1 = .ok () t1 := rcNormalize_of_top t1 htop
        simp only [hn]
        have hq : RcQ t1 := by
          have := rcq_symPrelude ev mf u hinv.rcq
          rw [hpre] at this; exact this
        have e1 : t1.inp = u.inp := by have h := congrArg St.inp ht1; exact h
        have e2 : t1.dp.limit = u.dp.limit := by have h := congrArg (fun x : St => x.dp.limit) ht1; exact h
        have hinv1 : Idle1qInv b vn Lc true t1 :=
          ⟨e1.trans hinv.inp, hq, (by rw [hvalid, Bool.or_true]), e2.trans hinv.limit⟩
        exact idle1q_sym b vn mf mf2 Lc L2 v2 f ih true (SymSnap.of t1) t1 rfl hinv1

theorem idle1q_head (f : Nat) (ev : Bool) (p : Pending) (k : Option SymSnap) (u : St)
    (hkq : ∀ kk, k = some kk → RcQk kk) (hinv : Idle1qInv b vn Lc ev u) :
    Idle1qRes b vn mf mf2 Lc L2 v2 (headR f ev mf p k u) := by
  cases k with
  | none => exact idle1q_write b vn mf mf2 Lc L2 v2 f (idle1q_loop b vn mf mf2 Lc L2 v2 f) ev p u hinv
  | some kk =>
    have hinv2 : Idle1qInv b vn Lc ev (kk.restore u) := ⟨hinv.inp, rcq_restore kk u (hkq kk rfl), hinv.ev, hinv.limit⟩
    exact idle1q_sym b vn mf mf2 Lc L2 v2 f (idle1q_loop b vn mf mf2 Lc L2 v2 f) ev kk (kk.restore u) rfl hinv2

end run

/-- the main part of a call (after `rc_read_init`) -/
theorem idle1q_run (k : Option SymSnap) (o : Bool) (b : ByteArray) (L L' : Nat) (w : Option Nat) (s0 : St)
    (hL : L ≤ L') (hpos : s0.dp.pos ≤ L) (hil : s0.initLeft = 0) (hq : RcQ s0) (hkq : ∀ kk, k = some kk → RcQk kk)
    (hok : (finK k o (ov b L w s0)).1 = .ok) (hlt : (finK k o (ov b L w s0)).2.s.dp.pos < L) :
    Same (lzmaCallR ((finK k o (ov b L w s0)).2.view b L')) (finK k o (ov b L w s0)) := by
  rw [finK_eq k o b L w s0] at hok hlt ⊢
  have hPR := pr_call w s0.dp.pos L L' hpos hL
  have hcb := clN_bounds w s0.dp.pos L hpos
  have hdle : ∀ u, w = some u → ∀ d, s0.dp.pos + d ≤ clN w s0.dp.pos L → d ≤ u := by
    intro u hu d hd
    subst hu
    unfold clN at hd
    simp only [] at hd
    split at hd <;> omega
  have hcl : clN w s0.dp.pos L = L ∨ ∃ u, w = some u ∧ clN w s0.dp.pos L = s0.dp.pos + u := by
    cases w with
    | none => exact Or.inl rfl
    | some u =>
      unfold clN
      simp only []
      split
      · exact Or.inr ⟨u, rfl, rfl⟩
      · exact Or.inl rfl
  generalize clN w s0.dp.pos L = Lc at *
  generalize mfN w s0.dp.pos L = mfX at *
  have hinv : Idle1qInv b w.isNone Lc (w.isNone || s0.eopmValid) (ov b Lc w { s0 with pending := .none }) :=
    ⟨rfl, rcq_congr s0 _ hq rfl rfl rfl, rfl, rfl⟩
  have hnfX := headR_nofuel (Lc - s0.dp.pos + 2) (w.isNone || s0.eopmValid) mfX s0.pending k
    (ov b Lc w { s0 with pending := .none }) hcb.1 (by show Lc - s0.dp.pos < _; omega)
  have hpostX := post_headR (Lc - s0.dp.pos + 2) (w.isNone || s0.eopmValid) mfX s0.pending k
    (ov b Lc w { s0 with pending := .none })
  have hfull := idle1_full_head (Lc - s0.dp.pos + 2) (w.isNone || s0.eopmValid) mfX s0.pending k
    (ov b Lc w { s0 with pending := .none }) hcb.1
  have hidle := fun mf2 L2 v2 => idle1q_head b w.isNone mfX mf2 Lc L2 v2 (Lc - s0.dp.pos + 2) (w.isNone || s0.eopmValid) s0.pending k
    (ov b Lc w { s0 with pending := .none }) hkq hinv
  generalize headR (Lc - s0.dp.pos + 2) (w.isNone || s0.eopmValid) mfX s0.pending k
    (ov b Lc w { s0 with pending := .none }) = runX at *
  obtain ⟨resX, kx⟩ := runX
  cases resX with
  | ok a t => exact absurd rfl (hpostX.noOk a t)
  | error e t =>
    have hstp : Stp (ov b Lc w { s0 with pending := .none }) t := hpostX.stp
    have hpend : t.pending = .none := hstp.pending
    have hil' : t.initLeft = 0 := hstp.initLeft.trans hil
    have hHle : s0.hist.size ≤ t.hist.size := by
      have h1 : t.hist.size + s0.dp.pos = s0.hist.size + t.dp.pos := hstp.hist
      have h2 : s0.dp.pos ≤ t.dp.pos := hstp.mono
      omega
    have htpos : t.dp.pos = s0.dp.pos + (t.hist.size - s0.hist.size) := by
      have h1 : t.hist.size + s0.dp.pos = s0.hist.size + t.dp.pos := hstp.hist
      omega
    have htlim : t.dp.limit = Lc := hstp.limit
    have htle : t.dp.pos ≤ Lc := by
      have h1 : t.dp.pos ≤ t.dp.limit := hstp.inlim hcb.1
      omega
    cases e with
    | fuel => exact absurd rfl (hnfX t)
    | dataError => rw [idle1_fst_dataError] at hok; cases hok
    | streamEnd => rw [idle1_fst_streamEnd] at hok; cases hok
    | outFull q =>
      exfalso
      obtain ⟨hq, hpl⟩ := hfull q t kx rfl
      rw [idle1_finOf_outFull_pos] at hlt
      have hw : idle1_isW q = true := by
        cases q <;> first | rfl | exact absurd rfl hq.1 | exact absurd rfl hq.2
      cases hc : (w.map (· - (t.hist.size - s0.hist.size)) == some 0 && idle1_isW q) with
      | true => exact idle1_finOf_outFull_err o L s0.hist.size w t kx q hc hok
      | false =>
        rcases hcl with h | ⟨u, hu, h⟩
        · omega
        · subst hu
          have hδ : u - (t.hist.size - s0.hist.size) = 0 := by omega
          have : Option.map (fun x => x - (t.hist.size - s0.hist.size)) (some u) = some 0 := by
            show some (u - _) = some 0
            rw [hδ]
          rw [this, hw] at hc
          exact absurd hc (by decide)
    | needInput =>
      rw [idle1_finOf_needInput]
      have hshift := shiftN w (t.hist.size - s0.hist.size) s0.dp.pos L'
        (fun u hu => hdle u hu _ (by omega)) (by omega)
      rw [← htpos] at hshift
      have htest : (mfX && (t.dp.pos == Lc))
          = (mfN (w.map (· - (t.hist.size - s0.hist.size))) t.dp.pos L'
              && (t.dp.pos == clN (w.map (· - (t.hist.size - s0.hist.size))) t.dp.pos L')) := by
        rw [hshift.1, hshift.2]
        exact hPR.test t.dp.pos htle
      obtain ⟨hinp, hrun⟩ := hidle _ _ (w.map (· - (t.hist.size - s0.hist.size))) t kx rfl htest
      have hisn : w.isNone = (w.map (· - (t.hist.size - s0.hist.size))).isNone := by cases w <;> rfl
      rw [hisn] at hrun
      exact idle1_tail o b L L' _ t kx hil' hpend hinp hrun


/-- **LZMA1 call level: a starved call is idle.** -/
theorem l1IdleQ : L1IdleQ := by
  intro r b L L' hpre hL hok hlt
  obtain ⟨s, k, o⟩ := r
  have hpos : s.dp.pos ≤ L := hpre.pos
  have hq : RcQ s := hpre.rcq.1
  have hkq : ∀ kk, k = some kk → RcQk kk := hpre.rcq.2
  have hcall : lzmaCallR ((RSt.mk s k o).view b L) = callK k o (rcReadInit (ov b L s.uncomp s)) :=
    lzmaCallR_eq ⟨ov b L s.uncomp s, k, o⟩
  rw [hcall] at hok hlt ⊢
  have hfr := rcReadInit_frame (ov b L s.uncomp s)
  cases hri : rcReadInit (ov b L s.uncomp s) with
  | error e t =>
    rw [hri] at hok
    cases hok
  | ok a t =>
    rw [hri] at hfr hok hlt
    have hinp : t.inp = b := by have h1 := congrArg St.inp hfr.1; exact h1
    have hun : t.uncomp = s.uncomp := by have h1 := congrArg St.uncomp hfr.1; exact h1
    cases a with
    | false =>
      show Same (lzmaCallR ⟨ov b L' t.uncomp t, k, o⟩) (.ok, ⟨t, k, o⟩)
      rw [lzmaCallR_eq]
      show Same (callK k o (rcReadInit (ov b L' t.uncomp t))) _
      have hI : rcReadInitN t.initLeft t = .ok false t := idle1_init _ _ t rfl hri
      have hZ : rcReadInit (ov b L' t.uncomp t) = .ok false (ov b L' t.uncomp t) := by
        have e : ov b L' t.uncomp t = idle1_og L' t.uncomp t := by rw [idle1_og_eq_ov, hinp]
        rw [e]
        have := (ind_rcReadInitN (fun _ => L') (fun _ => t.uncomp) id t.initLeft).comm t
        rw [hI] at this
        exact this
      rw [hZ]
      exact ⟨rfl, rfl⟩
    | true =>
      have hlim : t.dp.limit = L := by have h1 := congrArg (fun x : St => x.dp.limit) hfr.1; exact h1
      have hfix : ov b L s.uncomp t = t := ov_fix hinp hlim hun
      have hdp : t.dp.pos = s.dp.pos := by have h1 := congrArg (fun x : St => x.dp.pos) hfr.1; exact h1
      have hqt : RcQ t := by
        have := rcq_rcReadInit (ov b L s.uncomp s) (rcq_congr s _ hq rfl rfl rfl)
        rw [hri] at this; exact this
      have := idle1q_run k o b L L' s.uncomp t hL (by rw [hdp]; exact hpos) (hfr.2.2.2 t rfl) hqt hkq
        (by rw [hfix]; exact hok) (by rw [hfix]; exact hlt)
      rw [hfix] at this
      exact this

/-- the LZMA1 instance of the LZ-layer interface -/
theorem codeIdle_lzma1Q : CodeIdle P1Q lzmaCallR := by
  intro r b L L' hp hag hin hpos hL _ _ hok _ hlt
  exact l1IdleQ r b L L' ⟨hin, hpos, hag, hp.1, hp.2.1⟩ hL hok hlt

end XzVerif.LzmaR
