/-
  C17 invariant Q2 (ordering): what must already be in the trace when the source is unlinked.
  Traces are newest first; `SubPat ps tr` = the predicates `ps` are matched, in this order, by a subsequence of `tr`
  (so `SubPat [a, b] tr` says: an event matching `a` occurs after one matching `b`).
-/
import XzVerif.Lemmas.XzIoFrame
import XzVerif.Lemmas.XzIo

namespace XzVerif.XzIo
variable {α : Type}

def SubPat : List (Event → Bool) → List Event → Bool
  | [], _ => true
  | _ :: _, [] => false
  | p :: ps, e :: es => (p e && SubPat ps es) || SubPat (p :: ps) es

theorem subPat_cons {ps : List (Event → Bool)} {es : List Event} (e : Event) (h : SubPat ps es = true) :
    SubPat ps (e :: es) = true := by
  cases ps with
  | nil => simp [SubPat]
  | cons p ps => simp [SubPat, h]

theorem subPat_push {p : Event → Bool} {ps : List (Event → Bool)} {es : List Event} {e : Event} (hp : p e = true)
    (h : SubPat ps es = true) : SubPat (p :: ps) (e :: es) = true := by
  simp [SubPat, hp, h]

theorem subPat_tail {p : Event → Bool} {ps : List (Event → Bool)} {es : List Event} (h : SubPat (p :: ps) es = true) :
    SubPat ps es = true := by
  induction es with
  | nil => simp [SubPat] at h
  | cons e es ih =>
    simp only [SubPat, Bool.or_eq_true, Bool.and_eq_true] at h
    rcases h with h | h
    · exact subPat_cons e h.2
    · exact subPat_cons e (ih h)

def isUnlinkSrc (e : Event) : Bool := e.call == .unlink .src
def isCloseDstOk (e : Event) : Bool := e == ⟨.close .dst, .ok 0⟩
def isFsyncDirOk (e : Event) : Bool := e == ⟨.fsync .dir, .ok 0⟩
def isFsyncDstOk (e : Event) : Bool := e == ⟨.fsync .dst, .ok 0⟩
def isFutimens (e : Event) : Bool := e.call == .futimens

/-- what precedes (is older than) a successful close of the target: attributes, then (syncing on) fsync of the file, then of the directory -/
def syncPat (c : Cfg α) : List (Event → Bool) :=
  if c.o.syncEff then [isFsyncDirOk, isFsyncDstOk, isFutimens] else [isFutimens]

def pat3 (c : Cfg α) : List (Event → Bool) := isCloseDstOk :: syncPat c

structure Q2 (c : Cfg α) (s : St α) : Prop where
  ownFile : s.fs.ownLinked = true → c.o.destStdout = false ∧ c.o.mode ≠ .test
  preOwn : s.main = false → s.fs.ownLinked = false
  synced : s.fs.ownSynced = true → SubPat [isFsyncDstOk, isFutimens] s.trace = true
  atFsync : s.pc = .fsyncFile → SubPat [isFutimens] s.trace = true
  dsynced : s.fs.dirSynced = true → SubPat [isFsyncDirOk, isFsyncDstOk, isFutimens] s.trace = true
  attrs : s.pc.isCloseD = true → s.success = true → SubPat [isFutimens] s.trace = true
  closed : s.success = true → s.fs.ownLinked = true → s.destOpen = false → SubPat (pat3 c) s.trace = true
  srcUnl : (∃ e ∈ s.trace, e.call = .unlink .src) → s.pc = .done ∧ SubPat (isUnlinkSrc :: pat3 c) s.trace = true

/-- a step from a program counter other than `done` that records one call (not `unlink source`), creates no target,
    sets no sync flag, and does not newly reach "closed successfully" -/
theorem q2_neutral {c : Cfg α} {s s' : St α} (q : Q2 c s) (hpc : s.pc ≠ .done) (ev : Event)
    (ht : s'.trace = ev :: s.trace) (hev : ev.call ≠ .unlink .src)
    (hol : s'.fs.ownLinked = true → s.fs.ownLinked = true) (hmain : s'.main = false → s.main = false)
    (hos : s'.fs.ownSynced = true → s.fs.ownSynced = true) (hds : s'.fs.dirSynced = true → s.fs.dirSynced = true)
    (hfs : s'.pc ≠ .fsyncFile) (hcd : s'.pc.isCloseD = true → s'.success = true → SubPat [isFutimens] s.trace = true)
    (hcl : s'.success = true → s'.fs.ownLinked = true → s'.destOpen = false →
      s.success = true ∧ s.destOpen = false) : Q2 c s' := by
  refine ⟨fun h => q.ownFile (hol h), ?_, ?_, fun h => absurd h hfs, ?_, ?_, ?_, ?_⟩
  · intro h
    cases ho : s'.fs.ownLinked with
    | false => rfl
    | true => have := q.preOwn (hmain h); rw [hol ho] at this; exact absurd this (by simp)
  · intro h; rw [ht]; exact subPat_cons _ (q.synced (hos h))
  · intro h; rw [ht]; exact subPat_cons _ (q.dsynced (hds h))
  · intro h1 h2; rw [ht]; exact subPat_cons _ (hcd h1 h2)
  · intro h1 h2 h3
    have := hcl h1 h2 h3
    rw [ht]; exact subPat_cons _ (q.closed this.1 (hol h2) this.2)
  · rintro ⟨e, he, hc⟩
    rw [ht] at he
    rcases List.mem_cons.mp he with rfl | he
    · exact absurd hc hev
    · exact absurd (q.srcUnl ⟨e, he, hc⟩).1 hpc

end XzVerif.XzIo
