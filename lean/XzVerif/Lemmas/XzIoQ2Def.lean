/-
  C17 invariant Q2 (ordering): what must already be in the trace when the source is unlinked.
  Traces are newest first; `SubPat ps tr` = the predicates `ps` are matched, in this order, by a subsequence of `tr`
  (so `SubPat [a, b] tr` says: an event matching `a` occurs after one matching `b`).
-/
import XzVerif.Lemmas.XzIoFrame
import XzVerif.Lemmas.XzIo

namespace XzVerif.XzIo
variable {α : Type}

def SubPat : List (Event → Bool) → List Event → Bool
  | [], _ => true
  | _ :: _, [] => false
  | p :: ps, e :: es => (p e && SubPat ps es) || SubPat (p :: ps) es

theorem subPat_cons {ps : List (Event → Bool)} {es : List Event} (e : Event) (h : SubPat ps es = true) :
    SubPat ps (e :: es) = true := by
  cases ps with
  | nil => simp [SubPat]
  | cons p ps => simp [SubPat, h]

theorem subPat_push {p : Event → Bool} {ps : List (Event → Bool)} {es : List Event} {e : Event} (hp : p e = true)
    (h : SubPat ps es = true) : SubPat (p :: ps) (e :: es) = true := by
  simp [SubPat, hp, h]

theorem subPat_tail {p : Event → Bool} {ps : List (Event → Bool)} {es : List Event} (h : SubPat (p :: ps) es = true) :
    SubPat ps es = true := by
  induction es with
  | nil => simp [SubPat] at h
  | cons e es ih =>
    simp only [SubPat, Bool.or_eq_true, Bool.and_eq_true] at h
    rcases h with h | h
    · exact subPat_cons e h.2
    · exact subPat_cons e (ih h)

def isUnlinkSrc (e : Event) : Bool := e.call == .unlink .src
def isCloseDstOk (e : Event) : Bool := e == ⟨.close .dst, .ok 0⟩
def isFsyncDirOk (e : Event) : Bool := e == ⟨.fsync .dir, .ok 0⟩
def isFsyncDstOk (e : Event) : Bool := e == ⟨.fsync .dst, .ok 0⟩
def isFutimens (e : Event) : Bool := e.call == .futimens

/-- what precedes (is older than) a successful close of the target: attributes, then (syncing on) fsync of the file, then of the directory -/
def syncPat (c : Cfg α) : List (Event → Bool) :=
  if c.o.syncEff then [isFsyncDirOk, isFsyncDstOk, isFutimens] else [isFutimens]

def pat3 (c : Cfg α) : List (Event → Bool) := isCloseDstOk :: syncPat c

structure Q2 (c : Cfg α) (s : St α) : Prop where
  ownFile : s.fs.ownLinked = true → c.o.destStdout = false ∧ c.o.mode ≠ .test
  preOwn : s.main = false → s.fs.ownLinked = false
  synced : s.fs.ownSynced = true → SubPat [isFsyncDstOk, isFutimens] s.trace = true
  atFsync : s.pc = .fsyncFile → SubPat [isFutimens] s.trace = true
  dsynced : s.fs.dirSynced = true → SubPat [isFsyncDirOk, isFsyncDstOk, isFutimens] s.trace = true
  attrs : s.pc.isCloseD = true → s.success = true → SubPat [isFutimens] s.trace = true
  closed : s.success = true → s.fs.ownLinked = true → s.destOpen = false → SubPat (pat3 c) s.trace = true
  srcUnl : (∃ e ∈ s.trace, e.call = .unlink .src) →
    s.pc = .done ∧ s.success = true ∧ c.o.keepEff = false ∧ c.o.stdin = false ∧ SubPat (isUnlinkSrc :: pat3 c) s.trace = true

/-- General step lemma: one call (not `unlink source`) is recorded from a pc other than `done`; whatever becomes newly
    true (a sync flag, "closed successfully", stopping at fsyncFile / closeDir / closeDest) comes with its pattern. -/
theorem q2_gen {c : Cfg α} {s s' : St α} (q : Q2 c s) (hpc : s.pc ≠ .done) (ev : Event)
    (ht : s'.trace = ev :: s.trace) (hev : ev.call ≠ .unlink .src)
    (hof : s'.fs.ownLinked = true → c.o.destStdout = false ∧ c.o.mode ≠ .test)
    (hpo : s'.main = false → s'.fs.ownLinked = false)
    (hos : s'.fs.ownSynced = true → s.fs.ownSynced = true ∨ SubPat [isFsyncDstOk, isFutimens] s'.trace = true)
    (hds : s'.fs.dirSynced = true → s.fs.dirSynced = true ∨ SubPat [isFsyncDirOk, isFsyncDstOk, isFutimens] s'.trace = true)
    (hfs : s'.pc = .fsyncFile → SubPat [isFutimens] s'.trace = true)
    (hcd : s'.pc.isCloseD = true → s'.success = true → SubPat [isFutimens] s'.trace = true)
    (hcl : s'.success = true → s'.fs.ownLinked = true → s'.destOpen = false →
      (s.success = true ∧ s.fs.ownLinked = true ∧ s.destOpen = false) ∨ SubPat (pat3 c) s'.trace = true) : Q2 c s' := by
  refine ⟨hof, hpo, ?_, hfs, ?_, hcd, ?_, ?_⟩
  · intro h
    rcases hos h with h | h
    · rw [ht]; exact subPat_cons _ (q.synced h)
    · exact h
  · intro h
    rcases hds h with h | h
    · rw [ht]; exact subPat_cons _ (q.dsynced h)
    · exact h
  · intro h1 h2 h3
    rcases hcl h1 h2 h3 with h | h
    · rw [ht]; exact subPat_cons _ (q.closed h.1 h.2.1 h.2.2)
    · exact h
  · rintro ⟨e, he, hc⟩
    rw [ht] at he
    rcases List.mem_cons.mp he with rfl | he
    · exact absurd hc hev
    · exact absurd (q.srcUnl ⟨e, he, hc⟩).1 hpc

/-- a step from a program counter other than `done` that records one call (not `unlink source`), creates no target,
    sets no sync flag, and does not newly reach "closed successfully" -/
theorem q2_neutral {c : Cfg α} {s s' : St α} (q : Q2 c s) (hpc : s.pc ≠ .done) (ev : Event)
    (ht : s'.trace = ev :: s.trace) (hev : ev.call ≠ .unlink .src)
    (hol : s'.fs.ownLinked = true → s.fs.ownLinked = true) (hmain : s'.main = false → s.main = false)
    (hos : s'.fs.ownSynced = true → s.fs.ownSynced = true) (hds : s'.fs.dirSynced = true → s.fs.dirSynced = true)
    (hfs : s'.pc ≠ .fsyncFile) (hcd : s'.pc.isCloseD = true → s'.success = true → SubPat [isFutimens] s.trace = true)
    (hcl : s'.success = true → s'.fs.ownLinked = true → s'.destOpen = false →
      s.success = true ∧ s.destOpen = false) : Q2 c s' := by
  refine q2_gen q hpc ev ht hev (fun h => q.ownFile (hol h)) ?_ (fun h => Or.inl (hos h)) (fun h => Or.inl (hds h))
    (fun h => absurd h hfs) (fun h1 h2 => by rw [ht]; exact subPat_cons _ (hcd h1 h2))
    (fun h1 h2 h3 => Or.inl ⟨(hcl h1 h2 h3).1, hol h2, (hcl h1 h2 h3).2⟩)
  intro h
  cases ho : s'.fs.ownLinked with
  | false => rfl
  | true => have := q.preOwn (hmain h); rw [hol ho] at this; exact absurd this (by simp)

/-- `q2_neutral` for a step that ends in a dispatcher: `s1` is the state handed to the dispatcher -/
theorem q2_via {c : Cfg α} {s s1 s' : St α} (q : Q2 c s) (hpc : s.pc ≠ .done) (fr : Frame s1 s') {ev : Event}
    (ht : s1.trace = ev :: s.trace) (hev : ev.call ≠ .unlink .src) (hfs : s1.fs = s.fs) (hm : s1.main = s.main)
    (hfsync : s'.pc ≠ .fsyncFile)
    (hcd : s'.pc.isCloseD = true → s'.success = true → SubPat [isFutimens] s.trace = true)
    (hcl : s'.success = true → s.fs.ownLinked = true → s1.destOpen = false → s.success = true ∧ s.destOpen = false) :
    Q2 c s' := by
  refine q2_neutral q hpc ev (fr.trace.trans ht) hev ?_ ?_ ?_ ?_ hfsync hcd ?_
  · rw [fr.fs, hfs]; exact id
  · intro h; rw [← hm]; exact fr.mainMono h
  · rw [fr.fs, hfs]; exact id
  · rw [fr.fs, hfs]; exact id
  · intro h1 h2 h3
    rw [fr.fs, hfs] at h2
    rw [fr.destOpen] at h3
    exact hcl h1 h2 h3

/-- dispatcher result that certainly has `success = false` -/
theorem q2_via_fail {c : Cfg α} {s s1 s' : St α} (q : Q2 c s) (hpc : s.pc ≠ .done) (fr : Frame s1 s') {ev : Event}
    (ht : s1.trace = ev :: s.trace) (hev : ev.call ≠ .unlink .src) (hfs : s1.fs = s.fs) (hm : s1.main = s.main)
    (hfsync : s'.pc ≠ .fsyncFile) (hs : s'.success = false) : Q2 c s' :=
  q2_via q hpc fr ht hev hfs hm hfsync (fun _ h => by rw [hs] at h; simp at h) (fun h => by rw [hs] at h; simp at h)

theorem unlinkDstName_ownLinked_mono (fs : FS α) : fs.unlinkDstName.ownLinked = true → fs.ownLinked = true := by
  unfold FS.unlinkDstName FS.unlinkIno; repeat' split
  all_goals simp
theorem unlinkDstName_ownSynced (fs : FS α) : fs.unlinkDstName.ownSynced = fs.ownSynced := by
  unfold FS.unlinkDstName FS.unlinkIno; repeat' split
  all_goals rfl
theorem unlinkDstName_dirSynced (fs : FS α) : fs.unlinkDstName.dirSynced = fs.dirSynced := by
  unfold FS.unlinkDstName FS.unlinkIno; repeat' split
  all_goals rfl
theorem appendData_ownSynced_mono (c : Cfg α) (s : St α) (d : List α) :
    (appendData c s d).fs.ownSynced = true → s.fs.ownSynced = true := by
  unfold appendData; split <;> simp

end XzVerif.XzIo
