/-
  SOUNDNESS of the container decoder w.r.t. the declarative grammar of Lemmas/XzGrammar.lean:
  `xzLoop … = LZMA_STREAM_END ⇒ DValidXz` (incl. the numeric limits `BlockLimits` that `lzma_index_hash_append` enforced).
  Needs the two proved properties of the payload decoder (`PayloadLocal`, `PayloadBounded`) to cut the Compressed Data out of the
  bytes the Block decoder showed to the payload decoder.  Kernel proofs, core Lean only.
-/
import XzVerif.Lemmas.XzGrammar

namespace XzVerif.XzDecode
open XzVerif XzVerif.Vli XzVerif.Container

/-! ### `lzma_index_hash_append` and `lzma_block_unpadded_size` as conditions -/

theorem indexHashAppend_ok_iff (blocks : HashInfo) (u c : Nat) :
    indexHashAppend blocks u c = .ok (blocks ++ [⟨u, c⟩]) ↔
      (UNPADDED_SIZE_MIN ≤ u ∧ u ≤ UNPADDED_SIZE_MAX ∧ c ≤ VLI_MAX ∧ HashLimits (blocks ++ [⟨u, c⟩])) := by
  unfold indexHashAppend HashLimits
  constructor
  · intro h
    split at h
    · cases h
    · simp only [] at h
      split at h
      · cases h
      · omega
  · intro ⟨h1, h2, h3, h4⟩
    rw [if_neg (by omega)]
    simp only []
    rw [if_neg (by omega)]

theorem blockUnpaddedSize_eq (hs check clen : Nat) (h8 : BLOCK_HEADER_SIZE_MIN ≤ hs) (h1024 : hs ≤ BLOCK_HEADER_SIZE_MAX)
    (h4 : hs % 4 = 0) (hck : check ≤ CHECK_ID_MAX) (hc0 : clen ≠ 0) (hu : clen + hs + checkSize check ≤ UNPADDED_SIZE_MAX) :
    blockUnpaddedSize 1 hs check (some clen) = clen + hs + checkSize check := by
  unfold blockUnpaddedSize
  have hv : vliIsValid (some clen) = true := by
    unfold UNPADDED_SIZE_MAX at hu
    have : clen ≤ VLI_MAX := by unfold VLI_MAX; omega
    simp [vliIsValid, this]
  rw [if_neg (by
    simp only [hv, Bool.not_true, Bool.false_eq_true, Option.some.injEq, not_or, false_or]
    refine ⟨by omega, by omega, by omega, by omega, hc0, by omega⟩)]
  simp only []
  rw [if_neg (by omega)]

theorem blockUnpaddedSize_clen (hs check clen : Nat) (h : blockUnpaddedSize 1 hs check (some clen) ≠ 0) : clen ≠ 0 := by
  intro h0
  subst h0
  apply h
  unfold blockUnpaddedSize
  rw [if_pos (by simp)]

/-- facts about an accepted Block Header -/
theorem blockHeaderDecodeWith_size (hs check : Nat) (b : List UInt8) (h : BlockHeader)
    (hok : blockHeaderDecodeWith hs check b = .ok h) : ((b.getD 0 0).toNat + 1) * 4 = hs ∧ check ≤ CHECK_ID_MAX := by
  unfold blockHeaderDecodeWith at hok
  split at hok
  · cases hok
  · rename_i hc
    constructor
    · exact Decidable.of_not_not (fun hn => hc (Or.inl hn))
    · exact Nat.le_of_not_gt (fun hn => hc (Or.inr hn))

/-! ### the Blocks of a Stream -/

theorem blocksLoop_sound_decl (E : Env) (hloc : PayloadLocal E) (hbd : PayloadBounded E) (fl : Flags) (hdr : StreamFlags) :
    ∀ (fuel : Nat) (blocks : HashInfo) (inp : List UInt8) (cap : Nat) (r : SRes),
      blocksLoop E fl hdr fuel blocks inp cap = r → r.ret = .streamEnd →
      ∃ (out : List UInt8) (c : Nat) (final : HashInfo) (s2 : SRes),
        DBlocks E fl hdr blocks inp cap out c final ∧ indexAndFooter hdr final (inp.drop c) = s2 ∧
        s2.ret = .streamEnd ∧ r.out = out ∧ r.consumed = c + s2.consumed := by
  intro fuel
  induction fuel with
  | zero =>
    intro blocks inp cap r hdef hr
    simp only [blocksLoop] at hdef
    subst hdef; simp at hr
  | succ fuel ih =>
    intro blocks inp cap r hdef hr
    simp only [blocksLoop] at hdef
    cases inp with
    | nil => simp only [] at hdef; subst hdef; simp at hr
    | cons b0 tl =>
      simp only [] at hdef
      by_cases h0 : b0.toNat = INDEX_INDICATOR
      · rw [if_pos h0] at hdef
        refine ⟨[], 0, blocks, r, DBlocks.done _ _ _, by simpa using hdef, hr, ?_, by simp⟩
        exact (indexAndFooter_streamEnd hdr blocks (b0 :: tl) r hdef hr).out_nil
      rw [if_neg h0] at hdef
      have h0' : b0.toNat ≠ 0 := by simpa [INDEX_INDICATOR] using h0
      by_cases hlen : (b0 :: tl).length < (b0.toNat + 1) * 4
      · rw [if_pos hlen] at hdef; subst hdef; simp at hr
      rw [if_neg hlen] at hdef
      generalize hhs : (b0.toNat + 1) * 4 = hs at hdef hlen
      cases hh : blockHeaderDecodeWith hs hdr.check (List.take hs (b0 :: tl)) with
      | error e =>
        rw [hh] at hdef; simp only [] at hdef; subst hdef
        exact absurd hr (blockHeaderDecodeWith_error_ne _ _ _ _ hh)
      | ok h =>
        rw [hh] at hdef; simp only [] at hdef
        cases hv : validateChain (List.map (fun x => x.id) h.filters) with
        | error e => rw [hv] at hdef; simp only [] at hdef; subst hdef; simp at hr
        | ok n =>
          rw [hv] at hdef; simp only [] at hdef
          generalize hX : List.drop hs (b0 :: tl) = X at hdef
          by_cases hbr : (blockDecode E hdr.check fl.ignoreCheck hs h X cap).ret ≠ .streamEnd
          · rw [if_pos hbr] at hdef; subst hdef; exact absurd hr hbr
          rw [if_neg hbr] at hdef
          have hbr' : (blockDecode E hdr.check fl.ignoreCheck hs h X cap).ret = .streamEnd := Decidable.of_not_not hbr
          obtain ⟨hcl, hsplit, hD⟩ := blockDecode_sound_decl E hloc hbd hdr.check fl.ignoreCheck hs h X cap hbr'
          have hcons := (blockDecode_streamEnd E hdr.check fl.ignoreCheck hs h X cap _ rfl hbr').consumed_eq
          have hchklen := (blockDecode_streamEnd E hdr.check fl.ignoreCheck hs h X cap _ rfl hbr').check_len
          generalize hbdef : blockDecode E hdr.check fl.ignoreCheck hs h X cap = b at hdef hcl hsplit hD hcons hchklen
          cases ha : indexHashAppend blocks (blockUnpaddedSize 1 hs hdr.check (some b.compressed)) b.out.length with
          | error e =>
            rw [ha] at hdef; simp only [] at hdef; subst hdef
            exact absurd hr (indexHashAppend_error_ne _ _ _ _ ha)
          | ok blocks' =>
            rw [ha] at hdef; simp only [] at hdef
            obtain ⟨hb', hmin, _, _⟩ := indexHashAppend_ok _ _ _ _ ha
            have hune : blockUnpaddedSize 1 hs hdr.check (some b.compressed) ≠ 0 := by
              unfold UNPADDED_SIZE_MIN at hmin; omega
            have hu := blockUnpaddedSize_some _ _ _ _ rfl hune
            have hc0 := blockUnpaddedSize_clen _ _ _ hune
            rw [hu] at hb' ha
            subst hb'
            have hlimits := (indexHashAppend_ok_iff blocks _ _).1 ha
            generalize hrec : blocksLoop E fl hdr fuel _ _ _ = r' at hdef
            subst hdef
            simp only [] at hr
            obtain ⟨out', c', final, s2, hrun, hif, hs2, ho, hc⟩ := ih _ _ _ r' hrec hr
            -- the header bytes
            have hhblen : (b0 :: tl.take (hs - 1)).length = hs := by
              simp only [List.length_cons, List.length_take] at hlen ⊢
              omega
            have hhb : List.take hs (b0 :: tl) = b0 :: tl.take (hs - 1) := by
              obtain ⟨k, hk⟩ : ∃ k, hs = k + 1 := ⟨hs - 1, by omega⟩
              rw [hk, List.take_succ_cons]; simp
            have hclen : (X.take b.compressed).length = b.compressed := by
              rw [List.length_take]; exact Nat.min_eq_left hcl
            refine ⟨b.out ++ out', hs + b.consumed + c', final, s2, ?_, ?_, hs2, by simp [ho], by simp only []; omega⟩
            · have hD' := hD
              have := DBlocks.block (E := E) (fl := fl) (hdr := hdr) blocks (b0 :: tl) cap b0 (tl.take (hs - 1)) h
                (X.take b.compressed) b.out (List.replicate (blockPadLen b.compressed) 0)
                ((X.drop (b.compressed + blockPadLen b.compressed)).take (if hdr.check = 0 then 0 else checkSize hdr.check))
                (X.drop b.consumed) out' c' final
                (by
                  rw [← hhb]
                  have e0 : b0 :: tl = List.take hs (b0 :: tl) ++ X := by rw [← hX, List.take_append_drop]
                  conv => lhs; rw [e0, hsplit]
                  simp only [List.append_assoc])
                h0' (by rw [hhblen, ← hhb]; exact hh) ⟨n, hv⟩ hD'
                (by
                  rw [hhblen, hclen]
                  exact ⟨hc0, hlimits.2.1, hlimits.2.2.1, hlimits.2.2.2⟩)
                (by
                  rw [hhblen, hclen]
                  have e : List.drop (hs + b.consumed) (b0 :: tl) = X.drop b.consumed := by
                    rw [← hX, List.drop_drop]
                  rw [← e]
                  exact hrun)
              rw [hhblen, hclen, List.length_replicate, hchklen] at this
              have e2 : hs + b.compressed + blockPadLen b.compressed + (if hdr.check = 0 then 0 else checkSize hdr.check) + c'
                  = hs + b.consumed + c' := by rw [hcons]; omega
              rw [e2] at this
              exact this
            · rw [← hif, List.drop_drop]

/-! ### one Stream, the whole file -/

theorem streamOne_sound_decl (E : Env) (hloc : PayloadLocal E) (hbd : PayloadBounded E) (fl : Flags) (first : Bool)
    (inp : List UInt8) (cap : Nat) (s : DRes) (hdef : streamOne E fl first inp cap = s) (hs : s.ret = .streamEnd) :
    DValidStream E fl inp cap s.out s.consumed := by
  unfold streamOne at hdef
  by_cases hlen : inp.length < STREAM_HEADER_SIZE
  · rw [if_pos hlen] at hdef; subst hdef; simp at hs
  rw [if_neg hlen] at hdef
  cases hh : streamHeaderDecode (List.take STREAM_HEADER_SIZE inp) with
  | error e =>
    rw [hh] at hdef; simp only [] at hdef; subst hdef
    simp only [] at hs
    split at hs
    · simp at hs
    · exact absurd hs (streamHeaderDecode_error_ne _ _ hh)
  | ok hdr =>
    rw [hh] at hdef; simp only [] at hdef
    generalize hb : blocksLoop E fl hdr (inp.length + 1) [] (List.drop STREAM_HEADER_SIZE inp) cap = r at hdef
    subst hdef
    simp only [] at hs ⊢
    obtain ⟨out, c, final, s2, hrun, hif, hs2, ho, hc⟩ := blocksLoop_sound_decl E hloc hbd fl hdr _ _ _ _ r hb hs
    have hf := indexAndFooter_streamEnd hdr final _ s2 hif hs2
    rw [List.drop_drop] at hf
    refine ⟨hdr, c, final, s2, by omega, hh, by rw [ho]; exact hrun, hf, by omega, ?_⟩
    have h1 := hf.consumed_le
    rw [List.length_drop] at h1
    by_cases hcl : STREAM_HEADER_SIZE + c ≤ inp.length
    · omega
    · have h2 := hf.consumed_eq
      unfold STREAM_HEADER_SIZE at h1 h2 hcl ⊢
      omega

theorem xzLoop_sound_decl (E : Env) (hloc : PayloadLocal E) (hbd : PayloadBounded E) (fl : Flags) :
    ∀ (fuel : Nat) (first : Bool) (inp : List UInt8) (cap : Nat) (r : DRes),
      xzLoop E fl fuel first inp cap = r → r.ret = .streamEnd → DValidXz E fl inp cap r.out r.consumed := by
  intro fuel
  induction fuel with
  | zero =>
    intro first inp cap r hdef hr
    simp only [xzLoop] at hdef; subst hdef; simp at hr
  | succ fuel ih =>
    intro first inp cap r hdef hr
    simp only [xzLoop] at hdef
    generalize hs : streamOne E fl first inp cap = s at hdef
    by_cases hsr : s.ret ≠ .streamEnd
    · rw [if_pos hsr] at hdef; subst hdef; exact absurd hr hsr
    rw [if_neg hsr] at hdef
    have hsr' : s.ret = .streamEnd := Decidable.of_not_not hsr
    have hv := streamOne_sound_decl E hloc hbd fl first inp cap s hs hsr'
    by_cases hc : (!fl.concatenated) = true
    · rw [if_pos hc] at hdef; subst hdef
      exact DValidXz.single _ _ _ _ (by simpa using hc) hv
    rw [if_neg hc] at hdef
    have hc' : fl.concatenated = true := by simpa using hc
    cases hp : streamPadding (List.drop s.consumed inp) 0 0 with
    | inl p =>
      obtain ⟨pr, n⟩ := p
      rw [hp] at hdef; simp only [] at hdef; subst hdef
      simp only [] at hr ⊢
      subst hr
      obtain ⟨_, hl, hm⟩ := (streamPadding_facts _ 0 0).1 n hp
      simp only [Nat.sub_zero, Nat.zero_add] at hl hm
      have hn : n = 4 * (n / 4) := by omega
      rw [hn]
      exact DValidXz.last _ _ _ _ _ hc' hv (by rw [← hn]; exact hl)
    | inr n =>
      rw [hp] at hdef; simp only [] at hdef
      obtain ⟨_, hm, b, rest, hb, hl⟩ := (streamPadding_facts _ 0 0).2 n hp (by decide)
      simp only [Nat.sub_zero, Nat.zero_add] at hl hm
      have hn : n = 4 * (n / 4) := by omega
      generalize hrec : xzLoop E fl fuel false (List.drop (s.consumed + n) inp) (cap - s.out.length) = r2 at hdef
      subst hdef
      simp only [prepend] at hr ⊢
      have hv2 := ih _ _ _ r2 hrec hr
      have hd : List.drop (s.consumed + n) inp = b :: rest := by
        have := drop_add_of_drop inp s.consumed _ _ hl
        rwa [List.length_replicate] at this
      rw [hd] at hv2
      rw [hn] at hl ⊢
      exact DValidXz.more _ _ _ _ _ b rest _ _ hc' hv hl hb hv2

end XzVerif.XzDecode
