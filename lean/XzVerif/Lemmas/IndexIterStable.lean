/-
  C13 helper lemmas: when the index grows by `lzma_index_append` / `lzma_index_cat`, the part of the listing up to the
  iterator's position does not change — so "what was shown before" followed by "what is shown afterwards" is exactly
  the listing of the new index (every element once, in order), except in the F6b corner.
-/
import XzVerif.Lemmas.IndexIterAll

namespace XzVerif.Index

/-! ### sorted lists -/

section Sorted
variable {β : Type} (lt : β → β → Prop) (irr : ∀ a, ¬ lt a a) (tr : ∀ a b c, lt a b → lt b c → lt a c)
include irr tr

/-- strictly sorted lists with the same members are equal -/
theorem sorted_ext : ∀ (l1 l2 : List β), l1.Pairwise lt → l2.Pairwise lt → (∀ x, x ∈ l1 ↔ x ∈ l2) → l1 = l2
  | [], [], _, _, _ => rfl
  | [], y :: _, _, _, h => by have := (h y).mpr (by simp); simp at this
  | x :: _, [], _, _, h => by have := (h x).mp (by simp); simp at this
  | x :: r1, y :: r2, h1, h2, h => by
    rw [List.pairwise_cons] at h1 h2
    have hxy : x = y := by
      have hx := (h x).mp (by simp)
      have hy := (h y).mpr (by simp)
      rcases List.mem_cons.mp hx with e | hx'
      · exact e
      · rcases List.mem_cons.mp hy with e | hy'
        · exact e.symm
        · exact absurd (tr _ _ _ (h1.1 y hy') (h2.1 x hx')) (irr x)
    subst hxy
    congr 1
    apply sorted_ext r1 r2 h1.2 h2.2
    intro z
    constructor
    · intro hz
      rcases List.mem_cons.mp ((h z).mp (List.mem_cons_of_mem _ hz)) with e | hz'
      · subst e; exact absurd (h1.1 z hz) (irr z)
      · exact hz'
    · intro hz
      rcases List.mem_cons.mp ((h z).mpr (List.mem_cons_of_mem _ hz)) with e | hz'
      · subst e; exact absurd (h2.1 z hz) (irr z)
      · exact hz'

omit irr tr in
/-- a sorted list is its part not satisfying an upward closed predicate followed by its part satisfying it -/
theorem sorted_split (p : β → Bool) (hup : ∀ x y, lt x y → p x = true → p y = true) :
    ∀ (l : List β), l.Pairwise lt → l = l.filter (fun x => !p x) ++ l.filter p
  | [], _ => rfl
  | x :: r, h => by
    rw [List.pairwise_cons] at h
    by_cases hx : p x = true
    · have hall : ∀ y ∈ r, p y = true := fun y hy => hup x y (h.1 y hy) hx
      have e1 : r.filter p = r := List.filter_eq_self.mpr hall
      have e2 : r.filter (fun x => !p x) = [] := List.filter_eq_nil_iff.mpr (fun y hy => by simp [hall y hy])
      simp [List.filter_cons, hx, e1, e2]
    · have := sorted_split p hup r h.2
      simp only [List.filter_cons, hx, Bool.not_eq_true] at this ⊢
      simp only [Bool.not_eq_true] at hx
      simp only [hx, Bool.not_false, if_true, Bool.false_eq_true, if_false, List.cons_append]
      congr 1

end Sorted

namespace Spec

/-! ### the listing up to a position is stable under growth -/

/-- every Stream of `a` is still there in `a'` with at least the same Blocks; only the last Stream of `a` may have more -/
def PrefixOf (a a' : Index) : Prop :=
  ∀ (si : Nat) (s : StreamRec), a[si]? = some s → ∃ s' t, a'[si]? = some s' ∧ s'.blocks = s.blocks ++ t
    ∧ (t ≠ [] → si + 1 = a.length)

/-- the current position names an existing Block of `a`, or a Stream of `a` without Blocks -/
def CurIn (a : Index) (cur : Option Pos) : Prop :=
  ∀ c, cur = some c → ∃ s, a[c.1]? = some s ∧
    match c.2 with
    | none => s.blocks = []
    | some b => b < s.blocks.length

/-- not the F6b corner: an iterator parked on a Stream without Blocks whose Stream has Blocks in `a'` -/
def NotParkedGrown (a' : Index) (cur : Option Pos) : Prop :=
  ∀ si, cur = some (si, none) → ∀ s', a'[si]? = some s' → s'.blocks = []

theorem prefixOf_refl (a : Index) : PrefixOf a a := fun _ s hs => ⟨s, [], hs, by simp, fun h => absurd rfl h⟩

theorem prefixOf_append (a b : Index) : PrefixOf a (a ++ b) := by
  intro si s hs
  refine ⟨s, [], ?_, by simp, fun h => absurd rfl h⟩
  rw [List.getElem?_append_left (List.getElem?_eq_some_iff.mp hs).1]; exact hs

theorem prefixOf_modifyLast (a : Index) (blk : Block) :
    PrefixOf a (modifyLast (fun s => { s with blocks := s.blocks ++ [blk] }) a) := by
  by_cases hne : a = []
  · subst hne; intro si s hs; simp at hs
  · obtain ⟨front, last, rfl⟩ := exists_snoc hne
    rw [modifyLast_append_singleton]
    intro si s hs
    have hlt := (List.getElem?_eq_some_iff.mp hs).1
    simp only [List.length_append, List.length_cons, List.length_nil] at hlt
    by_cases hk : si < front.length
    · rw [List.getElem?_append_left hk] at hs
      exact ⟨s, [], by rw [List.getElem?_append_left hk]; exact hs, by simp, fun h => absurd rfl h⟩
    · have hke : si = front.length := by omega
      subst hke
      have : s = last := by simpa using hs.symm
      subst this
      exact ⟨{ s with blocks := s.blocks ++ [blk] }, [blk], by simp, rfl, fun _ => by simp⟩

/-- positions not after `cur` are listed in `a'` iff they are listed in `a` -/
theorem listed_stable {a a' : Index} (hp : PrefixOf a a') {c : Pos} (hc : CurIn a (some c))
    (hf : NotParkedGrown a' (some c)) {mode : Nat} (y : Pos) (hy : ¬ plt c y) :
    (Listed a' mode y ↔ Listed a mode y)
    ∧ (Listed a 2 y → blockEmptyAt a' y = blockEmptyAt a y) := by
  obtain ⟨si, bi⟩ := c
  obtain ⟨y1, y2⟩ := y
  obtain ⟨s, hs, hcb⟩ := hc (si, bi) rfl
  simp only at hs hcb
  unfold plt at hy
  simp only at hy
  have hy1 : y1 ≤ si := by omega
  have hsi : si < a.length := (List.getElem?_eq_some_iff.mp hs).1
  have hsy : a[y1]? = some a[y1] := List.getElem?_eq_getElem (by omega)
  generalize a[y1] = sy at hsy
  obtain ⟨sy', t, hsy', hblocks, hlast⟩ := hp y1 sy hsy
  -- the Blocks of Stream `y1` that matter are the same
  have hsame : t = [] ∨ (y1 = si ∧ ∃ b0, bi = some b0 ∧ b0 < s.blocks.length ∧ y2.getD 0 ≤ b0) := by
    by_cases ht : t = []
    · exact Or.inl ht
    · right
      have hl := hlast ht
      have hye : y1 = si := by omega
      subst hye
      rw [hs] at hsy; cases hsy
      cases bi with
      | none =>
        simp only at hcb
        have := hf y1 rfl sy' hsy'
        rw [hblocks, hcb] at this
        simp at this
        exact absurd this ht
      | some b0 =>
        simp only at hcb
        have e : (some b0).getD 0 = b0 := rfl
        exact ⟨rfl, b0, rfl, hcb, by omega⟩
  rcases hsame with ht | ⟨hye, b0, hbi, hb0, hyb⟩
  · have hb : sy'.blocks = sy.blocks := by rw [hblocks, ht]; simp
    constructor
    · unfold Listed
      simp only [hsy, hsy', Option.some.injEq, exists_eq_left', hb]
    · intro _
      unfold blockEmptyAt
      simp only [hsy, hsy', hb]
  · subst hye
    rw [hs] at hsy; cases hsy
    have hne : s.blocks ≠ [] := by intro h; rw [h] at hb0; simp at hb0
    have hne' : sy'.blocks ≠ [] := by rw [hblocks]; simp [hne]
    have he : s.blocks.isEmpty = false := by cases hb : s.blocks with | nil => exact absurd hb hne | cons _ _ => rfl
    have he' : sy'.blocks.isEmpty = false := by
      cases hb : sy'.blocks with | nil => exact absurd hb hne' | cons _ _ => rfl
    have hlen : s.blocks.length ≤ sy'.blocks.length := by rw [hblocks]; simp
    constructor
    · unfold Listed
      simp only [hs, hsy', Option.some.injEq, exists_eq_left', he, he', Bool.false_eq_true, false_and, false_or, if_false]
      by_cases hm1 : mode = 1
      · simp only [hm1, if_true]
      · simp only [hm1, if_false]
        constructor
        · rintro ⟨b, hb, _⟩
          rw [hb] at hyb; simp only [Option.getD_some] at hyb
          exact ⟨b, hb, by omega⟩
        · rintro ⟨b, hb, hlt⟩
          exact ⟨b, hb, by omega⟩
    · rintro ⟨sx, hsx, hl⟩
      simp only at hsx hl
      rw [hs] at hsx; cases hsx
      have h2 : ¬ (2 : Nat) = 1 := by omega
      rw [if_neg h2] at hl
      rcases hl with ⟨hemp, _, _⟩ | ⟨b, hb, hlt⟩
      · rw [he] at hemp; cases hemp
      · unfold blockEmptyAt
        simp only [hs, hsy', hb, Option.getD_some]
        rw [hblocks, List.getElem?_append_left hlt]

/-- the part of the listing that is not after the current position is the same before and after the growth -/
theorem listing_stable {a a' : Index} (hp : PrefixOf a a') {cur : Option Pos} (hc : CurIn a cur)
    (hf : NotParkedGrown a' cur) (mode : Nat) :
    (listingM a' mode).filter (fun y => !decide (above cur y)) = (listingM a mode).filter (fun y => !decide (above cur y)) := by
  cases cur with
  | none =>
    have : ∀ l : List Pos, l.filter (fun y => !decide (above none y)) = [] := by
      intro l; rw [List.filter_eq_nil_iff]; intro y _; simp [aboveG]
    rw [this, this]
  | some c =>
    apply sorted_ext plt plt_irr plt_trans _ _ ((listingM_sorted a' mode).filter _) ((listingM_sorted a mode).filter _)
    intro y
    simp only [List.mem_filter, Bool.not_eq_true', decide_eq_false_iff_not]
    have hab : above (some c) y ↔ plt c y := Iff.rfl
    rw [hab]
    constructor
    · rintro ⟨hy, hn⟩
      refine ⟨?_, hn⟩
      obtain ⟨h1, h2⟩ := listed_stable hp hc hf (mode := if mode ≤ 2 then mode else 2) y hn
      unfold listingM at hy ⊢
      by_cases hm : mode ≤ 2
      · rw [if_pos hm] at hy ⊢ h1
        exact (mem_listing hm y).mpr (h1.mp ((mem_listing hm y).mp hy))
      · rw [if_neg hm] at hy ⊢ h1
        by_cases h3 : mode = 3
        · rw [if_pos h3] at hy ⊢
          unfold listing3 at hy ⊢
          rw [List.mem_filter] at hy ⊢
          rw [← listing_two] at hy ⊢
          have hl := h1.mp ((mem_listing (Nat.le_refl 2) y).mp hy.1)
          exact ⟨(mem_listing (Nat.le_refl 2) y).mpr hl, by rw [← h2 hl]; exact hy.2⟩
        · rw [if_neg h3] at hy; simp at hy
    · rintro ⟨hy, hn⟩
      refine ⟨?_, hn⟩
      obtain ⟨h1, h2⟩ := listed_stable hp hc hf (mode := if mode ≤ 2 then mode else 2) y hn
      unfold listingM at hy ⊢
      by_cases hm : mode ≤ 2
      · rw [if_pos hm] at hy ⊢ h1
        exact (mem_listing hm y).mpr (h1.mpr ((mem_listing hm y).mp hy))
      · rw [if_neg hm] at hy ⊢ h1
        by_cases h3 : mode = 3
        · rw [if_pos h3] at hy ⊢
          unfold listing3 at hy ⊢
          rw [List.mem_filter] at hy ⊢
          rw [← listing_two] at hy ⊢
          have hl := (mem_listing (Nat.le_refl 2) y).mp hy.1
          exact ⟨(mem_listing (Nat.le_refl 2) y).mpr (h1.mpr hl), by rw [h2 hl]; exact hy.2⟩
        · rw [if_neg h3] at hy; simp at hy

/-- the new listing = the old listing up to the current position ++ the new listing after it -/
theorem listing_split {a a' : Index} (hp : PrefixOf a a') {cur : Option Pos} (hc : CurIn a cur)
    (hf : NotParkedGrown a' cur) (mode : Nat) :
    listingM a' mode = (listingM a mode).filter (fun y => !decide (above cur y))
      ++ (listingM a' mode).filter (fun y => decide (above cur y)) := by
  rw [← listing_stable hp hc hf mode]
  apply sorted_split plt (fun y => decide (above cur y)) _ _ (listingM_sorted a' mode)
  intro x y hxy hx
  simp only [decide_eq_true_eq] at hx ⊢
  cases cur with
  | none => trivial
  | some c => exact plt_trans c x y hx hxy

end Spec

namespace Impl

/-- the iterator's position names an existing Block of the specification index, or a Stream without Blocks -/
theorem specPos_curIn {i : Index} (hi : Inv i) {it : Iter} (hok : IterOk i it) : Spec.CurIn (abs i) (specPos i it) := by
  intro c hc
  unfold specPos toSpecPos at hc
  unfold IterOk PosOk at hok
  cases hst : it.stream with
  | none => rw [hst] at hc; cases hc
  | some si =>
    rw [hst] at hc hok
    obtain ⟨s, hs, hpos⟩ := hok
    have hsi : StreamInv s := hi.streams s (List.mem_of_getElem? hs)
    simp only [Option.map_some, Option.some.injEq] at hc
    subst hc
    refine ⟨absStream s, by show (abs i)[si]? = _; rw [abs_getElem?, hs]; rfl, ?_⟩
    cases hd : decodeGroup i it with
    | none =>
      rw [hd] at hpos
      simp only [specOf, Option.map_none]
      exact (blocks_nil_iff hsi).mpr hpos.1
    | some gi =>
      rw [hd] at hpos
      obtain ⟨g, hg, hrec⟩ := hpos
      simp only [specOf, Option.map_some, nBefore_eq hs]
      have := recsBefore_add_le hg
      have hl : (absStream s).blocks.length = s.allRecs.length := blocksOfRecs_length _ _ _
      omega

theorem append_prefixOf {i : Index} (hi : Inv i) (u c : Nat) : Spec.PrefixOf (abs i) (abs (Impl.append i u c).2) := by
  rcases append_refines hi u c with hm | ⟨_, h2, _⟩
  · rw [hm]; exact Spec.prefixOf_refl _
  · rw [h2]
    unfold Spec.append
    cases Spec.appendCheck (abs i) u c with
    | some r => exact Spec.prefixOf_refl _
    | none => exact Spec.prefixOf_modifyLast _ _

theorem cat_prefixOf {dest src : Index} (hd : Inv dest) (hs : Inv src) :
    Spec.PrefixOf (abs dest) (abs (Impl.cat dest src).2) := by
  rw [(cat_refines hd hs).2.1]
  unfold Spec.cat
  cases Spec.catCheck (abs dest) (abs src) with
  | some r => exact Spec.prefixOf_refl _
  | none => exact Spec.prefixOf_append _ _

end Impl
end XzVerif.Index
