/-
  C08 helper lemmas, part K: the threaded encoder's container model only looks at the payloads of its own Blocks
  (congruence in the encoder environment), and the payload-table device of Lemmas/E2EExample.lean for `streamEncodeMT`.
-/
import XzVerif.Lemmas.MtEncJ
import XzVerif.Lemmas.E2EExample

namespace XzVerif.MtEnc
open XzVerif XzVerif.Container XzVerif.XzEncode XzVerif.XzEncEnv XzVerif.E2E

theorem blockEncodeMT_congr (E E' : EncEnv) (check : Nat) (fs : List FilterOpts) (bs : Nat) (d : List UInt8)
    (h1 : E.rawInit = E'.rawInit) (h2 : E.check = E'.check) (h3 : E.encPayload fs d = E'.encPayload fs d) :
    blockEncodeMT E check fs bs d = blockEncodeMT E' check fs bs d := by
  unfold blockEncodeMT blockEncoderInit blockBody blockBufferEncode
  simp only [Bool.false_eq_true, if_false]
  rw [h1, h2, h3]

theorem streamEncodeMT_congr (E E' : EncEnv) (cfg : XzEncode.Cfg) (bs : Nat) (pieces : List (List UInt8))
    (h1 : E.rawInit = E'.rawInit) (h2 : E.check = E'.check)
    (h3 : ∀ d ∈ (pieces.flatMap fun q => chunksOf bs q.length q), E.encPayload cfg.filters d = E'.encPayload cfg.filters d) :
    streamEncodeMT E cfg bs pieces = streamEncodeMT E' cfg bs pieces := by
  unfold streamEncodeMT
  rw [blocksEncode_congr _ _ _ {} (fun d hd => blockEncodeMT_congr E E' cfg.check cfg.filters bs d h1 h2 (h3 d hd))]

/-- `encParams` only looks at the payloads too. -/
theorem table_agrees (p : Lzma.Props) (parser : Parser) (fs : List FilterOpts) (tbl : List (List UInt8 × List UInt8))
    (htbl : ∀ e ∈ tbl, rawEncodeK p parser fs e.1 = some e.2) (d : List UInt8)
    (hcov : (tbl.find? (fun e => e.1 == d)).isSome = true) :
    (tableEnv p tbl).encPayload fs d = (stdEncEnv p parser).encPayload fs d := by
  obtain ⟨e, he⟩ := Option.isSome_iff_exists.mp hcov
  have hmem := List.mem_of_find?_eq_some he
  have heq : e.1 = d := by
    have := List.find?_some he
    simpa using this
  have hk := htbl e hmem
  rw [heq] at hk
  obtain ⟨_, hp⟩ := of_K p parser fs d (by rw [hk]; rfl)
  rw [hp]
  show ((tbl.find? (fun e => e.1 == d)).map (·.2)).getD [] = (rawEncodeK p parser fs d).getD []
  rw [hk, he]
  rfl

end XzVerif.MtEnc
