/-
  Error bookkeeping invariant across read_output_and_wait, buffer assignment and lzma_outq_enable_partial_output.
-/
import XzVerif.Lemmas.MtDecErr

namespace XzVerif.MtDec

/-- A finished failed outbuf is in the queue. -/
def HasBad (q : List Outbuf) : Prop := ∃ o ∈ q, o.finished = true ∧ o.finishRet ≠ END

theorem HasBad.qsame {q q' : List Outbuf} (h : HasBad q) (hq : QSame q q') : HasBad q' := by
  obtain ⟨o, ho, hf, hr⟩ := h
  obtain ⟨o', ho', _, _, x3, x4⟩ := hq.mem' o ho
  exact ⟨o', ho', x3 ▸ hf, x4 ▸ hr⟩

theorem enablePartialHead_pend (s : State) : (enablePartialHead s).pend = s.pend := by
  unfold enablePartialHead
  split
  · split
    · split <;> rfl
    · rfl
  · rfl

theorem outqRead_pend (s : State) : (outqRead s).1.pend = s.pend := by
  rw [outqRead_eq]
  split
  · rfl
  · split <;> rfl

theorem outqRead_bad {s : State} (hD : DataInv s) (h : HasBad s.queue)
    (hr : (outqRead s).2 = OK ∨ (outqRead s).2 = END) : HasBad (outqRead s).1.queue := by
  rw [outqRead_eq] at hr ⊢
  split
  · exact h
  · rename_i a t hq
    split
    · rename_i hc; exact h
    · rename_i hc
      simp only [hq, hc, if_false] at hr
      obtain ⟨o, ho, hf, hne⟩ := h
      have ho' := ho
      rw [hq] at ho
      rcases List.mem_cons.mp ho with rfl | ho
      · exfalso
        rcases hr with hr | hr
        · have := (hD.fin o ho' hf).2
          have hwf := blk_wf hD o.blk
          exact hwf.1 (this ▸ hr)
        · exact hne hr
      · exact ⟨o, ho, hf, hne⟩

theorem readLoop_pend (fuel : Nat) : ∀ s : State, (readLoop fuel s).1.pend = s.pend := by
  induction fuel with
  | zero => intro s; rfl
  | succ fuel ih =>
    intro s
    simp only [readLoop]
    split
    · rw [ih, enablePartialHead_pend, outqRead_pend]
    · exact outqRead_pend s

theorem readLoop_bad (fuel : Nat) : ∀ {s : State}, DataInv s → HasBad s.queue → (readLoop fuel s).2 = OK →
    HasBad (readLoop fuel s).1.queue := by
  induction fuel with
  | zero => intro s _ h _; exact h
  | succ fuel ih =>
    intro s hD h hr
    simp only [readLoop] at hr ⊢
    obtain ⟨_, d1, _⟩ := outqRead_spec hD
    split
    · rename_i hend
      rw [if_pos hend] at hr
      have h1 := outqRead_bad hD h (Or.inr hend)
      have hD1 := d1 (Or.inr hend)
      exact ih hD1.enablePartialHead (h1.qsame (enablePartialHead_spec _).2.1) hr
    · rename_i hne
      rw [if_neg hne] at hr
      exact outqRead_bad hD h (Or.inl hr)

theorem markFilled_pend (s : State) (c : Nat) : (markFilled s c).pend = s.pend := by
  unfold markFilled; split <;> rfl

theorem rowLeaveOrWait_pend (s : State) (k : RowK) (w : Bool) : (rowLeaveOrWait s k w).pend = s.pend := by
  unfold rowLeaveOrWait; repeat' split
  all_goals rfl

/-- ErrInv across one critical section of read_output_and_wait that did not remove a failed Block. -/
theorem ErrInv.rowIterate {s : State} (h : ErrInv s) (hD : DataInv s) (k : RowK) (w : Bool)
    (hok : (readLoop (s.queue.length + 1) s).2 = OK) : ErrInv (rowIterate s k w) := by
  obtain ⟨f, _, _, _⟩ := readLoop_spec (s.queue.length + 1) hD
  have hp := readLoop_pend (s.queue.length + 1) s
  have m := markFilled_core (readLoop (s.queue.length + 1) s).1 s.outCap
  have mp := markFilled_pend (readLoop (s.queue.length + 1) s).1 s.outCap
  have hbad : s.threadError ≠ OK → HasBad (readLoop (s.queue.length + 1) s).1.queue :=
    fun hne => readLoop_bad _ hD (h.e1 hne) hok
  -- facts about any state that has the core of the loop result and a pend that is the old one or the flag
  have key : ∀ s' : State, SameCore (readLoop (s.queue.length + 1) s).1 s' →
      (s'.pend = s.pend ∨ (s'.pend = .flag ∧ s.threadError ≠ OK ∧ s.pend ≠ .none → True) ∧ s'.pend = .flag ∧ s.threadError ≠ OK) →
      ErrInv s' := by
    intro s' c hpend
    have hte : s'.threadError = s.threadError := c.threadError.trans f.threadError
    have hseq : s'.seq = s.seq := c.seq.trans f.seq
    have hcur : s'.cur = s.cur := c.cur.trans f.cur
    have hbl : s'.blocks = s.blocks := c.blocks.trans f.blocks
    have eb : ∀ j, blk s' j = blk s j := fun j => by simp [blk, hbl]
    refine ⟨?_, ?_, ?_, ?_⟩
    · rw [hte, c.queue]; exact hbad
    · intro hx
      rw [hte]
      rcases hpend with e | ⟨_, _, e⟩
      · exact h.e2 (e ▸ hx)
      · exact e
    · intro r hx
      rcases hpend with e | ⟨_, e, _⟩
      · rw [hseq, hcur, hbl, eb]; exact h.e3 r (e ▸ hx)
      · rw [e] at hx; cases hx
    · intro hx
      rw [hseq] at hx
      rcases hpend with e | ⟨_, e, _⟩
      · rw [e]; exact h.e4 hx
      · rw [e]; simp
  unfold MtDec.rowIterate
  dsimp only
  have hne : ((readLoop (s.queue.length + 1) s).2 != OK) = false := by simp [hok]
  rw [if_neg (by simp [hne])]
  split
  · exact key _ (m.1.trans ⟨rfl, rfl, rfl, rfl, rfl, rfl, rfl, rfl, rfl, rfl, rfl, rfl, rfl, rfl⟩) (Or.inl (mp.trans hp))
  · have fp := flagPend_core (markFilled (readLoop (s.queue.length + 1) s).1 s.outCap)
    have lw := rowLeaveOrWait_core (flagPend (markFilled (readLoop (s.queue.length + 1) s).1 s.outCap)) k w
    refine key _ ((m.1.trans fp.1).trans lw.1) ?_
    rw [rowLeaveOrWait_pend]
    unfold flagPend
    split
    · rename_i hte
      have : s.threadError ≠ OK := by
        have e := m.1.threadError.trans f.threadError
        rw [e] at hte; simpa using hte
      exact Or.inr ⟨fun _ => trivial, rfl, this⟩
    · exact Or.inl (mp.trans hp)

end XzVerif.MtDec
