/-
  Second instance of the Hoare logic of Lemmas/C03Hoare.lean with a stronger frame: the range-decoder level (bits, bittrees,
  direct bits, length and distance decoding) also leaves `state`, `rep0..rep3`, `eopm_is_valid` and the saved sequence
  alone, and its only exit is "input ran out". Derived from C03Hoare.lean by renaming (Fr → Fc, Sat → SatC); used for the
  rep-register invariant in Lemmas/C03Reps.lean and Lemmas/C03RepsStream.lean.
-/
import XzVerif.Lemmas.C03Hoare

namespace XzVerif.Lzma
open XzVerif.RangeDec XzVerif.LzDict

/-- What the symbol decoder never touches, and how the input cursor moves. -/
structure Fc (s s' : St) : Prop where
  inp : s'.inp = s.inp
  pos_mono : s.inPos ≤ s'.inPos
  pos_le : s.inPos ≤ s.inp.size → s'.inPos ≤ s'.inp.size
  dp : s'.dp = s.dp
  hist : s'.hist = s.hist
  outBase : s'.outBase = s.outBase
  uncomp : s'.uncomp = s.uncomp
  allowEopm : s'.allowEopm = s.allowEopm
  l2 : s'.l2 = s.l2
  lclppb : s'.lc = s.lc ∧ s'.lp = s.lp ∧ s'.pb = s.pb
  core : s'.state = s.state ∧ s'.rep0 = s.rep0 ∧ s'.rep1 = s.rep1 ∧ s'.rep2 = s.rep2 ∧ s'.rep3 = s.rep3
  eopmValid : s'.eopmValid = s.eopmValid
  pending : s'.pending = s.pending

theorem Fc.refl (s : St) : Fc s s :=
  ⟨rfl, Nat.le_refl _, id, rfl, rfl, rfl, rfl, rfl, rfl, ⟨rfl, rfl, rfl⟩, ⟨rfl, rfl, rfl, rfl, rfl⟩, rfl, rfl⟩

theorem Fc.trans {a b c : St} (h1 : Fc a b) (h2 : Fc b c) : Fc a c :=
  ⟨h2.inp.trans h1.inp, Nat.le_trans h1.pos_mono h2.pos_mono, fun h => h2.pos_le (h1.inp ▸ h1.pos_le h),
   h2.dp.trans h1.dp, h2.hist.trans h1.hist, h2.outBase.trans h1.outBase, h2.uncomp.trans h1.uncomp,
   h2.allowEopm.trans h1.allowEopm, h2.l2.trans h1.l2,
   ⟨h2.lclppb.1.trans h1.lclppb.1, h2.lclppb.2.1.trans h1.lclppb.2.1, h2.lclppb.2.2.trans h1.lclppb.2.2⟩,
   ⟨h2.core.1.trans h1.core.1, h2.core.2.1.trans h1.core.2.1, h2.core.2.2.1.trans h1.core.2.2.1,
    h2.core.2.2.2.1.trans h1.core.2.2.2.1, h2.core.2.2.2.2.trans h1.core.2.2.2.2⟩,
   h2.eopmValid.trans h1.eopmValid, h2.pending.trans h1.pending⟩

/-- `SatC x Q`: every outcome of `x` (normal or exit) is `Fc`-related to the start state, a normal result satisfies `Q`,
    and the only exit `x` can take is `Exit.needInput` (the range-decoder level never fails otherwise). -/
def SatC {α : Type} (x : M α) (Q : α → Prop) : Prop :=
  ∀ s, Fc s (resSt (x s)) ∧ (∀ a s', x s = .ok a s' → Q a) ∧ (∀ e s', x s = .error e s' → e = .needInput)

/-- frame only -/
abbrev KeepsC {α : Type} (x : M α) : Prop := SatC x (fun _ => True)

theorem SatC.weaken {α} {x : M α} {P Q : α → Prop} (h : SatC x P) (hpq : ∀ a, P a → Q a) : SatC x Q :=
  fun s => ⟨(h s).1, fun a s' e => hpq a ((h s).2.1 a s' e), (h s).2.2⟩

theorem SatC.pure {α} (a : α) {Q : α → Prop} (h : Q a) : SatC (pure a : M α) Q := by
  intro s
  refine ⟨Fc.refl s, ?_, ?_⟩
  · intro b s' e
    have : (EStateM.Result.ok a s : EStateM.Result Exit St α) = .ok b s' := e
    injection this with h1 _
    exact h1 ▸ h
  · intro e' s' e
    have : (EStateM.Result.ok a s : EStateM.Result Exit St α) = .error e' s' := e
    cases this

theorem SatC.throw {α} (e : Exit) (he : e = .needInput) {Q : α → Prop} : SatC (throw e : M α) Q := by
  intro s
  refine ⟨Fc.refl s, ?_, ?_⟩
  · intro b s' h
    have : (EStateM.Result.error e s : EStateM.Result Exit St α) = .ok b s' := h
    cases this
  · intro e' s' h
    have : (EStateM.Result.error e s : EStateM.Result Exit St α) = .error e' s' := h
    injection this with h1 _
    rw [← h1]; exact he

theorem SatC.bind {α β} {x : M α} {f : α → M β} {P : α → Prop} {Q : β → Prop}
    (hx : SatC x P) (hf : ∀ a, P a → SatC (f a) Q) : SatC (x >>= f) Q := by
  intro s
  have h1 := hx s
  show Fc s (resSt (EStateM.bind x f s)) ∧ (∀ b s', EStateM.bind x f s = .ok b s' → Q b)
      ∧ (∀ e s', EStateM.bind x f s = .error e s' → e = .needInput)
  unfold EStateM.bind
  cases hxs : x s with
  | ok a s1 =>
    rw [hxs] at h1
    have hp := h1.2.1 a s1 rfl
    have h2 := hf a hp s1
    exact ⟨h1.1.trans h2.1, fun b s' e => h2.2.1 b s' e, h2.2.2⟩
  | error e s1 =>
    rw [hxs] at h1
    refine ⟨h1.1, ?_, ?_⟩
    · intro b s' e'; cases e'
    · intro e' s' h; exact h1.2.2 e' s' (by simpa using h)

/-- a pure read of the state -/
theorem SatC.read {α} (g : St → α) {Q : α → Prop} (h : ∀ s, Q (g s)) :
    SatC (fun s => EStateM.Result.ok (g s) s : M α) Q := by
  intro s
  refine ⟨Fc.refl s, ?_, ?_⟩
  · intro a s' e; injection e with h1 _; exact h1 ▸ h s
  · intro e' s' e; cases e

/-- a state update that respects the frame -/
theorem SatC.modify (f : St → St) (h : ∀ s, Fc s (f s)) : SatC (modify f : M PUnit) (fun _ => True) := by
  intro s
  refine ⟨h s, fun _ _ _ => trivial, ?_⟩
  intro e' s' e
  have : (EStateM.Result.ok PUnit.unit (f s) : EStateM.Result Exit St PUnit) = .error e' s' := e
  cases this

theorem SatC.ite {α} {c : Prop} [Decidable c] {x y : M α} {Q : α → Prop} (hx : SatC x Q) (hy : SatC y Q) :
    SatC (if c then x else y) Q := by
  split
  · exact hx
  · exact hy

/-! ### range-decoder level -/

theorem satc_rcNormalize : SatC rcNormalize (fun _ => True) := by
  intro s
  refine ⟨?_, fun _ _ _ => trivial, ?_⟩
  · unfold rcNormalize
    split
    · split
      · refine ⟨rfl, ?_, ?_, rfl, rfl, rfl, rfl, rfl, rfl, ⟨rfl, rfl, rfl⟩, ⟨rfl, rfl, rfl, rfl, rfl⟩, rfl, rfl⟩
        · simp [resSt]
        · intro _; simp only [resSt]; omega
      · exact Fc.refl s
    · exact Fc.refl s
  · intro e' s' e
    unfold rcNormalize at e
    split at e
    · split at e
      · cases e
      · injection e with h1 _; exact h1.symm
    · cases e

theorem bitCore_bit_le' (rc : Rc) (p : Nat) : (bitCore rc p).1 ≤ 1 := by
  unfold bitCore
  dsimp only
  split <;> simp

/-- the decoded bit is 0 or 1 -/
theorem satc_rcBit (idx : Nat) : SatC (rcBit idx) (fun b => b ≤ 1) := by
  intro s
  have h := (satc_rcNormalize s).1
  have hnf := (satc_rcNormalize s).2.2
  unfold rcBit
  cases hn : rcNormalize s with
  | error e s1 =>
    rw [hn] at h
    refine ⟨h, ?_, ?_⟩
    · intro _ _ e'; cases e'
    · intro e' s' h'
      injection h' with h1 h2
      subst h1; subst h2
      exact hnf _ _ hn
  | ok a s1 =>
    rw [hn] at h
    refine ⟨h.trans ⟨rfl, Nat.le_refl _, id, rfl, rfl, rfl, rfl, rfl, rfl, ⟨rfl, rfl, rfl⟩, ⟨rfl, rfl, rfl, rfl, rfl⟩, rfl, rfl⟩, ?_, ?_⟩
    · intro b s' e
      simp only [] at e
      injection e with h1 _
      rw [← h1]
      exact bitCore_bit_le _ _
    · intro e' s' e; cases e

theorem fc_directStep (s : St) :
    Fc s (let r := directCore (Rc.mk s.range s.code); { s with range := r.2.range, code := r.2.code }) := by
  constructor
  · rfl
  · exact Nat.le_refl _
  · exact id
  · rfl
  · rfl
  · rfl
  · rfl
  · rfl
  · rfl
  · exact ⟨rfl, rfl, rfl⟩
  · exact ⟨rfl, rfl, rfl, rfl, rfl⟩
  · rfl
  · rfl

theorem satc_directStep : SatC (fun s : St =>
      let r := directCore (Rc.mk s.range s.code)
      EStateM.Result.ok r.1 { s with range := r.2.range, code := r.2.code } : M Nat) (fun _ => True) := by
  intro s
  refine ⟨fc_directStep s, fun _ _ _ => trivial, ?_⟩
  intro e' s' e; cases e

theorem satc_rcDirect (n : Nat) : ∀ dest, SatC (rcDirect n dest) (fun _ => True) := by
  induction n with
  | zero => intro dest; exact SatC.pure dest trivial
  | succ n ih =>
    intro dest
    unfold rcDirect
    exact SatC.bind satc_rcNormalize (fun _ _ => SatC.bind satc_directStep (fun b _ => ih _))

theorem satc_bittree (base : Nat) : ∀ n sym, SatC (bittree base n sym) (fun _ => True)
  | 0, sym => SatC.pure sym trivial
  | n + 1, sym => by
    unfold bittree
    exact SatC.bind (satc_rcBit _) (fun b _ => satc_bittree base n _)

theorem satc_litMatched (base : Nat) : ∀ n sym offset len, SatC (litMatched base n sym offset len) (fun _ => True)
  | 0, sym, _, _ => SatC.pure sym trivial
  | n + 1, sym, offset, len => by
    unfold litMatched
    exact SatC.bind (satc_rcBit _) (fun b _ => satc_litMatched base n _ _ _)

theorem satc_revBittree (base : Nat) : ∀ n sym offset acc, SatC (revBittree base n sym offset acc) (fun _ => True)
  | 0, _, _, acc => SatC.pure acc trivial
  | n + 1, sym, offset, acc => by
    unfold revBittree
    exact SatC.bind (satc_rcBit _) (fun b _ => satc_revBittree base n _ _ _)

theorem satc_revAlign : ∀ n sym offset, SatC (revAlign n sym offset) (fun _ => True)
  | 0, sym, _ => SatC.pure sym trivial
  | n + 1, sym, offset => by
    unfold revAlign
    exact SatC.bind (satc_rcBit _) (fun b _ => satc_revAlign n _ _)

/-- decoded lengths are at least MATCH_LEN_MIN -/
theorem satc_lenDecode (lenBase posState : Nat) : SatC (lenDecode lenBase posState) (fun len => 2 ≤ len) := by
  unfold lenDecode
  refine SatC.bind (satc_rcBit _) (fun c _ => ?_)
  split
  · exact SatC.bind (satc_bittree _ _ _) (fun s _ => SatC.pure _ (by simp only [MATCH_LEN_MIN]; omega))
  · refine SatC.bind (satc_rcBit _) (fun c2 _ => ?_)
    split
    · exact SatC.bind (satc_bittree _ _ _) (fun s _ => SatC.pure _ (by simp only [MATCH_LEN_MIN]; omega))
    · exact SatC.bind (satc_bittree _ _ _) (fun s _ => SatC.pure _ (by simp only [MATCH_LEN_MIN]; omega))

theorem satc_distDecode (len : Nat) : SatC (distDecode len) (fun _ => True) := by
  unfold distDecode
  refine SatC.bind (satc_bittree _ _ _) (fun slot1 _ => ?_)
  simp only []
  split
  · exact SatC.pure _ trivial
  · split
    · exact satc_revBittree _ _ _ _ _
    · exact SatC.bind (satc_rcDirect _ _) (fun r _ => SatC.bind (satc_revAlign _ _ _) (fun a _ => SatC.pure _ trivial))

end XzVerif.Lzma
