import XzVerif.Lemmas.XzIoQ4Def

namespace XzVerif.XzIo
variable {α : Type}
set_option linter.unusedSimpArgs false

theorem q4_exec_openSrc {c : Cfg α} {de : Bool} {s : St α} (hf : c.o.force = false) (hpc : s.pc = .openSrc) (h : Q4 c de s) :
    Q4 c de (exec c s) := by
  obtain ⟨h1, h2, h3, h4, h5, h6⟩ := h
  have u1 : ∀ s : St α, (continueLoop c s).pc ≠ .unlinkForce := fun s e => by simpa [hf] using continueLoop_unlinkForce c s e
  have u2 : ∀ s : St α, (afterWrite c s).pc ≠ .unlinkForce := fun s e => by simpa [hf] using afterWrite_unlinkForce c s e
  have u3 := openDestErr_unlinkForce c
  unfold exec; simp only [hpc]
  repeat' split
  all_goals
    refine ⟨?_, ?_, ?_, ?_, ?_, ?_⟩ <;>
    simp_all [emit, msgWarn, msgError, FS.unlinkDstName, FS.unlinkSrcName, FS.unlinkIno, inoOwn, inoPre, inoSrc]
theorem q4_exec_fstatSrc {c : Cfg α} {de : Bool} {s : St α} (hf : c.o.force = false) (hpc : s.pc = .fstatSrc) (h : Q4 c de s) :
    Q4 c de (exec c s) := by
  obtain ⟨h1, h2, h3, h4, h5, h6⟩ := h
  have u1 : ∀ s : St α, (continueLoop c s).pc ≠ .unlinkForce := fun s e => by simpa [hf] using continueLoop_unlinkForce c s e
  have u2 : ∀ s : St α, (afterWrite c s).pc ≠ .unlinkForce := fun s e => by simpa [hf] using afterWrite_unlinkForce c s e
  have u3 := openDestErr_unlinkForce c
  unfold exec; simp only [hpc]
  repeat' split
  all_goals
    refine ⟨?_, ?_, ?_, ?_, ?_, ?_⟩ <;>
    simp_all [emit, msgWarn, msgError, FS.unlinkDstName, FS.unlinkSrcName, FS.unlinkIno, inoOwn, inoPre, inoSrc]
theorem q4_exec_closeSrcErr {c : Cfg α} {de : Bool} {s : St α} (hf : c.o.force = false) (hpc : s.pc = .closeSrcErr) (h : Q4 c de s) :
    Q4 c de (exec c s) := by
  obtain ⟨h1, h2, h3, h4, h5, h6⟩ := h
  have u1 : ∀ s : St α, (continueLoop c s).pc ≠ .unlinkForce := fun s e => by simpa [hf] using continueLoop_unlinkForce c s e
  have u2 : ∀ s : St α, (afterWrite c s).pc ≠ .unlinkForce := fun s e => by simpa [hf] using afterWrite_unlinkForce c s e
  have u3 := openDestErr_unlinkForce c
  unfold exec; simp only [hpc]
  repeat' split
  all_goals
    refine ⟨?_, ?_, ?_, ?_, ?_, ?_⟩ <;>
    simp_all [emit, msgWarn, msgError, FS.unlinkDstName, FS.unlinkSrcName, FS.unlinkIno, inoOwn, inoPre, inoSrc]
theorem q4_exec_openDir {c : Cfg α} {de : Bool} {s : St α} (hf : c.o.force = false) (hpc : s.pc = .openDir) (h : Q4 c de s) :
    Q4 c de (exec c s) := by
  obtain ⟨h1, h2, h3, h4, h5, h6⟩ := h
  have u1 : ∀ s : St α, (continueLoop c s).pc ≠ .unlinkForce := fun s e => by simpa [hf] using continueLoop_unlinkForce c s e
  have u2 : ∀ s : St α, (afterWrite c s).pc ≠ .unlinkForce := fun s e => by simpa [hf] using afterWrite_unlinkForce c s e
  have u3 := openDestErr_unlinkForce c
  unfold exec; simp only [hpc]
  repeat' split
  all_goals
    refine ⟨?_, ?_, ?_, ?_, ?_, ?_⟩ <;>
    simp_all [emit, msgWarn, msgError, FS.unlinkDstName, FS.unlinkSrcName, FS.unlinkIno, inoOwn, inoPre, inoSrc]
theorem q4_exec_unlinkForce {c : Cfg α} {de : Bool} {s : St α} (hf : c.o.force = false) (hpc : s.pc = .unlinkForce) (h : Q4 c de s) :
    Q4 c de (exec c s) := by
  obtain ⟨h1, h2, h3, h4, h5, h6⟩ := h
  have u1 : ∀ s : St α, (continueLoop c s).pc ≠ .unlinkForce := fun s e => by simpa [hf] using continueLoop_unlinkForce c s e
  have u2 : ∀ s : St α, (afterWrite c s).pc ≠ .unlinkForce := fun s e => by simpa [hf] using afterWrite_unlinkForce c s e
  have u3 := openDestErr_unlinkForce c
  unfold exec; simp only [hpc]
  repeat' split
  all_goals
    refine ⟨?_, ?_, ?_, ?_, ?_, ?_⟩ <;>
    simp_all [emit, msgWarn, msgError, FS.unlinkDstName, FS.unlinkSrcName, FS.unlinkIno, inoOwn, inoPre, inoSrc]
theorem q4_exec_openDest {c : Cfg α} {de : Bool} {s : St α} (hf : c.o.force = false) (hpc : s.pc = .openDest) (h : Q4 c de s) :
    Q4 c de (exec c s) := by
  obtain ⟨h1, h2, h3, h4, h5, h6⟩ := h
  have u1 : ∀ s : St α, (continueLoop c s).pc ≠ .unlinkForce := fun s e => by simpa [hf] using continueLoop_unlinkForce c s e
  have u2 : ∀ s : St α, (afterWrite c s).pc ≠ .unlinkForce := fun s e => by simpa [hf] using afterWrite_unlinkForce c s e
  have u3 := openDestErr_unlinkForce c
  unfold exec; simp only [hpc]
  repeat' split
  all_goals
    refine ⟨?_, ?_, ?_, ?_, ?_, ?_⟩ <;>
    simp_all [emit, msgWarn, msgError, FS.unlinkDstName, FS.unlinkSrcName, FS.unlinkIno, inoOwn, inoPre, inoSrc]
theorem q4_exec_closeDirErr {c : Cfg α} {de : Bool} {s : St α} (hf : c.o.force = false) (hpc : s.pc = .closeDirErr) (h : Q4 c de s) :
    Q4 c de (exec c s) := by
  obtain ⟨h1, h2, h3, h4, h5, h6⟩ := h
  have u1 : ∀ s : St α, (continueLoop c s).pc ≠ .unlinkForce := fun s e => by simpa [hf] using continueLoop_unlinkForce c s e
  have u2 : ∀ s : St α, (afterWrite c s).pc ≠ .unlinkForce := fun s e => by simpa [hf] using afterWrite_unlinkForce c s e
  have u3 := openDestErr_unlinkForce c
  unfold exec; simp only [hpc]
  repeat' split
  all_goals
    refine ⟨?_, ?_, ?_, ?_, ?_, ?_⟩ <;>
    simp_all [emit, msgWarn, msgError, FS.unlinkDstName, FS.unlinkSrcName, FS.unlinkIno, inoOwn, inoPre, inoSrc]
theorem q4_exec_fstatDest {c : Cfg α} {de : Bool} {s : St α} (hf : c.o.force = false) (hpc : s.pc = .fstatDest) (h : Q4 c de s) :
    Q4 c de (exec c s) := by
  obtain ⟨h1, h2, h3, h4, h5, h6⟩ := h
  have u1 : ∀ s : St α, (continueLoop c s).pc ≠ .unlinkForce := fun s e => by simpa [hf] using continueLoop_unlinkForce c s e
  have u2 : ∀ s : St α, (afterWrite c s).pc ≠ .unlinkForce := fun s e => by simpa [hf] using afterWrite_unlinkForce c s e
  have u3 := openDestErr_unlinkForce c
  unfold exec; simp only [hpc]
  repeat' split
  all_goals
    refine ⟨?_, ?_, ?_, ?_, ?_, ?_⟩ <;>
    simp_all [emit, msgWarn, msgError, FS.unlinkDstName, FS.unlinkSrcName, FS.unlinkIno, inoOwn, inoPre, inoSrc]
theorem q4_exec_lseekOut {c : Cfg α} {de : Bool} {s : St α} (hf : c.o.force = false) (hpc : s.pc = .lseekOut) (h : Q4 c de s) :
    Q4 c de (exec c s) := by
  obtain ⟨h1, h2, h3, h4, h5, h6⟩ := h
  have u1 : ∀ s : St α, (continueLoop c s).pc ≠ .unlinkForce := fun s e => by simpa [hf] using continueLoop_unlinkForce c s e
  have u2 : ∀ s : St α, (afterWrite c s).pc ≠ .unlinkForce := fun s e => by simpa [hf] using afterWrite_unlinkForce c s e
  have u3 := openDestErr_unlinkForce c
  unfold exec; simp only [hpc]
  repeat' split
  all_goals
    refine ⟨?_, ?_, ?_, ?_, ?_, ?_⟩ <;>
    simp_all [emit, msgWarn, msgError, FS.unlinkDstName, FS.unlinkSrcName, FS.unlinkIno, inoOwn, inoPre, inoSrc]
theorem q4_exec_read {c : Cfg α} {de : Bool} {s : St α} (hf : c.o.force = false) (hpc : s.pc = .read) (h : Q4 c de s) :
    Q4 c de (exec c s) := by
  obtain ⟨h1, h2, h3, h4, h5, h6⟩ := h
  have u1 : ∀ s : St α, (continueLoop c s).pc ≠ .unlinkForce := fun s e => by simpa [hf] using continueLoop_unlinkForce c s e
  have u2 : ∀ s : St α, (afterWrite c s).pc ≠ .unlinkForce := fun s e => by simpa [hf] using afterWrite_unlinkForce c s e
  have u3 := openDestErr_unlinkForce c
  unfold exec; simp only [hpc]
  repeat' split
  all_goals
    refine ⟨?_, ?_, ?_, ?_, ?_, ?_⟩ <;>
    simp_all [emit, msgWarn, msgError, FS.unlinkDstName, FS.unlinkSrcName, FS.unlinkIno, inoOwn, inoPre, inoSrc]

end XzVerif.XzIo
