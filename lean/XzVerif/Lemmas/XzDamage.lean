/-
  Whole-file form of "payload damage needs a Check collision" (C05), with the hypotheses that make it true:
    * `b'` equals the accepted file `b` except inside the Compressed Data of the Blocks of `b` (`PayloadDamage`: the relation
      follows the declarative parse of `b`; header, Block Padding, Check of every Block and everything from the Index on are the
      same bytes, each Compressed Data keeps its length);
    * both files are accepted as ONE Stream that is the WHOLE file (`consumed = length`; without this a damaged Block can end the
      Stream early in place, see Props/C05.lean);
    * the Check is a supported one other than None and LZMA_IGNORE_CHECK is off.
  Then the outputs are equal, or some Block of `b` and the same Block of `b'` decode to different outputs with the same Check
  value (`BlockCollision`, tied to the two files).
  The unchanged Stream Footer pins the Index (same place, same bytes ⇒ same Records, `indexEncode_injective`), the Records pin
  every Block boundary, and each Block's unchanged Check field then relates the two outputs.
  Kernel proofs, core Lean only.
-/
import XzVerif.Lemmas.XzComplete

namespace XzVerif.XzDecode
open XzVerif XzVerif.Vli XzVerif.Container

/-- `BlockAt E fl hdr inp cap i c o`: in the declarative walk over the Blocks that starts at `inp` (a Block Header) with `cap`
    bytes of output space, Block number `i` (from 0) has Compressed Data `c`, and `c` decodes to `o` (`DBlock`: payload verdict,
    size fields, Block Padding, and the Block's Check field equals `E.check id o` when the ID is supported). -/
inductive BlockAt (E : Env) (fl : Flags) (hdr : StreamFlags) : List UInt8 → Nat → Nat → List UInt8 → List UInt8 → Prop
  | here (inp : List UInt8) (cap : Nat) (b0 : UInt8) (tl : List UInt8) (h : BlockHeader) (c o pad chk rest : List UInt8) :
      inp = (b0 :: tl) ++ c ++ pad ++ chk ++ rest → b0.toNat ≠ 0 →
      blockHeaderDecodeWith (b0 :: tl).length hdr.check (b0 :: tl) = .ok h →
      DBlock E hdr.check fl.ignoreCheck h cap c o pad chk →
      BlockAt E fl hdr inp cap 0 c o
  | later (inp : List UInt8) (cap : Nat) (b0 : UInt8) (tl : List UInt8) (h : BlockHeader) (c0 o0 pad chk rest : List UInt8)
      (i : Nat) (c o : List UInt8) :
      inp = (b0 :: tl) ++ c0 ++ pad ++ chk ++ rest → b0.toNat ≠ 0 →
      blockHeaderDecodeWith (b0 :: tl).length hdr.check (b0 :: tl) = .ok h →
      DBlock E hdr.check fl.ignoreCheck h cap c0 o0 pad chk →
      BlockAt E fl hdr rest (cap - o0.length) i c o →
      BlockAt E fl hdr inp cap (i + 1) c o

/-- A Check collision TIED TO THE TWO FILES: the same Block number `i` of `inp` and of `inp'` has Compressed Data `cB` resp. `cB'`
    (same length) decoding to DIFFERENT outputs `oB ≠ oB'` with the SAME Check value.  (Not to be confused with the closed
    statement "some two byte strings collide", which is true of every fixed-size Check.) -/
def BlockCollision (E : Env) (fl : Flags) (hdr : StreamFlags) (inp inp' : List UInt8) (cap : Nat) : Prop :=
  ∃ (i : Nat) (cB cB' oB oB' : List UInt8),
    BlockAt E fl hdr inp cap i cB oB ∧ BlockAt E fl hdr inp' cap i cB' oB' ∧ cB.length = cB'.length ∧
    oB ≠ oB' ∧ E.check hdr.check oB = E.check hdr.check oB'

/-- `inp'` is `inp` with the Compressed Data of its Blocks (as parsed declaratively) replaced by other bytes of the same length -/
inductive PayloadDamage (E : Env) (fl : Flags) (hdr : StreamFlags) :
    HashInfo → List UInt8 → List UInt8 → Nat → List UInt8 → Nat → HashInfo → Prop
  | done (blocks : HashInfo) (inp : List UInt8) (cap : Nat) : PayloadDamage E fl hdr blocks inp inp cap [] 0 blocks
  | block (blocks : HashInfo) (inp inp' : List UInt8) (cap : Nat) (b0 : UInt8) (tl : List UInt8) (h : BlockHeader)
      (c o pad chk rest out' : List UInt8) (c' : Nat) (final : HashInfo) (c2 rest' : List UInt8) :
      inp = (b0 :: tl) ++ c ++ pad ++ chk ++ rest → b0.toNat ≠ 0 →
      blockHeaderDecodeWith (b0 :: tl).length hdr.check (b0 :: tl) = .ok h →
      (∃ n, validateChain (h.filters.map (·.id)) = .ok n) →
      DBlock E hdr.check fl.ignoreCheck h cap c o pad chk →
      BlockLimits blocks (b0 :: tl).length hdr.check c.length o.length →
      c2.length = c.length → inp' = (b0 :: tl) ++ c2 ++ pad ++ chk ++ rest' →
      PayloadDamage E fl hdr (blocks ++ [⟨c.length + (b0 :: tl).length + checkSize hdr.check, o.length⟩]) rest rest'
        (cap - o.length) out' c' final →
      PayloadDamage E fl hdr blocks inp inp' cap (o ++ out') ((b0 :: tl).length + c.length + pad.length + chk.length + c') final

theorem PayloadDamage.toDBlocks {E : Env} {fl : Flags} {hdr : StreamFlags} {blocks : HashInfo} {inp inp' : List UInt8} {cap : Nat}
    {out : List UInt8} {c : Nat} {final : HashInfo} (r : PayloadDamage E fl hdr blocks inp inp' cap out c final) :
    DBlocks E fl hdr blocks inp cap out c final := by
  induction r with
  | done => exact DBlocks.done _ _ _
  | block blocks inp inp' cap b0 tl h c o pad chk rest out' c' final c2 rest' h1 h2 h3 h4 h5 h6 _ _ _ ih =>
    exact DBlocks.block blocks inp cap b0 tl h c o pad chk rest out' c' final h1 h2 h3 h4 h5 h6 ih

/-- the two files have the same length and the same bytes from the end of the Blocks on -/
theorem PayloadDamage.tail {E : Env} {fl : Flags} {hdr : StreamFlags} {blocks : HashInfo} {inp inp' : List UInt8} {cap : Nat}
    {out : List UInt8} {c : Nat} {final : HashInfo} (r : PayloadDamage E fl hdr blocks inp inp' cap out c final) :
    inp'.length = inp.length ∧ inp'.drop c = inp.drop c := by
  induction r with
  | done => exact ⟨rfl, rfl⟩
  | block blocks inp inp' cap b0 tl h c o pad chk rest out' c' final c2 rest' h1 _ _ _ _ _ hl h2 _ ih =>
    subst h1 h2
    constructor
    · simp only [List.length_append, hl, ih.1]
    · have e1 : (b0 :: tl).length + c.length + pad.length + chk.length + c' = ((b0 :: tl) ++ c2 ++ pad ++ chk).length + c' := by
        simp only [List.length_append, hl]
      have e2 : (b0 :: tl).length + c.length + pad.length + chk.length + c' = ((b0 :: tl) ++ c ++ pad ++ chk).length + c' := by
        simp only [List.length_append]
      conv => lhs; rw [e1, ← List.drop_drop, List.drop_left' rfl]
      conv => rhs; rw [e2, ← List.drop_drop, List.drop_left' rfl]
      exact ih.2

theorem DBlocks_inv {E : Env} {fl : Flags} {hdr : StreamFlags} {blocks : HashInfo} {inp : List UInt8} {cap : Nat}
    {out : List UInt8} {c : Nat} {final : HashInfo} (r : DBlocks E fl hdr blocks inp cap out c final) :
    (out = [] ∧ c = 0 ∧ final = blocks) ∨
    (∃ (b0 : UInt8) (tl : List UInt8) (h : BlockHeader) (cd o pad chk rest out' : List UInt8) (c' : Nat),
      inp = (b0 :: tl) ++ cd ++ pad ++ chk ++ rest ∧ b0.toNat ≠ 0 ∧
      blockHeaderDecodeWith (b0 :: tl).length hdr.check (b0 :: tl) = .ok h ∧
      DBlock E hdr.check fl.ignoreCheck h cap cd o pad chk ∧
      out = o ++ out' ∧ c = (b0 :: tl).length + cd.length + pad.length + chk.length + c' ∧
      DBlocks E fl hdr (blocks ++ [⟨cd.length + (b0 :: tl).length + checkSize hdr.check, o.length⟩]) rest (cap - o.length)
        out' c' final) := by
  cases r with
  | done => exact Or.inl ⟨rfl, rfl, rfl⟩
  | block =>
    exact Or.inr ⟨_, _, _, _, _, _, _, _, _, _, by assumption, by assumption, by assumption, by assumption, rfl, rfl,
      by assumption⟩

theorem DBlocks_prefix {E : Env} {fl : Flags} {hdr : StreamFlags} {blocks : HashInfo} {inp : List UInt8} {cap : Nat}
    {out : List UInt8} {c : Nat} {final : HashInfo} (r : DBlocks E fl hdr blocks inp cap out c final) :
    ∃ more, final = blocks ++ more := by
  induction r with
  | done => exact ⟨[], by simp⟩
  | block blocks inp cap b0 tl h c o pad chk rest out' c' final _ _ _ _ _ _ _ ih =>
    obtain ⟨more, hm⟩ := ih
    exact ⟨⟨c.length + (b0 :: tl).length + checkSize hdr.check, o.length⟩ :: more, by rw [hm]; simp⟩

/-- append-cancellation helper: equal lists, equal length prefixes -/
theorem append_inj_left' {α : Type} {a b c d : List α} (h : a ++ b = c ++ d) (hl : a.length = c.length) : a = c ∧ b = d :=
  List.append_inj h hl

/-- **Blocks level.**  Same Records, same start: the outputs agree or a Check collision is exhibited. -/
theorem damage_blocks (E : Env) (fl : Flags) (hdr : StreamFlags) (hck : hdr.check ≠ 0)
    (hsup : E.checkSupported hdr.check = true) (hign : fl.ignoreCheck = false)
    {blocks : HashInfo} {inp inp' : List UInt8} {cap : Nat} {out : List UInt8} {c : Nat} {final : HashInfo}
    (r : PayloadDamage E fl hdr blocks inp inp' cap out c final) :
    ∀ (out2 : List UInt8) (c2 : Nat), DBlocks E fl hdr blocks inp' cap out2 c2 final →
      out2 = out ∨ BlockCollision E fl hdr inp inp' cap := by
  induction r with
  | done blocks inp cap =>
    intro out2 c2 r'
    rcases DBlocks_inv r' with ⟨h1, _, _⟩ | ⟨b0, tl, h, cd, o, pad, chk, rest, out', c', _, _, _, _, _, _, hsub⟩
    · exact Or.inl h1
    · have := (DBlocks_count hsub).2.2
      simp only [List.length_append, List.length_cons, List.length_nil] at this
      omega
  | block blocks inp inp' cap b0 tl h c o pad chk rest out' c' final cx rest' hinp hb0 hh hv hD hL hcx hinp' hsub ih =>
    intro out2 c2 r'
    have hcnt := (DBlocks_count hsub.toDBlocks).2.2
    simp only [List.length_append, List.length_cons, List.length_nil] at hcnt
    rcases DBlocks_inv r' with ⟨_, _, h3⟩ | ⟨b0', tl', h', cd, o2, pad2, chk2, rest2, out2', c2', hinp2, hb0', hh', hD', ho2, hc2, hsub'⟩
    · rw [h3] at hcnt; omega
    · -- the Block Header is the same
      rw [hinp'] at hinp2
      have hb0e : b0' = b0 := by
        simp only [List.cons_append, List.cons.injEq] at hinp2
        exact hinp2.1.symm
      subst hb0e
      have hs1 := (blockHeaderDecodeWith_size _ _ _ _ hh).1
      have hs2 := (blockHeaderDecodeWith_size _ _ _ _ hh').1
      simp only [List.getD_cons_zero] at hs1 hs2
      have hlen : (b0' :: tl).length = (b0' :: tl').length := by rw [← hs1, ← hs2]
      have hsplit1 : (b0' :: tl) ++ (cx ++ pad ++ chk ++ rest') = (b0' :: tl') ++ (cd ++ pad2 ++ chk2 ++ rest2) := by
        simpa only [List.append_assoc] using hinp2
      obtain ⟨ehb, erest⟩ := List.append_inj hsplit1 hlen
      have etl : tl = tl' := by simp only [List.cons.injEq, true_and] at ehb; exact ehb
      subst etl
      rw [hh] at hh'
      simp only [Except.ok.injEq] at hh'
      subst hh'
      -- the Records are the same, hence the sizes
      obtain ⟨m1, hm1⟩ := DBlocks_prefix hsub.toDBlocks
      obtain ⟨m2, hm2⟩ := DBlocks_prefix hsub'
      have hrec : (⟨c.length + (b0' :: tl).length + checkSize hdr.check, o.length⟩ : IndexRecord)
          = ⟨cd.length + (b0' :: tl).length + checkSize hdr.check, o2.length⟩ := by
        have e := hm1.symm.trans hm2
        simp only [List.append_assoc, List.singleton_append] at e
        have e' := List.append_cancel_left e
        simp only [List.cons.injEq] at e'
        exact e'.1
      simp only [IndexRecord.mk.injEq] at hrec
      have hcl : cd.length = c.length := by omega
      have hol : o2.length = o.length := hrec.2.symm
      -- hence the same field boundaries
      have hsplit2 : cx ++ (pad ++ chk ++ rest') = cd ++ (pad2 ++ chk2 ++ rest2) := by
        simpa only [List.append_assoc] using erest
      obtain ⟨ecd, er2⟩ := List.append_inj hsplit2 (by rw [hcx, hcl])
      have hpad2 : pad2 = pad := by rw [hD'.pad_eq, hD.pad_eq, hcl]
      subst hpad2
      have hsplit3 : pad2 ++ (chk ++ rest') = pad2 ++ (chk2 ++ rest2) := by
        simpa only [List.append_assoc] using er2
      have er3 := List.append_cancel_left hsplit3
      obtain ⟨echk, erest'⟩ := List.append_inj er3 (by rw [hD.chk_len, hD'.chk_len])
      subst echk erest' ecd
      -- the unchanged Check field relates the two outputs
      have k1 := hD.chk_ok hck hign hsup
      have k2 := hD'.chk_ok hck hign hsup
      have hA : ∀ i cB oB, BlockAt E fl hdr rest (cap - o.length) i cB oB → BlockAt E fl hdr inp cap (i + 1) cB oB :=
        fun i cB oB hb => BlockAt.later inp cap b0' tl h c o pad2 chk rest i cB oB hinp hb0 hh hD hb
      by_cases heq : o2 = o
      · subst heq
        rw [hcl] at hsub'
        rcases ih _ _ hsub' with h1 | ⟨i, cB, cB', oB, oB', a1, a2, a3, a4, a5⟩
        · left; rw [ho2, h1]
        · exact Or.inr ⟨i + 1, cB, cB', oB, oB', hA i cB oB a1,
            BlockAt.later inp' cap b0' tl h cx o2 pad2 chk rest' i cB' oB' hinp' hb0 hh hD' a2, a3, a4, a5⟩
      · exact Or.inr ⟨0, c, cx, o, o2, BlockAt.here inp cap b0' tl h c o pad2 chk rest hinp hb0 hh hD,
          BlockAt.here inp' cap b0' tl h cx o2 pad2 chk rest' hinp' hb0 hh hD', hcx.symm, fun e => heq e.symm, by rw [← k1, ← k2]⟩

theorem drop_drop' {α : Type} (l : List α) (a b : Nat) : (l.drop a).drop b = l.drop (a + b) := by
  first | rw [List.drop_drop] | rw [List.drop_drop, Nat.add_comm]

theorem DBlocks_final_ok {E : Env} {fl : Flags} {hdr : StreamFlags} {inp : List UInt8} {cap : Nat}
    {out : List UInt8} {c : Nat} {final : HashInfo} (r : DBlocks E fl hdr [] inp cap out c final) :
    (∀ x ∈ final, RecordOk x) ∧ final.length ≤ VLI_MAX := by
  have hrec := DBlocks_records r (by intro x hx; cases hx)
  refine ⟨hrec, ?_⟩
  rcases DBlocks_limits r with he | hlim
  · rw [he]; exact Nat.zero_le _
  · exact Nat.le_trans (hBlocksSize_ge_length final hrec) hlim.1

/-- `b` is a single declaratively valid Stream that fills the whole file, and `b'` is `b` with the Compressed Data of its Blocks
    overwritten (same lengths). -/
def FileDamage (E : Env) (fl : Flags) (b b' : List UInt8) (cap : Nat) (hdr : StreamFlags) (out : List UInt8) : Prop :=
  ∃ (c : Nat) (final : HashInfo) (s : SRes),
    STREAM_HEADER_SIZE ≤ b.length ∧ b'.take STREAM_HEADER_SIZE = b.take STREAM_HEADER_SIZE ∧
    streamHeaderDecode (b.take STREAM_HEADER_SIZE) = .ok hdr ∧
    PayloadDamage E fl hdr [] (b.drop STREAM_HEADER_SIZE) (b'.drop STREAM_HEADER_SIZE) cap out c final ∧
    FooterFacts hdr final (b.drop (STREAM_HEADER_SIZE + c)) s ∧
    b.length = STREAM_HEADER_SIZE + c + s.consumed

/-- **payload_damage_needs_collision, whole file.** -/
theorem payload_damage_tethered (E : Env) (hloc : PayloadLocal E) (hbd : PayloadBounded E) (fl : Flags)
    (hnc : fl.concatenated = false) (hign : fl.ignoreCheck = false) (b b' : List UInt8) (cap : Nat)
    (hdr : StreamFlags) (out : List UInt8) (hdmg : FileDamage E fl b b' cap hdr out)
    (hck : hdr.check ≠ 0) (hsup : E.checkSupported hdr.check = true)
    (hr' : (xzDecode E fl b' cap).ret = .streamEnd) (hall' : (xzDecode E fl b' cap).consumed = b'.length) :
    ((xzDecode E fl b cap).ret = .streamEnd ∧ (xzDecode E fl b cap).out = out ∧ (xzDecode E fl b cap).consumed = b.length)
    ∧ ((xzDecode E fl b' cap).out = out
        ∨ BlockCollision E fl hdr (b.drop STREAM_HEADER_SIZE) (b'.drop STREAM_HEADER_SIZE) cap) := by
  obtain ⟨c, final, s, hl, htk, hh, hpd, hF, hlen⟩ := hdmg
  -- `b` is accepted with output `out` (completeness)
  have hV : DValidXz E fl b cap out b.length :=
    DValidXz.single _ _ _ _ hnc ⟨hdr, c, final, s, hl, hh, hpd.toDBlocks, hF, hlen, Nat.le_refl _⟩
  refine ⟨xzDecode_complete E hloc fl b cap out b.length hV, ?_⟩
  -- the parse of `b'` (soundness)
  have hV' := xzDecode_sound_decl E hloc hbd fl b' cap hr'
  generalize (xzDecode E fl b' cap).out = out2 at hV' ⊢
  rw [hall'] at hV'
  have hS' : DValidStream E fl b' cap out2 b'.length := by
    generalize hn : b'.length = n at hV'
    cases hV' with
    | single _ _ _ _ _ hv => exact hv
    | last _ _ _ _ _ hc => rw [hnc] at hc; cases hc
    | more _ _ _ _ _ _ _ _ _ hc => rw [hnc] at hc; cases hc
  obtain ⟨hdr2, c2, final2, s2, hl2, hh2, hrun2, hF2, hlen2, _⟩ := hS'
  rw [htk, hh] at hh2
  simp only [Except.ok.injEq] at hh2
  subst hh2
  -- sizes
  obtain ⟨htl, htd⟩ := hpd.tail
  simp only [List.length_drop] at htl
  have hce := hF.consumed_eq
  have hce2 := hF2.consumed_eq
  have hblen : b'.length = b.length := by omega
  obtain ⟨ftr, hftr, _⟩ := hF.footer
  obtain ⟨ftr2, hftr2, _⟩ := hF2.footer
  -- the two footers are the same bytes
  have hpos : STREAM_HEADER_SIZE + c2 + indexHashSize final2 = STREAM_HEADER_SIZE + c + indexHashSize final := by omega
  have key : ∀ k, List.drop (STREAM_HEADER_SIZE + c + k) b' = List.drop (STREAM_HEADER_SIZE + c + k) b := by
    intro k
    have := congrArg (List.drop k) htd
    rw [drop_drop', drop_drop', drop_drop', drop_drop'] at this
    rw [Nat.add_assoc]
    exact this
  have hsame : List.drop (indexHashSize final2) (List.drop (STREAM_HEADER_SIZE + c2) b')
      = List.drop (indexHashSize final) (List.drop (STREAM_HEADER_SIZE + c) b) := by
    rw [drop_drop', drop_drop', hpos]
    exact key _
  rw [hsame, hftr] at hftr2
  simp only [Except.ok.injEq, Prod.mk.injEq] at hftr2
  have hsz : indexHashSize final2 = indexHashSize final := hftr2.2.symm
  have hc2 : c2 = c := by omega
  subst hc2
  -- the two Index fields are the same bytes, hence the same Records
  have hib := hF.index_bytes
  have hib2 := hF2.index_bytes
  have hdropc : List.drop (STREAM_HEADER_SIZE + c2) b' = List.drop (STREAM_HEADER_SIZE + c2) b := by
    have := key 0
    simpa only [Nat.add_zero] using this
  rw [hdropc, hsz, hib] at hib2
  obtain ⟨hrec1, hcnt1⟩ := DBlocks_final_ok hpd.toDBlocks
  obtain ⟨hrec2, hcnt2⟩ := DBlocks_final_ok hrun2
  have hfin : final = final2 := indexEncode_injective final final2 hrec1 hrec2 hcnt1 hcnt2 hib2
  subst hfin
  exact damage_blocks E fl hdr hck hsup hign hpd out2 c2 hrun2

end XzVerif.XzDecode
