/-
  C01, MicroLZMA: the operations queued for ONE symbol (`encode_symbol`, `encode_init`) never use the same probability
  variable twice. (This is what makes `rc_encode_dummy`, which does not update probabilities, exact.)
-/
import XzVerif.Lemmas.LzmaDummy

namespace XzVerif.LzmaExec
open XzVerif.RangeDec XzVerif.RangeEnc XzVerif.RangeCoder XzVerif.LzDict XzVerif.Lzma XzVerif.LzmaEnc XzVerif.LzmaSymDec
open XzVerif.LzmaSym XzVerif.LzmaSpec

theorem ctxs_append : ∀ (a b : List Op), ctxs (a ++ b) = ctxs a ++ ctxs b
  | [], b => rfl
  | .bit c v :: a, b => by simp only [List.cons_append, ctxs, ctxs_append a b]
  | .direct v :: a, b => by simp only [List.cons_append, ctxs, ctxs_append a b]

theorem ctxs_lt_of_allLt {N : Nat} : ∀ {ops : List Op}, AllLt N ops → ∀ c ∈ ctxs ops, c < N
  | [], _, c, hc => by simp [ctxs] at hc
  | .bit c0 v :: ops, h, c, hc => by
    simp only [ctxs, List.mem_cons] at hc
    rcases hc with rfl | hc
    · have := h (.bit c v) (List.mem_cons_self ..)
      simpa [Op.ctxOk] using this
    · exact ctxs_lt_of_allLt (fun op hop => h op (List.mem_cons_of_mem _ hop)) c hc
  | .direct v :: ops, h, c, hc => by
    simp only [ctxs] at hc
    exact ctxs_lt_of_allLt (fun op hop => h op (List.mem_cons_of_mem _ hop)) c hc

/-- a list of contexts that are all in `[lo, hi)` and pairwise distinct -/
def ND (lo hi : Nat) (ops : List Op) : Prop := (ctxs ops).Nodup ∧ ∀ c ∈ ctxs ops, lo ≤ c ∧ c < hi

theorem ND.mono {lo hi lo' hi' : Nat} {ops : List Op} (h : ND lo hi ops) (h1 : lo' ≤ lo) (h2 : hi ≤ hi') : ND lo' hi' ops :=
  ⟨h.1, fun c hc => ⟨Nat.le_trans h1 (h.2 c hc).1, Nat.lt_of_lt_of_le (h.2 c hc).2 h2⟩⟩

theorem ND.append {lo1 hi1 lo2 hi2 : Nat} {a b : List Op} (ha : ND lo1 hi1 a) (hb : ND lo2 hi2 b)
    (hd : hi1 ≤ lo2 ∨ hi2 ≤ lo1) : ND (min lo1 lo2) (max hi1 hi2) (a ++ b) := by
  refine ⟨?_, ?_⟩
  · rw [ctxs_append, List.nodup_append]
    refine ⟨ha.1, hb.1, fun x hx y hy => ?_⟩
    have := ha.2 x hx
    have := hb.2 y hy
    omega
  · intro c hc
    rw [ctxs_append, List.mem_append] at hc
    rcases hc with hc | hc
    · have := ha.2 c hc; omega
    · have := hb.2 c hc; omega

theorem ND.bit {lo hi c : Nat} (b : Bool) (h1 : lo ≤ c) (h2 : c < hi) : ND lo hi [.bit c b] :=
  ⟨by simp [ctxs], fun c' hc' => by simp [ctxs] at hc'; subst hc'; exact ⟨h1, h2⟩⟩

theorem ND.nil (lo hi : Nat) : ND lo hi [] := ⟨by simp [ctxs], fun c hc => by simp [ctxs] at hc⟩

theorem ND.direct {lo hi : Nat} (value : Nat) : ∀ n, ND lo hi (directOps value n)
  | 0 => ND.nil lo hi
  | n + 1 => by
    have := ND.direct (lo := lo) (hi := hi) value n
    unfold directOps
    exact ⟨by simpa [ctxs] using this.1, fun c hc => this.2 c (by simpa [ctxs] using hc)⟩

/-! ### bit trees: strictly increasing indices -/

theorem bittree_sorted (base : Nat) : ∀ (n sym m : Nat), 1 ≤ m →
    (ctxs (bittreeOps base n sym m)).Pairwise (· < ·) ∧ ∀ c ∈ ctxs (bittreeOps base n sym m), base + m ≤ c
  | 0, _, _, _ => by simp [bittreeOps, ctxs]
  | n + 1, sym, m, hm => by
    obtain ⟨h1, h2⟩ := bittree_sorted base n sym (2 * m + ((sym >>> n) &&& 1)) (by omega)
    simp only [bittreeOps, ctxs, List.pairwise_cons, List.mem_cons]
    refine ⟨⟨fun c hc => ?_, h1⟩, fun c hc => ?_⟩
    · have := h2 c hc; omega
    · rcases hc with rfl | hc
      · exact Nat.le_refl _
      · have := h2 c hc; omega

theorem bittreeRev_sorted (base : Nat) : ∀ (n sym m : Nat), 1 ≤ m →
    (ctxs (bittreeRevOps base n sym m)).Pairwise (· < ·) ∧ ∀ c ∈ ctxs (bittreeRevOps base n sym m), base + m ≤ c
  | 0, _, _, _ => by simp [bittreeRevOps, ctxs]
  | n + 1, sym, m, hm => by
    obtain ⟨h1, h2⟩ := bittreeRev_sorted base n (sym >>> 1) (2 * m + (sym &&& 1)) (by omega)
    simp only [bittreeRevOps, ctxs, List.pairwise_cons, List.mem_cons]
    refine ⟨⟨fun c hc => ?_, h1⟩, fun c hc => ?_⟩
    · have := h2 c hc; omega
    · rcases hc with rfl | hc
      · exact Nat.le_refl _
      · have := h2 c hc; omega

theorem nodup_of_sorted {l : List Nat} (h : l.Pairwise (· < ·)) : l.Nodup :=
  h.imp (fun hab => Nat.ne_of_lt hab)

theorem nd_bittree (base N : Nat) (n sym m : Nat) (hm : 1 ≤ m) (hN : AllLt N (bittreeOps base n sym m)) :
    ND (base + m) N (bittreeOps base n sym m) :=
  ⟨nodup_of_sorted (bittree_sorted base n sym m hm).1,
    fun c hc => ⟨(bittree_sorted base n sym m hm).2 c hc, ctxs_lt_of_allLt hN c hc⟩⟩

theorem nd_bittreeRev (base N : Nat) (n sym m : Nat) (hm : 1 ≤ m) (hN : AllLt N (bittreeRevOps base n sym m)) :
    ND (base + m) N (bittreeRevOps base n sym m) :=
  ⟨nodup_of_sorted (bittreeRev_sorted base n sym m hm).1,
    fun c hc => ⟨(bittreeRev_sorted base n sym m hm).2 c hc, ctxs_lt_of_allLt hN c hc⟩⟩

/-! ### matched literal: the low byte of the index is the partial symbol, which grows -/

theorem litMatched_key (base : Nat) : ∀ (n offset mb esym : Nat), (offset = 0 ∨ offset = 256) → 256 ≤ esym →
    esym * 2 ^ n < 131072 →
    (ctxs (litMatchedOps base n offset mb esym)).Pairwise (fun a b => (a - base) % 256 < (b - base) % 256) ∧
      ∀ c ∈ ctxs (litMatchedOps base n offset mb esym), base ≤ c ∧ c < base + 768 ∧ esym / 256 ≤ (c - base) % 256
  | 0, _, _, _, _, _, _ => by simp [litMatchedOps, ctxs]
  | n + 1, offset, mb, esym, ho, h1, h2 => by
    have hp : 0 < 2 ^ n := Nat.pow_pos (by norm_num)
    have e2 : 2 ^ (n + 1) = 2 * 2 ^ n := by rw [pow_succ]; ring
    rw [e2] at h2
    have hmb : mb * 2 &&& offset = 0 ∨ mb * 2 &&& offset = offset := by
      rcases ho with rfl | rfl
      · left; simp
      · exact and_256 _
    have ho' : (offset &&& ((mb * 2 ^^^ esym * 2) ^^^ 0xFFFFFFFF) = 0 ∨ offset &&& ((mb * 2 ^^^ esym * 2) ^^^ 0xFFFFFFFF) = 256) := by
      rw [off_step offset (mb * 2) esym ho]
      rcases ho with rfl | rfl
      · left; simp
      · rcases hmb with h0 | h0 <;> rw [h0] <;> split <;> simp
    obtain ⟨ih1, ih2⟩ := litMatched_key base n _ (mb * 2) (esym * 2) ho' (by omega) (by nlinarith)
    have hs8 : esym >>> 8 = esym / 256 := by rw [Nat.shiftRight_eq_div_pow]
    have hlt : esym / 256 < 256 := by
      have : esym < 65536 := by nlinarith
      omega
    have hidx : ∃ q, q ≤ 2 ∧ offset + (mb * 2 &&& offset) + (esym >>> 8) = q * 256 + esym / 256 := by
      rw [hs8]
      rcases ho with rfl | rfl
      · exact ⟨0, by omega, by simp⟩
      · rcases hmb with h0 | h0 <;> rw [h0]
        · exact ⟨1, by omega, by omega⟩
        · exact ⟨2, by omega, by omega⟩
    obtain ⟨q, hq, hidx⟩ := hidx
    simp only [litMatchedOps, ctxs, List.pairwise_cons, List.mem_cons]
    rw [hidx]
    have hkey : (base + (q * 256 + esym / 256) - base) % 256 = esym / 256 := by
      have : base + (q * 256 + esym / 256) - base = q * 256 + esym / 256 := by omega
      rw [this]; omega
    refine ⟨⟨fun c hc => ?_, ih1⟩, fun c hc => ?_⟩
    · rw [hkey]
      have := (ih2 c hc).2.2
      omega
    · rcases hc with rfl | hc
      · refine ⟨by omega, by omega, ?_⟩
        rw [hkey]
      · obtain ⟨a, b, c'⟩ := ih2 c hc
        exact ⟨a, b, by omega⟩

theorem nd_litMatched (base : Nat) (mb : Nat) (cur : UInt8) :
    ND base (base + 768) (litMatchedOps base 8 0x100 mb (cur.toNat + 0x100)) := by
  have hc : cur.toNat < 256 := UInt8.toNat_lt_size cur
  obtain ⟨h1, h2⟩ := litMatched_key base 8 0x100 mb (cur.toNat + 0x100) (Or.inr rfl) (by omega) (by norm_num; omega)
  exact ⟨h1.imp (fun {a b} hab heq => by rw [heq] at hab; omega), fun c hc => ⟨(h2 c hc).1, (h2 c hc).2.1⟩⟩

/-! ### length, distance -/

theorem nd_length (lenBase posState len : Nat) (hps : posState < 16) :
    ND lenBase (lenBase + 514) (lengthOps lenBase posState len) := by
  unfold lengthOps
  simp only [LEN_CHOICE, LEN_CHOICE2, LEN_LOW, LEN_MID, LEN_HIGH, LEN_LOW_SYMBOLS, LEN_MID_SYMBOLS, LEN_LOW_BITS, LEN_MID_BITS,
    LEN_HIGH_BITS]
  split
  · have ht := nd_bittree (lenBase + 2 + posState * 8) (lenBase + 2 + posState * 8 + 8) 3 (len - MATCH_LEN_MIN) 1 (by omega)
      (bittree_bound _ _ 2 _ 1 (by norm_num))
    have := (ND.bit (lo := lenBase + 0) (hi := lenBase + 0 + 1) false (Nat.le_refl _) (by omega)).append ht (Or.inl (by omega))
    exact this.mono (by omega) (by omega)
  · split
    · have ht := nd_bittree (lenBase + 130 + posState * 8) (lenBase + 130 + posState * 8 + 8) 3
        (len - MATCH_LEN_MIN - 8) 1 (by omega) (bittree_bound _ _ 2 _ 1 (by norm_num))
      have h2 := (ND.bit (lo := lenBase + 1) (hi := lenBase + 1 + 1) false (Nat.le_refl _) (by omega)).append ht (Or.inl (by omega))
      have := (ND.bit (lo := lenBase + 0) (hi := lenBase + 0 + 1) true (Nat.le_refl _) (by omega)).append h2 (Or.inl (by omega))
      exact this.mono (by omega) (by omega)
    · have ht := nd_bittree (lenBase + 258) (lenBase + 258 + 256) 8 (len - MATCH_LEN_MIN - 8 - 8) 1 (by omega)
        (bittree_bound _ _ 7 _ 1 (by norm_num))
      have h2 := (ND.bit (lo := lenBase + 1) (hi := lenBase + 1 + 1) true (Nat.le_refl _) (by omega)).append ht (Or.inl (by omega))
      have := (ND.bit (lo := lenBase + 0) (hi := lenBase + 0 + 1) true (Nat.le_refl _) (by omega)).append h2 (Or.inl (by omega))
      exact this.mono (by omega) (by omega)

theorem nd_dist (dist len : Nat) (h32 : dist < 4294967296) : ND 432 818 (distOps dist len) := by
  unfold distOps
  simp only [DIST_SLOT_BITS, DIST_MODEL_START, DIST_MODEL_END, ALIGN_BITS, ALIGN_MASK, P_DIST_SLOT, P_POS_SPECIAL, P_POS_ALIGN,
    DIST_SLOTS]
  have hds := getDistState_lt len
  have hhead : ∀ slot, ND 432 688 (bittreeOps (432 + getDistState len * 64) 6 slot 1) := fun slot =>
    (nd_bittree _ (432 + getDistState len * 64 + 64) 6 slot 1 (by omega) (bittree_bound _ _ 5 slot 1 (by norm_num))).mono
      (by omega) (by omega)
  by_cases h4 : dist < 4
  · have hs : getDistSlot dist = dist := by simp [getDistSlot, h4]
    have : ¬ (4 ≤ dist) := by omega
    simp only [hs, ge_iff_le, this, if_false]
    exact (hhead _).mono (by omega) (by omega)
  · obtain ⟨i, bit, hi2, hi31, hbit, hslot, hle, hlt⟩ := distSlot_spec dist (by omega) h32
    have hge : 4 ≤ 2 * i + bit := by omega
    have hfb : (2 * i + bit) >>> 1 - 1 = i - 1 := by simp only [Nat.shiftRight_eq_div_pow]; omega
    have hb1 : (2 * i + bit) &&& 1 = bit := by rw [Nat.and_one_is_mod]; omega
    have hbase : (2 ||| bit) <<< (i - 1) = (2 + bit) * 2 ^ (i - 1) := by rw [or_two _ hbit, Nat.shiftLeft_eq]
    simp only [hslot, ge_iff_le, hge, if_true, hfb, hb1, hbase]
    split
    · rename_i h14
      obtain ⟨j, hj⟩ : ∃ j, i - 1 = j + 1 := ⟨i - 2, by omega⟩
      have hi6 : i ≤ 6 := by omega
      have hbit' : bit = 0 ∨ bit = 1 := by omega
      have hsp : ND 688 802 (bittreeRevOps (688 + (2 + bit) * 2 ^ (i - 1) - (2 * i + bit) - 1) (i - 1)
          (dist - (2 + bit) * 2 ^ (i - 1)) 1) := by
        have hb := nd_bittreeRev (688 + (2 + bit) * 2 ^ (i - 1) - (2 * i + bit) - 1) 802 (i - 1)
          (dist - (2 + bit) * 2 ^ (i - 1)) 1 (by omega) (by
            rw [hj]
            apply bittreeRev_bound
            interval_cases i <;> rcases hbit' with rfl | rfl <;> simp at hj <;> subst hj <;> norm_num)
        refine hb.mono ?_ (Nat.le_refl _)
        interval_cases i <;> rcases hbit' with rfl | rfl <;> norm_num
      have := (hhead (2 * i + bit)).append hsp (Or.inl (Nat.le_refl _))
      exact this.mono (by omega) (by omega)
    · have hal : ND 802 818 (bittreeRevOps 802 4 ((dist - (2 + bit) * 2 ^ (i - 1)) &&& 15) 1) :=
        (nd_bittreeRev 802 818 4 _ 1 (by omega) (bittreeRev_bound _ _ 3 _ 1 (by norm_num))).mono (by omega) (Nat.le_refl _)
      have hdir : ND 688 688 (directOps ((dist - (2 + bit) * 2 ^ (i - 1)) >>> 4) (i - 1 - 4)) := ND.direct _ _
      have h1 := (hhead (2 * i + bit)).append hdir (Or.inl (Nat.le_refl _))
      have := h1.append hal (Or.inl (by omega))
      exact this.mono (by omega) (by omega)

/-! ### one symbol -/

theorem nd_cons {lo hi lo' hi' c : Nat} {b : Bool} {ops : List Op} (h : ND lo hi ops) (h1 : lo' ≤ c) (h2 : c < lo) (h3 : hi ≤ hi') (h4 : c < hi') :
    ND lo' hi' (.bit c b :: ops) := by
  refine ⟨?_, ?_⟩
  · simp only [ctxs, List.nodup_cons]
    exact ⟨fun hc => by have := h.2 c hc; omega, h.1⟩
  · intro c' hc'
    simp only [ctxs, List.mem_cons] at hc'
    rcases hc' with rfl | hc'
    · exact ⟨h1, h4⟩
    · have := h.2 c' hc'; omega

theorem symOps_nodup (p : Props) (hp : PropsOk p) (s : SymSt) (hs : s.state < 12) (pos prev mb : Nat) (sym : Sym)
    (hv : ValidSym sym) : (ctxs (symOps p s pos prev mb sym).1).Nodup := by
  have hps := posState_lt pos p.pb hp.2
  unfold symOps
  simp only [P_IS_MATCH, P_IS_REP, POS_STATES_MAX]
  cases sym with
  | lit cur =>
    simp only [literalOps, P_LITERAL]
    split
    · have ht := nd_bittree (1846 + literalSubcoder p.lc p.lp pos prev) (1846 + literalSubcoder p.lc p.lp pos prev + 256) 8
        cur.toNat 1 (by omega) (bittree_bound _ _ 7 _ 1 (by norm_num))
      exact (nd_cons (lo' := 0) (hi' := 1846 + literalSubcoder p.lc p.lp pos prev + 256) (b := false) ht (Nat.zero_le _)
        (by omega) (Nat.le_refl _) (by omega)).1
    · have ht := nd_litMatched (1846 + literalSubcoder p.lc p.lp pos prev) mb cur
      exact (nd_cons (lo' := 0) (hi' := 1846 + literalSubcoder p.lc p.lp pos prev + 768) (b := false) ht (Nat.zero_le _)
        (by omega) (Nat.le_refl _) (by omega)).1
  | mtch dist len =>
    obtain ⟨_, _, h32⟩ := hv
    simp only [matchOps]
    have hl := nd_length P_MATCH_LEN (pos &&& ((1 <<< p.pb) - 1)) len hps
    have hd := nd_dist dist len h32
    simp only [P_MATCH_LEN] at hl
    have h1 : ND 432 1332 (lengthOps 818 (pos &&& ((1 <<< p.pb) - 1)) len ++ distOps dist len) :=
      (hl.append hd (Or.inr (Nat.le_refl _))).mono (by norm_num) (by norm_num)
    have h2 := nd_cons (lo' := 192) (hi' := 1332) (c := 192 + s.state) (b := false) h1
      (by omega) (by omega) (Nat.le_refl _) (by omega)
    exact (nd_cons (lo' := 0) (hi' := 1332) (b := true) h2 (Nat.zero_le _) (by omega) (Nat.le_refl _) (by omega)).1
  | rep idx len =>
    obtain ⟨hi, h2, _⟩ := hv
    have hl1 : (len == 1) = false := by simp; omega
    have hlen := nd_length P_REP_LEN (pos &&& ((1 <<< p.pb) - 1)) len hps
    simp only [P_REP_LEN] at hlen
    have hidx : idx = 0 ∨ idx = 1 ∨ idx = 2 ∨ idx = 3 := by omega
    simp only [repOps, hl1, Bool.false_eq_true, if_false, P_IS_REP0, P_IS_REP1, P_IS_REP2, P_IS_REP0_LONG, POS_STATES_MAX,
      P_REP_LEN]
    rcases hidx with rfl | rfl | rfl | rfl
    · simp only [beq_self_eq_true, if_true, List.cons_append, List.nil_append]
      have a1 := nd_cons (lo' := 240) (hi' := 1846) (c := 240 + s.state * 16 + (pos &&& ((1 <<< p.pb) - 1))) (b := (len != 1)) hlen
        (by omega) (by omega) (Nat.le_refl _) (by omega)
      have a2 := nd_cons (lo' := 204) (hi' := 1846) (c := 204 + s.state) (b := false) a1 (by omega) (by omega) (Nat.le_refl _) (by omega)
      have a3 := nd_cons (lo' := 192) (hi' := 1846) (c := 192 + s.state) (b := true) a2 (by omega) (by omega) (Nat.le_refl _) (by omega)
      exact (nd_cons (lo' := 0) (hi' := 1846) (b := true) a3 (Nat.zero_le _) (by omega) (Nat.le_refl _) (by omega)).1
    · simp only [show ((1 : Nat) == 0) = false from rfl, beq_self_eq_true, if_true, Bool.false_eq_true, if_false,
        List.cons_append, List.nil_append]
      have a1 := nd_cons (lo' := 216) (hi' := 1846) (c := 216 + s.state) (b := false) hlen (by omega) (by omega) (Nat.le_refl _) (by omega)
      have a2 := nd_cons (lo' := 204) (hi' := 1846) (c := 204 + s.state) (b := true) a1 (by omega) (by omega) (Nat.le_refl _) (by omega)
      have a3 := nd_cons (lo' := 192) (hi' := 1846) (c := 192 + s.state) (b := true) a2 (by omega) (by omega) (Nat.le_refl _) (by omega)
      exact (nd_cons (lo' := 0) (hi' := 1846) (b := true) a3 (Nat.zero_le _) (by omega) (Nat.le_refl _) (by omega)).1
    · simp only [show ((2 : Nat) == 0) = false from rfl, show ((2 : Nat) == 1) = false from rfl, beq_self_eq_true, if_true,
        Bool.false_eq_true, if_false, List.cons_append, List.nil_append]
      have a0 := nd_cons (lo' := 228) (hi' := 1846) (c := 228 + s.state) (b := false) hlen (by omega) (by omega) (Nat.le_refl _) (by omega)
      have a1 := nd_cons (lo' := 216) (hi' := 1846) (c := 216 + s.state) (b := true) a0 (by omega) (by omega) (Nat.le_refl _) (by omega)
      have a2 := nd_cons (lo' := 204) (hi' := 1846) (c := 204 + s.state) (b := true) a1 (by omega) (by omega) (Nat.le_refl _) (by omega)
      have a3 := nd_cons (lo' := 192) (hi' := 1846) (c := 192 + s.state) (b := true) a2 (by omega) (by omega) (Nat.le_refl _) (by omega)
      exact (nd_cons (lo' := 0) (hi' := 1846) (b := true) a3 (Nat.zero_le _) (by omega) (Nat.le_refl _) (by omega)).1
    · simp only [show ((3 : Nat) == 0) = false from rfl, show ((3 : Nat) == 1) = false from rfl,
        show ((3 : Nat) == 2) = false from rfl, Bool.false_eq_true, if_false, List.cons_append, List.nil_append]
      have a0 := nd_cons (lo' := 228) (hi' := 1846) (c := 228 + s.state) (b := true) hlen (by omega) (by omega) (Nat.le_refl _) (by omega)
      have a1 := nd_cons (lo' := 216) (hi' := 1846) (c := 216 + s.state) (b := true) a0 (by omega) (by omega) (Nat.le_refl _) (by omega)
      have a2 := nd_cons (lo' := 204) (hi' := 1846) (c := 204 + s.state) (b := true) a1 (by omega) (by omega) (Nat.le_refl _) (by omega)
      have a3 := nd_cons (lo' := 192) (hi' := 1846) (c := 192 + s.state) (b := true) a2 (by omega) (by omega) (Nat.le_refl _) (by omega)
      exact (nd_cons (lo' := 0) (hi' := 1846) (b := true) a3 (Nat.zero_le _) (by omega) (Nat.le_refl _) (by omega)).1
  | shortrep =>
    simp only [repOps, beq_self_eq_true, if_true, bne_self_eq_false, P_IS_REP0, P_IS_REP0_LONG, POS_STATES_MAX]
    have a1 := nd_cons (lo' := 240) (hi' := 1846) (c := 240 + s.state * 16 + (pos &&& ((1 <<< p.pb) - 1))) (b := false)
      (ND.nil 1846 1846) (by omega) (by omega) (Nat.le_refl _) (by omega)
    have a2 := nd_cons (lo' := 204) (hi' := 1846) (c := 204 + s.state) (b := false) a1 (by omega) (by omega) (Nat.le_refl _) (by omega)
    have a3 := nd_cons (lo' := 192) (hi' := 1846) (c := 192 + s.state) (b := true) a2 (by omega) (by omega) (Nat.le_refl _) (by omega)
    exact (nd_cons (lo' := 0) (hi' := 1846) (b := true) a3 (Nat.zero_le _) (by omega) (Nat.le_refl _) (by omega)).1

theorem initOps_nd (b : UInt8) : ND 0 2102 (initOps b) := by
  unfold initOps
  simp only [P_IS_MATCH, P_LITERAL]
  have ht := nd_bittree (1846 + 0) (1846 + 0 + 256) 8 b.toNat 1 (by omega) (bittree_bound _ _ 7 _ 1 (by norm_num))
  exact nd_cons (lo' := 0) (hi' := 2102) (c := 0 + 0) (b := false) ht (Nat.zero_le _) (by omega) (Nat.le_refl _) (by omega)

end XzVerif.LzmaExec
