/-
  SHA-256: `transform()` of sha256.c (model `transformC`: unrolled R0/R2 macros over the rotating `T[(k-i)&7]` and the
  16-word rolling `W`) equals the FIPS 180-4 compression function `compress` (64-word schedule, textbook round) for
  every state and every block.  Proof: a simulation invariant over the 64 rounds (`Inv`).  Kernel proofs only.
-/
import XzVerif.Lemmas.Sha256Bits
namespace XzVerif.Sha256

/-! ### the C round in terms of the eight working variables -/

def roundC (s : St) (kc blk : W32) : St :=
  let h1 := s.h + (S1 s.e + ChC s.e s.f s.g + kc + blk)
  let d1 := s.d + h1
  let h2 := h1 + (S0 s.a + MajC s.a s.b s.c)
  ⟨h2, s.a, s.b, s.c, d1, s.e, s.f, s.g⟩

theorem roundC_eq_round (s : St) (k w : W32) : roundC s k w = round s k w := by
  simp only [roundC, round, S0_eq, S1_eq, ChC_eq, MajC_eq]
  congr 1 <;> ac_rfl

/-- The working variables `a(i) … h(i)` as the macros read them from `T`. -/
def viewI (T : List W32) (i : Nat) : St :=
  ⟨T.getD (idx 0 i) 0, T.getD (idx 1 i) 0, T.getD (idx 2 i) 0, T.getD (idx 3 i) 0,
   T.getD (idx 4 i) 0, T.getD (idx 5 i) 0, T.getD (idx 6 i) 0, T.getD (idx 7 i) 0⟩

theorem list8 (T : List W32) (h : T.length = 8) : ∃ t0 t1 t2 t3 t4 t5 t6 t7, T = [t0, t1, t2, t3, t4, t5, t6, t7] := by
  match T, h with
  | [t0, t1, t2, t3, t4, t5, t6, t7], _ => exact ⟨t0, t1, t2, t3, t4, t5, t6, t7, rfl⟩

theorem R_length (T : List W32) (i : Nat) (kc blk : W32) : (R T i kc blk).length = T.length := by
  simp [R]

theorem R_view (T : List W32) (hT : T.length = 8) (i : Nat) (hi : i < 16) (kc blk : W32) :
    viewI (R T i kc blk) (i + 1) = roundC (viewI T i) kc blk := by
  obtain ⟨t0, t1, t2, t3, t4, t5, t6, t7, rfl⟩ := list8 T hT
  have : i = 0 ∨ i = 1 ∨ i = 2 ∨ i = 3 ∨ i = 4 ∨ i = 5 ∨ i = 6 ∨ i = 7 ∨ i = 8 ∨ i = 9 ∨ i = 10 ∨ i = 11
      ∨ i = 12 ∨ i = 13 ∨ i = 14 ∨ i = 15 := by omega
  rcases this with h|h|h|h|h|h|h|h|h|h|h|h|h|h|h|h <;> subst h <;> rfl


/-! ### the FIPS message schedule -/

theorem schedAux_length (m : List W32) (n : Nat) : (schedAux m n).length = m.length + n := by
  induction n with
  | zero => rfl
  | succ n ih => simp [schedAux, ih]; omega

theorem schedAux_getD_stable (m : List W32) (n k t : Nat) (ht : t < m.length + n) :
    (schedAux m (n + k)).getD t 0 = (schedAux m n).getD t 0 := by
  induction k with
  | zero => rfl
  | succ k ih =>
    rw [← Nat.add_assoc, schedAux]
    simp only [List.getD_eq_getElem?_getD]
    rw [List.getElem?_append_left (by rw [schedAux_length]; omega)]
    simpa [List.getD_eq_getElem?_getD] using ih

theorem schedAux_getD_new (m : List W32) (n : Nat) :
    (schedAux m (n + 1)).getD (m.length + n) 0 =
      (let w := schedAux m n
       ssig1 (w.getD (n + 14) 0) + w.getD (n + 9) 0 + ssig0 (w.getD (n + 1) 0) + w.getD n 0) := by
  rw [schedAux]
  simp only [List.getD_eq_getElem?_getD]
  rw [List.getElem?_append_right (by rw [schedAux_length]; omega)]
  simp [schedAux_length]

theorem schedule_init (m : List W32) (t : Nat) (ht : t < m.length) : (schedule m).getD t 0 = m.getD t 0 := by
  have := schedAux_getD_stable m 0 48 t (by omega)
  rw [show schedAux m 0 = m from rfl, Nat.zero_add] at this
  exact this

theorem schedule_rec (m : List W32) (hm : m.length = 16) (n : Nat) (hn : n < 48) :
    (schedule m).getD (n + 16) 0 =
      ssig1 ((schedule m).getD (n + 14) 0) + (schedule m).getD (n + 9) 0 + ssig0 ((schedule m).getD (n + 1) 0)
        + (schedule m).getD n 0 := by
  have e : 48 = n + (48 - n) := by omega
  have e1 : 48 = (n + 1) + (47 - n) := by omega
  have st : ∀ t, t < 16 + n → (schedule m).getD t 0 = (schedAux m n).getD t 0 := by
    intro t ht
    unfold schedule
    conv => lhs; rw [e]
    exact schedAux_getD_stable m n _ t (by omega)
  rw [st (n + 14) (by omega), st (n + 9) (by omega), st (n + 1) (by omega), st n (by omega)]
  unfold schedule
  conv => lhs; rw [e1]
  rw [schedAux_getD_stable m (n + 1) _ _ (by omega)]
  have := schedAux_getD_new m n
  rw [hm, Nat.add_comm 16 n] at this
  exact this


/-! ### simulation: the C loops track the FIPS rounds -/

attribute [local irreducible] schedule

theorem roundsUpTo_succ (Kt W : List W32) (H : St) (t : Nat) :
    roundsUpTo Kt W H (t + 1) = round (roundsUpTo Kt W H t) (Kt.getD t 0) (W.getD t 0) := by
  simp [roundsUpTo, List.range_succ, List.foldl_append]

theorem viewI_mod (T : List W32) (i : Nat) (hi : i ≤ 16) : viewI T (i % 16) = viewI T i := by
  rcases Nat.lt_or_eq_of_le hi with h | h
  · rw [Nat.mod_eq_of_lt h]
  · subst h; rfl

theorem getD_set_self (l : List W32) (i : Nat) (v : W32) (h : i < l.length) : (l.set i v).getD i 0 = v := by
  simp [List.getD_eq_getElem?_getD, h]

theorem getD_set_self' (l : List W32) (i j : Nat) (v : W32) (hij : i = j) (h : i < l.length) :
    (l.set i v).getD j 0 = v := by
  subst hij; exact getD_set_self l i v h

theorem getD_set_ne (l : List W32) (i j : Nat) (v : W32) (h : i ≠ j) : (l.set i v).getD j 0 = l.getD j 0 := by
  simp [List.getD_eq_getElem?_getD, h]

/-- After `t` rounds: `T` read through the rotating macros holds the FIPS working variables, and the rolling `W`
    holds the last (up to) sixteen words of the FIPS schedule. -/
structure Inv (Kt : List W32) (H : St) (m : List W32) (t : Nat) (s : List W32 × List W32) : Prop where
  lenT : s.1.length = 8
  lenW : s.2.length = 16
  view : viewI s.1 (t % 16) = roundsUpTo Kt (schedule m) H t
  win : ∀ u, u < t → t ≤ u + 16 → s.2.getD (u % 16) 0 = (schedule m).getD u 0

theorem R0_inv (Kt : List W32) (H : St) (m : List W32) (hm : m.length = 16) (s : List W32 × List W32)
    (t : Nat) (ht : t < 16) (h : Inv Kt H m t s) : Inv Kt H m (t + 1) (R0 Kt m s t) := by
  have ht16 : t % 16 = t := Nat.mod_eq_of_lt ht
  refine ⟨?_, ?_, ?_, ?_⟩
  · simp only [R0, blk0]; rw [R_length]; exact h.lenT
  · simp only [R0, blk0, List.length_set]; exact h.lenW
  · simp only [R0, blk0]
    rw [viewI_mod _ _ (by omega), R_view _ h.lenT _ ht, roundC_eq_round, roundsUpTo_succ, ← h.view, ht16,
      schedule_init m t (by omega)]
    rfl
  · intro u hu _
    simp only [R0, blk0]
    by_cases hut : u = t
    · subst hut
      rw [ht16, getD_set_self _ _ _ (by rw [h.lenW]; exact ht), schedule_init m u (by omega)]
    · have hu16 : u % 16 = u := Nat.mod_eq_of_lt (by omega)
      have hw := h.win u (by omega) (by omega)
      rw [hu16] at hw
      rw [hu16, getD_set_ne _ _ _ _ (Ne.symm hut)]
      exact hw

theorem R2_inv (Kt : List W32) (H : St) (m : List W32) (hm : m.length = 16) (s : List W32 × List W32)
    (j i : Nat) (hj : j % 16 = 0) (hj16 : 16 ≤ j) (hi : i < 16) (hlt : j + i < 64)
    (h : Inv Kt H m (j + i) s) : Inv Kt H m (j + i + 1) (R2 Kt j s i) := by
  have hmod : (j + i) % 16 = i := by omega
  obtain ⟨n, hn⟩ : ∃ n, j + i = n + 16 := ⟨j + i - 16, by omega⟩
  have w16 := h.win n (by omega) (by omega)
  have w2 := h.win (n + 14) (by omega) (by omega)
  have w7 := h.win (n + 9) (by omega) (by omega)
  have w15 := h.win (n + 1) (by omega) (by omega)
  have e16 : n % 16 = i % 16 := by omega
  have e2 : (n + 14) % 16 = (i + 14) % 16 := by omega
  have e7 : (n + 9) % 16 = (i + 9) % 16 := by omega
  have e15 : (n + 1) % 16 = (i + 1) % 16 := by omega
  rw [e16] at w16; rw [e2] at w2; rw [e7] at w7; rw [e15] at w15
  have hv : s.2.getD (i % 16) 0 + (s1 (s.2.getD ((i + 14) % 16) 0) + s.2.getD ((i + 9) % 16) 0 + s0 (s.2.getD ((i + 1) % 16) 0))
      = (schedule m).getD (j + i) 0 := by
    rw [w16, w2, w7, w15, hn, schedule_rec m hm n (by omega), s0_eq, s1_eq]
    ac_rfl
  refine ⟨?_, ?_, ?_, ?_⟩
  · simp only [R2, blk2]; rw [R_length]; exact h.lenT
  · simp only [R2, blk2, List.length_set]; exact h.lenW
  · simp only [R2, blk2]
    have e1 : (j + i + 1) % 16 = (i + 1) % 16 := by omega
    rw [e1, viewI_mod _ _ (by omega), R_view _ h.lenT _ hi, roundC_eq_round, roundsUpTo_succ, ← h.view, hmod, hv,
      Nat.add_comm i j]
  · intro u hu hu2
    simp only [R2, blk2]
    have hi16 : i % 16 = i := Nat.mod_eq_of_lt hi
    by_cases hut : u = j + i
    · subst hut
      rw [hmod, getD_set_self' _ _ _ _ hi16 (by rw [h.lenW, hi16]; exact hi), hv]
    · have hne : i % 16 ≠ u % 16 := by omega
      rw [getD_set_ne _ _ _ _ hne]
      exact h.win u (by omega) (by omega)

theorem sixteen_fold {P : Nat → (List W32 × List W32) → Prop} (f : List W32 × List W32 → Nat → List W32 × List W32)
    (j : Nat) (hstep : ∀ i s, i < 16 → P (j + i) s → P (j + i + 1) (f s i)) (s : List W32 × List W32) (h0 : P j s) :
    P (j + 16) (sixteen.foldl f s) := by
  simp only [sixteen, List.foldl]
  have h := fun i hi s => hstep i s hi
  exact h 15 (by decide) _ (h 14 (by decide) _ (h 13 (by decide) _ (h 12 (by decide) _ (h 11 (by decide) _ (h 10 (by decide) _
    (h 9 (by decide) _ (h 8 (by decide) _ (h 7 (by decide) _ (h 6 (by decide) _ (h 5 (by decide) _ (h 4 (by decide) _
    (h 3 (by decide) _ (h 2 (by decide) _ (h 1 (by decide) _ (h 0 (by decide) _ h0)))))))))))))))

/-- `transform()` of sha256.c computes the FIPS 180-4 compression function, for every state and every block. -/
theorem transformC_eq (state data : List W32) (hs : state.length = 8) (hd : data.length = 16) :
    transformC K state data = (compress (St.ofList state) data).toList := by
  let H := St.ofList state
  have i0 : Inv K H data 0 (state, List.replicate 16 0) := by
    refine ⟨hs, by simp, ?_, ?_⟩
    · obtain ⟨t0, t1, t2, t3, t4, t5, t6, t7, rfl⟩ := list8 state hs
      rfl
    · intro u hu; omega
  have i16 := sixteen_fold (P := Inv K H data) (R0 K data) 0
    (fun i s hi h => by simpa using R0_inv K H data hd s i hi (by simpa using h)) _ i0
  have step : ∀ j, j % 16 = 0 → 16 ≤ j → j + 16 ≤ 64 → ∀ s, Inv K H data j s → Inv K H data (j + 16) (sixteen.foldl (R2 K j) s) :=
    fun j hj hj16 hj64 s h => sixteen_fold (P := Inv K H data) (R2 K j) j
      (fun i s hi h => R2_inv K H data hd s j i hj hj16 hi (by omega) h) s h
  have i64 : Inv K H data 64 ([16, 32, 48].foldl (fun s j => sixteen.foldl (R2 K j) s) (sixteen.foldl (R0 K data) (state, List.replicate 16 0))) := by
    simp only [List.foldl]
    exact step 48 (by decide) (by decide) (by decide) _ (step 32 (by decide) (by decide) (by decide) _
      (step 16 (by decide) (by decide) (by decide) _ i16))
  have hview := i64.view
  have hlen := i64.lenT
  unfold transformC compress
  simp only []
  generalize ([16, 32, 48].foldl (fun s j => sixteen.foldl (R2 K j) s) (sixteen.foldl (R0 K data) (state, List.replicate 16 0))) = sf at hview hlen ⊢
  rw [← hview]
  obtain ⟨t0, t1, t2, t3, t4, t5, t6, t7, hT⟩ := list8 sf.1 hlen
  obtain ⟨h0, h1, h2, h3, h4, h5, h6, h7, rfl⟩ := list8 state hs
  rw [hT]
  rfl

end XzVerif.Sha256
