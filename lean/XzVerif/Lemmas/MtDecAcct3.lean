/-
  Accounting invariant over reachable states; "queue empty ⇒ the next threaded Block can start now"; read_output_and_wait
  never reports "cannot start" from SEQ_BLOCK_THR_INIT with an empty queue.
-/
import XzVerif.Lemmas.MtDecAcct2

namespace XzVerif.MtDec

theorem AcctInv.reachable {cfg : Cfg} {blocks : List Block} (hwf : ∀ b ∈ blocks, b.WF) {s : State}
    (h : Reachable cfg blocks s) : exitCode s = none → AcctInv s := by
  induction h with
  | init => intro _; exact AcctInv.init cfg blocks
  | @step s s' l hr hs ih =>
    intro hx'
    have g := GInv.reachable hwf hr
    have hx := exitCode_none_back g hs hx'
    have hI := g.inv hx
    have hA := ih hx
    cases hw : l.worker? with
    | some i => exact hA.worker hI hw hs
    | none =>
      cases hsim : l.acctSimple with
      | true => exact hA.mainSimple hw hsim hs
      | false => exact hA.mainOther hI hw hsim hs

/-- **The invariant stated in read_output_and_wait().** In SEQ_BLOCK_THR_INIT, before the memory counters are updated for
    the new Block: if the output queue is empty then nothing is accounted in mem_in_use, every initialised worker is in the
    free list, and the Block — which SEQ_BLOCK_INIT sent to the threaded path because mem_next_block fits memlimit_threading —
    can start now. -/
theorem canStart_of_empty {cfg : Cfg} {blocks : List Block} (hwf : ∀ b ∈ blocks, b.WF) (hfit : ∀ b ∈ blocks, b.FitsMem cfg)
    (hT : 0 < cfg.threadsMax) {s : State} (hr : Reachable cfg blocks s) (hst : Steady s) (hseq : s.seq = .thrInit)
    (hq : s.queue = []) (hp2 : s.pc ≠ .init2) (hp3 : s.pc ≠ .init3) (hp4 : s.pc ≠ .init4) (hp5 : s.pc ≠ .init5) :
    canStartNow s = true ∧ s.memInUse = 0 := by
  have g := GInv.reachable hwf hr
  have hI := g.inv hst.1
  have hL := LiveInv.reachable hwf hr hst
  have hE := (GInv2.reachable hwf hr).err hst.1
  have hA := AcctInv.reachable hwf hr hst.1
  have hno : ∀ i, i < s.workers.length → (getW s i).hasOut = false ∧ (getW s i).failed = false := by
    intro i hi
    constructor
    · cases ho : (getW s i).hasOut with
      | false => rfl
      | true =>
        obtain ⟨_, ⟨o, hoq, _⟩, _⟩ := (hI.1.wk i hi).has ho
        rw [hq] at hoq; cases hoq
    · cases hf : (getW s i).failed with
      | false => rfl
      | true =>
        obtain ⟨o, hoq, _⟩ := hE.e1 (hA.failedErr i hi hf)
        rw [hq] at hoq; cases hoq
  have hmem : s.memInUse = 0 := by
    have := hA.acct
    rw [memSum_zero s hno] at this
    have hp : pendThr s = 0 := by unfold pendThr; split <;> simp_all
    omega
  refine ⟨?_, hmem⟩
  have hkind : (blk s s.cur).kind = .thr := by
    rcases hL.kindThr hseq with e | e | e
    · exact e
    · exact absurd e hp4
    · exact absurd e hp5
  have hcur : s.cur < s.blocks.length := hI.2.seqCur (Or.inr (Or.inl ⟨hseq, hp4, hp5⟩))
  have hmemb : blk s s.cur ∈ blocks := by
    rw [← g.hblocks]
    have : blk s s.cur = s.blocks[s.cur] := by simp [blk, List.getD, List.getElem?_eq_getElem hcur]
    rw [this]; exact List.getElem_mem hcur
  have hf := hfit _ hmemb hkind
  have hthr : s.workers.length < s.cfg.threadsMax ∨ s.threadsFree ≠ [] := by
    by_cases hz : s.workers.length = 0
    · left; rw [hz, g.hcfg]; exact hT
    · right
      have h0 : 0 < s.workers.length := by omega
      rcases hA.cover 0 h0 with x | x | x | x
      · rw [(hno 0 h0).1] at x; cases x
      · rw [(hno 0 h0).2] at x; cases x
      · intro e; rw [e] at x; cases x
      · exact absurd x.1 hp3
  unfold canStartNow
  simp only [Bool.and_eq_true, Bool.or_eq_true, decide_eq_true_eq, outqMem, hq, hmem, List.map_nil, List.sum_nil, List.length_nil,
    bufsLimitFactor, g.hcfg]
  refine ⟨⟨by omega, by omega⟩, ?_⟩
  rcases hthr with e | e
  · left; rw [g.hcfg] at e; exact e
  · right; cases hfl : s.threadsFree with
    | nil => exact absurd hfl e
    | cons a t => rfl

theorem canStartNow_pc (s : State) (pc : MPc) (m : Bool) : canStartNow { s with pc := pc, mwoken := m } = canStartNow s := rfl
theorem canStartNow_pc' (s : State) (pc : MPc) : canStartNow { s with pc := pc } = canStartNow s := rfl

/-- If read_output_and_wait, called from SEQ_BLOCK_THR_INIT, comes back with LZMA_OK and "cannot start", the can-start test
    was false in the state it left. -/
theorem rowIterate_cannot_start (s : State) (w cs : Bool) (k : RowK)
    (hp : (rowIterate s k w).pc = .rowDone .canStart OK cs) (hcs : cs = false) : canStartNow (rowIterate s k w) = false := by
  subst hcs
  unfold rowIterate at hp ⊢
  dsimp only at hp ⊢
  split at hp
  · rename_i hne
    injection hp with _ e _
    simp [e] at hne
  · rename_i hok
    split at hp
    · rename_i hff
      injection hp with _ e _
      simp [e] at hff
    · rename_i hff
      rw [if_neg hok, if_neg hff]
      unfold rowLeaveOrWait at hp ⊢
      split at hp
      · injection hp with _ _ e; cases e
      · rename_i hc
        have hk : k = .canStart := by
          repeat' split at hp
          all_goals first | (cases hp; rfl) | (cases hp)
        subst hk
        have hfalse : canStartNow (flagPend (markFilled (readLoop (s.queue.length + 1) s).1 s.outCap)) = false := by
          simpa [askCanStart] using hc
        rw [if_neg hc]
        repeat' split
        all_goals first | exact hfalse | (rw [canStartNow_pc]; exact hfalse) | (rw [canStartNow_pc']; exact hfalse)

theorem rowIterate_not_rowOk (s : State) (k : RowK) (w : Bool) (k' : RowK) (c : Bool) :
    (rowIterate s k w).pc ≠ .rowOk k' c := by
  unfold rowIterate rowLeaveOrWait
  dsimp only
  repeat' split
  all_goals (intro h; cases h)

/-- read_output_and_wait called from SEQ_BLOCK_THR_INIT returns "cannot start yet" only with a non-empty output queue: with an
    empty queue the Block can always start (so stream_decode_mt never returns LZMA_OK from SEQ_BLOCK_THR_INIT without having
    either started the Block or left output to be read / a worker to be waited for). -/
theorem noStart_nonempty {cfg : Cfg} {blocks : List Block} (hwf : ∀ b ∈ blocks, b.WF) (hfit : ∀ b ∈ blocks, b.FitsMem cfg)
    (hT : 0 < cfg.threadsMax) {s : State} (hr : Reachable cfg blocks s) :
    (s.pc = .rowDone .canStart OK false ∨ s.pc = .rowOk .canStart false) → s.queue ≠ [] := by
  induction hr with
  | init => intro h; rcases h with h | h <;> simp [MtDec.init] at h
  | @step s s' l hr hs ih =>
    intro hp'
    cases hw : l.worker? with
    | some i =>
      have sh := workerShape hw hs
      have := ih (by rw [← sh.pc]; exact hp')
      intro e
      have hl := sh.qlen
      rw [e] at hl
      exact this (List.eq_nil_of_length_eq_zero hl.symm)
    | none =>
      have hr' : Reachable cfg blocks s' := Reachable.step l hr hs
      cases l <;> simp only [Label.worker?, reduceCtorEq] at hw <;> simp only [step] at hs
      case rowIter c =>
        have key : ∀ k w, s' = rowIterate s k w → s'.queue ≠ [] := by
          intro k w e hq
          have g' := GInv.reachable hwf hr'
          -- s' is steady
          have hret : s'.returned = none := by
            cases hrr : s'.returned with
            | none => rfl
            | some r =>
              exfalso
              rcases g'.retPc r hrr with x | x | ⟨i, x | x⟩ <;> rcases hp' with y | y <;> (rw [x] at y; cases y)
          have hpc : s'.pc = .rowDone .canStart OK false := by
            rcases hp' with y | y
            · exact y
            · exfalso
              exact rowIterate_not_rowOk s k w _ _ (e ▸ y)
          have hst : Steady s' := by
            refine ⟨?_, ?_, ?_⟩
            · simp [exitCode, hret, hpc, fatal, OK]
            · rw [hpc]; intro x; cases x
            · simp [hpc]
          have hseq : s'.seq = .thrInit := (g'.inv hst.1).2.rowK .canStart (by rw [hpc]; rfl)
          have hc := (canStart_of_empty hwf hfit hT hr' hst hseq hq (by simp [hpc]) (by simp [hpc]) (by simp [hpc]) (by simp [hpc])).1
          have hf := rowIterate_cannot_start s w false k (by rw [← e]; exact hpc) rfl
          rw [← e, hc] at hf
          cases hf
        split at hs
        · cases hs; exact key _ _ rfl
        · split at hs
          · cases hs; exact key _ _ rfl
          · cases hs
        · cases hs; exact key _ _ rfl
        · cases hs
      case rowDone =>
        split at hs
        case h_2 => cases hs
        rename_i k r cs hpc
        split at hs
        · rename_i hr0
          cases hs
          subst hr0
          rcases hp' with y | y
          · cases y
          · injection y with e1 e2
            subst e1; subst e2
            exact ih (Or.inl hpc)
        · split at hs <;> (cases hs; rcases hp' with y | y <;> cases y)
      all_goals (repeat' split at hs)
      all_goals first | (cases hs; done) | skip
      all_goals (cases hs)
      all_goals first
        | (rcases hp' with y | y <;> (cases y; done))
        | (exfalso; rcases hp' with y | y <;> simp_all [TIMED_OUT, OK])

end XzVerif.MtDec
