/-
  "Starved calls are idle": interface for the second half of the slicing theorems of the resumable LZMA1/LZMA2 decoder model —
  a call that returned LZMA_OK WITHOUT using up the output room it had (so: for lack of input), called again with the same input and
  any larger room, returns LZMA_OK again and changes nothing. With the absorption property (`CodeAbsorb`) this makes the result of a
  sliced run that has seen all the input and still has spare room independent of the amount of spare room ("needs more input" is as
  slicing independent as LZMA_STREAM_END and LZMA_DATA_ERROR).
-/
import XzVerif.Lemmas.LzmaResumeDefs

namespace XzVerif.LzmaR
open XzVerif.RangeDec XzVerif.LzDict XzVerif.Lzma XzVerif.Lzma2

/-- **LZMA1 call level.** -/
def L1Idle : Prop :=
  ∀ (r : RSt) (b : ByteArray) (L L' : Nat), Pre1 r b L → L ≤ L' →
    (lzmaCallR (r.view b L)).1 = .ok → (lzmaCallR (r.view b L)).2.s.dp.pos < L →
    Same (lzmaCallR ((lzmaCallR (r.view b L)).2.view b L')) (lzmaCallR (r.view b L))

/-- the same for a `code` function of the LZ layer (returns that ask for a dictionary reset are not "starved") -/
def CodeIdle (P : RSt → Prop) (code : RSt → Ret × RSt) : Prop :=
  ∀ (r : RSt) (b : ByteArray) (L L' : Nat), P r → Agree r.s.inPos r.s.inp b → r.s.inPos ≤ b.size → r.s.dp.pos ≤ L → L ≤ L' →
    r.s.dp.needReset = false → (r.s.dp.hasWrapped = false → r.s.dp.full + LZ_DICT_INIT_POS = r.s.dp.pos) →
    (code (r.view b L)).1 = .ok → (code (r.view b L)).2.s.dp.needReset = false → (code (r.view b L)).2.s.dp.pos < L →
    Same (code ((code (r.view b L)).2.view b L')) (code (r.view b L))

end XzVerif.LzmaR
