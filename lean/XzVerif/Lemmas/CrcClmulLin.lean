/-
  Linear algebra over GF(2) for the CLMUL CRC model: every building block of crc_x86_clmul.h (carry-less multiply,
  fold, byte shuffles, shifts, the 128→64 fold, Barrett reduction) is xor-linear in the data vector, and two linear
  maps that agree on the 128 unit vectors agree everywhere (`lin_ext`).  This turns the algebraic identities behind
  the folding algorithm into finite checks that the kernel evaluates (Lemmas/CrcClmulId.lean).
-/
import XzVerif.Model.CrcClmul
import XzVerif.Lemmas.Crc
namespace XzVerif.Clmul
open XzVerif.Crc

/-- xor-linearity of a map between bit vectors -/
def Lin {n m : Nat} (f : BitVec n → BitVec m) : Prop := ∀ x y, f (x ^^^ y) = f x ^^^ f y

theorem Lin.zero {n m : Nat} {f : BitVec n → BitVec m} (h : Lin f) : f 0#n = 0#m := by
  have := h 0#n 0#n
  simp only [BitVec.xor_self] at this
  exact this

theorem Lin.comp {n m k : Nat} {f : BitVec n → BitVec m} {g : BitVec m → BitVec k} (hf : Lin f) (hg : Lin g) :
    Lin (fun x => g (f x)) := fun x y => by simp only [hf x y, hg _ _]

theorem Lin.xor {n m : Nat} {f g : BitVec n → BitVec m} (hf : Lin f) (hg : Lin g) : Lin (fun x => f x ^^^ g x) :=
  fun x y => by simp only [hf x y, hg x y]; ac_rfl

theorem Lin.id {n : Nat} : Lin (fun x : BitVec n => x) := fun _ _ => rfl

theorem Lin.const_zero {n m : Nat} : Lin (fun _ : BitVec n => 0#m) := fun _ _ => by simp

/-- Two linear maps that agree on the unit vectors agree everywhere. -/
theorem lin_ext {n m : Nat} {f g : BitVec n → BitVec m} (hf : Lin f) (hg : Lin g)
    (hb : ∀ i, i < n → f (BitVec.twoPow n i) = g (BitVec.twoPow n i)) (x : BitVec n) : f x = g x := by
  have key : ∀ k, ∀ x : BitVec n, (∀ i, k ≤ i → x.getLsbD i = false) → f x = g x := by
    intro k
    induction k with
    | zero =>
      intro x hx
      have : x = 0#n := by
        apply BitVec.eq_of_getLsbD_eq
        intro i _
        simp [hx i (Nat.zero_le _)]
      rw [this, hf.zero, hg.zero]
    | succ k ih =>
      intro x hx
      by_cases hk : x.getLsbD k = true
      · have hkn : k < n := by
          apply Classical.byContradiction
          intro hge
          rw [BitVec.getLsbD_of_ge x k (by omega)] at hk
          exact Bool.false_ne_true hk
        have hx' : ∀ i, k ≤ i → (x ^^^ BitVec.twoPow n k).getLsbD i = false := by
          intro i hi
          rw [BitVec.getLsbD_xor, BitVec.getLsbD_twoPow]
          by_cases hik : i = k
          · subst hik; simp [hk, hkn]
          · have : ¬ (k = i) := fun h => hik h.symm
            simp [hx i (by omega), this]
        have hsplit : x = (x ^^^ BitVec.twoPow n k) ^^^ BitVec.twoPow n k := by
          rw [BitVec.xor_assoc, BitVec.xor_self, BitVec.xor_zero]
        rw [hsplit, hf _ _, hg _ _, ih _ hx', hb k hkn]
      · have hk' : x.getLsbD k = false := by simpa using hk
        apply ih
        intro i hi
        by_cases hik : i = k
        · subst hik; exact hk'
        · exact hx i (by omega)
  exact key n x (fun i hi => BitVec.getLsbD_of_ge x i hi)

/-! ### linearity of the building blocks -/

theorem lin_stepN {w : Nat} (P : BitVec w) (n : Nat) : Lin (stepN P n) := stepN_xor P n

theorem lin_shl {w : Nat} (k : Nat) : Lin (fun v : BitVec w => v <<< k) := fun x y => BitVec.shiftLeft_xor_distrib x y k
theorem lin_shr {w : Nat} (k : Nat) : Lin (fun v : BitVec w => v >>> k) := fun x y => BitVec.ushiftRight_xor_distrib x y k
theorem lin_setWidth {w : Nat} (k : Nat) : Lin (fun v : BitVec w => v.setWidth k) := fun x y => BitVec.setWidth_xor
theorem lin_and_left {w : Nat} (c : BitVec w) : Lin (fun v : BitVec w => c &&& v) := fun x y => by
  apply BitVec.eq_of_getLsbD_eq; intro i _
  simp only [BitVec.getLsbD_and, BitVec.getLsbD_xor]
  cases c.getLsbD i <;> simp
theorem lin_and_right {w : Nat} (c : BitVec w) : Lin (fun v : BitVec w => v &&& c) := fun x y => by
  apply BitVec.eq_of_getLsbD_eq; intro i _
  simp only [BitVec.getLsbD_and, BitVec.getLsbD_xor]
  cases c.getLsbD i <;> simp

theorem lin_lo : Lin lo := fun x y => by simp only [lo, BitVec.setWidth_xor]
theorem lin_hi : Lin hi := fun x y => by simp only [hi, BitVec.ushiftRight_xor_distrib, BitVec.setWidth_xor]

theorem lin_clmulAux (b : BitVec 64) (n : Nat) : Lin (fun a => clmulAux a b n) := by
  induction n with
  | zero => exact Lin.const_zero
  | succ n ih =>
    intro x y
    simp only [clmulAux]
    split
    · have e : clmulAux (x ^^^ y) b n = clmulAux x b n ^^^ clmulAux y b n := ih x y
      rw [e, BitVec.shiftLeft_xor_distrib]; ac_rfl
    · exact ih x y

theorem lin_clmul64 (b : BitVec 64) : Lin (fun a => clmul64 a b) :=
  Lin.comp (lin_setWidth 128) (lin_clmulAux b 64)

/-- `_mm_clmulepi64_si128(x, y, imm)` is linear in `x`. -/
theorem lin_clmulepi64 (y : V) (imm : Nat) : Lin (fun x => clmulepi64 x y imm) := by
  unfold clmulepi64
  by_cases h : imm % 2 = 1
  · simp only [h, if_true]; exact Lin.comp lin_hi (lin_clmul64 _)
  · simp only [h, if_false]; exact Lin.comp lin_lo (lin_clmul64 _)

theorem lin_fold (k : V) : Lin (fun v => fold v k) := Lin.xor (lin_clmulepi64 k 0) (lin_clmulepi64 k 17)

theorem lin_byteOf (i : Nat) : Lin (fun v => byteOf v i) := Lin.comp (lin_shr _) (lin_and_right _)

theorem lin_shufByte (m i : Nat) : Lin (fun v => shufByte v m i) := by
  unfold shufByte
  by_cases h : m ≥ 128
  · simp only [h, if_true]; exact Lin.const_zero
  · simp only [h, if_false]; exact Lin.comp (lin_byteOf _) (lin_shl _)

theorem lin_foldl_xor {n m : Nat} (l : List Nat) (g : Nat → BitVec n → BitVec m) (hg : ∀ i, Lin (g i)) (a0 : BitVec n → BitVec m)
    (h0 : Lin a0) : Lin (fun v => l.foldl (fun acc i => acc ^^^ g i v) (a0 v)) := by
  induction l generalizing a0 with
  | nil => exact h0
  | cons i t ih => exact ih (fun v => a0 v ^^^ g i v) (Lin.xor h0 (hg i))

theorem lin_shuffle (mask : List Nat) : Lin (fun v => shuffle v mask) :=
  lin_foldl_xor (List.range 16) (fun i v => shufByte v (mask.getD i 0) i) (fun i => lin_shufByte _ i) _ Lin.const_zero

attribute [local irreducible] clmulepi64

theorem clmulepi64_xor (x y k : V) (imm : Nat) :
    clmulepi64 (x ^^^ y) k imm = clmulepi64 x k imm ^^^ clmulepi64 y k imm := lin_clmulepi64 k imm x y

theorem lin_reduce128 (p : Params) : Lin (reduce128 p) := fun x y => by
  simp only [reduce128, clmulepi64_xor, BitVec.ushiftRight_xor_distrib]; ac_rfl

theorem hi_xor (x y : V) : hi (x ^^^ y) = hi x ^^^ hi y := lin_hi x y

theorem xor4 {w : Nat} (a b c d e f : BitVec w) : a ^^^ b ^^^ (c ^^^ d) ^^^ (e ^^^ f) = (a ^^^ c ^^^ e) ^^^ (b ^^^ d ^^^ f) := by
  ac_rfl

theorem xor2 {w : Nat} (a b c d : BitVec w) : a ^^^ b ^^^ (c ^^^ d) = (a ^^^ c) ^^^ (b ^^^ d) := by
  ac_rfl

theorem lin_barrett (p : Params) : Lin (barrett p) := fun x y => by
  unfold barrett
  by_cases h : p.is64 = true
  · rw [if_pos h, if_pos h, if_pos h]
    simp only []
    rw [clmulepi64_xor x y, clmulepi64_xor, BitVec.shiftLeft_xor_distrib]
    exact Eq.trans (congrArg hi (xor4 _ _ _ _ _ _)) (hi_xor _ _)
  · rw [if_neg h, if_neg h, if_neg h]
    simp only []
    rw [clmulepi64_xor x y, clmulepi64_xor]
    exact Eq.trans (congrArg (fun v : V => ((v >>> 64).setWidth 32).setWidth 64) (xor2 _ _ _ _))
      (Lin.comp (Lin.comp (lin_shr 64) (lin_setWidth 32)) (lin_setWidth 64) _ _)


/-! ### finite basis checks -/

/-- `f` and `g` agree on the 128 unit vectors (a closed Boolean the kernel can evaluate). -/
def basisAll {m : Nat} (f g : V → BitVec m) : Bool :=
  (List.range 128).all fun i => f (BitVec.twoPow 128 i) == g (BitVec.twoPow 128 i)

theorem basisAll_sound {m : Nat} {f g : V → BitVec m} (hf : Lin f) (hg : Lin g) (h : basisAll f g = true) (x : V) :
    f x = g x := by
  apply lin_ext hf hg
  intro i hi
  have := List.all_eq_true.mp h i (List.mem_range.mpr hi)
  exact eq_of_beq this

/-- The polynomials in the 128-bit "scaled" register (`P(x)·x^(128-w)`, reflected: the same constant). -/
def P32' : V := 0xEDB88320#128
def P64' : V := 0xC96C5795D7870F42#128

/-- Parameters of the model with the constants defined by crc_clmul_consts_gen.c. -/
def p32 : Params := Params.ofConsts false (clmulConsts P32in64) vmasksSpec
def p64 : Params := Params.ofConsts true (clmulConsts P64) vmasksSpec

end XzVerif.Clmul
