/-
  LiveInv: thread set-up (get_thread, buffer assignment, start) and input hand-over.
-/
import XzVerif.Lemmas.MtDecLive3

namespace XzVerif.MtDec

theorem LiveInv.startThr {s s' : State} (h : LiveInv s) (hI : Inv s) (hs : step s .startThr = some s') : LiveInv s' := by
  obtain ⟨c1, c2, c3, c4, c5, c6, c6a, c6b, c7, c8, c9, c10⟩ := hI.2
  simp only [step] at hs
  split at hs
  case h_2 => cases hs
  rename_i t hpc hthr
  cases hs
  obtain ⟨t', ht1, ht2, ht3, ht4, ht5, ht6⟩ := c8 hpc
  have : t' = t := by rw [hthr] at ht1; injection ht1 with e; exact e.symm
  subst this
  -- first replace the worker (pc unchanged), then move the main thread to init5
  have h0 : LiveInv (MtDec.setW s t' (signalW { getW s t' with st := .run })) := by
    refine h.setWQ t' ht2 _ rfl rfl rfl rfl rfl rfl rfl rfl (fun x => x) rfl rfl rfl rfl ?_ (fun x => x) ?_ ?_ ?_
    · intro _ _; exact Or.inl rfl
    · intro ho hl hpu o hoq hb
      exact h.pub t' ht2 ho hl hpu o hoq hb
    · intro lim hp; exact h.snap t' ht2 lim hp
    · intro ho hb; exact h.pos t' ht2 ho hb
  have hseq : s.seq = .thrInit := c9 (by simp [hpc])
  refine ⟨h0.own, ?_, h0.wrk, h0.tailW, ?_, h0.pub, h0.snap, h0.full, h0.pos, ?_, ?_, ?_, ?_, ?_, ?_⟩
  · intro j hj ho hb
    rcases h0.run j hj ho hb with e | ⟨_, e⟩
    · exact Or.inl e
    · -- j is coder->thr, which has just been started
      have : j = t' := by
        have e' : s.thr = some j := e
        rw [hthr] at e'; injection e' with e'; exact e'.symm
      subst this
      left
      show (getW (MtDec.setW s j (signalW { getW s j with st := .run })) j).st = .run
      rw [getW_setW_same _ _ _ ht2]; rfl
  · intro hh tl hq hf
    rcases h0.head hh tl hq hf with x | ⟨x, _, z⟩
    · exact Or.inl x
    · exact Or.inr ⟨x, Or.inr rfl, z⟩
  · intro _; exact Or.inl (Or.inr (Or.inr rfl))
  · intro _; exact Or.inr (Or.inr rfl)
  · intro hx; exact absurd (hseq.symm.trans hx) (by simp)
  · intro hx; exact absurd (hseq.symm.trans hx) (by simp)
  · intro _; exact ⟨t', hthr⟩
  · intro hx; rcases hx with hx | hx | hx | hx <;> cases hx

theorem LiveInv.tell {s s' : State} (h : LiveInv s) (hI : Inv s) (hs : step s .tell = some s') : LiveInv s' := by
  obtain ⟨c1, c2, c3, c4, c5, c6, c6a, c6b, c7, c8, c9, c10⟩ := hI.2
  simp only [step] at hs
  split at hs
  case h_2 => cases hs
  rename_i f n t hpc hthr
  cases hs
  obtain ⟨hseq, t', ht1, hlo, hhi⟩ := c10 f n hpc
  have : t' = t := by rw [hthr] at ht1; injection ht1 with e; exact e.symm
  subst this
  have ht2 : t' < s.workers.length := c6 (by rw [hpc]; simp) t' hthr
  have h0 : LiveInv (MtDec.setW s t' (signalW { getW s t' with inFilled := f })) := by
    refine h.setWQ' t' ht2 _ rfl rfl rfl rfl rfl rfl rfl rfl (fun x => x) rfl rfl ?_ ?_ (fun x => x) ?_ ?_ ?_
    · intro _ hne; exact absurd hthr hne
    · intro ho hb; exact h.run t' ht2 ho hb
    · intro ho hl hpu o hoq hb; exact h.pub t' ht2 ho hl hpu o hoq hb
    · intro lim hp; exact h.snap t' ht2 lim hp
    · intro ho hb; exact h.pos t' ht2 ho hb
  refine ⟨h0.own, ?_, h0.wrk, h0.tailW, ?_, h0.pub, h0.snap, h0.full, h0.pos, ?_, ?_, ?_, ?_, ?_, ?_⟩
  · intro j hj ho hb
    rcases h0.run j hj ho hb with e | ⟨e, _⟩
    · exact Or.inl e
    · have e' : s.pc = .init4 := e
      rw [hpc] at e'; cases e'
  · intro hh tl hq hf
    rcases h0.head hh tl hq hf with x | ⟨_, y, _⟩
    · exact Or.inl x
    · have y' : s.pc = .init4 ∨ s.pc = .init5 := y
      rw [hpc] at y'; rcases y' with e | e <;> cases e
  · intro hx; exact absurd (hseq.symm.trans hx) (by simp)
  · intro hx; exact absurd (hseq.symm.trans hx) (by simp)
  · intro hx; exact absurd (hseq.symm.trans hx) (by simp)
  · intro _; exact ⟨t', hthr⟩
  · intro hx; cases hx
  · intro hx; rcases hx with hx | hx | hx | hx <;> cases hx

/-- get_thread creates a fresh worker structure (idle, owning nothing) and makes it coder->thr. -/
theorem LiveInv.getThreadNew {s : State} (h : LiveInv s) (hthr : s.thr = none) (hseq : s.seq = .thrInit)
    (hk : (blk s s.cur).kind = .thr) (hpc : s.pc = .init2) :
    LiveInv { s with workers := s.workers ++ [{}], thr := some s.workers.length, pc := .init3 } := by
  have hlen : ({ s with workers := s.workers ++ [({} : Worker)], thr := some s.workers.length, pc := MPc.init3 } : State).workers.length
      = s.workers.length + 1 := by simp
  have old : ∀ j, j < s.workers.length →
      getW { s with workers := s.workers ++ [({} : Worker)], thr := some s.workers.length, pc := MPc.init3 } j = getW s j :=
    fun j hj => getW_append_lt s _ j hj
  have new : getW { s with workers := s.workers ++ [({} : Worker)], thr := some s.workers.length, pc := MPc.init3 }
      s.workers.length = {} := getW_append_eq s _
  have split : ∀ j, j < s.workers.length + 1 → j < s.workers.length ∨ j = s.workers.length := fun j hj => by omega
  have own' : ∀ o j, Owner s o j →
      Owner { s with workers := s.workers ++ [({} : Worker)], thr := some s.workers.length, pc := MPc.init3 } o j := by
    intro o j ⟨a, b, c⟩
    exact ⟨by rw [hlen]; omega, by rw [old j a]; exact b, by rw [old j a]; exact c⟩
  have own'' : ∀ o j,
      Owner { s with workers := s.workers ++ [({} : Worker)], thr := some s.workers.length, pc := MPc.init3 } o j → Owner s o j := by
    intro o j ⟨a, b, c⟩
    rw [hlen] at a
    rcases split j a with e | e
    · exact ⟨e, by rw [old j e] at b; exact b, by rw [old j e] at c; exact c⟩
    · subst e; rw [new] at b; cases b
  refine ⟨?_, ?_, ?_, h.tailW, ?_, ?_, ?_, ?_, ?_, ?_, ?_, ?_, ?_, ?_, ?_⟩
  · intro o ho hf; obtain ⟨j, hj⟩ := h.own o ho hf; exact ⟨j, own' o j hj⟩
  · intro j hj
    rw [hlen] at hj
    rcases split j hj with e | e
    · rw [old j e]
      intro ho hb
      rcases h.run j e ho hb with x | ⟨_, x⟩
      · exact Or.inl x
      · rw [hthr] at x; cases x
    · subst e; rw [new]; intro hh; cases hh
  · intro o ho w hw hf; exact own' o w (h.wrk o ho w hw hf)
  · intro hh t hq hf
    rcases h.head hh t hq hf with ⟨a, b⟩ | ⟨a, b, c⟩
    · refine Or.inl ⟨a, fun j hj => ?_⟩
      have hj' := own'' hh j hj
      rw [old j hj'.1]; exact b j hj'
    · exfalso
      rcases b with e | e <;> (rw [hpc] at e; cases e)
  · intro j hj
    rw [hlen] at hj
    rcases split j hj with e | e
    · rw [old j e]; exact h.pub j e
    · subst e; rw [new]; intro hh; cases hh
  · intro j hj
    rw [hlen] at hj
    rcases split j hj with e | e
    · rw [old j e]; exact h.snap j e
    · subst e; rw [new]; intro lim hp; cases hp
  · intro j hj
    rw [hlen] at hj
    rcases split j hj with e | e
    · rw [old j e]; intro ho _; exact h.full j e ho (by rw [hthr]; simp)
    · subst e; rw [new]; intro hh; cases hh
  · intro j hj
    rw [hlen] at hj
    rcases split j hj with e | e
    · rw [old j e]; exact h.pos j e
    · subst e; rw [new]; intro hh; cases hh
  · intro _; exact Or.inl (Or.inl rfl)
  · intro _; exact Or.inl hk
  · intro hx; exact absurd (hseq.symm.trans hx) (by simp)
  · intro hx; exact absurd (hseq.symm.trans hx) (by simp)
  · intro hx; cases hx
  · intro hx; rcases hx with hx | hx | hx | hx <;> cases hx

theorem LiveInv.getThread {s s' : State} (h : LiveInv s) (hI : Inv s) (hs : step s .getThread = some s') : LiveInv s' := by
  obtain ⟨c1, c2, c3, c4, c5, c6, c6a, c6b, c7, c8, c9, c10⟩ := hI.2
  simp only [step] at hs
  split at hs
  case isFalse => cases hs
  rename_i hpc
  have hpc : s.pc = .init2 := by simpa using hpc
  have hseq : s.seq = .thrInit := c9 (by simp [hpc])
  have hthr : s.thr = none := by
    rcases h.thr0 hseq with x | x
    · rcases x with y | y | y <;> (rw [hpc] at y; cases y)
    · exact x
  have hk : (blk s s.cur).kind = .thr := by
    rcases h.kindThr hseq with x | x | x
    · exact x
    · rw [hpc] at x; cases x
    · rw [hpc] at x; cases x
  split at hs
  · rename_i w rest hpop
    cases hs
    refine h.frameThr rfl rfl ?_ ?_ ?_ ?_ ?_ ?_ ?_ ?_ ?_
    · intro i hi ho _; exact h.full i hi ho (by rw [hthr]; simp)
    · intro i ⟨e, _⟩; rw [hpc] at e; cases e
    · intro e; rcases e with e | e <;> (rw [hpc] at e; cases e)
    · intro _; exact Or.inl (Or.inl rfl)
    · intro _; exact Or.inl hk
    · intro hx; exact absurd (hseq.symm.trans hx) (by simp)
    · intro hx; exact absurd (hseq.symm.trans hx) (by simp)
    · intro hx; cases hx
    · intro hx; rcases hx with hx | hx | hx | hx <;> cases hx
  · split at hs
    case isFalse => cases hs
    cases hs
    exact h.getThreadNew hthr hseq hk hpc

end XzVerif.MtDec
