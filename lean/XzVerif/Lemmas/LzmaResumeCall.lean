/-
  Call level of the resumable LZMA decoder model (`Model/LzmaResume.lean`), property C06: the output step and `rc_read_init`
  between two views (input so far, dictionary limit, `uncompressed_size`) of the same coder state; the resumable loop computes
  the one-shot loop's result; frame of one `lzma_decode` call.
  Core Lean only.
-/
import XzVerif.Lemmas.LzmaResumeSym
import XzVerif.Lemmas.LzmaCausalCall
import XzVerif.Lemmas.C03Frame

namespace XzVerif.LzmaR
open XzVerif.RangeDec XzVerif.LzDict XzVerif.Lzma XzVerif.Lzma2

theorem copyBytes_add : ∀ (a c d : Nat) (h : ByteArray),
    St.copyBytes (a + c) d h = St.copyBytes c d (St.copyBytes a d h)
  | 0, c, d, h => by simp [St.copyBytes]
  | a + 1, c, d, h => by
    have e : a + 1 + c = (a + c) + 1 := by omega
    rw [e]
    show St.copyBytes (a + c) d _ = St.copyBytes c d (St.copyBytes a d _)
    exact copyBytes_add a c d _

theorem repeatN_add (s : St) (a c : Nat) : (s.repeatN a).repeatN c = s.repeatN (a + c) := by
  unfold St.repeatN DictPos.advance
  cases hw : s.dp.hasWrapped <;> simp [hw, copyBytes_add, Nat.add_assoc]

theorem ov_ov (b b' : ByteArray) (L L' : Nat) (v v' : Option Nat) (s : St) :
    ov b' L' v' (ov b L v s) = ov b' L' v' s := rfl

theorem ov_repeatN (b : ByteArray) (L : Nat) (v : Option Nat) (s : St) (n : Nat) :
    (ov b L v s).repeatN n = ov b L v (s.repeatN n) := rfl

theorem ov_put (b : ByteArray) (L : Nat) (v : Option Nat) (s : St) (x : UInt8) :
    (ov b L v s).put x = ov b L v (s.put x) := rfl

theorem doWrite_ok_transport (p : Pending) (s u : St) (b b' : ByteArray) (L L' : Nat) (v v' : Option Nat)
    (hL : L ≤ L') (hpos : s.dp.pos ≤ L) (h : doWrite p (ov b L v s) = .ok () u) :
    doWrite p (ov b' L' v' s) = .ok () (ov b' L' v' u) := by
  cases p with
  | none => 
    have : u = ov b L v s := by injection h with _ h2; exact h2.symm
    subst this; rfl
  | stuck =>
    have : u = ov b L v s := by injection h with _ h2; exact h2.symm
    subst this; rfl
  | litWrite sym =>
    have h' : (if s.dp.pos == L then EStateM.Result.error (Exit.outFull (.litWrite sym)) (ov b L v s)
               else .ok () ((ov b L v s).put (UInt8.ofNat sym))) = .ok () u := h
    show (if s.dp.pos == L' then EStateM.Result.error (Exit.outFull (.litWrite sym)) (ov b' L' v' s)
               else .ok () ((ov b' L' v' s).put (UInt8.ofNat sym))) = _
    by_cases hl : s.dp.pos = L
    · simp [hl] at h'
    · have hl' : s.dp.pos ≠ L' := by omega
      have hb : (s.dp.pos == L) = false := by simpa using hl
      have hb' : (s.dp.pos == L') = false := by simpa using hl'
      simp only [hb, hb'] at h' ⊢
      injection h' with _ h2
      subst h2; rfl
  | shortRep =>
    have h' : (if s.dp.pos == L then EStateM.Result.error (Exit.outFull .shortRep) (ov b L v s)
               else .ok () ((ov b L v s).put ((ov b L v s).dictGet s.rep0))) = .ok () u := h
    show (if s.dp.pos == L' then EStateM.Result.error (Exit.outFull .shortRep) (ov b' L' v' s)
               else .ok () ((ov b' L' v' s).put ((ov b' L' v' s).dictGet s.rep0))) = _
    by_cases hl : s.dp.pos = L
    · simp [hl] at h'
    · have hl' : s.dp.pos ≠ L' := by omega
      have hb : (s.dp.pos == L) = false := by simpa using hl
      have hb' : (s.dp.pos == L') = false := by simpa using hl'
      simp only [hb, hb'] at h' ⊢
      injection h' with _ h2
      subst h2; rfl
  | copy len =>
    have h' : (if len - min (L - s.dp.pos) len != 0
               then EStateM.Result.error (Exit.outFull (.copy (len - min (L - s.dp.pos) len))) ((ov b L v s).repeatN (min (L - s.dp.pos) len))
               else .ok () ((ov b L v s).repeatN (min (L - s.dp.pos) len))) = .ok () u := h
    show (if len - min (L' - s.dp.pos) len != 0
               then EStateM.Result.error (Exit.outFull (.copy (len - min (L' - s.dp.pos) len))) ((ov b' L' v' s).repeatN (min (L' - s.dp.pos) len))
               else .ok () ((ov b' L' v' s).repeatN (min (L' - s.dp.pos) len))) = _
    by_cases hz : len - min (L - s.dp.pos) len = 0
    · have hz' : len - min (L' - s.dp.pos) len = 0 := by simp only [Nat.min_def] at hz ⊢; split at hz <;> split <;> omega
      have hm : min (L' - s.dp.pos) len = min (L - s.dp.pos) len := by simp only [Nat.min_def] at hz ⊢; split at hz <;> split <;> omega
      have hb : (len - min (L - s.dp.pos) len != 0) = false := by simp [hz]
      have hb' : (len - min (L' - s.dp.pos) len != 0) = false := by simp [hz']
      simp only [hb, hb'] at h' ⊢
      injection h' with _ h2
      subst h2; rw [hm]; rfl
    · have hb : (len - min (L - s.dp.pos) len != 0) = true := by simp [hz]
      simp [hb] at h'

theorem doWrite_full_transport (p q : Pending) (s u : St) (b b' : ByteArray) (L L' : Nat) (v v' : Option Nat)
    (hL : L ≤ L') (hpos : s.dp.pos ≤ L) (h : doWrite p (ov b L v s) = .error (.outFull q) u) :
    doWrite p (ov b' L' v' s) = doWrite q (ov b' L' v' u) := by
  cases p with
  | none => cases h
  | stuck => cases h
  | litWrite sym =>
    have h' : (if s.dp.pos == L then EStateM.Result.error (Exit.outFull (.litWrite sym)) (ov b L v s)
               else .ok () ((ov b L v s).put (UInt8.ofNat sym))) = .error (.outFull q) u := h
    by_cases hl : s.dp.pos = L
    · have hb : (s.dp.pos == L) = true := by simpa using hl
      simp only [hb, if_true] at h'
      injection h' with h1 h2
      injection h1 with h1
      subst h1; subst h2; rfl
    · have hb : (s.dp.pos == L) = false := by simpa using hl
      simp [hb] at h'
  | shortRep =>
    have h' : (if s.dp.pos == L then EStateM.Result.error (Exit.outFull .shortRep) (ov b L v s)
               else .ok () ((ov b L v s).put ((ov b L v s).dictGet s.rep0))) = .error (.outFull q) u := h
    by_cases hl : s.dp.pos = L
    · have hb : (s.dp.pos == L) = true := by simpa using hl
      simp only [hb, if_true] at h'
      injection h' with h1 h2
      injection h1 with h1
      subst h1; subst h2; rfl
    · have hb : (s.dp.pos == L) = false := by simpa using hl
      simp [hb] at h'
  | copy len =>
    have h' : (if len - min (L - s.dp.pos) len != 0
               then EStateM.Result.error (Exit.outFull (.copy (len - min (L - s.dp.pos) len))) ((ov b L v s).repeatN (min (L - s.dp.pos) len))
               else .ok () ((ov b L v s).repeatN (min (L - s.dp.pos) len))) = .error (.outFull q) u := h
    by_cases hz : len - min (L - s.dp.pos) len = 0
    · have hb : (len - min (L - s.dp.pos) len != 0) = false := by simp [hz]
      simp [hb] at h'
    · have hb : (len - min (L - s.dp.pos) len != 0) = true := by simp [hz]
      simp only [hb, if_true] at h'
      injection h' with h1 h2
      injection h1 with h1
      subst h1; subst h2
      generalize hleft : min (L - s.dp.pos) len = left at *
      have hupos : (s.repeatN left).dp.pos = s.dp.pos + left := rfl
      show (if len - min (L' - s.dp.pos) len != 0
               then EStateM.Result.error (Exit.outFull (.copy (len - min (L' - s.dp.pos) len))) ((ov b' L' v' s).repeatN (min (L' - s.dp.pos) len))
               else .ok () ((ov b' L' v' s).repeatN (min (L' - s.dp.pos) len))) =
           (if (len - left) - min (L' - (s.dp.pos + left)) (len - left) != 0
               then EStateM.Result.error (Exit.outFull (.copy ((len - left) - min (L' - (s.dp.pos + left)) (len - left))))
                  ((ov b' L' v' ((ov b L v s).repeatN left)).repeatN (min (L' - (s.dp.pos + left)) (len - left)))
               else .ok () ((ov b' L' v' ((ov b L v s).repeatN left)).repeatN (min (L' - (s.dp.pos + left)) (len - left))))
      have hm : min (L' - s.dp.pos) len = left + min (L' - (s.dp.pos + left)) (len - left) := by
        rw [← hleft]; simp only [Nat.min_def]; repeat' split
        all_goals omega
      have hst : (ov b' L' v' ((ov b L v s).repeatN left)).repeatN (min (L' - (s.dp.pos + left)) (len - left))
          = (ov b' L' v' s).repeatN (min (L' - s.dp.pos) len) := by
        rw [hm, ← repeatN_add]; rfl
      have hlen : len - left - min (L' - (s.dp.pos + left)) (len - left) = len - min (L' - s.dp.pos) len := by
        rw [hm]; omega
      rw [hst, hlen]

theorem doWrite_exits (p : Pending) (s u : St) (e : Exit) (h : doWrite p s = .error e u) :
    ∃ q, e = .outFull q ∧ (q ≠ .none ∧ q ≠ .stuck) ∧ (s.dp.pos ≤ s.dp.limit → u.dp.pos = s.dp.limit) := by
  cases p with
  | none => cases h
  | stuck => cases h
  | litWrite sym =>
    have h' : (if s.dp.pos == s.dp.limit then EStateM.Result.error (Exit.outFull (.litWrite sym)) s
               else .ok () (s.put (UInt8.ofNat sym))) = .error e u := h
    by_cases hl : s.dp.pos = s.dp.limit
    · have hb : (s.dp.pos == s.dp.limit) = true := by simpa using hl
      simp only [hb, if_true] at h'
      injection h' with h1 h2
      subst h1; subst h2
      exact ⟨_, rfl, ⟨by simp, by simp⟩, fun _ => hl⟩
    · have hb : (s.dp.pos == s.dp.limit) = false := by simpa using hl
      simp [hb] at h'
  | shortRep =>
    have h' : (if s.dp.pos == s.dp.limit then EStateM.Result.error (Exit.outFull .shortRep) s
               else .ok () (s.put (s.dictGet s.rep0))) = .error e u := h
    by_cases hl : s.dp.pos = s.dp.limit
    · have hb : (s.dp.pos == s.dp.limit) = true := by simpa using hl
      simp only [hb, if_true] at h'
      injection h' with h1 h2
      subst h1; subst h2
      exact ⟨_, rfl, ⟨by simp, by simp⟩, fun _ => hl⟩
    · have hb : (s.dp.pos == s.dp.limit) = false := by simpa using hl
      simp [hb] at h'
  | copy len =>
    have h' : (if len - min (s.dp.limit - s.dp.pos) len != 0
               then EStateM.Result.error (Exit.outFull (.copy (len - min (s.dp.limit - s.dp.pos) len))) (s.repeatN (min (s.dp.limit - s.dp.pos) len))
               else .ok () (s.repeatN (min (s.dp.limit - s.dp.pos) len))) = .error e u := h
    by_cases hz : len - min (s.dp.limit - s.dp.pos) len = 0
    · have hb : (len - min (s.dp.limit - s.dp.pos) len != 0) = false := by simp [hz]
      simp [hb] at h'
    · have hb : (len - min (s.dp.limit - s.dp.pos) len != 0) = true := by simp [hz]
      simp only [hb, if_true] at h'
      injection h' with h1 h2
      subst h1; subst h2
      refine ⟨_, rfl, ⟨by simp, by simp⟩, ?_⟩
      intro hle
      show s.dp.pos + min (s.dp.limit - s.dp.pos) len = s.dp.limit
      simp only [Nat.min_def] at hz ⊢; split at hz <;> split <;> omega

theorem doWrite_frame (p : Pending) (s : St) :
    resSt (doWrite p s) = { s with hist := (resSt (doWrite p s)).hist,
                                   dp := { s.dp with pos := (resSt (doWrite p s)).dp.pos, full := (resSt (doWrite p s)).dp.full } } := by
  cases p with
  | none => rfl
  | stuck => rfl
  | litWrite sym =>
    have h : doWrite (.litWrite sym) s = (if s.dp.pos == s.dp.limit then EStateM.Result.error (Exit.outFull (.litWrite sym)) s
               else .ok () (s.put (UInt8.ofNat sym))) := rfl
    cases hb : (s.dp.pos == s.dp.limit) <;> (rw [hb] at h; rw [h]; rfl)
  | shortRep =>
    have h : doWrite .shortRep s = (if s.dp.pos == s.dp.limit then EStateM.Result.error (Exit.outFull .shortRep) s
               else .ok () (s.put (s.dictGet s.rep0))) := rfl
    cases hb : (s.dp.pos == s.dp.limit) <;> (rw [hb] at h; rw [h]; rfl)
  | copy len =>
    have h : doWrite (.copy len) s = (if len - min (s.dp.limit - s.dp.pos) len != 0
               then EStateM.Result.error (Exit.outFull (.copy (len - min (s.dp.limit - s.dp.pos) len))) (s.repeatN (min (s.dp.limit - s.dp.pos) len))
               else .ok () (s.repeatN (min (s.dp.limit - s.dp.pos) len))) := rfl
    cases hb : (len - min (s.dp.limit - s.dp.pos) len != 0) <;> (rw [hb] at h; rw [h]; rfl)

/-! ### rc_read_init -/

theorem rcReadInitN_ov_succ (k : Nat) (s : St) (b : ByteArray) (L : Nat) (v : Option Nat) :
    rcReadInitN (k + 1) (ov b L v s) =
      if h : s.inPos < b.size then
        if (k + 1 == 5 && b[s.inPos] != 0) = true then .error .dataError (ov b L v s)
        else rcReadInitN k (ov b L v { s with code := ((Rc.mk s.range s.code).initByte (b[s.inPos]).toNat).code,
                                              inPos := s.inPos + 1, initLeft := k })
      else .ok false (ov b L v s) := rfl

theorem rcReadInitN_transport : ∀ (n : Nat) (s : St) (b b' : ByteArray) (L L' : Nat) (v v' : Option Nat),
    Agree b.size b b' → s.inPos ≤ b.size → (∀ t, rcReadInitN n (ov b L v s) ≠ .ok false t) →
    rcReadInitN n (ov b' L' v' s) = mapSt (ov b' L' v') (rcReadInitN n (ov b L v s))
  | 0, s, b, b', L, L', v, v', _, _, _ => rfl
  | k + 1, s, b, b', L, L', v, v', hag, hpos, hne => by
    rw [rcReadInitN_ov_succ] at hne
    rw [rcReadInitN_ov_succ, rcReadInitN_ov_succ]
    by_cases hb : s.inPos < b.size
    · have hb' : s.inPos < b'.size := Nat.lt_of_lt_of_le hb hag.le'
      have hbyte := hag.eq s.inPos hb hb' hb
      rw [dif_pos hb] at hne
      rw [dif_pos hb, dif_pos hb', ← hbyte]
      by_cases hc : (k + 1 == 5 && b[s.inPos] != 0) = true
      · rw [if_pos hc, if_pos hc]; rfl
      · rw [if_neg hc] at hne
        rw [if_neg hc, if_neg hc]
        exact rcReadInitN_transport k _ b b' L L' v v' hag (by show s.inPos + 1 ≤ b.size; omega) hne
    · rw [dif_neg hb] at hne
      exact absurd rfl (hne _)

theorem rcReadInit_transport (s : St) (b b' : ByteArray) (L L' : Nat) (v v' : Option Nat)
    (hag : Agree b.size b b') (hpos : s.inPos ≤ b.size) (hne : ∀ t, rcReadInit (ov b L v s) ≠ .ok false t) :
    rcReadInit (ov b' L' v' s) = mapSt (ov b' L' v') (rcReadInit (ov b L v s)) :=
  rcReadInitN_transport s.initLeft s b b' L L' v v' hag hpos hne

theorem rcReadInitN_absorb : ∀ (n : Nat) (s t : St) (b b' : ByteArray) (L L' : Nat) (v v' : Option Nat),
    Agree b.size b b' → s.inPos ≤ b.size → s.initLeft = n → rcReadInitN n (ov b L v s) = .ok false t →
    rcReadInitN n (ov b' L' v' s) = rcReadInitN t.initLeft (ov b' L' v' t)
  | 0, s, t, b, b', L, L', v, v', _, _, _, h => by
    have h' : (EStateM.Result.ok true (ov b L v s) : EStateM.Result Exit St Bool) = .ok false t := h
    injection h' with h1 _
    cases h1
  | k + 1, s, t, b, b', L, L', v, v', hag, hpos, hin, h => by
    rw [rcReadInitN_ov_succ] at h
    by_cases hb : s.inPos < b.size
    · have hb' : s.inPos < b'.size := Nat.lt_of_lt_of_le hb hag.le'
      have hbyte := hag.eq s.inPos hb hb' hb
      rw [dif_pos hb] at h
      rw [rcReadInitN_ov_succ, dif_pos hb', ← hbyte]
      by_cases hc : (k + 1 == 5 && b[s.inPos] != 0) = true
      · rw [if_pos hc] at h; cases h
      · rw [if_neg hc] at h
        rw [if_neg hc]
        exact rcReadInitN_absorb k _ t b b' L L' v v' hag (by show s.inPos + 1 ≤ b.size; omega) rfl h
    · rw [dif_neg hb] at h
      injection h with _ h2
      subst h2
      show _ = rcReadInitN s.initLeft (ov b' L' v' s)
      rw [hin]

theorem rcReadInit_absorb (s t : St) (b b' : ByteArray) (L L' : Nat) (v v' : Option Nat)
    (hag : Agree b.size b b') (hpos : s.inPos ≤ b.size) (h : rcReadInit (ov b L v s) = .ok false t) :
    rcReadInit (ov b' L' v' s) = rcReadInit (ov b' L' v' t) :=
  rcReadInitN_absorb s.initLeft s t b b' L L' v v' hag hpos rfl h

theorem rcReadInitN_frame : ∀ (n : Nat) (s : St),
    resSt (rcReadInitN n s) = { s with code := (resSt (rcReadInitN n s)).code, inPos := (resSt (rcReadInitN n s)).inPos,
                                            initLeft := (resSt (rcReadInitN n s)).initLeft }
    ∧ s.inPos ≤ (resSt (rcReadInitN n s)).inPos
    ∧ (s.inPos ≤ s.inp.size → (resSt (rcReadInitN n s)).inPos ≤ s.inp.size)
    ∧ (s.initLeft = n → ∀ t, rcReadInitN n s = .ok true t → t.initLeft = 0)
  | 0, s => by
    refine ⟨rfl, Nat.le_refl _, id, ?_⟩
    intro h t e
    have e' : (EStateM.Result.ok true s : EStateM.Result Exit St Bool) = .ok true t := e
    injection e' with _ h2
    rw [← h2]; exact h
  | k + 1, s => by
    have e : s = ov s.inp s.dp.limit s.uncomp s := rfl
    have hs := rcReadInitN_ov_succ k s s.inp s.dp.limit s.uncomp
    rw [← e] at hs
    by_cases hb : s.inPos < s.inp.size
    · rw [dif_pos hb] at hs
      by_cases hc : (k + 1 == 5 && s.inp[s.inPos] != 0) = true
      · rw [if_pos hc] at hs
        rw [hs]
        refine ⟨rfl, Nat.le_refl _, id, ?_⟩
        intro _ t e; cases e
      · rw [if_neg hc] at hs
        rw [hs]
        generalize hs' : (ov s.inp s.dp.limit s.uncomp { s with code := ((Rc.mk s.range s.code).initByte (s.inp[s.inPos]).toNat).code, inPos := s.inPos + 1, initLeft := k }) = s' at hs
        have e1 : s'.inPos = s.inPos + 1 := by rw [← hs']; rfl
        have e2 : s'.inp = s.inp := by rw [← hs']; rfl
        have e3 : s'.initLeft = k := by rw [← hs']; rfl
        have ih := rcReadInitN_frame k s'
        have e4 : ∀ c p i, ({ s' with code := c, inPos := p, initLeft := i } : St) = { s with code := c, inPos := p, initLeft := i } := by
          intro c p i; rw [← hs']; rfl
        rw [e4] at ih
        generalize rcReadInitN k s' = r at ih ⊢
        obtain ⟨i1, i2, i3, i4⟩ := ih
        refine ⟨i1, ?_, ?_, ?_⟩
        · omega
        · intro _
          rw [← e2]; exact i3 (by rw [e1, e2]; omega)
        · intro _; exact i4 e3
    · rw [dif_neg hb] at hs
      rw [hs]
      refine ⟨rfl, Nat.le_refl _, id, ?_⟩
      intro _ t e; cases e

theorem rcReadInit_frame (s : St) :
    resSt (rcReadInit s) = { s with code := (resSt (rcReadInit s)).code, inPos := (resSt (rcReadInit s)).inPos,
                                    initLeft := (resSt (rcReadInit s)).initLeft }
    ∧ s.inPos ≤ (resSt (rcReadInit s)).inPos
    ∧ (s.inPos ≤ s.inp.size → (resSt (rcReadInit s)).inPos ≤ s.inp.size)
    ∧ (∀ t, rcReadInit s = .ok true t → t.initLeft = 0) := by
  have h := rcReadInitN_frame s.initLeft s
  exact ⟨h.1, h.2.1, h.2.2.1, h.2.2.2 rfl⟩

/-! ### the resumable loop computes the one-shot loop's result (plus the saved resume point) -/

theorem symStepR_fst (ev mf : Bool) (s : St) : (symStepR ev mf s).1 = symStep ev mf s := by
  unfold symStepR
  show _ = EStateM.bind (symPrelude ev mf) _ s
  unfold EStateM.bind
  cases h1 : symPrelude ev mf s with
  | error e t => rfl
  | ok ev' t =>
    show (symBodyR ev' t).1 = EStateM.bind (decodeSymbol ev') _ t
    unfold symBodyR EStateM.bind
    cases h2 : rcNormalize t with
    | error e t' =>
      rw [decodeSymbol_first ev' t t' e h2]
      obtain ⟨he, _⟩ := rcNormalize_starved t t' e h2
      subst he; rfl
    | ok u t' =>
      cases h3 : decodeSymbol ev' t with
      | error e t2 => cases e <;> rfl
      | ok act t2 =>
        show (match doWrite act t2 with
              | .error e u => ((.error e u : EStateM.Result Exit St Bool), (none : Option SymSnap))
              | .ok _ u => (.ok ev' u, none)).1 = EStateM.bind (doWrite act) _ t2
        unfold EStateM.bind
        cases h4 : doWrite act t2 <;> rfl

theorem symLoopR_fst : ∀ (fuel : Nat) (ev mf : Bool) (s : St), (symLoopR fuel ev mf s).1 = symLoop fuel ev mf s
  | 0, ev, mf, s => rfl
  | fuel + 1, ev, mf, s => by
    unfold symLoopR symLoop
    show _ = EStateM.bind (symStep ev mf) _ s
    unfold EStateM.bind
    rw [← symStepR_fst]
    rcases hR : symStepR ev mf s with ⟨r, k⟩
    cases r with
    | ok ev' t => exact symLoopR_fst fuel ev' mf t
    | error e t => rfl

theorem symLoopR_fuel_mono : ∀ (fuel k : Nat) (ev mf : Bool) (s : St),
    (∀ t, (symLoopR fuel ev mf s).1 ≠ .error .fuel t) → symLoopR (fuel + k) ev mf s = symLoopR fuel ev mf s
  | 0, k, ev, mf, s, h => absurd rfl (h s)
  | fuel + 1, k, ev, mf, s, h => by
    have e : fuel + 1 + k = (fuel + k) + 1 := by omega
    rw [e]
    unfold symLoopR at h ⊢
    rcases hR : symStepR ev mf s with ⟨r, q⟩
    rw [hR] at h
    cases r with
    | ok ev' t => exact symLoopR_fuel_mono fuel k ev' mf t h
    | error e t => rfl

theorem symLoopR_exits (fuel : Nat) (ev mf : Bool) (s : St) (h : s.dp.pos ≤ s.dp.limit) :
    (∀ a t, (symLoopR fuel ev mf s).1 ≠ .ok a t)
    ∧ (s.dp.limit - s.dp.pos < fuel → ∀ t, (symLoopR fuel ev mf s).1 ≠ .error .fuel t) := by
  rw [symLoopR_fst]
  have hs := symLoop_spec fuel ev mf s h
  exact ⟨hs.2.1, hs.2.2⟩

/-! ### one call -/

/-- what a run of the decoder keeps beyond `Wr`: `allow_eopm`, `has_wrapped`, and `full = pos - LZ_DICT_INIT_POS` before the
    first wrap -/
structure Dx (s s' : St) : Prop where
  allowEopm : s'.allowEopm = s.allowEopm
  hasWrapped : s'.dp.hasWrapped = s.dp.hasWrapped
  full : s.dp.hasWrapped = false → s.dp.full + LZ_DICT_INIT_POS = s.dp.pos → s'.dp.full + LZ_DICT_INIT_POS = s'.dp.pos

theorem Dx.refl (s : St) : Dx s s := ⟨rfl, rfl, fun _ h => h⟩
theorem Dx.trans {a b c : St} (h1 : Dx a b) (h2 : Dx b c) : Dx a c :=
  ⟨h2.allowEopm.trans h1.allowEopm, h2.hasWrapped.trans h1.hasWrapped,
   fun hw hf => h2.full (h1.hasWrapped.trans hw) (h1.full hw hf)⟩

theorem Dx.ofFr {s s' : St} (h : Fr s s') : Dx s s' :=
  ⟨h.allowEopm, by rw [h.dp], by rw [h.dp]; exact fun _ hf => hf⟩

theorem Dx.ofAdvance {s t : St} (n : Nat) (ha : t.allowEopm = s.allowEopm) (hd : t.dp = s.dp.advance n) : Dx s t := by
  refine ⟨ha, by rw [hd]; rfl, ?_⟩
  intro hw hf
  rw [hd]
  unfold DictPos.advance
  simp only [hw]
  have : LZ_DICT_INIT_POS = 576 := rfl
  simp only [Bool.false_eq_true, if_false]
  omega

theorem dx_doWrite (p : Pending) (s : St) : Dx s (resSt (doWrite p s)) := by
  cases p with
  | none => exact Dx.refl s
  | stuck => exact Dx.refl s
  | litWrite sym =>
    have h : doWrite (.litWrite sym) s = (if s.dp.pos == s.dp.limit then EStateM.Result.error (Exit.outFull (.litWrite sym)) s
               else .ok () (s.put (UInt8.ofNat sym))) := rfl
    cases hb : (s.dp.pos == s.dp.limit) <;> (rw [hb] at h; rw [h])
    · exact Dx.ofAdvance 1 rfl rfl
    · exact Dx.refl s
  | shortRep =>
    have h : doWrite .shortRep s = (if s.dp.pos == s.dp.limit then EStateM.Result.error (Exit.outFull .shortRep) s
               else .ok () (s.put (s.dictGet s.rep0))) := rfl
    cases hb : (s.dp.pos == s.dp.limit) <;> (rw [hb] at h; rw [h])
    · exact Dx.ofAdvance 1 rfl rfl
    · exact Dx.refl s
  | copy len =>
    have h : doWrite (.copy len) s = (if len - min (s.dp.limit - s.dp.pos) len != 0
               then EStateM.Result.error (Exit.outFull (.copy (len - min (s.dp.limit - s.dp.pos) len))) (s.repeatN (min (s.dp.limit - s.dp.pos) len))
               else .ok () (s.repeatN (min (s.dp.limit - s.dp.pos) len))) := rfl
    cases hb : (len - min (s.dp.limit - s.dp.pos) len != 0) <;> (rw [hb] at h; rw [h])
    · exact Dx.ofAdvance _ rfl rfl
    · exact Dx.ofAdvance _ rfl rfl

theorem dx_symStep (ev mf : Bool) (s : St) : Dx s (resSt (symStep ev mf s)) := by
  have hp := sat_symPrelude ev mf s
  show Dx s (resSt (EStateM.bind (symPrelude ev mf) _ s))
  unfold EStateM.bind
  cases h1 : symPrelude ev mf s with
  | error e s1 => rw [h1] at hp; exact Dx.ofFr hp.1
  | ok ev' s1 =>
    rw [h1] at hp
    have hd := sat_decodeSymbol ev' s1
    show Dx s (resSt (EStateM.bind (decodeSymbol ev') _ s1))
    unfold EStateM.bind
    cases h2 : decodeSymbol ev' s1 with
    | error e s2 => rw [h2] at hd; exact Dx.ofFr (hp.1.trans hd.1)
    | ok act s2 =>
      rw [h2] at hd
      have hw := dx_doWrite act s2
      have hfr : Fr s s2 := hp.1.trans hd.1
      show Dx s (resSt (EStateM.bind (doWrite act) _ s2))
      unfold EStateM.bind
      cases h3 : doWrite act s2 with
      | error e s3 => rw [h3] at hw; exact (Dx.ofFr hfr).trans hw
      | ok u s3 => rw [h3] at hw; exact (Dx.ofFr hfr).trans hw

theorem dx_symLoop : ∀ (fuel : Nat) (ev mf : Bool) (s : St), Dx s (resSt (symLoop fuel ev mf s))
  | 0, ev, mf, s => Dx.refl s
  | fuel + 1, ev, mf, s => by
    unfold symLoop
    have hs := dx_symStep ev mf s
    show Dx s (resSt (EStateM.bind (symStep ev mf) _ s))
    unfold EStateM.bind
    cases h1 : symStep ev mf s with
    | error e s1 => rw [h1] at hs; exact hs
    | ok ev' s1 => rw [h1] at hs; exact hs.trans (dx_symLoop fuel ev' mf s1)

theorem lzmaRunR_none_fst (s : St) : (lzmaRunR s none).1 = lzmaRun s := by
  unfold lzmaRunR lzmaRun
  simp only []
  show _ = EStateM.bind (doWrite s.pending) _ _
  unfold EStateM.bind
  cases h1 : doWrite s.pending { s with dp := { s.dp with limit := clampedLimit s }, pending := .none } with
  | error e t => rfl
  | ok u t => exact symLoopR_fst _ _ _ t

theorem dx_lzmaRun (s : St) :
    Dx { s with dp := { s.dp with limit := clampedLimit s }, pending := .none } (resSt (lzmaRun s)) := by
  unfold lzmaRun
  simp only []
  generalize hs1 : ({ s with dp := { s.dp with limit := clampedLimit s }, pending := .none } : St) = s1
  have hw := dx_doWrite s.pending s1
  show Dx s1 (resSt (EStateM.bind (doWrite s.pending) _ s1))
  unfold EStateM.bind
  cases h1 : doWrite s.pending s1 with
  | error e s2 => rw [h1] at hw; exact hw
  | ok u s2 => rw [h1] at hw; exact hw.trans (dx_symLoop _ _ _ s2)

/-- the resumed run (`sym0 = some k`), relative to the restored top-of-symbol state -/
theorem lzmaRunR_some_spec (s : St) (k : SymSnap) (h : s.dp.pos ≤ s.dp.limit) :
    Wr (k.restore { s with dp := { s.dp with limit := clampedLimit s }, pending := .none }) (resSt (lzmaRunR s (some k)).1)
    ∧ Dx (k.restore { s with dp := { s.dp with limit := clampedLimit s }, pending := .none }) (resSt (lzmaRunR s (some k)).1)
    ∧ (∀ a t, (lzmaRunR s (some k)).1 ≠ .ok a t) ∧ (∀ t, (lzmaRunR s (some k)).1 ≠ .error .fuel t)
    ∧ (resSt (decodeSymbol (s.uncomp.isNone || s.eopmValid)
          (k.restore { s with dp := { s.dp with limit := clampedLimit s }, pending := .none }))).inPos
        ≤ (resSt (lzmaRunR s (some k)).1).inPos := by
  have hc := clampedLimit_bounds s h
  unfold lzmaRunR
  simp only []
  generalize ht0 : k.restore ({ s with dp := { s.dp with limit := clampedLimit s }, pending := .none } : St) = t0
  have e1 : t0.dp.limit = clampedLimit s := by rw [← ht0]; rfl
  have e2 : t0.dp.pos = s.dp.pos := by rw [← ht0]; rfl
  generalize (s.uncomp.isNone || s.eopmValid) = ev
  have hd := sat_decodeSymbol ev t0
  cases h2 : decodeSymbol ev t0 with
  | error e t =>
    rw [h2] at hd
    have hne : ∀ t', (EStateM.Result.error e t : EStateM.Result Exit St Unit) ≠ .error .fuel t' := by
      intro t' e'; injection e' with e1 e2; subst e1; exact hd.2.2 t rfl
    cases e with
    | needInput =>
      refine ⟨hd.1.toWr, Dx.ofFr hd.1, ?_, hne, Nat.le_refl _⟩
      intro a t' e'; cases e'
    | dataError =>
      refine ⟨hd.1.toWr, Dx.ofFr hd.1, ?_, hne, Nat.le_refl _⟩
      intro a t' e'; cases e'
    | streamEnd =>
      refine ⟨hd.1.toWr, Dx.ofFr hd.1, ?_, hne, Nat.le_refl _⟩
      intro a t' e'; cases e'
    | outFull p =>
      refine ⟨hd.1.toWr, Dx.ofFr hd.1, ?_, hne, Nat.le_refl _⟩
      intro a t' e'; cases e'
    | fuel => exact absurd rfl (hd.2.2 t)
  | ok act t =>
    rw [h2] at hd
    have hfr : Fr t0 t := hd.1
    have hw := doWrite_spec act t
    have hx := dx_doWrite act t
    simp only []
    cases h3 : doWrite act t with
    | error e u =>
      rw [h3] at hw hx
      refine ⟨hfr.toWr.trans hw.1, (Dx.ofFr hfr).trans hx, ?_, ?_, hw.1.pos_mono⟩
      · intro a t' e'; cases e'
      · intro t' e'; injection e' with e1 e2; subst e1; exact hw.2.2 u rfl
    | ok x u =>
      rw [h3] at hw hx
      have hw1 : Wr t u := hw.1
      have hwu : Wr t0 u := hfr.toWr.trans hw1
      have hl0 : t0.dp.pos ≤ t0.dp.limit := by rw [e1, e2]; exact hc.1
      have hlu : u.dp.pos ≤ u.dp.limit := hwu.in_limit hl0
      simp only []
      have hloop := symLoop_spec (clampedLimit s - s.dp.pos + 2) ev (mightFinish s) u hlu
      have hdl := dx_symLoop (clampedLimit s - s.dp.pos + 2) ev (mightFinish s) u
      rw [symLoopR_fst]
      refine ⟨hwu.trans hloop.1, ((Dx.ofFr hfr).trans hx).trans hdl, hloop.2.1, ?_, ?_⟩
      · apply hloop.2.2
        have := hwu.limit; have := hwu.dpos_mono
        omega
      · exact Nat.le_trans hw1.pos_mono hloop.1.pos_mono

theorem unstick_eq (s : St) : unstick s = { s with pending := (unstick s).pending } := by
  unfold unstick
  split <;> rfl

theorem SymPre.of_none (r : RSt) (h : r.sym0 = none) : SymPre r := by
  intro k hk; rw [h] at hk; cases hk

/-- the frame part of `L1Spec` (without `SymPre` the conjuncts `Wr.pos_mono`/`Wr.pos_le` fail for an ill-formed `sym0`) -/
theorem l1Spec' (r : RSt) (hpre : SymPre r) (hin : r.s.inPos ≤ r.s.inp.size) (hlim : r.s.dp.pos ≤ r.s.dp.limit) :
    Wr r.s (lzmaCallR r).2.s ∧ (lzmaCallR r).1 ≠ .progError ∧ (lzmaCallR r).2.overrun = r.overrun
    ∧ (lzmaCallR r).2.s.allowEopm = r.s.allowEopm ∧ ((lzmaCallR r).2.s.uncomp = none ↔ r.s.uncomp = none)
    ∧ (lzmaCallR r).2.s.dp.hasWrapped = r.s.dp.hasWrapped
    ∧ (r.s.dp.hasWrapped = false → r.s.dp.full + LZ_DICT_INIT_POS = r.s.dp.pos →
        (lzmaCallR r).2.s.dp.full + LZ_DICT_INIT_POS = (lzmaCallR r).2.s.dp.pos) := by
  have hfr := fr_rcReadInitN r.s.initLeft r.s
  have hz : r.s.initLeft = 0 → rcReadInit r.s = .ok true r.s := by
    intro h0; unfold rcReadInit; rw [h0]; rfl
  unfold lzmaCallR
  cases hri : rcReadInit r.s with
  | error e s0 =>
    have hfr0 : Fr r.s s0 := by
      have : rcReadInitN r.s.initLeft r.s = .error e s0 := hri
      rw [this] at hfr; exact hfr
    simp only []
    exact ⟨hfr0.toWr, (by simp), trivial, hfr0.allowEopm, (by rw [hfr0.uncomp]), (by rw [hfr0.dp]), (by rw [hfr0.dp]; exact fun _ h => h)⟩
  | ok bb s0 =>
    have hfr0 : Fr r.s s0 := by
      have : rcReadInitN r.s.initLeft r.s = .ok bb s0 := hri
      rw [this] at hfr; exact hfr
    cases bb with
    | false =>
      simp only []
      exact ⟨hfr0.toWr, (by simp), trivial, hfr0.allowEopm, (by rw [hfr0.uncomp]), (by rw [hfr0.dp]), (by rw [hfr0.dp]; exact fun _ h => h)⟩
    | true =>
      simp only []
      have h0 : s0.dp.pos ≤ s0.dp.limit := by rw [hfr0.dp]; exact hlim
      have hc := clampedLimit_bounds s0 h0
      generalize hs1 : ({ s0 with dp := { s0.dp with limit := clampedLimit s0 }, pending := .none } : St) = s1
      -- the run, relative to `s1`
      have hrun : Wr s1 (resSt (lzmaRunR s0 r.sym0).1) ∧ Dx s1 (resSt (lzmaRunR s0 r.sym0).1)
          ∧ (∀ a t, (lzmaRunR s0 r.sym0).1 ≠ .ok a t) ∧ (∀ t, (lzmaRunR s0 r.sym0).1 ≠ .error .fuel t) := by
        cases hk : r.sym0 with
        | none =>
          rw [lzmaRunR_none_fst]
          have h1 := lzmaRun_spec s0 h0
          have h2 := dx_lzmaRun s0
          rw [hs1] at h1 h2
          exact ⟨h1.1, h2, h1.2.1, h1.2.2⟩
        | some k =>
          obtain ⟨p1, p2, p3⟩ := hpre k hk
          have hs0 : s0 = r.s := by
            have := hz p1; rw [this] at hri; injection hri with _ h2; exact h2.symm
          have hsp := lzmaRunR_some_spec s0 k h0
          rw [hs1] at hsp
          obtain ⟨q1, q2, q3, q4, q5⟩ := hsp
          have p3' : s1.inPos ≤ (resSt (decodeSymbol (s0.uncomp.isNone || s0.eopmValid) (k.restore s1))).inPos := by
            rw [← hs1, hs0]; exact p3 (clampedLimit r.s) r.s.inp ⟨hin, hin, fun _ _ _ _ => rfl⟩
          have p2' : k.inPos ≤ s1.inPos := by rw [← hs1, hs0]; exact p2
          refine ⟨?_, ⟨q2.allowEopm, q2.hasWrapped, q2.full⟩, q3, q4⟩
          exact ⟨q1.inp, Nat.le_trans p3' q5, fun hh => q1.pos_le (Nat.le_trans p2' hh), q1.outBase, q1.l2, q1.limit, q1.size,
                 q1.needReset, q1.dpos_mono, q1.hist_eq, q1.in_limit⟩
      obtain ⟨w1, w2, w3, w4⟩ := hrun
      generalize (lzmaRunR s0 r.sym0) = run at w1 w2 w3 w4 ⊢
      have hst := lzmaFinish_state run.1 s0.dp.limit s0.hist.size s0.uncomp
      have hfl := lzmaFinish_fields run.1 s0.dp.limit s0.hist.size s0.uncomp
      generalize hfin : lzmaFinish run.1 s0.dp.limit s0.hist.size s0.uncomp = fin at hst hfl
      have hu := unstick_eq fin.2
      generalize hs4 : unstick fin.2 = s4 at hu
      have g1 : s4.inp = fin.2.inp := by rw [hu]
      have g2 : s4.inPos = fin.2.inPos := by rw [hu]
      have g3 : s4.outBase = fin.2.outBase := by rw [hu]
      have g4 : s4.l2 = fin.2.l2 := by rw [hu]
      have g5 : s4.hist = fin.2.hist := by rw [hu]
      have g6 : s4.dp = fin.2.dp := by rw [hu]
      have g7 : s4.allowEopm = fin.2.allowEopm := by rw [hu]
      have g8 : s4.uncomp = fin.2.uncomp := by rw [hu]
      have hdx1 : Dx s0 s1 := by rw [← hs1]; exact ⟨rfl, rfl, fun _ h => h⟩
      have hdx : Dx r.s (resSt run.1) := ((Dx.ofFr hfr0).trans hdx1).trans w2
      refine ⟨hfr0.toWr.trans ?_, ?_, trivial, ?_, ?_, ?_, ?_⟩
      · refine wr_unclamp s0 s1 (resSt run.1) s4 (clampedLimit s0) hc.1 hc.2 (by rw [← hs1]) (by rw [← hs1]) (by rw [← hs1])
          (by rw [← hs1]) (by rw [← hs1]) (by rw [← hs1]) w1
          (g1.trans hst.1) (g2.trans hst.2.1) (g3.trans hst.2.2.1) (g4.trans hst.2.2.2.1) (g5.trans hst.2.2.2.2.1)
          (g6.trans hst.2.2.2.2.2)
      · show fin.1 ≠ .progError
        rw [← hfin]; exact lzmaFinish_ret _ _ _ _ w3 w4
      · show s4.allowEopm = r.s.allowEopm
        rw [g7, hfl.2.2.2.2.2.2.1]; exact hdx.allowEopm
      · show s4.uncomp = none ↔ r.s.uncomp = none
        rw [g8, hfl.2.2.2.2.2.2.2.2, hfr0.uncomp]
        cases r.s.uncomp <;> simp
      · show s4.dp.hasWrapped = r.s.dp.hasWrapped
        rw [g6, hst.2.2.2.2.2]; exact hdx.hasWrapped
      · show r.s.dp.hasWrapped = false → r.s.dp.full + LZ_DICT_INIT_POS = r.s.dp.pos → s4.dp.full + LZ_DICT_INIT_POS = s4.dp.pos
        rw [g6, hst.2.2.2.2.2]; exact hdx.full

/-- a call that does not resume inside a symbol satisfies the conclusion of `L1Spec` unconditionally -/
theorem l1Spec_none (r : RSt) (h : r.sym0 = none) (hin : r.s.inPos ≤ r.s.inp.size) (hlim : r.s.dp.pos ≤ r.s.dp.limit) :
    Wr r.s (lzmaCallR r).2.s ∧ (lzmaCallR r).1 ≠ .progError ∧ (lzmaCallR r).2.overrun = r.overrun
    ∧ (lzmaCallR r).2.s.allowEopm = r.s.allowEopm ∧ ((lzmaCallR r).2.s.uncomp = none ↔ r.s.uncomp = none)
    ∧ (lzmaCallR r).2.s.dp.hasWrapped = r.s.dp.hasWrapped
    ∧ (r.s.dp.hasWrapped = false → r.s.dp.full + LZ_DICT_INIT_POS = r.s.dp.pos →
        (lzmaCallR r).2.s.dp.full + LZ_DICT_INIT_POS = (lzmaCallR r).2.s.dp.pos) :=
  l1Spec' r (SymPre.of_none r h) hin hlim

/-! ### the saved resume point after a call (`SymPre` is an invariant) -/

/-- replaying a symbol that starved, over an input that agrees with the consumed bytes (any limit, any `uncomp`), reads at
    least as far as the starved run did -/
theorem replay_reach (ev : Bool) (t0 t : St) (b : ByteArray) (L : Nat) (u' : Option Nat)
    (h : decodeSymbol ev t0 = .error .needInput t) (hag : Agree t.inPos t0.inp b) :
    t.inPos ≤ (resSt (decodeSymbol ev (ov b L u' t0))).inPos := by
  have hi := (ind_decodeSymbol (fun _ => L) (fun _ => u') id id ev).comm (St.withInp t0 b)
  have e : ov b L u' t0 = gv (fun _ => L) (fun _ => u') id id (St.withInp t0 b) := rfl
  rw [e, hi]
  have hm : ∀ r : EStateM.Result Exit St Pending,
      (resSt (mapSt (gv (fun _ => L) (fun _ => u') id id) r)).inPos = (resSt r).inPos := by
    intro r; cases r <;> rfl
  rw [hm]
  rcases (loc_decodeSymbol ev).rel t.inPos t0 (St.withInp t0 b) ⟨t0, t0.inp, b, rfl, rfl, hag⟩ with hs | ⟨_, hd⟩
  · rw [h] at hs
    cases h2 : decodeSymbol ev (St.withInp t0 b) with
    | ok a t' => rw [h2] at hs; exact absurd hs id
    | error e' t' =>
      rw [h2] at hs
      have := hs.2.inPos
      show t.inPos ≤ t'.inPos
      omega
  · rcases hd with h' | ⟨t', h', hle⟩
    · exact Nat.le_of_lt h'
    · rw [h']; exact hle

/-- a top-of-symbol state of the call that started (after `rc_read_init`) in `s0` -/
structure Top (s0 : St) (ev : Bool) (u : St) : Prop where
  initLeft : u.initLeft = s0.initLeft
  pending : u.pending = .none
  inp : u.inp = s0.inp
  inpos : u.inPos ≤ u.inp.size
  ev : ev = (u.uncomp.isNone || u.eopmValid)
  uncomp : u.uncomp = s0.uncomp

theorem Top.of_restore {s0 : St} {ev : Bool} {u t : St} (h : Top s0 ev u) (k : SymSnap) (e : k.restore u = t)
    (hp : t.inPos ≤ u.inp.size) : Top s0 ev t := by
  subst e
  exact ⟨h.initLeft, h.pending, h.inp, hp, h.ev, h.uncomp⟩

theorem Top.of_write {s0 : St} {ev : Bool} {u t : St} (h : Top s0 ev u)
    (e : t = { u with hist := t.hist, dp := { u.dp with pos := t.dp.pos, full := t.dp.full } }) : Top s0 ev t := by
  rw [e]
  exact ⟨h.initLeft, h.pending, h.inp, h.inpos, h.ev, h.uncomp⟩

/-- if a resume point is saved, the run ended by starving inside the symbol that started at that point -/
def SymEnd {α : Type} (s0 : St) (x : EStateM.Result Exit St α × Option SymSnap) : Prop :=
  ∀ k, x.2 = some k → ∃ ev t0 t, Top s0 ev t0 ∧ k = SymSnap.of t0 ∧ decodeSymbol ev t0 = .error .needInput t
    ∧ resSt x.1 = t ∧ (∃ e, x.1 = .error e t ∧ e = .needInput)

theorem SymEnd.none {α : Type} (s0 : St) (r : EStateM.Result Exit St α) : SymEnd s0 (r, none) := by
  intro k hk; cases hk

theorem symBodyR_top (s0 : St) (ev : Bool) (t0 : St) (h : Top s0 ev t0) :
    SymEnd s0 (symBodyR ev t0) ∧ ∀ ev' t, (symBodyR ev t0).1 = .ok ev' t → Top s0 ev' t := by
  unfold symBodyR
  cases h2 : rcNormalize t0 with
  | error e t' => exact ⟨SymEnd.none _ _, fun ev' t e' => by cases e'⟩
  | ok u t' =>
    simp only []
    have hf := decodeSymbol_frame ev t0
    cases h3 : decodeSymbol ev t0 with
    | error e t =>
      cases e with
      | needInput =>
        refine ⟨?_, fun ev' t e' => by cases e'⟩
        intro k hk
        injection hk with hk
        exact ⟨ev, t0, t, h, hk.symm, h3, rfl, _, rfl, rfl⟩
      | dataError => exact ⟨SymEnd.none _ _, fun ev' t e' => by cases e'⟩
      | streamEnd => exact ⟨SymEnd.none _ _, fun ev' t e' => by cases e'⟩
      | outFull p => exact ⟨SymEnd.none _ _, fun ev' t e' => by cases e'⟩
      | fuel => exact ⟨SymEnd.none _ _, fun ev' t e' => by cases e'⟩
    | ok act t =>
      rw [h3] at hf
      have ht : Top s0 ev t := h.of_restore _ hf.1 (hf.2.2 h.inpos)
      simp only []
      have hw := doWrite_frame act t
      cases h4 : doWrite act t with
      | error e u => exact ⟨SymEnd.none _ _, fun ev' t e' => by cases e'⟩
      | ok x u =>
        rw [h4] at hw
        refine ⟨SymEnd.none _ _, ?_⟩
        intro ev' t' e'
        injection e' with e1 e2
        subst e1; subst e2
        exact ht.of_write hw

theorem symStepR_top (s0 : St) (ev mf : Bool) (s : St) (h : Top s0 ev s) :
    SymEnd s0 (symStepR ev mf s) ∧ ∀ ev' t, (symStepR ev mf s).1 = .ok ev' t → Top s0 ev' t := by
  unfold symStepR
  have hf := symPrelude_frame ev mf s
  cases h1 : symPrelude ev mf s with
  | error e t => exact ⟨SymEnd.none _ _, fun ev' t e' => by cases e'⟩
  | ok ev1 t =>
    rw [h1] at hf
    simp only []
    apply symBodyR_top
    have hp : t.inPos ≤ s.inp.size := hf.2.2 h.inpos
    have hf1 : t = { s with range := t.range, code := t.code, inPos := t.inPos, eopmValid := t.eopmValid } := hf.1
    rcases symPrelude_ok ev mf s t ev1 h1 with ⟨e1, e2, _⟩ | ⟨_, _, e2, e3⟩
    · subst e1; subst e2; exact h
    · refine ⟨?_, ?_, ?_, ?_, ?_, ?_⟩
      · rw [hf1]; exact h.initLeft
      · rw [hf1]; exact h.pending
      · rw [hf1]; exact h.inp
      · rw [hf1]; exact hp
      · rw [e2, e3]; simp
      · rw [hf1]; exact h.uncomp

theorem symLoopR_end (s0 : St) : ∀ (fuel : Nat) (ev mf : Bool) (s : St), Top s0 ev s → SymEnd s0 (symLoopR fuel ev mf s)
  | 0, ev, mf, s, _ => SymEnd.none _ _
  | fuel + 1, ev, mf, s, h => by
    unfold symLoopR
    have hs := symStepR_top s0 ev mf s h
    rcases hR : symStepR ev mf s with ⟨r, q⟩
    rw [hR] at hs
    cases r with
    | ok ev' t => exact symLoopR_end s0 fuel ev' mf t (hs.2 ev' t rfl)
    | error e t =>
      intro k hk
      obtain ⟨ev1, t0, t', a1, a2, a3, a4, e', a5, a6⟩ := hs.1 k hk
      injection a5 with a51 a52
      subst a51; subst a52
      exact ⟨ev1, t0, t, a1, a2, a3, rfl, _, rfl, a6⟩

theorem lzmaRunR_end (s : St) (sym0 : Option SymSnap) (hin : s.inPos ≤ s.inp.size)
    (hk : ∀ k, sym0 = some k → k.inPos ≤ s.inp.size) : SymEnd s (lzmaRunR s sym0) := by
  unfold lzmaRunR
  simp only []
  generalize hev : (s.uncomp.isNone || s.eopmValid) = ev
  have htop : Top s ev { s with dp := { s.dp with limit := clampedLimit s }, pending := .none } :=
    ⟨rfl, rfl, rfl, hin, hev.symm, rfl⟩
  generalize ({ s with dp := { s.dp with limit := clampedLimit s }, pending := .none } : St) = s1 at htop
  cases sym0 with
  | none =>
    simp only []
    have hw := doWrite_frame s.pending s1
    cases h1 : doWrite s.pending s1 with
    | error e t => exact SymEnd.none _ _
    | ok x t =>
      rw [h1] at hw
      exact symLoopR_end s _ _ _ t (htop.of_write hw)
  | some k =>
    simp only []
    have hk0 : (k.restore s1).inPos ≤ s1.inp.size := by rw [htop.inp]; exact hk k rfl
    have ht0 : Top s ev (k.restore s1) := htop.of_restore k rfl hk0
    have hf := decodeSymbol_frame ev (k.restore s1)
    cases h3 : decodeSymbol ev (k.restore s1) with
    | error e t =>
      cases e with
      | needInput =>
        intro k' hk'
        injection hk' with hk'
        subst hk'
        exact ⟨ev, k.restore s1, t, ht0, rfl, h3, rfl, _, rfl, rfl⟩
      | dataError => exact SymEnd.none _ _
      | streamEnd => exact SymEnd.none _ _
      | outFull p => exact SymEnd.none _ _
      | fuel => exact SymEnd.none _ _
    | ok act t =>
      rw [h3] at hf
      have ht : Top s ev t := ht0.of_restore _ hf.1 (hf.2.2 ht0.inpos)
      simp only []
      have hw := doWrite_frame act t
      cases h4 : doWrite act t with
      | error e u => exact SymEnd.none _ _
      | ok x u =>
        rw [h4] at hw
        exact symLoopR_end s _ _ _ u (ht.of_write hw)

theorem finish_needInput (t : St) (cl st : Nat) (u : Option Nat) :
    (lzmaFinish (.error .needInput t) cl st u).1 = .ok
    ∧ unstick (lzmaFinish (.error .needInput t) cl st u).2
      = { t with dp := { t.dp with limit := cl }, uncomp := u.map (· - (t.hist.size - st)), pending := .none } := by
  unfold lzmaFinish unstick
  simp [exitRet, exitPending, resSt]

theorem restore_ov (t0 : St) (kt : SymSnap) (b : ByteArray) (L cl : Nat) (u' : Option Nat) (hp : t0.pending = .none) :
    (SymSnap.of t0).restore
      { ({ (kt.restore t0) with dp := { (kt.restore t0).dp with limit := cl }, uncomp := u', pending := .none } : St) with
          inp := b, dp := { (kt.restore t0).dp with limit := L }, pending := .none } = ov b L u' t0 := by
  cases t0
  simp only at hp
  subst hp
  rfl

theorem symPre_of_end (r : RSt) (ev : Bool) (t0 t : St) (cl : Nat) (u' : Option Nat)
    (hp : t0.pending = .none) (hev : ev = (t0.uncomp.isNone || t0.eopmValid)) (hi : t0.initLeft = 0)
    (hu : u'.isNone = t0.uncomp.isNone) (hdec : decodeSymbol ev t0 = .error .needInput t) :
    SymPre { r with s := { t with dp := { t.dp with limit := cl }, uncomp := u', pending := .none },
                    sym0 := some (SymSnap.of t0) } := by
  have hf := decodeSymbol_frame ev t0
  rw [hdec] at hf
  have hf1 : (SymSnap.of t).restore t0 = t := hf.1
  intro k hk
  have hk' : SymSnap.of t0 = k := by injection hk
  subst hk'
  refine ⟨?_, ?_, ?_⟩
  · show t.initLeft = 0
    rw [← hf1]; exact hi
  · exact hf.2.1
  · intro L b hag
    have e1 := restore_ov t0 (SymSnap.of t) b L cl u' hp
    rw [hf1] at e1
    have e2 : t.eopmValid = t0.eopmValid := by rw [← hf1]; rfl
    have e3 : t.inp = t0.inp := by rw [← hf1]; rfl
    have hev' : (u'.isNone || t.eopmValid) = ev := by rw [hu, e2, hev]
    have hag' : Agree t.inPos t0.inp b := by rw [← e3]; exact hag
    show t.inPos ≤ (resSt (decodeSymbol (u'.isNone || t.eopmValid) _)).inPos
    rw [hev']
    have := replay_reach ev t0 t b L u' hdec hag'
    rw [← e1] at this
    exact this

theorem lzmaCallR_true (r : RSt) (s0 : St) (h : rcReadInit r.s = .ok true s0) :
    lzmaCallR r = ((lzmaFinish (lzmaRunR s0 r.sym0).1 s0.dp.limit s0.hist.size s0.uncomp).1,
      { r with s := unstick (lzmaFinish (lzmaRunR s0 r.sym0).1 s0.dp.limit s0.hist.size s0.uncomp).2,
               sym0 := (lzmaRunR s0 r.sym0).2 }) := by
  unfold lzmaCallR
  rw [h]

theorem lzmaCallR_stop (r : RSt) (h : ∀ s0, rcReadInit r.s ≠ .ok true s0) :
    (lzmaCallR r).2.sym0 = r.sym0 ∧ (lzmaCallR r).1 ≠ .streamEnd := by
  unfold lzmaCallR
  cases hri : rcReadInit r.s with
  | error e s0 => exact ⟨rfl, by simp⟩
  | ok bb s0 =>
    cases bb with
    | false => exact ⟨rfl, by simp⟩
    | true => exact absurd hri (h s0)

theorem symPre_lzmaCallR (r : RSt) (hpre : SymPre r) (hin : r.s.inPos ≤ r.s.inp.size) : SymPre (lzmaCallR r).2 := by
  have hz : r.s.initLeft = 0 → rcReadInit r.s = .ok true r.s := by
    intro h0; unfold rcReadInit; rw [h0]; rfl
  by_cases hex : ∃ s0, rcReadInit r.s = .ok true s0
  · obtain ⟨s0, hri⟩ := hex
    have hfr0 : Fr r.s s0 := by
      have hfr := fr_rcReadInitN r.s.initLeft r.s
      have : rcReadInitN r.s.initLeft r.s = .ok true s0 := hri
      rw [this] at hfr; exact hfr
    have s0in : s0.inPos ≤ s0.inp.size := hfr0.pos_le hin
    have s0init : s0.initLeft = 0 := (rcReadInit_frame r.s).2.2.2 s0 hri
    have hkk : ∀ k, r.sym0 = some k → k.inPos ≤ s0.inp.size := by
      intro k hk
      obtain ⟨p1, p2, _⟩ := hpre k hk
      rw [hfr0.inp]; omega
    have hcall := lzmaCallR_true r s0 hri
    intro k' hk'
    rw [hcall] at hk'
    have hk2 : (lzmaRunR s0 r.sym0).2 = some k' := hk'
    obtain ⟨ev, t0, t, top, hkof, hdec, _, e, hrun, he⟩ := lzmaRunR_end s0 r.sym0 s0in hkk k' hk2
    subst he
    have hfin := (finish_needInput t s0.dp.limit s0.hist.size s0.uncomp).2
    have hres : (lzmaCallR r).2 = { r with s := { t with dp := { t.dp with limit := s0.dp.limit }, uncomp := s0.uncomp.map (· - (t.hist.size - s0.hist.size)), pending := .none }, sym0 := some (SymSnap.of t0) } := by
      rw [hcall]
      show ({ r with s := unstick (lzmaFinish (lzmaRunR s0 r.sym0).1 s0.dp.limit s0.hist.size s0.uncomp).2, sym0 := (lzmaRunR s0 r.sym0).2 } : RSt) = _
      rw [hrun, hfin, hk2, hkof]
    have hu : (s0.uncomp.map (· - (t.hist.size - s0.hist.size))).isNone = t0.uncomp.isNone := by
      rw [top.uncomp]; cases s0.uncomp <;> rfl
    have key := symPre_of_end r ev t0 t s0.dp.limit _ top.pending top.ev (top.initLeft.trans s0init) hu hdec
    rw [← hres] at key
    exact key k' (by rw [hcall]; exact hk2)
  · have hne : ∀ s0, rcReadInit r.s ≠ .ok true s0 := fun s0 h => hex ⟨s0, h⟩
    intro k' hk'
    rw [(lzmaCallR_stop r hne).1] at hk'
    exact absurd (hz (hpre k' hk').1) (hne _)

theorem l1Spec : L1Spec := fun r hpre hin hlim => ⟨symPre_lzmaCallR r hpre hin, l1Spec' r hpre hin hlim⟩

/-- LZMA_STREAM_END is never returned with a saved mid-symbol resume point -/
theorem lzmaCallR_end_none (r : RSt) (h : (lzmaCallR r).1 = .streamEnd) : (lzmaCallR r).2.sym0 = none := by
  by_cases hex : ∃ s0, rcReadInit r.s = .ok true s0
  · obtain ⟨s0, hri⟩ := hex
    have hcall := lzmaCallR_true r s0 hri
    rw [hcall] at h ⊢
    show (lzmaRunR s0 r.sym0).2 = none
    have h' : (lzmaFinish (lzmaRunR s0 r.sym0).1 s0.dp.limit s0.hist.size s0.uncomp).1 = .streamEnd := h
    cases hq : (lzmaRunR s0 r.sym0).2 with
    | none => rfl
    | some k =>
      exfalso
      -- a saved resume point means the run starved; then the return value is LZMA_OK
      have hsome : ∀ (s : St) (sym0 : Option SymSnap) (k : SymSnap), (lzmaRunR s sym0).2 = some k →
          ∃ t, (lzmaRunR s sym0).1 = .error .needInput t := by
        intro s sym0 k hk
        have hb : ∀ (ev : Bool) (t0 : St) (k : SymSnap), (symBodyR ev t0).2 = some k →
            ∃ t, (symBodyR ev t0).1 = .error .needInput t := by
          intro ev t0 k hk
          unfold symBodyR at hk ⊢
          cases h2 : rcNormalize t0 with
          | error e t' => rw [h2] at hk; cases hk
          | ok u t' =>
            rw [h2] at hk
            simp only [] at hk ⊢
            cases h3 : decodeSymbol ev t0 with
            | error e t =>
              rw [h3] at hk
              cases e with
              | needInput => exact ⟨t, rfl⟩
              | dataError => cases hk
              | streamEnd => cases hk
              | outFull p => cases hk
              | fuel => cases hk
            | ok act t =>
              rw [h3] at hk
              simp only [] at hk
              cases h4 : doWrite act t with
              | error e u => rw [h4] at hk; cases hk
              | ok x u => rw [h4] at hk; cases hk
        have hst : ∀ (ev mf : Bool) (s : St) (k : SymSnap), (symStepR ev mf s).2 = some k →
            ∃ t, (symStepR ev mf s).1 = .error .needInput t := by
          intro ev mf s k hk
          unfold symStepR at hk ⊢
          cases h1 : symPrelude ev mf s with
          | error e t => rw [h1] at hk; cases hk
          | ok ev1 t => rw [h1] at hk; exact hb ev1 t k hk
        have hl : ∀ (fuel : Nat) (ev mf : Bool) (s : St) (k : SymSnap), (symLoopR fuel ev mf s).2 = some k →
            ∃ t, (symLoopR fuel ev mf s).1 = .error .needInput t := by
          intro fuel
          induction fuel with
          | zero => intro ev mf s k hk; cases hk
          | succ n ih =>
            intro ev mf s k hk
            unfold symLoopR at hk ⊢
            have h5 := hst ev mf s
            rcases hR : symStepR ev mf s with ⟨r', q⟩
            rw [hR] at hk h5
            cases r' with
            | ok ev' t => exact ih ev' mf t k hk
            | error e t =>
              obtain ⟨t', ht'⟩ := h5 k hk
              injection ht' with e1 e2
              subst e1; subst e2
              exact ⟨t, rfl⟩
        unfold lzmaRunR at hk ⊢
        simp only [] at hk ⊢
        cases sym0 with
        | none =>
          simp only [] at hk ⊢
          cases h1 : doWrite s.pending { s with dp := { s.dp with limit := clampedLimit s }, pending := .none } with
          | error e t => rw [h1] at hk; cases hk
          | ok x t => rw [h1] at hk; exact hl _ _ _ t k hk
        | some k0 =>
          simp only [] at hk ⊢
          cases h3 : decodeSymbol (s.uncomp.isNone || s.eopmValid)
              (k0.restore { s with dp := { s.dp with limit := clampedLimit s }, pending := .none }) with
          | error e t =>
            rw [h3] at hk
            cases e with
            | needInput => exact ⟨t, rfl⟩
            | dataError => cases hk
            | streamEnd => cases hk
            | outFull p => cases hk
            | fuel => cases hk
          | ok act t =>
            rw [h3] at hk
            simp only [] at hk ⊢
            cases h4 : doWrite act t with
            | error e u => rw [h4] at hk; cases hk
            | ok x u => rw [h4] at hk; exact hl _ _ _ u k hk
      obtain ⟨t, ht⟩ := hsome s0 r.sym0 k hq
      rw [ht, (finish_needInput t _ _ _).1] at h'
      cases h'
  · have hne : ∀ s0, rcReadInit r.s ≠ .ok true s0 := fun s0 h => hex ⟨s0, h⟩
    exact absurd h (lzmaCallR_stop r hne).2

/-! ### `lzma_decode` neither reads nor writes the LZMA2 layer -/

/-- apply a state map to the result component of a resumable run -/
def mapP {α : Type} (g : St → St) (x : EStateM.Result Exit St α × Option SymSnap) :
    EStateM.Result Exit St α × Option SymSnap := (mapSt g x.1, x.2)

theorem symBodyR_setL2 (ev : Bool) (t0 : St) (f : L2 → L2) :
    symBodyR ev (setL2 t0 f) = mapP (fun t => setL2 t f) (symBodyR ev t0) := by
  unfold symBodyR
  rw [rcNormalize_setL2, decodeSymbol_setL2]
  cases rcNormalize t0 with
  | error e t' => rfl
  | ok u t' =>
    simp only []
    cases decodeSymbol ev t0 with
    | error e t => cases e <;> rfl
    | ok act t =>
      simp only [mapSt]
      rw [doWrite_setL2]
      cases doWrite act t <;> rfl

theorem symStepR_setL2 (ev mf : Bool) (s : St) (f : L2 → L2) :
    symStepR ev mf (setL2 s f) = mapP (fun t => setL2 t f) (symStepR ev mf s) := by
  unfold symStepR
  rw [symPrelude_setL2]
  cases symPrelude ev mf s with
  | error e t => rfl
  | ok ev1 t => exact symBodyR_setL2 ev1 t f

theorem symLoopR_setL2 (f : L2 → L2) : ∀ (fuel : Nat) (ev mf : Bool) (s : St),
    symLoopR fuel ev mf (setL2 s f) = mapP (fun t => setL2 t f) (symLoopR fuel ev mf s)
  | 0, ev, mf, s => rfl
  | fuel + 1, ev, mf, s => by
    unfold symLoopR
    rw [symStepR_setL2]
    rcases symStepR ev mf s with ⟨r, q⟩
    cases r with
    | ok ev' t => exact symLoopR_setL2 f fuel ev' mf t
    | error e t => rfl

theorem lzmaRunR_setL2 (s : St) (sym0 : Option SymSnap) (f : L2 → L2) :
    lzmaRunR (setL2 s f) sym0 = mapP (fun t => setL2 t f) (lzmaRunR s sym0) := by
  unfold lzmaRunR
  simp only []
  cases sym0 with
  | none =>
    simp only []
    have e : ({ setL2 s f with dp := { (setL2 s f).dp with limit := clampedLimit (setL2 s f) }, pending := .none } : St)
        = setL2 { s with dp := { s.dp with limit := clampedLimit s }, pending := .none } f := rfl
    rw [e, doWrite_setL2]
    show (match mapSt _ (doWrite s.pending _) with
          | .error e t => (EStateM.Result.error e t, (none : Option SymSnap))
          | .ok _ t => symLoopR (clampedLimit s - s.dp.pos + 2) (s.uncomp.isNone || s.eopmValid) (mightFinish s) t) = _
    cases doWrite s.pending { s with dp := { s.dp with limit := clampedLimit s }, pending := .none } with
    | error e t => rfl
    | ok x t => exact symLoopR_setL2 f _ _ _ t
  | some k =>
    simp only []
    have e : k.restore ({ setL2 s f with dp := { (setL2 s f).dp with limit := clampedLimit (setL2 s f) }, pending := .none } : St)
        = setL2 (k.restore { s with dp := { s.dp with limit := clampedLimit s }, pending := .none }) f := rfl
    rw [e]
    show (match decodeSymbol (s.uncomp.isNone || s.eopmValid) (setL2 _ f) with
          | .error .needInput t => (EStateM.Result.error Exit.needInput t, some k)
          | .error e t => (EStateM.Result.error e t, none)
          | .ok act t =>
            match doWrite act t with
            | .error e u => (EStateM.Result.error e u, none)
            | .ok _ u => symLoopR (clampedLimit s - s.dp.pos + 2) (s.uncomp.isNone || s.eopmValid) (mightFinish s) u) = _
    rw [decodeSymbol_setL2]
    cases decodeSymbol (s.uncomp.isNone || s.eopmValid) (k.restore { s with dp := { s.dp with limit := clampedLimit s }, pending := .none }) with
    | error e t => cases e <;> rfl
    | ok act t =>
      simp only [mapSt]
      rw [doWrite_setL2]
      cases doWrite act t with
      | error e u => rfl
      | ok x u => exact symLoopR_setL2 f _ _ _ u

theorem lzmaFinish_setL2 (x : EStateM.Result Exit St Unit) (cl st : Nat) (u : Option Nat) (f : L2 → L2) :
    lzmaFinish (mapSt (fun t => setL2 t f) x) cl st u = ((lzmaFinish x cl st u).1, setL2 (lzmaFinish x cl st u).2 f) := by
  cases x with
  | ok a t => rfl
  | error e t => cases e <;> rfl

theorem unstick_setL2 (s : St) (f : L2 → L2) : unstick (setL2 s f) = setL2 (unstick s) f := by
  unfold unstick
  show (if s.pending == .stuck then _ else _) = _
  cases (s.pending == .stuck) <;> rfl

theorem lzmaCallR_setL2 (r : RSt) (f : L2 → L2) :
    lzmaCallR (r.map fun s => setL2 s f) = ((lzmaCallR r).1, (lzmaCallR r).2.map fun s => setL2 s f) := by
  unfold lzmaCallR
  have e : rcReadInit (r.map fun s => setL2 s f).s = mapSt (fun t => setL2 t f) (rcReadInit r.s) :=
    rcReadInitN_setL2 r.s.initLeft r.s f
  rw [e]
  cases rcReadInit r.s with
  | error e s0 => rfl
  | ok bb s0 =>
    cases bb with
    | false => rfl
    | true =>
      simp only [mapSt]
      have e2 : (r.map fun s => setL2 s f).sym0 = r.sym0 := rfl
      rw [e2, lzmaRunR_setL2]
      have e3 : lzmaFinish (mapP (fun t => setL2 t f) (lzmaRunR s0 r.sym0)).1 (setL2 s0 f).dp.limit (setL2 s0 f).hist.size (setL2 s0 f).uncomp = ((lzmaFinish (lzmaRunR s0 r.sym0).1 s0.dp.limit s0.hist.size s0.uncomp).1, setL2 (lzmaFinish (lzmaRunR s0 r.sym0).1 s0.dp.limit s0.hist.size s0.uncomp).2 f) := lzmaFinish_setL2 _ _ _ _ f
      simp only [e3, unstick_setL2]
      rfl

end XzVerif.LzmaR
