/-
  Call level of the resumable LZMA decoder model (`Model/LzmaResume.lean`), property C06: the output step and `rc_read_init`
  between two views (input so far, dictionary limit, `uncompressed_size`) of the same coder state; the resumable loop computes
  the one-shot loop's result; frame of one `lzma_decode` call.
  Core Lean only.
-/
import XzVerif.Lemmas.LzmaResumeSym
import XzVerif.Lemmas.LzmaCausalCall
import XzVerif.Lemmas.C03Frame

namespace XzVerif.LzmaR
open XzVerif.RangeDec XzVerif.LzDict XzVerif.Lzma XzVerif.Lzma2

theorem copyBytes_add : ∀ (a c d : Nat) (h : ByteArray),
    St.copyBytes (a + c) d h = St.copyBytes c d (St.copyBytes a d h)
  | 0, c, d, h => by simp [St.copyBytes]
  | a + 1, c, d, h => by
    have e : a + 1 + c = (a + c) + 1 := by omega
    rw [e]
    show St.copyBytes (a + c) d _ = St.copyBytes c d (St.copyBytes a d _)
    exact copyBytes_add a c d _

theorem repeatN_add (s : St) (a c : Nat) : (s.repeatN a).repeatN c = s.repeatN (a + c) := by
  unfold St.repeatN DictPos.advance
  cases hw : s.dp.hasWrapped <;> simp [hw, copyBytes_add, Nat.add_assoc]

theorem ov_ov (b b' : ByteArray) (L L' : Nat) (v v' : Option Nat) (s : St) :
    ov b' L' v' (ov b L v s) = ov b' L' v' s := rfl

theorem ov_repeatN (b : ByteArray) (L : Nat) (v : Option Nat) (s : St) (n : Nat) :
    (ov b L v s).repeatN n = ov b L v (s.repeatN n) := rfl

theorem ov_put (b : ByteArray) (L : Nat) (v : Option Nat) (s : St) (x : UInt8) :
    (ov b L v s).put x = ov b L v (s.put x) := rfl

theorem doWrite_ok_transport (p : Pending) (s u : St) (b b' : ByteArray) (L L' : Nat) (v v' : Option Nat)
    (hL : L ≤ L') (hpos : s.dp.pos ≤ L) (h : doWrite p (ov b L v s) = .ok () u) :
    doWrite p (ov b' L' v' s) = .ok () (ov b' L' v' u) := by
  cases p with
  | none => 
    have : u = ov b L v s := by injection h with _ h2; exact h2.symm
    subst this; rfl
  | stuck =>
    have : u = ov b L v s := by injection h with _ h2; exact h2.symm
    subst this; rfl
  | litWrite sym =>
    have h' : (if s.dp.pos == L then EStateM.Result.error (Exit.outFull (.litWrite sym)) (ov b L v s)
               else .ok () ((ov b L v s).put (UInt8.ofNat sym))) = .ok () u := h
    show (if s.dp.pos == L' then EStateM.Result.error (Exit.outFull (.litWrite sym)) (ov b' L' v' s)
               else .ok () ((ov b' L' v' s).put (UInt8.ofNat sym))) = _
    by_cases hl : s.dp.pos = L
    · simp [hl] at h'
    · have hl' : s.dp.pos ≠ L' := by omega
      have hb : (s.dp.pos == L) = false := by simpa using hl
      have hb' : (s.dp.pos == L') = false := by simpa using hl'
      simp only [hb, hb'] at h' ⊢
      injection h' with _ h2
      subst h2; rfl
  | shortRep =>
    have h' : (if s.dp.pos == L then EStateM.Result.error (Exit.outFull .shortRep) (ov b L v s)
               else .ok () ((ov b L v s).put ((ov b L v s).dictGet s.rep0))) = .ok () u := h
    show (if s.dp.pos == L' then EStateM.Result.error (Exit.outFull .shortRep) (ov b' L' v' s)
               else .ok () ((ov b' L' v' s).put ((ov b' L' v' s).dictGet s.rep0))) = _
    by_cases hl : s.dp.pos = L
    · simp [hl] at h'
    · have hl' : s.dp.pos ≠ L' := by omega
      have hb : (s.dp.pos == L) = false := by simpa using hl
      have hb' : (s.dp.pos == L') = false := by simpa using hl'
      simp only [hb, hb'] at h' ⊢
      injection h' with _ h2
      subst h2; rfl
  | copy len =>
    have h' : (if len - min (L - s.dp.pos) len != 0
               then EStateM.Result.error (Exit.outFull (.copy (len - min (L - s.dp.pos) len))) ((ov b L v s).repeatN (min (L - s.dp.pos) len))
               else .ok () ((ov b L v s).repeatN (min (L - s.dp.pos) len))) = .ok () u := h
    show (if len - min (L' - s.dp.pos) len != 0
               then EStateM.Result.error (Exit.outFull (.copy (len - min (L' - s.dp.pos) len))) ((ov b' L' v' s).repeatN (min (L' - s.dp.pos) len))
               else .ok () ((ov b' L' v' s).repeatN (min (L' - s.dp.pos) len))) = _
    by_cases hz : len - min (L - s.dp.pos) len = 0
    · have hz' : len - min (L' - s.dp.pos) len = 0 := by simp only [Nat.min_def] at hz ⊢; split at hz <;> split <;> omega
      have hm : min (L' - s.dp.pos) len = min (L - s.dp.pos) len := by simp only [Nat.min_def] at hz ⊢; split at hz <;> split <;> omega
      have hb : (len - min (L - s.dp.pos) len != 0) = false := by simp [hz]
      have hb' : (len - min (L' - s.dp.pos) len != 0) = false := by simp [hz']
      simp only [hb, hb'] at h' ⊢
      injection h' with _ h2
      subst h2; rw [hm]; rfl
    · have hb : (len - min (L - s.dp.pos) len != 0) = true := by simp [hz]
      simp [hb] at h'

theorem doWrite_full_transport (p q : Pending) (s u : St) (b b' : ByteArray) (L L' : Nat) (v v' : Option Nat)
    (hL : L ≤ L') (hpos : s.dp.pos ≤ L) (h : doWrite p (ov b L v s) = .error (.outFull q) u) :
    doWrite p (ov b' L' v' s) = doWrite q (ov b' L' v' u) := by
  cases p with
  | none => cases h
  | stuck => cases h
  | litWrite sym =>
    have h' : (if s.dp.pos == L then EStateM.Result.error (Exit.outFull (.litWrite sym)) (ov b L v s)
               else .ok () ((ov b L v s).put (UInt8.ofNat sym))) = .error (.outFull q) u := h
    by_cases hl : s.dp.pos = L
    · have hb : (s.dp.pos == L) = true := by simpa using hl
      simp only [hb, if_true] at h'
      injection h' with h1 h2
      injection h1 with h1
      subst h1; subst h2; rfl
    · have hb : (s.dp.pos == L) = false := by simpa using hl
      simp [hb] at h'
  | shortRep =>
    have h' : (if s.dp.pos == L then EStateM.Result.error (Exit.outFull .shortRep) (ov b L v s)
               else .ok () ((ov b L v s).put ((ov b L v s).dictGet s.rep0))) = .error (.outFull q) u := h
    by_cases hl : s.dp.pos = L
    · have hb : (s.dp.pos == L) = true := by simpa using hl
      simp only [hb, if_true] at h'
      injection h' with h1 h2
      injection h1 with h1
      subst h1; subst h2; rfl
    · have hb : (s.dp.pos == L) = false := by simpa using hl
      simp [hb] at h'
  | copy len =>
    have h' : (if len - min (L - s.dp.pos) len != 0
               then EStateM.Result.error (Exit.outFull (.copy (len - min (L - s.dp.pos) len))) ((ov b L v s).repeatN (min (L - s.dp.pos) len))
               else .ok () ((ov b L v s).repeatN (min (L - s.dp.pos) len))) = .error (.outFull q) u := h
    by_cases hz : len - min (L - s.dp.pos) len = 0
    · have hb : (len - min (L - s.dp.pos) len != 0) = false := by simp [hz]
      simp [hb] at h'
    · have hb : (len - min (L - s.dp.pos) len != 0) = true := by simp [hz]
      simp only [hb, if_true] at h'
      injection h' with h1 h2
      injection h1 with h1
      subst h1; subst h2
      generalize hleft : min (L - s.dp.pos) len = left at *
      have hupos : (s.repeatN left).dp.pos = s.dp.pos + left := rfl
      show (if len - min (L' - s.dp.pos) len != 0
               then EStateM.Result.error (Exit.outFull (.copy (len - min (L' - s.dp.pos) len))) ((ov b' L' v' s).repeatN (min (L' - s.dp.pos) len))
               else .ok () ((ov b' L' v' s).repeatN (min (L' - s.dp.pos) len))) =
           (if (len - left) - min (L' - (s.dp.pos + left)) (len - left) != 0
               then EStateM.Result.error (Exit.outFull (.copy ((len - left) - min (L' - (s.dp.pos + left)) (len - left))))
                  ((ov b' L' v' ((ov b L v s).repeatN left)).repeatN (min (L' - (s.dp.pos + left)) (len - left)))
               else .ok () ((ov b' L' v' ((ov b L v s).repeatN left)).repeatN (min (L' - (s.dp.pos + left)) (len - left))))
      have hm : min (L' - s.dp.pos) len = left + min (L' - (s.dp.pos + left)) (len - left) := by
        rw [← hleft]; simp only [Nat.min_def]; repeat' split
        all_goals omega
      have hst : (ov b' L' v' ((ov b L v s).repeatN left)).repeatN (min (L' - (s.dp.pos + left)) (len - left))
          = (ov b' L' v' s).repeatN (min (L' - s.dp.pos) len) := by
        rw [hm, ← repeatN_add]; rfl
      have hlen : len - left - min (L' - (s.dp.pos + left)) (len - left) = len - min (L' - s.dp.pos) len := by
        rw [hm]; omega
      rw [hst, hlen]

theorem doWrite_exits (p : Pending) (s u : St) (e : Exit) (h : doWrite p s = .error e u) :
    ∃ q, e = .outFull q ∧ (q ≠ .none ∧ q ≠ .stuck) ∧ (s.dp.pos ≤ s.dp.limit → u.dp.pos = s.dp.limit) := by
  cases p with
  | none => cases h
  | stuck => cases h
  | litWrite sym =>
    have h' : (if s.dp.pos == s.dp.limit then EStateM.Result.error (Exit.outFull (.litWrite sym)) s
               else .ok () (s.put (UInt8.ofNat sym))) = .error e u := h
    by_cases hl : s.dp.pos = s.dp.limit
    · have hb : (s.dp.pos == s.dp.limit) = true := by simpa using hl
      simp only [hb, if_true] at h'
      injection h' with h1 h2
      subst h1; subst h2
      exact ⟨_, rfl, ⟨by simp, by simp⟩, fun _ => hl⟩
    · have hb : (s.dp.pos == s.dp.limit) = false := by simpa using hl
      simp [hb] at h'
  | shortRep =>
    have h' : (if s.dp.pos == s.dp.limit then EStateM.Result.error (Exit.outFull .shortRep) s
               else .ok () (s.put (s.dictGet s.rep0))) = .error e u := h
    by_cases hl : s.dp.pos = s.dp.limit
    · have hb : (s.dp.pos == s.dp.limit) = true := by simpa using hl
      simp only [hb, if_true] at h'
      injection h' with h1 h2
      subst h1; subst h2
      exact ⟨_, rfl, ⟨by simp, by simp⟩, fun _ => hl⟩
    · have hb : (s.dp.pos == s.dp.limit) = false := by simpa using hl
      simp [hb] at h'
  | copy len =>
    have h' : (if len - min (s.dp.limit - s.dp.pos) len != 0
               then EStateM.Result.error (Exit.outFull (.copy (len - min (s.dp.limit - s.dp.pos) len))) (s.repeatN (min (s.dp.limit - s.dp.pos) len))
               else .ok () (s.repeatN (min (s.dp.limit - s.dp.pos) len))) = .error e u := h
    by_cases hz : len - min (s.dp.limit - s.dp.pos) len = 0
    · have hb : (len - min (s.dp.limit - s.dp.pos) len != 0) = false := by simp [hz]
      simp [hb] at h'
    · have hb : (len - min (s.dp.limit - s.dp.pos) len != 0) = true := by simp [hz]
      simp only [hb, if_true] at h'
      injection h' with h1 h2
      subst h1; subst h2
      refine ⟨_, rfl, ⟨by simp, by simp⟩, ?_⟩
      intro hle
      show s.dp.pos + min (s.dp.limit - s.dp.pos) len = s.dp.limit
      simp only [Nat.min_def] at hz ⊢; split at hz <;> split <;> omega

theorem doWrite_frame (p : Pending) (s : St) :
    resSt (doWrite p s) = { s with hist := (resSt (doWrite p s)).hist,
                                   dp := { s.dp with pos := (resSt (doWrite p s)).dp.pos, full := (resSt (doWrite p s)).dp.full } } := by
  cases p with
  | none => rfl
  | stuck => rfl
  | litWrite sym =>
    have h : doWrite (.litWrite sym) s = (if s.dp.pos == s.dp.limit then EStateM.Result.error (Exit.outFull (.litWrite sym)) s
               else .ok () (s.put (UInt8.ofNat sym))) := rfl
    cases hb : (s.dp.pos == s.dp.limit) <;> (rw [hb] at h; rw [h]; rfl)
  | shortRep =>
    have h : doWrite .shortRep s = (if s.dp.pos == s.dp.limit then EStateM.Result.error (Exit.outFull .shortRep) s
               else .ok () (s.put (s.dictGet s.rep0))) := rfl
    cases hb : (s.dp.pos == s.dp.limit) <;> (rw [hb] at h; rw [h]; rfl)
  | copy len =>
    have h : doWrite (.copy len) s = (if len - min (s.dp.limit - s.dp.pos) len != 0
               then EStateM.Result.error (Exit.outFull (.copy (len - min (s.dp.limit - s.dp.pos) len))) (s.repeatN (min (s.dp.limit - s.dp.pos) len))
               else .ok () (s.repeatN (min (s.dp.limit - s.dp.pos) len))) := rfl
    cases hb : (len - min (s.dp.limit - s.dp.pos) len != 0) <;> (rw [hb] at h; rw [h]; rfl)

/-! ### rc_read_init -/

theorem rcReadInitN_ov_succ (k : Nat) (s : St) (b : ByteArray) (L : Nat) (v : Option Nat) :
    rcReadInitN (k + 1) (ov b L v s) =
      if h : s.inPos < b.size then
        if (k + 1 == 5 && b[s.inPos] != 0) = true then .error .dataError (ov b L v s)
        else rcReadInitN k (ov b L v { s with code := ((Rc.mk s.range s.code).initByte (b[s.inPos]).toNat).code,
                                              inPos := s.inPos + 1, initLeft := k })
      else .ok false (ov b L v s) := rfl

theorem rcReadInitN_transport : ∀ (n : Nat) (s : St) (b b' : ByteArray) (L L' : Nat) (v v' : Option Nat),
    Agree b.size b b' → s.inPos ≤ b.size → (∀ t, rcReadInitN n (ov b L v s) ≠ .ok false t) →
    rcReadInitN n (ov b' L' v' s) = mapSt (ov b' L' v') (rcReadInitN n (ov b L v s))
  | 0, s, b, b', L, L', v, v', _, _, _ => rfl
  | k + 1, s, b, b', L, L', v, v', hag, hpos, hne => by
    rw [rcReadInitN_ov_succ] at hne
    rw [rcReadInitN_ov_succ, rcReadInitN_ov_succ]
    by_cases hb : s.inPos < b.size
    · have hb' : s.inPos < b'.size := Nat.lt_of_lt_of_le hb hag.le'
      have hbyte := hag.eq s.inPos hb hb' hb
      rw [dif_pos hb] at hne
      rw [dif_pos hb, dif_pos hb', ← hbyte]
      by_cases hc : (k + 1 == 5 && b[s.inPos] != 0) = true
      · rw [if_pos hc, if_pos hc]; rfl
      · rw [if_neg hc] at hne
        rw [if_neg hc, if_neg hc]
        exact rcReadInitN_transport k _ b b' L L' v v' hag (by show s.inPos + 1 ≤ b.size; omega) hne
    · rw [dif_neg hb] at hne
      exact absurd rfl (hne _)

theorem rcReadInit_transport (s : St) (b b' : ByteArray) (L L' : Nat) (v v' : Option Nat)
    (hag : Agree b.size b b') (hpos : s.inPos ≤ b.size) (hne : ∀ t, rcReadInit (ov b L v s) ≠ .ok false t) :
    rcReadInit (ov b' L' v' s) = mapSt (ov b' L' v') (rcReadInit (ov b L v s)) :=
  rcReadInitN_transport s.initLeft s b b' L L' v v' hag hpos hne

theorem rcReadInitN_absorb : ∀ (n : Nat) (s t : St) (b b' : ByteArray) (L L' : Nat) (v v' : Option Nat),
    Agree b.size b b' → s.inPos ≤ b.size → s.initLeft = n → rcReadInitN n (ov b L v s) = .ok false t →
    rcReadInitN n (ov b' L' v' s) = rcReadInitN t.initLeft (ov b' L' v' t)
  | 0, s, t, b, b', L, L', v, v', _, _, _, h => by
    have h' : (EStateM.Result.ok true (ov b L v s) : EStateM.Result Exit St Bool) = .ok false t := h
    injection h' with h1 _
    cases h1
  | k + 1, s, t, b, b', L, L', v, v', hag, hpos, hin, h => by
    rw [rcReadInitN_ov_succ] at h
    by_cases hb : s.inPos < b.size
    · have hb' : s.inPos < b'.size := Nat.lt_of_lt_of_le hb hag.le'
      have hbyte := hag.eq s.inPos hb hb' hb
      rw [dif_pos hb] at h
      rw [rcReadInitN_ov_succ, dif_pos hb', ← hbyte]
      by_cases hc : (k + 1 == 5 && b[s.inPos] != 0) = true
      · rw [if_pos hc] at h; cases h
      · rw [if_neg hc] at h
        rw [if_neg hc]
        exact rcReadInitN_absorb k _ t b b' L L' v v' hag (by show s.inPos + 1 ≤ b.size; omega) rfl h
    · rw [dif_neg hb] at h
      injection h with _ h2
      subst h2
      show _ = rcReadInitN s.initLeft (ov b' L' v' s)
      rw [hin]

theorem rcReadInit_absorb (s t : St) (b b' : ByteArray) (L L' : Nat) (v v' : Option Nat)
    (hag : Agree b.size b b') (hpos : s.inPos ≤ b.size) (h : rcReadInit (ov b L v s) = .ok false t) :
    rcReadInit (ov b' L' v' s) = rcReadInit (ov b' L' v' t) :=
  rcReadInitN_absorb s.initLeft s t b b' L L' v v' hag hpos rfl h

theorem rcReadInitN_frame : ∀ (n : Nat) (s : St),
    resSt (rcReadInitN n s) = { s with code := (resSt (rcReadInitN n s)).code, inPos := (resSt (rcReadInitN n s)).inPos,
                                            initLeft := (resSt (rcReadInitN n s)).initLeft }
    ∧ s.inPos ≤ (resSt (rcReadInitN n s)).inPos
    ∧ (s.inPos ≤ s.inp.size → (resSt (rcReadInitN n s)).inPos ≤ s.inp.size)
    ∧ (s.initLeft = n → ∀ t, rcReadInitN n s = .ok true t → t.initLeft = 0)
  | 0, s => by
    refine ⟨rfl, Nat.le_refl _, id, ?_⟩
    intro h t e
    have e' : (EStateM.Result.ok true s : EStateM.Result Exit St Bool) = .ok true t := e
    injection e' with _ h2
    rw [← h2]; exact h
  | k + 1, s => by
    have e : s = ov s.inp s.dp.limit s.uncomp s := rfl
    have hs := rcReadInitN_ov_succ k s s.inp s.dp.limit s.uncomp
    rw [← e] at hs
    by_cases hb : s.inPos < s.inp.size
    · rw [dif_pos hb] at hs
      by_cases hc : (k + 1 == 5 && s.inp[s.inPos] != 0) = true
      · rw [if_pos hc] at hs
        rw [hs]
        refine ⟨rfl, Nat.le_refl _, id, ?_⟩
        intro _ t e; cases e
      · rw [if_neg hc] at hs
        rw [hs]
        generalize hs' : (ov s.inp s.dp.limit s.uncomp { s with code := ((Rc.mk s.range s.code).initByte (s.inp[s.inPos]).toNat).code, inPos := s.inPos + 1, initLeft := k }) = s' at hs
        have e1 : s'.inPos = s.inPos + 1 := by rw [← hs']; rfl
        have e2 : s'.inp = s.inp := by rw [← hs']; rfl
        have e3 : s'.initLeft = k := by rw [← hs']; rfl
        have ih := rcReadInitN_frame k s'
        have e4 : ∀ c p i, ({ s' with code := c, inPos := p, initLeft := i } : St) = { s with code := c, inPos := p, initLeft := i } := by
          intro c p i; rw [← hs']; rfl
        rw [e4] at ih
        generalize rcReadInitN k s' = r at ih ⊢
        obtain ⟨i1, i2, i3, i4⟩ := ih
        refine ⟨i1, ?_, ?_, ?_⟩
        · omega
        · intro _
          rw [← e2]; exact i3 (by rw [e1, e2]; omega)
        · intro _; exact i4 e3
    · rw [dif_neg hb] at hs
      rw [hs]
      refine ⟨rfl, Nat.le_refl _, id, ?_⟩
      intro _ t e; cases e

theorem rcReadInit_frame (s : St) :
    resSt (rcReadInit s) = { s with code := (resSt (rcReadInit s)).code, inPos := (resSt (rcReadInit s)).inPos,
                                    initLeft := (resSt (rcReadInit s)).initLeft }
    ∧ s.inPos ≤ (resSt (rcReadInit s)).inPos
    ∧ (s.inPos ≤ s.inp.size → (resSt (rcReadInit s)).inPos ≤ s.inp.size)
    ∧ (∀ t, rcReadInit s = .ok true t → t.initLeft = 0) := by
  have h := rcReadInitN_frame s.initLeft s
  exact ⟨h.1, h.2.1, h.2.2.1, h.2.2.2 rfl⟩

/-! ### the resumable loop computes the one-shot loop's result (plus the saved resume point) -/

theorem symStepR_fst (ev mf : Bool) (s : St) : (symStepR ev mf s).1 = symStep ev mf s := by
  unfold symStepR
  show _ = EStateM.bind (symPrelude ev mf) _ s
  unfold EStateM.bind
  cases h1 : symPrelude ev mf s with
  | error e t => rfl
  | ok ev' t =>
    show (symBodyR ev' t).1 = EStateM.bind (decodeSymbol ev') _ t
    unfold symBodyR EStateM.bind
    cases h2 : rcNormalize t with
    | error e t' =>
      rw [decodeSymbol_first ev' t t' e h2]
      obtain ⟨he, _⟩ := rcNormalize_starved t t' e h2
      subst he; rfl
    | ok u t' =>
      cases h3 : decodeSymbol ev' t with
      | error e t2 => cases e <;> rfl
      | ok act t2 =>
        show (match doWrite act t2 with
              | .error e u => ((.error e u : EStateM.Result Exit St Bool), (none : Option SymSnap))
              | .ok _ u => (.ok ev' u, none)).1 = EStateM.bind (doWrite act) _ t2
        unfold EStateM.bind
        cases h4 : doWrite act t2 <;> rfl

theorem symLoopR_fst : ∀ (fuel : Nat) (ev mf : Bool) (s : St), (symLoopR fuel ev mf s).1 = symLoop fuel ev mf s
  | 0, ev, mf, s => rfl
  | fuel + 1, ev, mf, s => by
    unfold symLoopR symLoop
    show _ = EStateM.bind (symStep ev mf) _ s
    unfold EStateM.bind
    rw [← symStepR_fst]
    rcases hR : symStepR ev mf s with ⟨r, k⟩
    cases r with
    | ok ev' t => exact symLoopR_fst fuel ev' mf t
    | error e t => rfl

theorem symLoopR_fuel_mono : ∀ (fuel k : Nat) (ev mf : Bool) (s : St),
    (∀ t, (symLoopR fuel ev mf s).1 ≠ .error .fuel t) → symLoopR (fuel + k) ev mf s = symLoopR fuel ev mf s
  | 0, k, ev, mf, s, h => absurd rfl (h s)
  | fuel + 1, k, ev, mf, s, h => by
    have e : fuel + 1 + k = (fuel + k) + 1 := by omega
    rw [e]
    unfold symLoopR at h ⊢
    rcases hR : symStepR ev mf s with ⟨r, q⟩
    rw [hR] at h
    cases r with
    | ok ev' t => exact symLoopR_fuel_mono fuel k ev' mf t h
    | error e t => rfl

theorem symLoopR_exits (fuel : Nat) (ev mf : Bool) (s : St) (h : s.dp.pos ≤ s.dp.limit) :
    (∀ a t, (symLoopR fuel ev mf s).1 ≠ .ok a t)
    ∧ (s.dp.limit - s.dp.pos < fuel → ∀ t, (symLoopR fuel ev mf s).1 ≠ .error .fuel t) := by
  rw [symLoopR_fst]
  have hs := symLoop_spec fuel ev mf s h
  exact ⟨hs.2.1, hs.2.2⟩

end XzVerif.LzmaR
