/-
  Slicing independence of the resumable LZMA decoder model, "needs more input" half: a call of the LZ layer that returned LZMA_OK
  with spare output room (so: for lack of input), called again with the same input and more room, changes nothing; hence a sliced
  run that has been offered all the input and still has spare room equals the call with the whole input and any larger room.
  ASSUMES `CodeAbsorb P code` (Lemmas/LzmaResumeDefs.lean) and `CodeIdle P code` (Lemmas/LzmaResumeIdleDefs.lean); same restrictions
  as Lemmas/LzmaResumeTop.lean (no dictionary wrap, `FreeRoom`). Core Lean only.
-/
import XzVerif.Lemmas.LzmaResumeTop
import XzVerif.Lemmas.LzmaResumeIdleDefs

namespace XzVerif.LzmaR
open XzVerif.RangeDec XzVerif.LzDict XzVerif.Lzma XzVerif.Lzma2

/-- `dict.full` is in step with `dict.pos` while the dictionary has not wrapped -/
def FullOk (r : RSt) : Prop := r.s.dp.hasWrapped = false → r.s.dp.full + LZ_DICT_INIT_POS = r.s.dp.pos

theorem norm_pos {q q' : RSt} (h : q.norm = q'.norm) : q.s.dp.pos = q'.s.dp.pos := by
  have t : q.norm.s.dp.pos = q'.norm.s.dp.pos := congrArg (fun r : RSt => r.s.dp.pos) h
  exact t

theorem norm_size {q q' : RSt} (h : q.norm = q'.norm) : q.s.dp.size = q'.s.dp.size := by
  have t : q.norm.s.dp.size = q'.norm.s.dp.size := congrArg (fun r : RSt => r.s.dp.size) h
  exact t

/-- `FullOk` after one iteration of the LZ loop -/
theorem step_full {P : RSt → Prop} {code : RSt → Ret × RSt} (hc : CodeAbsorb P code) {M N : Nat} {r : RSt} {b : ByteArray}
    (hi : Inv P M r b N) (hf : FullOk r) :
    FullOk (post N (code (r.view b (r.s.dp.pos + (N - r.s.produced))))).1.2 := by
  have hp1 : P (r.view b (r.s.dp.pos + (N - r.s.produced))) := hc.frame_view r b _ hi.p hi.agree
  have sp := hc.spec _ hp1 hi.noReset hi.inPos (Nat.le_add_right _ _)
  generalize code (r.view b (r.s.dp.pos + (N - r.s.produced))) = c at sp ⊢
  obtain ⟨_, _, _, _, h5, h6⟩ := sp
  have h5' : c.2.s.dp.hasWrapped = r.s.dp.hasWrapped := h5
  have h6' : r.s.dp.hasWrapped = false → r.s.dp.full + LZ_DICT_INIT_POS = r.s.dp.pos →
      c.2.s.dp.full + LZ_DICT_INIT_POS = c.2.s.dp.pos := h6
  by_cases hr : c.2.s.dp.needReset = true
  · rw [post_reset hr]
    intro _
    rfl
  · have hr' : c.2.s.dp.needReset = false := by
      cases h : c.2.s.dp.needReset
      · rfl
      · exact absurd h hr
    rw [post_noreset hr']
    intro hw
    have hw' : r.s.dp.hasWrapped = false := h5'.symm.trans hw
    exact h6' hw' (hf hw')

/-- **(1)** LZ layer: LZMA_OK with spare output room; the next call with the same input and more room changes nothing. -/
theorem idle_aux {P : RSt → Prop} {code : RSt → Ret × RSt} (hc : CodeAbsorb P code) (hid : CodeIdle P code) {M N N' : Nat}
    {b : ByteArray} (hNN : N ≤ N') (hNM : N' ≤ M) :
    ∀ (fX fZ : Nat) (r : RSt), Inv P M r b N → FullOk r →
      (decodeBufferR code fX N (r.withInp b)).1 = .ok → (decodeBufferR code fX N (r.withInp b)).2.s.produced < N →
      (decodeBufferR code fZ N' ((decodeBufferR code fX N (r.withInp b)).2.withInp b)).1 ≠ .progError →
      Same (decodeBufferR code fZ N' ((decodeBufferR code fX N (r.withInp b)).2.withInp b)) (decodeBufferR code fX N (r.withInp b))
  | 0, _, r, _, _, hok, _, _ => by cases hok
  | fX + 1, fZ, r, hi, hf, hok, hsp, hZ => by
    have hnw : r.s.dp.pos + (N - r.s.produced) < r.s.dp.size := by have := hi.noWrap; omega
    have st := step_ok hc hi (Nat.le_trans hNN hNM)
    have sf := step_full hc hi hf
    have hidle := hid r b (r.s.dp.pos + (N - r.s.produced)) (r.s.dp.pos + (N' - r.s.produced)) hi.p hi.agree hi.inPos
      (Nat.le_add_right _ _) (by omega) hi.noReset hf
    rw [dB_succ code fX N (r.withInp b), prep_noWrap N r b hnw] at hok hsp hZ ⊢
    generalize code (r.view b (r.s.dp.pos + (N - r.s.produced))) = c at *
    cases hb : (post N c).2
    · simp only [hb, Bool.false_eq_true, if_false] at hok hsp hZ ⊢
      have hcok : c.1 = .ok := st.pret.symm.trans hok
      have hr' : c.2.s.dp.needReset = false := by
        cases h : c.2.s.dp.needReset
        · rfl
        · rw [post_reset h] at hb hsp
          have e3 : (rst c.2).s.produced = c.2.s.produced := rfl
          have hsp' : c.2.s.produced < N := hsp
          simp only [hcok, bne_self_eq_false, Bool.false_or, Bool.not_eq_false', beq_iff_eq] at hb
          omega
      have hp1 : (post N c).1 = c := by rw [post_noreset hr']
      rw [hp1] at hok hsp hZ ⊢
      have i3 := st.inv
      rw [hp1] at i3
      have hshN := st.shift N (Nat.le_refl _)
      have hshN' := st.shift N' hNN
      have hposL : c.2.s.dp.pos < r.s.dp.pos + (N - r.s.produced) := by omega
      have hS := hidle hcok hr' hposL
      have hnwZ : c.2.s.dp.pos + (N' - c.2.s.produced) < c.2.s.dp.size := by have := i3.noWrap; omega
      cases fZ with
      | zero => exact absurd rfl hZ
      | succ fZ =>
      rw [dB_succ code fZ N' (c.2.withInp b), prep_noWrap N' c.2 b hnwZ, hshN']
      generalize code (c.2.view b (r.s.dp.pos + (N' - r.s.produced))) = cZ at hS ⊢
      have hrZ : cZ.2.s.dp.needReset = false := (norm_needReset hS.2).trans hr'
      have hlt : cZ.2.s.dp.pos < cZ.2.s.dp.size := by
        rw [norm_pos hS.2, norm_size hS.2]; have := i3.noWrap; omega
      rw [post_noreset hrZ]
      simp only [hlt, decide_true, Bool.or_true, Bool.not_true, Bool.false_eq_true, if_false]
      exact hS
    · simp only [hb, if_true] at hok hsp hZ ⊢
      rw [← withInp_self st.pinp] at hok hsp hZ ⊢
      exact idle_aux hc hid hNN hNM fX fZ (post N c).1.2 st.inv sf hok hsp hZ

theorem lz_idle {P : RSt → Prop} {code : RSt → Ret × RSt} (hc : CodeAbsorb P code) (hid : CodeIdle P code) {M N N' : Nat}
    {b : ByteArray} (hNN : N ≤ N') (hNM : N' ≤ M) (r : RSt) (hi : Inv P M r b N) (hf : FullOk r) (fX fZ : Nat)
    (hfX : b.size - r.s.inPos < fX) (hfZ : b.size - (decodeBufferR code fX N (r.withInp b)).2.s.inPos < fZ)
    (hok : (decodeBufferR code fX N (r.withInp b)).1 = .ok) (hsp : (decodeBufferR code fX N (r.withInp b)).2.s.produced < N) :
    Same (decodeBufferR code fZ N' ((decodeBufferR code fX N (r.withInp b)).2.withInp b)) (decodeBufferR code fX N (r.withInp b)) := by
  have bX := dB_noProg hc (Nat.le_trans hNN hNM) fX r hi hfX
  have bZ := dB_noProg hc hNM fZ _ (bX.2.1.mono (agree_self (Nat.le_refl _)) hNN) hfZ
  exact idle_aux hc hid hNN hNM fX fZ r hi hf hok hsp bZ.1


/-- **(2)** `callR`: LZMA_OK with spare room; the call with the same input and any larger allowance gives the same result. -/
theorem callR_spare {P : RSt → Prop} {kind : Kind} (hc : CodeAbsorb P (codeOf kind)) (hid : CodeIdle P (codeOf kind))
    {M N N' : Nat} {b : ByteArray} (hNN : N ≤ N') (hNM : N' ≤ M) (r : RSt) (hi : Inv P M r b N) (hf : FullOk r)
    (hok : (callR kind b N r).1 = .ok) (hsp : (callR kind b N r).2.s.produced < N) :
    Eqv (callR kind b N' r) (callR kind b N r) := by
  have ha := callR_absorb hc hNN hNM (agree_self (Nat.le_refl b.size)) r hi (fun _ => Nat.lt_of_lt_of_le hsp hNN)
  have h1 := ha.1
  rw [if_pos hok] at h1
  have h2 : Same (callR kind b N' (callR kind b N r).2) (callR kind b N r) := by
    have := lz_idle hc hid hNN hNM r hi hf (decodeBufferFuel (r.withInp b).s N)
      (decodeBufferFuel ((callR kind b N r).2.withInp b).s N')
      (by show b.size - r.s.inPos < (b.size - r.s.inPos) + _ + 4; omega)
      (by show b.size - (callR kind b N r).2.s.inPos < (b.size - (callR kind b N r).2.s.inPos) + _ + 4; omega)
      hok hsp
    exact this
  exact h1.trans (Or.inl h2)

theorem fullOk_of_init (r0 : RSt) (dictSize presetLen : Nat) (hdp : r0.s.dp = DictPos.init dictSize presetLen) : FullOk r0 := by
  intro _
  rw [hdp]; unfold DictPos.init; simp only [LZ_DICT_INIT_POS]; omega

theorem fullOk_initLzma2R (dictSize : Nat) (preset : List UInt8) : FullOk (initLzma2R dictSize preset) :=
  fullOk_of_init _ dictSize preset.length rfl

theorem fullOk_initLzma1R (props : Props) (dictSize : Nat) (uncomp : Option Nat) (allowEopm : Bool) (preset : List UInt8) :
    FullOk (initLzma1R props dictSize uncomp allowEopm preset) :=
  fullOk_of_init _ dictSize preset.length rfl

/-! ### sliced runs -/

/-- what `SRun.spare` records -/
def SpareOk (input : List UInt8) (x : SRun) : Prop := x.spare = true → input.length ≤ x.avail ∧ x.r.s.produced < x.room

theorem spareOk_piece (kind : Kind) (input : List UInt8) (x : SRun) (k cap : Nat) : SpareOk input (runPieceR kind input x k cap) := by
  intro h
  have h' : (decide (input.length ≤ min (x.avail + k) input.length)
      && decide ((callR kind (toBuf (input.take (min (x.avail + k) input.length))) (x.room + cap) x.r).2.s.produced < x.room + cap)) = true := h
  simp only [Bool.and_eq_true, decide_eq_true_eq] at h'
  exact h'

theorem spareOk_run (kind : Kind) (input : List UInt8) : ∀ (sl : List (Nat × Nat)) (x : SRun), SpareOk input x →
    SpareOk input (runSlicedR kind input sl x)
  | [], _, h => h
  | (k, cap) :: sl, x, h => by
    unfold runSlicedR
    split
    · exact h
    · exact spareOk_run kind input sl _ (spareOk_piece kind input x k cap)

/-- a sliced run is settled: it ended, or it wants more input although it has seen all of it and has room to spare -/
def Settled (x : SRun) : Prop := x.ret ≠ .ok ∨ (x.ret = .ok ∧ x.spare = true)

section
variable {P : RSt → Prop} {kind : Kind} (hc : CodeAbsorb P (codeOf kind)) (hid : CodeIdle P (codeOf kind)) {M : Nat} {r0 : RSt}
  (input : List UInt8)
include hc hid

/-- **(3)** A sliced run that answered LZMA_OK after it had been offered all the input and with output room to spare equals the
    call with the whole input and any larger output allowance (within the no-wrap bound). -/
theorem sliced_spare_eq_whole (hi0 : Inv P M r0 ByteArray.empty 0) (hf0 : FullOk r0) (k cap : Nat) (sl : List (Nat × Nat))
    (hfr : FreeRoom kind input sl (runPieceR kind input { r := r0 } k cap))
    (hok : (runSlicedR kind input ((k, cap) :: sl) { r := r0 }).ret = .ok)
    (hspare : (runSlicedR kind input ((k, cap) :: sl) { r := r0 }).spare = true)
    (Nstar : Nat) (hN : (runSlicedR kind input ((k, cap) :: sl) { r := r0 }).room ≤ Nstar) (hM : Nstar ≤ M) :
    Eqv ((runSlicedR kind input ((k, cap) :: sl) { r := r0 }).ret, (runSlicedR kind input ((k, cap) :: sl) { r := r0 }).r)
      (callR kind (toBuf input) Nstar r0) := by
  have hE := sliced_eq_single hc input hi0 k cap sl hfr (Nat.le_trans hN hM)
  have hso : SpareOk input (runSlicedR kind input ((k, cap) :: sl) { r := r0 }) :=
    spareOk_run kind input _ _ (fun h => by cases h)
  generalize runSlicedR kind input ((k, cap) :: sl) { r := r0 } = X at hE hok hspare hN hso
  obtain ⟨hav, hpr⟩ := hso hspare
  rw [List.take_of_length_le hav] at hE
  have hS : Same (X.ret, X.r) (callR kind (toBuf input) X.room r0) := by
    rcases hE with h | h
    · exact h
    · have : X.ret = .dataError := h.1
      rw [hok] at this; cases this
  have hSok : (callR kind (toBuf input) X.room r0).1 = .ok := hS.1.symm.trans hok
  have hSsp : (callR kind (toBuf input) X.room r0).2.s.produced < X.room := by
    rw [← norm_produced hS.2]; exact hpr
  have h2 := callR_spare hc hid hN hM r0 (hi0.mono (agree_empty _) (Nat.zero_le _)) hf0 hSok hSsp
  exact hE.trans h2.symm

theorem sliced_settled_eq_whole (hi0 : Inv P M r0 ByteArray.empty 0) (hf0 : FullOk r0) (k cap : Nat) (sl : List (Nat × Nat))
    (hfr : FreeRoom kind input sl (runPieceR kind input { r := r0 } k cap))
    (hset : Settled (runSlicedR kind input ((k, cap) :: sl) { r := r0 }))
    (Nstar : Nat) (hN : (runSlicedR kind input ((k, cap) :: sl) { r := r0 }).room ≤ Nstar) (hM : Nstar ≤ M) :
    Eqv ((runSlicedR kind input ((k, cap) :: sl) { r := r0 }).ret, (runSlicedR kind input ((k, cap) :: sl) { r := r0 }).r)
      (callR kind (toBuf input) Nstar r0) := by
  rcases hset with h | ⟨h1, h2⟩
  · exact sliced_end_eq_whole hc input hi0 k cap sl hfr h Nstar hN hM
  · exact sliced_spare_eq_whole hc hid input hi0 hf0 k cap sl hfr h1 h2 Nstar hN hM

/-- Two settled sliced runs of the same decoder over the same input agree: same return code, same output, same number of
    consumed input bytes (unless the chunk-overrun error of `lzma2_decode` was raised in both). -/
theorem two_slicings_agree_settled_obs (hi0 : Inv P M r0 ByteArray.empty 0) (hf0 : FullOk r0) (k1 cap1 k2 cap2 : Nat)
    (sl1 sl2 : List (Nat × Nat))
    (hfr1 : FreeRoom kind input sl1 (runPieceR kind input { r := r0 } k1 cap1))
    (hfr2 : FreeRoom kind input sl2 (runPieceR kind input { r := r0 } k2 cap2))
    (hset1 : Settled (runSlicedR kind input ((k1, cap1) :: sl1) { r := r0 }))
    (hset2 : Settled (runSlicedR kind input ((k2, cap2) :: sl2) { r := r0 }))
    (hM1 : (runSlicedR kind input ((k1, cap1) :: sl1) { r := r0 }).room ≤ M)
    (hM2 : (runSlicedR kind input ((k2, cap2) :: sl2) { r := r0 }).room ≤ M)
    (hno : (runSlicedR kind input ((k1, cap1) :: sl1) { r := r0 }).r.overrun = false
      ∨ (runSlicedR kind input ((k2, cap2) :: sl2) { r := r0 }).r.overrun = false) :
    (runSlicedR kind input ((k1, cap1) :: sl1) { r := r0 }).ret = (runSlicedR kind input ((k2, cap2) :: sl2) { r := r0 }).ret
    ∧ (runSlicedR kind input ((k1, cap1) :: sl1) { r := r0 }).r.output = (runSlicedR kind input ((k2, cap2) :: sl2) { r := r0 }).r.output
    ∧ (runSlicedR kind input ((k1, cap1) :: sl1) { r := r0 }).r.s.inPos = (runSlicedR kind input ((k2, cap2) :: sl2) { r := r0 }).r.s.inPos := by
  have h1 := sliced_settled_eq_whole hc hid input hi0 hf0 k1 cap1 sl1 hfr1 hset1
    (max (runSlicedR kind input ((k1, cap1) :: sl1) { r := r0 }).room (runSlicedR kind input ((k2, cap2) :: sl2) { r := r0 }).room)
    (Nat.le_max_left _ _) (Nat.max_le.mpr ⟨hM1, hM2⟩)
  have h2 := sliced_settled_eq_whole hc hid input hi0 hf0 k2 cap2 sl2 hfr2 hset2
    (max (runSlicedR kind input ((k1, cap1) :: sl1) { r := r0 }).room (runSlicedR kind input ((k2, cap2) :: sl2) { r := r0 }).room)
    (Nat.le_max_right _ _) (Nat.max_le.mpr ⟨hM1, hM2⟩)
  rcases h1.trans h2.symm with h | h
  · exact ⟨h.1, norm_output h.2, norm_inPos h.2⟩
  · rcases hno with hn | hn
    · have := h.2.2.1; rw [hn] at this; cases this
    · have := h.2.2.2; rw [hn] at this; cases this

end

end XzVerif.LzmaR
