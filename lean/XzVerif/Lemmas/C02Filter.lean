/-
  Helper lemmas for C02: Filter Properties and Filter Flags round trips.
-/
import XzVerif.Lemmas.C02Bytes
import XzVerif.Lemmas.C02Dict
import XzVerif.Lemmas.C02Bound

namespace XzVerif.Container
open XzVerif XzVerif.Vli

/-- Options as the liblzma API can hold them: `uint32_t` fields, IDs that belong to the constructor. -/
def FilterOpts.wf : FilterOpts → Prop
  | .lzma1 id _ _ _ d => (id = FILTER_LZMA1 ∨ id = FILTER_LZMA1EXT) ∧ d < 4294967296
  | .lzma2 d => d < 4294967296
  | .bcj id off => id ∈ bcjIds ∧ off < 4294967296
  | .delta _ => True
  | .other _ => True

/-- What a decoder reports for the properties the encoder stored for `o`: the same options, except that an LZMA2
    dictionary size is rounded up to the next encodable size (never down). -/
def decodesTo : FilterOpts → FilterOpts → Prop
  | .lzma2 d, o' => ∃ s, o' = .lzma2 s ∧ max d 4096 ≤ s ∧ s ≤ UINT32_MAX
  | o, o' => o' = o

theorem vliEncodeSingle_ok (v avail : Nat) (b : List UInt8) (h : vliEncodeSingle v avail = .ok b) :
    b = vliEncode v ∧ v ≤ VLI_MAX ∧ b.length ≤ avail := by
  unfold vliEncodeSingle at h
  by_cases h0 : avail = 0
  · simp [h0] at h
  · simp only [h0, if_false] at h
    by_cases h1 : v > VLI_MAX
    · simp [h1] at h
    · simp only [h1, if_false] at h
      by_cases h2 : (vliEncode v).length > avail
      · simp [h2] at h
      · simp only [h2, if_false, Except.ok.injEq] at h
        subst h
        exact ⟨rfl, by omega, by omega⟩

theorem vliDecode_encode (v : Nat) (h : v ≤ VLI_MAX) (t : List UInt8) : vliDecode (vliEncode v ++ t) = some (v, t) := by
  unfold vliDecode vliEncode
  apply vliDecodeAux_encodeAux 8 v 0 t (by omega) _ (by omega)
  simp only [VLI_MAX] at h
  have : (128 : Nat) ^ (8 + 1) = 9223372036854775808 := by decide
  omega

theorem vliEncode_length (v : Nat) (h : v ≤ VLI_MAX) : (vliEncode v).length = vliSize v := by
  unfold vliEncode vliSize
  have : ¬ (v > VLI_MAX) := by omega
  simp only [this, if_false]
  exact vliEncodeAux_length 8 v

theorem bcjIds_cases (id : Nat) (h : id ∈ bcjIds) :
    id = 4 ∨ id = 5 ∨ id = 6 ∨ id = 7 ∨ id = 8 ∨ id = 10 ∨ id = 9 ∨ id = 11 := by
  simpa [bcjIds, FILTER_X86, FILTER_POWERPC, FILTER_IA64, FILTER_ARM, FILTER_ARMTHUMB, FILTER_ARM64, FILTER_SPARC, FILTER_RISCV] using h

theorem propsDecode_bcj (id : Nat) (h : id ∈ bcjIds) (props : List UInt8) :
    propsDecode id props = if props.length = 0 then .ok (.bcj id 0) else if props.length ≠ 4 then .error .optionsError
      else .ok (.bcj id (rd32 props)) := by
  rcases bcjIds_cases id h with h | h | h | h | h | h | h | h <;> subst h <;>
    simp [propsDecode, FILTER_LZMA1, FILTER_LZMA1EXT, FILTER_LZMA2, bcjIds, FILTER_X86, FILTER_POWERPC, FILTER_IA64,
      FILTER_ARM, FILTER_ARMTHUMB, FILTER_ARM64, FILTER_SPARC, FILTER_RISCV]

/-- Properties written by the encoder have the announced size and are decoded back to (a covering version of) the options. -/
theorem props_roundtrip (o : FilterOpts) (hw : o.wf) (hid : o.id < FILTER_RESERVED_START) (props : List UInt8)
    (h : propsEncode o = .ok props) :
    propsSize o = .ok props.length ∧ ∃ o', propsDecode o.id props = .ok o' ∧ decodesTo o o' := by
  cases o with
  | lzma1 id lc lp pb d =>
    simp only [FilterOpts.wf] at hw
    simp only [FilterOpts.id, FILTER_RESERVED_START] at hid
    rcases hw.1 with h1 | h1 <;> simp [h1, FILTER_LZMA1, FILTER_LZMA1EXT] at hid
  | lzma2 d =>
    simp only [FilterOpts.wf] at hw
    simp only [propsEncode, Except.ok.injEq] at h
    subst h
    obtain ⟨s, hs, hge, hle⟩ := lzma2Dict_covers d hw
    refine ⟨by simp [propsSize], .lzma2 s, ?_, s, rfl, hge, hle⟩
    have hb : lzma2DictEncode d ≤ 40 := by
      unfold lzma2DictDecode at hs
      by_cases h1 : lzma2DictEncode d / 64 % 4 ≠ 0
      · simp [h1] at hs
      · simp only [h1, if_false] at hs
        by_cases h2 : lzma2DictEncode d > 40
        · simp [h2] at hs
        · omega
    simp only [propsDecode, FilterOpts.id, FILTER_LZMA2, FILTER_LZMA1, FILTER_LZMA1EXT]
    simp only [List.length_singleton, List.getD_cons_zero]
    rw [u8_toNat_ofNat _ (by omega), hs]
    simp
  | bcj id off =>
    simp only [FilterOpts.wf] at hw
    simp only [propsEncode, Except.ok.injEq] at h
    subst h
    simp only [FilterOpts.id]
    rw [propsDecode_bcj id hw.1]
    by_cases h0 : off = 0
    · subst h0
      simp [propsSize, decodesTo]
    · refine ⟨by simp [propsSize, h0, le32_length], .bcj id off, ?_, rfl⟩
      have := rd32_le32 off hw.2 []
      simp only [List.append_nil] at this
      simp [h0, le32_length, this]
  | delta dist =>
    have h' : propsEncode (.delta dist) = if dist < 1 ∨ dist > 256 then .error .progError else .ok [UInt8.ofNat (dist - 1)] := rfl
    rw [h'] at h
    by_cases hd : dist < 1 ∨ dist > 256
    · rw [if_pos hd] at h; simp at h
    · rw [if_neg hd] at h
      simp only [Except.ok.injEq] at h
      subst h
      refine ⟨by simp [propsSize], .delta dist, ?_, rfl⟩
      simp only [propsDecode, FilterOpts.id, FILTER_DELTA, FILTER_LZMA2, FILTER_LZMA1, FILTER_LZMA1EXT, bcjIds,
        FILTER_X86, FILTER_POWERPC, FILTER_IA64, FILTER_ARM, FILTER_ARMTHUMB, FILTER_ARM64, FILTER_SPARC, FILTER_RISCV]
      simp only [List.length_singleton, List.getD_cons_zero]
      rw [u8_toNat_ofNat _ (by omega)]
      have : dist - 1 + 1 = dist := by omega
      simp [this]
  | other id => simp [propsEncode] at h

/-- Inversion + round trip for `lzma_filter_flags_encode`: on success the bytes are ID, size, properties; they fit;
    and `lzma_filter_flags_decode` reads exactly them back, leaving whatever follows. -/
theorem filterFlags_roundtrip (o : FilterOpts) (hw : o.wf) (avail : Nat) (bs : List UInt8)
    (h : filterFlagsEncodeOpts o avail = .ok bs) :
    ∃ props o', propsEncode o = .ok props ∧ bs = filterFlagsEncode ⟨o.id, props⟩ ∧ bs.length ≤ avail
      ∧ propsDecode o.id props = .ok o' ∧ decodesTo o o'
      ∧ ∀ t, filterFlagsDecode (bs ++ t) = .ok (⟨o.id, props⟩, t) := by
  unfold filterFlagsEncodeOpts at h
  by_cases hid : o.id ≥ FILTER_RESERVED_START
  · simp [hid] at h
  · simp only [hid, if_false] at h
    cases h1 : vliEncodeSingle o.id avail with
    | error e => simp [h1] at h
    | ok idb =>
      simp only [h1] at h
      obtain ⟨hidb, hidle, hidlen⟩ := vliEncodeSingle_ok _ _ _ h1
      cases h2 : propsSize o with
      | error e => simp [h2] at h
      | ok ps =>
        simp only [h2] at h
        cases h3 : vliEncodeSingle ps (avail - idb.length) with
        | error e => simp [h3] at h
        | ok szb =>
          simp only [h3] at h
          obtain ⟨hszb, hszle, hszlen⟩ := vliEncodeSingle_ok _ _ _ h3
          by_cases h4 : avail - idb.length - szb.length < ps
          · simp [h4] at h
          · simp only [h4, if_false] at h
            cases h5 : propsEncode o with
            | error e => simp [h5] at h
            | ok pr =>
              simp only [h5, Except.ok.injEq] at h
              obtain ⟨hps, o', hdec, hrel⟩ := props_roundtrip o hw (by omega) pr h5
              have hpslen : ps = pr.length := by
                rw [h2] at hps
                simpa using hps
              subst hpslen
              refine ⟨pr, o', rfl, ?_, ?_, hdec, hrel, ?_⟩
              · rw [← h, hidb, hszb]; simp [filterFlagsEncode]
              · rw [← h]; simp only [List.length_append]; omega
              · intro t
                rw [← h, hidb, hszb]
                unfold filterFlagsDecode
                simp only [List.append_assoc]
                rw [vliDecode_encode _ hidle]
                simp only [hid, if_false]
                rw [vliDecode_encode _ hszle]
                have hlen : ¬ ((pr ++ t).length < pr.length) := by simp
                simp only [hlen, if_false, List.take_left', List.drop_left', hdec]

end XzVerif.Container
