/-
  Generic lemmas about the block-wise BCJ filters (`Bcj.blocks`, `Bcj.blockCode`): byte packing, length, round trip
  from a per-block inverse, and stability under cutting the buffer at a block boundary.  Kernel proofs only.
-/
import XzVerif.Model.Bcj
namespace XzVerif.Bcj

theorem packLE_lt (l : List UInt8) : packLE l < 256 ^ l.length := by
  induction l with
  | nil => simp [packLE]
  | cons b r ih =>
    have hb : b.toNat < 256 := b.toNat_lt
    simp only [packLE, List.length_cons, Nat.pow_succ]
    omega

theorem unpackLE_length : ∀ (w n : Nat), (unpackLE w n).length = w := by
  intro w
  induction w with
  | zero => intro n; rfl
  | succ k ih => intro n; simp [unpackLE, ih]

theorem unpackLE_packLE (l : List UInt8) : unpackLE l.length (packLE l) = l := by
  induction l with
  | nil => rfl
  | cons b r ih =>
    have hb : b.toNat < 256 := b.toNat_lt
    simp only [List.length_cons, packLE, unpackLE]
    have h1 : (b.toNat + 256 * packLE r) % 256 = b.toNat := by omega
    have h2 : (b.toNat + 256 * packLE r) / 256 = packLE r := by omega
    rw [h1, h2, ih]
    simp

theorem packLE_unpackLE : ∀ (w n : Nat), packLE (unpackLE w n) = n % 256 ^ w := by
  intro w
  induction w with
  | zero => intro n; simp [unpackLE, packLE, Nat.mod_one]
  | succ k ih =>
    intro n
    simp only [unpackLE, packLE, ih]
    have : (UInt8.ofNat (n % 256)).toNat = n % 256 := by simp
    rw [this, Nat.pow_succ, Nat.mul_comm (256 ^ k) 256, Nat.mod_mul]

theorem pow_eq (w : Nat) : 2 ^ (8 * w) = 256 ^ w := by
  rw [Nat.pow_mul]

/-- bytes → block → bytes -/
theorem unpack_blk {w : Nat} {l : List UInt8} (h : l.length = w) :
    unpackLE w (BitVec.ofNat (8 * w) (packLE l)).toNat = l := by
  have hlt : packLE l < 2 ^ (8 * w) := by rw [pow_eq, ← h]; exact packLE_lt l
  rw [BitVec.toNat_ofNat, Nat.mod_eq_of_lt hlt, ← h]
  exact unpackLE_packLE l

/-- block → bytes → block -/
theorem blk_unpack {w : Nat} (v : BitVec (8 * w)) :
    BitVec.ofNat (8 * w) (packLE (unpackLE w v.toNat)) = v := by
  apply BitVec.eq_of_toNat_eq
  rw [BitVec.toNat_ofNat, packLE_unpackLE, ← pow_eq, Nat.mod_mod, Nat.mod_eq_of_lt v.isLt]

theorem blocks_length {w : Nat} (f : BitVec 32 → BitVec (8 * w) → BitVec (8 * w)) :
    ∀ (n : Nat) (pc : BitVec 32) (l : List UInt8), n * w ≤ l.length → (blocks w f n pc l).length = l.length := by
  intro n
  induction n with
  | zero => intro pc l _; rfl
  | succ k ih =>
    intro pc l h
    have hk : k * w ≤ (l.drop w).length := by
      rw [List.length_drop, Nat.succ_mul] at *; omega
    have hw : w ≤ l.length := by rw [Nat.succ_mul] at h; omega
    simp only [blocks, List.length_append, unpackLE_length, ih _ _ hk, List.length_drop]
    omega

/-- Round trip of whole buffers from a per-block inverse that holds for the program counters satisfying `P`. -/
theorem blocks_roundtrip {w : Nat} {f g : BitVec 32 → BitVec (8 * w) → BitVec (8 * w)} {P : BitVec 32 → Prop}
    (hP : ∀ pc, P pc → P (pc + BitVec.ofNat 32 w)) (hinv : ∀ pc v, P pc → g pc (f pc v) = v) :
    ∀ (n : Nat) (pc : BitVec 32) (l : List UInt8), P pc → n * w ≤ l.length →
      blocks w g n pc (blocks w f n pc l) = l := by
  intro n
  induction n with
  | zero => intro pc l _ _; rfl
  | succ k ih =>
    intro pc l hp h
    have hw : w ≤ l.length := by rw [Nat.succ_mul] at h; omega
    have hk : k * w ≤ (l.drop w).length := by
      rw [List.length_drop, Nat.succ_mul] at *; omega
    have htake : (l.take w).length = w := by rw [List.length_take]; omega
    simp only [blocks]
    have hU : ∀ x, (unpackLE w x).length = w := unpackLE_length w
    rw [List.take_left' (hU _), List.drop_left' (hU _), blk_unpack, hinv pc _ hp, unpack_blk htake,
      ih _ _ (hP pc hp) hk, List.take_append_drop]

/-- Cutting at a block boundary: the blocks of `a ++ b` are the blocks of `a` followed by those of `b`. -/
theorem blocks_append {w : Nat} (f : BitVec 32 → BitVec (8 * w) → BitVec (8 * w)) :
    ∀ (k m : Nat) (pc : BitVec 32) (a b : List UInt8), a.length = k * w →
      blocks w f (k + m) pc (a ++ b) = blocks w f k pc a ++ blocks w f m (pc + BitVec.ofNat 32 (k * w)) b := by
  intro k
  induction k with
  | zero =>
    intro m pc a b ha
    have : a = [] := List.eq_nil_of_length_eq_zero (by simpa using ha)
    subst this
    simp [blocks]
  | succ j ih =>
    intro m pc a b ha
    have hw : w ≤ a.length := by rw [ha, Nat.succ_mul]; omega
    have hd : (a.drop w).length = j * w := by rw [List.length_drop, ha, Nat.succ_mul]; omega
    have e : j + 1 + m = (j + m) + 1 := by omega
    rw [e]
    simp only [blocks]
    rw [List.take_append_of_le_length hw, List.drop_append_of_le_length hw, ih m _ _ b hd, List.append_assoc]
    congr 2
    rw [BitVec.add_assoc, ← BitVec.ofNat_add, Nat.succ_mul, Nat.add_comm w]

theorem blocks_zero_tail {w : Nat} (f : BitVec 32 → BitVec (8 * w) → BitVec (8 * w)) (pc : BitVec 32) (l : List UInt8) :
    blocks w f 0 pc l = l := rfl

/-! ### `blockCode` -/

theorem blockCode_processed {w : Nat} (f : BitVec 32 → BitVec (8 * w) → BitVec (8 * w)) (pc : BitVec 32) (l : List UInt8) :
    (blockCode w f pc l).2 = l.length - l.length % w := by
  simp only [blockCode]
  have := Nat.div_add_mod l.length w
  rw [Nat.mul_comm] at this
  omega

theorem blockCode_length {w : Nat} (f : BitVec 32 → BitVec (8 * w) → BitVec (8 * w)) (pc : BitVec 32) (l : List UInt8) :
    (blockCode w f pc l).1.length = l.length :=
  blocks_length f _ pc l (Nat.div_mul_le_self _ _)

theorem blockCode_roundtrip {w : Nat} {f g : BitVec 32 → BitVec (8 * w) → BitVec (8 * w)} {P : BitVec 32 → Prop}
    (hP : ∀ pc, P pc → P (pc + BitVec.ofNat 32 w)) (hinv : ∀ pc v, P pc → g pc (f pc v) = v)
    (pc : BitVec 32) (l : List UInt8) (hp : P pc) :
    (blockCode w g pc (blockCode w f pc l).1).1 = l := by
  simp only [blockCode]
  rw [blocks_length f _ pc l (Nat.div_mul_le_self _ _)]
  exact blocks_roundtrip hP hinv _ pc l hp (Nat.div_mul_le_self _ _)

/-- round trip, length, and equal processed counts in one statement -/
theorem blockCode_roundtrip3 {w : Nat} {f g : BitVec 32 → BitVec (8 * w) → BitVec (8 * w)} {P : BitVec 32 → Prop}
    (hP : ∀ pc, P pc → P (pc + BitVec.ofNat 32 w)) (hinv : ∀ pc v, P pc → g pc (f pc v) = v)
    (pc : BitVec 32) (l : List UInt8) (hp : P pc) :
    (blockCode w g pc (blockCode w f pc l).1).1 = l ∧ (blockCode w f pc l).1.length = l.length
      ∧ (blockCode w g pc (blockCode w f pc l).1).2 = (blockCode w f pc l).2 := by
  refine ⟨blockCode_roundtrip hP hinv pc l hp, blockCode_length f pc l, ?_⟩
  simp only [blockCode]
  rw [blocks_length f _ pc l (Nat.div_mul_le_self _ _)]

/-- Chunk stability: one call on `a ++ b` = a call on `a` (which leaves `|a| mod w` bytes unprocessed) followed by a
    call at `now_pos + processed` on the unprocessed bytes followed by `b`. -/
theorem blockCode_chunk {w : Nat} (hw : 0 < w) (f : BitVec 32 → BitVec (8 * w) → BitVec (8 * w)) (pc : BitVec 32)
    (a b : List UInt8) :
    let r1 := blockCode w f pc a
    let r2 := blockCode w f (pc + BitVec.ofNat 32 r1.2) (r1.1.drop r1.2 ++ b)
    blockCode w f pc (a ++ b) = (r1.1.take r1.2 ++ r2.1, r1.2 + r2.2) := by
  intro r1 r2
  -- split a into its whole blocks and the tail
  let k := a.length / w
  let a1 := a.take (k * w)
  let t := a.drop (k * w)
  have hkle : k * w ≤ a.length := Nat.div_mul_le_self _ _
  have ha1 : a1.length = k * w := by simp only [a1, List.length_take]; omega
  have hat : a = a1 ++ t := (List.take_append_drop _ _).symm
  have htl : t.length = a.length % w := by
    simp only [t, List.length_drop]
    have := Nat.div_add_mod a.length w
    rw [Nat.mul_comm] at this
    have hk : k * w = a.length / w * w := rfl
    omega
  have htlt : t.length < w := by rw [htl]; exact Nat.mod_lt _ hw
  -- first call: blocks of a1, tail untouched
  have hr1 : r1 = (blocks w f k pc a1 ++ t, k * w) := by
    show blockCode w f pc a = _
    simp only [blockCode]
    have : blocks w f (a.length / w) pc a = blocks w f k pc a1 ++ t := by
      have := blocks_append f k 0 pc a1 t ha1
      rw [Nat.add_zero, ← hat] at this
      rw [this]; rfl
    rw [this]
  have hb1 : (blocks w f k pc a1).length = k * w := by rw [blocks_length f k pc a1 (by omega), ha1]
  have hdrop : r1.1.drop r1.2 = t := by rw [hr1]; simp only; rw [List.drop_left' hb1]
  have htake : r1.1.take r1.2 = blocks w f k pc a1 := by rw [hr1]; simp only; rw [List.take_left' hb1]
  have hr12 : r1.2 = k * w := by rw [hr1]
  -- number of blocks of the whole
  have hdiv : (a ++ b).length / w = k + (t ++ b).length / w := by
    have e : (a ++ b).length = k * w + (t ++ b).length := by
      rw [hat]; simp only [List.length_append, ha1]; omega
    rw [e, Nat.add_comm, Nat.add_mul_div_right _ _ hw, Nat.add_comm]
  show blockCode w f pc (a ++ b) = _
  have hr2 : r2 = blockCode w f (pc + BitVec.ofNat 32 (k * w)) (t ++ b) := by
    show blockCode w f (pc + BitVec.ofNat 32 r1.2) (r1.1.drop r1.2 ++ b) = _
    rw [hdrop, hr12]
  rw [htake, hr12, hr2]
  simp only [blockCode, hdiv]
  have : a ++ b = a1 ++ (t ++ b) := by rw [hat, List.append_assoc];
  rw [this, blocks_append f k _ pc a1 (t ++ b) ha1, Nat.add_mul]

/-! ### small facts used by Props/C15 -/

theorem and_of_mod {k : Nat} (pc : BitVec 32) (hk : k ≤ 32) (h : pc.toNat % 2 ^ k = 0) :
    pc &&& BitVec.ofNat 32 (2 ^ k - 1) = 0#32 := by
  apply BitVec.eq_of_toNat_eq
  have hlt : 2 ^ k - 1 < 2 ^ 32 := by
    have : 2 ^ k ≤ 2 ^ 32 := Nat.pow_le_pow_right (by omega) hk
    have : 0 < 2 ^ k := Nat.two_pow_pos k
    omega
  rw [BitVec.toNat_and, BitVec.toNat_ofNat, Nat.mod_eq_of_lt hlt, Nat.and_two_pow_sub_one_eq_mod, h]
  rfl

theorem ia64_mask_lt (i : Nat) : ia64BranchTable.getD i 0 < 8 := by
  by_cases h : i < 32
  · have : ∀ j : Fin 32, ia64BranchTable.getD j.val 0 < 8 := by decide
    exact this ⟨i, h⟩
  · simp only [List.getD_eq_getElem?_getD]
    rw [List.getElem?_eq_none (by simp [ia64BranchTable]; omega)]
    decide

/-- a regenerated word grid `(pc, word, encoded, decoded)` agrees with a `*_code` model on 4-byte buffers -/
def gridOK (code : Bool → BitVec 32 → List UInt8 → List UInt8 × Nat) (g : List (Nat × Nat × Nat × Nat)) : Bool :=
  g.all fun (pc, w, e, d) =>
    packLE (code true (BitVec.ofNat 32 pc) (unpackLE 4 w)).1 == e && packLE (code false (BitVec.ofNat 32 pc) (unpackLE 4 w)).1 == d

end XzVerif.Bcj
