/-
  C13 `random_access`, part 3: the index of the file addresses the Blocks.

  For the file `fileOf xs` the index that `file_info_correct` yields is `expectedIndex (descs xs)`.  Here: what the BLOCK
  iteration of that list-of-records index shows (`mem_iterAll_block`), that the offsets it shows for Block `j` of Stream `i`
  are `coff xs i j` / `uoff xs i j` — the positions where the Block's bytes / the Block's data really are
  (`blockInfo_offsets`) — and the assembled statement over the specification-level index (`random_access_spec`,
  `random_access_locate_spec`).  Kernel proofs.
-/
import XzVerif.Lemmas.RandomAccessFile
import XzVerif.Lemmas.IndexLocate
import XzVerif.Lemmas.IndexIterSpec2

namespace XzVerif.RandomAccess
open XzVerif XzVerif.XzDecode XzVerif.Container

/-! ### BLOCK iteration of a list-of-records index -/

theorem mem_iterAll_block (I : Index.Index) (info : Index.Spec.IterInfo) :
    info ∈ Index.Spec.iterAll I 2 ↔ ∃ si bi s b, I[si]? = some s ∧ s.blocks[bi]? = some b
      ∧ info = ⟨Index.Spec.streamInfo I si s, some (Index.Spec.blockInfo I si s bi b)⟩ := by
  have h2 : Index.Spec.iterAll I 2 = (Index.Spec.positions I false).filterMap fun p => Index.Spec.infoAt I p.1 p.2 := by
    unfold Index.Spec.iterAll
    simp
  rw [h2, List.mem_filterMap]
  constructor
  · rintro ⟨y, hy, hinfo⟩
    obtain ⟨s, hs, hcase⟩ := (Index.Spec.mem_positions I false y).1 hy
    rcases hcase with ⟨_, hf, _⟩ | ⟨bi, hbi, hlt⟩
    · cases hf
    · obtain ⟨b, hb⟩ : ∃ b, s.blocks[bi]? = some b := ⟨s.blocks[bi], List.getElem?_eq_getElem hlt⟩
      refine ⟨y.1, bi, s, b, hs, hb, ?_⟩
      unfold Index.Spec.infoAt at hinfo
      rw [hs, hbi] at hinfo
      simp only [Option.getD_some, hb, Option.map_some, Option.some.injEq] at hinfo
      exact hinfo.symm
  · rintro ⟨si, bi, s, b, hs, hb, rfl⟩
    refine ⟨(si, some bi), ?_, ?_⟩
    · apply (Index.Spec.mem_positions I false _).2
      exact ⟨s, hs, Or.inr ⟨bi, rfl, (List.getElem?_eq_some_iff.1 hb).1⟩⟩
    · unfold Index.Spec.infoAt
      simp only [hs, Option.getD_some, hb, Option.map_some]

/-! ### sums over the index = lengths in the file -/

theorem index_take (xs : List XStream) (i : Nat) :
    (Index.expectedIndex (descs xs)).take i = Index.expectedIndex (descs (xs.take i)) := by
  simp [Index.expectedIndex, descs, List.map_take]

theorem index_get {xs : List XStream} {i : Nat} {x : XStream} (hx : xs[i]? = some x) :
    (Index.expectedIndex (descs xs))[i]? = some x.desc.streamRec := by
  simp [Index.expectedIndex, descs, hx]

theorem mem_take_of {α : Type} {l : List α} {i : Nat} {a : α} (h : a ∈ l.take i) : a ∈ l := List.mem_of_mem_take h

theorem rawFileSize_take {E : Env} {ign : Bool} {cap : Nat} {xs : List XStream} (hok : ∀ x ∈ xs, x.Ok)
    (hs : SeqFile E ign cap xs) (i : Nat) :
    Index.Spec.rawFileSize ((Index.expectedIndex (descs xs)).take i) = (fileOf (xs.take i)).length := by
  rw [index_take]
  have hall := descs_ok xs cap hok hs
  have : ∀ d ∈ descs (xs.take i), d.Ok := by
    intro d hd
    apply hall d
    simp only [descs, List.map_take] at hd ⊢
    exact mem_take_of hd
  exact (Index.fileBytes_length this).symm

theorem uncompressedSize_index : ∀ (ys : List XStream),
    Index.Spec.uncompressedSize (Index.expectedIndex (descs ys)) = (fileOut ys).length
  | [] => rfl
  | y :: r => by
    have ih := uncompressedSize_index r
    simp only [Index.Spec.uncompressedSize, Index.expectedIndex, descs, List.map_cons, List.sum_cons, fileOut,
      List.flatMap_cons, List.length_append, List.map_map] at ih ⊢
    rw [ih]
    have : (XStream.desc y).streamRec.uncompressedSize = y.out.length := by
      show Index.uncompSize (records y.check y.blocks) = (blocksOut y.blocks).length
      exact (blocksOut_length y.check y.blocks).symm
    rw [this]

theorem records_take (check : Nat) (Bs : List BlockDesc) (j : Nat) : (records check Bs).take j = records check (Bs.take j) := by
  simp [records, List.map_take]

theorem seqDec_take {E : Env} {check : Nat} {ign : Bool} : ∀ (Bs : List BlockDesc) (cap j : Nat),
    SeqDec E check ign cap Bs → SeqDec E check ign cap (Bs.take j)
  | _, _, 0, _ => by simp [SeqDec]
  | [], _, _ + 1, _ => by simp [SeqDec]
  | A :: r, cap, j + 1, hs => by
    simp only [List.take_succ_cons, SeqDec]
    exact ⟨hs.1, seqDec_take r _ j hs.2⟩

/-- **The offsets the index shows are where the Block is.**  For Block `j` of Stream `i` the Record is the Block's size
    pair, `compressed_file_offset` is the position of the Block's first byte in the file, `uncompressed_file_offset` the
    position of its data in the file's data, `uncompressed_size` the length of its data, `total_size` its length. -/
theorem blockInfo_offsets {E : Env} {ign : Bool} {cap : Nat} {xs : List XStream} (hok : ∀ x ∈ xs, x.Ok)
    (hs : SeqFile E ign cap xs) {i j : Nat} {x : XStream} {B : BlockDesc} (hx : xs[i]? = some x) (hB : x.blocks[j]? = some B) :
    let I := Index.expectedIndex (descs xs)
    let bi := Index.Spec.blockInfo I i x.desc.streamRec j (B.record x.check)
    x.desc.streamRec.blocks[j]? = some (B.record x.check)
    ∧ bi.compressedFileOffset = coff xs i j ∧ bi.uncompressedFileOffset = uoff xs i j
    ∧ bi.uncompressedSize = B.o.length ∧ bi.unpaddedSize = B.unpadded x.check ∧ bi.totalSize = B.bytes.length
    ∧ Index.Spec.ufo I i j = uoff xs i j := by
  intro I bi
  have hxm : x ∈ xs := List.mem_of_getElem? hx
  have hBm : B ∈ x.blocks := List.mem_of_getElem? hB
  have hsx := seqFile_stream xs cap i x hs hx
  have hdB := seqFile_at xs cap i j x B hs hx hB
  have hrec : x.desc.streamRec.blocks[j]? = some (B.record x.check) := by
    show (records x.check x.blocks)[j]? = _
    simp [records, hB]
  have hbs : Index.blocksSize (x.desc.streamRec.blocks.take j) = (blocksBytes (x.blocks.take j)).length := by
    show Index.blocksSize ((records x.check x.blocks).take j) = _
    rw [records_take]
    exact (blocksBytes_length (x.blocks.take j) _ (fun A hA => (hok x hxm).wf A (mem_take_of hA)) (seqDec_take _ _ j hsx)).symm
  have hus : Index.uncompSize (x.desc.streamRec.blocks.take j) = (blocksOut (x.blocks.take j)).length := by
    show Index.uncompSize ((records x.check x.blocks).take j) = _
    rw [records_take]
    exact (blocksOut_length x.check _).symm
  have hunc : Index.Spec.uncompressedSize (I.take i) = (fileOut (xs.take i)).length := by
    show Index.Spec.uncompressedSize ((Index.expectedIndex (descs xs)).take i) = _
    rw [index_take]; exact uncompressedSize_index _
  refine ⟨hrec, ?_, ?_, rfl, rfl, ?_, ?_⟩
  · show Index.Spec.rawFileSize (I.take i) + (Index.STREAM_HEADER_SIZE + Index.blocksSize (x.desc.streamRec.blocks.take j)) = _
    rw [rawFileSize_take hok hs i, hbs]
    unfold coff
    rw [hx]
    simp only [Option.map_some, Option.getD_some, Index.STREAM_HEADER_SIZE, STREAM_HEADER_SIZE]
    omega
  · show Index.Spec.uncompressedSize (I.take i) + Index.uncompSize (x.desc.streamRec.blocks.take j) = _
    rw [hunc, hus]
    unfold uoff
    rw [hx]
    simp only [Option.map_some, Option.getD_some]
  · show Index.vliCeil4 (B.unpadded x.check) = _
    exact (bytes_length ((hok x hxm).wf B hBm) hdB).symm
  · unfold Index.Spec.ufo
    rw [index_get hx, hunc]
    simp only [Option.map_some, Option.getD_some]
    rw [hus]
    unfold uoff
    rw [hx]
    simp only [Option.map_some, Option.getD_some]

/-! ### the statement over the list-of-records index -/

/-- everything the random-access theorem says about one Block `b` shown by the index (with the Stream Flags `flags`
    shown next to it): it is Block `j` of Stream `i` of the file; its offsets are the real positions; the Block decoder
    started at `compressed_file_offset` returns exactly the data range `[uncompressed_file_offset, + uncompressed_size)` -/
def BlockServed (E : Env) (ign : Bool) (cap : Nat) (xs : List XStream) (flags : Option Index.StreamFlags)
    (b : Index.Spec.BlockInfo) : Prop :=
  ∃ i j x B, xs[i]? = some x ∧ x.blocks[j]? = some B
    ∧ flags = some ⟨0, x.desc.bsz, x.check⟩
    ∧ b.compressedFileOffset = coff xs i j ∧ b.uncompressedFileOffset = uoff xs i j
    ∧ b.uncompressedSize = B.o.length ∧ b.unpaddedSize = B.unpadded x.check ∧ b.totalSize = B.bytes.length
    ∧ ((fileOut xs).drop b.uncompressedFileOffset).take b.uncompressedSize = B.o
    ∧ (∃ rest, (fileOf xs).drop b.compressedFileOffset = B.bytes ++ rest)
    ∧ B.DecodesAt E x.check ign (cap - b.uncompressedFileOffset)
    ∧ ∀ cap', B.DecodesAt E x.check ign cap' →
        blockAt E x.check ign ((fileOf xs).drop b.compressedFileOffset) cap'
          = { ret := .streamEnd, out := ((fileOut xs).drop b.uncompressedFileOffset).take b.uncompressedSize,
              consumed := b.totalSize, compressed := B.c.length }

theorem blockServed_of_pos (E : Env) (hloc : PayloadLocal E) (ign : Bool) (cap : Nat) {xs : List XStream}
    (hok : ∀ x ∈ xs, x.Ok) (hs : SeqFile E ign cap xs) {i j : Nat} {x : XStream} {B : BlockDesc} (hx : xs[i]? = some x)
    (hB : x.blocks[j]? = some B) :
    BlockServed E ign cap xs x.desc.streamRec.flags
      (Index.Spec.blockInfo (Index.expectedIndex (descs xs)) i x.desc.streamRec j (B.record x.check)) := by
  obtain ⟨hrec, h1, h2, h3, h4, h5, _⟩ := blockInfo_offsets hok hs hx hB
  have hxm : x ∈ xs := List.mem_of_getElem? hx
  have hBm : B ∈ x.blocks := List.mem_of_getElem? hB
  have hdx : x.desc.Ok := descs_ok xs cap hok hs _ (by simp only [descs]; exact List.mem_map_of_mem hxm)
  have hsl := out_slice hx hB
  obtain ⟨rest, hrest⟩ := drop_block hx hB hdx
  have hdB := seqFile_at xs cap i j x B hs hx hB
  have hwf := (hok x hxm).wf B hBm
  have hu : B.unpadded x.check ≤ Container.UNPADDED_SIZE_MAX := by
    have := ((hok x hxm).blocksOk.blocks (B.record x.check) (by
      show B.record x.check ∈ records x.check x.blocks
      exact List.mem_map_of_mem hBm)).2.1
    unfold Index.UNPADDED_SIZE_MAX at this; unfold Container.UNPADDED_SIZE_MAX; exact this
  refine ⟨i, j, x, B, hx, hB, rfl, h1, h2, h3, h4, h5, ?_, ?_, ?_, ?_⟩
  · rw [h2, h3]; exact hsl
  · rw [h1]; exact ⟨rest, hrest⟩
  · rw [h2]; exact hdB
  · intro cap' hd'
    rw [h1, hrest, h2, h3, hsl, h5]
    exact blockAt_complete E hloc x.check ign cap' B hwf hd' hu rest

/-- **Random access over the list-of-records index of the file**: (1) the whole-file decoder (LZMA_CONCATENATED) accepts
    the file and its output is the Blocks' data in file order; (2) every Block the BLOCK iteration of the index shows is
    served (`BlockServed`); (3) every Block of the file is shown. -/
theorem random_access_spec (E : Env) (hloc : PayloadLocal E) (fl : Flags) (hc : fl.concatenated = true) (cap : Nat)
    (xs : List XStream) (hne : xs ≠ []) (hok : ∀ x ∈ xs, x.Ok) (hs : SeqFile E fl.ignoreCheck cap xs) :
    ((xzDecode E fl (fileOf xs) cap).ret = .streamEnd ∧ (xzDecode E fl (fileOf xs) cap).out = fileOut xs
      ∧ (xzDecode E fl (fileOf xs) cap).consumed = (fileOf xs).length)
    ∧ (∀ info ∈ Index.Spec.iterAll (Index.expectedIndex (descs xs)) 2, ∀ b, info.block = some b →
        BlockServed E fl.ignoreCheck cap xs info.stream.flags b)
    ∧ (∀ i j x B, xs[i]? = some x → x.blocks[j]? = some B →
        ∃ info ∈ Index.Spec.iterAll (Index.expectedIndex (descs xs)) 2, ∃ b, info.block = some b
          ∧ b.compressedFileOffset = coff xs i j ∧ b.uncompressedFileOffset = uoff xs i j) := by
  refine ⟨xzDecode_complete E hloc fl _ cap _ _ (dvalidXz E fl hc xs cap hne hok hs), ?_, ?_⟩
  · intro info hinfo b hb
    obtain ⟨si, bi, s, blk, hsi, hbi, rfl⟩ := (mem_iterAll_block _ info).1 hinfo
    simp only [Option.some.injEq] at hb
    subst hb
    -- the Stream and the Block of the file behind the Records
    obtain ⟨x, hx, hsx⟩ : ∃ x, xs[si]? = some x ∧ s = x.desc.streamRec := by
      cases hxs : xs[si]? with
      | none => simp [Index.expectedIndex, descs, hxs] at hsi
      | some x => exact ⟨x, rfl, by rw [index_get hxs] at hsi; exact (Option.some.inj hsi).symm⟩
    subst hsx
    obtain ⟨B, hB, hblk⟩ : ∃ B, x.blocks[bi]? = some B ∧ blk = B.record x.check := by
      have hbi' : (records x.check x.blocks)[bi]? = some blk := hbi
      cases hBs : x.blocks[bi]? with
      | none => simp [records, hBs] at hbi'
      | some B => exact ⟨B, rfl, by simp [records, hBs] at hbi'; exact hbi'.symm⟩
    subst hblk
    exact blockServed_of_pos E hloc fl.ignoreCheck cap hok hs hx hB
  · intro i j x B hx hB
    obtain ⟨hrec, h1, h2, _⟩ := blockInfo_offsets hok hs hx hB
    refine ⟨⟨Index.Spec.streamInfo (Index.expectedIndex (descs xs)) i x.desc.streamRec,
        some (Index.Spec.blockInfo (Index.expectedIndex (descs xs)) i x.desc.streamRec j (B.record x.check))⟩,
      (mem_iterAll_block _ _).2 ⟨i, j, _, _, index_get hx, hrec, rfl⟩, _, rfl, h1, h2⟩

/-- **locate + decode**: for every offset `t` into the file's data, `lzma_index_iter_locate` (list-of-records level) shows
    a Block that is served, whose data range contains `t`; so the byte at `t` is byte `t - uncompressed_file_offset` of
    what the Block decoder returns at `compressed_file_offset`. -/
theorem random_access_locate_spec (E : Env) (hloc : PayloadLocal E) (ign : Bool) (cap : Nat)
    (xs : List XStream) (hok : ∀ x ∈ xs, x.Ok) (hs : SeqFile E ign cap xs) (t : Nat) (ht : t < (fileOut xs).length) :
    ∃ info b, Index.Spec.locate (Index.expectedIndex (descs xs)) t = some info ∧ info.block = some b
      ∧ BlockServed E ign cap xs info.stream.flags b
      ∧ b.uncompressedFileOffset ≤ t ∧ t < b.uncompressedFileOffset + b.uncompressedSize
      ∧ (((fileOut xs).drop b.uncompressedFileOffset).take b.uncompressedSize)[t - b.uncompressedFileOffset]? = (fileOut xs)[t]? := by
  have hlt : t < Index.Spec.uncompressedSize (Index.expectedIndex (descs xs)) := by rw [uncompressedSize_index]; exact ht
  obtain ⟨p, hp⟩ := Index.Spec.locatePos_some hlt
  obtain ⟨s, blk, hsi, hbi, hlo, hhi⟩ := Index.Spec.locatePos_contains hp
  obtain ⟨x, hx, hsx⟩ : ∃ x, xs[p.1]? = some x ∧ s = x.desc.streamRec := by
    cases hxs : xs[p.1]? with
    | none => simp [Index.expectedIndex, descs, hxs] at hsi
    | some x => exact ⟨x, rfl, by rw [index_get hxs] at hsi; exact (Option.some.inj hsi).symm⟩
  subst hsx
  obtain ⟨B, hB, hblk⟩ : ∃ B, x.blocks[p.2]? = some B ∧ blk = B.record x.check := by
    have hbi' : (records x.check x.blocks)[p.2]? = some blk := hbi
    cases hBs : x.blocks[p.2]? with
    | none => simp [records, hBs] at hbi'
    | some B => exact ⟨B, rfl, by simp [records, hBs] at hbi'; exact hbi'.symm⟩
  subst hblk
  obtain ⟨hrec, h1, h2, h3, _, _, hufo⟩ := blockInfo_offsets hok hs hx hB
  have hserved := blockServed_of_pos E hloc ign cap hok hs hx hB
  refine ⟨⟨Index.Spec.streamInfo (Index.expectedIndex (descs xs)) p.1 x.desc.streamRec,
      some (Index.Spec.blockInfo (Index.expectedIndex (descs xs)) p.1 x.desc.streamRec p.2 (B.record x.check))⟩,
    _, ?_, rfl, hserved, ?_, ?_, ?_⟩
  · unfold Index.Spec.locate
    rw [hp]
    simp only [Option.bind_some]
    unfold Index.Spec.infoAt
    simp only [hsi, Option.getD_some, hrec, Option.map_some]
  · rw [h2, ← hufo]; exact hlo
  · rw [h2, h3, ← hufo]; exact hhi
  · rw [hufo] at hlo hhi
    have hbu : (B.record x.check).uncompressed = B.o.length := rfl
    rw [hbu] at hhi
    rw [h2, h3]
    rw [List.getElem?_take, if_pos (by omega), List.getElem?_drop]
    congr 1
    omega

end XzVerif.RandomAccess
