/-
  Window-wrap commutation for `lzma2CallR` (interface: Lemmas/LzmaResumeWrapDefs.lean): a call of `lzma2_decode` made with NO room
  at the end of the dictionary window (`pos = size`), followed by the wrap and a call with room, equals the wrap followed by the call
  with room (`codeWrap_lzma2`, from `L1Wrap` and `L1Lclppb`). Header steps do not read the dictionary position (`l2Byte_wrap`);
  SEQ_COPY with no room copies nothing (`copySt_zero`, this is where `FullOkS` is used); SEQ_LZMA is `L1Wrap` plus the
  `compressed_size` bookkeeping of Lemmas/LzmaResumeL2.lean. The invariant is `P2' r := P2 r ∧ PropsOk r` (the remembered LZMA2
  properties are valid, so that a state reset keeps `lc + lp ≤ 4`, `pb ≤ 4`); `CodeAbsorb` and `CodeIdle` are re-packaged for it.
-/
import XzVerif.Lemmas.LzmaResumeL2
import XzVerif.Lemmas.LzmaResumeIdle2
import XzVerif.Lemmas.LzmaResumeAlign
import XzVerif.Lemmas.LzmaResumeWrapDefs

namespace XzVerif.LzmaR
open XzVerif.RangeDec XzVerif.LzDict XzVerif.Lzma XzVerif.Lzma2

/-- `lzma_decode` does not change `lc`/`lp`/`pb` -/
def L1Lclppb : Prop :=
  ∀ r : RSt, (lzmaCallR r).2.s.lc = r.s.lc ∧ (lzmaCallR r).2.s.lp = r.s.lp ∧ (lzmaCallR r).2.s.pb = r.s.pb

/-- the remembered LZMA2 properties are valid -/
def PropsOkS (s : St) : Prop := s.l2.props.lc + s.l2.props.lp ≤ 4 ∧ s.l2.props.pb ≤ 4
def PropsOk (r : RSt) : Prop := PropsOkS r.s

/-- the LZMA2 invariant with valid remembered properties -/
def P2' (r : RSt) : Prop := P2 r ∧ PropsOk r

theorem p2'_init (dictSize : Nat) (preset : List UInt8) : P2' (initLzma2R dictSize preset) :=
  ⟨p2_init dictSize preset, Nat.zero_le _, Nat.zero_le _⟩

theorem propsDecode_ok (byte : Nat) (p : Props) (h : propsDecode byte = some p) : p.lc + p.lp ≤ 4 ∧ p.pb ≤ 4 := by
  unfold propsDecode at h
  simp only [LZMA_LCLP_MAX] at h
  split at h
  · cases h
  · split at h
    · cases h
    · injection h with h
      rw [← h]
      simp only []
      omega

def l2StepAll (Q : St → Prop) : Step → Prop
  | .done x => Q x.2
  | .next s => Q s

def l2StepRAll (Q : St → Prop) : StepR → Prop
  | .done x => Q x.2.s
  | .next r => Q r.s

theorem stepRAll_lift (Q : St → Prop) (r : RSt) (st : Step) (h : l2StepAll Q st) : l2StepRAll Q (liftStep r st) := by
  cases st <;> exact h

theorem controlApply_props (s : St) (a : ControlAction) :
    (controlApply s a).l2.props = s.l2.props ∧ (controlApply s a).dp.size = s.dp.size
    ∧ ((controlApply s a).lc = s.lc ∧ (controlApply s a).lp = s.lp ∧ (controlApply s a).pb = s.pb
       ∨ (controlApply s a).lc = s.l2.props.lc ∧ (controlApply s a).lp = s.l2.props.lp ∧ (controlApply s a).pb = s.l2.props.pb) := by
  unfold controlApply
  simp only []
  split
  · split
    · exact ⟨rfl, rfl, Or.inr ⟨rfl, rfl, rfl⟩⟩
    · exact ⟨rfl, rfl, Or.inl ⟨rfl, rfl, rfl⟩⟩
  · exact ⟨rfl, rfl, Or.inl ⟨rfl, rfl, rfl⟩⟩

/-- what the wrap argument needs to be static -/
def L2AP (s : St) : Prop := AlignOk s ∧ PropsOkS s

theorem ap_controlApply (s : St) (a : ControlAction) (h : L2AP s) : L2AP (controlApply s a) := by
  obtain ⟨e1, e2, e3⟩ := controlApply_props s a
  obtain ⟨⟨a1, a2, a3⟩, p1, p2⟩ := h
  unfold L2AP AlignOk PropsOkS
  rw [e1, e2]
  rcases e3 with ⟨c1, c2, c3⟩ | ⟨c1, c2, c3⟩ <;> rw [c1, c2, c3] <;> exact ⟨⟨a1, by assumption, by assumption⟩, p1, p2⟩

theorem props_controlApply (s : St) (a : ControlAction) (h : PropsOkS s) : PropsOkS (controlApply s a) := by
  unfold PropsOkS
  rw [(controlApply_props s a).1]
  exact h

theorem l2Byte_props (q : L2Seq) (s : St) (byte : Nat) (h : PropsOkS s) : l2StepAll PropsOkS (l2Byte q s byte) := by
  cases q with
  | control =>
    simp only [l2Byte, l2Control]
    split
    · exact h
    · split
      · exact h
      · split
        · exact props_controlApply { s with inPos := s.inPos + 1 } _ h
        · exact props_controlApply { s with inPos := s.inPos + 1 } _ h
  | properties =>
    simp only [l2Byte]
    cases hp : propsDecode byte with
    | none => exact h
    | some p => exact propsDecode_ok byte p hp
  | uncompressed1 => exact h
  | uncompressed2 => exact h
  | compressed0 => exact h
  | compressed1 => exact h
  | lzma => exact h
  | copy => exact h

theorem l2Byte_ap (q : L2Seq) (s : St) (byte : Nat) (h : L2AP s) : l2StepAll L2AP (l2Byte q s byte) := by
  cases q with
  | control =>
    simp only [l2Byte, l2Control]
    split
    · exact h
    · split
      · exact h
      · split
        · exact ap_controlApply { s with inPos := s.inPos + 1 } _ h
        · exact ap_controlApply { s with inPos := s.inPos + 1 } _ h
  | properties =>
    simp only [l2Byte]
    cases hp : propsDecode byte with
    | none => exact h
    | some p =>
      have := propsDecode_ok byte p hp
      exact ⟨⟨h.1.1, this.1, this.2⟩, this⟩
  | uncompressed1 => exact h
  | uncompressed2 => exact h
  | compressed0 => exact h
  | compressed1 => exact h
  | lzma => exact h
  | copy => exact h

theorem l2Copy_all (Q : St → Prop) (s : St)
    (hQ : ∀ t : St, t.l2.props = s.l2.props → t.dp.size = s.dp.size → t.lc = s.lc → t.lp = s.lp → t.pb = s.pb → Q t) :
    l2StepAll Q (l2Copy s) := by
  rw [l2Copy_eq, l2CopyWith_eq]
  split
  · exact hQ _ rfl rfl rfl rfl rfl
  · exact hQ _ rfl rfl rfl rfl rfl

theorem l2LzmaR_all (Q : St → Prop) (i : Nat) (x : Ret × RSt)
    (hQ : ∀ t : St, t.l2.props = x.2.s.l2.props → t.dp.size = x.2.s.dp.size → t.lc = x.2.s.lc → t.lp = x.2.s.lp → t.pb = x.2.s.pb → Q t) :
    l2StepRAll Q (l2LzmaR i x) := by
  rw [l2LzmaR_eq]
  split
  · exact hQ _ rfl rfl rfl rfl rfl
  · unfold lzTail
    simp only []
    split
    · exact hQ _ rfl rfl rfl rfl rfl
    · split
      · exact hQ _ rfl rfl rfl rfl rfl
      · exact hQ _ rfl rfl rfl rfl rfl

/-- one iteration keeps the remembered properties valid -/
theorem l2StepR_props (s1 : L1Spec) (r : RSt) (hg : L2Good r) (h : PropsOk r) : l2StepRAll PropsOkS (l2StepR r) := by
  by_cases hq : r.s.l2.seq = .lzma
  · rw [l2StepR_lzma r hq]
    obtain ⟨_, hwr, _⟩ := s1 r hg.p2.2.1 hg.inPos hg.pos
    refine l2LzmaR_all _ _ _ (fun t e1 _ _ _ _ => ?_)
    unfold PropsOkS
    rw [e1, hwr.l2]
    exact h
  · by_cases hb : r.s.inPos < r.s.inp.size
    · by_cases hc : r.s.l2.seq = .copy
      · rw [l2StepR_copy r hc hb]
        refine stepRAll_lift _ _ _ (l2Copy_all _ _ (fun t e1 _ _ _ _ => ?_))
        unfold PropsOkS
        rw [e1]
        exact h
      · rw [l2StepR_byte r hq hc hb]
        exact stepRAll_lift _ _ _ (l2Byte_props _ _ _ h)
    · rw [l2StepR_starve r hq hb]
      exact h

/-- one iteration keeps the static alignment facts -/
theorem l2StepR_ap (s1 : L1Spec) (c1 : L1Lclppb) (r : RSt) (hg : L2Good r) (h : L2AP r.s) : l2StepRAll L2AP (l2StepR r) := by
  by_cases hq : r.s.l2.seq = .lzma
  · rw [l2StepR_lzma r hq]
    obtain ⟨_, hwr, _⟩ := s1 r hg.p2.2.1 hg.inPos hg.pos
    obtain ⟨d1, d2, d3⟩ := c1 r
    refine l2LzmaR_all _ _ _ (fun t e1 e2 e3 e4 e5 => ?_)
    unfold L2AP AlignOk PropsOkS
    rw [e1, e2, e3, e4, e5, hwr.l2, hwr.size, d1, d2, d3]
    exact h
  · by_cases hb : r.s.inPos < r.s.inp.size
    · by_cases hc : r.s.l2.seq = .copy
      · rw [l2StepR_copy r hc hb]
        refine stepRAll_lift _ _ _ (l2Copy_all _ _ (fun t e1 e2 e3 e4 e5 => ?_))
        unfold L2AP AlignOk PropsOkS
        rw [e1, e2, e3, e4, e5]
        exact h
      · rw [l2StepR_byte r hq hc hb]
        exact stepRAll_lift _ _ _ (l2Byte_ap _ _ _ h)
    · rw [l2StepR_starve r hq hb]
      exact h

theorem lzma2LoopR_all (s1 : L1Spec) (e1 : L1EndNone) (g1 : SymPreL2) (Q : St → Prop)
    (hstep : ∀ r, L2Good r → Q r.s → l2StepRAll Q (l2StepR r)) :
    ∀ (f : Nat) (r : RSt), L2Good r → Q r.s → Q (lzma2LoopR f r).2.s
  | 0, r, _, h => by unfold lzma2LoopR; exact h
  | f + 1, r, hg, h => by
    rw [lzma2LoopR_succ]
    have hs := l2StepR_ok s1 e1 g1 r hg
    have hq := hstep r hg h
    cases hst : l2StepR r with
    | done x => rw [hst] at hq; exact hq
    | next r1 =>
      rw [hst] at hq hs
      exact lzma2LoopR_all s1 e1 g1 Q hstep f r1 (hg.next hs.1 hs.2) hq

/-! ### the wrap commutes with the header steps -/

def l2WrapS (s : St) : St := { s with dp := s.dp.wrap }

def l2StepWrap : Step → Step
  | .done x => .done (x.1, l2WrapS x.2)
  | .next s => .next (l2WrapS s)

def StepR.wrap : StepR → StepR
  | .done x => .done (x.1, x.2.wrap)
  | .next r => .next r.wrap

theorem wrap_limit (d : DictPos) (L : Nat) : ({ d with limit := L } : DictPos).wrap = { d.wrap with limit := L } := by
  unfold DictPos.wrap
  simp only []
  split <;> rfl

theorem wrap_needReset (d : DictPos) : ({ d with needReset := true } : DictPos).wrap = { d.wrap with needReset := true } := by
  unfold DictPos.wrap
  simp only []
  split <;> rfl

theorem wrap_at_end (d : DictPos) (h : d.pos = d.size) : d.wrap = { d with pos := LZ_DICT_REPEAT_MAX, hasWrapped := true } := by
  unfold DictPos.wrap
  rw [if_pos (by rw [h]; exact beq_self_eq_true _)]

theorem RSt.wrap_view (r : RSt) (b b' : ByteArray) (L L' : Nat) : (r.view b L).wrap.view b' L' = r.wrap.view b' L' := by
  show ({ r with s := { r.s with inp := b', dp := { ({ r.s.dp with limit := L } : DictPos).wrap with limit := L' } } } : RSt)
    = { r with s := { r.s with inp := b', dp := { r.s.dp.wrap with limit := L' } } }
  rw [wrap_limit]

theorem RSt.wrap_view_norm (r : RSt) (b : ByteArray) (L : Nat) : (r.view b L).wrap.norm = r.wrap.norm :=
  RSt.wrap_view r b ByteArray.empty L 0

theorem controlApply_wrap (s : St) (a : ControlAction) : controlApply (l2WrapS s) a = l2WrapS (controlApply s a) := by
  unfold controlApply
  simp only []
  split
  · split <;> rfl
  · rfl

theorem l2Control_wrap (t : St) (a : ControlAction) : l2Control (l2WrapS t) a = l2StepWrap (l2Control t a) := by
  unfold l2Control
  split
  · rfl
  · split
    · rfl
    · simp only []
      rw [controlApply_wrap]
      split
      · show Step.done (Ret.ok, { l2WrapS (controlApply t a) with dp := { (controlApply t a).dp.wrap with needReset := true } }) = _
        rw [← wrap_needReset]
        rfl
      · rfl

theorem l2Byte_wrap (q : L2Seq) (s : St) (byte : Nat) : l2Byte q (l2WrapS s) byte = l2StepWrap (l2Byte q s byte) := by
  cases q with
  | control => exact l2Control_wrap { s with inPos := s.inPos + 1 } _
  | properties =>
    simp only [l2Byte]
    cases propsDecode byte <;> rfl
  | uncompressed1 => rfl
  | uncompressed2 => rfl
  | compressed0 => rfl
  | compressed1 => rfl
  | lzma => rfl
  | copy => rfl

theorem liftStep_wrap (r : RSt) (st : Step) : liftStep r.wrap (l2StepWrap st) = (liftStep r st).wrap := by
  cases st <;> rfl

theorem StepSame.of_wrap_view (st : StepR) (b : ByteArray) (L L2 : Nat) :
    StepSame ((st.wrap).view b L2) ((st.view b L).wrap) := by
  cases st with
  | done x => exact ⟨rfl, (RSt.wrap_view_norm x.2 b L).symm⟩
  | next r => exact (RSt.wrap_view_norm r b L).symm

theorem l2LzmaR_wrap (i : Nat) (ret : Ret) (w : RSt) : l2LzmaR i (ret, w.wrap) = (l2LzmaR i (ret, w)).wrap := by
  unfold l2LzmaR
  show (if w.s.inPos - i > w.s.l2.compressedSize then _ else _) = StepR.wrap (if w.s.inPos - i > w.s.l2.compressedSize then _ else _)
  split
  · rfl
  · simp only []
    split
    · rfl
    · show (if (w.s.l2.compressedSize - (w.s.inPos - i) != 0) = true then _ else _) =
        StepR.wrap (if (w.s.l2.compressedSize - (w.s.inPos - i) != 0) = true then _ else _)
      split <;> rfl

/-! ### `frame_wrap` -/

theorem l2_symPre_wrap (r : RSt) (h : SymPre r) (hal : AlignOk r.s) (hpos : r.s.dp.pos = r.s.dp.size) : SymPre r.wrap := by
  intro k hk
  obtain ⟨h1, h2, h3⟩ := h k hk
  refine ⟨h1, h2, fun L b hb => ?_⟩
  have h4 := h3 L b hb
  generalize ht : k.restore { r.s with inp := b, dp := { r.s.dp with limit := L }, pending := .none } = t at h4
  have etdp : t.dp = { r.s.dp with limit := L } := by rw [← ht]; rfl
  have key : k.restore { r.wrap.s with inp := b, dp := { r.wrap.s.dp with limit := L }, pending := .none }
      = { t with dp := t.dp.wrap } := by
    rw [etdp, wrap_limit, ← ht]
    rfl
  have hd := decodeSymbol_wrap (r.s.uncomp.isNone || r.s.eopmValid) t (by rw [etdp]; exact hal.1) (by rw [etdp]; exact hpos)
    (by rw [← ht]; exact hal.2.1) (by rw [← ht]; exact hal.2.2)
  show r.s.inPos ≤ (resSt (decodeSymbol (r.s.uncomp.isNone || r.s.eopmValid)
    (k.restore { r.wrap.s with inp := b, dp := { r.wrap.s.dp with limit := L }, pending := .none }))).inPos
  rw [key, hd]
  generalize decodeSymbol _ t = x at h4 ⊢
  cases x <;> exact h4

theorem p2_wrap (r : RSt) (h : P2 r) (hal : AlignOk r.s) (hpos : r.s.dp.pos = r.s.dp.size) : P2 r.wrap := by
  refine ⟨h.1, l2_symPre_wrap r h.2.1 hal hpos, h.2.2.1, fun hn => h.2.2.2 ?_⟩
  have e : r.wrap.s.dp.needReset = r.s.dp.needReset := by
    show r.s.dp.wrap.needReset = _
    rw [wrap_at_end _ hpos]
  rw [← e]; exact hn

/-! ### one iteration at the end of the window vs. after the wrap -/

inductive L2OutW (b : ByteArray) (L2 : Nat) (sx sy : StepR) : Prop
  | same (h : StepSame sy sx.wrap) (hy : sx.yields)
  | overrun (x y : Ret × RSt) (hx : sx = .done x) (hy : sy = .done y) (h1 : x.1 = .dataError) (h2 : y.1 = .dataError)
      (h3 : x.2.overrun = true) (h4 : y.2.overrun = true)
  | resume (x : Ret × RSt) (hx : sx = .done x) (hok : x.1 = .ok) (hnr : x.2.s.dp.needReset = false)
      (h : StepEqv sy (l2StepR (x.2.wrap.view b L2)))

theorem wrap_byte (r : RSt) (b : ByteArray) (L2 : Nat) (hb : r.s.inPos < b.size)
    (hq : r.s.l2.seq ≠ .lzma) (hc : r.s.l2.seq ≠ .copy) :
    L2OutW b L2 (l2StepR (r.view b r.s.dp.size)) (l2StepR (r.wrap.view b L2)) := by
  rw [l2StepR_byte (r.view b r.s.dp.size) hq hc hb, l2StepR_byte (r.wrap.view b L2) hq hc hb]
  show L2OutW b L2 (liftStep (r.view b r.s.dp.size) (l2Byte r.s.l2.seq (vw r.s b r.s.dp.size) (curByte (r.view b r.s.dp.size).s)))
    (liftStep (r.wrap.view b L2) (l2Byte r.s.l2.seq (vw (l2WrapS r.s) b L2) (curByte (r.view b r.s.dp.size).s)))
  rw [l2Byte_vw, l2Byte_vw, l2Byte_wrap, liftStep_view, liftStep_view, liftStep_wrap]
  exact .same (StepSame.of_wrap_view _ _ _ _) (yields_lift_view _ _ _ _ (l2Byte_yields _ _ _))

theorem l2_advance_zero (d : DictPos) (h : d.hasWrapped = false → d.full + LZ_DICT_INIT_POS = d.pos) : d.advance 0 = d := by
  obtain ⟨pos, full, limit, size, hw, nr⟩ := d
  simp only [DictPos.advance, Nat.add_zero]
  cases hw with
  | true => rfl
  | false =>
    have h' : full + LZ_DICT_INIT_POS = pos := h rfl
    have e : pos - LZ_DICT_INIT_POS = full := by simp only [LZ_DICT_INIT_POS] at h' ⊢; omega
    simp only [Bool.false_eq_true, if_false, e]

theorem copySt_zero (s : St) (h : FullOkS s) : copySt s 0 s.hist = s := by
  unfold copySt setL2
  simp only [Nat.add_zero, Nat.sub_zero]
  rw [l2_advance_zero _ h]

theorem wrap_copy (r : RSt) (b : ByteArray) (L2 : Nat) (hP : P2 r) (hfu : FullOkS r.s) (hb : r.s.inPos < b.size)
    (hnr : r.s.dp.needReset = false) (hpos : r.s.dp.pos = r.s.dp.size) (hc : r.s.l2.seq = .copy) :
    L2OutW b L2 (l2StepR (r.view b r.s.dp.size)) (l2StepR (r.wrap.view b L2)) := by
  rw [l2StepR_copy (r.view b r.s.dp.size) hc hb]
  show L2OutW b L2 (liftStep (r.view b r.s.dp.size) (l2Copy (vw r.s b r.s.dp.size))) _
  rw [l2Copy_eq]
  have hn : copyCount (vw r.s b r.s.dp.size) = 0 := by
    show min (min (b.size - r.s.inPos) r.s.l2.compressedSize) (r.s.dp.size - r.s.dp.pos) = 0
    omega
  rw [hn]
  show L2OutW b L2 (liftStep (r.view b r.s.dp.size) (l2CopyWith (vw r.s b r.s.dp.size) 0 r.s.hist)) _
  have hcs := hP.1.2 hc
  rw [l2CopyWith_vw, liftStep_view, l2CopyWith_more r.s 0 _ (by omega), copySt_zero r.s hfu]
  refine .resume (.ok, r.view b r.s.dp.size) rfl rfl hnr ?_
  show StepEqv _ (l2StepR ((r.view b r.s.dp.size).wrap.view b L2))
  rw [RSt.wrap_view]
  exact StepEqv.refl _

theorem wrap_lzma (w1 : L1Wrap) (s1 : L1Spec) (f1 : L1L2Frame) (c1 : L1Lclppb) (r : RSt) (b : ByteArray) (L2 : Nat) (hP : P2 r)
    (hal : AlignOk r.s) (hfu : FullOkS r.s) (hag0 : Agree r.s.inPos r.s.inp b) (hin : r.s.inPos ≤ b.size)
    (hnr : r.s.dp.needReset = false) (hpos : r.s.dp.pos = r.s.dp.size) (h288 : LZ_DICT_REPEAT_MAX ≤ L2) (hL2 : L2 ≤ r.s.dp.size)
    (hq : r.s.l2.seq = .lzma) : L2OutW b L2 (l2StepR (r.view b r.s.dp.size)) (l2StepR (r.wrap.view b L2)) := by
  rw [l2StepR_lzma (r.view b r.s.dp.size) hq, l2StepR_lzma (r.wrap.view b L2) hq]
  show L2OutW b L2 (l2LzmaR r.s.inPos (lzmaCallR (r.view b r.s.dp.size))) (l2LzmaR r.s.inPos (lzmaCallR (r.wrap.view b L2)))
  have hlim : r.s.dp.pos ≤ r.s.dp.size := Nat.le_of_eq hpos
  have hPw : P2 r.wrap := p2_wrap r hP hal hpos
  have hlimw : (r.wrap.view b L2).s.dp.pos ≤ L2 := by
    show r.s.dp.wrap.pos ≤ L2
    rw [wrap_at_end _ hpos]; exact h288
  have ha := w1 r b L2 ⟨hin, hlim, hag0, hP.2.1, Or.inl hP.1.1⟩ hal hfu hpos h288 hL2
  obtain ⟨hspx, hwr, _, _, _, _, _, _⟩ := s1 (r.view b r.s.dp.size) (symPre_view r b _ hP.2.1 hag0) hin hlim
  obtain ⟨_, hwr', _, _, _, _, _, _⟩ := s1 (r.wrap.view b L2) (symPre_view r.wrap b L2 hPw.2.1 hag0) hin hlimw
  obtain ⟨d1, d2, d3⟩ := c1 (r.view b r.s.dp.size)
  generalize hx : lzmaCallR (r.view b r.s.dp.size) = x at ha hwr hspx d1 d2 d3
  generalize hy : lzmaCallR (r.wrap.view b L2) = y at ha hwr'
  by_cases hok : x.1 = .ok
  · rw [if_pos hok] at ha
    have hxb : x.2.s.inPos ≤ b.size := by
      have h := hwr.pos_le hin
      rw [hwr.inp] at h
      exact h
    have hxsz : x.2.s.dp.size = r.s.dp.size := hwr.size
    have hxpos : x.2.s.dp.pos = x.2.s.dp.size := by
      have a1 : r.s.dp.pos ≤ x.2.s.dp.pos := hwr.dpos_mono
      have a2 := hwr.in_limit hlim
      have a3 : x.2.s.dp.limit = r.s.dp.size := hwr.limit
      omega
    have halx : AlignOk x.2.s := ⟨by rw [hxsz]; exact hal.1, by rw [d1, d2]; exact hal.2.1, by rw [d3]; exact hal.2.2⟩
    have hagx : Agree x.2.wrap.s.inPos x.2.wrap.s.inp b := by
      show Agree x.2.s.inPos x.2.s.inp b
      rw [hwr.inp]
      exact ⟨hxb, hxb, fun _ _ _ _ => rfl⟩
    have hxlimw : (x.2.wrap.view b L2).s.dp.pos ≤ L2 := by
      show x.2.s.dp.wrap.pos ≤ L2
      rw [wrap_at_end _ hxpos]; exact h288
    obtain ⟨_, hww, _, _, _, _, _, _⟩ :=
      s1 (x.2.wrap.view b L2) (symPre_view x.2.wrap b L2 (l2_symPre_wrap x.2 hspx halx hxpos) hagx) hxb hxlimw
    generalize hw : lzmaCallR (x.2.wrap.view b L2) = w at ha hww
    have hyw : y = w := by
      have e2 : y.2 = w.2 := RSt.eq_of_norm ha.2 (hwr'.inp.trans hww.inp.symm) (hwr'.limit.trans hww.limit.symm)
      exact Prod.ext ha.1 e2
    subst hyw
    have m1 : r.s.inPos ≤ x.2.s.inPos := hwr.pos_mono
    have m2 : x.2.s.inPos ≤ y.2.s.inPos := hww.pos_mono
    have l1 : y.2.s.l2 = x.2.s.l2 := hww.l2
    by_cases hover : x.2.s.inPos - r.s.inPos > x.2.s.l2.compressedSize
    · have hover' : y.2.s.inPos - r.s.inPos > y.2.s.l2.compressedSize := by rw [l1]; omega
      exact .overrun _ _ (by unfold l2LzmaR; rw [if_pos hover]) (by unfold l2LzmaR; rw [if_pos hover']) rfl rfl rfl rfl
    · have hsx : l2LzmaR r.s.inPos x = .done (x.1, x.2.map fun s => setL2 s fun l =>
          { l with compressedSize := l.compressedSize - (x.2.s.inPos - r.s.inPos) }) := by
        unfold l2LzmaR
        rw [if_neg hover]
        simp only []
        rw [if_pos (by rw [hok]; decide)]
      refine .resume _ hsx hok (hwr.needReset.trans hnr) ?_
      have hseq : ((x.2.map fun s => setL2 s fun l =>
          { l with compressedSize := l.compressedSize - (x.2.s.inPos - r.s.inPos) }).wrap.view b L2).s.l2.seq = .lzma := by
        show x.2.s.l2.seq = .lzma
        rw [hwr.l2]; exact hq
      rw [l2StepR_lzma _ hseq]
      have e : (x.2.map fun s => setL2 s fun l =>
          { l with compressedSize := l.compressedSize - (x.2.s.inPos - r.s.inPos) }).wrap.view b L2
          = (x.2.wrap.view b L2).map fun s => setL2 s fun l =>
          { l with compressedSize := l.compressedSize - (x.2.s.inPos - r.s.inPos) } := rfl
      rw [e, f1, hw]
      exact l2LzmaR_shift r.s.inPos x.2.s.inPos y m1 m2 (by rw [l1]; omega)
  · rw [if_neg hok] at ha
    have h := l2LzmaR_same r.s.inPos y (x.1, x.2.wrap) ha
    rw [l2LzmaR_wrap] at h
    exact .same h (l2LzmaR_yields _ _ hok)

theorem l2StepR_wrap (w1 : L1Wrap) (s1 : L1Spec) (f1 : L1L2Frame) (c1 : L1Lclppb) (r : RSt) (b : ByteArray) (L2 : Nat) (hP : P2 r)
    (hal : AlignOk r.s) (hfu : FullOkS r.s) (hag0 : Agree r.s.inPos r.s.inp b) (hin : r.s.inPos ≤ b.size)
    (hnr : r.s.dp.needReset = false) (hpos : r.s.dp.pos = r.s.dp.size) (h288 : LZ_DICT_REPEAT_MAX ≤ L2) (hL2 : L2 ≤ r.s.dp.size) :
    L2OutW b L2 (l2StepR (r.view b r.s.dp.size)) (l2StepR (r.wrap.view b L2)) := by
  by_cases hq : r.s.l2.seq = .lzma
  · exact wrap_lzma w1 s1 f1 c1 r b L2 hP hal hfu hag0 hin hnr hpos h288 hL2 hq
  · by_cases hb : r.s.inPos < b.size
    · by_cases hc : r.s.l2.seq = .copy
      · exact wrap_copy r b L2 hP hfu hb hnr hpos hc
      · exact wrap_byte r b L2 hb hq hc
    · rw [l2StepR_starve (r.view b r.s.dp.size) hq hb]
      refine .resume _ rfl rfl hnr ?_
      show StepEqv _ (l2StepR ((r.view b r.s.dp.size).wrap.view b L2))
      rw [RSt.wrap_view]
      exact StepEqv.refl _

/-! ### the whole call -/

/-- a coder at the end of the window, about to be called with input `b` -/
structure L2AtEnd (r : RSt) (b : ByteArray) : Prop where
  p2 : P2 r
  ap : L2AP r.s
  fu : FullOkS r.s
  ag : Agree r.s.inPos r.s.inp b
  inPos : r.s.inPos ≤ b.size
  nr : r.s.dp.needReset = false
  pos : r.s.dp.pos = r.s.dp.size

theorem L2AtEnd.good {r : RSt} {b : ByteArray} (h : L2AtEnd r b) : L2Good (r.view b r.s.dp.size) :=
  ⟨p2_view r b _ h.p2 h.ag, h.inPos, Nat.le_of_eq h.pos, h.nr⟩

theorem L2AtEnd.good_wrap {r : RSt} {b : ByteArray} (h : L2AtEnd r b) (L2 : Nat) (h288 : LZ_DICT_REPEAT_MAX ≤ L2) :
    L2Good (r.wrap.view b L2) := by
  refine ⟨p2_view r.wrap b L2 (p2_wrap r h.p2 h.ap.1 h.pos) h.ag, h.inPos, ?_, ?_⟩
  · show r.s.dp.wrap.pos ≤ L2
    rw [wrap_at_end _ h.pos]; exact h288
  · show r.s.dp.wrap.needReset = false
    rw [wrap_at_end _ h.pos]; exact h.nr

/-- the state reached from a coder at the end of the window by a no-room run is still at the end of the window -/
theorem L2AtEnd.of_fw {r t : RSt} {b : ByteArray} (h : L2AtEnd r b) (hfw : L2Fw (r.view b r.s.dp.size).s t.s) (hp : P2 t) (hap : L2AP t.s)
    (hnr : t.s.dp.needReset = false) : L2AtEnd t b ∧ t.s.dp.size = r.s.dp.size := by
  have hxb : t.s.inPos ≤ b.size := by
    have := hfw.cr.pos_le h.inPos
    rw [hfw.cr.inp] at this
    exact this
  have hsz : t.s.dp.size = r.s.dp.size := hfw.cr.size
  refine ⟨⟨hp, hap, ?_, ?_, hxb, hnr, ?_⟩, hsz⟩
  · intro hw
    have hw' : r.s.dp.hasWrapped = false := by rw [← hw]; exact hfw.wrapped.symm
    exact hfw.full hw' (h.fu hw')
  · rw [hfw.cr.inp]
    exact ⟨hxb, hxb, fun _ _ _ _ => rfl⟩
  · have a1 : r.s.dp.pos ≤ t.s.dp.pos := hfw.cr.dpos_mono
    have a2 := hfw.cr.in_limit (Nat.le_of_eq h.pos)
    have a3 : t.s.dp.limit = r.s.dp.size := hfw.cr.limit
    have a4 := h.pos
    omega

theorem wrap_main (w1 : L1Wrap) (s1 : L1Spec) (f1 : L1L2Frame) (e1 : L1EndNone) (g1 : SymPreL2) (c1 : L1Lclppb)
    (b : ByteArray) (L2 : Nat) (h288 : LZ_DICT_REPEAT_MAX ≤ L2) :
    ∀ (n : Nat) (r : RSt), mu (r.view b r.s.dp.size).s < n → L2AtEnd r b → L2 ≤ r.s.dp.size →
      ((lzma2CallR (r.view b r.s.dp.size)).1 ≠ .ok →
        Eqv (lzma2CallR (r.wrap.view b L2)) ((lzma2CallR (r.view b r.s.dp.size)).1, (lzma2CallR (r.view b r.s.dp.size)).2.wrap))
      ∧ ((lzma2CallR (r.view b r.s.dp.size)).1 = .ok → (lzma2CallR (r.view b r.s.dp.size)).2.s.dp.needReset = true →
          Same (lzma2CallR (r.wrap.view b L2)) (.ok, (lzma2CallR (r.view b r.s.dp.size)).2.wrap))
      ∧ ((lzma2CallR (r.view b r.s.dp.size)).1 = .ok → (lzma2CallR (r.view b r.s.dp.size)).2.s.dp.needReset = false →
          Eqv (lzma2CallR (r.wrap.view b L2)) (lzma2CallR ((lzma2CallR (r.view b r.s.dp.size)).2.wrap.view b L2)))
  | 0, _, hmu, _, _ => by omega
  | n + 1, r, hmu, hA, hL2 => by
    have gx := hA.good
    have gy := hA.good_wrap L2 h288
    have eX := lzma2CallR_unfold s1 e1 g1 _ gx
    have eY := lzma2CallR_unfold s1 e1 g1 _ gy
    have hokx := l2StepR_ok s1 e1 g1 _ gx
    have hoky := l2StepR_ok s1 e1 g1 _ gy
    have hapx := l2StepR_ap s1 c1 _ gx hA.ap
    have ho := l2StepR_wrap w1 s1 f1 c1 r b L2 hA.p2 hA.ap.1 hA.fu hA.ag hA.inPos hA.nr hA.pos h288 hL2
    rw [eX, eY]
    cases ho with
    | same h hy =>
      cases hsx : l2StepR (r.view b r.s.dp.size) with
      | done x =>
        cases hsy : l2StepR (r.wrap.view b L2) with
        | done y =>
          rw [hsx, hsy] at h
          rw [hsx] at hy
          have h' : Same y (x.1, x.2.wrap) := h
          simp only [runStepR]
          refine ⟨fun _ => Or.inl h', fun hok _ => ?_, fun hok hn => (by have := hy hok; rw [hn] at this; cases this)⟩
          rw [← hok]; exact h'
        | next ry => rw [hsx, hsy] at h; exact absurd h id
      | next rx =>
        cases hsy : l2StepR (r.wrap.view b L2) with
        | done y => rw [hsx, hsy] at h; exact absurd h id
        | next ry =>
          rw [hsx, hsy] at h
          rw [hsx] at hokx hapx
          rw [hsy] at hoky
          have hnx : L2NextOk (r.view b r.s.dp.size).s rx.s := hokx.1
          have hny : L2NextOk (r.wrap.view b L2).s ry.s := hoky.1
          have h' : ry.norm = rx.wrap.norm := h
          simp only [runStepR]
          obtain ⟨hAx, hsz⟩ := hA.of_fw hnx.fw ⟨hnx.p2, hokx.2⟩ hapx (hnx.nr.trans hA.nr)
          have ex : rx = rx.view b r.s.dp.size :=
            RSt.eq_of_norm (RSt.norm_view rx b _).symm hnx.fw.cr.inp hnx.fw.cr.limit
          have ey : ry = rx.wrap.view b L2 :=
            RSt.eq_of_norm (h'.trans (RSt.norm_view rx.wrap b L2).symm) hny.fw.cr.inp hny.fw.cr.limit
          have hmx : mu (rx.view b rx.s.dp.size).s < n := by
            rw [hsz, ← ex]
            have := hnx.mu
            omega
          have ih := wrap_main w1 s1 f1 e1 g1 c1 b L2 h288 n rx hmx hAx (by rw [hsz]; exact hL2)
          rw [hsz, ← ex] at ih
          rw [ey]
          exact ih
    | overrun x y hx hy a1 a2 a3 a4 =>
      rw [hx, hy]
      simp only [runStepR]
      exact ⟨fun _ => Or.inr ⟨a2, a1, a4, a3⟩, fun hok => (by rw [a1] at hok; cases hok), fun hok => (by rw [a1] at hok; cases hok)⟩
    | resume x hx hok hnrx h =>
      rw [hx] at hokx hapx
      have hdx : L2DoneOk (r.view b r.s.dp.size).s (x.1, x.2.s) := hokx.1
      rw [hx]
      simp only [runStepR]
      refine ⟨fun hne => absurd hok hne, fun _ hn => (by rw [hnrx] at hn; cases hn), fun _ _ => ?_⟩
      obtain ⟨hAx, _⟩ := hA.of_fw hdx.fw ⟨hdx.p2, hokx.2⟩ hapx hnrx
      have gw := hAx.good_wrap L2 h288
      rw [lzma2CallR_unfold s1 e1 g1 _ gw]
      cases hsy : l2StepR (r.wrap.view b L2) with
      | done y =>
        cases hsw : l2StepR (x.2.wrap.view b L2) with
        | done w => rw [hsy, hsw] at h; exact h
        | next rw' => rw [hsy, hsw] at h; exact absurd h id
      | next ry =>
        cases hsw : l2StepR (x.2.wrap.view b L2) with
        | done w => rw [hsy, hsw] at h; exact absurd h id
        | next rw' =>
          rw [hsy, hsw] at h
          have h' : ry = rw' := h
          rw [h']
          exact Eqv.refl _

/-! ### packaging for `P2'` -/

theorem lzma2CallR_props (r : RSt) (hg : L2Good r) (h : PropsOk r) : PropsOk (lzma2CallR r).2 :=
  lzma2LoopR_all l1Spec lzmaCallR_end_none symPreL2 PropsOkS (fun r hg h => l2StepR_props l1Spec r hg h) _ r hg h

theorem lzma2CallR_ap (c1 : L1Lclppb) (r : RSt) (hg : L2Good r) (h : L2AP r.s) : L2AP (lzma2CallR r).2.s :=
  lzma2LoopR_all l1Spec lzmaCallR_end_none symPreL2 L2AP (fun r hg h => l2StepR_ap l1Spec c1 r hg h) _ r hg h

/-- `CodeAbsorb` for the invariant with valid remembered properties -/
theorem codeAbsorb_lzma2'' (h1 : L1Absorb) : CodeAbsorb P2' lzma2CallR where
  spec := fun r hP hnr hin hlim => by
    have h := (codeAbsorb_lzma2' h1).spec r hP.1 hnr hin hlim
    exact ⟨h.1, h.2.1, ⟨h.2.2.1, lzma2CallR_props r ⟨hP.1, hin, hlim, hnr⟩ hP.2⟩, h.2.2.2⟩
  frame_view := fun r b L hP ha => ⟨p2_view r b L hP.1 ha, hP.2⟩
  frame_reset := fun r hP hn => ⟨p2_reset r hP.1 hn, hP.2⟩
  stop := fun r b b' L L' hP => (codeAbsorb_lzma2' h1).stop r b b' L L' hP.1
  yield := fun r b b' L L' hP => (codeAbsorb_lzma2' h1).yield r b b' L L' hP.1
  resume := fun r b b' L L' hP => (codeAbsorb_lzma2' h1).resume r b b' L L' hP.1

theorem codeIdle_lzma2'' (i1 : L1Idle) : CodeIdle P2' lzma2CallR :=
  fun r b L L' hP => codeIdle_lzma2 i1 r b L L' hP.1

/-- **`lzma2_decode` with no room at the end of the window commutes with the wrap** -/
theorem codeWrap_lzma2 (w1 : L1Wrap) (c1 : L1Lclppb) : CodeWrap P2' lzma2CallR where
  frame_wrap := fun r hP hal _ hpos => ⟨p2_wrap r hP.1 hal hpos, hP.2⟩
  align := fun r hP hnr hin hlim hal => (lzma2CallR_ap c1 r ⟨hP.1, hin, hlim, hnr⟩ ⟨hal, hP.2⟩).1
  stop := fun r b L2 hP hal hfu hag hin hnr hpos h288 hL2 hne =>
    (wrap_main w1 l1Spec lzmaCallR_setL2 lzmaCallR_end_none symPreL2 c1 b L2 h288 _ r (Nat.lt_succ_self _)
      ⟨hP.1, ⟨hal, hP.2⟩, hfu, hag, hin, hnr, hpos⟩ hL2).1 hne
  yield := fun r b L2 hP hal hfu hag hin hnr hpos h288 hL2 hok hy =>
    (wrap_main w1 l1Spec lzmaCallR_setL2 lzmaCallR_end_none symPreL2 c1 b L2 h288 _ r (Nat.lt_succ_self _)
      ⟨hP.1, ⟨hal, hP.2⟩, hfu, hag, hin, hnr, hpos⟩ hL2).2.1 hok hy
  resume := fun r b L2 hP hal hfu hag hin hnr hpos h288 hL2 hok hy =>
    (wrap_main w1 l1Spec lzmaCallR_setL2 lzmaCallR_end_none symPreL2 c1 b L2 h288 _ r (Nat.lt_succ_self _)
      ⟨hP.1, ⟨hal, hP.2⟩, hfu, hag, hin, hnr, hpos⟩ hL2).2.2 hok hy

end XzVerif.LzmaR
