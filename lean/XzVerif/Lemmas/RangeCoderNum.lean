/-
  Big-number readings of byte lists used by the range-coder round-trip proof (DESIGN Appendix A).
  `numLE` reads a REVERSED output (newest byte first = least significant first); `numBE` reads bytes in stream order.
-/
import XzVerif.Model.RangeEnc
import Mathlib.Tactic.Ring
import Mathlib.Tactic.Linarith

namespace XzVerif.RangeCoder
open XzVerif.RangeDec XzVerif.RangeEnc

/-- value of a byte list, least significant byte first -/
def numLE : List UInt8 → Nat
  | [] => 0
  | b :: r => b.toNat + 256 * numLE r

/-- value of a byte list, most significant byte first -/
def numBE : List UInt8 → Nat
  | [] => 0
  | b :: r => b.toNat * 256 ^ r.length + numBE r

theorem numBE_lt (l : List UInt8) : numBE l < 256 ^ l.length := by
  induction l with
  | nil => simp [numBE]
  | cons b r ih =>
    have hb : b.toNat < 256 := UInt8.toNat_lt_size b
    simp only [numBE, List.length_cons, pow_succ]
    nlinarith [Nat.pow_pos (n := r.length) (show 0 < 256 by norm_num)]

theorem numLE_append (a r : List UInt8) : numLE (a ++ r) = numLE a + 256 ^ a.length * numLE r := by
  induction a with
  | nil => simp [numLE]
  | cons b a ih => simp only [List.cons_append, numLE, ih, List.length_cons, pow_succ]; ring

theorem numLE_reverse (l : List UInt8) : numLE l.reverse = numBE l := by
  induction l with
  | nil => simp [numLE, numBE]
  | cons b r ih =>
    simp only [List.reverse_cons, numLE_append, ih, numBE, List.length_reverse, numLE]
    ring

theorem numBE_reverse (l : List UInt8) : numBE l.reverse = numLE l := by
  have := numLE_reverse l.reverse
  simpa using this.symm

theorem numLE_lt (l : List UInt8) : numLE l < 256 ^ l.length := by
  have := numBE_lt l.reverse
  rw [numBE_reverse] at this
  simpa using this

theorem pushN_eq (n : Nat) (b : UInt8) (out : List UInt8) : pushN n b out = List.replicate n b ++ out := by
  induction n generalizing out with
  | zero => simp [pushN]
  | succ n ih =>
    simp only [pushN, ih]
    rw [List.replicate_succ' , List.append_assoc]; rfl

theorem length_pushN (n : Nat) (b : UInt8) (out : List UInt8) : (pushN n b out).length = n + out.length := by
  simp [pushN_eq]

theorem numLE_replicate_ff (n : Nat) : numLE (List.replicate n (255 : UInt8)) + 1 = 256 ^ n := by
  induction n with
  | zero => simp [numLE]
  | succ n ih =>
    simp only [List.replicate_succ, numLE, pow_succ]
    have : (255 : UInt8).toNat = 255 := rfl
    rw [this]; omega

theorem numLE_replicate_zero (n : Nat) : numLE (List.replicate n (0 : UInt8)) = 0 := by
  induction n with
  | zero => simp [numLE]
  | succ n ih => simp [List.replicate_succ, numLE, ih]

/-- pending 0xFF bytes flushed without a carry -/
theorem numLE_pushN_ff (n : Nat) (out : List UInt8) :
    numLE (pushN n 255 out) = numLE out * 256 ^ n + (256 ^ n - 1) := by
  rw [pushN_eq, numLE_append]
  have h := numLE_replicate_ff n
  simp only [List.length_replicate]
  have : numLE (List.replicate n (255 : UInt8)) = 256 ^ n - 1 := by omega
  rw [this]; ring

/-- pending 0xFF bytes flushed with a carry: they all become 0x00 -/
theorem numLE_pushN_zero (n : Nat) (out : List UInt8) :
    numLE (pushN n 0 out) = numLE out * 256 ^ n := by
  rw [pushN_eq, numLE_append, numLE_replicate_zero]
  simp only [List.length_replicate]; ring

/-- A big-endian number that is small enough has a zero leading byte. -/
theorem numBE_head_zero (b : UInt8) (r : List UInt8) (h : numBE (b :: r) < 256 ^ r.length) : b = 0 := by
  simp only [numBE] at h
  have hp : 0 < 256 ^ r.length := Nat.pow_pos (by norm_num)
  have : b.toNat = 0 := by
    by_contra hne
    have : 1 ≤ b.toNat := Nat.one_le_iff_ne_zero.mpr hne
    nlinarith
  exact UInt8.toNat_inj.mp (by simpa using this)

end XzVerif.RangeCoder
