/-
  The loop fuels of `lzma2Loop` and `decodeBuffer` (Model/Lzma2.lean, Model/Lzma.lean) are never exhausted:
  the model never answers LZMA_PROG_ERROR. (`symLoop`: Lemmas/C03Call.lean.)
-/
import XzVerif.Lemmas.C03Coder

namespace XzVerif.Lzma2
open XzVerif.RangeDec XzVerif.LzDict XzVerif.Lzma

/-- termination measure of `lzma2_decode`'s loop: two per remaining input byte, plus one while in SEQ_LZMA -/
def mu (s : St) : Nat := 2 * (s.inp.size - s.inPos) + (if s.l2.seq = .lzma then 1 else 0)

/-- in SEQ_COPY at least one byte is still to be copied -/
def CopyInv (s : St) : Prop := s.l2.seq = .copy → 1 ≤ s.l2.compressedSize

/-- what the fuel theorem establishes for one run of the loop -/
structure L2Post (s : St) (r : Ret × St) : Prop where
  ret : r.1 ≠ .progError
  copyInv : CopyInv r.2
  reset : r.2.dp.needReset = true → s.dp.needReset = true ∨ s.inPos < r.2.inPos

theorem L2Post.of_cont {s s1 : St} {r : Ret × St} (h : L2Post s1 r) (hn : s1.dp.needReset = s.dp.needReset)
    (hp : s.inPos ≤ s1.inPos) : L2Post s r :=
  ⟨h.ret, h.copyInv, fun hr => by
    rcases h.reset hr with h1 | h1
    · left; rw [← hn]; exact h1
    · right; omega⟩

theorem lzma2Loop_fuel : ∀ (fuel : Nat) (s : St), CopyInv s → s.inPos ≤ s.inp.size → s.dp.pos ≤ s.dp.limit →
    mu s < fuel → L2Post s (lzma2Loop fuel s)
  | 0, s, _, _, _, hmu => by omega
  | fuel + 1, s, hcopy, hin, hlim, hmu => by
    unfold lzma2Loop
    split
    · exact ⟨by simp, hcopy, fun h => Or.inl h⟩
    · next hguard =>
      have hbyte : s.l2.seq ≠ .lzma → s.inPos < s.inp.size := by
        intro hne
        have : (s.inPos < s.inp.size || s.l2.seq == .lzma) = true := by
          cases hg : (s.inPos < s.inp.size || s.l2.seq == .lzma)
          · simp [hg] at hguard
          · rfl
        simp only [Bool.or_eq_true, decide_eq_true_eq, beq_iff_eq] at this
        rcases this with h | h
        · exact h
        · exact absurd h hne
      -- continuing the loop from a later state s1
      have cont : ∀ s1 : St, Cr s s1 → CopyInv s1 → s1.dp.needReset = s.dp.needReset → mu s1 < mu s →
          L2Post s (lzma2Loop fuel s1) := by
        intro s1 h1 hc1 hn1 hm1
        have hin1 : s1.inPos ≤ s1.inp.size := h1.pos_le hin
        have hlim1 : s1.dp.pos ≤ s1.dp.limit := h1.in_limit hlim
        exact (lzma2Loop_fuel fuel s1 hc1 hin1 hlim1 (by omega)).of_cont hn1 h1.pos_mono
      simp only []
      generalize (if hlt : s.inPos < s.inp.size then s.inp[s.inPos] else 0) = b8
      split
      · -- SEQ_CONTROL
        next hseq =>
        have hb := hbyte (by rw [hseq]; decide)
        have hnc : s.l2.seq ≠ .copy := by rw [hseq]; decide
        split
        · exact ⟨by simp, fun h => absurd h hnc, fun h => Or.inl h⟩
        · split
          · exact ⟨by simp, fun h => absurd h hnc, fun h => Or.inl h⟩
          · -- facts about controlApply
            have hca : ∀ a : ControlAction,
                (controlApply { s with inPos := s.inPos + 1 } a).l2.seq ≠ .copy
                ∧ (controlApply { s with inPos := s.inPos + 1 } a).l2.seq ≠ .lzma
                ∧ (controlApply { s with inPos := s.inPos + 1 } a).inPos = s.inPos + 1
                ∧ (controlApply { s with inPos := s.inPos + 1 } a).inp = s.inp
                ∧ (controlApply { s with inPos := s.inPos + 1 } a).dp = s.dp := by
              intro a
              unfold controlApply
              simp only []
              split
              · split
                · exact ⟨by simp [setL2, St.resetLzma], by simp [setL2, St.resetLzma], rfl, rfl, rfl⟩
                · exact ⟨by simp [setL2], by simp [setL2], rfl, rfl, rfl⟩
              · exact ⟨by simp [setL2], by simp [setL2], rfl, rfl, rfl⟩
            have c1 : Cr s { s with inPos := s.inPos + 1 } := Cr.of_byte hb rfl rfl rfl rfl rfl rfl rfl
            have c2 := fun a => c1.trans (cr_controlApply { s with inPos := s.inPos + 1 } a)
            split
            · refine ⟨by simp, fun h => absurd h (hca _).1, fun _ => Or.inr ?_⟩
              show s.inPos < (controlApply { s with inPos := s.inPos + 1 } _).inPos
              rw [(hca _).2.2.1]; omega
            · refine cont _ (c2 _) (fun h => absurd h (hca _).1) (by rw [(hca _).2.2.2.2]) ?_
              unfold mu
              rw [(hca _).2.2.1, (hca _).2.2.2.1]
              simp only [(hca _).2.1, if_false, hseq]
              have : (L2Seq.control = L2Seq.lzma) = False := by simp
              simp only [this, if_false]
              omega
      · -- SEQ_UNCOMPRESSED_1
        next hseq =>
        have hb := hbyte (by rw [hseq]; decide)
        refine cont _ (Cr.of_byte hb rfl rfl rfl rfl rfl rfl rfl) (fun h => by simp [setL2] at h) rfl ?_
        unfold mu; simp [setL2, hseq]; omega
      · -- SEQ_UNCOMPRESSED_2
        next hseq =>
        have hb := hbyte (by rw [hseq]; decide)
        refine cont _ (Cr.of_byte hb rfl rfl rfl rfl rfl rfl rfl) (fun h => by simp [setL2] at h) rfl ?_
        unfold mu; simp [setL2, hseq]; omega
      · -- SEQ_COMPRESSED_0
        next hseq =>
        have hb := hbyte (by rw [hseq]; decide)
        refine cont _ (Cr.of_byte hb rfl rfl rfl rfl rfl rfl rfl) (fun h => by simp [setL2] at h) rfl ?_
        unfold mu; simp [setL2, hseq]; omega
      · -- SEQ_COMPRESSED_1
        next hseq =>
        have hb := hbyte (by rw [hseq]; decide)
        refine cont _ (Cr.of_byte hb rfl rfl rfl rfl rfl rfl rfl) (fun _ => by simp [setL2]) rfl ?_
        unfold mu; simp only [setL2, hseq]
        by_cases hn : s.l2.nextSeq = L2Seq.lzma <;> simp [hn] <;> omega
      · -- SEQ_PROPERTIES
        next hseq =>
        have hb := hbyte (by rw [hseq]; decide)
        have hnc : s.l2.seq ≠ .copy := by rw [hseq]; decide
        split
        · exact ⟨by simp, fun h => absurd h hnc, fun h => Or.inl h⟩
        · refine cont _ (Cr.of_byte hb rfl rfl rfl rfl rfl rfl rfl) (fun h => by simp [setL2, St.resetLzma] at h) rfl ?_
          unfold mu; simp [setL2, St.resetLzma, hseq]; omega
      · -- SEQ_LZMA
        next hseq =>
        have hsp := lzmaCall_spec s hlim
        have hcall := hsp.1.toCr
        have hnr := hsp.1.needReset
        have hl2 := hsp.1.l2
        have hret := hsp.2
        generalize hc : lzmaCall s = r at hcall hnr hl2 hret
        obtain ⟨ret, s1⟩ := r
        have hcall' : Cr s s1 := hcall
        have hnr' : s1.dp.needReset = s.dp.needReset := hnr
        have hl2' : s1.l2 = s.l2 := hl2
        have hret' : ret ≠ .progError := hret
        have hseq1 : s1.l2.seq = .lzma := by rw [hl2']; exact hseq
        simp only []
        split
        · refine ⟨by simp, fun h => ?_, fun h => ?_⟩
          · rw [hseq1] at h; cases h
          · left; rw [← hnr']; exact h
        · split
          · refine ⟨hret', fun h => ?_, fun h => by left; rw [← hnr']; exact h⟩
            simp [setL2, hseq1] at h
          · split
            · refine ⟨by simp, fun h => ?_, fun h => by left; rw [← hnr']; exact h⟩
              simp [setL2, hseq1] at h
            · refine cont _ (hcall'.trans (Cr.of_same rfl rfl rfl rfl rfl rfl rfl)) (fun h => by simp [setL2] at h) hnr' ?_
              have := hcall'.pos_mono; have := hcall'.inp
              unfold mu; simp [setL2, hseq, *]; omega
      · -- SEQ_COPY
        next hseq =>
        have hc1 := hcopy hseq
        have hw := cr_dictWrite s s.l2.compressedSize hin
        have hwn : (dictWrite s s.l2.compressedSize).2.inPos = s.inPos + (dictWrite s s.l2.compressedSize).1
            ∧ (dictWrite s s.l2.compressedSize).2.l2 = s.l2
            ∧ (dictWrite s s.l2.compressedSize).2.dp.needReset = s.dp.needReset
            ∧ (dictWrite s s.l2.compressedSize).2.inp = s.inp := by
          unfold dictWrite; exact ⟨rfl, rfl, rfl, rfl⟩
        generalize hd : dictWrite s s.l2.compressedSize = r at hw hwn
        obtain ⟨n, s1⟩ := r
        have hw' : Cr s s1 := hw
        obtain ⟨e1, e2, e3, e4⟩ := hwn
        simp only [] at e1 e2 e3 e4 ⊢
        split
        · next hne =>
          refine ⟨by simp, fun _ => ?_, fun h => by left; rw [← e3]; exact h⟩
          simp only [setL2] at hne ⊢
          rw [e2] at hne ⊢
          simp at hne
          omega
        · next heq =>
          simp only [setL2] at heq
          rw [e2] at heq
          simp at heq
          refine cont _ (hw'.trans (Cr.of_same rfl rfl rfl rfl rfl rfl rfl)) (fun h => by simp [setL2] at h) e3 ?_
          have hle := hw'.pos_le hin
          rw [e1, e4] at hle
          unfold mu; simp [setL2, hseq, e1, e4]; omega


/-! ### `decode_buffer` -/

/-- what `decodeBuffer` needs from the inner coder to make progress: the coder relation, never LZMA_PROG_ERROR, its own
    invariant `K` (which only depends on the LZMA2 layer), and a dictionary reset request only after consuming input -/
structure CodeOk (K : St → Prop) (code : St → Ret × St) : Prop where
  spec : ∀ s, K s → s.inPos ≤ s.inp.size → s.dp.pos ≤ s.dp.limit →
    Cr s (code s).2 ∧ (code s).1 ≠ .progError ∧ K (code s).2
    ∧ ((code s).2.dp.needReset = true → s.dp.needReset = true ∨ s.inPos < (code s).2.inPos)
  frame : ∀ s s', K s → s'.l2 = s.l2 → K s'

/-- state of the LZ layer between calls -/
structure LzOk (s : St) : Prop where
  noReset : s.dp.needReset = false
  size_ge : 576 ≤ s.dp.size
  pos_le : s.dp.pos ≤ s.dp.size

/-- termination measure of the `decode_buffer` loop -/
def nu (s : St) (outSize : Nat) : Nat := (s.inp.size - s.inPos) + (outSize - s.produced)

theorem decodeBuffer_fuel (K : St → Prop) (code : St → Ret × St) (hc : CodeOk K code) :
    ∀ (fuel outSize : Nat) (s : St), LzInv s outSize → LzOk s → K s → nu s outSize < fuel →
      (decodeBuffer code fuel outSize s).1 ≠ .progError
      ∧ LzOk (decodeBuffer code fuel outSize s).2 ∧ K (decodeBuffer code fuel outSize s).2
  | 0, outSize, s, _, _, _, hnu => by omega
  | fuel + 1, outSize, s, hinv, hok, hk, hnu => by
    unfold decodeBuffer
    simp only []
    generalize hs1 : ({ s with dp := (s.dp.wrap).setLimit (outSize - s.produced) } : St) = s1
    have hb := setLimit_wrap_bounds s.dp (outSize - s.produced)
    have e_inp : s1.inp = s.inp := by rw [← hs1]
    have e_pos : s1.inPos = s.inPos := by rw [← hs1]
    have e_hist : s1.hist = s.hist := by rw [← hs1]
    have e_ob : s1.outBase = s.outBase := by rw [← hs1]
    have e_l2 : s1.l2 = s.l2 := by rw [← hs1]
    have e_dp : s1.dp = (s.dp.wrap).setLimit (outSize - s.produced) := by rw [← hs1]
    -- facts about the dictionary positions after wrap + limit
    have hsz := hok.size_ge; have hpl := hok.pos_le; have hnr := hok.noReset
    have dfacts : s1.dp.size = s.dp.size ∧ s1.dp.needReset = false ∧ s1.dp.pos < s1.dp.size ∧ s1.dp.limit ≤ s1.dp.size := by
      rw [e_dp]
      unfold DictPos.setLimit DictPos.wrap
      by_cases hw : s.dp.pos = s.dp.size
      · simp only [hw, beq_self_eq_true, if_true, LZ_DICT_REPEAT_MAX]
        refine ⟨trivial, hnr, by omega, ?_⟩
        have := Nat.min_le_right (outSize - s.produced) (s.dp.size - 288); omega
      · have : (s.dp.pos == s.dp.size) = false := by simpa using hw
        simp only [this, Bool.false_eq_true, if_false]
        refine ⟨trivial, hnr, by omega, ?_⟩
        have := Nat.min_le_right (outSize - s.produced) (s.dp.size - s.dp.pos); omega
    have hin1 : s1.inPos ≤ s1.inp.size := by rw [e_inp, e_pos]; exact hinv.inp_ok
    have hlim1 : s1.dp.pos ≤ s1.dp.limit := by rw [e_dp]; exact hb.1
    have hk1 : K s1 := hc.frame s s1 hk e_l2
    have hsp := hc.spec s1 hk1 hin1 hlim1
    generalize hr : code s1 = r at hsp
    obtain ⟨ret, s2⟩ := r
    obtain ⟨hcr, hret, hk2, hrs⟩ := hsp
    have hcr' : Cr s1 s2 := hcr
    have hret' : ret ≠ .progError := hret
    have hk2' : K s2 := hk2
    have hrs' : s2.dp.needReset = true → s1.dp.needReset = true ∨ s1.inPos < s2.inPos := hrs
    have a1 := hcr'.inp; have a2 := hcr'.pos_mono; have a3 := hcr'.pos_le hin1; have a4 := hcr'.outBase
    have a5 := hcr'.hist_eq; have a6 := hcr'.in_limit hlim1; have a7 := hcr'.limit; have a8 := hcr'.dpos_mono
    have a9 := hcr'.size
    have hb2 := hb.2
    rw [← e_dp] at hb2
    have hbase := hinv.base_ok; have hout := hinv.out_ok
    have hprod : s.produced = s.hist.size - s.outBase := rfl
    rw [e_hist] at a5
    have inv2 : LzInv s2 outSize := by
      refine ⟨a3, ?_, ?_⟩
      · rw [a4, e_ob]; omega
      · rw [a4, e_ob]; omega
    have hprod2 : s2.produced = s2.hist.size - s2.outBase := rfl
    simp only []
    split
    · -- a dictionary reset was requested
      next hreset =>
      have hlt : s.inPos < s2.inPos := by
        rcases hrs' hreset with h | h
        · rw [dfacts.2.1] at h; cases h
        · rw [← e_pos]; exact h
      have ok3 : LzOk ({ s2 with dp := s2.dp.reset } : St) := by
        refine ⟨rfl, ?_, ?_⟩
        · show 576 ≤ s2.dp.size; rw [a9, dfacts.1]; exact hsz
        · show LZ_DICT_INIT_POS ≤ s2.dp.size; rw [a9, dfacts.1]; exact hsz
      have inv3 : LzInv ({ s2 with dp := s2.dp.reset } : St) outSize := ⟨inv2.inp_ok, inv2.base_ok, inv2.out_ok⟩
      have hk3 : K ({ s2 with dp := s2.dp.reset } : St) := hc.frame s2 _ hk2' rfl
      split
      · exact ⟨hret', ok3, hk3⟩
      · refine decodeBuffer_fuel K code hc fuel outSize _ inv3 ok3 hk3 ?_
        have hn : nu ({ s2 with dp := s2.dp.reset } : St) outSize = (s2.inp.size - s2.inPos) + (outSize - s2.produced) := rfl
        rw [hn, hprod2, a4, e_ob, a1, e_inp]
        unfold nu at hnu
        rw [hprod] at hnu
        rw [a1, e_inp] at a3
        omega
    · next hnoreset =>
      have hnr2 : s2.dp.needReset = false := by
        cases h : s2.dp.needReset
        · rfl
        · exact absurd h hnoreset
      have ok2 : LzOk s2 := by
        refine ⟨hnr2, by rw [a9, dfacts.1]; exact hsz, ?_⟩
        have := dfacts.2.2.2; rw [a9]; omega
      split
      · exact ⟨hret', ok2, hk2'⟩
      · next hcont =>
        refine decodeBuffer_fuel K code hc fuel outSize _ inv2 ok2 hk2' ?_
        -- the loop continues only when the dictionary is full: pos advanced, so output was produced
        have hfull : ¬ (s2.dp.pos < s2.dp.size) := by
          intro hlt; apply hcont; simp [hlt]
        have hd3 := dfacts.2.2.1; have hd4 := dfacts.2.2.2
        unfold nu at hnu ⊢
        rw [hprod] at hnu
        rw [hprod2, a4, e_ob, a1, e_inp]
        rw [a1, e_inp] at a3
        have ho := inv2.out_ok
        rw [a4, e_ob] at ho
        rw [e_pos] at a2
        omega

/-- extended well-formedness of a coder between calls -/
structure Coder.Ok2 (c : Coder) : Prop where
  ok : c.Ok
  lz : LzOk c.s
  copy : c.kind = .lzma2 → CopyInv c.s

theorem codeOk_lzma1 : CodeOk (fun _ => True) lzmaCall where
  spec := fun s _ _ hl => by
    have sp := lzmaCall_spec s hl
    refine ⟨sp.1.toCr, sp.2, trivial, fun h => ?_⟩
    left; rw [← sp.1.needReset]; exact h
  frame := fun _ _ _ _ => trivial

theorem codeOk_lzma2 : CodeOk CopyInv lzma2Call where
  spec := fun s hk hi hl => by
    have hmu : mu s < 2 * (s.inp.size - s.inPos) + 4 := by
      unfold mu; split <;> omega
    have hf := lzma2Loop_fuel (2 * (s.inp.size - s.inPos) + 4) s hk hi hl hmu
    exact ⟨lzma2Call_spec s hi hl, hf.ret, hf.copyInv, hf.reset⟩
  frame := fun s s' hk hl => by
    unfold CopyInv at *
    rw [hl]; exact hk

/-- One call of `code` on a well-formed coder never answers LZMA_PROG_ERROR (no loop runs out of fuel), and the coder
    stays well formed. -/
theorem Coder.code_no_prog_error (c : Coder) (outCap : Nat) (h : c.Ok2) :
    (c.code outCap).1 ≠ .progError ∧ (c.code outCap).2.Ok2 := by
  have hinv : LzInv c.s (c.s.produced + outCap) := ⟨h.ok.1, h.ok.2, by unfold St.produced; omega⟩
  have hnu : nu c.s (c.s.produced + outCap) < decodeBufferFuel c.s (c.s.produced + outCap) := by
    unfold nu decodeBufferFuel; omega
  have hspec := Coder.code_spec c outCap h.ok
  unfold Coder.code at hspec ⊢
  simp only [] at hspec ⊢
  split
  · next hk =>
    rw [hk] at hspec
    simp only [] at hspec
    have hf := decodeBuffer_fuel (fun _ => True) lzmaCall codeOk_lzma1 _ _ c.s hinv h.lz trivial hnu
    exact ⟨hf.1, ⟨hspec.1, hf.2.1, fun hc => by cases hc⟩⟩
  · next hk =>
    rw [hk] at hspec
    simp only [] at hspec
    have hf := decodeBuffer_fuel CopyInv lzma2Call codeOk_lzma2 _ _ c.s hinv h.lz (h.copy hk) hnu
    exact ⟨hf.1, ⟨hspec.1, hf.2.1, fun _ => hf.2.2⟩⟩


theorem lzOk_init (dictSize presetLen : Nat) (s : St) (h : s.dp = DictPos.init dictSize presetLen) : LzOk s := by
  refine ⟨by rw [h]; rfl, ?_, ?_⟩
  · rw [h]; unfold DictPos.init allocSize; simp only [LZ_DICT_REPEAT_MAX]; omega
  · rw [h]; unfold DictPos.init allocSize
    simp only [LZ_DICT_REPEAT_MAX, LZ_DICT_INIT_POS]
    have := Nat.min_le_right presetLen (roundDictSize dictSize)
    omega

theorem Coder.ok2_initLzma1 (props : Props) (d : Nat) (u : Option Nat) (a : Bool) (preset : List UInt8) (input : ByteArray) :
    (Coder.initLzma1 props d u a preset input).Ok2 :=
  ⟨Coder.ok_initLzma1 _ _ _ _ _ _, lzOk_init d preset.length _ rfl, fun h => by cases h⟩

theorem Coder.ok2_initLzma2 (d : Nat) (preset : List UInt8) (input : ByteArray) : (Coder.initLzma2 d preset input).Ok2 :=
  ⟨Coder.ok_initLzma2 _ _ _, lzOk_init d preset.length _ rfl, fun _ h => by cases h⟩

end XzVerif.Lzma2
