/-
  The loop fuels of `lzma2Loop` and `decodeBuffer` (Model/Lzma2.lean, Model/Lzma.lean) are never exhausted:
  the model never answers LZMA_PROG_ERROR. (`symLoop`: Lemmas/C03Call.lean.)
-/
import XzVerif.Lemmas.C03Coder

namespace XzVerif.Lzma2
open XzVerif.RangeDec XzVerif.LzDict XzVerif.Lzma

/-- termination measure of `lzma2_decode`'s loop: two per remaining input byte, plus one while in SEQ_LZMA -/
def mu (s : St) : Nat := 2 * (s.inp.size - s.inPos) + (if s.l2.seq = .lzma then 1 else 0)

/-- in SEQ_COPY at least one byte is still to be copied -/
def CopyInv (s : St) : Prop := s.l2.seq = .copy → 1 ≤ s.l2.compressedSize

/-- what the fuel theorem establishes for one run of the loop -/
structure L2Post (s : St) (r : Ret × St) : Prop where
  ret : r.1 ≠ .progError
  copyInv : CopyInv r.2
  reset : r.2.dp.needReset = true → s.dp.needReset = true ∨ s.inPos < r.2.inPos

theorem L2Post.of_cont {s s1 : St} {r : Ret × St} (h : L2Post s1 r) (hn : s1.dp.needReset = s.dp.needReset)
    (hp : s.inPos ≤ s1.inPos) : L2Post s r :=
  ⟨h.ret, h.copyInv, fun hr => by
    rcases h.reset hr with h1 | h1
    · left; rw [← hn]; exact h1
    · right; omega⟩

theorem lzma2Loop_fuel : ∀ (fuel : Nat) (s : St), CopyInv s → s.inPos ≤ s.inp.size → s.dp.pos ≤ s.dp.limit →
    mu s < fuel → L2Post s (lzma2Loop fuel s)
  | 0, s, _, _, _, hmu => by omega
  | fuel + 1, s, hcopy, hin, hlim, hmu => by
    unfold lzma2Loop
    split
    · exact ⟨by simp, hcopy, fun h => Or.inl h⟩
    · next hguard =>
      have hbyte : s.l2.seq ≠ .lzma → s.inPos < s.inp.size := by
        intro hne
        have : (s.inPos < s.inp.size || s.l2.seq == .lzma) = true := by
          cases hg : (s.inPos < s.inp.size || s.l2.seq == .lzma)
          · simp [hg] at hguard
          · rfl
        simp only [Bool.or_eq_true, decide_eq_true_eq, beq_iff_eq] at this
        rcases this with h | h
        · exact h
        · exact absurd h hne
      -- continuing the loop from a later state s1
      have cont : ∀ s1 : St, Cr s s1 → CopyInv s1 → s1.dp.needReset = s.dp.needReset → mu s1 < mu s →
          L2Post s (lzma2Loop fuel s1) := by
        intro s1 h1 hc1 hn1 hm1
        have hin1 : s1.inPos ≤ s1.inp.size := h1.pos_le hin
        have hlim1 : s1.dp.pos ≤ s1.dp.limit := h1.in_limit hlim
        exact (lzma2Loop_fuel fuel s1 hc1 hin1 hlim1 (by omega)).of_cont hn1 h1.pos_mono
      simp only []
      generalize (if hlt : s.inPos < s.inp.size then s.inp[s.inPos] else 0) = b8
      split
      · -- SEQ_CONTROL
        next hseq =>
        have hb := hbyte (by rw [hseq]; decide)
        have hnc : s.l2.seq ≠ .copy := by rw [hseq]; decide
        split
        · exact ⟨by simp, fun h => absurd h hnc, fun h => Or.inl h⟩
        · split
          · exact ⟨by simp, fun h => absurd h hnc, fun h => Or.inl h⟩
          · -- facts about controlApply
            have hca : ∀ a : ControlAction,
                (controlApply { s with inPos := s.inPos + 1 } a).l2.seq ≠ .copy
                ∧ (controlApply { s with inPos := s.inPos + 1 } a).l2.seq ≠ .lzma
                ∧ (controlApply { s with inPos := s.inPos + 1 } a).inPos = s.inPos + 1
                ∧ (controlApply { s with inPos := s.inPos + 1 } a).inp = s.inp
                ∧ (controlApply { s with inPos := s.inPos + 1 } a).dp = s.dp := by
              intro a
              unfold controlApply
              simp only []
              split
              · split
                · exact ⟨by simp [setL2, St.resetLzma], by simp [setL2, St.resetLzma], rfl, rfl, rfl⟩
                · exact ⟨by simp [setL2], by simp [setL2], rfl, rfl, rfl⟩
              · exact ⟨by simp [setL2], by simp [setL2], rfl, rfl, rfl⟩
            have c1 : Cr s { s with inPos := s.inPos + 1 } := Cr.of_byte hb rfl rfl rfl rfl rfl rfl rfl
            have c2 := fun a => c1.trans (cr_controlApply { s with inPos := s.inPos + 1 } a)
            split
            · refine ⟨by simp, fun h => absurd h (hca _).1, fun _ => Or.inr ?_⟩
              show s.inPos < (controlApply { s with inPos := s.inPos + 1 } _).inPos
              rw [(hca _).2.2.1]; omega
            · refine cont _ (c2 _) (fun h => absurd h (hca _).1) (by rw [(hca _).2.2.2.2]) ?_
              unfold mu
              rw [(hca _).2.2.1, (hca _).2.2.2.1]
              simp only [(hca _).2.1, if_false, hseq]
              have : (L2Seq.control = L2Seq.lzma) = False := by simp
              simp only [this, if_false]
              omega
      · -- SEQ_UNCOMPRESSED_1
        next hseq =>
        have hb := hbyte (by rw [hseq]; decide)
        refine cont _ (Cr.of_byte hb rfl rfl rfl rfl rfl rfl rfl) (fun h => by simp [setL2] at h) rfl ?_
        unfold mu; simp [setL2, hseq]; omega
      · -- SEQ_UNCOMPRESSED_2
        next hseq =>
        have hb := hbyte (by rw [hseq]; decide)
        refine cont _ (Cr.of_byte hb rfl rfl rfl rfl rfl rfl rfl) (fun h => by simp [setL2] at h) rfl ?_
        unfold mu; simp [setL2, hseq]; omega
      · -- SEQ_COMPRESSED_0
        next hseq =>
        have hb := hbyte (by rw [hseq]; decide)
        refine cont _ (Cr.of_byte hb rfl rfl rfl rfl rfl rfl rfl) (fun h => by simp [setL2] at h) rfl ?_
        unfold mu; simp [setL2, hseq]; omega
      · -- SEQ_COMPRESSED_1
        next hseq =>
        have hb := hbyte (by rw [hseq]; decide)
        refine cont _ (Cr.of_byte hb rfl rfl rfl rfl rfl rfl rfl) (fun _ => by simp [setL2]) rfl ?_
        unfold mu; simp only [setL2, hseq]
        by_cases hn : s.l2.nextSeq = L2Seq.lzma <;> simp [hn] <;> omega
      · -- SEQ_PROPERTIES
        next hseq =>
        have hb := hbyte (by rw [hseq]; decide)
        have hnc : s.l2.seq ≠ .copy := by rw [hseq]; decide
        split
        · exact ⟨by simp, fun h => absurd h hnc, fun h => Or.inl h⟩
        · refine cont _ (Cr.of_byte hb rfl rfl rfl rfl rfl rfl rfl) (fun h => by simp [setL2, St.resetLzma] at h) rfl ?_
          unfold mu; simp [setL2, St.resetLzma, hseq]; omega
      · -- SEQ_LZMA
        next hseq =>
        have hsp := lzmaCall_spec s hlim
        have hcall := hsp.1.toCr
        have hnr := hsp.1.needReset
        have hl2 := hsp.1.l2
        have hret := hsp.2
        generalize hc : lzmaCall s = r at hcall hnr hl2 hret
        obtain ⟨ret, s1⟩ := r
        have hcall' : Cr s s1 := hcall
        have hnr' : s1.dp.needReset = s.dp.needReset := hnr
        have hl2' : s1.l2 = s.l2 := hl2
        have hret' : ret ≠ .progError := hret
        have hseq1 : s1.l2.seq = .lzma := by rw [hl2']; exact hseq
        simp only []
        split
        · refine ⟨by simp, fun h => ?_, fun h => ?_⟩
          · rw [hseq1] at h; cases h
          · left; rw [← hnr']; exact h
        · split
          · refine ⟨hret', fun h => ?_, fun h => by left; rw [← hnr']; exact h⟩
            simp [setL2, hseq1] at h
          · split
            · refine ⟨by simp, fun h => ?_, fun h => by left; rw [← hnr']; exact h⟩
              simp [setL2, hseq1] at h
            · refine cont _ (hcall'.trans (Cr.of_same rfl rfl rfl rfl rfl rfl rfl)) (fun h => by simp [setL2] at h) hnr' ?_
              have := hcall'.pos_mono; have := hcall'.inp
              unfold mu; simp [setL2, hseq, *]; omega
      · -- SEQ_COPY
        next hseq =>
        have hc1 := hcopy hseq
        have hw := cr_dictWrite s s.l2.compressedSize hin
        have hwn : (dictWrite s s.l2.compressedSize).2.inPos = s.inPos + (dictWrite s s.l2.compressedSize).1
            ∧ (dictWrite s s.l2.compressedSize).2.l2 = s.l2
            ∧ (dictWrite s s.l2.compressedSize).2.dp.needReset = s.dp.needReset
            ∧ (dictWrite s s.l2.compressedSize).2.inp = s.inp := by
          unfold dictWrite; exact ⟨rfl, rfl, rfl, rfl⟩
        generalize hd : dictWrite s s.l2.compressedSize = r at hw hwn
        obtain ⟨n, s1⟩ := r
        have hw' : Cr s s1 := hw
        obtain ⟨e1, e2, e3, e4⟩ := hwn
        simp only [] at e1 e2 e3 e4 ⊢
        split
        · next hne =>
          refine ⟨by simp, fun _ => ?_, fun h => by left; rw [← e3]; exact h⟩
          simp only [setL2] at hne ⊢
          rw [e2] at hne ⊢
          simp at hne
          omega
        · next heq =>
          simp only [setL2] at heq
          rw [e2] at heq
          simp at heq
          refine cont _ (hw'.trans (Cr.of_same rfl rfl rfl rfl rfl rfl rfl)) (fun h => by simp [setL2] at h) e3 ?_
          have hle := hw'.pos_le hin
          rw [e1, e4] at hle
          unfold mu; simp [setL2, hseq, e1, e4]; omega

end XzVerif.Lzma2
