/-
  C12: the end-marker theorem of Lemmas/FlushTruncP.lean (LZMA2 chunk sequences with lc/lp/pb changes, `ChunksP`) with output
  space for EXACTLY the data (`buf.size ≤ outCap`; FlushTruncP asks for one spare byte).  As in Lemmas/E2ECap.lean for `Chunks`:
  `lzma2_decode` reads the end marker in the same call that fills the last output byte, and the strict bound was only used
  to show "output space is not yet exhausted" in states that still have data to produce.
-/
import XzVerif.Lemmas.FlushTruncP

namespace XzVerif.LzmaExec
open XzVerif.RangeDec XzVerif.RangeEnc XzVerif.RangeCoder XzVerif.LzDict XzVerif.Lzma XzVerif.LzmaEnc XzVerif.LzmaSymDec
open XzVerif.LzmaSym XzVerif.LzmaSpec XzVerif.Lzma2Enc XzVerif.Lzma2

/-- `db2_runP` for the end-marker case with output space for EXACTLY the data (`CF.off ≤ outSize`) -/
theorem db2_runP_le (dictSize : Nat) (hd : dictSize ≤ 4294967295) (buf : ByteArray) (base : Nat) (p' : Props)
    (CF : L2Cfg) (outSize : Nat) :
    ∀ (n fuel : Nat) (s : St), ReadyP dictSize buf base p' CF true s → s.outBase + CF.off - s.hist.size = n →
      s.outBase ≤ s.hist.size → CF.off ≤ outSize → n + 1 < fuel →
      ∃ sF, decodeBuffer lzma2Call fuel outSize s = (Ret.streamEnd, sF) ∧ Win sF (win buf (base + CF.off)) dictSize ∧
        sF.hist.size = sF.outBase + CF.off ∧ In sF [] ∧ sF.outBase = s.outBase ∧ sF.inp = s.inp := by
  intro n
  induction n using Nat.strong_induction_on with
  | _ n ih =>
    intro fuel s hr hn hob hcap hfuel
    obtain ⟨f, rfl⟩ : ∃ f, fuel = f + 1 := ⟨fuel - 1, by omega⟩
    obtain ⟨⟨rb, hwin⟩, hnr, hle⟩ := readyP_facts hr
    obtain ⟨_, _, _, hroom, hlt, hsz, hnr1⟩ := win_relimit hwin (outSize - s.produced)
    have hr1 := readyP_relimit hr (outSize - s.produced)
    rw [decodeBuffer_succ]
    generalize hs1 : relimit s (outSize - s.produced) = s1 at *
    have hh1 : s1.hist = s.hist := by rw [← hs1]; rfl
    have hob1 : s1.outBase = s.outBase := by rw [← hs1]; rfl
    have hinp1 : s1.inp = s.inp := by rw [← hs1]; rfl
    rcases run_readyP dictSize hd buf base p' CF true s1 hr1 with ⟨sF, hrun, hwF, hpF, hiF, hkF, hbF⟩ | ⟨s', hrun, hpa, hk, hpos⟩
    · rw [lzma2Call_eq]
      have hnrF : sF.dp.needReset = false := by rw [hkF.needReset, hnr1]; exact hnr
      have hobF : sF.outBase = s.outBase := by rw [hkF.outBase, hob1]
      have hinpF : sF.inp = s.inp := by rw [hkF.inp, hinp1]
      rw [retOf_true] at hrun
      rw [hrun]
      simp only [hnrF, Bool.false_eq_true, if_false, show (Ret.streamEnd != Ret.ok) = true from rfl, Bool.true_or, if_true]
      exact ⟨sF, rfl, hwF, hpF, hiF, hobF, hinpF⟩
    · rw [lzma2Call_eq, hrun]
      have hnr' : s'.dp.needReset = false := by rw [hk.needReset, hnr1]; exact hnr
      have hlt' := pausedP_facts hpa
      have hob' : s'.outBase = s.outBase := by rw [hk.outBase, hob1]
      have hgrow := hk.grow
      rw [hh1] at hgrow
      have hne : (s'.produced == outSize) = false := by
        simp only [St.produced, beq_eq_false_iff_ne, ne_eq]; omega
      -- the pause is because the dictionary (not the output space) is full
      have hhp := hk.histpos
      rw [hh1] at hhp
      have hposlt : ¬ s'.dp.pos < s'.dp.size := by
        rw [hpos, hk.size]
        intro hlt2
        have hlim : s1.dp.limit - s1.dp.pos = outSize - s.produced := by omega
        simp only [St.produced] at hlim
        omega
      simp only [hnr', Bool.false_eq_true, if_false, show (Ret.ok != Ret.ok) = false from rfl, hne, Bool.false_or,
        decide_eq_true_eq, hposlt]
      have hsize' : s1.dp.pos < s'.dp.pos := by
        have : s'.dp.pos = s1.dp.size := by have := hk.size; omega
        omega
      obtain ⟨sF, hrunF, hwF, hpF, hiF, hobF, hinpF⟩ := ih (s'.outBase + CF.off - s'.hist.size) (by omega) f s'
        (ReadyP.paused hpa) rfl (by omega) hcap (by omega)
      exact ⟨sF, hrunF, hwF, hpF, hiF, by rw [hobF, hob'], by rw [hinpF, hk.inp, hinp1]⟩

/-- The executable LZMA2 decoder on a chunk sequence with lc/lp/pb changes (`ChunksP`) + end marker, with output space for
    exactly the data and the `base` bytes before the data as preset dictionary. -/
theorem lzma2Decode_of_chunksP_le_base (p : Props) (hp : PropsOk p) (dictSize : Nat) (hd : dictSize ≤ 4294967295)
    (buf : ByteArray) (base : Nat) (hbase : base ≤ buf.size) (sw : Bool) (bytes : List UInt8) (p' : Props) (CF : L2Cfg)
    (hch : ChunksP dictSize buf base sw p (cfg0 p base) bytes p' CF) (hoff : CF.off = buf.size - base) (outCap : Nat)
    (hcap : buf.size - base ≤ outCap) :
    lzma2Decode dictSize (bytes ++ [0]) ((hl buf).take base) outCap =
      { ret := .streamEnd, out := (hl buf).drop base, consumed := bytes.length + 1 } := by
  show lzma2Decode dictSize (bytes ++ tlOf true) ((hl buf).take base) outCap =
      { ret := Ret.streamEnd, out := (hl buf).drop base, consumed := bytes.length + (tlOf true).length }
  obtain ⟨c0off, c0pos, c0st, c0ps, c0np, c0sr, c0dr⟩ := cfg0_fields p base
  generalize hpreset : (hl buf).take base = preset
  have hplen : preset.length = base := by rw [← hpreset]; simp [hl_length]; omega
  unfold lzma2Decode Coder.code Coder.initLzma2
  simp only []
  generalize hs0 : initLzma2 dictSize preset (ByteArray.mk (bytes ++ tlOf true).toArray) = s0
  have hinp : s0.inp.data.toList = bytes ++ tlOf true := by rw [← hs0]; simp [initLzma2]
  have hf0 : s0.l2.seq = .control ∧ s0.l2.needProperties = true ∧ s0.l2.needDictionaryReset = preset.isEmpty ∧
      s0.initLeft = 5 ∧ s0.range = UINT32_MAX ∧ s0.code = 0 ∧ s0.pending = Pending.none ∧ s0.inPos = 0 ∧
      s0.dp = DictPos.init dictSize preset.length ∧ hl s0.hist = presetTail dictSize preset ∧
      s0.outBase = (presetTail dictSize preset).length := by
    rw [← hs0]
    refine ⟨rfl, rfl, rfl, rfl, rfl, rfl, rfl, rfl, rfl, ?_, rfl⟩
    simp [initLzma2, hl]
  obtain ⟨hseq0, hnp0, hndr0, hil0, hrg0, hcd0, hpd0, hip0, hdp0, hhl0, hob0⟩ := hf0
  have hwin0 : Win s0 (win buf base) dictSize := by
    have : win buf base = preset.reverse := by rw [← hpreset]; rfl
    rw [this]; exact win_init dictSize preset s0 hhl0 hdp0
  have hprod0 : s0.hist.size = s0.outBase + 0 := by rw [← hl_length, hhl0, hob0]; rfl
  have hin0 : In s0 (bytes ++ tlOf true) := by
    show s0.inp.data.toList.drop s0.inPos = _
    rw [hip0, hinp]; simp
  have hproduced0 : s0.produced = 0 := by simp only [St.produced]; omega
  have hsize0 : s0.inp.size = bytes.length + (tlOf true).length := by
    rw [← ByteArray.size_data, ← Array.length_toList, hinp, List.length_append]
  rw [hproduced0, Nat.zero_add]
  obtain ⟨fu, hfu⟩ : ∃ fu, decodeBufferFuel s0 outCap = fu + 2 := ⟨(s0.inp.size - s0.inPos) + (outCap - s0.produced) + 2, by
    simp only [decodeBufferFuel]⟩
  have hfuel : buf.size - base + 1 < fu + 1 := by
    have : decodeBufferFuel s0 outCap = (s0.inp.size - s0.inPos) + (outCap - s0.produced) + 4 := rfl
    rw [hproduced0] at this
    omega
  -- the cursor never leaves the input (coder law of `decode_buffer`)
  have hlaw := (decodeBuffer_spec lzma2Call (fun s hi hl => lzma2Call_spec s hi hl) (decodeBufferFuel s0 outCap) outCap s0
    ⟨by rw [hip0]; exact Nat.zero_le _, by omega, by omega⟩).1.inp_ok
  rw [hfu] at hlaw ⊢
  -- the claim, once `decode_buffer` has been run
  suffices hmain : ∃ sF, decodeBuffer lzma2Call (fu + 2) outCap s0 = (Ret.streamEnd, sF) ∧
      Win sF (win buf (base + CF.off)) dictSize ∧ sF.hist.size = sF.outBase + CF.off ∧ In sF [] ∧ sF.outBase = s0.outBase ∧
      sF.inp = s0.inp by
    obtain ⟨sF, hrun, hwF, hpF, hiF, hobF, hinpF⟩ := hmain
    rw [hrun] at hlaw ⊢
    have hleF : sF.inPos ≤ sF.inp.size := hlaw
    have hout : histFrom sF.hist sF.outBase = (hl buf).drop base := by
      obtain ⟨extra, hpre⟩ := hwF.pre
      show (hl sF.hist).drop sF.outBase = _
      have hfull : base + CF.off = buf.size := by omega
      rw [hfull, win_full] at hpre
      have hsplit : (hl buf).reverse = ((hl buf).drop base).reverse ++ ((hl buf).take base).reverse := by
        rw [← List.reverse_append, List.take_append_drop]
      rw [hsplit] at hpre
      have hdl : ((hl buf).drop base).length = CF.off := by simp [hl_length]; omega
      have htl : (presetTail dictSize preset).length ≤ ((hl buf).take base).length := by
        rw [hpreset]; simp only [presetTail, List.length_drop]; omega
      exact out_of_win (hl sF.hist) extra _ _ sF.outBase (by rw [hobF, hob0]; exact htl) hpre
        (by rw [hl_length, hpF, hdl])
    have hcons : sF.inPos = bytes.length + (tlOf true).length := by
      have := in_nil_ge hiF
      rw [hinpF] at this hleF
      omega
    simp only [Coder.output, Coder.consumed]
    rw [hout, hcons]
  by_cases hb0 : base = 0
  · -- no preset dictionary: the first control byte resets the dictionary
    subst hb0
    have hpe : preset = [] := List.eq_nil_of_length_eq_zero hplen
    have hndr0' : s0.l2.needDictionaryReset = true := by rw [hndr0, hpe]; rfl
    have hhist0 : s0.hist.size = 0 := by
      rw [← hl_length, hhl0, hpe]; simp [presetTail]
    have hob00 : s0.outBase = 0 := by rw [hob0, hpe]; simp [presetTail]
    have hdp00 : s0.dp = DictPos.init dictSize 0 := by rw [hdp0, hpe]; rfl
    obtain ⟨hm, hge, hal⟩ := allocSize_mod dictSize
    -- the first iteration
    rw [decodeBuffer_succ]
    generalize hs1 : relimit s0 (outCap - s0.produced) = s1
    have hs1f : s1.l2 = s0.l2 ∧ s1.inp = s0.inp ∧ s1.inPos = s0.inPos ∧ s1.hist = s0.hist ∧ s1.outBase = s0.outBase ∧
        s1.initLeft = 5 ∧ s1.range = UINT32_MAX ∧ s1.code = 0 ∧ s1.pending = Pending.none ∧
        s1.dp.pos = 576 ∧ s1.dp.full = 0 ∧ s1.dp.hasWrapped = false ∧ s1.dp.size = allocSize dictSize ∧
        576 ≤ s1.dp.limit ∧ s1.dp.limit ≤ s1.dp.size := by
      rw [← hs1]
      refine ⟨rfl, rfl, rfl, rfl, rfl, hil0, hrg0, hcd0, hpd0, ?_, ?_, ?_, ?_, ?_, ?_⟩
      all_goals simp only [relimit, hdp00, DictPos.init, DictPos.wrap, DictPos.setLimit, LZ_DICT_INIT_POS,
        Nat.zero_min, Nat.add_zero]
      all_goals (have : ((576 : Nat) == allocSize dictSize) = false := by simp; omega)
      all_goals simp only [this, Bool.false_eq_true, if_false]
      all_goals omega
    obtain ⟨h1l2, h1inp, h1ip, h1h, h1ob, h1il, h1rg, h1cd, h1pd, h1pos, h1full, h1wr, h1sz, h1lim, h1lim2⟩ := hs1f
    have hin1 : In s1 (bytes ++ tlOf true) := by
      show s1.inp.data.toList.drop s1.inPos = _; rw [h1inp, h1ip]; exact hin0
    -- the window of a state with empty history at the initial dictionary position
    have hwin_empty : ∀ t : St, t.hist = s1.hist → t.dp.pos = 576 → t.dp.full = 0 → t.dp.hasWrapped = false →
        t.dp.size = allocSize dictSize → 576 ≤ t.dp.limit → t.dp.limit ≤ t.dp.size → Win t (win buf (0 + 0)) dictSize := by
      intro t e1 e2 e3 e4 e5 e6 e7
      have hw0 : win buf (0 + 0) = [] := by simp [win]
      rw [hw0]
      have hts : t.hist.size = 0 := by rw [e1, h1h]; exact hhist0
      have hhl : hl t.hist = [] := List.eq_nil_of_length_eq_zero (by rw [hl_length]; exact hts)
      refine ⟨⟨[], by rw [hhl]; rfl⟩, by omega, Or.inl (by simp), e5, ?_, ?_, by omega, e7⟩
      · intro _; simp only [LZ_DICT_INIT_POS]; omega
      · intro h; rw [e4] at h; cases h
    have key : ∀ t : St, t.outBase = s0.outBase → t.inp = s0.inp → ReadyP dictSize buf 0 p' CF true t →
        t.outBase + CF.off - t.hist.size = buf.size - 0 → t.outBase ≤ t.hist.size →
        ∃ sF, decodeBuffer lzma2Call (fu + 1) outCap t = (Ret.streamEnd, sF) ∧ Win sF (win buf (0 + CF.off)) dictSize ∧
          sF.hist.size = sF.outBase + CF.off ∧ In sF [] ∧ sF.outBase = s0.outBase ∧ sF.inp = s0.inp := by
      intro t e1 e2 hr hn hob
      obtain ⟨sF, a, b', c, d, e, g⟩ := db2_runP_le dictSize hd buf 0 p' CF outCap (buf.size - 0) (fu + 1) t hr hn hob
        (by omega) hfuel
      exact ⟨sF, a, b', c, d, by rw [e, e1], by rw [g, e2]⟩
    have hnr1 : s1.dp.needReset = false := by
      rw [← hs1]; simp only [relimit, DictPos.setLimit, DictPos.wrap]; split <;> (rw [hdp00]; rfl)
    rcases chunksP_head hch (start_cfg0 p) hp with ⟨hbe, hcf0⟩ | ⟨sw', p1, C1, C2, b, bs, hp1, hst, hc, hrest, hbytes⟩
    · -- no chunk at all
      subst hbe
      have hin1' : In s1 (tlOf true) := hin1
      rw [lzma2Call_eq]
      obtain ⟨f1, hf1⟩ : ∃ f1, 2 * (s1.inp.size - s1.inPos) + 4 = f1 + 1 := ⟨_, rfl⟩
      have hwe : Win s1 (win buf (0 + CF.off)) dictSize := by
        rw [hcf0]; exact hwin_empty s1 rfl h1pos h1full h1wr h1sz h1lim h1lim2
      have hpe1 : s1.hist.size = s1.outBase + CF.off := by rw [h1h, h1ob, hcf0, hhist0, hob00]
      -- the stream is just the end marker
      rw [tlOf_true] at hin1'
      obtain ⟨hlt, hbyte, hdrop⟩ := curByte_of_drop (s := s1) (b := 0) (rest := []) hin1'
      have hcb : curByte s1 = 0 := by rw [hbyte]; rfl
      rw [hf1, loop_control f1 s1 hlt (by rw [h1l2]; exact hseq0)]
      simp only [hcb, ctl_end, if_true]
      simp only [hnr1, Bool.false_eq_true, if_false, show (Ret.streamEnd != Ret.ok) = true from rfl, Bool.true_or, if_true]
      exact ⟨_, rfl, hwe.congr rfl rfl, hpe1, hdrop, h1ob, h1inp⟩
    · subst hbytes
      have hin1' : In s1 (b ++ (bs ++ tlOf true)) := by rw [← List.append_assoc]; exact hin1
      obtain ⟨hsoff, hsnp, hsndr, hsfresh⟩ := hst
      -- there is data, so the (empty) output is not yet full
      have hCF1 : 1 ≤ CF.off := by
        have h2 := chunksP_off_le hrest
        cases hc with
        | lzma syms ops encPos' st' usize henc hlen hu1 hu2 hoffc hcs => simp only [] at h2; omega
        | uncomp usize encPos' st' ps' hu1 hu2 hoffc => simp only [] at h2; omega
      have hnotfull : (s1.hist.size - s1.outBase == outCap) = false := by
        simp only [h1h, h1ob, hhist0, hob00]; simp; omega
      -- the state after the dictionary reset requested by the first control byte
      cases hc with
      | lzma syms ops encPos' st' usize henc hlen hu1 hu2 hoffc hcs =>
        simp only [LZMA2_UNCOMPRESSED_MAX] at hu2
        have hx : (usize - 1) / 65536 < 32 := by omega
        simp only [headerLzma, hsnp, hsndr, if_true, List.cons_append, List.nil_append] at hin1'
        obtain ⟨hlt, hbyte, hdrop⟩ := curByte_of_drop hin1'
        have hcb : curByte s1 = (if true = true then (if true = true then 0x80 + 3 * 32 else 0x80 + 2 * 32)
            else (if C1.needStateReset = true then 0x80 + 32 else 0x80)) + (usize - 1) / 65536 := by
          rw [hbyte, ofNat_toNat_of_lt]
          · simp
          · simp; omega
        rw [lzma2Call_eq]
        obtain ⟨f1, hf1⟩ : ∃ f1, 2 * (s1.inp.size - s1.inPos) + 4 = f1 + 1 := ⟨_, rfl⟩
        rw [hf1, loop_control f1 s1 hlt (by rw [h1l2]; exact hseq0), hcb, h1l2, hnp0, hndr0',
          ctl_lzma true C1.needStateReset true _ hx (fun _ => rfl)]
        simp only [Bool.false_eq_true, if_false, if_true, controlApply, Bool.not_true, Bool.false_and]
        simp only [setL2, St.produced, hnotfull, show (Ret.ok != Ret.ok) = false from rfl, Bool.false_or, Bool.false_eq_true,
          if_false]
        -- now a ready state: after the control byte of the first LZMA chunk
        refine key _ h1ob h1inp
          (ReadyP.afterL (sw := sw') (p := p1) (C := C1) (syms := syms) (ops := ops) (encPos' := encPos') (st' := st')
            (usize := usize) (bytes' := bs) ?_ hp1 hrest) ?_ ?_
        · refine ⟨rfl, rfl, (by rw [if_pos hsnp]), rfl, rfl, (fun h => by rw [hsnp] at h; cases h), ?_, ?_, rfl, ?_, henc, hlen, hu1,
            (by simp only [LZMA2_UNCOMPRESSED_MAX]; exact hu2), hoffc, hcs, ?_⟩
          · intro _
            exact hsfresh
          · rw [hsoff]
            exact hwin_empty _ rfl rfl rfl rfl h1sz h1lim h1lim2
          · show s1.hist.size = s1.outBase + C1.off
            rw [h1h, h1ob, hsoff, hhist0, hob00]
          · simp only [hsnp, if_true]
            exact hdrop
        · show s1.outBase + CF.off - s1.hist.size = buf.size - 0
          rw [h1h, h1ob, hhist0, hob00, hoff]; omega
        · show s1.outBase ≤ s1.hist.size
          rw [h1h, h1ob, hhist0, hob00]
      | uncomp usize encPos' st' ps' hu1 hu2 hoffc =>
        simp only [headerUncompressed, hsndr, if_true, List.cons_append, List.nil_append] at hin1'
        obtain ⟨hlt, hbyte, hdrop⟩ := curByte_of_drop hin1'
        have hcb : curByte s1 = if true = true then 1 else 2 := by rw [hbyte]; rfl
        rw [lzma2Call_eq]
        obtain ⟨f1, hf1⟩ : ∃ f1, 2 * (s1.inp.size - s1.inPos) + 4 = f1 + 1 := ⟨_, rfl⟩
        rw [hf1, loop_control f1 s1 hlt (by rw [h1l2]; exact hseq0), hcb, h1l2, hnp0, hndr0', ctl_uncomp]
        simp only [Bool.false_eq_true, if_false, if_true, controlApply]
        simp only [setL2, St.produced, hnotfull, show (Ret.ok != Ret.ok) = false from rfl, Bool.false_or, Bool.false_eq_true,
          if_false]
        refine key _ h1ob h1inp
          (ReadyP.afterU (sw := sw') (p := p1) (C := C1) (usize := usize) (encPos' := encPos') (st' := st') (ps' := ps')
            (bytes' := bs) ?_ hp1 hrest) ?_ ?_
        · refine ⟨rfl, rfl, hsnp.symm, rfl, (fun h => by rw [hsnp] at h; cases h), h1il, h1rg, h1cd, h1pd, ?_, rfl, ?_, ?_, hu1, hu2,
            hoffc⟩
          · rw [hsoff]
            exact hwin_empty _ rfl rfl rfl rfl h1sz h1lim h1lim2
          · show s1.hist.size = s1.outBase + C1.off
            rw [h1h, h1ob, hsoff, hhist0, hob00]
          · exact hdrop
        · show s1.outBase + CF.off - s1.hist.size = buf.size - 0
          rw [h1h, h1ob, hhist0, hob00, hoff]; omega
        · show s1.outBase ≤ s1.hist.size
          rw [h1h, h1ob, hhist0, hob00]
  · -- preset dictionary: no dictionary reset; the initial state is a chunk boundary
    have hbpos : base > 0 := by omega
    have hc0dr : (cfg0 p base).needDictReset = false := by rw [c0dr]; simp [hbpos]
    have hpne : preset.isEmpty = false := by
      cases preset with
      | nil => simp at hplen; omega
      | cons _ _ => rfl
    have hb : BSt p dictSize buf base (cfg0 p base) s0 :=
      ⟨hseq0, hnp0.trans c0np.symm, (by rw [hndr0, hpne]), hc0dr, (fun h => by rw [c0np] at h; cases h), hil0, hrg0, hcd0, hpd0,
        (by rw [c0off]; exact hwin0), (fun h => by rw [c0np] at h; cases h), (by rw [hdp0]; rfl), (fun _ _ => ⟨c0st, c0ps⟩),
        (by rw [c0off]; omega), (by rw [c0off]; exact hprod0)⟩
    exact db2_runP_le dictSize hd buf base p' CF outCap (buf.size - base) (fu + 2) s0
      (ReadyP.boundary hb (DV.refl _ _) hp hch hin0) (by rw [hprod0, hoff]; omega) (by omega) (by omega) (by omega)

/-- Chunk sequence with lc/lp/pb changes + end marker, no preset dictionary, output space for EXACTLY the data
    (`buf.size ≤ outCap`): all the data, LZMA_STREAM_END, every byte consumed. -/
theorem lzma2Decode_of_chunksP_le (p : Props) (hp : PropsOk p) (dictSize : Nat) (hd : dictSize ≤ 4294967295) (buf : ByteArray)
    (sw : Bool) (bytes : List UInt8) (p' : Props) (CF : L2Cfg)
    (hch : ChunksP dictSize buf 0 sw p (cfg0 p 0) bytes p' CF) (hoff : CF.off = buf.size) (outCap : Nat)
    (hcap : buf.size ≤ outCap) :
    lzma2Decode dictSize (bytes ++ [0]) [] outCap = { ret := .streamEnd, out := hl buf, consumed := bytes.length + 1 } := by
  have := lzma2Decode_of_chunksP_le_base p hp dictSize hd buf 0 (Nat.zero_le _) sw bytes p' CF hch (by omega) outCap (by omega)
  simpa using this

end XzVerif.LzmaExec
