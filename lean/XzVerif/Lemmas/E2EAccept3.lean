/-
  C01 end-to-end, acceptance of concrete parsers, part 3: the whole LZMA2 stream.
  `lzma2Encode_total`: for a trace of literals and normal matches that is valid record by record (`TraceOk`), the
  executable chunker returns a result — for EVERY input, whatever chunking results (LZMA chunks, uncompressed chunks
  with the state resets they cause, any number of chunks).
-/
import XzVerif.Lemmas.E2EAccept2

namespace XzVerif.LzmaExec
open XzVerif.RangeDec XzVerif.RangeEnc XzVerif.RangeCoder XzVerif.Lzma XzVerif.LzmaEnc XzVerif.Lzma2Enc

theorem T_init : T Enc.init = 1 := rfl

theorem chunkE0_basic (c : L2Enc) (hrc : c.lz.rc = Enc.init) :
    (chunkE0 c).rc = Enc.init ∧ (chunkE0 c).uncompSize = c.lz.uncompSize := by
  obtain ⟨_, h2, h3, _⟩ := chunkE0_fields c.lz.props c rfl hrc
  exact ⟨h2, h3⟩

/-- One chunk of a valid marker-free trace: `encodeChunk` succeeds and advances. -/
theorem encodeChunkL_total (lim : ChunkLimits) (hlim : lim.Ok) (d : Nat) (buf : ByteArray) (tr : Array TraceRec) (c : L2Enc) (off ti : Nat)
    (hrc : c.lz.rc = Enc.init) (hoff : off < buf.size) (hti : ti ≤ tr.size)
    (hcase : (c.initialized = true ∧ c.lz.uncompSize = off ∧ WalkL d buf (tr.toList.drop ti) off) ∨
             (c.initialized = false ∧ off = 0 ∧ ti = 0 ∧ c.lz.uncompSize = 0 ∧ WalkL d buf tr.toList 1)) :
    ∃ x, encodeChunkL lim d buf 0 tr tr.size c off ti = .ok x ∧ ChunkRes d buf tr off x := by
  obtain ⟨e0rc, e0u⟩ := chunkE0_basic c hrc
  have hcl : 6 ≤ lim.compLimit := hlim.2.2.1
  have htg : 274 ≤ lim.target := hlim.1
  rw [encodeChunkL_eq]
  rcases hcase with ⟨hini, hu, hw⟩ | ⟨hini, rfl, rfl, hu, hw⟩
  · rw [if_neg (by rw [hini]; simp), hini]
    have hlt : ti < tr.size := by
      by_contra hge
      have : tr.toList.drop ti = [] := List.drop_eq_nil_of_le (by simp; omega)
      rw [this] at hw
      have : off = buf.size := hw
      omega
    have h0 : CJ lim d buf tr off ((chunkE0 c, off, ti, 0, 0, tr.size + 1) : ChunkLoopSt) :=
      ⟨hw, by show (chunkE0 c).uncompSize = off; rw [e0u, hu], rfl, by show OutOk2 (chunkE0 c).rc; rw [e0rc]; exact outOk2_init,
        by show T (chunkE0 c).rc ≤ lim.compLimit + 55; rw [e0rc, T_init]; omega, by show off - off ≤ lim.target; omega, Nat.le_refl _, hti,
        Or.inr ⟨e0rc, rfl, hlt, Nat.succ_pos _⟩⟩
    obtain ⟨s, hs, hJ, hadv⟩ := loop_except_total (chunkBodyL lim d buf 0 tr tr.size c.lz.props off) (CJ lim d buf tr off)
      (fun s => CJ lim d buf tr off s ∧ off < s.2.1) (fun s => s.2.2.2.2.2)
      (fun b hb => chunkBodyL_total lim hlim c.lz.props d buf tr off b hb) _ _ (Nat.le_refl _) h0
    rw [hs]
    simp only [bind, Except.bind]
    exact chunkTail_total lim hlim d buf tr c off s hJ hadv
  · rw [if_pos (by rw [hini]; simp)]
    have hrcnew : ∀ ops : List Op, ((chunkE0 c).encode ops).rc = (encOps (chunkE0 c).probs (chunkE0 c).rc ops).2 := fun _ => rfl
    have hT := (T_encOps (initOps (buf.get! (0 + 0))) (chunkE0 c).probs (chunkE0 c).rc (by rw [e0rc]; decide)).1
    rw [e0rc, T_init, initOps_length] at hT
    have h0 : CJ lim d buf tr 0 (({ (chunkE0 c).encode (initOps (buf.get! (0 + 0))) with
          uncompSize := ((chunkE0 c).encode (initOps (buf.get! (0 + 0)))).uncompSize + 1 }, 0 + 1, 0, 1, 0, tr.size + 1) : ChunkLoopSt) :=
      ⟨hw, by show ((chunkE0 c).encode _).uncompSize + 1 = 0 + 1; rw [encode_uncomp, e0u, hu], rfl,
        by show OutOk2 ((chunkE0 c).encode _).rc; rw [hrcnew, e0rc]; exact outOk2_encOps _ _ _ outOk2_init,
        by show T ((chunkE0 c).encode _).rc ≤ lim.compLimit + 55; rw [hrcnew, e0rc]; omega, by show 0 + 1 - 0 ≤ lim.target; omega,
        Nat.zero_le _, Nat.zero_le _, Or.inl (by show 0 < 0 + 1; omega)⟩
    obtain ⟨s, hs, hJ, hadv⟩ := loop_except_total (chunkBodyL lim d buf 0 tr tr.size c.lz.props 0) (CJ lim d buf tr 0)
      (fun s => CJ lim d buf tr 0 s ∧ 0 < s.2.1) (fun s => s.2.2.2.2.2)
      (fun b hb => chunkBodyL_total lim hlim c.lz.props d buf tr 0 b hb) _ _ (Nat.le_refl _) h0
    rw [hs]
    simp only [bind, Except.bind]
    exact chunkTail_total lim hlim d buf tr c 0 s hJ hadv

/-! ## the chunk loop of `lzma2Encode` -/

/-- **The contract of a stateless parser.**  Empty data: no records.  Otherwise the first byte is coded by `encode_init` and
    the records, met at data offsets 1, 1 + len₀, …, are literals or normal matches valid there, covering the rest. -/
def TraceOk (d : Nat) (buf : ByteArray) (tr : Array TraceRec) : Prop :=
  (buf.size = 0 ∧ tr.size = 0) ∨ (0 < buf.size ∧ WalkL d buf tr.toList 1)

structure LJ (d : Nat) (buf : ByteArray) (tr : Array TraceRec) (s : L2LoopSt) : Prop where
  rc : s.1.lz.rc = Enc.init
  le : s.2.2.1 ≤ buf.size
  idx : s.2.2.2.1 ≤ tr.size
  fuel : buf.size - s.2.2.1 + 1 ≤ s.2.2.2.2.2
  st : (s.1.initialized = true ∧ s.1.lz.uncompSize = s.2.2.1 ∧ WalkL d buf (tr.toList.drop s.2.2.2.1) s.2.2.1) ∨
       (s.1.initialized = false ∧ s.2.2.1 = 0 ∧ s.2.2.2.1 = 0 ∧ s.1.lz.uncompSize = 0 ∧ TraceOk d buf tr)

theorem bind_loop_ok {β γ ε : Type} (f : Unit → β → Except ε (ForInStep β)) (b : β) (g : β → Except ε γ)
    (P Q : β → Prop) (measure : β → Nat)
    (hstep : ∀ b, P b → (∃ b', f () b = .ok (.yield b') ∧ P b' ∧ measure b' < measure b) ∨ (∃ b', f () b = .ok (.done b') ∧ Q b'))
    (hP : P b) (hg : ∀ r, Q r → ∃ x, g r = .ok x) : ∃ x, (forIn Lean.Loop.mk b f >>= g) = .ok x := by
  obtain ⟨r, hr, hQ⟩ := loop_except_total f P Q measure hstep _ b (Nat.le_refl _) hP
  rw [hr]
  exact hg r hQ

theorem traceOk_kind {d : Nat} {buf : ByteArray} {tr : Array TraceRec} (h : TraceOk d buf tr) :
    ∀ i, i < tr.size → tr[i]!.kind = 0 := by
  intro i hi
  rcases h with ⟨_, h0⟩ | ⟨_, hw⟩
  · omega
  · apply WalkL_kind hw
    rw [getElem!_pos tr i hi]
    exact Array.getElem_mem_toList hi

/-- **The executable LZMA2 chunker accepts every valid stateless trace, for every input — for all chunk-closing limits
    that are `ChunkLimits.Ok`.** -/
theorem lzma2EncodeL_total (lim : ChunkLimits) (hlim : lim.Ok) (p : Props) (d : Nat) (buf : ByteArray) (tr : Array TraceRec) (h : TraceOk d buf tr) :
    ∃ res, lzma2EncodeL lim p d buf 0 tr = .ok res := by
  have hk := traceOk_kind h
  unfold lzma2EncodeL
  simp only [except_throw_bind]
  refine bind_loop_ok _ _ _ (LJ d buf tr) (fun s => s.2.2.1 = buf.size) (fun s => s.2.2.2.2.2) ?_ ?_ ?_
  · intro b hb
    have hnm := nextMarker_none tr hk b.2.2.2.1 hb.idx
    simp only [hnm, Nat.lt_irrefl, if_false]
    have hfuel : b.2.2.2.2.2 > 0 := by have := hb.fuel; omega
    rw [if_pos hfuel]
    have hle := hb.le
    rw [if_neg (by omega)]
    by_cases heq : (b.2.2.1 == buf.size - 0) = true
    · rw [if_pos heq]
      have heq' : b.2.2.1 = buf.size := by simpa using heq
      have hti : b.2.2.2.1 = tr.size := by
        rcases hb.st with ⟨_, _, hw⟩ | ⟨_, ho, hti, _, ht⟩
        · by_contra hne
          have hlt : b.2.2.2.1 < tr.size := by have := hb.idx; omega
          rw [drop_cons_get tr _ hlt] at hw
          have := WalkL_lt hw (by simp)
          omega
        · rcases ht with ⟨_, ht0⟩ | ⟨hpos, _⟩
          · omega
          · omega
      rw [if_neg (by rw [hti]; simp)]
      right
      exact ⟨_, rfl, heq'⟩
    · rw [if_neg heq]
      have hlt : b.2.2.1 < buf.size := by
        have : b.2.2.1 ≠ buf.size := by simpa using heq
        omega
      have hcase : (b.1.initialized = true ∧ b.1.lz.uncompSize = b.2.2.1 ∧ WalkL d buf (tr.toList.drop b.2.2.2.1) b.2.2.1) ∨
          (b.1.initialized = false ∧ b.2.2.1 = 0 ∧ b.2.2.2.1 = 0 ∧ b.1.lz.uncompSize = 0 ∧ WalkL d buf tr.toList 1) := by
        rcases hb.st with h1 | ⟨a1, a2, a3, a4, ht⟩
        · exact Or.inl h1
        · rcases ht with ⟨hz, _⟩ | ⟨_, hw⟩
          · omega
          · exact Or.inr ⟨a1, a2, a3, a4, hw⟩
      obtain ⟨x, hx, hres⟩ := encodeChunkL_total lim hlim d buf tr b.1 b.2.2.1 b.2.2.2.1 hb.rc hlt hb.idx hcase
      rw [hx]
      simp only [bind, Except.bind]
      have hxle := WalkL_le hres.walk
      rw [if_neg (by simp only [Nat.sub_zero]; exact Nat.not_lt.mpr hxle)]
      left
      refine ⟨_, rfl, ⟨hres.rc, hxle, hres.idx, ?_, Or.inl ⟨hres.ini, hres.pos, hres.walk⟩⟩, by show b.2.2.2.2.2 - 1 < b.2.2.2.2.2; omega⟩
      show buf.size - x.2.1 + 1 ≤ b.2.2.2.2.2 - 1
      have := hres.adv
      have := hb.fuel
      omega
  · exact ⟨rfl, Nat.zero_le _, Nat.zero_le _, by show buf.size - 0 + 1 ≤ buf.size - 0 + tr.size + 2; omega,
      Or.inr ⟨rfl, rfl, rfl, rfl, h⟩⟩
  · intro r hr
    rw [if_neg (by rw [hr]; simp)]
    exact ⟨_, rfl⟩

theorem chunkLimits_std_ok : ChunkLimits.std.Ok := by decide

/-- **The executable LZMA2 chunker (limits of xz 5.8.1) accepts every valid stateless trace, for every input.** -/
theorem lzma2Encode_total (p : Props) (d : Nat) (buf : ByteArray) (tr : Array TraceRec) (h : TraceOk d buf tr) :
    ∃ res, lzma2Encode p d buf 0 tr = .ok res := by
  rw [lzma2Encode_std]; exact lzma2EncodeL_total .std chunkLimits_std_ok p d buf tr h

end XzVerif.LzmaExec
