/-
  Every probability context used by the symbol coder exists in the flat probability array of `probsSize lc lp` entries
  (the hypothesis `ProbsOk` of the range-coder round trip holds for the operations of a stream).
-/
import XzVerif.Lemmas.LzmaStream
import XzVerif.Lemmas.RangeCoderAdaptive
import Mathlib.Tactic.IntervalCases

namespace XzVerif.LzmaSym
open XzVerif.RangeDec XzVerif.RangeEnc XzVerif.RangeCoder XzVerif.Lzma XzVerif.LzmaEnc XzVerif.LzmaSymDec XzVerif.LzmaSpec

/-- all contexts of `ops` are below `N` -/
def AllLt (N : Nat) (ops : List Op) : Prop := ∀ op ∈ ops, Op.ctxOk N op = true

theorem allLt_nil (N : Nat) : AllLt N [] := by intro op h; cases h

theorem allLt_cons_bit {N ctx : Nat} {b : Bool} {ops : List Op} (h : ctx < N) (ht : AllLt N ops) :
    AllLt N (.bit ctx b :: ops) := by
  intro op hm
  rcases List.mem_cons.mp hm with rfl | hm
  · simp [Op.ctxOk, h]
  · exact ht op hm

theorem allLt_cons_direct {N : Nat} {b : Bool} {ops : List Op} (ht : AllLt N ops) : AllLt N (.direct b :: ops) := by
  intro op hm
  rcases List.mem_cons.mp hm with rfl | hm
  · rfl
  · exact ht op hm

theorem allLt_append {N : Nat} {a b : List Op} (ha : AllLt N a) (hb : AllLt N b) : AllLt N (a ++ b) := by
  intro op hm
  rcases List.mem_append.mp hm with h | h
  · exact ha op h
  · exact hb op h

theorem and_one_lt (x : Nat) : x &&& 1 < 2 := by rw [Nat.and_one_is_mod]; exact Nat.mod_lt _ (by norm_num)

theorem bittree_bound (base N : Nat) : ∀ (n sym m : Nat), base + 2 ^ n * (m + 1) ≤ N → AllLt N (bittreeOps base (n + 1) sym m)
  | 0, sym, m, h => by
    simp only [bittreeOps]
    exact allLt_cons_bit (by simp at h; omega) (allLt_nil N)
  | n + 1, sym, m, h => by
    rw [bittreeOps]
    have hb := and_one_lt (sym >>> (n + 1))
    have hp : 0 < 2 ^ n := Nat.pow_pos (by norm_num)
    have e : 2 ^ (n + 1) = 2 * 2 ^ n := by rw [pow_succ]; ring
    rw [e] at h
    refine allLt_cons_bit ?_ (bittree_bound base N n sym _ ?_)
    · nlinarith
    · generalize (sym >>> (n + 1)) &&& 1 = bit at *
      nlinarith

theorem bittreeRev_bound (base N : Nat) : ∀ (n sym m : Nat), base + 2 ^ n * (m + 1) ≤ N → AllLt N (bittreeRevOps base (n + 1) sym m)
  | 0, sym, m, h => by
    simp only [bittreeRevOps]
    exact allLt_cons_bit (by simp at h; omega) (allLt_nil N)
  | n + 1, sym, m, h => by
    rw [bittreeRevOps]
    have hb := and_one_lt sym
    have hp : 0 < 2 ^ n := Nat.pow_pos (by norm_num)
    have e : 2 ^ (n + 1) = 2 * 2 ^ n := by rw [pow_succ]; ring
    rw [e] at h
    refine allLt_cons_bit ?_ (bittreeRev_bound base N n _ _ ?_)
    · nlinarith
    · generalize sym &&& 1 = bit at *
      nlinarith

theorem direct_bound (N value : Nat) : ∀ n, AllLt N (directOps value n)
  | 0 => allLt_nil N
  | n + 1 => by rw [directOps]; exact allLt_cons_direct (direct_bound N value n)

theorem litMatched_bound (base N : Nat) (hN : base + 768 ≤ N) : ∀ (n offset mb esym : Nat), offset ≤ 256 → esym * 2 ^ n < 131072 →
    AllLt N (litMatchedOps base n offset mb esym)
  | 0, _, _, _, _, _ => allLt_nil N
  | n + 1, offset, mb, esym, ho, he => by
    rw [litMatchedOps]
    have h1 : mb * 2 &&& offset ≤ offset := Nat.and_le_right
    have h2 : offset &&& ((mb * 2 ^^^ esym * 2) ^^^ 0xFFFFFFFF) ≤ offset := Nat.and_le_left
    have hp : 0 < 2 ^ n := Nat.pow_pos (by norm_num)
    have e : 2 ^ (n + 1) = 2 * 2 ^ n := by rw [pow_succ]; ring
    rw [e] at he
    have hs : esym >>> 8 < 256 := by
      simp only [Nat.shiftRight_eq_div_pow]
      have : esym < 65536 := by nlinarith
      omega
    refine allLt_cons_bit (by omega) (litMatched_bound base N hN n _ _ _ (by omega) (by nlinarith))

theorem length_bound (N lenBase posState len : Nat) (hN : lenBase + 514 ≤ N) (hps : posState < 16) :
    AllLt N (lengthOps lenBase posState len) := by
  unfold lengthOps
  simp only [LEN_CHOICE, LEN_CHOICE2, LEN_LOW, LEN_MID, LEN_HIGH, LEN_LOW_SYMBOLS, LEN_MID_SYMBOLS, LEN_LOW_BITS, LEN_MID_BITS,
    LEN_HIGH_BITS]
  split
  · exact allLt_cons_bit (by omega) (bittree_bound _ N 2 _ 1 (by norm_num; omega))
  · split
    · exact allLt_cons_bit (by omega) (allLt_cons_bit (by omega) (bittree_bound _ N 2 _ 1 (by norm_num; omega)))
    · exact allLt_cons_bit (by omega) (allLt_cons_bit (by omega) (bittree_bound _ N 7 _ 1 (by norm_num; omega)))

theorem getDistState_lt (len : Nat) : getDistState len < 4 := by
  unfold getDistState DIST_STATES MATCH_LEN_MIN; split <;> omega

theorem dist_bound (N dist len : Nat) (hN : 818 ≤ N) (h32 : dist < 4294967296) : AllLt N (distOps dist len) := by
  unfold distOps
  simp only [DIST_SLOT_BITS, DIST_MODEL_START, DIST_MODEL_END, ALIGN_BITS, ALIGN_MASK, P_DIST_SLOT, P_POS_SPECIAL, P_POS_ALIGN,
    DIST_SLOTS]
  have hds := getDistState_lt len
  have hhead : ∀ slot, AllLt N (bittreeOps (432 + getDistState len * 64) 6 slot 1) :=
    fun slot => bittree_bound _ N 5 slot 1 (by norm_num; omega)
  by_cases h4 : dist < 4
  · have hs : getDistSlot dist = dist := by simp [getDistSlot, h4]
    have : ¬ (4 ≤ dist) := by omega
    simp only [hs, ge_iff_le, this, if_false]
    exact hhead _
  · obtain ⟨i, bit, hi2, hi31, hbit, hslot, hle, hlt⟩ := distSlot_spec dist (by omega) h32
    have hge : 4 ≤ 2 * i + bit := by omega
    have hfb : (2 * i + bit) >>> 1 - 1 = i - 1 := by simp only [Nat.shiftRight_eq_div_pow]; omega
    have hb1 : (2 * i + bit) &&& 1 = bit := by rw [Nat.and_one_is_mod]; omega
    have hbase : (2 ||| bit) <<< (i - 1) = (2 + bit) * 2 ^ (i - 1) := by rw [or_two _ hbit, Nat.shiftLeft_eq]
    simp only [hslot, ge_iff_le, hge, if_true, hfb, hb1, hbase]
    split
    · rename_i h14
      refine allLt_append (hhead _) ?_
      obtain ⟨j, hj⟩ : ∃ j, i - 1 = j + 1 := ⟨i - 2, by omega⟩
      rw [hj]
      apply bittreeRev_bound
      have hi6 : i ≤ 6 := by omega
      have hbit' : bit = 0 ∨ bit = 1 := by omega
      interval_cases i <;> rcases hbit' with rfl | rfl <;> simp at hj <;> subst hj <;> norm_num <;> omega
    · refine allLt_append (allLt_append (hhead _) (direct_bound N _ _)) ?_
      exact bittreeRev_bound _ N 3 _ 1 (by norm_num; omega)

theorem literal_bound (lc lp pos prev : Nat) (h : lc + lp ≤ 4) : literalSubcoder lc lp pos prev + 768 ≤ 768 <<< (lc + lp) := by
  unfold literalSubcoder
  have hY : ((pos <<< 8) + prev) &&& literalMask lc lp ≤ literalMask lc lp := Nat.and_le_right
  generalize ((pos <<< 8) + prev) &&& literalMask lc lp = Y at hY ⊢
  unfold literalMask at hY
  have hlc : lc ≤ 4 := by omega
  have hlp : lp ≤ 4 := by omega
  interval_cases lc <;> interval_cases lp <;> simp only [Nat.shiftLeft_eq, Nat.shiftRight_eq_div_pow] at hY ⊢ <;> omega

end XzVerif.LzmaSym
