/-
  C13 `random_access`, part 2: Streams and the whole file.

  `XStream` = Check ID, Blocks (`BlockDesc`), Stream Padding; `XStream.desc` is the specification-level `StreamDesc` of
  Lemmas/FileInfoFile.lean (Records = the Blocks' size pairs, Block bytes = the Blocks one after the other), so the file is
  `fileBytes (xs.map XStream.desc)` — the very file `file_info_correct` is about.

  Results: `desc_ok` (the `StreamDesc.Ok` hypothesis of `file_info_correct` is DERIVED: in particular the Block bytes have
  the recorded total size), `dvalidStream` / `dvalidXz` (the file is valid per the declarative grammar, hence by
  `xzDecode_complete` the whole-file decoder yields the concatenation of the Blocks' data) and `drop_block` (what is found
  at a Block's offset is the Block).
  Kernel proofs.
-/
import XzVerif.Lemmas.RandomAccess

namespace XzVerif.RandomAccess
open XzVerif XzVerif.XzDecode XzVerif.Container

/-- One Stream of a file: Check ID, Blocks, Stream Padding. -/
structure XStream where
  check : Nat
  blocks : List BlockDesc
  padding : Nat

namespace XStream

/-- the Records of the Stream's Index -/
def recs (x : XStream) : List Index.Block := records x.check x.blocks
/-- the specification-level description (Records + Block bytes) used by `file_info_correct` -/
def desc (x : XStream) : Index.StreamDesc := ⟨x.check, x.recs, blocksBytes x.blocks, x.padding⟩
/-- the data the Stream holds -/
def out (x : XStream) : List UInt8 := blocksOut x.blocks

/-- a Stream within the limits of the format whose Blocks have well-formed headers -/
structure Ok (x : XStream) : Prop where
  check : x.check ≤ 15
  pad : x.padding % 4 = 0
  valid : Index.Spec.Valid [⟨none, 0, x.recs⟩]
  bszMax : x.desc.bsz ≤ Index.BACKWARD_SIZE_MAX
  wf : ∀ B ∈ x.blocks, B.Wf x.check

theorem Ok.blocksOk {x : XStream} (h : x.Ok) : Index.BlocksOk x.recs := Index.blocksOk_of_valid h.valid h.bszMax

/-- the hypothesis of `file_info_correct` about one Stream -/
theorem desc_ok {E : Env} {ign : Bool} {cap : Nat} {x : XStream} (h : x.Ok) (hs : SeqDec E x.check ign cap x.blocks) :
    x.desc.Ok :=
  ⟨h.check, blocksBytes_length x.blocks cap h.wf hs, h.pad, h.valid, h.bszMax⟩

end XStream

/-! ### one Stream is a `DValidStream` -/

theorem recordOk_of_blocksOk {bs : List Index.Block} (h : Index.BlocksOk bs) : ∀ r ∈ bs.map Index.toRecord, RecordOk r := by
  intro r hr
  obtain ⟨b, hb, rfl⟩ := List.mem_map.1 hr
  have := h.blocks b hb
  unfold RecordOk Index.toRecord
  unfold Index.UNPADDED_SIZE_MIN Index.UNPADDED_SIZE_MAX Index.VLI_MAX at this
  unfold Container.UNPADDED_SIZE_MIN Container.UNPADDED_SIZE_MAX Vli.VLI_MAX
  exact this

theorem indexHashSize_map (bs : List Index.Block) :
    indexHashSize (bs.map Index.toRecord) = Index.indexSize bs.length (Index.listSize bs) := by
  unfold indexHashSize hCount
  rw [hIndexListSize_map, List.length_map, Index.container_indexSize_eq]

/-- A Stream followed by anything is one Stream of the declarative grammar, holding the Blocks' data. -/
theorem dvalidStream (E : Env) (fl : Flags) (cap : Nat) (x : XStream) (hok : x.Ok)
    (hs : SeqDec E x.check fl.ignoreCheck cap x.blocks) (tail : List UInt8) :
    DValidStream E fl (x.desc.core ++ tail) cap x.out x.desc.core.length := by
  have hd := XStream.desc_ok hok hs
  have hbo := hok.blocksOk
  obtain ⟨hhl, _⟩ := hd.hdr_facts
  obtain ⟨hfl, _, _⟩ := hd.ftr_facts
  have hil := hd.idx_facts.2
  have hcl := hd.core_length
  have hcg := Index.StreamDesc.coreLen_ge x.desc
  have hrec := recordOk_of_blocksOk hbo
  have hcnt : (x.recs.map Index.toRecord).length ≤ Vli.VLI_MAX := by
    rw [List.length_map]; have := hbo.length_le; unfold Index.VLI_MAX at this; unfold Vli.VLI_MAX; exact this
  have hihs : indexHashSize (x.recs.map Index.toRecord) = x.desc.bsz := indexHashSize_map x.recs
  have hpl : (blocksBytes x.blocks).length = Index.blocksSize x.recs := hd.payload
  -- the pieces of the input
  have hinp : x.desc.core ++ tail = x.desc.hdr ++ (blocksBytes x.blocks ++ (x.desc.idx ++ (x.desc.ftr ++ tail))) := by
    simp only [Index.StreamDesc.core, List.append_assoc]; rfl
  have htake : (x.desc.core ++ tail).take STREAM_HEADER_SIZE = x.desc.hdr := by
    rw [hinp]; exact List.take_left' hhl
  have hdrop : (x.desc.core ++ tail).drop STREAM_HEADER_SIZE
      = blocksBytes x.blocks ++ (x.desc.idx ++ (x.desc.ftr ++ tail)) := by
    rw [hinp]; exact List.drop_left' hhl
  have hdrop2 : (x.desc.core ++ tail).drop (STREAM_HEADER_SIZE + (blocksBytes x.blocks).length)
      = x.desc.idx ++ (x.desc.ftr ++ tail) := by
    rw [← List.drop_drop, hdrop]; exact List.drop_left' rfl
  have hhdec : streamHeaderDecode x.desc.hdr = .ok x.desc.flags := by
    have := (Container.streamHeader_roundtrip x.desc.flags x.desc.hdr [] hd.hdr_eq).2
    rwa [List.append_nil] at this
  have hfdec : streamFooterDecode x.desc.ftr = .ok (x.desc.flags, x.desc.bsz) := by
    have := (Container.streamFooter_roundtrip x.desc.flags x.desc.bsz x.desc.ftr [] hd.ftr_eq).2
    rwa [List.append_nil] at this
  have hdb := dblocks_of_list E fl x.desc.flags hbo x.blocks [] cap (x.desc.idx ++ (x.desc.ftr ++ tail)) rfl hok.wf hs
  refine ⟨x.desc.flags, (blocksBytes x.blocks).length, x.recs.map Index.toRecord,
    ⟨.streamEnd, [], indexHashSize (x.recs.map Index.toRecord) + STREAM_HEADER_SIZE⟩, ?_, ?_, ?_, ?_, ?_, ?_⟩
  · rw [List.length_append, hcl]; unfold STREAM_HEADER_SIZE; omega
  · rw [htake]; exact hhdec
  · rw [hdrop]; exact hdb
  · rw [hdrop2]
    have hidx : x.desc.idx = indexEncode (x.recs.map Index.toRecord) := rfl
    have hlen := indexEncode_length _ hrec hcnt
    refine ⟨?_, hlen, ⟨x.desc.flags, ?_, rfl⟩, rfl, ?_, rfl⟩
    · rw [hidx]; exact List.take_left' hlen
    · have hfl' : x.desc.ftr.length = STREAM_HEADER_SIZE := hfl
      rw [hidx, List.drop_left' hlen, List.take_left' hfl', hihs]; exact hfdec
    · simp only [List.length_append, hil, hfl, hihs]; unfold STREAM_HEADER_SIZE; omega
  · simp only []
    rw [hcl, hihs, hpl]
    unfold Index.StreamDesc.coreLen STREAM_HEADER_SIZE
    show 24 + Index.blocksSize x.recs + x.desc.bsz = _
    omega
  · rw [List.length_append]; omega

/-! ### the whole file -/

/-- the Streams decode one after the other when the decoder starts with capacity `cap` -/
def SeqFile (E : Env) (ign : Bool) : Nat → List XStream → Prop
  | _, [] => True
  | cap, x :: r => SeqDec E x.check ign cap x.blocks ∧ SeqFile E ign (cap - x.out.length) r

/-- the specification-level description of the file -/
def descs (xs : List XStream) : List Index.StreamDesc := xs.map XStream.desc
/-- the bytes of the file -/
def fileOf (xs : List XStream) : List UInt8 := Index.fileBytes (descs xs)
/-- the data the file holds: the Blocks' data in file order -/
def fileOut (xs : List XStream) : List UInt8 := xs.flatMap XStream.out

theorem descs_ok {E : Env} {ign : Bool} : ∀ (xs : List XStream) (cap : Nat), (∀ x ∈ xs, x.Ok) → SeqFile E ign cap xs →
    ∀ d ∈ descs xs, d.Ok
  | [], _, _, _ => by intro d hd; cases hd
  | x :: r, cap, hok, hs => by
    intro d hd
    simp only [descs, List.map_cons, List.mem_cons] at hd
    rcases hd with rfl | hd
    · exact XStream.desc_ok (hok x (List.mem_cons_self ..)) hs.1
    · exact descs_ok r _ (fun y hy => hok y (List.mem_cons_of_mem _ hy)) hs.2 d hd

/-- a Stream starts with the first byte of the Header Magic -/
theorem desc_bytes_head {d : Index.StreamDesc} (h : d.Ok) : ∃ rest, d.bytes = 0xFD :: rest := by
  have he := h.hdr_eq
  unfold Container.streamHeaderEncode at he
  split at he; · cases he
  split at he
  · cases he
  · simp only [Except.ok.injEq] at he
    exact ⟨_, by
      unfold Index.StreamDesc.bytes Index.StreamDesc.core
      rw [← he]
      simp only [Container.HEADER_MAGIC, List.cons_append]
      rfl⟩

theorem fileOf_cons (x : XStream) (r : List XStream) :
    fileOf (x :: r) = x.desc.core ++ (List.replicate x.padding 0 ++ fileOf r) := by
  simp only [fileOf, descs, List.map_cons, Index.fileBytes, List.flatMap_cons, Index.StreamDesc.bytes, List.append_assoc]
  rfl

/-- **The file is valid per the declarative grammar** (Streams with Stream Padding, LZMA_CONCATENATED) and holds the
    Blocks' data in file order. -/
theorem dvalidXz (E : Env) (fl : Flags) (hc : fl.concatenated = true) : ∀ (xs : List XStream) (cap : Nat), xs ≠ [] →
    (∀ x ∈ xs, x.Ok) → SeqFile E fl.ignoreCheck cap xs → DValidXz E fl (fileOf xs) cap (fileOut xs) (fileOf xs).length
  | [], _, hne, _, _ => absurd rfl hne
  | [x], cap, _, hok, hs => by
    have hx := hok x (List.mem_cons_self ..)
    obtain ⟨k, hk⟩ : ∃ k, x.padding = 4 * k := ⟨x.padding / 4, by have := hx.pad; omega⟩
    have hf : fileOf [x] = x.desc.core ++ List.replicate x.padding 0 := by
      rw [fileOf_cons]; simp [fileOf, descs, Index.fileBytes]
    have hv := dvalidStream E fl cap x hx hs.1 (List.replicate x.padding 0)
    have := DValidXz.last _ cap _ _ k hc hv (by rw [List.drop_left' rfl, hk])
    rw [hf]
    simp only [fileOut, List.flatMap_cons, List.flatMap_nil, List.append_nil, List.length_append, List.length_replicate]
    rw [hk] at this ⊢
    exact this
  | x :: y :: r, cap, _, hok, hs => by
    have hx := hok x (List.mem_cons_self ..)
    obtain ⟨k, hk⟩ : ∃ k, x.padding = 4 * k := ⟨x.padding / 4, by have := hx.pad; omega⟩
    have ih := dvalidXz E fl hc (y :: r) (cap - x.out.length) (by simp) (fun z hz => hok z (List.mem_cons_of_mem _ hz)) hs.2
    have hyd : y.desc.Ok := XStream.desc_ok (hok y (by simp)) hs.2.1
    obtain ⟨rest, hrest⟩ := desc_bytes_head hyd
    have hfy : fileOf (y :: r) = 0xFD :: (rest ++ fileOf r) := by
      simp only [fileOf, descs, List.map_cons, Index.fileBytes, List.flatMap_cons]
      rw [hrest]; rfl
    have hv := dvalidStream E fl cap x hx hs.1 (List.replicate x.padding 0 ++ fileOf (y :: r))
    rw [hfy] at ih
    have := DValidXz.more _ cap _ _ k 0xFD (rest ++ fileOf r) _ _ hc hv
      (by rw [List.drop_left' rfl, hk, hfy]) (by decide) ih
    rw [fileOf_cons]
    have e1 : fileOut (x :: y :: r) = x.out ++ fileOut (y :: r) := by simp [fileOut]
    have e2 : (x.desc.core ++ (List.replicate x.padding 0 ++ fileOf (y :: r))).length
        = x.desc.core.length + 4 * k + (0xFD :: (rest ++ fileOf r)).length := by
      rw [hfy, hk]; simp only [List.length_append, List.length_replicate]; omega
    rw [e1, e2]
    exact this

/-! ### what is found at a Block's offset -/

theorem list_split {α : Type} {l : List α} {i : Nat} {a : α} (h : l[i]? = some a) : l = l.take i ++ a :: l.drop (i + 1) := by
  obtain ⟨hi, ha⟩ := List.getElem?_eq_some_iff.1 h
  conv => lhs; rw [← List.take_append_drop i l]
  rw [List.drop_eq_getElem_cons hi, ha]

/-- compressed file offset of Block `j` of Stream `i`: the Streams before, the Stream Header, the Blocks before -/
def coff (xs : List XStream) (i j : Nat) : Nat :=
  (fileOf (xs.take i)).length + STREAM_HEADER_SIZE + (blocksBytes (((xs[i]?).map (·.blocks)).getD [] |>.take j)).length

/-- uncompressed file offset of Block `j` of Stream `i` -/
def uoff (xs : List XStream) (i j : Nat) : Nat :=
  (fileOut (xs.take i)).length + (blocksOut (((xs[i]?).map (·.blocks)).getD [] |>.take j)).length

theorem fileOf_append (a b : List XStream) : fileOf (a ++ b) = fileOf a ++ fileOf b := by
  simp only [fileOf, descs, List.map_append, Index.fileBytes_append]

theorem fileOut_append (a b : List XStream) : fileOut (a ++ b) = fileOut a ++ fileOut b := by
  simp [fileOut]

theorem blocksBytes_append (a b : List BlockDesc) : blocksBytes (a ++ b) = blocksBytes a ++ blocksBytes b := by
  simp [blocksBytes]

theorem blocksOut_append (a b : List BlockDesc) : blocksOut (a ++ b) = blocksOut a ++ blocksOut b := by
  simp [blocksOut]

/-- **At the compressed file offset of Block `j` of Stream `i` the file continues with that Block.** -/
theorem drop_block {xs : List XStream} {i j : Nat} {x : XStream} {B : BlockDesc} (hx : xs[i]? = some x)
    (hB : x.blocks[j]? = some B) (hd : x.desc.Ok) :
    ∃ rest, (fileOf xs).drop (coff xs i j) = B.bytes ++ rest := by
  have hsx := list_split hx
  have hsb := list_split hB
  have hhl := hd.hdr_facts.1
  have e : fileOf xs = (fileOf (xs.take i) ++ x.desc.hdr ++ blocksBytes (x.blocks.take j))
      ++ (B.bytes ++ (blocksBytes (x.blocks.drop (j + 1)) ++ x.desc.idx ++ x.desc.ftr ++ List.replicate x.padding 0
          ++ fileOf (xs.drop (i + 1)))) := by
    conv => lhs; rw [hsx, fileOf_append, fileOf_cons]
    have : x.desc.core = x.desc.hdr ++ blocksBytes x.blocks ++ x.desc.idx ++ x.desc.ftr := rfl
    rw [this]
    conv => lhs; rw [hsb, blocksBytes_append]
    simp only [blocksBytes, List.flatMap_cons, List.append_assoc]
  have hc : coff xs i j = (fileOf (xs.take i) ++ x.desc.hdr ++ blocksBytes (x.blocks.take j)).length := by
    unfold coff
    rw [hx]
    simp only [Option.map_some, Option.getD_some, List.length_append, hhl, STREAM_HEADER_SIZE]
  rw [hc]
  exact ⟨_, by conv => lhs; rw [e]
               exact List.drop_left' rfl⟩

/-- **The data of Block `j` of Stream `i` is the range `[uoff, uoff + |o|)` of the file's data.** -/
theorem out_slice {xs : List XStream} {i j : Nat} {x : XStream} {B : BlockDesc} (hx : xs[i]? = some x)
    (hB : x.blocks[j]? = some B) : ((fileOut xs).drop (uoff xs i j)).take B.o.length = B.o := by
  have hsx := list_split hx
  have hsb := list_split hB
  have e : fileOut xs = (fileOut (xs.take i) ++ blocksOut (x.blocks.take j))
      ++ (B.o ++ (blocksOut (x.blocks.drop (j + 1)) ++ fileOut (xs.drop (i + 1)))) := by
    conv => lhs; rw [hsx, fileOut_append]
    have : fileOut (x :: xs.drop (i + 1)) = blocksOut x.blocks ++ fileOut (xs.drop (i + 1)) := by
      simp [fileOut, XStream.out]
    rw [this]
    conv => lhs; rw [hsb, blocksOut_append]
    simp only [blocksOut, List.flatMap_cons, List.append_assoc]
  have hu : uoff xs i j = (fileOut (xs.take i) ++ blocksOut (x.blocks.take j)).length := by
    unfold uoff
    rw [hx]
    simp only [Option.map_some, Option.getD_some, List.length_append]
  rw [hu]
  conv => lhs; rw [e]
  rw [List.drop_left' rfl, List.take_left' rfl]

/-! ### the capacity each Block sees in the sequential decode -/

theorem seqDec_at {E : Env} {check : Nat} {ign : Bool} : ∀ (Bs : List BlockDesc) (cap j : Nat) (B : BlockDesc),
    SeqDec E check ign cap Bs → Bs[j]? = some B → B.DecodesAt E check ign (cap - (blocksOut (Bs.take j)).length)
  | [], _, _, _, _, h => by simp at h
  | A :: r, cap, 0, B, hs, h => by
    have : A = B := by simpa using h
    subst this
    simpa [blocksOut] using hs.1
  | A :: r, cap, j + 1, B, hs, h => by
    have := seqDec_at r (cap - A.o.length) j B hs.2 (by simpa using h)
    have e : (blocksOut ((A :: r).take (j + 1))).length = A.o.length + (blocksOut (r.take j)).length := by
      simp [blocksOut]
    rw [e, ← Nat.sub_sub]
    exact this

theorem seqDec_sub {E : Env} {check : Nat} {ign : Bool} : ∀ (Bs : List BlockDesc) (cap : Nat) (j : Nat),
    SeqDec E check ign cap Bs → SeqDec E check ign (cap - (blocksOut (Bs.take j)).length) (Bs.drop j)
  | Bs, cap, 0, hs => by simpa [blocksOut] using hs
  | [], cap, j + 1, _ => by simp [SeqDec]
  | A :: r, cap, j + 1, hs => by
    have := seqDec_sub r (cap - A.o.length) j hs.2
    have e : (blocksOut ((A :: r).take (j + 1))).length = A.o.length + (blocksOut (r.take j)).length := by
      simp [blocksOut]
    rw [e, ← Nat.sub_sub]
    simpa using this

/-- in the sequential decode of the file with capacity `cap`, Block `j` of Stream `i` is decoded with capacity
    `cap - uoff` -/
theorem seqFile_at {E : Env} {ign : Bool} : ∀ (xs : List XStream) (cap i j : Nat) (x : XStream) (B : BlockDesc),
    SeqFile E ign cap xs → xs[i]? = some x → x.blocks[j]? = some B → B.DecodesAt E x.check ign (cap - uoff xs i j)
  | [], _, _, _, _, _, _, h, _ => by simp at h
  | y :: r, cap, 0, j, x, B, hs, hx, hB => by
    have : y = x := by simpa using hx
    subst this
    have := seqDec_at y.blocks cap j B hs.1 hB
    simpa [uoff, fileOut] using this
  | y :: r, cap, i + 1, j, x, B, hs, hx, hB => by
    have hx' : r[i]? = some x := by simpa using hx
    have := seqFile_at r (cap - y.out.length) i j x B hs.2 hx' hB
    have e : uoff (y :: r) (i + 1) j = y.out.length + uoff r i j := by
      unfold uoff
      simp only [List.take_succ_cons, List.getElem?_cons_succ]
      have : fileOut (y :: r.take i) = y.out ++ fileOut (r.take i) := by simp [fileOut]
      rw [this, List.length_append]; omega
    rw [e, ← Nat.sub_sub]
    exact this

/-- each Stream's own sequential premise, at the capacity it sees in the file -/
theorem seqFile_stream {E : Env} {ign : Bool} : ∀ (xs : List XStream) (cap i : Nat) (x : XStream),
    SeqFile E ign cap xs → xs[i]? = some x → SeqDec E x.check ign (cap - (fileOut (xs.take i)).length) x.blocks
  | [], _, _, _, _, h => by simp at h
  | y :: r, cap, 0, x, hs, hx => by
    have : y = x := by simpa using hx
    subst this
    simpa [fileOut] using hs.1
  | y :: r, cap, i + 1, x, hs, hx => by
    have := seqFile_stream r (cap - y.out.length) i x hs.2 (by simpa using hx)
    have e : (fileOut ((y :: r).take (i + 1))).length = y.out.length + (fileOut (r.take i)).length := by
      simp [fileOut]
    rw [e, ← Nat.sub_sub]
    exact this

end XzVerif.RandomAccess
