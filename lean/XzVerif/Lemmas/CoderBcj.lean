/-
  Bridge C15 → C06: the eight real BCJ filter models (Model/Bcj.lean, BcjX86.lean, BcjRiscv.lean, dispatched by
  `Simple.filterCode`) satisfy the contract `BcjContract` under which `simple_code()` buffering is slicing independent
  (Lemmas/CoderSimple.lean).  Prefix stability is `C15.bcj_chunk_stable` / `C15.x86_chunk_stable` / `C15.riscv_chunk_stable`;
  the size / count / leftover / untouched-tail facts are in Lemmas/BcjShape.lean.
-/
import XzVerif.Lemmas.CoderSimple
import XzVerif.Lemmas.BcjShape
import XzVerif.Props.C15

namespace XzVerif.CoderBcj
open XzVerif.Bcj

/-- The state `call_filter()` threads through the calls: the filter's own state (`prev_mask`/`prev_pos` for x86, unused by the
    others) and `now_pos`. -/
abbrev FState := X86State × BitVec 32

/-- `call_filter()` of simple_coder.c for the real filter `id` (C15's dispatch `Simple.filterCode`): filter the buffer at `now_pos`,
    `now_pos += filtered`. -/
def bcjFilter (id : XzVerif.Simple.FilterId) (enc : Bool) : Coder.Filter FState := fun s buf =>
  ((XzVerif.Simple.filterCode id enc s.1 s.2 buf).1, (XzVerif.Simple.filterCode id enc s.1 s.2 buf).2.1,
    ((XzVerif.Simple.filterCode id enc s.1 s.2 buf).2.2, s.2 + BitVec.ofNat 32 (XzVerif.Simple.filterCode id enc s.1 s.2 buf).2.1))

/-- the filters without own state -/
def statelessFilter (code : BitVec 32 → List UInt8 → List UInt8 × Nat) : Coder.Filter FState := fun s buf =>
  ((code s.2 buf).1, (code s.2 buf).2, (s.1, s.2 + BitVec.ofNat 32 (code s.2 buf).2))

theorem stateless_contract (code : BitVec 32 → List UInt8 → List UInt8 × Nat) (w umax lim : Nat) (hw : w ≤ umax + 1)
    (hs : ∀ off l, Shape w l (code off l).1 (code off l).2) (hc : C15.ChunkStable code) :
    Coder.BcjContract (statelessFilter code) umax lim := by
  refine ⟨fun s b => (hs s.2 b).len, fun s b => (hs s.2 b).count, fun s b => (hs s.2 b).tail, fun s b => ?_, fun s a b _ => ?_⟩
  · have := (hs s.2 b).leaves
    simp only [statelessFilter]; omega
  · have h := hc s.2 a b
    simp only [statelessFilter]
    constructor
    · rw [h]
    · rw [h]

theorem bcjFilter_eq (id : XzVerif.Simple.FilterId) (enc : Bool) (h : id ≠ .x86) :
    bcjFilter id enc = statelessFilter
      (match id with
       | .powerpc => powerpcCode enc | .ia64 => ia64Code enc | .arm => armCode enc | .armthumb => armthumbCode enc
       | .sparc => sparcCode enc | .arm64 => arm64Code enc | .riscv => riscvCode enc | .x86 => armCode enc) := by
  cases id
  · exact absurd rfl h
  all_goals rfl

/-- **The BCJ contract holds for every real filter**, encoder and decoder. For x86 prefix stability is claimed for buffers below
    4 GiB − 5 (the carried `prev_pos` is a 32-bit distance); for the seven others for every length. -/
theorem bcj_contract (id : XzVerif.Simple.FilterId) (enc : Bool) (lim : Nat) (hx : id = .x86 → lim + 5 ≤ 2 ^ 32) :
    Coder.BcjContract (bcjFilter id enc) id.unfilteredMax lim := by
  have hb := C15.bcj_chunk_stable enc
  by_cases h : id = .x86
  · subst h
    have hl := hx rfl
    refine ⟨fun s b => (x86Code_shape enc s.1 s.2 b).len, fun s b => (x86Code_shape enc s.1 s.2 b).count,
      fun s b => (x86Code_shape enc s.1 s.2 b).tail, fun s b => ?_, fun s a b hlen => ?_⟩
    · have := (x86Code_shape enc s.1 s.2 b).leaves
      simp only [bcjFilter, XzVerif.Simple.filterCode, XzVerif.Simple.FilterId.unfilteredMax]; omega
    · exact C15.x86_chunk_stable enc s.1 s.2 a b (by omega)
  · rw [bcjFilter_eq id enc h]
    cases id
    · exact absurd rfl h
    · exact stateless_contract _ 4 _ lim (by decide) (fun off l => blockCode_shape (by omega) _ off l) hb.2.2.2.1
    · exact stateless_contract _ 16 _ lim (by decide) (fun off l => blockCode_shape (by omega) _ off l) hb.2.2.2.2.2
    · exact stateless_contract _ 4 _ lim (by decide) (fun off l => blockCode_shape (by omega) _ off l) hb.1
    · exact stateless_contract _ 4 _ lim (by decide) (fun off l => thumbGo_shape enc _ l off (Nat.le_refl _)) hb.2.1
    · exact stateless_contract _ 4 _ lim (by decide) (fun off l => blockCode_shape (by omega) _ off l) hb.2.2.2.2.1
    · exact stateless_contract _ 4 _ lim (by decide) (fun off l => blockCode_shape (by omega) _ off l) hb.2.2.1
    · exact stateless_contract _ 8 _ lim (by decide) (fun off l => riscvCode_shape enc off l) (C15.riscv_chunk_stable enc)

end XzVerif.CoderBcj
