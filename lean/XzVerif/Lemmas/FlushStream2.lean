/-
  Helper lemmas for C12 (continued): the remaining sequence states of stream_encode, stream_encoder_update, and the
  invariant of a Stream encoder along an arbitrary history. Core Lean only.
-/
import XzVerif.Lemmas.FlushStream
set_option linter.unusedSimpArgs false
set_option linter.unusedVariables false

namespace XzVerif.Flush
variable {σ : Type}

theorem validateLoop_ret : ∀ (fs : Chain) (nl l : Bool) (c i : Nat),
    (validateLoop fs nl l c i).1 = .ok ∨ (validateLoop fs nl l c i).1 = .optionsError := by
  intro fs
  induction fs with
  | nil => intro _ _ _ _; left; rfl
  | cons f rest ih =>
    intro nl l c i
    unfold validateLoop
    by_cases hnl : nl = true
    · simp only [hnl, Bool.not_true, Bool.false_eq_true, if_false]; exact ih _ _ _ _
    · simp [hnl]

theorem rawInitRet_cases (fs : Chain) : rawInitRet fs = .ok ∨ rawInitRet fs = .progError ∨ rawInitRet fs = .optionsError := by
  have hv : validateChain fs = .ok ∨ validateChain fs = .progError ∨ validateChain fs = .optionsError := by
    unfold validateChain
    by_cases he : fs.isEmpty = true
    · simp [he]
    · simp only [he, Bool.false_eq_true, if_false]
      have := validateLoop_ret fs true false 0 0
      generalize validateLoop fs true false 0 0 = res at this
      obtain ⟨r, lastOk, csc, i⟩ := res
      simp only at this ⊢
      rcases this with h | h <;> subst h
      · by_cases hc : (i > FILTERS_MAX || !lastOk || csc > 3) = true
        · right; right; simp only [hc]; simp
        · left; simp only [hc]; simp
      · right; right; simp
  unfold rawInitRet
  rcases hv with h | h | h
  · by_cases hall : fs.all Filter.initOk = true
    · left; simp [h, hall]
    · right; right; simp [h, hall]
  · right; left; simp [h]
  · right; right; simp [h]

theorem streamBlockInit_error {C : Codec σ} {fs : Chain} {check : Nat} {r : Ret}
    (h : streamBlockInit C fs check = .error r) : r ≠ .ok ∧ r ≠ .streamEnd := by
  unfold streamBlockInit at h
  cases hh : blockHeaderSize fs none none with
  | error r' =>
    simp [hh] at h; subst h
    -- every error of lzma_block_header_size is LZMA_PROG_ERROR
    unfold blockHeaderSize at hh
    simp at hh
    by_cases hemp : fs = []
    · simp [hemp] at hh; subst hh; exact ⟨by decide, by decide⟩
    · simp [hemp] at hh
      cases hs : flagsSizeSum fs 0 with
      | ok c => simp [hs] at hh
      | error e =>
        simp [hs] at hh; subst hh
        have : ∀ (fs : Chain) (i : Nat) (e : Ret), flagsSizeSum fs i = .error e → e = .progError := by
          intro fs
          induction fs with
          | nil => intro i e h; simp [flagsSizeSum] at h
          | cons g rest ih =>
            intro i e h
            unfold flagsSizeSum at h
            by_cases hi : i = FILTERS_MAX
            · simp [hi] at h; exact h.symm
            · simp only [hi, if_false] at h
              by_cases hg : g.id ≥ FILTER_RESERVED_START
              · simp [Filter.flagsSize, hg] at h; exact h.symm
              · simp only [Filter.flagsSize, hg, if_false] at h
                cases hrest : flagsSizeSum rest (i + 1) with
                | error r => simp [hrest] at h; subst h; exact ih _ _ hrest
                | ok b => simp [hrest] at h
        rw [this fs 0 e hs]; exact ⟨by decide, by decide⟩
  | ok h' =>
    simp only [hh] at h
    unfold BlockEnc.init at h
    have hraw := rawInitRet_cases fs
    cases hr : rawInitRet fs <;> simp [hr] at h hraw <;> subst h <;> exact ⟨by decide, by decide⟩

/-- SEQ_BLOCK_INIT without input -/
theorem StreamEnc.spec_init_empty {E : Env σ} (F : Fmt) {s : StreamEnc σ} {out input : Bytes}
    (h : StreamOk E F s out input false) (hs : s.seq = .blockInit) (fuel : Nat) (a : Action) :
    StepOk E F s out input [] a (StreamEnc.code E (fuel + 2) s [] a) := by
  rw [StreamEnc.code_init_empty E fuel s hs a]
  have hout := h.outEq rfl
  have hin := h.inEq rfl
  have e1 : (SSeq.blockInit = SSeq.streamHeader) = False := by simp
  have e2 : (SSeq.blockInit = SSeq.blockEncode) = False := by simp
  simp only [hs, e1, e2, if_false, List.append_nil] at hout hin
  by_cases haf : a = .finish
  · subst haf
    have hbn : blockInitNoInput Action.finish = none := rfl
    simp only [hbn]
    refine ⟨rfl, ?_, (by simp), (by intro _ _ hh; cases hh), (by intro hh; cases hh), (by simp [hs]), ⟨rfl, rfl⟩, (by simp)⟩
    refine ⟨⟨h.recs, h.usizes, h.doneOk, ?_, (by intro hh; cases hh), (by intro hh; cases hh), (by intro hh; cases hh),
      (by intro hh; cases hh), (by intro hh; cases hh), ?_⟩, (by intro hh; cases hh)⟩
    · intro hbi; exact ⟨by simp, (h.inited hbi).2⟩
    · intro _
      refine ⟨rfl, ?_, by simpa using hin⟩
      simp only [render_cons, render_nil, Seg.bytes, List.append_nil]
      rw [hout]; simp [List.append_assoc]
  · have hbi : blockInitNoInput a = some (if a = .run then .ok else .streamEnd) := by
      cases a <;> simp [blockInitNoInput] at haf ⊢
    have hfin : (a == Action.finish) = false := by cases a <;> simp at haf ⊢
    simp only [hbi]
    refine ⟨rfl, ?_, rfl, (by intro _ _ hh; rw [hs] at hh; cases hh), (by intro _ hh; rw [hs] at hh; cases hh), (by simp [hs]), ⟨rfl, rfl⟩, (by simp [hs])⟩
    rw [hfin]
    simpa using h

/-- SEQ_BLOCK_INIT with input -/
theorem StreamEnc.code_init_data (E : Env σ) (fuel : Nat) (s : StreamEnc σ) (hs : s.seq = .blockInit) (inp : Bytes)
    (hne : inp ≠ []) (a : Action) :
    StreamEnc.code E (fuel + 1) s inp a =
      match (if s.blockInited then Except.ok (s.block, s.headerSize) else streamBlockInit (E.codec s.records.length) s.filters s.check) with
      | .error r => (s, [], 0, r)
      | .ok (b, h) =>
        ((StreamEnc.code E fuel { s with blockInited := false, block := b, headerSize := h, seq := .blockEncode, openChain := s.filters } inp a).1,
         Seg.blockHeader s.filters none none ::
           (StreamEnc.code E fuel { s with blockInited := false, block := b, headerSize := h, seq := .blockEncode, openChain := s.filters } inp a).2.1,
         (StreamEnc.code E fuel { s with blockInited := false, block := b, headerSize := h, seq := .blockEncode, openChain := s.filters } inp a).2.2.1,
         (StreamEnc.code E fuel { s with blockInited := false, block := b, headerSize := h, seq := .blockEncode, openChain := s.filters } inp a).2.2.2) := by
  rw [StreamEnc.code]
  have hne' : inp.isEmpty = false := by cases inp <;> simp at hne ⊢
  simp only [hs, hne', Bool.false_eq_true, if_false]
  generalize (if s.blockInited = true then Except.ok (s.block, s.headerSize)
    else streamBlockInit (E.codec s.records.length) s.filters s.check) = x
  cases x with
  | error r => rfl
  | ok p => obtain ⟨b, h⟩ := p; rfl

theorem StreamEnc.spec_init_data {E : Env σ} (hE : ∀ i, (E.codec i).Sound) (F : Fmt) {s : StreamEnc σ} {out input : Bytes}
    (h : StreamOk E F s out input false) (hs : s.seq = .blockInit) (fuel : Nat) (inp : Bytes) (hne : inp ≠ []) (a : Action)
    (hret : (StreamEnc.code E (fuel + 4) s inp a).2.2.2 = .ok ∨ (StreamEnc.code E (fuel + 4) s inp a).2.2.2 = .streamEnd) :
    StepOk E F s out input inp a (StreamEnc.code E (fuel + 4) s inp a) := by
  rw [StreamEnc.code_init_data E (fuel + 3) s hs inp hne a] at hret ⊢
  have hinit : ∃ b hh, (if s.blockInited then Except.ok (s.block, s.headerSize) else streamBlockInit (E.codec s.records.length) s.filters s.check) = .ok (b, hh)
      ∧ streamBlockInit (E.codec s.records.length) s.filters s.check = .ok (b, hh) := by
    cases hbi : s.blockInited
    · simp only [Bool.false_eq_true, if_false]
      cases hsi : streamBlockInit (E.codec s.records.length) s.filters s.check with
      | error r =>
        simp only [hbi, Bool.false_eq_true, if_false, hsi] at hret
        have := streamBlockInit_error hsi
        rcases hret with h1 | h1
        · exact absurd h1 this.1
        · exact absurd h1 this.2
      | ok p => exact ⟨p.1, p.2, rfl, rfl⟩
    · exact ⟨s.block, s.headerSize, by simp, (h.inited hbi).2⟩
  obtain ⟨b, hh, hif, hsi⟩ := hinit
  rw [hif] at hret ⊢
  simp only at hret ⊢
  obtain ⟨hbok, hbe, hbd, hbc⟩ := BlockOk.fresh hsi
  have hout := h.outEq rfl
  have hin := h.inEq rfl
  have e1 : (SSeq.blockInit = SSeq.streamHeader) = False := by simp
  have e2 : (SSeq.blockInit = SSeq.blockEncode) = False := by simp
  simp only [hs, e1, e2, if_false, List.append_nil] at hout hin
  have hpre : StreamPre E F { s with blockInited := false, block := b, headerSize := hh, seq := .blockEncode, openChain := s.filters }
      (out ++ F.blockHeader s.filters none none) input false := by
    refine ⟨h.recs, h.usizes, h.doneOk, (by intro hx; cases hx), (by intro _; right; right; rfl), ?_, ?_, ?_, (by intro hx; cases hx), (by intro hx; cases hx)⟩
    · intro _; simp [hout, hbe, List.append_assoc]
    · intro _; simp [hin, hbd]
    · intro _; simp only; rw [← h.recs]; exact ⟨hbok, hbc⟩
  have hstep := StreamEnc.spec_encode hE F hpre rfl fuel inp a (Or.inr hne) hret
  obtain ⟨s1, s2, s3, s4, s5, s6, s7, s8⟩ := hstep
  refine ⟨s1, ?_, s3, s4, s5, ?_, s7, s8⟩
  · simpa [render_cons, Seg.bytes, List.append_assoc] using s2
  · simp only at s6; rw [s6]; simp [hne]

/-- SEQ_STREAM_HEADER -/
theorem StreamEnc.code_header (E : Env σ) (fuel : Nat) (s : StreamEnc σ) (hs : s.seq = .streamHeader) (inp : Bytes) (a : Action) :
    StreamEnc.code E (fuel + 1) s inp a =
      ((StreamEnc.code E fuel { s with seq := .blockInit } inp a).1,
       Seg.streamHeader s.check :: (StreamEnc.code E fuel { s with seq := .blockInit } inp a).2.1,
       (StreamEnc.code E fuel { s with seq := .blockInit } inp a).2.2.1,
       (StreamEnc.code E fuel { s with seq := .blockInit } inp a).2.2.2) := by
  rw [StreamEnc.code]
  simp only [hs]

/-- One operation of `stream_encode` that does not fail, from any resting state. -/
theorem StreamEnc.spec {E : Env σ} (hE : ∀ i, (E.codec i).Sound) (F : Fmt) {s : StreamEnc σ} {out input : Bytes}
    (h : StreamOk E F s out input false) (inp : Bytes) (a : Action)
    (hret : (StreamEnc.code E 8 s inp a).2.2.2 = .ok ∨ (StreamEnc.code E 8 s inp a).2.2.2 = .streamEnd) :
    StepOk E F s out input inp a (StreamEnc.code E 8 s inp a) := by
  rcases h.seqs rfl with hs | hs | hs
  · -- Stream Header first
    rw [StreamEnc.code_header E 7 s hs inp a] at hret ⊢
    simp only at hret
    have hd := h.fresh hs
    have hout := h.outEq rfl
    have hin := h.inEq rfl
    have e2 : (SSeq.streamHeader = SSeq.blockEncode) = False := by simp
    simp only [hs, e2, if_true, if_false, List.append_nil, hd, doneBytes, doneData, List.map_nil, List.flatten_nil] at hout hin
    have h' : StreamOk E F { s with seq := .blockInit } (out ++ F.streamHeader s.check) input false := by
      refine ⟨⟨h.recs, h.usizes, h.doneOk, ?_, (by intro _; right; left; rfl), ?_, ?_, (by intro hx; cases hx), (by intro hx; cases hx), (by intro hx; cases hx)⟩, (by intro hx; cases hx)⟩
      · intro hbi; exact ⟨by simp, (h.inited hbi).2⟩
      · intro _; simp [hout, hd, doneBytes]
      · intro _; simp [hin, hd, doneData]
    have key : StepOk E F { s with seq := .blockInit } (out ++ F.streamHeader s.check) input inp a
        (StreamEnc.code E 7 { s with seq := .blockInit } inp a) := by
      by_cases hne : inp = []
      · subst hne; exact StreamEnc.spec_init_empty F h' rfl 5 a
      · exact StreamEnc.spec_init_data hE F h' rfl 3 inp hne a hret
    obtain ⟨s1, s2, s3, s4, s5, s6, s7, s8⟩ := key
    refine ⟨s1, ?_, s3, s4, s5, ?_, s7, s8⟩
    · simpa [render_cons, Seg.bytes, List.append_assoc] using s2
    · simp only at s6; rw [s6]; simp [hs]
  · by_cases hne : inp = []
    · subst hne; exact StreamEnc.spec_init_empty F h hs 6 a
    · exact StreamEnc.spec_init_data hE F h hs 4 inp hne a hret
  · exact StreamEnc.spec_encode hE F h.toStreamPre hs 5 inp a (Or.inl (h.openNe hs)) hret


/-! ### lzma_filters_update -/

/-- `lz_encoder_update` down the chain changes at most the LZMA2 options, at a chunk boundary. -/
theorem RawEnc.update_l2 (r : RawEnc σ) (fs : Chain) :
    (r.update fs).1 = r ∨ ∃ p, (r.update fs).1 = { r with l2 := (r.l2.optionsUpdate p).1 } := by
  unfold RawEnc.update
  cases hrev : fs.reverse with
  | nil => left; rfl
  | cons f rest =>
    simp only
    by_cases h1 : r.isLzma1 = true
    · left; simp [h1]
    · simp only [h1, Bool.false_eq_true, if_false]
      by_cases hr : (r.l2.optionsUpdate f.props).2 = .ok
      · right; exact ⟨f.props, by simp [hr]⟩
      · left; simp [hr]

/-- `block_encoder_update` keeps the Block encoder invariant and everything that has been written or counted. -/
theorem BlockEnc.update_ok {C : Codec σ} {b : BlockEnc σ} (hb : BlockOk C b) (fs : Chain) :
    BlockOk C (b.update fs).1 ∧ (b.update fs).1.emitted = b.emitted ∧ (b.update fs).1.data = b.data
      ∧ (b.update fs).1.checkId = b.checkId := by
  have key : (b.update fs).1 = b ∨ ∃ p, (b.update fs).1 = { b with raw := { b.raw with l2 := (b.raw.l2.optionsUpdate p).1 } } := by
    unfold BlockEnc.update
    have hne : (b.seq != BSeq.code) = false := by rw [hb.seq]; rfl
    simp only [hne, Bool.false_eq_true, if_false]
    cases fs.getLast? with
    | none => left; simp
    | some n =>
      cases b.raw.chain.getLast? with
      | none => left; simp
      | some c =>
        simp only
        by_cases hid : n.id = c.id
        · simp only [hid]
          rcases RawEnc.update_l2 b.raw fs with h | ⟨p, h⟩
          · left; simp [h]
          · right; exact ⟨p, by simp [h]⟩
        · left; simp [hid]
  rcases key with h | ⟨p, h⟩
  · rw [h]; exact ⟨hb, rfl, rfl, rfl⟩
  · rw [h]
    refine ⟨⟨hb.seq, hb.lzma2, hb.csize, hb.usize, hb.heldSync, ?_⟩, rfl, rfl, rfl⟩
    intro tail
    obtain ⟨d, hd, ha, hh⟩ := hb.dec tail
    obtain ⟨ha', e1, e2⟩ := optionsUpdate_agree ha p
    exact ⟨d, hd, ha', by simp only [e1, e2]; exact hh⟩

/-- `stream_encoder_update` keeps the Stream encoder invariant (whatever it answers). -/
theorem StreamEnc.update_ok {E : Env σ} {F : Fmt} {s : StreamEnc σ} {out input : Bytes} {fin : Bool}
    (h : StreamOk E F s out input fin) (fs : Chain) :
    StreamOk E F (s.update (E.codec s.records.length) fs).1 out input fin := by
  unfold StreamEnc.update
  by_cases hlen : fs.length > FILTERS_MAX
  · simp only [hlen, if_true]; exact h
  simp only [hlen, if_false]
  by_cases h1 : s.seq.code ≤ SSeq.blockInit.code
  · simp only [h1, if_true]
    have hnb : s.seq ≠ .blockEncode := by intro hh; rw [hh] at h1; revert h1; decide
    have hnf : s.seq ≠ .streamFooter := by intro hh; rw [hh] at h1; revert h1; decide
    have hfin : fin = false := by
      cases fin
      · rfl
      · exact absurd (h.ended rfl).1 hnf
    subst hfin
    cases hsi : streamBlockInit (E.codec s.records.length) fs s.check with
    | error r =>
      simp only
      exact ⟨⟨h.recs, h.usizes, h.doneOk, (by intro hx; cases hx), h.seqs, h.outEq, h.inEq, h.openOk, h.fresh, h.ended⟩, h.openNe⟩
    | ok p =>
      obtain ⟨b, hh⟩ := p
      simp only
      refine ⟨⟨h.recs, h.usizes, h.doneOk, (by intro _; exact ⟨hnb, hsi⟩), h.seqs, ?_, ?_, ?_, h.fresh, (by intro hx; cases hx)⟩, ?_⟩
      · intro hx; have := h.outEq hx; simpa [hnb] using this
      · intro hx; have := h.inEq hx; simpa [hnb] using this
      · intro hx; exact absurd hx hnb
      · intro hx; exact absurd hx hnb
  · simp only [h1, if_false]
    by_cases h2 : s.seq.code ≤ SSeq.blockEncode.code
    · simp only [h2, if_true]
      -- in the middle of a Block
      have hfin : fin = false := by
        cases fin
        · rfl
        · have := (h.ended rfl).1; rw [this] at h2; revert h2; decide
      subst hfin
      have hs : s.seq = .blockEncode := by
        rcases h.seqs rfl with hh | hh | hh
        · rw [hh] at h1; exact absurd (by decide) h1
        · rw [hh] at h1; exact absurd (by decide) h1
        · exact hh
      obtain ⟨hbok, hchk⟩ := h.openOk hs
      obtain ⟨hb', e1, e2, e3⟩ := BlockEnc.update_ok hbok fs
      have hout := h.outEq rfl
      have hin := h.inEq rfl
      have hni : s.blockInited = false := by
        cases hbi : s.blockInited
        · rfl
        · exact absurd hs (h.inited hbi).1
      have common : ∀ fl : Chain, StreamOk E F { s with block := (s.block.update fs).1, filters := fl } out input false := by
        intro fl
        refine ⟨⟨h.recs, h.usizes, h.doneOk, (by intro hx; simp only at hx; rw [hni] at hx; cases hx), h.seqs, ?_, ?_, ?_, h.fresh, (by intro hx; cases hx)⟩, ?_⟩
        · intro _; simp only [e1]; exact hout
        · intro _; simp only [e2]; exact hin
        · intro _; exact ⟨hb', by rw [e3, hchk]⟩
        · intro _; simp only [e2]; exact h.openNe hs
      by_cases hr : (s.block.update fs).2 = .ok
      · simp only [hr]; exact common fs
      · have : ((s.block.update fs).2 != .ok) = true := by simpa using hr
        simp only [this, if_true]; exact common s.filters
    · simp only [h2, if_false]; exact h


/-! ### lzma_stream level -/

/-- Invariant of `lzma_stream_encoder` / `lzma_easy_encoder` along a history (as long as no fatal error occurred). -/
structure StreamInv (E : Env σ) (F : Fmt) (e : Enc σ) (t : Trace) : Prop where
  sup : e.supported = supportedStream
  core : e.dead = false → ∃ s, e.core = .stream s ∧ StreamOk E F s (render F t.segs) t.input e.finished

theorem supportedStream_all (a : Action) : supportedStream.testBit a.code = true := by cases a <;> decide

theorem Enc.exec_dead (E : Env σ) (e : Enc σ) (t : Trace) (op : Op) (hd : e.dead = true) :
    (Enc.exec E (e, t) op).1.dead = true := by
  cases op with
  | code a d => simp [Enc.exec, Enc.step, Enc.codeOp, hd]
  | update fs =>
    simp only [Enc.exec, Enc.step, Enc.updateOp]
    split
    · exact hd
    · cases e.core <;> exact hd

/-- What a code operation does to a live, unfinished Stream encoder. -/
theorem StreamInv.code_step {E : Env σ} (hE : ∀ i, (E.codec i).Sound) {F : Fmt} {e : Enc σ} {t : Trace}
    (h : StreamInv E F e t) (hal : e.dead = false) (hnf : e.finished = false) (a : Action) (data : Bytes)
    (halive : (Enc.exec E (e, t) (.code a data)).1.dead = false) :
    ∃ s, e.core = .stream s ∧ StreamOk E F s (render F t.segs) t.input false ∧
      (Enc.exec E (e, t) (.code a data)).1.core = .stream (StreamEnc.code E 8 s data a).1 ∧
      (Enc.exec E (e, t) (.code a data)).2.segs = t.segs ++ (StreamEnc.code E 8 s data a).2.1 ∧
      (Enc.exec E (e, t) (.code a data)).2.input = t.input ++ data ∧
      (Enc.exec E (e, t) (.code a data)).2.rets = t.rets ++ [(StreamEnc.code E 8 s data a).2.2.2] ∧
      (Enc.exec E (e, t) (.code a data)).1.finished = (a == .finish) ∧
      (Enc.exec E (e, t) (.code a data)).1.supported = e.supported ∧
      StepOk E F s (render F t.segs) t.input data a (StreamEnc.code E 8 s data a) := by
  obtain ⟨s, hcore, hok⟩ := h.core hal
  rw [hnf] at hok
  have hs : e.supported.testBit a.code = true := by rw [h.sup]; exact supportedStream_all a
  simp only [Enc.exec, Enc.step, Enc.codeOp, hal, Bool.false_eq_true, if_false, hs, Bool.not_true, hnf, hcore, Op.data] at halive ⊢
  have hret : (StreamEnc.code E 8 s data a).2.2.2 = .ok ∨ (StreamEnc.code E 8 s data a).2.2.2 = .streamEnd := by
    cases hr : (StreamEnc.code E 8 s data a).2.2.2 <;> simp [hr] at halive ⊢
  have hstep := StreamEnc.spec hE F hok data a hret
  have t1 : ∀ (P : Prop), P → P := fun _ p => p
  refine ⟨s, (by first | rfl | trivial), hok, (by first | rfl | trivial), (by first | rfl | trivial), ?_, (by first | rfl | trivial), ?_,
    (by first | rfl | trivial), hstep⟩
  · rw [hstep.used, List.take_length]
  · rw [hstep.ret]; cases a <;> simp

theorem StreamInv.step {E : Env σ} (hE : ∀ i, (E.codec i).Sound) {F : Fmt} {e : Enc σ} {t : Trace}
    (h : StreamInv E F e t) (op : Op) : StreamInv E F (Enc.exec E (e, t) op).1 (Enc.exec E (e, t) op).2 := by
  by_cases hal : e.dead = true
  · refine ⟨?_, ?_⟩
    · cases op with
      | code a d => simp only [Enc.exec, Enc.step, Enc.codeOp, hal, if_true]; exact h.sup
      | update fs =>
        simp only [Enc.exec, Enc.step, Enc.updateOp]
        split
        · exact h.sup
        · cases e.core <;> exact h.sup
    · intro hd; rw [Enc.exec_dead E e t op hal] at hd; cases hd
  have hal' : e.dead = false := by simpa using hal
  obtain ⟨s, hcore, hok⟩ := h.core hal'
  cases op with
  | update fs =>
    simp only [Enc.exec, Enc.step, Enc.updateOp, Op.data, List.take_nil, List.append_nil]
    by_cases hm : memusageOk fs = true
    · simp only [hm, Bool.not_true, Bool.false_eq_true, if_false, hcore]
      exact ⟨h.sup, fun _ => ⟨_, rfl, by simpa using StreamEnc.update_ok hok fs⟩⟩
    · simp only [hm, Bool.not_false, if_true]
      exact ⟨h.sup, fun _ => ⟨s, hcore, by simpa using hok⟩⟩
  | code a data =>
    by_cases hfin : e.finished = true
    · -- ISEQ_END: lzma_code answers LZMA_STREAM_END without calling the coder
      have hs : e.supported.testBit a.code = true := by rw [h.sup]; exact supportedStream_all a
      simp only [Enc.exec, Enc.step, Enc.codeOp, hal', Bool.false_eq_true, if_false, hs, Bool.not_true, hfin, if_true, Op.data,
        List.take_zero, List.append_nil]
      exact ⟨h.sup, fun _ => ⟨s, hcore, by simpa [hfin] using hok⟩⟩
    · have hnf : e.finished = false := by simpa using hfin
      refine ⟨?_, ?_⟩
      · have hs : e.supported.testBit a.code = true := by rw [h.sup]; exact supportedStream_all a
        simp only [Enc.exec, Enc.step, Enc.codeOp, hal', Bool.false_eq_true, if_false, hs, Bool.not_true, hnf, hcore]
        exact h.sup
      · intro halive
        obtain ⟨s', hc', _, c1, c2, c3, _, c5, _, hstep⟩ := StreamInv.code_step hE h hal' hnf a data halive
        rw [hcore] at hc'; cases hc'
        refine ⟨_, c1, ?_⟩
        rw [c2, c3, c5, render_append]
        exact hstep.ok

theorem StreamInv.execAll {E : Env σ} (hE : ∀ i, (E.codec i).Sound) {F : Fmt} {e : Enc σ} (h : StreamInv E F e {}) (ops : List Op) :
    StreamInv E F (Enc.execAll E e ops).1 (Enc.execAll E e ops).2 := by
  unfold Enc.execAll
  exact foldl_invariant (fun et : Enc σ × Trace => StreamInv E F et.1 et.2) (Enc.exec E)
    (fun et op hh => StreamInv.step hE hh op) ops (e, {}) h

/-- `lzma_stream_encoder` accepted the chain -/
theorem StreamInv.init (E : Env σ) (F : Fmt) {fs : Chain} {check : Nat}
    (hacc : (StreamEnc.init (E.codec 0) fs check).2 = .ok) : StreamInv E F (Enc.streamInit E fs check) {} := by
  refine ⟨rfl, fun _ => ⟨_, rfl, ?_⟩⟩
  unfold StreamEnc.init StreamEnc.update at hacc ⊢
  by_cases hlen : fs.length > FILTERS_MAX
  · simp [hlen] at hacc
  simp only [hlen, if_false] at hacc ⊢
  have h1 : SSeq.streamHeader.code ≤ SSeq.blockInit.code := by decide
  simp only [h1, if_true] at hacc ⊢
  cases hsi : streamBlockInit (E.codec 0) fs check with
  | error r =>
    simp only [hsi] at hacc
    exact absurd hacc (streamBlockInit_error hsi).1
  | ok p =>
    obtain ⟨b, hh⟩ := p
    simp only
    refine ⟨⟨rfl, rfl, (by intro i b hx; simp at hx), (by intro _; exact ⟨by simp, hsi⟩), (by intro _; left; rfl), ?_, ?_,
      (by intro hx; cases hx), (by intro _; rfl), (by intro hx; cases hx)⟩, (by intro hx; cases hx)⟩
    · intro _; simp [render, doneBytes]
    · intro _; simp [doneData]


theorem StreamEnc.code_check (E : Env σ) : ∀ (fuel : Nat) (s : StreamEnc σ) (inp : Bytes) (a : Action),
    (StreamEnc.code E fuel s inp a).1.check = s.check := by
  intro fuel
  induction fuel with
  | zero => intro s inp a; rfl
  | succ fuel ih =>
    intro s inp a
    rw [StreamEnc.code]
    cases hs : s.seq with
    | streamHeader => simp only; exact ih _ _ _
    | blockInit =>
      simp only
      split
      · split
        · rfl
        · exact ih _ _ _
      · split
        · rfl
        · exact ih _ _ _
    | blockHeader => simp only; exact ih _ _ _
    | blockEncode =>
      simp only
      generalize BlockEnc.code E (E.codec s.records.length) s.block inp (convert a) = r
      obtain ⟨b1, out, used, ret⟩ := r
      simp only
      split
      · rfl
      · exact ih _ _ _
    | indexEncode => simp only
    | streamFooter => simp only

theorem StreamEnc.update_check (C : Codec σ) (s : StreamEnc σ) (fs : Chain) : (s.update C fs).1.check = s.check := by
  unfold StreamEnc.update
  split
  · rfl
  · split
    · split <;> rfl
    · split
      · split
        split <;> rfl
      · rfl

/-- the Check ID chosen at initialisation never changes -/
def CheckIs (c : Nat) (e : Enc σ) : Prop := ∀ s, e.core = .stream s → s.check = c

theorem CheckIs.step (E : Env σ) {c : Nat} {e : Enc σ} (t : Trace) (h : CheckIs c e) (op : Op) : CheckIs c (Enc.exec E (e, t) op).1 := by
  intro s' hs'
  cases op with
  | update fs =>
    simp only [Enc.exec, Enc.step, Enc.updateOp] at hs'
    split at hs'
    · exact h s' hs'
    · cases hc : e.core with
      | stream s => simp only [hc] at hs'; cases hs'; rw [StreamEnc.update_check]; exact h s hc
      | mt m => simp [hc] at hs'
      | raw r => simp [hc] at hs'
      | block b => simp [hc] at hs'
  | code a d =>
    simp only [Enc.exec, Enc.step, Enc.codeOp] at hs'
    split at hs'
    · exact h s' hs'
    · split at hs'
      · exact h s' hs'
      · split at hs'
        · exact h s' hs'
        · cases hc : e.core with
          | stream s => simp only [hc] at hs'; cases hs'; rw [StreamEnc.code_check]; exact h s hc
          | mt m => simp [hc] at hs'
          | raw r => simp [hc] at hs'
          | block b => simp [hc] at hs'

theorem CheckIs.execAll (E : Env σ) {c : Nat} {e : Enc σ} (h : CheckIs c e) (ops : List Op) : CheckIs c (Enc.execAll E e ops).1 := by
  unfold Enc.execAll
  exact foldl_invariant (fun et : Enc σ × Trace => CheckIs c et.1) (Enc.exec E) (fun et op hh => CheckIs.step E et.2 hh op) ops (e, {}) h

theorem CheckIs.init (E : Env σ) (fs : Chain) (check : Nat) : CheckIs check (Enc.streamInit E fs check) := by
  intro s hs
  simp only [Enc.streamInit] at hs
  cases hs
  unfold StreamEnc.init
  rw [StreamEnc.update_check]


end XzVerif.Flush
