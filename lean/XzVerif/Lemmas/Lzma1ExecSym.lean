/-
  C01, executable decoder ↔ specification decoder, part 3: one symbol.
  `Lzma.decodeSymbol` (Model/Lzma.lean: SEQ_IS_MATCH … up to, not including, the output step) on a decoder state that is
  in step with the specification (`View`, `StOk`, same lc/lp/pb, `dict.pos ≡ position + k (mod 16)`, same previous byte
  and match byte) follows the specification tree `decodeSym` with its contexts renamed by `ctxMap p k`: it returns the
  output step of the decoded symbol and the state with the new range-coder triple and the new state/rep registers.
-/
import XzVerif.Lemmas.Lzma1ExecLen

namespace XzVerif.LzmaExec
open XzVerif.RangeDec XzVerif.RangeEnc XzVerif.LzDict XzVerif.Lzma XzVerif.LzmaEnc XzVerif.LzmaSymDec XzVerif.LzmaSym

/-- state machine and rep registers agree -/
structure StOk (s : St) (st : SymSt) : Prop where
  state : s.state = st.state
  rep0 : s.rep0 = st.rep0
  rep1 : s.rep1 = st.rep1
  rep2 : s.rep2 = st.rep2
  rep3 : s.rep3 = st.rep3

/-- the decoder state with new state/rep registers -/
def setSt (s : St) (st : SymSt) : St :=
  { s with state := st.state, rep0 := st.rep0, rep1 := st.rep1, rep2 := st.rep2, rep3 := st.rep3 }

/-! ### the three branches of `decodeSymbol`, named -/

def readLitBase : M Nat := fun s => EStateM.Result.ok (P_LITERAL + literalSubcoder s.lc s.lp s.dp.pos s.dictGet0.toNat) s
def readMb : M Nat := fun s => EStateM.Result.ok (s.dictGet s.rep0).toNat s
def readFin : M Bool := fun s => EStateM.Result.ok (s.code == 0) s

def decLit (state : Nat) : M Pending := do
  let base ← readLitBase
  if isLiteralState state then
    modify fun s => { s with state := updateLiteralNormal state }
    let sym ← bittree base 8 1
    pure (.litWrite (sym % 256))
  else
    modify fun s => { s with state := updateLiteralMatched state }
    let mb ← readMb
    let sym ← litMatched base 8 1 0x100 (mb * 2)
    pure (.litWrite (sym % 256))

def matchPre (state : Nat) (s : St) : St :=
  { s with state := updateMatch state, rep3 := s.rep2, rep2 := s.rep1, rep1 := s.rep0 }
def setRep0 (d : Nat) (s : St) : St := { s with rep0 := d }
def setState (x : Nat) (s : St) : St := { s with state := x }
def swapRep1 (s : St) : St := { s with rep1 := s.rep0, rep0 := s.rep1 }
def swapRep2 (s : St) : St := { s with rep2 := s.rep1, rep1 := s.rep0, rep0 := s.rep2 }
def swapRep3 (s : St) : St := { s with rep3 := s.rep2, rep2 := s.rep1, rep1 := s.rep0, rep0 := s.rep3 }

def decMatch (eopmValid : Bool) (state posState full : Nat) : M Pending := do
  modify (matchPre state)
  let len ← lenDecode P_MATCH_LEN posState
  let d ← distDecode len
  modify (setRep0 d)
  if d == UINT32_MAX then
    if !eopmValid then throw .dataError
    rcNormalize
    let fin ← readFin
    if fin then throw .streamEnd else throw .dataError
  else if !(d < full) then throw .dataError
  else pure (.copy len)

def decRep (state posState full : Nat) : M Pending := do
  if full == 0 then throw .dataError
  else
    let isRep0 ← rcBit (P_IS_REP0 + state)
    let isShort ← (do
      if isRep0 == 0 then
        let isLong ← rcBit (P_IS_REP0_LONG + state * POS_STATES_MAX + posState)
        pure (isLong == 0)
      else
        let isRep1 ← rcBit (P_IS_REP1 + state)
        if isRep1 == 0 then
          modify swapRep1
        else
          let isRep2 ← rcBit (P_IS_REP2 + state)
          if isRep2 == 0 then
            modify swapRep2
          else
            modify swapRep3
        pure false : M Bool)
    if isShort then
      modify (setState (updateShortRep state))
      pure .shortRep
    else
      modify (setState (updateLongRep state))
      let len ← lenDecode P_REP_LEN posState
      pure (.copy len)

theorem decodeSymbol_eq (ev : Bool) (s : St) :
    decodeSymbol ev s =
      ((rcBit (P_IS_MATCH + s.state * POS_STATES_MAX + (s.dp.pos &&& s.posMask)) >>= fun isMatch =>
        if isMatch == 0 then decLit s.state
        else rcBit (P_IS_REP + s.state) >>= fun isRep =>
          if isRep == 0 then decMatch ev s.state (s.dp.pos &&& s.posMask) s.dp.full
          else decRep s.state (s.dp.pos &&& s.posMask) s.dp.full) s) := rfl

/-! ### the specification tree, split the same way -/

def litTree (p : Props) (s : SymSt) (pos prev mb : Nat) : Prog (Sym × SymSt) :=
  let base := P_LITERAL + literalSubcoder p.lc p.lp pos prev
  if isLiteralState s.state then
    (pBittree base 8 1).bind fun m =>
      .ret (.lit (UInt8.ofNat (m - 256)), { s with state := updateLiteralNormal s.state })
  else
    (pLitMatched base 8 1 0x100 mb).bind fun m =>
      .ret (.lit (UInt8.ofNat (m - 256)), { s with state := updateLiteralMatched s.state })

def matchTree (s : SymSt) (posState : Nat) : Prog (Sym × SymSt) :=
  (pLen P_MATCH_LEN posState).bind fun len =>
    (pDist len).bind fun d =>
      .ret (.mtch d len, { state := updateMatch s.state, rep0 := d, rep1 := s.rep0, rep2 := s.rep1, rep3 := s.rep2 })

def repTree (s : SymSt) (posState : Nat) : Prog (Sym × SymSt) :=
  .bit (P_IS_REP0 + s.state) fun isRep0 =>
    if !isRep0 then
      .bit (P_IS_REP0_LONG + s.state * POS_STATES_MAX + posState) fun isLong =>
        if !isLong then .ret (.shortrep, { s with state := updateShortRep s.state })
        else
          (pLen P_REP_LEN posState).bind fun len =>
            .ret (.rep 0 len, { s with state := updateLongRep s.state })
    else
      .bit (P_IS_REP1 + s.state) fun isRep1 =>
        if !isRep1 then
          (pLen P_REP_LEN posState).bind fun len =>
            .ret (.rep 1 len, { s with state := updateLongRep s.state, rep0 := s.rep1, rep1 := s.rep0 })
        else
          .bit (P_IS_REP2 + s.state) fun isRep2 =>
            if !isRep2 then
              (pLen P_REP_LEN posState).bind fun len =>
                .ret (.rep 2 len, { s with state := updateLongRep s.state, rep0 := s.rep2, rep1 := s.rep0, rep2 := s.rep1 })
            else
              (pLen P_REP_LEN posState).bind fun len =>
                .ret (.rep 3 len, { state := updateLongRep s.state, rep0 := s.rep3, rep1 := s.rep0, rep2 := s.rep1, rep3 := s.rep2 })

theorem decodeSym_eq (p : Props) (s : SymSt) (pos prev mb : Nat) :
    decodeSym p s pos prev mb =
      .bit (P_IS_MATCH + s.state * POS_STATES_MAX + (pos &&& ((1 <<< p.pb) - 1))) fun isMatch =>
        if !isMatch then litTree p s pos prev mb
        else .bit (P_IS_REP + s.state) fun isRep =>
          if !isRep then matchTree s (pos &&& ((1 <<< p.pb) - 1)) else repTree s (pos &&& ((1 <<< p.pb) - 1)) := rfl

theorem setSt_self {s : St} {st : SymSt} (h : StOk s st) : setSt s st = s := by
  obtain ⟨h0, h1, h2, h3, h4⟩ := h
  cases s
  simp only [setSt] at *
  subst h0; subst h1; subst h2; subst h3; subst h4
  rfl

theorem read_run {α : Type} (f : St → α) (s : St) : (fun s => EStateM.Result.ok (f s) s : M α) s = .ok (f s) s := rfl

/-! ### literal -/

theorem pLitMatched_range (g : Nat → Nat) (base : Nat) :
    ∀ (n sym offset mb : Nat) (ps : Probs) (rc : Rc) (rest : List UInt8) (v : Nat) (ps' : Probs) (rc' : Rc)
      (rest' : List UInt8),
      ((pLitMatched base n sym offset mb).mapCtx g).runRc ps rc rest = some (v, ps', rc', rest') →
      sym * 2 ^ n ≤ v ∧ v < (sym + 1) * 2 ^ n
  | 0, sym, offset, mb, ps, rc, rest, v, ps', rc', rest', h => by
    simp only [pLitMatched, Prog.mapCtx, Prog.runRc, Option.some.injEq, Prod.mk.injEq] at h
    rw [← h.1]; simp
  | n + 1, sym, offset, mb, ps, rc, rest, v, ps', rc', rest', h => by
    simp only [pLitMatched, Prog.mapCtx, Prog.runRc] at h
    cases hd : decodeBitL rc (ps.getD (g (base + offset + (mb * 2 &&& offset) + sym)) 0) rest with
    | none => rw [hd] at h; cases h
    | some r =>
      obtain ⟨b, rc1, p1, rest1⟩ := r
      rw [hd] at h
      have := pLitMatched_range g base n _ _ _ _ _ _ _ _ _ _ h
      have hb := b2n_le1 (b == 1)
      have hp : 0 < 2 ^ n := Nat.pow_pos (by norm_num)
      rw [pow_succ]
      constructor <;> nlinarith [this.1, this.2]

theorem ofNat_mod (m : Nat) (h1 : 256 ≤ m) (h2 : m < 512) : UInt8.ofNat (m % 256) = UInt8.ofNat (m - 256) := by
  have e : m % 256 = m - 256 := by omega
  rw [e]

theorem decLit_run (p : Props) (k pos prev mb : Nat) (st : SymSt) (s : St) (hp : PropsOk p)
    (hlc : s.lc = p.lc) (hlp : s.lp = p.lp) (hk : s.dp.pos % 16 = (pos + k) % 16)
    (hprev : s.dictGet0.toNat = prev) (hmb : isLiteralState st.state = false → (s.dictGet st.rep0).toNat = mb)
    {ps : Probs} {rc : Rc} {rest : List UInt8} {sym : Sym} {st' : SymSt} {ps' : Probs} {rc' : Rc} {rest' : List UInt8}
    (hv : View s ps rc rest)
    (h : ((litTree p st pos prev mb).mapCtx (ctxMap p k)).runRc ps rc rest = some ((sym, st'), ps', rc', rest')) :
    ∃ n, decLit st.state (setSt s st) = .ok (.litWrite n) (setSt (rcSet s ps' rc' rest'.length) st') ∧
      sym = .lit (UInt8.ofNat n) := by
  have hprev256 : prev < 256 := by rw [← hprev]; exact UInt8.toNat_lt_size _
  have hblock := ctxMap_literal p k pos s.dp.pos hp hk prev hprev256
  unfold decLit litTree at *
  have hread : readLitBase (setSt s st) = .ok (P_LITERAL + literalSubcoder p.lc p.lp s.dp.pos prev) (setSt s st) := by
    unfold readLitBase; rw [← hlc, ← hlp, ← hprev]; rfl
  rw [bind_ok hread]
  by_cases hl : isLiteralState st.state = true
  · simp only [hl, if_true] at h ⊢
    obtain ⟨m, ps1, rc1, rest1, hx, hret⟩ := Prog.runRc_bind_some _ h
    simp only [Prog.mapCtx, Prog.runRc, Option.some.injEq, Prod.mk.injEq] at hret
    obtain ⟨⟨rfl, rfl⟩, rfl, rfl, rfl⟩ := hret
    obtain ⟨hm1, hm2⟩ := pBittree_range _ _ 8 1 _ _ _ _ _ _ _ hx
    norm_num at hm1 hm2
    rw [bind_ok (modify_run _ _)]
    have hv' : View { setSt s st with state := updateLiteralNormal st.state } ps rc rest := hv.congr rfl rfl rfl rfl rfl
    rw [bind_ok (bittree_run _ _ _ 768 hblock 8 1 _ _ _ _ _ _ _ _ (by norm_num) hv' hx)]
    exact ⟨m % 256, rfl, by rw [ofNat_mod m hm1 hm2]⟩
  · have hl' : isLiteralState st.state = false := by simpa using hl
    simp only [hl', Bool.false_eq_true, if_false] at h ⊢
    obtain ⟨m, ps1, rc1, rest1, hx, hret⟩ := Prog.runRc_bind_some _ h
    simp only [Prog.mapCtx, Prog.runRc, Option.some.injEq, Prod.mk.injEq] at hret
    obtain ⟨⟨rfl, rfl⟩, rfl, rfl, rfl⟩ := hret
    obtain ⟨hm1, hm2⟩ := pLitMatched_range _ _ 8 1 _ _ _ _ _ _ _ _ _ hx
    norm_num at hm1 hm2
    rw [bind_ok (modify_run _ _)]
    have hmb' : readMb { setSt s st with state := updateLiteralMatched st.state }
        = .ok mb { setSt s st with state := updateLiteralMatched st.state } := by
      unfold readMb; rw [← hmb hl']; rfl
    rw [bind_ok hmb']
    have hv' : View { setSt s st with state := updateLiteralMatched st.state } ps rc rest := hv.congr rfl rfl rfl rfl rfl
    rw [bind_ok (litMatched_run _ _ _ hblock 8 1 256 mb _ _ _ _ _ _ _ _ (Or.inr rfl) (by norm_num) hv' hx)]
    exact ⟨m % 256, rfl, by rw [ofNat_mod m hm1 hm2]⟩

/-! ### simple match (and the end marker) -/

theorem decMatch_run (p : Props) (k pos : Nat) (st : SymSt) (s : St) (ev : Bool) (full : Nat) (hp : PropsOk p)
    (hk : s.dp.pos % 16 = (pos + k) % 16)
    {ps : Probs} {rc : Rc} {rest : List UInt8} {sym : Sym} {st' : SymSt} {ps' : Probs} {rc' : Rc} {rest' : List UInt8}
    (hv : View s ps rc rest)
    (h : ((matchTree st (pos &&& ((1 <<< p.pb) - 1))).mapCtx (ctxMap p k)).runRc ps rc rest
      = some ((sym, st'), ps', rc', rest')) :
    ∃ d len, sym = .mtch d len ∧ d < U32 ∧
      (d ≠ UINT32_MAX → d < full →
        decMatch ev st.state (s.dp.pos &&& ((1 <<< p.pb) - 1)) full (setSt s st)
          = .ok (.copy len) (setSt (rcSet s ps' rc' rest'.length) st')) ∧
      (d = UINT32_MAX → ev = true → ∀ rc'' rest'', normalizeL rc' rest' = some (rc'', rest'') → rc''.code = 0 →
        decMatch ev st.state (s.dp.pos &&& ((1 <<< p.pb) - 1)) full (setSt s st)
          = .error .streamEnd (setSt (rcSet s ps' rc'' rest''.length) st')) := by
  unfold matchTree at h
  obtain ⟨len, ps1, rc1, rest1, hlen, h2⟩ := Prog.runRc_bind_some _ h
  obtain ⟨d, ps2, rc2, rest2, hdist, hret⟩ := Prog.runRc_bind_some _ h2
  simp only [Prog.mapCtx, Prog.runRc, Option.some.injEq, Prod.mk.injEq] at hret
  obtain ⟨⟨rfl, rfl⟩, rfl, rfl, rfl⟩ := hret
  obtain ⟨l0, l1, llow, lmid, lhigh⟩ := ctxMap_len p k pos s.dp.pos hp hk P_MATCH_LEN (Or.inl rfl)
  obtain ⟨pre1, hpre1⟩ := Prog.runRc_suffix _ _ _ _ _ _ _ _ hlen
  have hv0 : View (matchPre st.state (setSt s st)) ps rc rest := hv.congr rfl rfl rfl rfl rfl
  have hlenrun := lenDecode_run (ctxMap p k) P_MATCH_LEN _ _ l0 l1 llow lmid lhigh hv0 hlen
  have hv1 := view_rcSet hv0 ps1 rc1 hpre1
  obtain ⟨hdistrun, hd32⟩ := distDecode_run (ctxMap p k) len
    (fun c h1 h2 => ctxMap_id p k hp c (Or.inr ⟨h1, h2⟩)) (fun m hm => ctxMap_align p k m hm) hv1 hdist
  rw [rcSet_rcSet] at hdistrun
  refine ⟨d, len, rfl, hd32, ?_, ?_⟩
  · intro hne hfull
    unfold decMatch
    rw [bind_ok (modify_run _ _), bind_ok hlenrun, bind_ok hdistrun, bind_ok (modify_run _ _)]
    have hb : (d == UINT32_MAX) = false := by simpa using hne
    have hf : (!decide (d < full)) = false := by simpa using hfull
    simp only [hb, Bool.false_eq_true, if_false, hf]
    rfl
  · intro heq hev rc'' rest'' hn hcode
    unfold decMatch
    rw [bind_ok (modify_run _ _), bind_ok hlenrun, bind_ok hdistrun, bind_ok (modify_run _ _)]
    have hb : (d == UINT32_MAX) = true := by simpa using heq
    subst hev
    simp only [hb, if_true, Bool.not_true, Bool.false_eq_true, if_false]
    obtain ⟨pre2, hpre2⟩ := Prog.runRc_suffix _ _ _ _ _ _ _ _ hdist
    have hv2 : View (setRep0 d (rcSet (matchPre st.state (setSt s st)) ps2 rc2 rest2.length)) ps2 rc2 rest2 :=
      (view_rcSet hv1 ps2 rc2 hpre2).congr rfl rfl rfl rfl rfl
    rw [bind_ok (rcNormalize_run hv2 hn)]
    have hfin : readFin (rcSet (setRep0 d (rcSet (matchPre st.state (setSt s st)) ps2 rc2 rest2.length)) ps2 rc'' rest''.length)
        = .ok true (rcSet (setRep0 d (rcSet (matchPre st.state (setSt s st)) ps2 rc2 rest2.length)) ps2 rc'' rest''.length) := by
      unfold readFin
      simp only [rcSet, hcode]
      rfl
    rw [bind_ok hfin]
    rfl

/-! ### repeated matches -/

/-- taking apart a `.bit` node of a run -/
theorem runRc_bit_some {α : Type} {g : Nat → Nat} {c : Nat} {k : Bool → Prog α} {ps : Probs} {rc : Rc} {rest : List UInt8}
    {R : α × Probs × Rc × List UInt8} (h : ((Prog.bit c k).mapCtx g).runRc ps rc rest = some R) :
    ∃ b rc1 p1 rest1, decodeBitL rc (ps.getD (g c) 0) rest = some (b, rc1, p1, rest1) ∧ b ≤ 1 ∧
      (∃ pre, rest = pre ++ rest1) ∧ ((k (b == 1)).mapCtx g).runRc (ps.setIfInBounds (g c) p1) rc1 rest1 = some R := by
  simp only [Prog.mapCtx, Prog.runRc] at h
  cases hd : decodeBitL rc (ps.getD (g c) 0) rest with
  | none => rw [hd] at h; cases h
  | some r =>
    obtain ⟨b, rc1, p1, rest1⟩ := r
    rw [hd] at h
    obtain ⟨hs, hb⟩ := decodeBitL_suffix hd
    exact ⟨b, rc1, p1, rest1, rfl, hb, hs, h⟩

theorem bind_bind_ok {α β γ : Type} {x : M α} {f : α → M β} {g : β → M γ} {s s' : St} {a : α} (h : x s = .ok a s') :
    ((x >>= f) >>= g) s = (f a >>= g) s' := by
  show EStateM.bind (EStateM.bind x f) g s = EStateM.bind (f a) g s'
  simp only [EStateM.bind, h]

theorem rcBit_view {s : St} {ps : Probs} {rc rc' : Rc} {rest rest' : List UInt8} {idx b p' : Nat} (hv : View s ps rc rest)
    (h : decodeBitL rc (ps.getD idx 0) rest = some (b, rc', p', rest')) :
    View (rcSet s (ps.setIfInBounds idx p') rc' rest'.length) (ps.setIfInBounds idx p') rc' rest' := by
  obtain ⟨⟨pre, hpre⟩, _⟩ := decodeBitL_suffix h
  exact view_rcSet hv _ rc' hpre

theorem decRep_run (p : Props) (k pos : Nat) (st : SymSt) (s : St) (full : Nat) (hp : PropsOk p) (hst : st.state < 12)
    (hk : s.dp.pos % 16 = (pos + k) % 16) (hfull : full ≠ 0)
    {ps : Probs} {rc : Rc} {rest : List UInt8} {sym : Sym} {st' : SymSt} {ps' : Probs} {rc' : Rc} {rest' : List UInt8}
    (hv : View s ps rc rest)
    (h : ((repTree st (pos &&& ((1 <<< p.pb) - 1))).mapCtx (ctxMap p k)).runRc ps rc rest
      = some ((sym, st'), ps', rc', rest')) :
    (sym = .shortrep ∧ decRep st.state (s.dp.pos &&& ((1 <<< p.pb) - 1)) full (setSt s st)
        = .ok .shortRep (setSt (rcSet s ps' rc' rest'.length) st')) ∨
    (∃ idx len, sym = .rep idx len ∧ idx < 4 ∧ decRep st.state (s.dp.pos &&& ((1 <<< p.pb) - 1)) full (setSt s st)
        = .ok (.copy len) (setSt (rcSet s ps' rc' rest'.length) st')) := by
  have hf : (full == 0) = false := by simpa using hfull
  obtain ⟨l0, l1, llow, lmid, lhigh⟩ := ctxMap_len p k pos s.dp.pos hp hk P_REP_LEN (Or.inr rfl)
  have hid : ∀ c, 192 ≤ c → c < 240 → ctxMap p k c = c := fun c h1 h2 => ctxMap_id p k hp c (Or.inl ⟨h1, h2⟩)
  unfold repTree at h
  obtain ⟨b0, rc1, p1, rest1, hd0, hb0, ⟨pre0, hpre0⟩, h⟩ := runRc_bit_some h
  rw [hid _ (by simp only [P_IS_REP0]; omega) (by simp only [P_IS_REP0]; omega)] at hd0 h
  have hv0 : View (setSt s st) ps rc rest := hv.congr rfl rfl rfl rfl rfl
  have hv1 := view_rcSet hv0 (ps.setIfInBounds (P_IS_REP0 + st.state) p1) rc1 hpre0
  unfold decRep
  simp only [hf, Bool.false_eq_true, if_false]
  rw [bind_ok (rcBit_run hv0 hd0)]
  have hb0' : b0 = 0 ∨ b0 = 1 := by omega
  rcases hb0' with rfl | rfl
  · -- rep0: short or long
    simp only [show ((0 : Nat) == 1) = false from rfl, Bool.not_false, if_true] at h
    obtain ⟨b1, rc2, p2, rest2, hd1, hb1, ⟨pre1, hpre1⟩, h⟩ := runRc_bit_some h
    rw [ctxMap_isRep0Long p k pos s.dp.pos hp hk st.state hst] at hd1 h
    have hv2 := rcBit_view hv1 hd1
    simp only [show ((0 : Nat) == 0) = true from rfl, if_true]
    rw [bind_bind_ok (rcBit_run hv1 hd1), bind_ok (pure_run _ _)]
    have hb1' : b1 = 0 ∨ b1 = 1 := by omega
    rcases hb1' with rfl | rfl
    · left
      simp only [show ((0 : Nat) == 1) = false from rfl, Bool.not_false, if_true, Prog.mapCtx, Prog.runRc,
        Option.some.injEq, Prod.mk.injEq] at h
      obtain ⟨⟨rfl, rfl⟩, rfl, rfl, rfl⟩ := h
      refine ⟨rfl, ?_⟩
      simp only [show ((0 : Nat) == 0) = true from rfl, if_true]
      rw [bind_ok (modify_run _ _)]
      rfl
    · right
      simp only [show ((1 : Nat) == 1) = true from rfl, Bool.not_true, Bool.false_eq_true, if_false] at h
      obtain ⟨len, ps3, rc3, rest3, hlen, hret⟩ := Prog.runRc_bind_some _ h
      simp only [Prog.mapCtx, Prog.runRc, Option.some.injEq, Prod.mk.injEq] at hret
      obtain ⟨⟨rfl, rfl⟩, rfl, rfl, rfl⟩ := hret
      refine ⟨0, len, rfl, by norm_num, ?_⟩
      simp only [show ((1 : Nat) == 0) = false from rfl, Bool.false_eq_true, if_false]
      rw [bind_ok (modify_run _ _)]
      rw [rcSet_rcSet] at hv2
      have hv3 : View (setState (updateLongRep st.state)
          (rcSet (setSt s st) ((ps.setIfInBounds (P_IS_REP0 + st.state) p1).setIfInBounds
            (P_IS_REP0_LONG + st.state * POS_STATES_MAX + (s.dp.pos &&& ((1 <<< p.pb) - 1))) p2) rc2 rest2.length)) _ rc2 rest2 :=
        hv2.congr rfl rfl rfl rfl rfl
      rw [rcSet_rcSet, bind_ok (lenDecode_run (ctxMap p k) P_REP_LEN _ _ l0 l1 llow lmid lhigh hv3 hlen)]
      rfl
  · -- rep1 / rep2 / rep3
    right
    simp only [show ((1 : Nat) == 1) = true from rfl, Bool.not_true, Bool.false_eq_true, if_false] at h
    obtain ⟨b1, rc2, p2, rest2, hd1, hb1, ⟨pre1, hpre1⟩, h⟩ := runRc_bit_some h
    rw [hid _ (by simp only [P_IS_REP1]; omega) (by simp only [P_IS_REP1]; omega)] at hd1 h
    have hv2 := rcBit_view hv1 hd1
    rw [rcSet_rcSet] at hv2
    simp only [show ((1 : Nat) == 0) = false from rfl, Bool.false_eq_true, if_false]
    have hb1' : b1 = 0 ∨ b1 = 1 := by omega
    rcases hb1' with rfl | rfl
    · simp only [show ((0 : Nat) == 1) = false from rfl, Bool.not_false, if_true] at h
      obtain ⟨len, ps3, rc3, rest3, hlen, hret⟩ := Prog.runRc_bind_some _ h
      simp only [Prog.mapCtx, Prog.runRc, Option.some.injEq, Prod.mk.injEq] at hret
      obtain ⟨⟨rfl, rfl⟩, rfl, rfl, rfl⟩ := hret
      refine ⟨1, len, rfl, by norm_num, ?_⟩
      rw [bind_bind_ok (rcBit_run hv1 hd1)]
      simp only [show ((0 : Nat) == 0) = true from rfl, if_true]
      rw [bind_bind_ok (modify_run _ _), bind_ok (pure_run _ _)]
      simp only [Bool.false_eq_true, if_false]
      rw [bind_ok (modify_run _ _), rcSet_rcSet]
      have hv3 : View (setState (updateLongRep st.state) (swapRep1
          (rcSet (setSt s st) ((ps.setIfInBounds (P_IS_REP0 + st.state) p1).setIfInBounds (P_IS_REP1 + st.state) p2)
            rc2 rest2.length))) _ rc2 rest2 := hv2.congr rfl rfl rfl rfl rfl
      rw [bind_ok (lenDecode_run (ctxMap p k) P_REP_LEN _ _ l0 l1 llow lmid lhigh hv3 hlen)]
      rfl
    · simp only [show ((1 : Nat) == 1) = true from rfl, Bool.not_true, Bool.false_eq_true, if_false] at h
      obtain ⟨b2, rc3, p3, rest3, hd2, hb2, ⟨pre2, hpre2⟩, h⟩ := runRc_bit_some h
      rw [hid _ (by simp only [P_IS_REP2]; omega) (by simp only [P_IS_REP2]; omega)] at hd2 h
      have hv3 := rcBit_view hv2 hd2
      rw [rcSet_rcSet] at hv3
      rw [bind_bind_ok (rcBit_run hv1 hd1)]
      simp only [show ((1 : Nat) == 0) = false from rfl, Bool.false_eq_true, if_false]
      rw [rcSet_rcSet, bind_bind_ok (rcBit_run hv2 hd2)]
      have hb2' : b2 = 0 ∨ b2 = 1 := by omega
      rcases hb2' with rfl | rfl
      · simp only [show ((0 : Nat) == 1) = false from rfl, Bool.not_false, if_true] at h
        obtain ⟨len, ps4, rc4, rest4, hlen, hret⟩ := Prog.runRc_bind_some _ h
        simp only [Prog.mapCtx, Prog.runRc, Option.some.injEq, Prod.mk.injEq] at hret
        obtain ⟨⟨rfl, rfl⟩, rfl, rfl, rfl⟩ := hret
        refine ⟨2, len, rfl, by norm_num, ?_⟩
        simp only [show ((0 : Nat) == 0) = true from rfl, if_true]
        rw [bind_bind_ok (modify_run _ _), bind_ok (pure_run _ _)]
        simp only [Bool.false_eq_true, if_false]
        rw [bind_ok (modify_run _ _), rcSet_rcSet]
        have hv4 : View (setState (updateLongRep st.state) (swapRep2
            (rcSet (setSt s st) (((ps.setIfInBounds (P_IS_REP0 + st.state) p1).setIfInBounds (P_IS_REP1 + st.state) p2).setIfInBounds
              (P_IS_REP2 + st.state) p3) rc3 rest3.length))) _ rc3 rest3 := hv3.congr rfl rfl rfl rfl rfl
        rw [bind_ok (lenDecode_run (ctxMap p k) P_REP_LEN _ _ l0 l1 llow lmid lhigh hv4 hlen)]
        rfl
      · simp only [show ((1 : Nat) == 1) = true from rfl, Bool.not_true, Bool.false_eq_true, if_false] at h
        obtain ⟨len, ps4, rc4, rest4, hlen, hret⟩ := Prog.runRc_bind_some _ h
        simp only [Prog.mapCtx, Prog.runRc, Option.some.injEq, Prod.mk.injEq] at hret
        obtain ⟨⟨rfl, rfl⟩, rfl, rfl, rfl⟩ := hret
        refine ⟨3, len, rfl, by norm_num, ?_⟩
        simp only [show ((1 : Nat) == 0) = false from rfl, Bool.false_eq_true, if_false]
        rw [bind_bind_ok (modify_run _ _), bind_ok (pure_run _ _)]
        simp only [Bool.false_eq_true, if_false]
        rw [bind_ok (modify_run _ _), rcSet_rcSet]
        have hv4 : View (setState (updateLongRep st.state) (swapRep3
            (rcSet (setSt s st) (((ps.setIfInBounds (P_IS_REP0 + st.state) p1).setIfInBounds (P_IS_REP1 + st.state) p2).setIfInBounds
              (P_IS_REP2 + st.state) p3) rc3 rest3.length))) _ rc3 rest3 := hv3.congr rfl rfl rfl rfl rfl
        rw [bind_ok (lenDecode_run (ctxMap p k) P_REP_LEN _ _ l0 l1 llow lmid lhigh hv4 hlen)]
        rfl

/-! ### one symbol -/

/-- `decodeSymbol` follows the (renamed) specification tree. -/
theorem decodeSymbol_run (p : Props) (k pos prev mb : Nat) (st : SymSt) (s : St) (ev : Bool) (hp : PropsOk p)
    (hstlt : st.state < 12) (hst : StOk s st) (hlc : s.lc = p.lc) (hlp : s.lp = p.lp) (hpb : s.pb = p.pb)
    (hk : s.dp.pos % 16 = (pos + k) % 16) (hprev : s.dictGet0.toNat = prev)
    (hmb : isLiteralState st.state = false → (s.dictGet st.rep0).toNat = mb)
    {ps : Probs} {rc : Rc} {rest : List UInt8} {sym : Sym} {st' : SymSt} {ps' : Probs} {rc' : Rc} {rest' : List UInt8}
    (hv : View s ps rc rest)
    (h : ((decodeSym p st pos prev mb).mapCtx (ctxMap p k)).runRc ps rc rest = some ((sym, st'), ps', rc', rest')) :
    (∃ n, sym = .lit (UInt8.ofNat n) ∧ decodeSymbol ev s = .ok (.litWrite n) (setSt (rcSet s ps' rc' rest'.length) st')) ∨
    (∃ d len, sym = .mtch d len ∧ d < U32 ∧
      (d ≠ UINT32_MAX → d < s.dp.full → decodeSymbol ev s = .ok (.copy len) (setSt (rcSet s ps' rc' rest'.length) st')) ∧
      (d = UINT32_MAX → ev = true → ∀ rc'' rest'', normalizeL rc' rest' = some (rc'', rest'') → rc''.code = 0 →
        decodeSymbol ev s = .error .streamEnd (setSt (rcSet s ps' rc'' rest''.length) st'))) ∨
    (sym = .shortrep ∧ (s.dp.full ≠ 0 → decodeSymbol ev s = .ok .shortRep (setSt (rcSet s ps' rc' rest'.length) st'))) ∨
    (∃ idx len, sym = .rep idx len ∧ idx < 4 ∧
      (s.dp.full ≠ 0 → decodeSymbol ev s = .ok (.copy len) (setSt (rcSet s ps' rc' rest'.length) st'))) := by
  have hmask : s.posMask = (1 <<< p.pb) - 1 := by unfold St.posMask; rw [hpb]
  rw [decodeSym_eq] at h
  obtain ⟨b0, rc1, p1, rest1, hd0, hb0, ⟨pre0, hpre0⟩, h⟩ := runRc_bit_some h
  rw [ctxMap_isMatch p k pos s.dp.pos hp hk st.state hstlt] at hd0 h
  have hv1 := rcBit_view hv hd0
  have hrun0 := rcBit_run hv hd0
  -- the state after the first bit, in `setSt` form
  have hst1 : StOk (rcSet s (ps.setIfInBounds (P_IS_MATCH + st.state * POS_STATES_MAX + (s.dp.pos &&& ((1 <<< p.pb) - 1))) p1)
      rc1 rest1.length) st := ⟨hst.state, hst.rep0, hst.rep1, hst.rep2, hst.rep3⟩
  rw [decodeSymbol_eq, hst.state, hmask, bind_ok hrun0]
  have hb0' : b0 = 0 ∨ b0 = 1 := by omega
  rcases hb0' with rfl | rfl
  · -- literal
    left
    simp only [show ((0 : Nat) == 1) = false from rfl, Bool.not_false, if_true] at h
    simp only [show ((0 : Nat) == 0) = true from rfl, if_true]
    obtain ⟨n, hrun, hsym⟩ := decLit_run p k pos prev mb st (rcSet s (ps.setIfInBounds (P_IS_MATCH + st.state * POS_STATES_MAX + (s.dp.pos &&& ((1 <<< p.pb) - 1))) p1) rc1 rest1.length) hp hlc hlp hk hprev hmb hv1 h
    rw [setSt_self hst1, rcSet_rcSet] at hrun
    exact ⟨n, hsym, hrun⟩
  · right
    simp only [show ((1 : Nat) == 1) = true from rfl, Bool.not_true, Bool.false_eq_true, if_false] at h
    simp only [show ((1 : Nat) == 0) = false from rfl, Bool.false_eq_true, if_false]
    obtain ⟨b1, rc2, p2, rest2, hd1, hb1, ⟨pre1, hpre1⟩, h⟩ := runRc_bit_some h
    rw [ctxMap_id p k hp _ (Or.inl ⟨by simp only [P_IS_REP]; omega, by simp only [P_IS_REP]; omega⟩)] at hd1 h
    have hv2 := rcBit_view hv1 hd1
    rw [rcSet_rcSet] at hv2
    rw [bind_ok (rcBit_run hv1 hd1), rcSet_rcSet]
    have hst2 : StOk (rcSet s ((ps.setIfInBounds (P_IS_MATCH + st.state * POS_STATES_MAX + (s.dp.pos &&& ((1 <<< p.pb) - 1))) p1).setIfInBounds
        (P_IS_REP + st.state) p2) rc2 rest2.length) st := ⟨hst.state, hst.rep0, hst.rep1, hst.rep2, hst.rep3⟩
    have hb1' : b1 = 0 ∨ b1 = 1 := by omega
    rcases hb1' with rfl | rfl
    · left
      simp only [show ((0 : Nat) == 1) = false from rfl, Bool.not_false, if_true] at h
      simp only [show ((0 : Nat) == 0) = true from rfl, if_true]
      obtain ⟨d, len, hsym, hd32, hA, hB⟩ := decMatch_run p k pos st (rcSet s ((ps.setIfInBounds (P_IS_MATCH + st.state * POS_STATES_MAX + (s.dp.pos &&& ((1 <<< p.pb) - 1))) p1).setIfInBounds (P_IS_REP + st.state) p2) rc2 rest2.length) ev s.dp.full hp hk hv2 h
      rw [setSt_self hst2] at hA hB
      exact ⟨d, len, hsym, hd32, hA, hB⟩
    · right
      simp only [show ((1 : Nat) == 1) = true from rfl, Bool.not_true, Bool.false_eq_true, if_false] at h
      simp only [show ((1 : Nat) == 0) = false from rfl, Bool.false_eq_true, if_false]
      by_cases hfull : s.dp.full = 0
      · -- only the shape of the symbol matters
        rcases decRep_run p k pos st (rcSet s ((ps.setIfInBounds (P_IS_MATCH + st.state * POS_STATES_MAX + (s.dp.pos &&& ((1 <<< p.pb) - 1))) p1).setIfInBounds (P_IS_REP + st.state) p2) rc2 rest2.length) 1 hp hstlt hk (by norm_num) hv2 h with ⟨hs, _⟩ | ⟨idx, len, hs, hi, _⟩
        · exact Or.inl ⟨hs, fun hne => absurd hfull hne⟩
        · exact Or.inr ⟨idx, len, hs, hi, fun hne => absurd hfull hne⟩
      · rcases decRep_run p k pos st (rcSet s ((ps.setIfInBounds (P_IS_MATCH + st.state * POS_STATES_MAX + (s.dp.pos &&& ((1 <<< p.pb) - 1))) p1).setIfInBounds (P_IS_REP + st.state) p2) rc2 rest2.length) s.dp.full hp hstlt hk hfull hv2 h with ⟨hs, hr⟩ | ⟨idx, len, hs, hi, hr⟩
        · rw [setSt_self hst2] at hr
          exact Or.inl ⟨hs, fun _ => hr⟩
        · rw [setSt_self hst2] at hr
          exact Or.inr ⟨idx, len, hs, hi, fun _ => hr⟩

end XzVerif.LzmaExec
