/-  REGENERATED on every check run by tools/c20gen.py from src/scripts/xzgrep.in and src/scripts/xzdiff.in.
    Do not edit. Each definition is the raw script text (bytes) of the construct named in its comment. -/
import XzVerif.Model.Shell
namespace XzVerif.Gen.C20
open XzVerif.Shell

/-- xzgrep.in:50  `escape=` this shell word
```
'
  s/'\''/'\''\\'\'''\''/g
  $s/X$/'\''/
'
``` -/
def grepEscapeSrc : Bytes := [39, 10, 32, 32, 115, 47, 39, 92, 39, 39, 47, 39, 92, 39, 39, 92, 92, 39, 92, 39, 39, 39, 92, 39, 39, 47, 103, 10, 32, 32, 36, 115, 47, 88, 36, 47, 39, 92, 39, 39, 47, 10, 39]

/-- xzdiff.in:47  `escape=` this shell word
```
'
  s/'\''/'\''\\'\'''\''/g
  $s/X$/'\''/
'
``` -/
def diffEscapeSrc : Bytes := [39, 10, 32, 32, 115, 47, 39, 92, 39, 39, 47, 39, 92, 39, 39, 92, 92, 39, 92, 39, 39, 39, 92, 39, 39, 47, 103, 10, 32, 32, 36, 115, 47, 88, 36, 47, 39, 92, 39, 39, 47, 10, 39]

/-- xzgrep.in: the `case … in (GUARD) lhs=PRE$(printf FMT "$var" | LC_ALL=C sed "$escape");; (*) lhs=PLAIN;; esac` sites:
    line 99: optarg: guard `*\'*` pre `" '"` fmt `'%sX\n'` plain `" '$1'"`
    line 111: operands: guard `*\'*` pre `"$operands '"` fmt `'%sX\n'` plain `"$operands '$option'"`
    line 149: option: guard `*\'*` pre `\'` fmt `'%sX\n'` plain `"'$option'"`
    line 162: grep: guard `*\'*` pre `"$grep -e '"` fmt `'%sX\n'` plain `"$grep -e '$1'"`
-/
def siteOptarg : QuoteSite := ⟨99, [42, 92, 39, 42], [34, 32, 39, 34], [39, 37, 115, 88, 92, 110, 39], [34, 32, 39, 36, 49, 39, 34], [49]⟩
def siteOperands : QuoteSite := ⟨111, [42, 92, 39, 42], [34, 36, 111, 112, 101, 114, 97, 110, 100, 115, 32, 39, 34], [39, 37, 115, 88, 92, 110, 39], [34, 36, 111, 112, 101, 114, 97, 110, 100, 115, 32, 39, 36, 111, 112, 116, 105, 111, 110, 39, 34], [111, 112, 116, 105, 111, 110]⟩
def siteOption : QuoteSite := ⟨149, [42, 92, 39, 42], [92, 39], [39, 37, 115, 88, 92, 110, 39], [34, 39, 36, 111, 112, 116, 105, 111, 110, 39, 34], [111, 112, 116, 105, 111, 110]⟩
def sitePattern : QuoteSite := ⟨162, [42, 92, 39, 42], [34, 36, 103, 114, 101, 112, 32, 45, 101, 32, 39, 34], [39, 37, 115, 88, 92, 110, 39], [34, 36, 103, 114, 101, 112, 32, 45, 101, 32, 39, 36, 49, 39, 34], [49]⟩
def grepSites : List QuoteSite := [siteOptarg, siteOperands, siteOption, sitePattern]

/-- xzdiff.in:57  `-*\'*) cmp="$cmp '"`printf '%sX\n' "$1" | sed "$escape"`;;  -?*) cmp="$cmp '$1'";;` -/
def diffSite : QuoteSite := ⟨57, [45, 42, 92, 39, 42], [34, 36, 99, 109, 112, 32, 39, 34], [39, 37, 115, 88, 92, 110, 39], [34, 36, 99, 109, 112, 32, 39, 36, 49, 39, 34], [49]⟩
/-- xzdiff.in:58  guard of the plain-quoting arm
```
-?*
``` -/
def diffPlainGuard : Bytes := [45, 63, 42]

/-- xzdiff.in  `cmp=` this word (after the option loop)
```
"$cmp --"
``` -/
def cmpDashDashSrc : Bytes := [34, 36, 99, 109, 112, 32, 45, 45, 34]

/-- xzdiff.in: the distinct argument lists of `eval "$cmp" …`:
    `eval "$cmp" - '"$FILE"'`
    `eval "$cmp" - -`
    `eval "$cmp" /dev/fd/5 -`
    `eval "$cmp" - '"$tmp/$F"'`
    `eval "$cmp" - '"$2"'`
    `eval "$cmp" '"$1"' -`
    `eval "$cmp" '"$1"' '"$2"'`
-/
def cmpEvalSrcs : List Bytes := [
  [34, 36, 99, 109, 112, 34, 32, 45, 32, 39, 34, 36, 70, 73, 76, 69, 34, 39],
  [34, 36, 99, 109, 112, 34, 32, 45, 32, 45],
  [34, 36, 99, 109, 112, 34, 32, 47, 100, 101, 118, 47, 102, 100, 47, 53, 32, 45],
  [34, 36, 99, 109, 112, 34, 32, 45, 32, 39, 34, 36, 116, 109, 112, 47, 36, 70, 34, 39],
  [34, 36, 99, 109, 112, 34, 32, 45, 32, 39, 34, 36, 50, 34, 39],
  [34, 36, 99, 109, 112, 34, 32, 39, 34, 36, 49, 34, 39, 32, 45],
  [34, 36, 99, 109, 112, 34, 32, 39, 34, 36, 49, 34, 39, 32, 39, 34, 36, 50, 34, 39]]

/-- xzgrep.in:86  `arg2=`PREFIX`$(LC_ALL=C expr "X${option}X" : 'X-.[0-9]*\(.*\)' | LC_ALL=C sed "$escape")`
```
-\'
``` -/
def splitPrefixSrc : Bytes := [45, 92, 39]

/-- the bytes appended after ${option} in that expr subject (the guard that protects trailing newlines)
```
X
``` -/
def splitGuardSuffix : Bytes := [88]

/-- xzgrep.in:88  eval of the re-split option
```
"set -- $arg2 "'${1+"$@"}'
``` -/
def evalSetArg2Src : Bytes := [34, 115, 101, 116, 32, 45, 45, 32, 36, 97, 114, 103, 50, 32, 34, 39, 36, 123, 49, 43, 34, 36, 64, 34, 125, 39]

/-- xzgrep.in  eval that restores the operands
```
"set -- $operands "'${1+"$@"}'
``` -/
def evalSetOperandsSrc : Bytes := [34, 115, 101, 116, 32, 45, 45, 32, 36, 111, 112, 101, 114, 97, 110, 100, 115, 32, 34, 39, 36, 123, 49, 43, 34, 36, 64, 34, 125, 39]

/-- xzgrep.in  `grep=` this word (appends a re-quoted option)
```
"$grep $option$optarg"
``` -/
def grepAppendSrc : Bytes := [34, 36, 103, 114, 101, 112, 32, 36, 111, 112, 116, 105, 111, 110, 36, 111, 112, 116, 97, 114, 103, 34]

/-- xzgrep.in: the distinct `eval "$grep…"` commands:
    `eval "$grep -q"`
    `eval "$grep"`
    `eval "$grep -H"`
    `eval "$grep -H --label \"\$i\""`
-/
def grepEvalSrcs : List Bytes := [
  [34, 36, 103, 114, 101, 112, 32, 45, 113, 34],
  [34, 36, 103, 114, 101, 112, 34],
  [34, 36, 103, 114, 101, 112, 32, 45, 72, 34],
  [34, 36, 103, 114, 101, 112, 32, 45, 72, 32, 45, 45, 108, 97, 98, 101, 108, 32, 92, 34, 92, 36, 105, 92, 34, 34]]

/-- xzgrep.in:223  `i=` this word
```
"$i:"
``` -/
def labelSuffixSrc : Bytes := [34, 36, 105, 58, 34]

/-- xzgrep.in  `case $i in (`PATTERNS`)`: names that need escaping
```
*'
'* | *'&'* | *'\'* | *'|'*
``` -/
def labelGuardPats : Bytes := [42, 39, 10, 39, 42, 32, 124, 32, 42, 39, 38, 39, 42, 32, 124, 32, 42, 39, 92, 39, 42, 32, 124, 32, 42, 39, 124, 39, 42]

/-- xzgrep.in  printf format feeding the label sed
```
'%s\n'
``` -/
def labelPrintfFmt : Bytes := [39, 37, 115, 92, 110, 39]

/-- xzgrep.in  the label-escaping sed program (shell word)
```
's/[&\|]/\\&/g; $!s/$/\\/'
``` -/
def labelSedSrc : Bytes := [39, 115, 47, 91, 38, 92, 124, 93, 47, 92, 92, 38, 47, 103, 59, 32, 36, 33, 115, 47, 36, 47, 92, 92, 47, 39]

/-- xzgrep.in  value used when sed fails
```
'(unknown filename):'
``` -/
def labelFallbackSrc : Bytes := [39, 40, 117, 110, 107, 110, 111, 119, 110, 32, 102, 105, 108, 101, 110, 97, 109, 101, 41, 58, 39]

/-- xzgrep.in  `sed_script=` this word
```
"s|^|$i|"
``` -/
def labelScriptSrc : Bytes := [34, 115, 124, 94, 124, 36, 105, 124, 34]

/-- xzgrep.in:180  `case $i in` PATTERNS`) uncompress=`CMD`;;` -/
def grepDispatch : List (Bytes × Bytes) := [
  ([42, 91, 45, 46, 93, 91, 122, 90, 93, 32, 124, 32, 42, 95, 122, 32, 124, 32, 42, 91, 45, 46, 93, 103, 122, 32, 124, 32, 42, 46, 116, 91, 97, 103, 93, 122], [34, 103, 122, 105, 112, 32, 45, 99, 100, 102, 34]),
  ([42, 91, 45, 46, 93, 98, 122, 50, 32, 124, 32, 42, 91, 45, 46, 93, 116, 98, 122, 32, 124, 32, 42, 46, 116, 98, 122, 50], [34, 98, 122, 105, 112, 50, 32, 45, 99, 100, 102, 34]),
  ([42, 91, 45, 46, 93, 108, 122, 111, 32, 124, 32, 42, 91, 45, 46, 93, 116, 122, 111], [34, 108, 122, 111, 112, 32, 45, 99, 100, 102, 34]),
  ([42, 91, 45, 46, 93, 122, 115, 116, 32, 124, 32, 42, 91, 45, 46, 93, 116, 122, 115, 116], [34, 122, 115, 116, 100, 32, 45, 99, 100, 102, 113, 34]),
  ([42, 91, 45, 46, 93, 108, 122, 52], [34, 108, 122, 52, 32, 45, 99, 100, 102, 34]),
  ([42], [34, 36, 120, 122, 32, 45, 99, 100, 102, 113, 81, 34])]
/- rows: *[-.][zZ] | *_z | *[-.]gz | *.t[ag]z ) "gzip -cdf" ;; *[-.]bz2 | *[-.]tbz | *.tbz2 ) "bzip2 -cdf" ;; *[-.]lzo | *[-.]tzo ) "lzop -cdf" ;; *[-.]zst | *[-.]tzst ) "zstd -cdfq" ;; *[-.]lz4 ) "lz4 -cdf" ;; * ) "$xz -cdfqQ" -/

/-- xzgrep.in  `xz=` this word
```
'@xz@ --format=auto'
``` -/
def grepXzVarSrc : Bytes := [39, 64, 120, 122, 64, 32, 45, 45, 102, 111, 114, 109, 97, 116, 61, 97, 117, 116, 111, 39]

/-- xzdiff.in  `xz=` this word
```
'@xz@ --format=auto'
``` -/
def diffXzVarSrc : Bytes := [39, 64, 120, 122, 64, 32, 45, 45, 102, 111, 114, 109, 97, 116, 61, 97, 117, 116, 111, 39]

/-- xzdiff.in  `xz1=`/`xz2=` defaults -/
def diffXzDefaultSrcs : List Bytes := [[34, 36, 120, 122, 32, 45, 113, 81, 34], [34, 36, 120, 122, 32, 45, 113, 81, 34]]

/-- xzdiff.in:111  two operands, `case $1 in` PATTERNS`) xz1=`CMD`;;`
    rows: *[-.]bz2 | *.tbz | *.tbz2 ) bzip2 ;; *[-.][zZ] | *_z | *[-.]gz | *.t[ag]z ) gzip ;; *[-.]lzo | *.tzo ) lzop ;; *[-.]zst | *.tzst ) 'zstd -q' ;; *[-.]lz4 ) lz4 -/
def diffDispatch1 : List (Bytes × Bytes) := [
  ([42, 91, 45, 46, 93, 98, 122, 50, 32, 124, 32, 42, 46, 116, 98, 122, 32, 124, 32, 42, 46, 116, 98, 122, 50], [98, 122, 105, 112, 50]),
  ([42, 91, 45, 46, 93, 91, 122, 90, 93, 32, 124, 32, 42, 95, 122, 32, 124, 32, 42, 91, 45, 46, 93, 103, 122, 32, 124, 32, 42, 46, 116, 91, 97, 103, 93, 122], [103, 122, 105, 112]),
  ([42, 91, 45, 46, 93, 108, 122, 111, 32, 124, 32, 42, 46, 116, 122, 111], [108, 122, 111, 112]),
  ([42, 91, 45, 46, 93, 122, 115, 116, 32, 124, 32, 42, 46, 116, 122, 115, 116], [39, 122, 115, 116, 100, 32, 45, 113, 39]),
  ([42, 91, 45, 46, 93, 108, 122, 52], [108, 122, 52])]

/-- xzdiff.in:111  two operands, `case $2 in` PATTERNS`) xz2=`CMD`;;`
    rows: *[-.]bz2 | *.tbz | *.tbz2 ) bzip2 ;; *[-.][zZ] | *_z | *[-.]gz | *.t[ag]z ) gzip ;; *[-.]lzo | *.tzo ) lzop ;; *[-.]zst | *.tzst ) 'zstd -q' ;; *[-.]lz4 ) lz4 -/
def diffDispatch2 : List (Bytes × Bytes) := [
  ([42, 91, 45, 46, 93, 98, 122, 50, 32, 124, 32, 42, 46, 116, 98, 122, 32, 124, 32, 42, 46, 116, 98, 122, 50], [98, 122, 105, 112, 50]),
  ([42, 91, 45, 46, 93, 91, 122, 90, 93, 32, 124, 32, 42, 95, 122, 32, 124, 32, 42, 91, 45, 46, 93, 103, 122, 32, 124, 32, 42, 46, 116, 91, 97, 103, 93, 122], [103, 122, 105, 112]),
  ([42, 91, 45, 46, 93, 108, 122, 111, 32, 124, 32, 42, 46, 116, 122, 111], [108, 122, 111, 112]),
  ([42, 91, 45, 46, 93, 122, 115, 116, 32, 124, 32, 42, 46, 116, 122, 115, 116], [39, 122, 115, 116, 100, 32, 45, 113, 39]),
  ([42, 91, 45, 46, 93, 108, 122, 52], [108, 122, 52])]

/-- xzdiff.in  the three copies of the pattern list that decides whether an operand is decompressed at all:
    *[-.][zZ] | *_z | *[-.][gx]z | *[-.]bz2 | *[-.]lzma | *[-.]lz | *.t[abglx]z | *.tbz2 | *[-.]lzo | *.tzo | *[-.]zst | *.tzst | *[-.]lz4 | - -/
def diffCompressedPats : List Bytes := [
  [42, 91, 45, 46, 93, 91, 122, 90, 93, 32, 124, 32, 42, 95, 122, 32, 124, 32, 42, 91, 45, 46, 93, 91, 103, 120, 93, 122, 32, 124, 32, 42, 91, 45, 46, 93, 98, 122, 50, 32, 124, 32, 42, 91, 45, 46, 93, 108, 122, 109, 97, 32, 124, 32, 42, 91, 45, 46, 93, 108, 122, 32, 124, 32, 42, 46, 116, 91, 97, 98, 103, 108, 120, 93, 122, 32, 124, 32, 42, 46, 116, 98, 122, 50, 32, 124, 32, 42, 91, 45, 46, 93, 108, 122, 111, 32, 124, 32, 42, 46, 116, 122, 111, 32, 124, 32, 42, 91, 45, 46, 93, 122, 115, 116, 32, 124, 32, 42, 46, 116, 122, 115, 116, 32, 124, 32, 42, 91, 45, 46, 93, 108, 122, 52, 32, 124, 32, 45],
  [42, 91, 45, 46, 93, 91, 122, 90, 93, 32, 124, 32, 42, 95, 122, 32, 124, 32, 42, 91, 45, 46, 93, 91, 103, 120, 93, 122, 32, 124, 32, 42, 91, 45, 46, 93, 98, 122, 50, 32, 124, 32, 42, 91, 45, 46, 93, 108, 122, 109, 97, 32, 124, 32, 42, 91, 45, 46, 93, 108, 122, 32, 124, 32, 42, 46, 116, 91, 97, 98, 103, 108, 120, 93, 122, 32, 124, 32, 42, 46, 116, 98, 122, 50, 32, 124, 32, 42, 91, 45, 46, 93, 108, 122, 111, 32, 124, 32, 42, 46, 116, 122, 111, 32, 124, 32, 42, 91, 45, 46, 93, 122, 115, 116, 32, 124, 32, 42, 46, 116, 122, 115, 116, 32, 124, 32, 42, 91, 45, 46, 93, 108, 122, 52, 32, 124, 32, 45],
  [42, 91, 45, 46, 93, 91, 122, 90, 93, 32, 124, 32, 42, 95, 122, 32, 124, 32, 42, 91, 45, 46, 93, 91, 103, 120, 93, 122, 32, 124, 32, 42, 91, 45, 46, 93, 98, 122, 50, 32, 124, 32, 42, 91, 45, 46, 93, 108, 122, 109, 97, 32, 124, 32, 42, 91, 45, 46, 93, 108, 122, 32, 124, 32, 42, 46, 116, 91, 97, 98, 103, 108, 120, 93, 122, 32, 124, 32, 42, 46, 116, 98, 122, 50, 32, 124, 32, 42, 91, 45, 46, 93, 108, 122, 111, 32, 124, 32, 42, 46, 116, 122, 111, 32, 124, 32, 42, 91, 45, 46, 93, 122, 115, 116, 32, 124, 32, 42, 46, 116, 122, 115, 116, 32, 124, 32, 42, 91, 45, 46, 93, 108, 122, 52, 32, 124, 32, 45]]

/-- xzdiff.in  one operand: `case $1 in` PATTERNS`)` action; `none` = keep xz, `some "!"` = "Unknown compressed file name suffix", exit 2
    rows: *[-.]xz | *[-.]lzma | *[-.]lz | *.t[lx]z ) None ;; *[-.]bz2 | *.tbz | *.tbz2 ) bzip2 ;; *[-.][zZ] | *_z | *[-.]gz | *.t[ag]z ) gzip ;; *[-.]lzo | *.tzo ) lzop ;; *[-.]zst | *.tzst ) 'zstd -q' ;; *[-.]lz4 ) lz4 ;; * ) ! -/
def diffDispatchOne : List (Bytes × Option Bytes) := [
  ([42, 91, 45, 46, 93, 120, 122, 32, 124, 32, 42, 91, 45, 46, 93, 108, 122, 109, 97, 32, 124, 32, 42, 91, 45, 46, 93, 108, 122, 32, 124, 32, 42, 46, 116, 91, 108, 120, 93, 122], none),
  ([42, 91, 45, 46, 93, 98, 122, 50, 32, 124, 32, 42, 46, 116, 98, 122, 32, 124, 32, 42, 46, 116, 98, 122, 50], some [98, 122, 105, 112, 50]),
  ([42, 91, 45, 46, 93, 91, 122, 90, 93, 32, 124, 32, 42, 95, 122, 32, 124, 32, 42, 91, 45, 46, 93, 103, 122, 32, 124, 32, 42, 46, 116, 91, 97, 103, 93, 122], some [103, 122, 105, 112]),
  ([42, 91, 45, 46, 93, 108, 122, 111, 32, 124, 32, 42, 46, 116, 122, 111], some [108, 122, 111, 112]),
  ([42, 91, 45, 46, 93, 122, 115, 116, 32, 124, 32, 42, 46, 116, 122, 115, 116], some [39, 122, 115, 116, 100, 32, 45, 113, 39]),
  ([42, 91, 45, 46, 93, 108, 122, 52], some [108, 122, 52]),
  ([42], some [33])]

/-- xzgrep.in:254  after each file:
```

  # If grep or sed or other non-decompression command failed with a signal,
  # exit immediately and ignore the possible remaining files.
  #
  # NOTE: Instead of 128 + signal_number, some shells use
  # 256 + signal_number (ksh) or 384 + signal_number (yash).
  # This is fine for us since their "exit" and "kill -l" commands take
  # this into account. (At least the versions I tried do but there is
  # a report of an old ksh variant whose "exit" truncates the exit status
  # to 8 bits without any special handling for values indicating a signal.)
  test "$r" -ge 128 && exit "$r"

  if test -z "$xz_status"; then
    # Something unusual happened, for example, we got a signal and
    # the exit status of the decompressor was never echoed and thus
    # $xz_status is empty. Exit immediately and ignore the possible
    # remaining files.
    exit 2
  elif test "$xz_status" -ge 128; then
    # The decompressor died due to a signal. SIGPIPE is ignored since it can
    # occur if grep exits before the whole file has been decompressed (grep -q
    # can do that). If the decompressor died with some other signal, exit
    # immediately and ignore the possible remaining files.
    test "$(kill -l "$xz_status" 2> /dev/null)" != "PIPE" && exit "$xz_status"
  elif test "$xz_status" -gt 0; then
    # Decompression failed but we will continue with the remaining
    # files anyway. Set exit status to at least 2 to indicate an error.
    test "$r" -lt 2 && r=2
  fi

  # Since res=1 is the initial value, we only need to care about
  # matches (r == 0) and errors (r >= 2) here; r == 1 can be ignored.
  if test "$r" -ge 2; then
    # An error occurred in decompressor, grep, or some other command. Update
    # res unless a larger error code has been seen with an earlier file.
    test "$res" -lt "$r" && res=$r
  elif test "$r" -eq 0; then
    # grep found a match and no errors occurred. Update res if no errors have
    # occurred with earlier files.
    test "$res" -eq 1 && res=0
  fi
``` -/
def grepFileStatus : List Stmt := [
  .simple ⟨[.cmp .ge (.v .r) (.n 128)], .exit (.v .r)⟩,
  .ifChain [
      ([.empty .xz], [⟨[], .exit (.n 2)⟩]),
      ([.cmp .ge (.v .xz) (.n 128)], [⟨[.isPipe .xz false], .exit (.v .xz)⟩]),
      ([.cmp .gt (.v .xz) (.n 0)], [⟨[.cmp .lt (.v .r) (.n 2)], .set .r (.n 2)⟩])],
  .ifChain [
      ([.cmp .ge (.v .r) (.n 2)], [⟨[.cmp .lt (.v .res) (.v .r)], .set .res (.v .r)⟩]),
      ([.cmp .eq (.v .r) (.n 0)], [⟨[.cmp .eq (.v .res) (.n 1)], .set .res (.n 0)⟩])]]

/-- xzgrep.in:246  sed fallback, `r=$( … ) || {` this block `}` ; `pipe` is `$?` of the pipeline (sed's status):
```
        sed_status=$?
        test "$sed_status" -lt 2 && sed_status=2
        test "$r" -lt "$sed_status" && r=$sed_status
exit $r
``` -/
def grepSedStatusStmts : List Stmt := [
  .ifChain [
      ([.cmp .ne (.v .pipe) (.n 0)], [⟨[], .set .sed (.v .pipe)⟩, ⟨[.cmp .lt (.v .sed) (.n 2)], .set .sed (.n 2)⟩, ⟨[.cmp .lt (.v .r) (.v .sed)], .set .r (.v .sed)⟩])],
  .simple ⟨[], .exit (.v .r)⟩]

/-- xzdiff.in:208
```
cmp_status=$?
for num in $xz_status ; do
  # 0 from decompressor means successful decompression. SIGPIPE from
  # decompressor is possible when diff or cmp exits before the whole file
  # has been decompressed. In that case we want to retain the exit status
  # from diff or cmp. Note that using "trap '' PIPE" is not possible
  # because gzip changes its behavior (including exit status) if SIGPIPE
  # is ignored.
  test "$num" -eq 0 && continue
  test "$num" -ge 128 \
      && test "$(kill -l "$num" 2> /dev/null)" = "PIPE" \
      && continue
  exit 2
done
exit $cmp_status
``` -/
def diffStatusBody : List Stmt := [
  .simple ⟨[.cmp .eq (.v .num) (.n 0)], .continue_⟩,
  .simple ⟨[.cmp .ge (.v .num) (.n 128), .isPipe .num true], .continue_⟩,
  .simple ⟨[], .exit (.n 2)⟩]
def diffStatusFinal : List Stmt := [
  .simple ⟨[], .exit (.v .cmp)⟩]

end XzVerif.Gen.C20
