/-
  Bridges that only C09 (memory usage) consumes, kept apart from Props/Kernels.lean so that a change of the LZ encoder's
  buffer arithmetic is reported for C09 and not for C02 / C13: `lz_encoder_prepare` of src/liblzma/lz/lz_encoder.c as
  regenerated into Gen/Kernels.lean against the hand model `Memusage.lzEncoderPrepare` / `Memusage.hashMask`.
  Every goal handed to `omega` is first normalised down to at most a couple of `%` terms: a FALSE instance (say, a changed
  reserve constant) then fails within seconds instead of sending `omega` into an exponential search.
-/
import XzVerif.Props.Kernels

namespace XzVerif.Kernels
open XzVerif XzVerif.Gen

/-- the hash-size computation of `lz_encoder_prepare` (the `hs |= hs >> k` smear and the 2^24 clamp) is the model's `hashMask` -/
theorem lz_encoder_hash_mask_eq (hb ds : Nat) (h1 : 1 ≤ ds) (h2 : ds < 4294967296) :
    Kernels.lz_encoder_prepare_if4 hb ds = Memusage.hashMask ds hb := by
  unfold Kernels.lz_encoder_prepare_if4 Kernels.lz_encoder_prepare_if3 Kernels.lz_encoder_prepare_if2 Memusage.hashMask Memusage.U32
  have e1 : (ds + 18446744073709551616 - 1) % 18446744073709551616 % 4294967296 = ds - 1 := by omega
  have e2 : (ds - 1) % 4294967296 = ds - 1 := by omega
  simp only [e1, e2, Nat.shiftRight_eq_div_pow, Nat.reducePow]

/-- `lz_encoder_prepare(mf, allocator, lz_options)` against the C09 model `Memusage.lzEncoderPrepare`: it returns true
    exactly where the model answers `none`, and otherwise leaves the model's `size`, `hash_count`, `sons_count` in `*mf`
    (result components 9, 3, 10), whatever `*mf` held before.  `dict_size` is a `uint32_t`; the three `size_t` members
    must not make the 64-bit sum `before_size + match_len_max + after_size` wrap (the callers pass 4096 / 65536−dict, 273, 4097). -/
theorem lz_encoder_prepare_eq (o : Memusage.LzOptions) (m0 m1 m2 m3 m4 m5 m6 m7 m8 m9 : Nat)
    (hd : o.dictSize < U32) (hsum : o.beforeSize + o.matchLenMax + o.afterSize + 1048576 < U64) :
    (Kernels.lz_encoder_prepare m0 m1 m2 m3 m4 m5 m6 m7 m8 m9 o.afterSize o.beforeSize o.depth o.dictSize o.matchFinder o.matchLenMax o.niceLen).1
        = (Memusage.lzEncoderPrepare o).isNone
    ∧ ∀ s, Memusage.lzEncoderPrepare o = some s →
        (Kernels.lz_encoder_prepare m0 m1 m2 m3 m4 m5 m6 m7 m8 m9 o.afterSize o.beforeSize o.depth o.dictSize o.matchFinder o.matchLenMax o.niceLen).2.2.2.1 = s.hashCount
        ∧ (Kernels.lz_encoder_prepare m0 m1 m2 m3 m4 m5 m6 m7 m8 m9 o.afterSize o.beforeSize o.depth o.dictSize o.matchFinder o.matchLenMax o.niceLen).2.2.2.2.2.2.2.2.2.1 = s.size
        ∧ (Kernels.lz_encoder_prepare m0 m1 m2 m3 m4 m5 m6 m7 m8 m9 o.afterSize o.beforeSize o.depth o.dictSize o.matchFinder o.matchLenMax o.niceLen).2.2.2.2.2.2.2.2.2.2 = s.sonsCount := by
  obtain ⟨bs, ds, as, mlm, nl, mf, dp⟩ := o
  simp only at hd hsum ⊢
  unfold U32 at hd; unfold U64 at hsum
  unfold Memusage.lzEncoderPrepare Memusage.DICT_SIZE_MIN Memusage.ENC_DICT_SIZE_MAX
  simp only
  by_cases hv : (ds ≥ 4096 ∧ ds ≤ 1610612736) ∧ ¬ nl > mlm
  · obtain ⟨⟨hd1, hd2⟩, hn⟩ := hv
    have hg : ¬ (¬ (ds ≥ 4096 ∧ ds ≤ 1610612736) ∨ nl > mlm) := by omega
    have hcond : ¬ ((!decide (ds ≥ 4096 ∧ ds ≤ 1610612736)) = true ∨ nl > mlm) := by
      simp only [Bool.not_eq_true', decide_eq_false_iff_not]; exact hg
    rw [if_neg hcond]
    unfold Kernels.lz_encoder_prepare
    rw [if_neg hg]
    by_cases hmf : mf = 3 ∨ mf = 4 ∨ mf = 18 ∨ mf = 19 ∨ mf = 20
    · have hsup : Memusage.mfSupported mf = true := by
        unfold Memusage.mfSupported Memusage.MF_HC3 Memusage.MF_HC4 Memusage.MF_BT2 Memusage.MF_BT3 Memusage.MF_BT4
        simp only [decide_eq_true_eq]; omega
      simp only [hsup, Bool.not_true, Bool.false_eq_true, if_false]
      rw [if_neg (by omega)]
      refine ⟨rfl, ?_⟩
      intro s hs
      injection hs with hs
      subst hs
      simp only [lz_encoder_hash_mask_eq _ ds (by omega) hd]
      unfold Kernels.lz_encoder_prepare_if1 Kernels.lz_encoder_prepare_if5 Kernels.lz_encoder_prepare_if6 Kernels.lz_encoder_prepare_if7
        Kernels.mf_get_hash_bytes Memusage.mfHashBytes Memusage.U32 Memusage.HASH_2_SIZE Memusage.HASH_3_SIZE
      generalize Memusage.hashMask ds (mf % 16) = H
      -- three small goals; each is normalised until at most two `%` are left, so that a FALSE instance (e.g. a changed
      -- reserve constant) makes `omega` fail at once instead of searching
      have m64 : ∀ a : Nat, a < 18446744073709551616 → a % 18446744073709551616 = a := fun a h => Nat.mod_eq_of_lt h
      have m6432 : ∀ a : Nat, a % 18446744073709551616 % 4294967296 = a % 4294967296 := fun a => by omega
      refine ⟨?_, ?_, ?_⟩
      · rcases hmf with rfl | rfl | rfl | rfl | rfl <;>
          simp only [Nat.reduceMod, Nat.reduceDiv, Nat.reduceMul, Nat.reduceGT, Nat.reduceEqDiff, ne_eq, not_false_eq_true, not_true_eq_false,
            decide_true, decide_false, if_true, if_false, Bool.false_eq_true] <;>
          first | exact True.intro | omega
      · simp only [m6432]
        generalize (if ds / 2 % 4294967296 > 1073741824 then ds / 2 % 4294967296 / 2 else ds / 2 % 4294967296) = R
        try simp (disch := omega) only [m64]
        try simp only [Nat.add_mod_mod, Nat.mod_add_mod]
        all_goals omega
      · simp only [m6432]
        rcases hmf with rfl | rfl | rfl | rfl | rfl <;>
          simp only [Nat.reduceMod, Nat.reduceDiv, Nat.reduceMul, Nat.reduceEqDiff, ne_eq, not_false_eq_true, not_true_eq_false,
            decide_true, decide_false, if_true, if_false, Bool.false_eq_true] <;>
          first | exact True.intro | omega
    · have hsup : Memusage.mfSupported mf = false := by
        unfold Memusage.mfSupported Memusage.MF_HC3 Memusage.MF_HC4 Memusage.MF_BT2 Memusage.MF_BT3 Memusage.MF_BT4
        simp only [decide_eq_false_iff_not]; omega
      rw [if_pos (by omega)]
      simp [hsup]
  · have hg : ¬ (ds ≥ 4096 ∧ ds ≤ 1610612736) ∨ nl > mlm := by omega
    unfold Kernels.lz_encoder_prepare
    rw [if_pos hg]
    simp only [Bool.not_eq_true', decide_eq_false_iff_not]
    rw [if_pos hg]
    simp


end XzVerif.Kernels
