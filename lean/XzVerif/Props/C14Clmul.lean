/-
  C14 (third file) — the carry-less-multiplication implementation (crc_x86_clmul.h).
  `Clmul.crc32Clmul` / `crc64Clmul` (Model/CrcClmul.lean) model `crc32_arch_optimized` / `crc64_arch_optimized` as
  written: three size classes, four-lane fold512 loop, fold128 loop, partial last block via the vmasks shuffles,
  128→64 fold, Barrett reduction, over BitVec 128 with a shift-and-xor carry-less multiply.
  The theorems say: with the constants and the vmasks table that the compiled code uses today (regenerated from the
  source on every run), that model returns the standard CRC for every buffer and every initial value.
  What ties the C instruction sequence to the model is the correspondence run (column 2 of the crc32/crc64 ops).
-/
import XzVerif.Props.C14
import XzVerif.Lemmas.CrcClmulFinal

namespace XzVerif.C14
open XzVerif.Crc XzVerif.Clmul

/-- CRC32 via CLMUL: for every buffer and initial value (if the build contains the CLMUL code at all). -/
theorem crc32_clmul_eq_ref (h : Gen.C14.clmul32 ≠ []) (hv : Gen.C14.clmulVmasks ≠ []) (bs : List UInt8) (crc : BitVec 32) :
    crc32Clmul (Params.ofConsts false Gen.C14.clmul32 Gen.C14.clmulVmasks) bs crc = crc32Ref bs crc := by
  have hc := clmul32_consts.resolve_left h
  have hm := clmul_vmasks.resolve_left hv
  rw [hc, hm]
  exact crc32Clmul_eq_ref bs crc

/-- CRC64 via CLMUL likewise. -/
theorem crc64_clmul_eq_ref (h : Gen.C14.clmul64 ≠ []) (hv : Gen.C14.clmulVmasks ≠ []) (bs : List UInt8) (crc : BitVec 64) :
    crc64Clmul (Params.ofConsts true Gen.C14.clmul64 Gen.C14.clmulVmasks) bs crc = crc64Ref bs crc := by
  have hc := clmul64_consts.resolve_left h
  have hm := clmul_vmasks.resolve_left hv
  rw [hc, hm]
  exact crc64Clmul_eq_ref bs crc

/-- Table-driven and CLMUL implementations agree bit for bit, for every buffer, alignment and initial value. -/
theorem crc32_generic_eq_clmul (h : Gen.C14.clmul32 ≠ []) (hv : Gen.C14.clmulVmasks ≠ []) (align : Nat) (bs : List UInt8)
    (crc : BitVec 32) :
    crc32Generic Gen.C14.crc32Table align bs crc
      = crc32Clmul (Params.ofConsts false Gen.C14.clmul32 Gen.C14.clmulVmasks) bs crc := by
  rw [crc32_generic_eq_ref, crc32_clmul_eq_ref h hv]

theorem crc64_generic_eq_clmul (h : Gen.C14.clmul64 ≠ []) (hv : Gen.C14.clmulVmasks ≠ []) (align : Nat) (bs : List UInt8)
    (crc : BitVec 64) :
    crc64Generic Gen.C14.crc64Table align bs crc
      = crc64Clmul (Params.ofConsts true Gen.C14.clmul64 Gen.C14.clmulVmasks) bs crc := by
  rw [crc64_generic_eq_ref, crc64_clmul_eq_ref h hv]

-- Non-vacuity of the hypotheses (`Gen.C14.clmul32 ≠ []` …) is a fact about the build; tools/props/c14.py records it in
-- the evidence (`clmul_code_present`) instead of an `example` here, so that a build without CLMUL is not a false alarm.

end XzVerif.C14
