/-
  Bridges between the C kernels as the source has them TODAY (Gen/Kernels.lean, translated from the clang AST by
  tools/c2lean.py on every run, cross-checked against the compiled code in Gen/KernelsGrid.lean) and the hand-written
  `Nat` models the property theorems of C02 (Model/Container, Model/Vli), C09 (Model/Memusage, Model/Memlimit) and
  C13 (Model/IndexSpec) are stated over.  `Gen.Kernels.f args = Model.f args` for every argument in the stated range
  (the C types' ranges, or the documented domain where the model is written without wrap-around).
  A change to a kernel's arithmetic regenerates Gen/Kernels.lean and breaks the corresponding theorem here (stage P of
  C02 / C09 / C13); a behaviour-preserving rewrite of the C text regenerates it without breaking anything as long as
  `omega`/`simp`/`decide` still see through the new shape.
-/
import XzVerif.Gen.Kernels
import XzVerif.Gen.KernelsGrid
import XzVerif.Lemmas.Kernels
import XzVerif.Lemmas.C02Vli
import XzVerif.Lemmas.C02Dict
import XzVerif.Lemmas.C02Index
import XzVerif.Lemmas.IndexSpecL
import XzVerif.Model.Container
import XzVerif.Model.IndexSpec
import XzVerif.Model.Memusage
import XzVerif.Model.MemusageBuild
import XzVerif.Model.Memlimit
import XzVerif.Model.Lzma
import XzVerif.Model.LzmaEnc
import XzVerif.Model.FileInfo
import XzVerif.Model.LzDict
import XzVerif.Model.XzAdjust
import XzVerif.Model.Lzip
import XzVerif.Gen.C16

namespace XzVerif.Kernels
open XzVerif XzVerif.Gen

/-- 2^64: `uint64_t` / `size_t` / `lzma_vli` values are `< U64`. -/
def U64 : Nat := 18446744073709551616
/-- 2^32 -/
def U32 : Nat := 4294967296
/-- how a `lzma_vli` that may be LZMA_VLI_UNKNOWN is passed to the models that use `Option Nat` -/
def optVli (v : Nat) : Option Nat := if v = 18446744073709551615 then none else some v
/-- how the models' `Option Nat` results (`none` = UINT64_MAX / LZMA_VLI_UNKNOWN) are returned by the C code -/
def ofOpt : Option Nat → Nat
  | none => 18446744073709551615
  | some v => v

/-- case split on every `if` (after expanding the `let`s), then linear arithmetic, with `simp_all` as a fallback -/
macro "kernel_fin" : tactic => `(tactic| first | omega | with_reducible rfl | (simp_all; done) | (simp_all; omega))
macro "kernel_arith" : tactic =>
  `(tactic| ((try dsimp only) <;> (repeat' (split <;> try dsimp only)) <;>
      first | kernel_fin | (simp_all; (repeat' split) <;> kernel_fin)))

/-- a wrapping 64-bit subtraction that does not borrow -/
theorem sub_wrap64 (a b : Nat) (h1 : b ≤ a) (h2 : a < 18446744073709551616) :
    (a + 18446744073709551616 - b) % 18446744073709551616 = a - b := by omega
/-- a wrapping 32-bit subtraction that does not borrow -/
theorem sub_wrap32 (a b : Nat) (h1 : b ≤ a) (h2 : a < 4294967296) :
    (a + 4294967296 - b) % 4294967296 = a - b := by omega

/-- `(if c then a else b) = (if c' then a' else b')` (also against a non-`if`): conditions equivalent by `omega`, branches recursively -/
syntax "kernel_ite" : tactic
macro_rules
  | `(tactic| kernel_ite) =>
    `(tactic| first
      | (rw [if_pos (by omega)] <;> kernel_ite)
      | (rw [if_neg (by omega)] <;> kernel_ite)
      | (refine ite_congr (propext ⟨fun _ => by omega, fun _ => by omega⟩) (fun _ => ?_) (fun _ => ?_) <;> kernel_ite)
      | omega
      | rfl)

/-- remove every `% 2^w` whose argument provably does not wrap, and every wrapping subtraction that does not borrow -/
macro "kernel_nowrap" : tactic =>
  `(tactic| simp (disch := omega) only [Nat.mod_eq_of_lt, sub_wrap64, sub_wrap32])

/-- equality of two `Bool`s that are `decide`s / `&&`s of linear-arithmetic facts -/
macro "kernel_bool" : tactic =>
  `(tactic| (rw [Bool.eq_iff_iff] <;>
             simp only [decide_eq_true_eq, Bool.and_eq_true, Bool.or_eq_true, Bool.not_eq_true', decide_eq_false_iff_not] <;>
             constructor <;> intro <;> omega))

/-! ## Variable-length integers and Index size arithmetic (vli_size.c, index.h, index.c) — C02, C13 -/

/-- `lzma_vli_size` is the model of C13 for every argument (the fuel 10 of the translated loop is never exhausted
    before the 32-bit counter could wrap). -/
theorem vli_size_eq_index (v : Nat) : Kernels.lzma_vli_size v = Index.vliSize v := by
  unfold Kernels.lzma_vli_size Index.vliSize Index.VLI_MAX
  split
  · rfl
  · exact KernelLemmas.vli_loop_eq_go 10 v 0 (by decide)

/-- `lzma_vli_size` is the model of C02 for every argument. -/
theorem vli_size_eq_container (v : Nat) : Kernels.lzma_vli_size v = Vli.vliSize v := by
  rw [vli_size_eq_index]
  unfold Index.vliSize Vli.vliSize Index.VLI_MAX Vli.VLI_MAX
  split
  · rfl
  · rename_i h
    have := KernelLemmas.go_eq_aux 8 v 0 10 (by simp; omega) (by decide)
    simpa using this

theorem vli_size_le (v : Nat) : Kernels.lzma_vli_size v ≤ 9 := by
  rw [vli_size_eq_container]; unfold Vli.vliSize; split
  · omega
  · exact Vli.vliSizeAux_le 8 v

/-- `vli_ceil4`: `(vli + 3) & ~3` is `(v + 3) / 4 * 4` whenever `v + 3` does not wrap (the assert of the C function
    demands `v ≤ UNPADDED_SIZE_MAX`). -/
theorem vli_ceil4_eq (v : Nat) (h : v + 3 < U64) :
    Kernels.vli_ceil4 v = Container.ceil4 v ∧ Kernels.vli_ceil4 v = Index.vliCeil4 v := by
  unfold Kernels.vli_ceil4 Container.ceil4 Index.vliCeil4
  unfold U64 at h
  rw [Nat.mod_eq_of_lt h]; exact ⟨rfl, rfl⟩

/-- `index_size_unpadded` (no wrap as long as the List of Records is not within 14 bytes of 2^64). -/
theorem index_size_unpadded_eq (count listSize : Nat) (h : listSize + 14 < U64) :
    Kernels.index_size_unpadded count listSize = Container.indexSizeUnpadded count listSize
    ∧ Kernels.index_size_unpadded count listSize = Index.indexSizeUnpadded count listSize := by
  unfold Kernels.index_size_unpadded Container.indexSizeUnpadded Index.indexSizeUnpadded
  rw [← vli_size_eq_container, ← vli_size_eq_index]
  have := vli_size_le count
  unfold U64 at h
  omega

theorem index_size_unpadded_le (count listSize : Nat) (h : listSize + 14 < U64) :
    Kernels.index_size_unpadded count listSize ≤ listSize + 14 := by
  rw [(index_size_unpadded_eq count listSize h).1]; unfold Container.indexSizeUnpadded
  rw [← vli_size_eq_container]; have := vli_size_le count; omega

/-- `index_size` -/
theorem index_size_eq (count listSize : Nat) (h : listSize + 17 < U64) :
    Kernels.index_size count listSize = Container.indexSize count listSize
    ∧ Kernels.index_size count listSize = Index.indexSize count listSize := by
  unfold Kernels.index_size Container.indexSize Index.indexSize Kernels.vli_ceil4 Container.ceil4 Index.vliCeil4
  unfold U64 at h
  have h1 := index_size_unpadded_eq count listSize (by unfold U64; omega)
  rw [← h1.1, ← h1.2]
  have := index_size_unpadded_le count listSize (by unfold U64; omega)
  omega

theorem index_size_le (count listSize : Nat) (h : listSize + 17 < U64) :
    Kernels.index_size count listSize ≤ listSize + 17 := by
  unfold Kernels.index_size Kernels.vli_ceil4
  have := index_size_unpadded_le count listSize (by unfold U64 at *; omega)
  unfold U64 at h
  omega

/-- `index_stream_size` -/
theorem index_stream_size_eq (blocksSize count listSize : Nat) (h : blocksSize + listSize + 41 < U64) :
    Kernels.index_stream_size blocksSize count listSize = Container.indexStreamSize blocksSize count listSize
    ∧ Kernels.index_stream_size blocksSize count listSize = Index.indexStreamSize blocksSize count listSize := by
  unfold Kernels.index_stream_size Container.indexStreamSize Index.indexStreamSize Container.STREAM_HEADER_SIZE Index.STREAM_HEADER_SIZE
  unfold U64 at h
  have h1 := index_size_eq count listSize (by unfold U64; omega)
  have h2 := index_size_le count listSize (by unfold U64; omega)
  rw [← h1.1, ← h1.2]
  omega

/-- `index_file_size` on the domain the models are written for: the first 64-bit sum does not wrap (in every state
    `lzma_index_append` / `lzma_index_stream_padding` / `lzma_index_cat` can reach, `compressed_base + stream_padding`
    is at most LZMA_VLI_MAX - 32 and `unpadded_sum ≤ UNPADDED_SIZE_MAX`) and neither does the second (the List of
    Records is far below 2^63 bytes: an Index above LZMA_BACKWARD_SIZE_MAX = 2^34 is refused right afterwards).
    The result LZMA_VLI_UNKNOWN is `none` in the C02 model. -/
theorem index_file_size_eq (cb us count listSize sp : Nat) (h1 : cb + sp + us + 27 < U64)
    (h3 : listSize + 17 ≤ 9223372036854775808) :
    Kernels.index_file_size cb us count listSize sp = ofOpt (Container.indexFileSize cb us count listSize sp)
    ∧ Kernels.index_file_size cb us count listSize sp = Index.indexFileSize cb us count listSize sp := by
  unfold U64 at h1
  have hc := vli_ceil4_eq us (by unfold U64; omega)
  have hi := index_size_eq count listSize (by unfold U64; omega)
  have hl := index_size_le count listSize (by unfold U64; omega)
  have hcl : Kernels.vli_ceil4 us ≤ us + 3 := by unfold Kernels.vli_ceil4; omega
  unfold Kernels.index_file_size Container.indexFileSize Index.indexFileSize Container.STREAM_HEADER_SIZE Index.STREAM_HEADER_SIZE
    Vli.VLI_MAX Index.VLI_MAX Index.VLI_UNKNOWN
  rw [← hc.1, ← hc.2, ← hi.1, ← hi.2]
  generalize Kernels.vli_ceil4 us = c at *
  generalize Kernels.index_size count listSize = s at *
  dsimp only
  constructor
  · (repeat' split) <;> simp only [ofOpt] <;> omega
  · (repeat' split) <;> omega

/-! ## Check sizes and Block sizes (check.c, block_util.c) — C02 -/

theorem check_sizes_table : Kernels.lzma_check_size_check_sizes = Container.checkSizes := by decide

/-- `lzma_check_size` for every `lzma_check` value (the enum is an `unsigned int`). -/
theorem check_size_eq (c : Nat) : Kernels.lzma_check_size c = Container.checkSize c := by
  unfold Kernels.lzma_check_size Container.checkSize Container.CHECK_ID_MAX Container.UINT32_MAX
  rw [check_sizes_table]

theorem check_size_le : ∀ c, c ≤ 15 → Kernels.lzma_check_size c ≤ 64 := by decide

/-- `lzma_block_unpadded_size(block)` as a function of the four members it reads (`block` non-NULL); the member
    `compressed_size` is LZMA_VLI_UNKNOWN = 2^64-1 exactly when the model's argument is `none`. -/
theorem block_unpadded_size_eq (check cs hs ver : Nat) (hcs : cs < U64) (hhs : hs < U32) :
    Kernels.lzma_block_unpadded_size check cs hs ver = Container.blockUnpaddedSize ver hs check (optVli cs) := by
  unfold U64 at hcs; unfold U32 at hhs
  unfold Kernels.lzma_block_unpadded_size Container.blockUnpaddedSize optVli
  rw [check_size_eq]
  have hc : check ≤ 15 → Container.checkSize check ≤ 64 := by rw [← check_size_eq]; exact check_size_le check
  generalize Container.checkSize check = k at *
  by_cases hu : cs = 18446744073709551615
  · subst hu
    simp only [Vli.vliIsValid, Container.BLOCK_HEADER_SIZE_MIN, Container.BLOCK_HEADER_SIZE_MAX, Container.CHECK_ID_MAX, Vli.VLI_UNKNOWN, if_true]
    kernel_arith
  · simp only [hu, if_false, Vli.vliIsValid, Container.BLOCK_HEADER_SIZE_MIN, Container.BLOCK_HEADER_SIZE_MAX, Container.CHECK_ID_MAX,
      Vli.VLI_MAX, Container.UNPADDED_SIZE_MAX]
    kernel_arith

/-- `lzma_block_total_size(block)` -/
theorem block_total_size_eq (check cs hs ver : Nat) (hcs : cs < U64) (hhs : hs < U32) :
    Kernels.lzma_block_total_size check cs hs ver = Container.blockTotalSize ver hs check (optVli cs) := by
  unfold Kernels.lzma_block_total_size Container.blockTotalSize
  rw [block_unpadded_size_eq check cs hs ver hcs hhs]
  have hb : Container.blockUnpaddedSize ver hs check (optVli cs) = 18446744073709551615
      ∨ Container.blockUnpaddedSize ver hs check (optVli cs) ≤ 9223372036854775804 := by
    unfold Container.blockUnpaddedSize Container.UNPADDED_SIZE_MAX Vli.VLI_UNKNOWN
    kernel_arith
  generalize Container.blockUnpaddedSize ver hs check (optVli cs) = u at *
  unfold Kernels.vli_ceil4 Container.ceil4 Vli.VLI_UNKNOWN
  kernel_arith

/-! ## Bound functions (block_buffer_encoder.c, stream_buffer_encoder.c) — C02, C09 -/

theorem c_csm : Container.COMPRESSED_SIZE_MAX = 9223372036854774716 ∧ Memusage.COMPRESSED_SIZE_MAX = 9223372036854774716 := by decide

theorem lzma2_bound_eq (n : Nat) (h : n < U64) :
    Kernels.lzma2_bound n = Container.lzma2Bound n ∧ Kernels.lzma2_bound n = Memusage.lzma2Bound n := by
  unfold U64 at h
  unfold Kernels.lzma2_bound Container.lzma2Bound Memusage.lzma2Bound
  rw [c_csm.1, c_csm.2]
  unfold Container.LZMA2_CHUNK_MAX Memusage.LZMA2_CHUNK_MAX Container.LZMA2_HEADER_UNCOMPRESSED Memusage.LZMA2_HEADER_UNCOMPRESSED
  constructor <;> kernel_arith

theorem lzma2_bound_le (n : Nat) : Kernels.lzma2_bound n ≤ 9223372036854774716 := by
  by_cases h : n < U64
  · rw [(lzma2_bound_eq n h).1]
    unfold Container.lzma2Bound
    rw [c_csm.1]
    unfold Container.LZMA2_CHUNK_MAX Container.LZMA2_HEADER_UNCOMPRESSED
    kernel_arith
  · unfold U64 at h
    unfold Kernels.lzma2_bound
    rw [if_pos (by omega)]; omega

theorem c_bounds : Container.BLOCK_HEADERS_BOUND = 92 ∧ Memusage.HEADERS_BOUND = 92 ∧ Container.STREAM_HEADERS_BOUND = 48
    ∧ Container.UINT64_MAX = 18446744073709551615 ∧ Vli.VLI_MAX = 9223372036854775807 := by decide

/-- `lzma_block_buffer_bound64` -/
theorem block_buffer_bound64_eq (n : Nat) (h : n < U64) :
    Kernels.lzma_block_buffer_bound64 n = Container.blockBufferBound64 n
    ∧ Kernels.lzma_block_buffer_bound64 n = Memusage.blockBufferBound64 n := by
  unfold Kernels.lzma_block_buffer_bound64 Container.blockBufferBound64 Memusage.blockBufferBound64
  rw [← (lzma2_bound_eq n h).1, ← (lzma2_bound_eq n h).2, c_bounds.1, c_bounds.2.1]
  have := lzma2_bound_le n
  generalize Kernels.lzma2_bound n = l at *
  constructor <;> kernel_arith

/-- `lzma_block_buffer_bound` (`size_t` is 64 bits in this build: the `#if SIZE_MAX < UINT64_MAX` branch is absent) -/
theorem block_buffer_bound_eq (n : Nat) (h : n < U64) : Kernels.lzma_block_buffer_bound n = Container.blockBufferBound n := by
  unfold Kernels.lzma_block_buffer_bound Container.blockBufferBound
  exact (block_buffer_bound64_eq n h).1

theorem block_buffer_bound64_le (n : Nat) : Kernels.lzma_block_buffer_bound64 n ≤ 9223372036854774716 + 92 := by
  unfold Kernels.lzma_block_buffer_bound64
  have := lzma2_bound_le n
  generalize Kernels.lzma2_bound n = l at *
  kernel_arith

/-- `lzma_stream_buffer_bound` -/
theorem stream_buffer_bound_eq (n : Nat) (h : n < U64) : Kernels.lzma_stream_buffer_bound n = Container.streamBufferBound n := by
  unfold Kernels.lzma_stream_buffer_bound Container.streamBufferBound
  rw [← block_buffer_bound_eq n h, c_bounds.2.2.1, c_bounds.2.2.2.1, c_bounds.2.2.2.2]
  have hb : Kernels.lzma_block_buffer_bound n ≤ 9223372036854774716 + 92 := block_buffer_bound64_le n
  generalize Kernels.lzma_block_buffer_bound n = b at *
  kernel_arith

/-! ## Stream Footer (stream_flags_common.h) — C02 -/

/-- `is_backward_size_valid(options)` as a function of `options->backward_size` -/
theorem is_backward_size_valid_eq (bs : Nat) : Kernels.is_backward_size_valid bs = Container.isBackwardSizeValid bs := by
  unfold Kernels.is_backward_size_valid Container.isBackwardSizeValid Container.BACKWARD_SIZE_MIN Container.BACKWARD_SIZE_MAX
  simp only [and_assoc, ge_iff_le]

/-! ## Memory-usage estimates (lz_decoder.c, lzma_decoder.c, lzma2_decoder.c, outqueue.c, index.c) — C09, C13 -/

/-- `lzma_lz_decoder_memusage`, with the struct size and LZ_DICT_EXTRA of the build under test
    (no wrap for any dictionary size below 2^63; the callers pass 32-bit values). -/
theorem lz_decoder_memusage_eq (d : Nat) (h : d < 9223372036854775808) :
    Kernels.lzma_lz_decoder_memusage d = Memusage.lzDecoderMemusage Memusage.thisBuild d := by
  unfold Kernels.lzma_lz_decoder_memusage Memusage.lzDecoderMemusage Memusage.thisBuild Memusage.LZ_DICT_REPEAT_MAX
  simp only [C09.szLzDecoder, C09.lzDictExtra]
  omega

/-- `lzma_lzma_decoder_memusage_nocheck(options)` as a function of `options->dict_size` (a `uint32_t`) -/
theorem lzma_decoder_memusage_nocheck_eq (o : Memusage.LzmaOpts) (h : o.dict < U32) :
    Kernels.lzma_lzma_decoder_memusage_nocheck o.dict = Memusage.lzmaDecoderMemusageNocheck Memusage.thisBuild o := by
  unfold U32 at h
  unfold Kernels.lzma_lzma_decoder_memusage_nocheck Memusage.lzmaDecoderMemusageNocheck
  rw [lz_decoder_memusage_eq o.dict (by omega)]
  unfold Memusage.lzDecoderMemusage Memusage.thisBuild Memusage.LZ_DICT_REPEAT_MAX
  simp only [C09.szLzDecoder, C09.lzDictExtra, C09.szLzma1Decoder]
  omega

/-- `lzma_lzma2_decoder_memusage(options)` -/
theorem lzma2_decoder_memusage_eq (o : Memusage.LzmaOpts) (h : o.dict < U32) :
    Kernels.lzma_lzma2_decoder_memusage o.dict = Memusage.lzma2DecoderMemusage Memusage.thisBuild o := by
  unfold Kernels.lzma_lzma2_decoder_memusage Memusage.lzma2DecoderMemusage
  rw [lzma_decoder_memusage_nocheck_eq o h]
  unfold U32 at h
  unfold Memusage.lzmaDecoderMemusageNocheck Memusage.lzDecoderMemusage Memusage.thisBuild Memusage.LZ_DICT_REPEAT_MAX
  simp only [C09.szLzDecoder, C09.lzDictExtra, C09.szLzma1Decoder, C09.szLzma2Decoder]
  omega

/-- `lzma_outq_outbuf_memusage` -/
theorem outq_outbuf_memusage_eq (n : Nat) (h : n < 9223372036854775808) :
    Kernels.lzma_outq_outbuf_memusage n = Memusage.outbufMemusage Memusage.thisBuild n := by
  unfold Kernels.lzma_outq_outbuf_memusage Memusage.outbufMemusage Memusage.thisBuild
  simp only [C09.szOutbuf]
  omega

/-- `lzma_outq_memusage` for every `(uint64_t, uint32_t)` argument pair; UINT64_MAX is the model's `none`. -/
theorem outq_memusage_eq (buf threads : Nat) :
    Kernels.lzma_outq_memusage buf threads = ofOpt (Memusage.outqMemusage Memusage.thisBuild buf threads) := by
  unfold Kernels.lzma_outq_memusage Memusage.outqMemusage Memusage.THREADS_MAX Memusage.UINT64_MAX
  by_cases hb : threads > 16384 ∨ buf > 281474976710655
  · have : threads > 16384 ∨ buf > 18446744073709551615 / (2 * 16384) / 2 := by omega
    simp [hb, ofOpt]
  · have hn : ¬ (threads > 16384 ∨ buf > 18446744073709551615 / (2 * 16384) / 2) := by omega
    simp only [hb, if_false, ofOpt]
    rw [outq_outbuf_memusage_eq buf (by omega)]
    have e1 : 2 * threads % 4294967296 = 2 * threads := by omega
    rw [e1]
    have hx : Memusage.outbufMemusage Memusage.thisBuild buf ≤ 281474976710655 + 65536 := by
      unfold Memusage.outbufMemusage Memusage.thisBuild; simp only [C09.szOutbuf]; omega
    generalize Memusage.outbufMemusage Memusage.thisBuild buf = x at *
    have : 2 * threads * x ≤ 32768 * (281474976710655 + 65536) := Nat.mul_le_mul (by omega) hx
    exact Nat.mod_eq_of_lt (by omega)

/-- `lzma_index_memusage` for every pair of `lzma_vli` arguments against the C13 model (same wrap-arounds, same guards;
    the model's sizeof constants are those of this build). -/
theorem index_memusage_eq_index (streams blocks : Nat) (hs : streams < U64) (hb : blocks < U64) :
    Kernels.lzma_index_memusage streams blocks = Index.memusage streams blocks := by
  unfold U64 at hs hb
  unfold Kernels.lzma_index_memusage Index.memusage Index.SIZEOF_VOID_PTR Index.SIZEOF_INDEX_STREAM Index.SIZEOF_INDEX_GROUP
    Index.INDEX_GROUP_SIZE Index.SIZEOF_INDEX_RECORD Index.SIZEOF_LZMA_INDEX Index.U64 Index.UINT32_MAX Index.VLI_MAX
  dsimp only
  simp only [Nat.reduceMul, Nat.reduceAdd, Nat.reduceSub, Nat.reduceDiv]
  by_cases hA : streams = 0 ∨ streams > 4294967295 ∨ blocks > 9223372036854775807
  · kernel_ite
  · kernel_nowrap
    kernel_ite

theorem index_memusage_eq_memusage_aux (b : Memusage.Build) (streams blocks : Nat) (hs : streams < U64) (hb : blocks < U64)
    (h1 : b.szVoidPtr = 8) (h2 : b.szIndexStream = 168) (h3 : b.szIndexGroup = 64) (h4 : b.szIndexRecord = 16) (h5 : b.szIndex = 80) :
    Kernels.lzma_index_memusage streams blocks = ofOpt (Memusage.indexMemusage b streams blocks) := by
  unfold U64 at hs hb
  unfold Kernels.lzma_index_memusage Memusage.indexMemusage Memusage.INDEX_GROUP_SIZE Memusage.UINT64_MAX
    Memusage.UINT32_MAX Memusage.VLI_MAX
  rw [h1, h2, h3, h4, h5]
  dsimp only
  simp only [Nat.reduceMul, Nat.reduceAdd, Nat.reduceSub, Nat.reduceDiv, apply_ite ofOpt]
  simp only [ofOpt]
  by_cases hA : streams = 0 ∨ streams > 4294967295 ∨ blocks > 9223372036854775807
  · kernel_ite
  · by_cases hG : (blocks + 512 - 1) / 512 > 2225717190360708
    · kernel_ite
    · kernel_nowrap
      kernel_ite

/-- … and against the C09 model, which is written without wrap-around (`none` = UINT64_MAX). -/
theorem index_memusage_eq_memusage (streams blocks : Nat) (hs : streams < U64) (hb : blocks < U64) :
    Kernels.lzma_index_memusage streams blocks = ofOpt (Memusage.indexMemusage Memusage.thisBuild streams blocks) :=
  index_memusage_eq_memusage_aux Memusage.thisBuild streams blocks hs hb rfl rfl rfl rfl rfl

/-! ## LZMA properties bytes and state macros (lzma_decoder.c, lzma_encoder.c, lzma2_decoder.c, lzip_decoder.c, lzma_common.h) -/

/-- `is_lclppb_valid(options)` as a function of the three `uint32_t` members -/
theorem is_lclppb_valid_eq (lc lp pb : Nat) (h1 : lc < U32) (h2 : lp < U32) :
    Kernels.is_lclppb_valid lc lp pb = Container.lclppbValid lc lp pb
    ∧ Kernels.is_lclppb_valid lc lp pb = Memusage.lclppbValid { dict := 0, lc := lc, lp := lp, pb := pb } := by
  unfold U32 at h1 h2
  unfold Kernels.is_lclppb_valid Container.lclppbValid Memusage.lclppbValid Container.LCLP_MAX Container.PB_MAX Memusage.LCLP_MAX Memusage.PB_MAX
  constructor <;> kernel_bool

/-- `lzma_lzma_lclppb_encode(options, byte)`: (returned bool, `*byte` afterwards) -/
theorem lclppb_encode_eq (lc lp pb b0 : Nat) (h1 : lc < U32) (h2 : lp < U32) :
    Kernels.lzma_lzma_lclppb_encode lc lp pb b0
      = match Container.lclppbEncode lc lp pb with | none => (true, b0) | some v => (false, v) := by
  unfold Kernels.lzma_lzma_lclppb_encode Container.lclppbEncode
  rw [(is_lclppb_valid_eq lc lp pb h1 h2).1]
  by_cases hv : Container.lclppbValid lc lp pb = true
  · simp only [hv, not_true_eq_false, if_false, if_true]
    unfold Container.lclppbValid Container.LCLP_MAX Container.PB_MAX at hv
    simp only [decide_eq_true_eq] at hv
    congr 1
    omega
  · simp [hv]

/-- `lzma_lzma_lclppb_decode(options, byte)` for all 256 bytes: returns true exactly where the model rejects, and
    otherwise stores the model's lc/lp/pb (the incoming members do not matter unless `byte > 224`). -/
theorem lclppb_decode_eq (byte lc0 lp0 pb0 : Nat) (h : byte < 256) :
    (Kernels.lzma_lzma_lclppb_decode byte lc0 lp0 pb0).1 = (Container.lclppbDecode byte).isNone
    ∧ ∀ r, Container.lclppbDecode byte = some r → Kernels.lzma_lzma_lclppb_decode byte lc0 lp0 pb0 = (false, r) := by
  have hind : Kernels.lzma_lzma_lclppb_decode byte lc0 lp0 pb0
      = if byte > 224 then (true, lc0, lp0, pb0) else Kernels.lzma_lzma_lclppb_decode byte 0 0 0 := by
    unfold Kernels.lzma_lzma_lclppb_decode; split <;> rfl
  have hall : ∀ b, b < 256 → (Kernels.lzma_lzma_lclppb_decode b 0 0 0).1 = (Container.lclppbDecode b).isNone
      ∧ ∀ r, Container.lclppbDecode b = some r → b ≤ 224 ∧ Kernels.lzma_lzma_lclppb_decode b 0 0 0 = (false, r) := by
    decide +kernel
  rw [hind]
  have := hall byte h
  by_cases hb : byte > 224
  · have hn : Container.lclppbDecode byte = none := by
      unfold Container.lclppbDecode; rw [if_pos (by omega)]
    simp [hb, hn]
  · simp only [hb, if_false]
    exact ⟨this.1, fun r hr => (this.2 r hr).2⟩

/-- `lzma_lzma2_props_decode(&options, allocator, props, props_size)` (allocation assumed to succeed):
    (lzma_ret, `opt->dict_size`, `opt->preset_dict_size`) for every property byte; a size other than 1 is LZMA_OPTIONS_ERROR. -/
theorem lzma2_props_decode_eq :
    (∀ b, b < 256 → Kernels.lzma_lzma2_props_decode 1 b
        = match Container.lzma2DictDecode b with | none => (8, 0, 0) | some d => (0, d, 0))
    ∧ ∀ n b, n ≠ 1 → Kernels.lzma_lzma2_props_decode n b = (8, 0, 0) := by
  constructor
  · decide +kernel
  · intro n b hn
    unfold Kernels.lzma_lzma2_props_decode
    rw [if_pos hn]

/-- The dictionary-size byte of a .lz header (fragment of `lzip_decode`, case SEQ_DICT_SIZE): LZMA_DATA_ERROR (= 9,
    encoded 10 = 9 + 1) where the model rejects, else falls through with the model's dictionary size and lc/lp/pb = 3/0/2. -/
theorem lzip_dict_size_eq : ∀ ds, ds < 256 → Kernels.lzip_dict_size ds
    = match Memlimit.lzipDict ds with | none => (10, 0, 0, 0, 0) | some d => (0, d, 3, 0, 2) := by
  decide +kernel

/-- … and the C16 model (`Lzip.dictSizeOfCode`, the one the .lz theorems of C16 are stated over; lc/lp/pb as `Lzip.lzipOpts`) -/
theorem lzip_dict_size_eq_c16 : ∀ ds, ds < 256 → Kernels.lzip_dict_size ds
    = match Lzip.dictSizeOfCode ds with | none => (10, 0, 0, 0, 0) | some d => (0, d, 3, 0, 2) := by
  decide +kernel

/-- Cross-check of the fragment against the COMPILED decoder: the table Gen/C16.lean obtains by running `lzip_decode`
    on all 256 dictionary-size bytes (0 = rejected, else dictionary size + 1). -/
theorem lzip_dict_size_matches_running_code :
    Gen.C16.lzipDictTable = (List.range 256).map (fun ds =>
      if (Kernels.lzip_dict_size ds).1 = 0 then (Kernels.lzip_dict_size ds).2.1 + 1 else 0) := by
  decide +kernel

/-- The state-update macros of lzma_common.h for every `uint32_t` state value (`update_literal_matched` is only used
    on non-literal states, i.e. `state ≥ 7`; below 3 the C expression would wrap). -/
theorem state_macros_eq (s : Nat) (h : s < U32) :
    Kernels.update_literal s = Lzma.updateLiteral s ∧ Kernels.update_literal_normal s = Lzma.updateLiteralNormal s
    ∧ (3 ≤ s → Kernels.update_literal_matched s = Lzma.updateLiteralMatched s) ∧ Kernels.update_match s = Lzma.updateMatch s
    ∧ Kernels.update_long_rep s = Lzma.updateLongRep s ∧ Kernels.update_short_rep s = Lzma.updateShortRep s
    ∧ Kernels.is_literal_state s = Lzma.isLiteralState s := by
  unfold U32 at h
  unfold Kernels.update_literal Kernels.update_literal_normal Kernels.update_literal_matched Kernels.update_match Kernels.update_long_rep
    Kernels.update_short_rep Kernels.is_literal_state Lzma.updateLiteral Lzma.updateLiteralNormal Lzma.updateLiteralMatched Lzma.updateMatch
    Lzma.updateLongRep Lzma.updateShortRep Lzma.isLiteralState Lzma.LIT_STATES
  refine ⟨?_, ?_, ?_, ?_, ?_, ?_, ?_⟩
  · kernel_arith
  · kernel_arith
  · intro h3; kernel_arith
  · kernel_arith
  · kernel_arith
  · kernel_arith
  · kernel_bool

/-- `get_dist_state(len)` for every match length (`len ≥ MATCH_LEN_MIN`; below it the C expression wraps) -/
theorem get_dist_state_eq (len : Nat) (h1 : 2 ≤ len) (h2 : len < U32) : Kernels.get_dist_state len = Lzma.getDistState len := by
  unfold U32 at h2
  unfold Kernels.get_dist_state Lzma.getDistState Lzma.DIST_STATES Lzma.MATCH_LEN_MIN
  kernel_arith

/-- `literal_mask_calc(lc, lp)` on the whole domain of LZMA1/LZMA2 (lc ≤ 8 as in the decoder's struct, lp ≤ 4) -/
theorem literal_mask_calc_eq : ∀ lc, lc ≤ 8 → ∀ lp, lp ≤ 4 → Kernels.literal_mask_calc lc lp = Lzma.literalMask lc lp := by
  decide +kernel

/-! ## Distance slots (fastpos.h) — C01, C02 -/

/-- `get_dist_slot` (the table version compiled into this build, with the linked `lzma_fastpos[]`) is the bit-scan
    definition used by the C02 model (`lzma_lzma2_props_encode`) and by the C01 encoder model, for every `uint32_t`. -/
theorem get_dist_slot_eq (d : Nat) (h : d < U32) :
    Kernels.get_dist_slot d = Container.getDistSlot d ∧ Kernels.get_dist_slot d = LzmaEnc.getDistSlot d := by
  have h1 := KernelLemmas.get_dist_slot_eq d h
  refine ⟨h1, ?_⟩
  rw [h1]
  unfold Container.getDistSlot LzmaEnc.getDistSlot LzmaEnc.log2
  simp only [Nat.and_one_is_mod]

/-! ## LZMA2 dictionary-size byte, encoder side (lzma2_encoder.c) — C02 -/

theorem smear_values_facts : ∀ s ∈ Container.dictSmearValues, s ≤ 4294967295 ∧
    (s ≠ 4294967295 → 24 ≤ Container.getDistSlot (s + 1) ∧ Container.getDistSlot (s + 1) < 280) := by decide +kernel

/-- `lzma_lzma2_props_encode(options, out)`: returns LZMA_OK and stores the model's dictionary-size byte, for every
    `uint32_t` `dict_size` (the `d |= d >> k` smear is the model's `dictSmear`; `get_dist_slot` is the translated table version). -/
theorem lzma2_props_encode_eq (d : Nat) (h : d < U32) :
    Kernels.lzma_lzma2_props_encode d = (0, Container.lzma2DictEncode d) := by
  unfold U32 at h
  unfold Kernels.lzma_lzma2_props_encode Container.lzma2DictEncode Container.DICT_SIZE_MIN Container.UINT32_MAX
  dsimp only
  have e0 : (if d > 4096 then d else 4096) = (if d < 4096 then 4096 else d) := by split <;> split <;> omega
  have e1 : ((if d < 4096 then 4096 else d) + 4294967296 - 1) % 4294967296 = (if d < 4096 then 4096 else d) - 1 := by split <;> omega
  rw [e0, e1]
  generalize hx : (if d < 4096 then 4096 else d) - 1 = x
  have hx1 : x < 4294967296 ∧ 4095 ≤ x := by split at hx <;> omega
  obtain ⟨G, hG⟩ : ∃ G, G = Container.dictSmear x := ⟨_, rfl⟩
  have hmem := (Container.dictSmear_mem x hx1.1 hx1.2).1
  rw [← hG] at hmem
  have hf := smear_values_facts G hmem
  simp only [Container.dictSmear, Nat.shiftRight_eq_div_pow, Nat.reducePow] at hG ⊢
  rw [← hG]
  by_cases hm : G = 4294967295
  · rw [if_pos hm, if_pos hm]
  · have hf2 := hf.2 hm
    have e2 : (G + 1) % 4294967296 = G + 1 := Nat.mod_eq_of_lt (by omega)
    rw [e2, (get_dist_slot_eq (G + 1) (by unfold U32; omega)).1]
    simp only [hm, if_false]
    rw [Prod.mk.injEq]
    exact ⟨rfl, by omega⟩

/-! ## Stream Flags comparison and the Backward Size field (stream_flags_common.c, stream_flags_encoder.c, stream_flags_decoder.c) — C02 -/

/-- `lzma_stream_flags_compare(a, b)` for all member values (`backward_size` = LZMA_VLI_UNKNOWN is the model's `none`) -/
theorem stream_flags_compare_eq (abs ac av bbs bc bv : Nat) :
    Kernels.lzma_stream_flags_compare abs ac av bbs bc bv
      = (Container.streamFlagsCompare ⟨av, ac⟩ (optVli abs) ⟨bv, bc⟩ (optVli bbs)).toNat := by
  unfold Kernels.lzma_stream_flags_compare Container.streamFlagsCompare optVli Container.CHECK_ID_MAX
  rw [is_backward_size_valid_eq, is_backward_size_valid_eq]
  by_cases h1 : abs = 18446744073709551615 <;> by_cases h2 : bbs = 18446744073709551615 <;>
    simp only [h1, h2, if_true, if_false, ne_eq, not_true_eq_false, not_false_eq_true, and_true, and_false, false_and, true_and] <;>
    (repeat' split) <;> simp_all [Ret.toNat]

/-- the value `lzma_stream_footer_encode` stores for a valid Backward Size: `backward_size / 4 - 1`, a 32-bit value -/
theorem footer_backward_size_field_eq (bs : Nat) (h : Container.isBackwardSizeValid bs = true) :
    Kernels.footer_backward_size_field bs = bs / 4 - 1 := by
  unfold Container.isBackwardSizeValid Container.BACKWARD_SIZE_MIN Container.BACKWARD_SIZE_MAX at h
  simp only [decide_eq_true_eq] at h
  unfold Kernels.footer_backward_size_field
  omega

/-- the Backward Size `lzma_stream_footer_decode` computes from the stored 32-bit field: `(field + 1) * 4` -/
theorem footer_backward_size_of_field_eq (f : Nat) (h : f < U32) :
    Kernels.footer_backward_size_of_field f = (0, (f + 1) * 4) := by
  unfold U32 at h
  unfold Kernels.footer_backward_size_of_field
  simp only [Prod.mk.injEq, true_and]
  omega

/-! ## Block sizes, continued (block_util.c, block_header_encoder.c) — C02 -/

/-- `lzma_block_compressed_size(block, unpadded_size)`: (lzma_ret, `block->compressed_size` afterwards) -/
theorem block_compressed_size_eq (up check cs hs ver : Nat) (hcs : cs < U64) (hhs : hs < U32) (hup : up < U64) :
    Kernels.lzma_block_compressed_size up check cs hs ver
      = match Container.blockCompressedSize ver hs check (optVli cs) up with
        | .error e => (e.toNat, cs)
        | .ok v => (0, v) := by
  unfold Kernels.lzma_block_compressed_size Container.blockCompressedSize
  rw [block_unpadded_size_eq check cs hs ver hcs hhs, check_size_eq]
  unfold U64 at hcs hup; unfold U32 at hhs
  by_cases h0 : Container.blockUnpaddedSize ver hs check (optVli cs) = 0
  · simp [h0, Ret.toNat]
  · have hck : check ≤ 15 := by
      unfold Container.blockUnpaddedSize Container.CHECK_ID_MAX at h0
      by_cases hc : check > 15
      · simp [hc] at h0
      · omega
    have hhs1 : hs ≤ 1024 := by
      unfold Container.blockUnpaddedSize Container.BLOCK_HEADER_SIZE_MAX at h0
      by_cases hc : hs > 1024
      · simp [hc] at h0
      · omega
    have hc := check_size_le check hck
    rw [check_size_eq] at hc
    generalize Container.checkSize check = k at *
    simp only [h0, if_false]
    try dsimp only
    have e1 : (hs + k) % 4294967296 = hs + k := by omega
    rw [e1]
    by_cases h1 : up ≤ hs + k
    · simp [h1, Ret.toNat]
    · have e2 : (up + 18446744073709551616 - (hs + k)) % 18446744073709551616 = up - (hs + k) := by omega
      simp only [h1, if_false, e2, optVli]
      by_cases hu : cs = 18446744073709551615
      · simp [hu]
      · simp only [hu, if_false, ne_eq, not_false_eq_true, true_and]
        by_cases h2 : cs = up - (hs + k)
        · simp [h2]
        · simp [h2, Ret.toNat]

/-- `lzma_block_header_size`, the part before the filter loop: Block Header Size + Block Flags + CRC32 + the two optional
    VLI fields; LZMA_PROG_ERROR (11, encoded 12) exactly where the model's `sizeOptVli` fails. -/
theorem block_header_size_fixed_eq (cs us : Nat) :
    (Kernels.block_header_size_fixed cs us).1
      = (match Container.sizeOptVli true (optVli cs), Container.sizeOptVli false (optVli us) with
         | .ok _, .ok _ => 0
         | _, _ => 12)
    ∧ ∀ a b, Container.sizeOptVli true (optVli cs) = .ok a → Container.sizeOptVli false (optVli us) = .ok b →
        (Kernels.block_header_size_fixed cs us).2 = 1 + 1 + 4 + a + b := by
  have ha := vli_size_le cs
  have hb := vli_size_le us
  unfold Kernels.block_header_size_fixed Container.sizeOptVli optVli
  rw [vli_size_eq_container, vli_size_eq_container] at *
  by_cases hc : cs = 18446744073709551615 <;> by_cases hu : us = 18446744073709551615 <;>
    simp only [hc, hu, if_true, if_false, ne_eq, not_true_eq_false, not_false_eq_true, Bool.false_eq_true, false_and, or_false, true_and] <;>
    (try dsimp only) <;>
    (repeat' split) <;> simp_all <;> omega

/-- … and its last step: `header_size = (size + 3) & ~3` -/
theorem block_header_size_pad_eq (size : Nat) (h : size + 3 < U32) :
    Kernels.block_header_size_pad size = (0, (size + 3) / 4 * 4) := by
  unfold U32 at h
  unfold Kernels.block_header_size_pad
  simp only [Prod.mk.injEq, true_and]
  omega

/-! ## Index Padding, index_hash.c size rules — C13 -/

/-- `lzma_index_padding_size(i)` as a function of `i->record_count`, `i->index_list_size` -/
theorem index_padding_size_eq (listSize count : Nat) (h : listSize + 14 < U64) :
    Kernels.lzma_index_padding_size listSize count = Container.indexPaddingSize count listSize
    ∧ Kernels.lzma_index_padding_size listSize count = Index.indexPadding count listSize := by
  unfold Kernels.lzma_index_padding_size Container.indexPaddingSize Index.indexPadding
  have e := index_size_unpadded_eq count listSize h
  have hl := index_size_unpadded_le count listSize h
  rw [← e.1, ← e.2]
  unfold U64 at h
  generalize Kernels.index_size_unpadded count listSize = u at *
  omega

/-- `lzma_index_hash_size` -/
theorem index_hash_size_eq (hst : Index.HashSt) (h : hst.listSize + 17 < U64) :
    Kernels.lzma_index_hash_size hst.count hst.listSize = hst.size := by
  unfold Kernels.lzma_index_hash_size Index.HashSt.size
  exact (index_size_eq _ _ h).2

/-- `hash_append` (the size bookkeeping of `lzma_index_hash_append`): the four running totals, as in the model's
    `HashSt.append`, as long as no 64-bit sum wraps (each total is checked against LZMA_VLI_MAX right afterwards). -/
theorem index_hash_append_sizes_eq (unp unc bsz cnt lsz usz : Nat)
    (h1 : bsz + unp + 3 < U64) (h2 : usz + unc < U64) (h3 : lsz + 18 < U64) (h4 : cnt + 1 < U64) :
    Kernels.index_hash_append_sizes bsz cnt lsz usz unc unp
      = (0, bsz + Index.vliCeil4 unp, cnt + 1, lsz + Index.vliSize unp + Index.vliSize unc, usz + unc) := by
  unfold U64 at *
  unfold Kernels.index_hash_append_sizes
  have hc := (vli_ceil4_eq unp (by unfold U64; omega)).2
  have hcl : Kernels.vli_ceil4 unp ≤ unp + 3 := by unfold Kernels.vli_ceil4; omega
  have ha := vli_size_le unp
  have hb := vli_size_le unc
  rw [← hc, ← vli_size_eq_index, ← vli_size_eq_index]
  generalize Kernels.vli_ceil4 unp = c at *
  generalize Kernels.lzma_vli_size unp = a at *
  generalize Kernels.lzma_vli_size unc = b at *
  simp only [Prod.mk.injEq, true_and]
  omega

/-- the limit test of `lzma_index_hash_append` after the totals were updated: LZMA_DATA_ERROR (9, encoded 10) exactly
    where the model's `HashSt.append` answers `dataError` -/
theorem index_hash_append_limits_eq (bsz cnt lsz usz : Nat) (h1 : bsz + lsz + 41 < U64) :
    Kernels.index_hash_append_limits bsz cnt lsz usz
      = if bsz > Index.VLI_MAX ∨ usz > Index.VLI_MAX ∨ Index.indexSize cnt lsz > Index.BACKWARD_SIZE_MAX
            ∨ Index.indexStreamSize bsz cnt lsz > Index.VLI_MAX then 10 else 0 := by
  unfold Kernels.index_hash_append_limits Index.VLI_MAX Index.BACKWARD_SIZE_MAX
  rw [(index_size_eq cnt lsz (by unfold U64 at *; omega)).2, (index_stream_size_eq bsz cnt lsz h1).2]
  simp only [or_assoc]

/-! ## LZ decoder dictionary allocation, LZ encoder buffer sizes (lz_decoder.c, lz_encoder.c) — C03, C09 -/

/-- `lzma_lz_decoder_init`: minimum dictionary, rounding to a multiple of 16, `alloc_size`: the C03 dictionary model
    (`LzDict.roundDictSize`, `LzDict.allocSize`) and the C09 allocation model (`Memusage.lzDictAllocSize`, which also
    counts the LZ_DICT_EXTRA bytes added in the `lzma_alloc` call), for every 32-bit dictionary size. -/
theorem lz_decoder_dict_alloc_eq (d : Nat) (h : d < U32) :
    Kernels.lz_decoder_dict_alloc d = (0, LzDict.roundDictSize d, LzDict.allocSize d)
    ∧ (Kernels.lz_decoder_dict_alloc d).2.2 + Memusage.thisBuild.lzDictExtra = Memusage.lzDictAllocSize Memusage.thisBuild d := by
  unfold U32 at h
  have e1 : Kernels.lz_decoder_dict_alloc d = (0, LzDict.roundDictSize d, LzDict.allocSize d) := by
    unfold Kernels.lz_decoder_dict_alloc LzDict.allocSize LzDict.roundDictSize
    dsimp only
    have hm : 4096 ≤ (if d < 4096 then 4096 else d) ∧ (if d < 4096 then 4096 else d) < 4294967296 := by split <;> omega
    generalize (if d < 4096 then 4096 else d) = m at *
    rw [if_neg (by omega)]
    simp only [Prod.mk.injEq, LzDict.LZ_DICT_REPEAT_MAX, true_and]
    omega
  refine ⟨e1, ?_⟩
  rw [e1]
  unfold LzDict.allocSize LzDict.roundDictSize Memusage.lzDictAllocSize Memusage.LZ_DICT_REPEAT_MAX
  simp only [LzDict.LZ_DICT_REPEAT_MAX]

/-- `comp_blk_size(coder)` of the threaded decoder: Compressed Data + Block Padding + Check, as `mtThreaded` has it -/
theorem comp_blk_size_eq (cs check : Nat) (h : cs + 67 < U64) (hc : check ≤ 15) :
    Kernels.comp_blk_size cs check = Container.ceil4 cs + Container.checkSize check := by
  unfold Kernels.comp_blk_size
  have h1 := (vli_ceil4_eq cs (by unfold U64 at *; omega)).1
  have h2 := check_size_le check hc
  rw [← h1, ← check_size_eq]
  have : Kernels.vli_ceil4 cs ≤ cs + 3 := by unfold Kernels.vli_ceil4; unfold U64 at h; omega
  unfold U64 at h
  omega

/-! ## xz: memory limit selection (src/xz/hardware.c, util.c) — C09 -/

/-- `hardware_memlimit_get(mode)` as a function of the mode and of the file-scope variables `memlimit_compress`,
    `memlimit_decompress` (MODE_COMPRESS = 0) -/
theorem hardware_memlimit_get_eq (mode mc md : Nat) :
    Kernels.hardware_memlimit_get mode mc md
      = XzAdjust.hardwareMemlimitGet (if mode = 0 then .compress else .decompress) mc md := by
  unfold Kernels.hardware_memlimit_get XzAdjust.hardwareMemlimitGet Memusage.UINT64_MAX
  by_cases h : mode = 0 <;> simp [h]

/-- `hardware_memlimit_mtenc_is_default()` and `hardware_memlimit_mtenc_get()` as functions of the file-scope variables
    `memlimit_compress`, `memlimit_decompress`, `memlimit_mt_default`, `threads_are_automatic` -/
theorem hardware_memlimit_mtenc_eq (c : XzAdjust.Config) :
    Kernels.hardware_memlimit_mtenc_is_default c.memlimitCompress c.threadsAuto = XzAdjust.mtencIsDefault c
    ∧ Kernels.hardware_memlimit_mtenc_get c.memlimitCompress c.memlimitDecompress c.memlimitMtDefault c.threadsAuto = XzAdjust.mtencGet c := by
  have h1 : Kernels.hardware_memlimit_mtenc_is_default c.memlimitCompress c.threadsAuto = XzAdjust.mtencIsDefault c := by
    unfold Kernels.hardware_memlimit_mtenc_is_default XzAdjust.mtencIsDefault
    cases c.threadsAuto <;> simp
  refine ⟨h1, ?_⟩
  unfold Kernels.hardware_memlimit_mtenc_get XzAdjust.mtencGet
  rw [h1]
  unfold Kernels.hardware_memlimit_get Memusage.UINT64_MAX
  simp

/-- `round_up_to_mib` -/
theorem round_up_to_mib_eq (n : Nat) (h : n < U64) : Kernels.round_up_to_mib n = (n + 1048575) / 1048576 := by
  unfold U64 at h
  unfold Kernels.round_up_to_mib
  split <;> omega

/-! ## The call sites of `index_file_size` meet the domain of `index_file_size_eq` (audit item S-8) -/

/-- what every accumulator reachable by `Container.indexAppend` satisfies: the List of Records is at most
    LZMA_BACKWARD_SIZE_MAX bytes (the last guard of `lzma_index_append`) -/
def AccOk (a : Container.IndexAcc) : Prop := a.listSize ≤ 17179869184

theorem accOk_init : AccOk {} := by unfold AccOk; decide

theorem container_indexSize_ge (count listSize : Nat) : listSize ≤ Container.indexSize count listSize := by
  unfold Container.indexSize Container.indexSizeUnpadded Container.ceil4; omega

theorem accOk_append (a a' : Container.IndexAcc) (u c : Nat) (h : Container.indexAppend a u c = .ok a') : AccOk a' := by
  unfold Container.indexAppend at h
  by_cases g1 : u < Container.UNPADDED_SIZE_MIN ∨ u > Container.UNPADDED_SIZE_MAX ∨ c > Vli.VLI_MAX
  · rw [if_pos g1] at h; simp at h
  · rw [if_neg g1] at h
    simp only at h
    by_cases g2 : a.uncompressedSum + c > Vli.VLI_MAX
    · rw [if_pos g2] at h; simp at h
    · rw [if_neg g2] at h
      by_cases g3 : Container.ceil4 a.unpaddedSum + u > Container.UNPADDED_SIZE_MAX
      · rw [if_pos g3] at h; simp at h
      · rw [if_neg g3] at h
        by_cases g4 : Container.indexFileSize 0 (Container.ceil4 a.unpaddedSum + u) (a.count + 1) (a.listSize + (Vli.vliSize u + Vli.vliSize c)) 0 = none
        · rw [if_pos g4] at h; simp at h
        · rw [if_neg g4] at h
          by_cases g5 : Container.indexSize (a.count + 1) (a.listSize + (Vli.vliSize u + Vli.vliSize c)) > Container.BACKWARD_SIZE_MAX
          · rw [if_pos g5] at h; simp at h
          · rw [if_neg g5] at h
            simp only [Except.ok.injEq] at h
            subst h
            unfold AccOk
            have := container_indexSize_ge (a.count + 1) (a.listSize + (Vli.vliSize u + Vli.vliSize c))
            unfold Container.BACKWARD_SIZE_MAX at g5
            simp only
            omega

/-- C02 model: the `index_file_size` call inside `lzma_index_append` (single Stream, no padding), once the preceding guard
    `compressed_base + unpadded_size ≤ UNPADDED_SIZE_MAX` has passed, is inside the domain of the bridge — so there the
    translated C function and the model agree unconditionally. -/
theorem index_file_size_at_container_append (a : Container.IndexAcc) (ha : AccOk a) (u c : Nat)
    (hg : Container.ceil4 a.unpaddedSum + u ≤ Container.UNPADDED_SIZE_MAX) :
    Kernels.index_file_size 0 (Container.ceil4 a.unpaddedSum + u) (a.count + 1) (a.listSize + (Vli.vliSize u + Vli.vliSize c)) 0
      = ofOpt (Container.indexFileSize 0 (Container.ceil4 a.unpaddedSum + u) (a.count + 1) (a.listSize + (Vli.vliSize u + Vli.vliSize c)) 0) := by
  unfold AccOk at ha
  unfold Container.UNPADDED_SIZE_MAX at hg
  have h1 := vli_size_le u
  have h2 := vli_size_le c
  rw [vli_size_eq_container] at h1 h2
  exact (index_file_size_eq 0 _ _ _ 0 (by unfold U64; omega) (by omega)).1

theorem listSize_pos_blocksSize (bs : List Index.Block) (hb : ∀ b ∈ bs, Index.UNPADDED_SIZE_MIN ≤ b.unpadded) :
    Index.listSize bs = 0 ∨ 8 ≤ Index.blocksSize bs := by
  cases bs with
  | nil => left; rfl
  | cons b r =>
    right
    have := hb b (by simp)
    unfold Index.UNPADDED_SIZE_MIN at this
    simp only [Index.blocksSize, List.map_cons, List.sum_cons, Index.vliCeil4]
    omega

/-- C13 specification: the `index_file_size` call of `lzma_index_append` on a VALID index (`Spec.Valid`: in particular
    the whole file is at most LZMA_VLI_MAX bytes), after the guard `blocksSize + unpadded ≤ UNPADDED_SIZE_MAX`, is inside
    the domain of the bridge: `compressed_base + stream_padding ≤ LZMA_VLI_MAX − 32` because the last Stream alone
    occupies at least 32 bytes, and the List of Records is far below 2^63. -/
theorem index_file_size_at_spec_append (front : Index.Index) (s : Index.StreamRec) (hv : Index.Spec.Valid (front ++ [s])) (u c : Nat)
    (hg : Index.blocksSize s.blocks + u ≤ Index.UNPADDED_SIZE_MAX) :
    Kernels.index_file_size (Index.Spec.rawFileSize front) (Index.blocksSize s.blocks + u) (s.blocks.length + 1)
        (Index.listSize s.blocks + (Index.vliSize u + Index.vliSize c)) s.padding
      = Index.indexFileSize (Index.Spec.rawFileSize front) (Index.blocksSize s.blocks + u) (s.blocks.length + 1)
        (Index.listSize s.blocks + (Index.vliSize u + Index.vliSize c)) s.padding := by
  have hf := hv.fileSize
  rw [Index.Spec.rawFileSize_append] at hf
  have hspan : Index.Spec.rawFileSize [s] = s.span := by simp [Index.Spec.rawFileSize]
  rw [hspan] at hf
  unfold Index.StreamRec.span Index.StreamRec.compressedSize Index.STREAM_HEADER_SIZE Index.VLI_MAX at hf
  have hge : Index.listSize s.blocks + 5 ≤ Index.indexSize s.blocks.length (Index.listSize s.blocks) := by
    unfold Index.indexSize Index.indexSizeUnpadded Index.vliCeil4; omega
  have hpos := listSize_pos_blocksSize s.blocks (fun b hb => (hv.blocks s (by simp) b hb).1)
  have h1 := vli_size_le u
  have h2 := vli_size_le c
  rw [vli_size_eq_index] at h1 h2
  unfold Index.UNPADDED_SIZE_MAX at hg
  exact (index_file_size_eq _ _ _ _ _ (by unfold U64; omega) (by omega)).2

end XzVerif.Kernels
