/-
  Bridges between the C kernels as the source has them TODAY (Gen/Kernels.lean, translated from the clang AST by
  tools/c2lean.py on every run, cross-checked against the compiled code in Gen/KernelsGrid.lean) and the hand-written
  `Nat` models the property theorems of C02 (Model/Container, Model/Vli), C09 (Model/Memusage, Model/Memlimit) and
  C13 (Model/IndexSpec) are stated over.  `Gen.Kernels.f args = Model.f args` for every argument in the stated range
  (the C types' ranges, or the documented domain where the model is written without wrap-around).
  A change to a kernel's arithmetic regenerates Gen/Kernels.lean and breaks the corresponding theorem here (stage P of
  C02 / C09 / C13); a behaviour-preserving rewrite of the C text regenerates it without breaking anything as long as
  `omega`/`simp`/`decide` still see through the new shape.
-/
import XzVerif.Gen.Kernels
import XzVerif.Gen.KernelsGrid
import XzVerif.Lemmas.Kernels
import XzVerif.Lemmas.C02Vli
import XzVerif.Model.Container
import XzVerif.Model.IndexSpec
import XzVerif.Model.Memusage
import XzVerif.Model.MemusageBuild
import XzVerif.Model.Memlimit
import XzVerif.Model.Lzma
import XzVerif.Gen.C16

namespace XzVerif.Kernels
open XzVerif XzVerif.Gen

/-- 2^64: `uint64_t` / `size_t` / `lzma_vli` values are `< U64`. -/
def U64 : Nat := 18446744073709551616
/-- 2^32 -/
def U32 : Nat := 4294967296
/-- how a `lzma_vli` that may be LZMA_VLI_UNKNOWN is passed to the models that use `Option Nat` -/
def optVli (v : Nat) : Option Nat := if v = 18446744073709551615 then none else some v
/-- how the models' `Option Nat` results (`none` = UINT64_MAX / LZMA_VLI_UNKNOWN) are returned by the C code -/
def ofOpt : Option Nat → Nat
  | none => 18446744073709551615
  | some v => v

/-- case split on every `if` (after expanding the `let`s), then linear arithmetic, with `simp_all` as a fallback -/
macro "kernel_fin" : tactic => `(tactic| first | omega | with_reducible rfl | (simp_all; done) | (simp_all; omega))
macro "kernel_arith" : tactic =>
  `(tactic| ((try dsimp only) <;> (repeat' (split <;> try dsimp only)) <;>
      first | kernel_fin | (simp_all; (repeat' split) <;> kernel_fin)))

/-! ## Variable-length integers and Index size arithmetic (vli_size.c, index.h, index.c) — C02, C13 -/

/-- `lzma_vli_size` is the model of C13 for every argument (the fuel 10 of the translated loop is never exhausted
    before the 32-bit counter could wrap). -/
theorem vli_size_eq_index (v : Nat) : Kernels.lzma_vli_size v = Index.vliSize v := by
  unfold Kernels.lzma_vli_size Index.vliSize Index.VLI_MAX
  split
  · rfl
  · exact KernelLemmas.vli_loop_eq_go 10 v 0 (by decide)

/-- `lzma_vli_size` is the model of C02 for every argument. -/
theorem vli_size_eq_container (v : Nat) : Kernels.lzma_vli_size v = Vli.vliSize v := by
  rw [vli_size_eq_index]
  unfold Index.vliSize Vli.vliSize Index.VLI_MAX Vli.VLI_MAX
  split
  · rfl
  · rename_i h
    have := KernelLemmas.go_eq_aux 8 v 0 10 (by simp; omega) (by decide)
    simpa using this

theorem vli_size_le (v : Nat) : Kernels.lzma_vli_size v ≤ 9 := by
  rw [vli_size_eq_container]; unfold Vli.vliSize; split
  · omega
  · exact Vli.vliSizeAux_le 8 v

/-- `vli_ceil4`: `(vli + 3) & ~3` is `(v + 3) / 4 * 4` whenever `v + 3` does not wrap (the assert of the C function
    demands `v ≤ UNPADDED_SIZE_MAX`). -/
theorem vli_ceil4_eq (v : Nat) (h : v + 3 < U64) :
    Kernels.vli_ceil4 v = Container.ceil4 v ∧ Kernels.vli_ceil4 v = Index.vliCeil4 v := by
  unfold Kernels.vli_ceil4 Container.ceil4 Index.vliCeil4
  unfold U64 at h
  rw [Nat.mod_eq_of_lt h]; exact ⟨rfl, rfl⟩

/-- `index_size_unpadded` (no wrap as long as the List of Records is not within 14 bytes of 2^64). -/
theorem index_size_unpadded_eq (count listSize : Nat) (h : listSize + 14 < U64) :
    Kernels.index_size_unpadded count listSize = Container.indexSizeUnpadded count listSize
    ∧ Kernels.index_size_unpadded count listSize = Index.indexSizeUnpadded count listSize := by
  unfold Kernels.index_size_unpadded Container.indexSizeUnpadded Index.indexSizeUnpadded
  rw [← vli_size_eq_container, ← vli_size_eq_index]
  have := vli_size_le count
  unfold U64 at h
  omega

theorem index_size_unpadded_le (count listSize : Nat) (h : listSize + 14 < U64) :
    Kernels.index_size_unpadded count listSize ≤ listSize + 14 := by
  rw [(index_size_unpadded_eq count listSize h).1]; unfold Container.indexSizeUnpadded
  rw [← vli_size_eq_container]; have := vli_size_le count; omega

/-- `index_size` -/
theorem index_size_eq (count listSize : Nat) (h : listSize + 17 < U64) :
    Kernels.index_size count listSize = Container.indexSize count listSize
    ∧ Kernels.index_size count listSize = Index.indexSize count listSize := by
  unfold Kernels.index_size Container.indexSize Index.indexSize Kernels.vli_ceil4 Container.ceil4 Index.vliCeil4
  unfold U64 at h
  have h1 := index_size_unpadded_eq count listSize (by unfold U64; omega)
  rw [← h1.1, ← h1.2]
  have := index_size_unpadded_le count listSize (by unfold U64; omega)
  omega

theorem index_size_le (count listSize : Nat) (h : listSize + 17 < U64) :
    Kernels.index_size count listSize ≤ listSize + 17 := by
  unfold Kernels.index_size Kernels.vli_ceil4
  have := index_size_unpadded_le count listSize (by unfold U64 at *; omega)
  unfold U64 at h
  omega

/-- `index_stream_size` -/
theorem index_stream_size_eq (blocksSize count listSize : Nat) (h : blocksSize + listSize + 41 < U64) :
    Kernels.index_stream_size blocksSize count listSize = Container.indexStreamSize blocksSize count listSize
    ∧ Kernels.index_stream_size blocksSize count listSize = Index.indexStreamSize blocksSize count listSize := by
  unfold Kernels.index_stream_size Container.indexStreamSize Index.indexStreamSize Container.STREAM_HEADER_SIZE Index.STREAM_HEADER_SIZE
  unfold U64 at h
  have h1 := index_size_eq count listSize (by unfold U64; omega)
  have h2 := index_size_le count listSize (by unfold U64; omega)
  rw [← h1.1, ← h1.2]
  omega

/-- `index_file_size` on the domain the models are written for: the first 64-bit sum does not wrap (in every state
    `lzma_index_append` / `lzma_index_stream_padding` / `lzma_index_cat` can reach, `compressed_base + stream_padding`
    is at most LZMA_VLI_MAX - 32 and `unpadded_sum ≤ UNPADDED_SIZE_MAX`) and neither does the second (the List of
    Records is far below 2^63 bytes: an Index above LZMA_BACKWARD_SIZE_MAX = 2^34 is refused right afterwards).
    The result LZMA_VLI_UNKNOWN is `none` in the C02 model. -/
theorem index_file_size_eq (cb us count listSize sp : Nat) (h1 : cb + sp + us + 27 < U64)
    (h3 : listSize + 17 ≤ 9223372036854775808) :
    Kernels.index_file_size cb us count listSize sp = ofOpt (Container.indexFileSize cb us count listSize sp)
    ∧ Kernels.index_file_size cb us count listSize sp = Index.indexFileSize cb us count listSize sp := by
  unfold U64 at h1
  have hc := vli_ceil4_eq us (by unfold U64; omega)
  have hi := index_size_eq count listSize (by unfold U64; omega)
  have hl := index_size_le count listSize (by unfold U64; omega)
  have hcl : Kernels.vli_ceil4 us ≤ us + 3 := by unfold Kernels.vli_ceil4; omega
  unfold Kernels.index_file_size Container.indexFileSize Index.indexFileSize Container.STREAM_HEADER_SIZE Index.STREAM_HEADER_SIZE
    Vli.VLI_MAX Index.VLI_MAX Index.VLI_UNKNOWN
  rw [← hc.1, ← hc.2, ← hi.1, ← hi.2]
  generalize Kernels.vli_ceil4 us = c at *
  generalize Kernels.index_size count listSize = s at *
  have e1 : (((cb + 24) % 18446744073709551616 + sp) % 18446744073709551616 + c) % 18446744073709551616 = cb + 2 * 12 + sp + c := by omega
  simp only [e1]
  by_cases hA : cb + 2 * 12 + sp + c > 9223372036854775807
  · simp [hA, ofOpt]
  · have e2 : (cb + 2 * 12 + sp + c + s) % 18446744073709551616 = cb + 2 * 12 + sp + c + s := by omega
    simp only [hA, if_false, e2]
    by_cases hB : cb + 2 * 12 + sp + c + s > 9223372036854775807
    · simp [hB, ofOpt]
    · simp [hB, ofOpt]

/-! ## Check sizes and Block sizes (check.c, block_util.c) — C02 -/

theorem check_sizes_table : Kernels.lzma_check_size_check_sizes = Container.checkSizes := by decide

/-- `lzma_check_size` for every `lzma_check` value (the enum is an `unsigned int`). -/
theorem check_size_eq (c : Nat) : Kernels.lzma_check_size c = Container.checkSize c := by
  unfold Kernels.lzma_check_size Container.checkSize Container.CHECK_ID_MAX Container.UINT32_MAX
  rw [check_sizes_table]

theorem check_size_le : ∀ c, c ≤ 15 → Kernels.lzma_check_size c ≤ 64 := by decide

/-- `lzma_block_unpadded_size(block)` as a function of the four members it reads (`block` non-NULL); the member
    `compressed_size` is LZMA_VLI_UNKNOWN = 2^64-1 exactly when the model's argument is `none`. -/
theorem block_unpadded_size_eq (check cs hs ver : Nat) (hcs : cs < U64) (hhs : hs < U32) :
    Kernels.lzma_block_unpadded_size check cs hs ver = Container.blockUnpaddedSize ver hs check (optVli cs) := by
  unfold U64 at hcs; unfold U32 at hhs
  unfold Kernels.lzma_block_unpadded_size Container.blockUnpaddedSize optVli
  rw [check_size_eq]
  have hc : check ≤ 15 → Container.checkSize check ≤ 64 := by rw [← check_size_eq]; exact check_size_le check
  generalize Container.checkSize check = k at *
  by_cases hu : cs = 18446744073709551615
  · subst hu
    simp only [Vli.vliIsValid, Container.BLOCK_HEADER_SIZE_MIN, Container.BLOCK_HEADER_SIZE_MAX, Container.CHECK_ID_MAX, Vli.VLI_UNKNOWN, if_true]
    kernel_arith
  · simp only [hu, if_false, Vli.vliIsValid, Container.BLOCK_HEADER_SIZE_MIN, Container.BLOCK_HEADER_SIZE_MAX, Container.CHECK_ID_MAX,
      Vli.VLI_MAX, Container.UNPADDED_SIZE_MAX]
    kernel_arith

/-- `lzma_block_total_size(block)` -/
theorem block_total_size_eq (check cs hs ver : Nat) (hcs : cs < U64) (hhs : hs < U32) :
    Kernels.lzma_block_total_size check cs hs ver = Container.blockTotalSize ver hs check (optVli cs) := by
  unfold Kernels.lzma_block_total_size Container.blockTotalSize
  rw [block_unpadded_size_eq check cs hs ver hcs hhs]
  have hb : Container.blockUnpaddedSize ver hs check (optVli cs) = 18446744073709551615
      ∨ Container.blockUnpaddedSize ver hs check (optVli cs) ≤ 9223372036854775804 := by
    unfold Container.blockUnpaddedSize Container.UNPADDED_SIZE_MAX Vli.VLI_UNKNOWN
    kernel_arith
  generalize Container.blockUnpaddedSize ver hs check (optVli cs) = u at *
  unfold Kernels.vli_ceil4 Container.ceil4 Vli.VLI_UNKNOWN
  kernel_arith

/-! ## Bound functions (block_buffer_encoder.c, stream_buffer_encoder.c) — C02, C09 -/

theorem c_csm : Container.COMPRESSED_SIZE_MAX = 9223372036854774716 ∧ Memusage.COMPRESSED_SIZE_MAX = 9223372036854774716 := by decide

theorem lzma2_bound_eq (n : Nat) (h : n < U64) :
    Kernels.lzma2_bound n = Container.lzma2Bound n ∧ Kernels.lzma2_bound n = Memusage.lzma2Bound n := by
  unfold U64 at h
  unfold Kernels.lzma2_bound Container.lzma2Bound Memusage.lzma2Bound
  rw [c_csm.1, c_csm.2]
  unfold Container.LZMA2_CHUNK_MAX Memusage.LZMA2_CHUNK_MAX Container.LZMA2_HEADER_UNCOMPRESSED Memusage.LZMA2_HEADER_UNCOMPRESSED
  constructor <;> kernel_arith

theorem lzma2_bound_le (n : Nat) : Kernels.lzma2_bound n ≤ 9223372036854774716 := by
  by_cases h : n < U64
  · rw [(lzma2_bound_eq n h).1]
    unfold Container.lzma2Bound
    rw [c_csm.1]
    unfold Container.LZMA2_CHUNK_MAX Container.LZMA2_HEADER_UNCOMPRESSED
    kernel_arith
  · unfold U64 at h
    unfold Kernels.lzma2_bound
    rw [if_pos (by omega)]; omega

theorem c_bounds : Container.BLOCK_HEADERS_BOUND = 92 ∧ Memusage.HEADERS_BOUND = 92 ∧ Container.STREAM_HEADERS_BOUND = 48
    ∧ Container.UINT64_MAX = 18446744073709551615 ∧ Vli.VLI_MAX = 9223372036854775807 := by decide

/-- `lzma_block_buffer_bound64` -/
theorem block_buffer_bound64_eq (n : Nat) (h : n < U64) :
    Kernels.lzma_block_buffer_bound64 n = Container.blockBufferBound64 n
    ∧ Kernels.lzma_block_buffer_bound64 n = Memusage.blockBufferBound64 n := by
  unfold Kernels.lzma_block_buffer_bound64 Container.blockBufferBound64 Memusage.blockBufferBound64
  rw [← (lzma2_bound_eq n h).1, ← (lzma2_bound_eq n h).2, c_bounds.1, c_bounds.2.1]
  have := lzma2_bound_le n
  generalize Kernels.lzma2_bound n = l at *
  constructor <;> kernel_arith

/-- `lzma_block_buffer_bound` (`size_t` is 64 bits in this build: the `#if SIZE_MAX < UINT64_MAX` branch is absent) -/
theorem block_buffer_bound_eq (n : Nat) (h : n < U64) : Kernels.lzma_block_buffer_bound n = Container.blockBufferBound n := by
  unfold Kernels.lzma_block_buffer_bound Container.blockBufferBound
  exact (block_buffer_bound64_eq n h).1

theorem block_buffer_bound64_le (n : Nat) : Kernels.lzma_block_buffer_bound64 n ≤ 9223372036854774716 + 92 := by
  unfold Kernels.lzma_block_buffer_bound64
  have := lzma2_bound_le n
  generalize Kernels.lzma2_bound n = l at *
  kernel_arith

/-- `lzma_stream_buffer_bound` -/
theorem stream_buffer_bound_eq (n : Nat) (h : n < U64) : Kernels.lzma_stream_buffer_bound n = Container.streamBufferBound n := by
  unfold Kernels.lzma_stream_buffer_bound Container.streamBufferBound
  rw [← block_buffer_bound_eq n h, c_bounds.2.2.1, c_bounds.2.2.2.1, c_bounds.2.2.2.2]
  have hb : Kernels.lzma_block_buffer_bound n ≤ 9223372036854774716 + 92 := block_buffer_bound64_le n
  generalize Kernels.lzma_block_buffer_bound n = b at *
  kernel_arith

/-! ## Stream Footer (stream_flags_common.h) — C02 -/

/-- `is_backward_size_valid(options)` as a function of `options->backward_size` -/
theorem is_backward_size_valid_eq (bs : Nat) : Kernels.is_backward_size_valid bs = Container.isBackwardSizeValid bs := by
  unfold Kernels.is_backward_size_valid Container.isBackwardSizeValid Container.BACKWARD_SIZE_MIN Container.BACKWARD_SIZE_MAX
  simp only [and_assoc, ge_iff_le]

end XzVerif.Kernels
