/-
  C06 — the LZMA1 / LZMA2 raw decoders as coders of the generic framework of Model/Coder.lean (the vocabulary of Props/C06.lean:
  `Coder`, `Run`, `runSliced`, `settled`), and the unrestricted link between sliced runs and the one-shot models `lzmaDecode` / `lzma2Decode`.
  Continuation of Props/C06Slice.lean (read its header first).

  `lzCoder kind` (Model/LzmaResumeCoder.lean): one `code` call on the offered input SLICE and the output capacity = `callR kind` on
  (consumed bytes ++ slice, produced + capacity); `Resp` = bytes consumed from the slice, bytes written by this call, return code.
  `Lemmas/LzmaResumeCoder.lean` shows that `Coder.runSliced (lzCoder kind)` is, piece by piece, the exact-window run `runSlicedX`
  (`runSliced_lzCoder_eq`: same state, return code, settledness, consumed count, remaining input, and `Run.out` — the concatenation of the
  per-call outputs — equals `RSt.output`).
-/
import XzVerif.Lemmas.LzmaResumeCoder
import XzVerif.Lemmas.LzmaResumeOneShotFull

namespace XzVerif.C06Slice
open XzVerif XzVerif.LzDict XzVerif.Lzma XzVerif.Lzma2 XzVerif.LzmaR

/-- **The LZMA2 decoder is slicing independent**, in the form of `C06.ofByteMachine_slicing_independent` /
    `C06.chunk_faithful_slicing_independent`: for every dictionary size, preset dictionary, input (valid or not), with or without
    LZMA_FINISH, and any two slicings `sl₁`, `sl₂` (lists of `(avail_in, avail_out)` pieces, zeros allowed, windows may shrink) that are
    fair (`settled`): same return code; and unless both runs ended with the chunk-overrun LZMA_DATA_ERROR (known finding
    C06:lzma2-chunk-overrun, ghost flag `overrun`), the same concatenated output and the same total consumed count. -/
theorem lzma2_coder_slicing_independent (dictSize : Nat) (preset input : List UInt8) (fin : Bool) (sl₁ sl₂ : List (Nat × Nat)) :
    let r₁ := Coder.runSliced (lzCoder .lzma2) fin sl₁ (Coder.Run.init (initLzma2R dictSize preset) input)
    let r₂ := Coder.runSliced (lzCoder .lzma2) fin sl₂ (Coder.Run.init (initLzma2R dictSize preset) input)
    r₁.settled = true → r₂.settled = true →
      r₁.ret = r₂.ret ∧ ((r₁.state.overrun = false ∨ r₂.state.overrun = false) → r₁.out = r₂.out ∧ r₁.consumed = r₂.consumed) :=
  lzma2Coder_slicing_independent dictSize preset input fin sl₁ sl₂

/-- **The LZMA1 decoder is slicing independent**, any configuration (valid `lc/lp/pb`; unknown or known uncompressed size; end marker
    allowed or not). The `overrun` flag is never set by this coder (`lzma1_overrun_false`), so for LZMA1 the second part is unconditional
    in substance. -/
theorem lzma1_coder_slicing_independent (props : Props) (hv : props.valid = true) (dictSize : Nat) (uncomp : Option Nat)
    (allowEopm : Bool) (preset input : List UInt8) (fin : Bool) (sl₁ sl₂ : List (Nat × Nat)) :
    let r₁ := Coder.runSliced (lzCoder .lzma1) fin sl₁ (Coder.Run.init (initLzma1R props dictSize uncomp allowEopm preset) input)
    let r₂ := Coder.runSliced (lzCoder .lzma1) fin sl₂ (Coder.Run.init (initLzma1R props dictSize uncomp allowEopm preset) input)
    r₁.settled = true → r₂.settled = true →
      r₁.ret = r₂.ret ∧ ((r₁.state.overrun = false ∨ r₂.state.overrun = false) → r₁.out = r₂.out ∧ r₁.consumed = r₂.consumed) :=
  lzma1Coder_slicing_independent props hv dictSize uncomp allowEopm preset input fin sl₁ sl₂

/-- **LZMA1: the resumable model called once with everything IS the one-shot model `Lzma.lzmaDecode`** — any output allowance (also the
    default `UNLIMITED`), any window size, any configuration; only `lc/lp/pb` valid. -/
theorem oneshot_lzma1_all (props : Props) (hv : props.valid = true) (dictSize : Nat) (uncomp : Option Nat) (allowEopm : Bool)
    (preset input : List UInt8) (outCap : Nat) :
    lzmaDecode props dictSize uncomp allowEopm input preset outCap =
      { ret := (callR .lzma1 (toBuf input) outCap (initLzma1R props dictSize uncomp allowEopm preset)).1,
        out := (callR .lzma1 (toBuf input) outCap (initLzma1R props dictSize uncomp allowEopm preset)).2.output,
        consumed := (callR .lzma1 (toBuf input) outCap (initLzma1R props dictSize uncomp allowEopm preset)).2.s.inPos } :=
  lzmaDecode_eq_callR props dictSize uncomp allowEopm preset input outCap hv

/-- … hence every settled exact-window run of the LZMA1 decoder returns what `lzmaDecode` returns for the whole input with any
    allowance above everything the run offered: status, output bytes, consumed count. -/
theorem lzma1_window_sliced_eq_oneshot_all (props : Props) (hv : props.valid = true) (dictSize : Nat) (uncomp : Option Nat)
    (allowEopm : Bool) (preset input : List UInt8) (sl : List (Nat × Nat))
    (hset : (runSlicedX .lzma1 input sl { r := initLzma1R props dictSize uncomp allowEopm preset }).settled = true)
    (Nstar : Nat) (hN : maxRoomX .lzma1 input sl { r := initLzma1R props dictSize uncomp allowEopm preset } < Nstar) :
    let X := runSlicedX .lzma1 input sl { r := initLzma1R props dictSize uncomp allowEopm preset }
    X.ret = (lzmaDecode props dictSize uncomp allowEopm input preset Nstar).ret
    ∧ X.r.output = (lzmaDecode props dictSize uncomp allowEopm input preset Nstar).out
    ∧ X.r.s.inPos = (lzmaDecode props dictSize uncomp allowEopm input preset Nstar).consumed := by
  intro X
  have e := xsliced_settled_eq_whole codeAbsorb_lzma1Q' codeWrap_lzma1Q' codeIdle_lzma1Q input
    (invW_initLzma1R (P := P1Q) props dictSize uncomp allowEopm preset hv (p1q_init props dictSize uncomp allowEopm preset))
    sl hset Nstar hN
  rw [oneshot_lzma1_all props hv dictSize uncomp allowEopm preset input Nstar]
  rcases e with h | h
  · exact ⟨h.1, normW_output h.2, normW_inPos h.2⟩
  · exfalso
    have h0 : (callR .lzma1 (toBuf input) Nstar (initLzma1R props dictSize uncomp allowEopm preset)).2.overrun = false :=
      lzma1_overrun_false _ _ _ rfl
    have := h.2.2.2
    rw [h0] at this
    cases this

/-- **LZMA2: the resumable model called once with everything IS the one-shot model `Lzma2.lzma2Decode`** (the model C03's correspondence
    ties to liblzma) — no hypothesis: any dictionary size, preset, input, output allowance (also the default `UNLIMITED`). -/
theorem oneshot_lzma2_all (dictSize : Nat) (preset input : List UInt8) (outCap : Nat) :
    lzma2Decode dictSize input preset outCap =
      { ret := (callR .lzma2 (toBuf input) outCap (initLzma2R dictSize preset)).1,
        out := (callR .lzma2 (toBuf input) outCap (initLzma2R dictSize preset)).2.output,
        consumed := (callR .lzma2 (toBuf input) outCap (initLzma2R dictSize preset)).2.s.inPos } :=
  lzma2Decode_eq_callR dictSize preset input outCap

/-- **LZMA2, the property as stated**: for every input byte string (valid or not), every way of slicing it into `lzma_code` calls
    `(avail_in, avail_out)` — empty slices, zero and one-byte capacities, shrinking windows included — whose run is settled, the status
    is that of the single call with the whole input and any larger output allowance (`lzma2Decode … Nstar`: LZMA_STREAM_END /
    LZMA_DATA_ERROR / LZMA_OK = needs more input); and unless the run raised the chunk-overrun LZMA_DATA_ERROR, so are the concatenated
    output and the total consumed count. -/
theorem lzma2_window_sliced_eq_oneshot_all (dictSize : Nat) (preset input : List UInt8) (sl : List (Nat × Nat))
    (hset : (runSlicedX .lzma2 input sl { r := initLzma2R dictSize preset }).settled = true)
    (Nstar : Nat) (hN : maxRoomX .lzma2 input sl { r := initLzma2R dictSize preset } < Nstar) :
    let X := runSlicedX .lzma2 input sl { r := initLzma2R dictSize preset }
    X.ret = (lzma2Decode dictSize input preset Nstar).ret
    ∧ (X.r.overrun = false →
        X.r.output = (lzma2Decode dictSize input preset Nstar).out ∧ X.r.s.inPos = (lzma2Decode dictSize input preset Nstar).consumed) := by
  intro X
  have e := xsliced_settled_eq_whole lzma2_call_absorbs' lzma2_call_wraps lzma2_call_idle' input
    (invW_initLzma2R (P := P2') dictSize preset (p2'_init dictSize preset)) sl hset Nstar hN
  rw [oneshot_lzma2_all dictSize preset input Nstar]
  refine ⟨?_, ?_⟩
  · rcases e with h | h
    · exact h.1
    · exact h.1.trans h.2.1.symm
  · intro hno
    rcases e with h | h
    · exact ⟨normW_output h.2, normW_inPos h.2⟩
    · have := h.2.2.1; rw [show X.r.overrun = false from hno] at this; cases this

end XzVerif.C06Slice
