/-
  C01 — compression is lossless for every input and every accepted configuration.
  Only property theorems and non-vacuity examples live here; the lemmas are in Lemmas/RangeCoder*.lean.
-/
import XzVerif.Lemmas.RangeCoderAdaptive
import XzVerif.Lemmas.LzmaChunk
import XzVerif.Lemmas.RangeCoderRename
import XzVerif.Lemmas.Lzma1ExecFinal
import XzVerif.Lemmas.Lzma1EncLimit
import XzVerif.Lemmas.Lzma2ExecTop
import XzVerif.Lemmas.E2EAccept3
import XzVerif.Model.Lzma2Enc
import XzVerif.Model.Lzma2
import XzVerif.Model.MfPos
import XzVerif.Gen.C01

namespace XzVerif.C01
open XzVerif.RangeDec XzVerif.RangeEnc XzVerif.RangeCoder XzVerif.Lzma XzVerif.LzmaEnc XzVerif.Lzma2Enc
open XzVerif.LzmaSymDec XzVerif.LzmaSpec XzVerif.LzmaSym XzVerif.MfPos

/-! ### bridges to the regenerated source (Gen/C01.lean is rewritten from /repo on every run) -/

/-- every `#define` the models rely on has the value the source has today -/
theorem gen_constants :
    Gen.C01.rcShiftBits = RC_SHIFT_BITS ∧ Gen.C01.rcTopValue = RC_TOP_VALUE ∧ Gen.C01.rcBitModelTotalBits = RC_BIT_MODEL_TOTAL_BITS ∧
    Gen.C01.rcBitModelTotal = RC_BIT_MODEL_TOTAL ∧ Gen.C01.rcMoveBits = RC_MOVE_BITS ∧ Gen.C01.rcSymbolsMax = RC_SYMBOLS_MAX ∧
    Gen.C01.lzma2ChunkMax = LZMA2_CHUNK_MAX ∧ Gen.C01.lzma2UncompressedMax = LZMA2_UNCOMPRESSED_MAX ∧
    Gen.C01.lzma2HeaderMax = LZMA2_HEADER_MAX ∧ Gen.C01.lzma2HeaderUncompressed = LZMA2_HEADER_UNCOMPRESSED ∧
    Gen.C01.opts = OPTS ∧ Gen.C01.loopInputMax = LOOP_INPUT_MAX ∧
    Gen.C01.matchLenMin = MATCH_LEN_MIN ∧ Gen.C01.matchLenMax = MATCH_LEN_MAX ∧ Gen.C01.lenLowSymbols = LEN_LOW_SYMBOLS ∧
    Gen.C01.lenMidSymbols = LEN_MID_SYMBOLS ∧ Gen.C01.lenHighSymbols = LEN_HIGH_SYMBOLS ∧ Gen.C01.distStates = DIST_STATES ∧
    Gen.C01.distSlotBits = DIST_SLOT_BITS ∧ Gen.C01.distModelStart = DIST_MODEL_START ∧ Gen.C01.distModelEnd = DIST_MODEL_END ∧
    Gen.C01.fullDistances = FULL_DISTANCES ∧ Gen.C01.alignBits = ALIGN_BITS ∧ Gen.C01.reps = REPS ∧ Gen.C01.states = STATES ∧
    Gen.C01.litStates = LIT_STATES ∧ Gen.C01.posStatesMax = POS_STATES_MAX ∧ Gen.C01.literalCoderSize = LITERAL_CODER_SIZE ∧
    Gen.C01.lclpMax = LZMA_LCLP_MAX ∧ Gen.C01.pbMax = LZMA_PB_MAX := by decide

/-- The encoder's chunk-closing limits as the source has them today (lzma2_encoder.c: `left = <target> - uncompressed_size`;
    lzma_encoder.c: `*out_pos + rc_pending(&coder->rc) >= <compLimit>`) are inside the range for which the chunker theorems
    hold: 273 < target ≤ LZMA2_UNCOMPRESSED_MAX (2^21), 5 < compLimit, compLimit + 60 ≤ LZMA2_CHUNK_MAX (2^16).
    A retune inside this range only regenerates Gen/C01.lean; a target above 2 MiB or a compressed limit without room for
    the last symbol breaks this bridge. -/
theorem gen_chunk_limits : ChunkLimits.Ok { target := Gen.C01.chunkTarget, compLimit := Gen.C01.chunkCompLimit } := by decide

/-- the state-update macros of lzma_common.h, on all 12 states -/
theorem gen_state_machine :
    Gen.C01.stateTable = (List.range 12).map (fun s =>
      (updateLiteral s, updateMatch s, updateLongRep s, updateShortRep s, (if isLiteralState s then 1 else 0),
       (if isLiteralState s then updateLiteralNormal s else updateLiteralMatched s))) := by decide

/-- `get_dist_state(len)` for every length 2..273 -/
theorem gen_dist_state : Gen.C01.distStateTable = (List.range 272).map (fun i => getDistState (i + 2)) := by decide +kernel

/-- `get_dist_slot` (table version of fastpos.h) = the closed form of the model, on 0..1023 and around every power of two -/
theorem gen_dist_slot :
    Gen.C01.distSlot0 ++ Gen.C01.distSlot1 ++ Gen.C01.distSlot2 ++ Gen.C01.distSlot3 = (List.range 1024).map getDistSlot ∧
    Gen.C01.distSlotGrid.all (fun x => getDistSlot x.1 == x.2) = true := by decide +kernel

/-- `literal_mask_calc` and `literal_subcoder` for every valid lc/lp on a grid of positions and previous bytes -/
theorem gen_literal_subcoder :
    Gen.C01.literalMaskTable.all (fun x => literalMask x.1 x.2.1 == x.2.2) = true ∧
    Gen.C01.literalSubcoderGrid.all (fun x => literalSubcoder x.1 x.2.1 x.2.2.1 x.2.2.2.1 == x.2.2.2.2) = true := by decide +kernel

/-- the probability update expressions of `rc_encode`, for every value 0..2047 -/
theorem gen_prob_update :
    Gen.C01.probUpd0 ++ Gen.C01.probUpd1 ++ Gen.C01.probUpd2 ++ Gen.C01.probUpd3 ++ Gen.C01.probUpd4 ++ Gen.C01.probUpd5
      ++ Gen.C01.probUpd6 ++ Gen.C01.probUpd7 = (List.range 2048).map (fun p => (probUpdate0 p, probUpdate1 p)) := by decide +kernel

/-- the REAL `rc_shift_low`, run on boundary states (`low` around 0xFF000000 and 2^32, `cache` around 0xFF, several
    `cache_size`), does what the model's `shiftLow` does: new low, cache, cache_size and the bytes written -/
theorem gen_shift_low :
    Gen.C01.shiftLowGrid.all (fun x =>
      let e := shiftLow { low := x.1, cache := x.2.1, cacheSize := x.2.2.1, range := 0, outTotal := 0, outRev := [] }
      e.low == x.2.2.2.1 && e.cache == x.2.2.2.2.1 && e.cacheSize == x.2.2.2.2.2.1
        && e.out.map UInt8.toNat == x.2.2.2.2.2.2 && e.outTotal == x.2.2.2.2.2.2.length) = true := by decide +kernel

/-- THE range-coder round trip. For every operation list (probability bits in arbitrary contexts with adaptive
    probabilities, and direct bits) the bytes produced by the C-style encoder (`rc_shift_low` with `cache`/`cache_size`
    carry propagation, normalisation before every symbol and before the flush, five flush shifts), followed by ANY bytes
    `tail`, are decoded by the decoder cores of `Model/RangeDec.lean` (`rc_read_init`, `rc_normalize`, `rc_bit`, the
    wrap-around `rc_direct`) into exactly the encoded bits; both sides end with the same probabilities; after the last
    bit `rc_normalize` + `rc_is_finished` succeeds (`code = 0`) and exactly `tail` is left unread.
    Hypothesis: every probability variable is in `[31, 2017]` (`ProbInv`, an invariant of the update rule starting from
    1024) and every context index exists. -/
theorem rc_roundtrip (ps : Probs) (ops : List Op) (tail : List UInt8) (h : ProbsOk ps ops) :
    rcDecode ps (ops.map Op.shape) ((rcEncode ps ops).1 ++ tail)
      = some (ops.map Op.value, (rcEncode ps ops).2, tail) := by
  have hres := encOps_resolve ops ps Enc.init
  have hok := resolve_ok ops ps h
  obtain ⟨rc, rest, hinit, hs, _⟩ := sync_init hok tail
  obtain ⟨rc', rest', hdec, hs'⟩ := decodeShapes_sync ops ps Enc.init h inv_init tail rc rest hs
  obtain ⟨rc'', hnorm, hcode⟩ := sync_end (encROps_inv _ hok Enc.init inv_init) hs'
  have henc : (rcEncode ps ops).1 = (finish Enc.init (resolve ps ops).1).out := by
    simp only [rcEncode, hres, finish]
  have hps : (rcEncode ps ops).2 = (resolve ps ops).2 := by simp only [rcEncode, hres]
  rw [henc, hps]
  simp only [rcDecode, hinit, hdec, hnorm, hcode, if_true]

/-- The first byte of every range-coded stream is 0x00 (MicroLZMA overwrites it with `~props`; the decoders insist on it). -/
theorem rc_first_byte_zero (ps : Probs) (ops : List Op) (h : ProbsOk ps ops) :
    (rcEncode ps ops).1.head? = some 0 := by
  have hres := encOps_resolve ops ps Enc.init
  obtain ⟨_, _, _, _, hhead⟩ := sync_init (resolve_ok ops ps h) []
  have henc : (rcEncode ps ops).1 = (finish Enc.init (resolve ps ops).1).out := by
    simp only [rcEncode, hres, finish]
  rw [henc]; exact hhead

/-- Probabilities never leave `[31, 2017]`: the hypothesis of `rc_roundtrip` is an invariant of encoding. -/
theorem rc_probs_invariant (ps : Probs) (ops : List Op) (h : ProbsOk ps ops) :
    ∀ i, i < (rcEncode ps ops).2.size → ProbInv ((rcEncode ps ops).2.getD i 0) := by
  have hres := encOps_resolve ops ps Enc.init
  have hps : (rcEncode ps ops).2 = (resolve ps ops).2 := by simp only [rcEncode, hres]
  rw [hps]; exact resolve_probsOk ops ps h

/-- The central lemma of the carry logic: one `rc_shift_low` multiplies the number denoted by
    (written bytes, cache, pending 0xFF bytes, low) by exactly 256, as long as a carry never meets `cache = 0xFF`;
    the interval invariant `low + range ≤ 2^32 + (if cache = 0xFF then 0 else 2^32)` guarantees that and is preserved. -/
theorem rc_shift_low_exact (e : Enc) (h : Inv e) :
    V (shiftLow e) = 256 * V e ∧ T (shiftLow e) = T e + 1 :=
  ⟨(shiftLow_spec h.inv0).1, (shiftLow_spec h.inv0).2.1⟩

/-- The output has exactly one byte per shift: 5 + the number of normalisations, and it denotes the committed number. -/
theorem rc_flush_exact (e : Enc) (h : Inv e) :
    numLE (encFlush e).outRev = V (normalize e) ∧ (encFlush e).outRev.length = T (normalize e) + 4 :=
  ⟨(encFlush_spec h).1, (encFlush_spec h).2.1⟩


/-- The bytes of the range encoder depend on the probability contexts only up to an injective renaming that respects the
    current probability values. This is why two observed quirks are harmless: after an uncompressed LZMA2 chunk the C
    encoder's `position` lags behind the true offset by `mf->read_ahead`, and with a preset dictionary the C decoder counts
    positions from its dictionary position; a constant position shift renames the pos_state / literal-position contexts
    injectively, and after a state reset all probabilities are equal. (That `encode_symbol` at a shifted position is such a
    renaming is checked by the correspondence, not proved.) -/
theorem rc_context_renaming (f : Nat → Nat) (hinj : ∀ a b, f a = f b → a = b) (ops : List Op) (ps1 ps2 : Probs)
    (hr : Renamed f ps1 ps2) (hc : ∀ op ∈ ops, Op.ctxOk ps1.size op = true) :
    (rcEncode ps2 (ops.map (opRename f))).1 = (rcEncode ps1 ops).1 :=
  rcEncode_rename f hinj ops ps1 ps2 hr hc

/-- `out_total` (used by the LZMA2 chunk-size rule and by the output-size limit) is the number of bytes written. -/
theorem rc_out_total (e : Enc) (h : OutOk e) (hcs : 1 ≤ e.cacheSize) : OutOk (shiftLow e) ∧ OutOk (normalize e) :=
  ⟨outOk_shiftLow h hcs, outOk_normalize h hcs⟩

/-! ### symbol coder, LZMA1 streams, LZMA2 chunks -/

/-- The parser's contract is, by definition, that the LZ77 expansion of the symbols over the history is the data. -/
theorem expand_of_describes (dictSize : Nat) (hist data : List UInt8) (s : SymSt) (syms : List Sym)
    (h : Describes dictSize hist s syms data) :
    (lzExpand dictSize syms s hist.reverse).map (fun rb => (rb.reverse).drop hist.length) = some data := by
  unfold Describes at h
  rw [h]; simp [List.reverse_append]

/-- One symbol: the specification decoder, run against the operations `encode_symbol` queues, asks for exactly the same
    probability contexts in the same order (otherwise `runOps` is `none`) and returns the symbol and the same state/reps.
    Covers literal / matched literal (all 8 steps of the offset logic), match (length low/mid/high, distance slot, reverse
    bittree footer, direct bits + align; every distance < 2^32 incl. the end marker), rep0..rep3, short rep. -/
theorem symbol_roundtrip (p : Props) (s : SymSt) (pos prev mb : Nat) (sym : Sym) (hv : ValidSym sym) (rest : List Op) :
    (decodeSym p s pos prev mb).runOps ((symOps p s pos prev mb sym).1 ++ rest)
      = some ((sym, (symOps p s pos prev mb sym).2), rest) :=
  decodeSym_ops p s pos prev mb sym hv rest

/-- Symbol sequences: decoding the operations of a valid sequence followed by the end marker gives the expanded window
    and consumes exactly those operations. -/
theorem symbols_roundtrip (p : Props) (dictSize : Nat) (hd : dictSize ≤ 4294967295) (syms : List Sym) (pos : Nat) (s : SymSt)
    (rb : List UInt8) (ops : List Op) (pos' : Nat) (s' : SymSt) (rb' : List UInt8) (rest : List Op)
    (h : encSyms p dictSize syms pos s rb = some (ops, pos', s', rb')) :
    (decLoop p dictSize (syms.length + 1) pos s rb).runOps (ops ++ eopmOps p s' pos' ++ rest) = some (rb', rest) :=
  decLoop_ops p dictSize hd syms (syms.length + 1) pos s rb ops pos' s' rb' rest h (by omega)

/-- LZMA1 (raw stream with end marker, also the payload of .lzma): for every lc/lp/pb accepted by `is_lclppb_valid`, every
    dictionary size, every history (preset dictionary) and EVERY valid description `syms` of `data` — whatever the parser
    chose — the bytes of symbol coder + C-style range encoder start with 0x00 and are decoded by the specification decoder
    (grammar of lzma_decoder.c over the range decoder cores of the decoder model) to exactly `data`, with a finished range
    decoder and the following bytes untouched. -/
theorem lzma1_roundtrip (p : Props) (hp : PropsOk p) (dictSize : Nat) (hd : dictSize ≤ 4294967295)
    (hist data : List UInt8) (syms : List Sym) (hdesc : Describes dictSize hist {} syms data) :
    ∃ bytes, lzma1EncodeSpec p dictSize hist syms = some bytes ∧ bytes.head? = some 0 ∧
      ∀ tail, lzma1DecodeSpec p dictSize hist (syms.length + 1) (bytes ++ tail) = some (data, tail) :=
  lzma1_spec_roundtrip p hp dictSize hd hist data syms hdesc

/-- LZMA2, the chunk step (`lzma2_roundtrip_partial`): a chunk's payload (fresh range coder, NO end marker), coded from ANY
    shared probabilities / state / window — so also after chunks without state reset — is decoded by size to the same
    window, and both sides end with the same probabilities, position, state and rep registers, ready for the next chunk. -/
theorem lzma2_chunk_roundtrip (p : Props) (hp : PropsOk p) (dictSize : Nat) (hd : dictSize ≤ 4294967295)
    (ps : Probs) (hps : PsOk p ps) (syms : List Sym) (pos : Nat) (s : SymSt) (hs : s.state < 12) (rb rb' : List UInt8)
    (hexp : lzExpand dictSize syms s rb = some rb') :
    ∃ ops pos' s', encSyms p dictSize syms pos s rb = some (ops, pos', s', rb') ∧ s'.state < 12 ∧
      PsOk p (encOps ps Enc.init ops).1 ∧
      ((encFlush (encOps ps Enc.init ops).2).out).head? = some 0 ∧
      ∀ tail, ∃ rc rest rc' rest' rc'',
        readInit ((encFlush (encOps ps Enc.init ops).2).out ++ tail) = .ok rc rest ∧
        (decBytes p dictSize (syms.length + 1) (symsLen syms) pos s rb).runRc ps rc rest
          = some ((pos', s', rb'), (encOps ps Enc.init ops).1, rc', rest') ∧
        normalizeL rc' rest' = some (rc'', tail) ∧ rc''.code = 0 :=
  lzma_chunk_roundtrip p hp dictSize hd ps hps syms pos s hs rb rb' hexp

/-- LZMA2, full strength. The EXECUTABLE chunker `Lzma2Enc.lzma2Encode` (chunk limits, uncompressed fallback incl. the
    bytes the match finder had read ahead, `lzma2_header_lzma` / `lzma2_header_uncompressed`, need_properties /
    need_state_reset / need_dictionary_reset, flush points, end marker; the encoder's `position` lagging behind after an
    uncompressed chunk) followed by the EXECUTABLE decoder `Lzma2.lzma2Decode` (Model/Lzma2.lean over Model/Lzma.lean:
    SEQ_CONTROL … SEQ_COPY, dictionary reset through the LZ layer, `dict_write`, `lzma_decode` with known chunk sizes,
    dictionary wrap-around in the middle of chunks, the compressed-size accounting) returns LZMA_STREAM_END, exactly the
    data, and has consumed exactly the stream — for ALL chunk-closing limits `lim` (the encoder-side uncompressed target and
    compressed limit, read from the source on every run: `Gen.C01.chunkTarget`, `Gen.C01.chunkCompLimit`; retuning them
    regenerates, it does not touch this theorem), for every trace the chunker accepts, i.e. for EVERY chunking it can
    produce (any mix of LZMA and uncompressed chunks, with and without state resets, with or without preset dictionary).
    The position lag and the decoder's different position origin are handled by the context renaming `ctxMap`
    (`Lemmas/LzmaCtxMap.lean`, through `rc_context_renaming`'s lemma `rcEncode_rename`), as is the different index order of
    `rc_bittree_rev4` in the decoder. -/
theorem lzma2_roundtrip (lim : ChunkLimits) (p : Props) (hp : PropsOk p) (dictSize : Nat) (hd : dictSize ≤ 4294967295)
    (preset data : ByteArray) (trace : Array TraceRec) (res : EncResult)
    (h : lzma2EncodeL lim p dictSize (preset ++ data) preset.size trace = .ok res) (outCap : Nat) (hcap : data.size < outCap) :
    Lzma2.lzma2Decode dictSize res.out preset.toList outCap =
      { ret := .streamEnd, out := data.toList, consumed := res.out.length } :=
  LzmaExec.lzma2_exec_roundtripL lim p hp dictSize hd preset data trace res h outCap hcap

/-- `lzma2_roundtrip` for the limits of xz 5.8.1 (`lzma2Encode` = `lzma2EncodeL ChunkLimits.std`, by `rfl`): the form the
    end-to-end theorems (Props/C01EndToEnd*.lean) use. -/
theorem lzma2_roundtrip_std (p : Props) (hp : PropsOk p) (dictSize : Nat) (hd : dictSize ≤ 4294967295) (preset data : ByteArray)
    (trace : Array TraceRec) (res : EncResult)
    (h : lzma2Encode p dictSize (preset ++ data) preset.size trace = .ok res) (outCap : Nat) (hcap : data.size < outCap) :
    Lzma2.lzma2Decode dictSize res.out preset.toList outCap =
      { ret := .streamEnd, out := data.toList, consumed := res.out.length } :=
  LzmaExec.lzma2_exec_roundtrip p hp dictSize hd preset data trace res h outCap hcap

/-- The chunk-closing limits are encoder-side tuning: for all limits that are `ChunkLimits.Ok` (uncompressed target above a
    maximal match and at most LZMA2_UNCOMPRESSED_MAX = 2^21; compressed limit leaving room for one more symbol + flush below
    LZMA2_CHUNK_MAX = 2^16) the chunker ACCEPTS every valid stateless trace of every input, i.e. it never trips over its own
    size checks (the assertions of `lzma2_header_lzma` / `lzma2_header_uncompressed`). -/
theorem lzma2_chunker_total (lim : ChunkLimits) (hlim : lim.Ok) (p : Props) (d : Nat) (buf : ByteArray) (tr : Array TraceRec)
    (h : LzmaExec.TraceOk d buf tr) : ∃ res, lzma2EncodeL lim p d buf 0 tr = .ok res :=
  LzmaExec.lzma2EncodeL_total lim hlim p d buf tr h

/-- The chunker's output is a valid LZMA2 stream in the sense of the chunk specification `LzmaExec.ChunkOk` (every LZMA
    chunk: header for the current flags and the true sizes + `rc_reset`, the operations of a valid description from the
    encoder's current state — fresh after a state reset —, `rc_flush`; every uncompressed chunk: header + raw bytes), the
    chunks cover exactly the data, then 0x00. -/
theorem lzma2_model_chunks (lim : ChunkLimits) (p : Props) (dictSize : Nat) (buf : ByteArray) (base : Nat)
    (trace : Array TraceRec) (res : EncResult) (hbase : base ≤ buf.size)
    (h : lzma2EncodeL lim p dictSize buf base trace = .ok res) :
    ∃ bytes CF, LzmaExec.Chunks p dictSize buf base (LzmaExec.cfg0 p base) bytes CF ∧ CF.off = buf.size - base ∧
      res.out = bytes ++ [0] :=
  LzmaExec.lzma2EncodeL_sound lim p dictSize buf base trace res hbase h

/-- The executable LZMA2 decoder accepts EVERY stream that satisfies the chunk specification (not only the encoder's). -/
theorem lzma2_decoder_model_roundtrip (p : Props) (hp : PropsOk p) (dictSize : Nat) (hd : dictSize ≤ 4294967295)
    (buf : ByteArray) (base : Nat) (hbase : base ≤ buf.size) (bytes : List UInt8) (CF : LzmaExec.L2Cfg)
    (hch : LzmaExec.Chunks p dictSize buf base (LzmaExec.cfg0 p base) bytes CF) (hoff : CF.off = buf.size - base)
    (outCap : Nat) (hcap : buf.size - base < outCap) :
    Lzma2.lzma2Decode dictSize (bytes ++ [0]) ((LzmaExec.hl buf).take base) outCap =
      { ret := .streamEnd, out := (LzmaExec.hl buf).drop base, consumed := bytes.length + 1 } :=
  LzmaExec.lzma2Decode_of_chunks p hp dictSize hd buf base hbase bytes CF hch hoff outCap hcap

/-- The EXECUTABLE LZMA1 encoder model (`LzmaEnc.lzma1Encode`: the function the driver runs over the H2 trace and whose
    bytes are compared with the C encoder's on every check) refines the specification encoder: whenever it accepts a
    trace, the symbols of the trace (first literal of `encode_init` included) are a valid description of the data over
    the preset dictionary, and its output is exactly `lzma1EncodeSpec` of these symbols — the function on which
    `lzma1_roundtrip` is stated. (No output limit, end marker used; `dict_size` is a `uint32_t`.) -/
theorem lzma1_model_refines_spec (p : Props) (dictSize : Nat) (hd : dictSize ≤ 4294967295) (preset data : ByteArray)
    (trace : Array TraceRec) (res : EncResult)
    (h : lzma1Encode p dictSize true 0 (preset ++ data) preset.size trace = .ok res) :
    ∃ syms, Describes dictSize preset.toList {} syms data.toList ∧
      lzma1EncodeSpec p dictSize preset.toList syms = some res.out :=
  LzmaExec.lzma1_exec_refines p dictSize hd preset data trace res h

/-- The EXECUTABLE LZMA1 decoder model `Lzma.lzmaDecode` (Model/Lzma.lean: `lz_decode`/`decode_buffer` with dictionary
    wrap-around and pending output steps, `lzma_decode` with the resumable symbol loop, the real `rc_bittree_rev4`
    indexing of `pos_align`, `dict.pos`-based pos_state / literal contexts also behind a preset dictionary — the function
    that ./check C03 compares with the C decoder) agrees with the specification decoder on everything the specification
    encoder produces: for every lc/lp/pb accepted by `is_lclppb_valid`, every dictionary size, every preset dictionary
    `hist` and EVERY valid description `syms` of `data` — whatever the parser chose — decoding the encoder's bytes gives
    LZMA_STREAM_END, exactly `data`, and consumes exactly the stream (any output capacity larger than the data). -/
theorem lzma1_decoder_model_roundtrip (p : Props) (hp : PropsOk p) (dictSize : Nat) (hd : dictSize ≤ 4294967295)
    (hist data : List UInt8) (syms : List Sym) (hdesc : Describes dictSize hist {} syms data)
    (bytes : List UInt8) (hbytes : lzma1EncodeSpec p dictSize hist syms = some bytes) (outCap : Nat)
    (hcap : data.length < outCap) :
    Lzma.lzmaDecode p dictSize none true bytes hist outCap = { ret := .streamEnd, out := data, consumed := bytes.length } :=
  LzmaExec.lzmaDecode_spec_bytes p hp dictSize hd hist data syms hdesc bytes hbytes outCap hcap

/-- Executable encoder model, then executable decoder model (the composition the driver ops `lzma1` + `dec1` run on every
    traced case): the data comes back, LZMA_STREAM_END, every byte of the stream consumed. -/
theorem lzma1_model_roundtrip (p : Props) (hp : PropsOk p) (dictSize : Nat) (hd : dictSize ≤ 4294967295)
    (preset data : ByteArray) (trace : Array TraceRec) (res : EncResult)
    (h : lzma1Encode p dictSize true 0 (preset ++ data) preset.size trace = .ok res) (outCap : Nat)
    (hcap : data.size < outCap) :
    Lzma.lzmaDecode p dictSize none true res.out preset.toList outCap =
      { ret := .streamEnd, out := data.toList, consumed := res.out.length } :=
  LzmaExec.lzma1_exec_roundtrip p hp dictSize hd preset data trace res h outCap hcap

/-- non-vacuity of the hypotheses: the executable encoder accepts a (tiny) trace -/
example : (lzma1Encode { lc := 0, lp := 0, pb := 0 } 4096 true 0 (ByteArray.mk #[97]) 0 #[]).toOption.map (·.consumed) = some 1 := by
  decide +kernel

/-- MicroLZMA (`lzma_microlzma_encoder`: output-size limit, no end marker). Whenever the executable encoder model — the
    one the driver compares with the C encoder byte for byte, incl. the decision of `rc_encode_dummy` for every symbol —
    accepts a trace with an output limit of at least 6 bytes (what `set_out_limit` requires):
    * the output is at most `limit` bytes long,
    * the reported `consumed` is at most the data size, and
    * the executable LZMA1 decoder model, given the output, the preset dictionary, `consumed` as the known uncompressed
      size and no end marker, returns LZMA_STREAM_END with exactly the first `consumed` bytes of the data, having read
      every output byte. -/
theorem outlimit_prefix (p : Props) (hp : PropsOk p) (dictSize : Nat) (hd : dictSize ≤ 4294967295) (limit : Nat)
    (hlim : 6 ≤ limit) (preset data : ByteArray) (trace : Array TraceRec) (res : EncResult)
    (h : lzma1Encode p dictSize false limit (preset ++ data) preset.size trace = .ok res) (outCap : Nat)
    (hcap : res.consumed < outCap) :
    res.out.length ≤ limit ∧ res.consumed ≤ data.size ∧
    Lzma.lzmaDecode p dictSize (some res.consumed) false res.out preset.toList outCap =
      { ret := .streamEnd, out := data.toList.take res.consumed, consumed := res.out.length } := by
  have hsz : (preset ++ data).size = preset.size + data.size := ByteArray.size_append
  have h2 := LzmaExec.micro_exec_prefix p hp dictSize hd limit (by omega) preset data trace res h outCap hcap
  exact ⟨LzmaExec.lzma1Encode_limit_fits p hp dictSize hd limit hlim (preset ++ data) preset.size trace res (by omega) h,
    h2.1, h2.2⟩

/-- non-vacuity: the executable encoder accepts a (tiny) trace with an output limit -/
example : (lzma1Encode { lc := 0, lp := 0, pb := 0 } 4096 false 6 (ByteArray.mk #[97]) 0 #[]).toOption.map
    (fun r => (r.consumed, r.out.length)) = some (1, 6) := by
  decide +kernel

/-! ### match-finder position arithmetic (lz_encoder_mf.c `normalize`, lz_encoder.c `move_window`) -/

/-- `normalize()` runs at `pos = UINT32_MAX`. Entries within the cyclic window keep their distance to the new position
    (`cyclic_size`), older entries become EMPTY, the new `offset` gives the new position, and EMPTY (0) is never a usable
    candidate at any position ≥ `cyclic_size` (positions start at `cyclic_size` and restart there after `normalize`). -/
theorem mf_normalize_sound (c h readPos offset : Nat) (hc1 : 0 < c) (hc2 : c < 2147483648)
    (hh : h < MUST_NORMALIZE_POS) (hr : readPos < MfPos.U32) (ho : offset < MfPos.U32)
    (hpos : posOf readPos offset = MUST_NORMALIZE_POS) :
    posOf readPos (normOffset c offset) = c ∧
    (MUST_NORMALIZE_POS - h < c → normEntry c h ≠ EMPTY_HASH_VALUE ∧ c - normEntry c h = MUST_NORMALIZE_POS - h
                                    ∧ usable c c (normEntry c h) = true) ∧
    (c ≤ MUST_NORMALIZE_POS - h → normEntry c h = EMPTY_HASH_VALUE) ∧
    (∀ pos, c ≤ pos → pos < MfPos.U32 → usable c pos EMPTY_HASH_VALUE = false) := by
  unfold posOf at hpos
  refine ⟨?_, ?_, ?_, ?_⟩
  · simp only [posOf, normOffset, subvalue, MfPos.U32, MUST_NORMALIZE_POS] at *; omega
  · intro hd
    simp only [normEntry, subvalue, usable, MfPos.U32, MUST_NORMALIZE_POS, EMPTY_HASH_VALUE] at *
    have : ¬ h ≤ 4294967295 - c := by omega
    simp only [this, if_false]
    refine ⟨by omega, by omega, ?_⟩
    simp only [decide_eq_true_eq]; omega
  · intro hd
    simp only [normEntry, subvalue, MfPos.U32, MUST_NORMALIZE_POS, EMPTY_HASH_VALUE] at *
    have : h ≤ 4294967295 - c := by omega
    simp [this]
  · intro pos hp1 hp2
    simp only [usable, MfPos.U32, EMPTY_HASH_VALUE, decide_eq_false_iff_not] at *; omega

/-- `move_window` keeps `keep_size_before` bytes of history, moves by a multiple of 16 and leaves `read_pos + offset`
    (all match-finder positions) unchanged. -/
theorem mf_window_sound (readPos keepBefore offset : Nat) (h : keepBefore < readPos) :
    let mo := moveOffset readPos keepBefore
    mo % 16 = 0 ∧ mo ≤ readPos - keepBefore ∧ keepBefore ≤ readPos - mo ∧ (readPos - mo) + (offset + mo) = readPos + offset := by
  simp only [moveOffset]; omega

/-! non-vacuity: a concrete op list with repeated contexts (adaptation), direct bits, and a carry-prone run of 1-bits -/

def exOps : List Op :=
  [.bit 0 true, .bit 0 true, .bit 1 false, .direct true, .direct true, .direct false, .bit 0 true, .bit 2 true,
   .direct true, .direct true, .direct true, .direct true, .direct true, .direct true, .direct true, .direct true,
   .direct true, .direct true, .direct true, .direct true, .direct true, .direct true, .direct true, .direct true,
   .direct true, .direct true, .direct true, .direct true, .direct true, .direct true, .direct true, .direct true,
   .bit 1 true, .bit 0 false]

def exProbs : Probs := Array.replicate 3 1024

example : ProbsOk exProbs exOps := by
  refine ⟨fun i hi => ?_, by decide⟩
  have : i < 3 := hi
  have h3 : i = 0 ∨ i = 1 ∨ i = 2 := by omega
  rcases h3 with rfl | rfl | rfl <;> decide

example : (rcEncode exProbs exOps).1 = [0, 218, 223, 251, 255, 120, 65, 0, 0] := by decide +kernel

example : rcDecode exProbs (exOps.map Op.shape) ((rcEncode exProbs exOps).1 ++ [1, 2, 3])
    = some (exOps.map Op.value, (rcEncode exProbs exOps).2, [1, 2, 3]) := by decide +kernel


/-- a concrete description of "abcabcabcXabXabX": literals a b c, match dist 2 len 6, literal X, match dist 3 len 2, rep1, short rep -/
def exSyms : List Sym := [.lit 97, .lit 98, .lit 99, .mtch 2 6, .lit 88, .mtch 3 2, .rep 1 3, .shortrep]

example : Describes 4096 [] {} exSyms [97, 98, 99, 97, 98, 99, 97, 98, 99, 88, 97, 98, 88, 97, 98, 88] := by
  show lzExpand 4096 exSyms {} _ = some _
  decide +kernel

example : PropsOk { lc := 3, lp := 0, pb := 2 } := by unfold PropsOk; decide

end XzVerif.C01
