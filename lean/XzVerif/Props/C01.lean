/-
  C01 — compression is lossless for every input and every accepted configuration.
  Only property theorems and non-vacuity examples live here; the lemmas are in Lemmas/RangeCoder*.lean.
-/
import XzVerif.Lemmas.RangeCoderAdaptive

namespace XzVerif.C01
open XzVerif.RangeDec XzVerif.RangeEnc XzVerif.RangeCoder

/-- THE range-coder round trip. For every operation list (probability bits in arbitrary contexts with adaptive
    probabilities, and direct bits) the bytes produced by the C-style encoder (`rc_shift_low` with `cache`/`cache_size`
    carry propagation, normalisation before every symbol and before the flush, five flush shifts), followed by ANY bytes
    `tail`, are decoded by the decoder cores of `Model/RangeDec.lean` (`rc_read_init`, `rc_normalize`, `rc_bit`, the
    wrap-around `rc_direct`) into exactly the encoded bits; both sides end with the same probabilities; after the last
    bit `rc_normalize` + `rc_is_finished` succeeds (`code = 0`) and exactly `tail` is left unread.
    Hypothesis: every probability variable is in `[31, 2017]` (`ProbInv`, an invariant of the update rule starting from
    1024) and every context index exists. -/
theorem rc_roundtrip (ps : Probs) (ops : List Op) (tail : List UInt8) (h : ProbsOk ps ops) :
    rcDecode ps (ops.map Op.shape) ((rcEncode ps ops).1 ++ tail)
      = some (ops.map Op.value, (rcEncode ps ops).2, tail) := by
  have hres := encOps_resolve ops ps Enc.init
  have hok := resolve_ok ops ps h
  obtain ⟨rc, rest, hinit, hs, _⟩ := sync_init hok tail
  obtain ⟨rc', rest', hdec, hs'⟩ := decodeShapes_sync ops ps Enc.init h inv_init tail rc rest hs
  obtain ⟨rc'', hnorm, hcode⟩ := sync_end (encROps_inv _ hok Enc.init inv_init) hs'
  have henc : (rcEncode ps ops).1 = (finish Enc.init (resolve ps ops).1).out := by
    simp only [rcEncode, hres, finish]
  have hps : (rcEncode ps ops).2 = (resolve ps ops).2 := by simp only [rcEncode, hres]
  rw [henc, hps]
  simp only [rcDecode, hinit, hdec, hnorm, hcode, if_true]

/-- The first byte of every range-coded stream is 0x00 (MicroLZMA overwrites it with `~props`; the decoders insist on it). -/
theorem rc_first_byte_zero (ps : Probs) (ops : List Op) (h : ProbsOk ps ops) :
    (rcEncode ps ops).1.head? = some 0 := by
  have hres := encOps_resolve ops ps Enc.init
  obtain ⟨_, _, _, _, hhead⟩ := sync_init (resolve_ok ops ps h) []
  have henc : (rcEncode ps ops).1 = (finish Enc.init (resolve ps ops).1).out := by
    simp only [rcEncode, hres, finish]
  rw [henc]; exact hhead

/-- Probabilities never leave `[31, 2017]`: the hypothesis of `rc_roundtrip` is an invariant of encoding. -/
theorem rc_probs_invariant (ps : Probs) (ops : List Op) (h : ProbsOk ps ops) :
    ∀ i, i < (rcEncode ps ops).2.size → ProbInv ((rcEncode ps ops).2.getD i 0) := by
  have hres := encOps_resolve ops ps Enc.init
  have hps : (rcEncode ps ops).2 = (resolve ps ops).2 := by simp only [rcEncode, hres]
  rw [hps]; exact resolve_probsOk ops ps h

/-- The central lemma of the carry logic: one `rc_shift_low` multiplies the number denoted by
    (written bytes, cache, pending 0xFF bytes, low) by exactly 256, as long as a carry never meets `cache = 0xFF`;
    the interval invariant `low + range ≤ 2^32 + (if cache = 0xFF then 0 else 2^32)` guarantees that and is preserved. -/
theorem rc_shift_low_exact (e : Enc) (h : Inv e) :
    V (shiftLow e) = 256 * V e ∧ T (shiftLow e) = T e + 1 :=
  ⟨(shiftLow_spec h.inv0).1, (shiftLow_spec h.inv0).2.1⟩

/-- The output has exactly one byte per shift: 5 + the number of normalisations, and it denotes the committed number. -/
theorem rc_flush_exact (e : Enc) (h : Inv e) :
    numLE (encFlush e).outRev = V (normalize e) ∧ (encFlush e).outRev.length = T (normalize e) + 4 :=
  ⟨(encFlush_spec h).1, (encFlush_spec h).2.1⟩

/-! non-vacuity: a concrete op list with repeated contexts (adaptation), direct bits, and a carry-prone run of 1-bits -/

def exOps : List Op :=
  [.bit 0 true, .bit 0 true, .bit 1 false, .direct true, .direct true, .direct false, .bit 0 true, .bit 2 true,
   .direct true, .direct true, .direct true, .direct true, .direct true, .direct true, .direct true, .direct true,
   .direct true, .direct true, .direct true, .direct true, .direct true, .direct true, .direct true, .direct true,
   .direct true, .direct true, .direct true, .direct true, .direct true, .direct true, .direct true, .direct true,
   .bit 1 true, .bit 0 false]

def exProbs : Probs := Array.replicate 3 1024

example : ProbsOk exProbs exOps := by
  refine ⟨fun i hi => ?_, by decide⟩
  have : i < 3 := hi
  have h3 : i = 0 ∨ i = 1 ∨ i = 2 := by omega
  rcases h3 with rfl | rfl | rfl <;> decide

example : (rcEncode exProbs exOps).1 = [0, 218, 223, 251, 255, 120, 65, 0, 0] := by decide +kernel

example : rcDecode exProbs (exOps.map Op.shape) ((rcEncode exProbs exOps).1 ++ [1, 2, 3])
    = some (exOps.map Op.value, (rcEncode exProbs exOps).2, [1, 2, 3]) := by decide +kernel

end XzVerif.C01
