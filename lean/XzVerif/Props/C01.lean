/-
  C01 — compression is lossless for every input and every accepted configuration.
  Only property theorems and non-vacuity examples live here; the lemmas are in Lemmas/RangeCoder*.lean.
-/
import XzVerif.Lemmas.RangeCoderAdaptive
import XzVerif.Model.Lzma2Enc
import XzVerif.Gen.C01

namespace XzVerif.C01
open XzVerif.RangeDec XzVerif.RangeEnc XzVerif.RangeCoder XzVerif.Lzma XzVerif.LzmaEnc XzVerif.Lzma2Enc

/-! ### bridges to the regenerated source (Gen/C01.lean is rewritten from /repo on every run) -/

/-- every `#define` the models rely on has the value the source has today -/
theorem gen_constants :
    Gen.C01.rcShiftBits = RC_SHIFT_BITS ∧ Gen.C01.rcTopValue = RC_TOP_VALUE ∧ Gen.C01.rcBitModelTotalBits = RC_BIT_MODEL_TOTAL_BITS ∧
    Gen.C01.rcBitModelTotal = RC_BIT_MODEL_TOTAL ∧ Gen.C01.rcMoveBits = RC_MOVE_BITS ∧ Gen.C01.rcSymbolsMax = RC_SYMBOLS_MAX ∧
    Gen.C01.lzma2ChunkMax = LZMA2_CHUNK_MAX ∧ Gen.C01.lzma2UncompressedMax = LZMA2_UNCOMPRESSED_MAX ∧
    Gen.C01.lzma2HeaderMax = LZMA2_HEADER_MAX ∧ Gen.C01.lzma2HeaderUncompressed = LZMA2_HEADER_UNCOMPRESSED ∧
    Gen.C01.opts = OPTS ∧ Gen.C01.loopInputMax = LOOP_INPUT_MAX ∧
    Gen.C01.matchLenMin = MATCH_LEN_MIN ∧ Gen.C01.matchLenMax = MATCH_LEN_MAX ∧ Gen.C01.lenLowSymbols = LEN_LOW_SYMBOLS ∧
    Gen.C01.lenMidSymbols = LEN_MID_SYMBOLS ∧ Gen.C01.lenHighSymbols = LEN_HIGH_SYMBOLS ∧ Gen.C01.distStates = DIST_STATES ∧
    Gen.C01.distSlotBits = DIST_SLOT_BITS ∧ Gen.C01.distModelStart = DIST_MODEL_START ∧ Gen.C01.distModelEnd = DIST_MODEL_END ∧
    Gen.C01.fullDistances = FULL_DISTANCES ∧ Gen.C01.alignBits = ALIGN_BITS ∧ Gen.C01.reps = REPS ∧ Gen.C01.states = STATES ∧
    Gen.C01.litStates = LIT_STATES ∧ Gen.C01.posStatesMax = POS_STATES_MAX ∧ Gen.C01.literalCoderSize = LITERAL_CODER_SIZE ∧
    Gen.C01.lclpMax = LZMA_LCLP_MAX ∧ Gen.C01.pbMax = LZMA_PB_MAX := by decide

/-- the state-update macros of lzma_common.h, on all 12 states -/
theorem gen_state_machine :
    Gen.C01.stateTable = (List.range 12).map (fun s =>
      (updateLiteral s, updateMatch s, updateLongRep s, updateShortRep s, (if isLiteralState s then 1 else 0),
       (if isLiteralState s then updateLiteralNormal s else updateLiteralMatched s))) := by decide

/-- `get_dist_state(len)` for every length 2..273 -/
theorem gen_dist_state : Gen.C01.distStateTable = (List.range 272).map (fun i => getDistState (i + 2)) := by decide +kernel

/-- `get_dist_slot` (table version of fastpos.h) = the closed form of the model, on 0..1023 and around every power of two -/
theorem gen_dist_slot :
    Gen.C01.distSlot0 ++ Gen.C01.distSlot1 ++ Gen.C01.distSlot2 ++ Gen.C01.distSlot3 = (List.range 1024).map getDistSlot ∧
    Gen.C01.distSlotGrid.all (fun x => getDistSlot x.1 == x.2) = true := by decide +kernel

/-- `literal_mask_calc` and `literal_subcoder` for every valid lc/lp on a grid of positions and previous bytes -/
theorem gen_literal_subcoder :
    Gen.C01.literalMaskTable.all (fun x => literalMask x.1 x.2.1 == x.2.2) = true ∧
    Gen.C01.literalSubcoderGrid.all (fun x => literalSubcoder x.1 x.2.1 x.2.2.1 x.2.2.2.1 == x.2.2.2.2) = true := by decide +kernel

/-- the probability update expressions of `rc_encode`, for every value 0..2047 -/
theorem gen_prob_update :
    Gen.C01.probUpd0 ++ Gen.C01.probUpd1 ++ Gen.C01.probUpd2 ++ Gen.C01.probUpd3 ++ Gen.C01.probUpd4 ++ Gen.C01.probUpd5
      ++ Gen.C01.probUpd6 ++ Gen.C01.probUpd7 = (List.range 2048).map (fun p => (probUpdate0 p, probUpdate1 p)) := by decide +kernel

/-- the REAL `rc_shift_low`, run on boundary states (`low` around 0xFF000000 and 2^32, `cache` around 0xFF, several
    `cache_size`), does what the model's `shiftLow` does: new low, cache, cache_size and the bytes written -/
theorem gen_shift_low :
    Gen.C01.shiftLowGrid.all (fun x =>
      let e := shiftLow { low := x.1, cache := x.2.1, cacheSize := x.2.2.1, range := 0, outTotal := 0, outRev := [] }
      e.low == x.2.2.2.1 && e.cache == x.2.2.2.2.1 && e.cacheSize == x.2.2.2.2.2.1
        && e.out.map UInt8.toNat == x.2.2.2.2.2.2 && e.outTotal == x.2.2.2.2.2.2.length) = true := by decide +kernel

/-- THE range-coder round trip. For every operation list (probability bits in arbitrary contexts with adaptive
    probabilities, and direct bits) the bytes produced by the C-style encoder (`rc_shift_low` with `cache`/`cache_size`
    carry propagation, normalisation before every symbol and before the flush, five flush shifts), followed by ANY bytes
    `tail`, are decoded by the decoder cores of `Model/RangeDec.lean` (`rc_read_init`, `rc_normalize`, `rc_bit`, the
    wrap-around `rc_direct`) into exactly the encoded bits; both sides end with the same probabilities; after the last
    bit `rc_normalize` + `rc_is_finished` succeeds (`code = 0`) and exactly `tail` is left unread.
    Hypothesis: every probability variable is in `[31, 2017]` (`ProbInv`, an invariant of the update rule starting from
    1024) and every context index exists. -/
theorem rc_roundtrip (ps : Probs) (ops : List Op) (tail : List UInt8) (h : ProbsOk ps ops) :
    rcDecode ps (ops.map Op.shape) ((rcEncode ps ops).1 ++ tail)
      = some (ops.map Op.value, (rcEncode ps ops).2, tail) := by
  have hres := encOps_resolve ops ps Enc.init
  have hok := resolve_ok ops ps h
  obtain ⟨rc, rest, hinit, hs, _⟩ := sync_init hok tail
  obtain ⟨rc', rest', hdec, hs'⟩ := decodeShapes_sync ops ps Enc.init h inv_init tail rc rest hs
  obtain ⟨rc'', hnorm, hcode⟩ := sync_end (encROps_inv _ hok Enc.init inv_init) hs'
  have henc : (rcEncode ps ops).1 = (finish Enc.init (resolve ps ops).1).out := by
    simp only [rcEncode, hres, finish]
  have hps : (rcEncode ps ops).2 = (resolve ps ops).2 := by simp only [rcEncode, hres]
  rw [henc, hps]
  simp only [rcDecode, hinit, hdec, hnorm, hcode, if_true]

/-- The first byte of every range-coded stream is 0x00 (MicroLZMA overwrites it with `~props`; the decoders insist on it). -/
theorem rc_first_byte_zero (ps : Probs) (ops : List Op) (h : ProbsOk ps ops) :
    (rcEncode ps ops).1.head? = some 0 := by
  have hres := encOps_resolve ops ps Enc.init
  obtain ⟨_, _, _, _, hhead⟩ := sync_init (resolve_ok ops ps h) []
  have henc : (rcEncode ps ops).1 = (finish Enc.init (resolve ps ops).1).out := by
    simp only [rcEncode, hres, finish]
  rw [henc]; exact hhead

/-- Probabilities never leave `[31, 2017]`: the hypothesis of `rc_roundtrip` is an invariant of encoding. -/
theorem rc_probs_invariant (ps : Probs) (ops : List Op) (h : ProbsOk ps ops) :
    ∀ i, i < (rcEncode ps ops).2.size → ProbInv ((rcEncode ps ops).2.getD i 0) := by
  have hres := encOps_resolve ops ps Enc.init
  have hps : (rcEncode ps ops).2 = (resolve ps ops).2 := by simp only [rcEncode, hres]
  rw [hps]; exact resolve_probsOk ops ps h

/-- The central lemma of the carry logic: one `rc_shift_low` multiplies the number denoted by
    (written bytes, cache, pending 0xFF bytes, low) by exactly 256, as long as a carry never meets `cache = 0xFF`;
    the interval invariant `low + range ≤ 2^32 + (if cache = 0xFF then 0 else 2^32)` guarantees that and is preserved. -/
theorem rc_shift_low_exact (e : Enc) (h : Inv e) :
    V (shiftLow e) = 256 * V e ∧ T (shiftLow e) = T e + 1 :=
  ⟨(shiftLow_spec h.inv0).1, (shiftLow_spec h.inv0).2.1⟩

/-- The output has exactly one byte per shift: 5 + the number of normalisations, and it denotes the committed number. -/
theorem rc_flush_exact (e : Enc) (h : Inv e) :
    numLE (encFlush e).outRev = V (normalize e) ∧ (encFlush e).outRev.length = T (normalize e) + 4 :=
  ⟨(encFlush_spec h).1, (encFlush_spec h).2.1⟩

/-! non-vacuity: a concrete op list with repeated contexts (adaptation), direct bits, and a carry-prone run of 1-bits -/

def exOps : List Op :=
  [.bit 0 true, .bit 0 true, .bit 1 false, .direct true, .direct true, .direct false, .bit 0 true, .bit 2 true,
   .direct true, .direct true, .direct true, .direct true, .direct true, .direct true, .direct true, .direct true,
   .direct true, .direct true, .direct true, .direct true, .direct true, .direct true, .direct true, .direct true,
   .direct true, .direct true, .direct true, .direct true, .direct true, .direct true, .direct true, .direct true,
   .bit 1 true, .bit 0 false]

def exProbs : Probs := Array.replicate 3 1024

example : ProbsOk exProbs exOps := by
  refine ⟨fun i hi => ?_, by decide⟩
  have : i < 3 := hi
  have h3 : i = 0 ∨ i = 1 ∨ i = 2 := by omega
  rcases h3 with rfl | rfl | rfl <;> decide

example : (rcEncode exProbs exOps).1 = [0, 218, 223, 251, 255, 120, 65, 0, 0] := by decide +kernel

example : rcDecode exProbs (exOps.map Op.shape) ((rcEncode exProbs exOps).1 ++ [1, 2, 3])
    = some (exOps.map Op.value, (rcEncode exProbs exOps).2, [1, 2, 3]) := by decide +kernel

end XzVerif.C01
