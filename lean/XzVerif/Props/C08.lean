/-
  C08 — threaded compression is correct, ordered and live under every schedule.
  Theorems about the labelled transition system `XzVerif.MtEnc` (Model/MtEnc.lean): all of them quantify over every state
  reachable by ANY interleaving of main-thread and worker steps (= every schedule, every spurious wake-up, every time-out).
  Helper lemmas are in Lemmas/MtEncA..G.lean.
-/
import XzVerif.Lemmas.MtEncG

namespace XzVerif.C08
open XzVerif.MtEnc

/-- The invariant: entry-local facts (A), queue structure (B), ghost data / output bytes (C), worker states vs. main (W),
    main-thread program-counter facts (M). -/
structure Inv (P : Params) (s : St) : Prop where
  a : InvA P s
  b : InvB s
  c : InvC P s
  w : InvW s
  m : InvM s

theorem inv_init (P : Params) (c : Cfg) (h1 : 0 < c.bs) (h2 : 0 < c.tmax) : Inv P (initSt c P) := by
  refine ⟨?_, InvB_init h1 h2 .out (Or.inl rfl), InvC_init P c .out, ?_, ?_⟩
  · intro e he; simp [initSt] at he
  · exact ⟨by intro e he; simp [initSt] at he, by simp [initSt, busy], by simp [initSt]⟩
  · refine ⟨(by intro a; cases a), (by intro a; cases a), (by intro a; rcases a with a | a <;> cases a), (by intro a; cases a),
      (by intro a; cases a), ?_, (by intro a; cases a)⟩
    intro _ a ha; simp [initSt] at ha

theorem inv_step {P : Params} {s s' : St} {e : Ev} (h : Inv P s) (hs : step P s e = some s') : Inv P s' :=
  ⟨InvA_step h.a h.b hs, InvB_step h.b h.a hs, InvC_step h.c h.a h.b hs, InvW_step h.w h.a hs, InvM_step h.m h.b h.w hs⟩

/-- **mtenc_inv**: the invariant holds initially and is preserved by every transition, hence in every reachable state. -/
theorem mtenc_inv {P : Params} {c : Cfg} (h1 : 0 < c.bs) (h2 : 0 < c.tmax) {s : St} (hr : Reachable P c s) : Inv P s := by
  induction hr with
  | init => exact inv_init P c h1 h2
  | step e _ hs ih => exact inv_step ih hs

/-- **mtenc_order**: Blocks leave the queue in input order, and the Index records are exactly the delivered Blocks in order:
    the input consumed so far is the concatenation of delivered Blocks followed by the queued Blocks (queue order), Block
    ordinals are 0,1,2,… across `done ++ outq`, and `index = done.map record`. -/
theorem mtenc_order {P : Params} {c : Cfg} (h1 : 0 < c.bs) (h2 : 0 < c.tmax) {s : St} (hr : Reachable P c s) :
    s.consumed = datas s.done ++ datas (blks s.outq) ∧
    (s.done ++ blks s.outq).map (·.ord) = List.range (s.done.length + s.outq.length) ∧
    s.index = s.done.map (Blk.record P) := by
  have h := (mtenc_inv h1 h2 hr).c
  refine ⟨h.cons, ?_, h.idx⟩
  rw [List.map_append, h.ordD, h.ordQ, List.range_eq_range', List.range_eq_range', ← List.range'_append_1]
  simp

/-- **mtenc_output**: when LZMA_FINISH has returned LZMA_STREAM_END (sequence = ended) the output is exactly one Stream:
    header ++ the encoded Blocks in input order ++ Index/Footer for exactly these Blocks, the Blocks partition the whole
    input, every Block is non-empty and at most block_size long, and nothing is left in the queue. -/
theorem mtenc_output {P : Params} {c : Cfg} (h1 : 0 < c.bs) (h2 : 0 < c.tmax) {s : St} (hr : Reachable P c s)
    (hend : s.seq = .ended) :
    s.out = P.hdr ++ encs P s.done ++ P.tailBytes (s.done.map (Blk.record P)) ∧
    datas s.done = s.consumed ∧ s.outq = [] ∧ s.done.map (·.ord) = List.range s.done.length := by
  have h := mtenc_inv h1 h2 hr
  have hq := (h.b.seqTail (Or.inr hend)).1
  refine ⟨by rw [← h.c.idx]; exact h.c.outE hend, ?_, hq, h.c.ordD⟩
  rw [h.c.cons, hq]; simp [blks, datas]

/-- Corollary with the decode inverse supplied by C01/C02 as a hypothesis: any decoder that inverts `enc` Block by Block
    recovers exactly the input from the Blocks of the finished Stream. -/
theorem mtenc_output_decodes {P : Params} {c : Cfg} (h1 : 0 < c.bs) (h2 : 0 < c.tmax) {s : St} (hr : Reachable P c s)
    (hend : s.seq = .ended) (dec : Bytes → Bytes) (hdec : ∀ o ch d, dec (P.enc o ch d) = d) :
    ((s.done.map (Blk.enc P)).map dec).flatten = s.consumed := by
  have := (mtenc_output h1 h2 hr hend).2.1
  rw [← this]
  simp only [datas, List.map_map]
  congr 1
  apply List.map_congr_left
  intro b _
  simp [Blk.enc, hdec]

/-- **mtenc_full_flush**: LZMA_FULL_FLUSH returns LZMA_STREAM_END only when the queue is empty, no Block is open, all input
    given so far is contained in delivered (finished) Blocks, and the output so far is header ++ exactly these Blocks. -/
theorem mtenc_full_flush {P : Params} {c : Cfg} (h1 : 0 < c.bs) (h2 : 0 < c.tmax) {s : St} (hr : Reachable P c s)
    (hout : s.mpc = .out) (hret : s.lastRet = some (.fullFlush, END)) :
    s.outq = [] ∧ s.thr = false ∧ s.inp = [] ∧ datas s.done = s.consumed ∧ s.out = P.hdr ++ encs P s.done := by
  have h := mtenc_inv h1 h2 hr
  have hf := (h.m.retEnd hout _ hret).2.1 rfl
  refine ⟨hf.1, hf.2.1, hf.2.2.2, ?_, ?_⟩
  · rw [h.c.cons, hf.1]; simp [blks, datas]
  · have := h.c.outB hf.2.2.1
    rw [headPart_nil hf.1] at this
    simpa using this

/-- **mtenc_full_barrier**: LZMA_FULL_BARRIER returns LZMA_STREAM_END with `coder->thr == NULL`: every Block that holds input
    given so far is closed (THR_FINISH has been sent), i.e. the current Block ends exactly at the requested offset and the
    next input byte starts a new Block. -/
theorem mtenc_full_barrier {P : Params} {c : Cfg} (h1 : 0 < c.bs) (h2 : 0 < c.tmax) {s : St} (hr : Reachable P c s)
    (hout : s.mpc = .out) (hret : s.lastRet = some (.fullBarrier, END)) :
    s.thr = false ∧ s.inp = [] ∧ (∀ e ∈ s.outq, e.closed = true) ∧ s.consumed = datas s.done ++ datas (blks s.outq) := by
  have h := mtenc_inv h1 h2 hr
  have hf := (h.m.retEnd hout _ hret).2.2.1 rfl
  exact ⟨hf.1, hf.2.2, fun e he => closed_of_shape (h.b.allClosed hf.1) he, h.c.cons⟩

/-- **mtenc_no_deadlock**: in every reachable state in which the handle has not been freed some thread can take a step that is
    not a time-out, not a spurious wake-up and not a mere re-check of a wait condition that is still false. -/
theorem mtenc_no_deadlock {P : Params} {c : Cfg} (h1 : 0 < c.bs) (h2 : 0 < c.tmax) {s : St} (hr : Reachable P c s)
    (hd : s.mpc ≠ .dead) : ∃ ev s', step P s ev = some s' ∧ ev.isReal = true ∧ ¬ Stutter s ev := by
  have h := mtenc_inv h1 h2 hr
  exact mtenc_progress_step h.a h.b h.w h.m hd

/-- **mtenc_no_lost_wakeup**: whenever a thread is inside a condition wait and the condition it waits for holds, the matching
    signal has been delivered (its `woken` flag is set): every transition that makes a wait condition true signals the
    condition variable under the mutex the waiter checks under. -/
theorem mtenc_no_lost_wakeup {P : Params} {c : Cfg} (h1 : 0 < c.bs) (h2 : 0 < c.tmax) {s : St} (hr : Reachable P c s) :
    (s.mpc = .waiting → waitCond s = true → s.mWoken = true) ∧
    (∀ e ∈ s.outq, ∀ w, e.wk = some w → w.asleep = true → needsRun e w = true → w.woken = true) := by
  have h := mtenc_inv h1 h2 hr
  exact ⟨h.m.wake, fun e he w hw => ((h.a e he).wk w hw).wake⟩

/-- **mtenc_end_safe / mtenc_reinit_safe**: the second half of threads_end (join + free / re-initialise) is taken only when no
    worker thread exists any more (none in the free list, none exiting, none attached to a queue entry, hence
    threads_initialized = 0), and it yields the pristine state of the new configuration (or the freed handle): no worker of
    the old Stream can touch the new one. -/
theorem mtenc_end_safe {P : Params} {c : Cfg} (h1 : 0 < c.bs) (h2 : 0 < c.tmax) {s s' : St} (hr : Reachable P c s)
    (hs : step P s .mJoin = some s') :
    s.ninit = 0 ∧ busy s.outq = 0 ∧
    ((s.pending = none ∧ s' = { (initSt s.cfg P) with mpc := .dead }) ∨ (∃ c', s.pending = some c' ∧ s' = initSt c' P)) := by
  have h := mtenc_inv h1 h2 hr
  simp only [step, mJoin] at hs
  split at hs
  · rename_i hg
    have hc := h.w.cnt
    refine ⟨by omega, hg.2.2.2, ?_⟩
    split at hs <;> cases hs
    · exact Or.inl ⟨by assumption, rfl⟩
    · exact Or.inr ⟨_, by assumption, rfl⟩
  · cases hs

theorem mtenc_reinit_safe {P : Params} {c : Cfg} (h1 : 0 < c.bs) (h2 : 0 < c.tmax) {s s' : St} (hr : Reachable P c s)
    (hs : step P s .mJoin = some s') : Inv P s' ∧ progress s' = (0, P.hdr.length) ∧ s'.outq = [] ∧ s'.ninit = 0 := by
  have h := mtenc_inv h1 h2 hr
  refine ⟨inv_step h hs, ?_⟩
  rcases (mtenc_end_safe h1 h2 hr hs).2.2 with ⟨_, rfl⟩ | ⟨c', _, rfl⟩ <;> simp [progress, initSt]

end XzVerif.C08
