/-
  C08 — threaded compression is correct, ordered and live under every schedule.
  Theorems about the labelled transition system `XzVerif.MtEnc` (Model/MtEnc.lean): all of them quantify over every state
  reachable by ANY interleaving of main-thread and worker steps (= every schedule, every spurious wake-up, every time-out).
  Helper lemmas are in Lemmas/MtEncA..K.lean.
  The last section instantiates the abstract Block encoder with the concrete container + LZMA2 encoder models and links the
  result to C01's end-to-end round trip (Props/C01EndToEndAll.lean).
-/
import XzVerif.Lemmas.MtEncK
import XzVerif.Props.C01EndToEndAll
import XzVerif.Gen.C08

namespace XzVerif.C08
open XzVerif.MtEnc

/-- The invariant: entry-local facts (A), queue structure (B), ghost data / output bytes (C), worker states vs. main (W),
    main-thread program-counter facts (M), exact accounting of the progress counters on healthy streams (P),
    where Blocks are cut (K). -/
structure Inv (P : Params) (s : St) : Prop where
  a : InvA P s
  b : InvB s
  c : InvC P s
  w : InvW s
  m : InvM s
  p : InvP P s
  k : InvK s

theorem inv_init (P : Params) (c : Cfg) (h1 : 0 < c.bs) (h2 : 0 < c.tmax) : Inv P (initSt c P) := by
  refine ⟨?_, InvB_init h1 h2 .out (Or.inl rfl), InvC_init P c .out, ?_, ?_, InvP_init P c .out, InvK_init P c .out⟩
  · intro e he; simp [initSt] at he
  · exact ⟨by intro e he; simp [initSt] at he, by simp [initSt, busy], by simp [initSt]⟩
  · refine ⟨(by intro a; cases a), (by intro a; cases a), (by intro a; rcases a with a | a <;> cases a), (by intro a; cases a),
      (by intro a; cases a), ?_, (by intro a; cases a)⟩
    intro _ a ha; simp [initSt] at ha

theorem inv_step {P : Params} {s s' : St} {e : Ev} (h : Inv P s) (hs : step P s e = some s') : Inv P s' :=
  ⟨InvA_step h.a h.b hs, InvB_step h.b h.a hs, InvC_step h.c h.a h.b hs, InvW_step h.w h.a hs, InvM_step h.m h.b h.w hs,
   InvP_step h.p h.a h.b h.w hs, InvK_step h.k h.a h.b h.c h.m hs⟩

/-- **mtenc_inv**: the invariant holds initially and is preserved by every transition, hence in every reachable state. -/
theorem mtenc_inv {P : Params} {c : Cfg} (h1 : 0 < c.bs) (h2 : 0 < c.tmax) {s : St} (hr : Reachable P c s) : Inv P s := by
  induction hr with
  | init => exact inv_init P c h1 h2
  | step e _ hs ih => exact inv_step ih hs

/-- **mtenc_order**: Blocks leave the queue in input order, and the Index records are exactly the delivered Blocks in order:
    the input consumed so far is the concatenation of delivered Blocks followed by the queued Blocks (queue order), Block
    ordinals are 0,1,2,… across `done ++ outq`, and `index = done.map record`. -/
theorem mtenc_order {P : Params} {c : Cfg} (h1 : 0 < c.bs) (h2 : 0 < c.tmax) {s : St} (hr : Reachable P c s) :
    s.consumed = datas s.done ++ datas (blks s.outq) ∧
    (s.done ++ blks s.outq).map (·.ord) = List.range (s.done.length + s.outq.length) ∧
    s.index = s.done.map (Blk.record P) := by
  have h := (mtenc_inv h1 h2 hr).c
  refine ⟨h.cons, ?_, h.idx⟩
  rw [List.map_append, h.ordD, h.ordQ, List.range_eq_range', List.range_eq_range', ← List.range'_append_1]
  simp

/-- **mtenc_output**: when LZMA_FINISH has returned LZMA_STREAM_END (sequence = ended) the output is exactly one Stream:
    header ++ the encoded Blocks in input order ++ Index/Footer for exactly these Blocks, the Blocks partition the whole
    input, every Block is non-empty and at most block_size long, and nothing is left in the queue. -/
theorem mtenc_output {P : Params} {c : Cfg} (h1 : 0 < c.bs) (h2 : 0 < c.tmax) {s : St} (hr : Reachable P c s)
    (hend : s.seq = .ended) :
    s.out = P.hdr ++ encs P s.done ++ P.tailBytes (s.done.map (Blk.record P)) ∧
    datas s.done = s.consumed ∧ s.outq = [] ∧ s.done.map (·.ord) = List.range s.done.length := by
  have h := mtenc_inv h1 h2 hr
  have hq := (h.b.seqTail (Or.inr hend)).1
  refine ⟨by rw [← h.c.idx]; exact h.c.outE hend, ?_, hq, h.c.ordD⟩
  rw [h.c.cons, hq]; simp [blks, datas]

/-- Corollary with the decode inverse supplied by C01/C02 as a hypothesis: any decoder that inverts `enc` Block by Block
    recovers exactly the input from the Blocks of the finished Stream. -/
theorem mtenc_output_decodes {P : Params} {c : Cfg} (h1 : 0 < c.bs) (h2 : 0 < c.tmax) {s : St} (hr : Reachable P c s)
    (hend : s.seq = .ended) (dec : Bytes → Bytes) (hdec : ∀ o ch d, dec (P.enc o ch d) = d) :
    ((s.done.map (Blk.enc P)).map dec).flatten = s.consumed := by
  have := (mtenc_output h1 h2 hr hend).2.1
  rw [← this]
  simp only [datas, List.map_map]
  congr 1
  apply List.map_congr_left
  intro b _
  simp [Blk.enc, hdec]

/-- **mtenc_cuts** (second half of mtenc_output): Blocks are cut only at block_size and at offsets at which a
    FULL_FLUSH / FULL_BARRIER / FINISH request took effect (`flushPts`, a function of the application's calls only), every
    closed Block is non-empty, and every such offset is a Block boundary. -/
theorem mtenc_cuts {P : Params} {c : Cfg} (h1 : 0 < c.bs) (h2 : 0 < c.tmax) {s : St} (hr : Reachable P c s) :
    cutsOk s.cfg.bs s.flushPts (allShape s) 0 ∧ (∀ f ∈ s.flushPts, f ∈ closedEnds (allShape s) 0) :=
  let h := (mtenc_inv h1 h2 hr).k
  ⟨h.cuts, h.flush⟩

/-- **Determinism w.r.t. thread count and schedule** (used by C06): two finished runs — any parameters, any thread counts, any
    schedules — that consumed the same input with the same block_size and the same flush offsets produced the same list of
    Blocks (same cut points, same data per Block, in the same order). -/
theorem mtenc_deterministic {P1 P2 : Params} {c1 c2 : Cfg} (a1 : 0 < c1.bs) (a2 : 0 < c1.tmax) (b1 : 0 < c2.bs) (b2 : 0 < c2.tmax)
    {s1 s2 : St} (hr1 : Reachable P1 c1 s1) (hr2 : Reachable P2 c2 s2) (he1 : s1.seq = .ended) (he2 : s2.seq = .ended)
    (hbs : s1.cfg.bs = s2.cfg.bs) (hF : s1.flushPts = s2.flushPts) (hin : s1.consumed = s2.consumed) :
    s1.done.map (·.data) = s2.done.map (·.data) := by
  have i1 := mtenc_inv a1 a2 hr1
  have i2 := mtenc_inv b1 b2 hr2
  have q1 := (i1.b.seqTail (Or.inr he1)).1
  have q2 := (i2.b.seqTail (Or.inr he2)).1
  have sh1 : allShape s1 = (s1.done.map fun b => b.data.length).map fun l => (true, l) := by
    simp [allShape, q1, shape, doneShape, List.map_map, Function.comp_def]
  have sh2 : allShape s2 = (s2.done.map fun b => b.data.length).map fun l => (true, l) := by
    simp [allShape, q2, shape, doneShape, List.map_map, Function.comp_def]
  have d1 : datas s1.done = s1.consumed := by rw [i1.c.cons, q1]; simp [blks, datas]
  have d2 : datas s2.done = s2.consumed := by rw [i2.c.cons, q2]; simp [blks, datas]
  have sum1 : (s1.done.map fun b => b.data.length).sum = s1.consumed.length := by
    rw [← d1, datas_length]; rfl
  have sum2 : (s2.done.map fun b => b.data.length).sum = s2.consumed.length := by
    rw [← d2, datas_length]; rfl
  have lens : (s1.done.map fun b => b.data.length) = (s2.done.map fun b => b.data.length) := by
    refine cuts_unique s1.cfg.bs s1.flushPts _ _ 0 (by rw [sum1, sum2, hin]) ⟨?_, ?_⟩ ⟨?_, ?_⟩
    · rw [← sh1]; exact i1.k.cuts
    · intro f hf _ _; rw [← sh1]; exact i1.k.flush f hf
    · rw [← sh2, hbs, hF]; exact i2.k.cuts
    · intro f hf _ _; rw [← sh2]; rw [hF] at hf; exact i2.k.flush f hf
  apply flatten_eq_of_lengths
  · show datas s1.done = datas s2.done
    rw [d1, d2, hin]
  · simpa [List.map_map, Function.comp_def] using lens

/-- **mtenc_full_flush**: LZMA_FULL_FLUSH returns LZMA_STREAM_END only when the queue is empty, no Block is open, all input
    given so far is contained in delivered (finished) Blocks, and the output so far is header ++ exactly these Blocks. -/
theorem mtenc_full_flush {P : Params} {c : Cfg} (h1 : 0 < c.bs) (h2 : 0 < c.tmax) {s : St} (hr : Reachable P c s)
    (hout : s.mpc = .out) (hret : s.lastRet = some (.fullFlush, END)) :
    s.outq = [] ∧ s.thr = false ∧ s.inp = [] ∧ datas s.done = s.consumed ∧ s.out = P.hdr ++ encs P s.done := by
  have h := mtenc_inv h1 h2 hr
  have hf := (h.m.retEnd hout _ hret).2.1 rfl
  refine ⟨hf.1, hf.2.1, hf.2.2.2, ?_, ?_⟩
  · rw [h.c.cons, hf.1]; simp [blks, datas]
  · have := h.c.outB hf.2.2.1
    rw [headPart_nil hf.1] at this
    simpa using this

/-- **mtenc_full_barrier**: LZMA_FULL_BARRIER returns LZMA_STREAM_END with `coder->thr == NULL`: every Block that holds input
    given so far is closed (THR_FINISH has been sent), i.e. the current Block ends exactly at the requested offset and the
    next input byte starts a new Block. -/
theorem mtenc_full_barrier {P : Params} {c : Cfg} (h1 : 0 < c.bs) (h2 : 0 < c.tmax) {s : St} (hr : Reachable P c s)
    (hout : s.mpc = .out) (hret : s.lastRet = some (.fullBarrier, END)) :
    s.thr = false ∧ s.inp = [] ∧ (∀ e ∈ s.outq, e.closed = true) ∧ s.consumed = datas s.done ++ datas (blks s.outq) := by
  have h := mtenc_inv h1 h2 hr
  have hf := (h.m.retEnd hout _ hret).2.2.1 rfl
  exact ⟨hf.1, hf.2.2, fun e he => closed_of_shape (h.b.allClosed hf.1) he, h.c.cons⟩

/-- **mtenc_progress**: on a healthy stream (no worker error, no error return, not being torn down) what lzma_get_progress
    reports never exceeds the true totals: progress_in ≤ number of input bytes consumed; progress_out ≤ header + sizes of the
    finished Blocks (+ Index/Footer once they are being written) + one output-buffer allocation per Block still being encoded;
    and the finished part is exact: `coder->progress_in/out` equal the sums over the finished Blocks. When LZMA_FINISH has
    returned LZMA_STREAM_END the reported values EQUAL the totals (input consumed, bytes written). -/
theorem mtenc_progress {P : Params} {c : Cfg} (h1 : 0 < c.bs) (h2 : 0 < c.tmax) {s : St} (hr : Reachable P c s) (hh : Healthy s) :
    (progress s).1 ≤ s.consumed.length ∧
    (progress s).2 ≤ P.hdr.length + doneOut P s.done + finOut P s.outq + tailLen P s + busy s.outq * P.alloc ∧
    s.progIn = doneIn s.done + finIn s.outq ∧
    (s.seq = .ended → progress s = (s.consumed.length, s.out.length)) := by
  have h := mtenc_inv h1 h2 hr
  have hin := sum_in_le h.a
  have hout := sum_out_le h.a
  have hp := h.p.pin hh
  have hq := h.p.pout hh
  have hlen : s.consumed.length = doneIn s.done + doneIn (blks s.outq) := by
    rw [h.c.cons, List.length_append, datas_length, datas_length]
  refine ⟨?_, ?_, hp, ?_⟩
  · rw [progress_eq]; simp only; omega
  · rw [progress_eq]; simp only; omega
  · intro he
    have hnil := (h.b.seqTail (Or.inr he)).1
    have ho := h.c.outE he
    have henc : (encs P s.done).length = doneOut P s.done := by
      simp [encs, doneOut, List.length_flatten, List.map_map, Function.comp_def]
    have htl : tailLen P s = (P.tailBytes s.index).length := by simp [tailLen, he]
    have e1 : finIn s.outq = 0 := by rw [hnil]; rfl
    have e2 : finOut P s.outq = 0 := by rw [hnil]; rfl
    have e3 : doneIn (blks s.outq) = 0 := by rw [hnil]; rfl
    have e4 : (s.outq.map wIn).sum = 0 := by rw [hnil]; rfl
    have e5 : (s.outq.map wOut).sum = 0 := by rw [hnil]; rfl
    have hol : s.out.length = P.hdr.length + doneOut P s.done + (P.tailBytes s.index).length := by
      rw [ho, List.length_append, List.length_append, henc]
    rw [progress_eq, e4, e5]
    simp only [Nat.add_zero]
    congr 1 <;> omega

/-- **mtenc_no_deadlock**: in every reachable state in which the handle has not been freed — healthy or not: worker errors,
    error returns and tear-down included — some thread can take a step that is not a time-out, not a spurious wake-up and not a
    mere re-check of a wait condition that is still false. (For the error case see also `mtenc_error_returns`.) -/
theorem mtenc_no_deadlock {P : Params} {c : Cfg} (h1 : 0 < c.bs) (h2 : 0 < c.tmax) {s : St} (hr : Reachable P c s)
    (hd : s.mpc ≠ .dead) : ∃ ev s', step P s ev = some s' ∧ ev.isReal = true ∧ ¬ Stutter s ev := by
  have h := mtenc_inv h1 h2 hr
  exact mtenc_progress_step h.a h.b h.w h.m hd

/-- Bridge to the source (Gen/C08.lean is regenerated on every run): the per-critical-section input limit of worker_encode() is
    positive, so a worker that has input always consumes some of it. All other theorems hold for every `Params.chunk`. -/
theorem chunk_positive : 0 < Gen.C08.inChunkMax := by decide

/-- **mtenc_worker_error_signals**: worker_error() is one critical section under coder->mutex that sets `thread_error` (first error
    wins) and signals coder->cond. -/
theorem mtenc_worker_error_signals {P : Params} {s s' : St} {i : Nat} {r : MtEnc.Ret} (hs : step P s (.wEncErr i r) = some s') :
    s'.err = some (s.err.getD r) ∧ s'.mWoken = true := by
  simp only [step, wEncErr] at hs
  split at hs; · cases hs
  split at hs; · cases hs
  split at hs
  · cases hs; exact ⟨rfl, rfl⟩
  · cases hs

/-- **mtenc_error_returns** (deadlock freedom and wake-ups in ERROR states; no healthiness assumption): if `thread_error` is set
    while the main thread is inside the wait of wait_for_work(), then its wait condition holds (`thread_error != LZMA_OK` is part
    of the predicate), the wake-up has been delivered, so it must not sleep: the wake-up step leads to the top of the loop and the
    next critical section makes lzma_code() return exactly that error. -/
theorem mtenc_error_returns {P : Params} {c : Cfg} (h1 : 0 < c.bs) (h2 : 0 < c.tmax) {s : St} (hr : Reachable P c s)
    (hw : s.mpc = .waiting) {r : MtEnc.Ret} (he : s.err = some r) :
    waitCond s = true ∧ s.mWoken = true ∧
    ∃ s1 s2, step P s .mWake = some s1 ∧ s1.mpc = .loopTop ∧ step P s1 .mRead = some s2 ∧
      s2.mpc = .failed ∧ s2.lastRet = some (s.act, r) := by
  have h := mtenc_inv h1 h2 hr
  have hc : waitCond s = true := by simp [waitCond, he]
  have hk := h.m.wake hw hc
  have hre := h.b.errBad r he
  refine ⟨hc, hk, { s with mpc := .loopTop, mWoken := false }, ret { s with mpc := .loopTop, mWoken := false } r, ?_, rfl, ?_, ?_, ?_⟩
  · simp only [step, mWake, hw, hk, and_self, if_true, hc]
  · simp only [step, mRead, he, if_true]
  · exact ret_err_mpc _ hre
  · unfold ret
    split
    · rename_i hx
      rcases hx with hx | hx | hx
      · exact absurd hx hre.1
      · exact absurd hx hre.2.1
      · exact absurd hx hre.2.2
    · rfl

/-- **mtenc_no_lost_wakeup**: whenever a thread is inside a condition wait and the condition it waits for holds, the matching
    signal has been delivered (its `woken` flag is set): every transition that makes a wait condition true signals the
    condition variable under the mutex the waiter checks under. -/
theorem mtenc_no_lost_wakeup {P : Params} {c : Cfg} (h1 : 0 < c.bs) (h2 : 0 < c.tmax) {s : St} (hr : Reachable P c s) :
    (s.mpc = .waiting → waitCond s = true → s.mWoken = true) ∧
    (∀ e ∈ s.outq, ∀ w, e.wk = some w → w.asleep = true → needsRun e w = true → w.woken = true) := by
  have h := mtenc_inv h1 h2 hr
  exact ⟨h.m.wake, fun e he w hw => ((h.a e he).wk w hw).wake⟩

/-- **mtenc_end_safe / mtenc_reinit_safe**: the second half of threads_end (join + free / re-initialise) is taken only when no
    worker thread exists any more (none in the free list, none exiting, none attached to a queue entry, hence
    threads_initialized = 0), and it yields the pristine state of the new configuration (or the freed handle): no worker of
    the old Stream can touch the new one. -/
theorem mtenc_end_safe {P : Params} {c : Cfg} (h1 : 0 < c.bs) (h2 : 0 < c.tmax) {s s' : St} (hr : Reachable P c s)
    (hs : step P s .mJoin = some s') :
    s.ninit = 0 ∧ busy s.outq = 0 ∧
    ((s.pending = none ∧ s' = { (initSt s.cfg P) with mpc := .dead }) ∨ (∃ c', s.pending = some c' ∧ s' = initSt c' P)) := by
  have h := mtenc_inv h1 h2 hr
  simp only [step, mJoin] at hs
  split at hs
  · rename_i hg
    have hc := h.w.cnt
    refine ⟨by omega, hg.2.2.2, ?_⟩
    split at hs <;> cases hs
    · exact Or.inl ⟨by assumption, rfl⟩
    · exact Or.inr ⟨_, by assumption, rfl⟩
  · cases hs

theorem mtenc_reinit_safe {P : Params} {c : Cfg} (h1 : 0 < c.bs) (h2 : 0 < c.tmax) {s s' : St} (hr : Reachable P c s)
    (hs : step P s .mJoin = some s') : Inv P s' ∧ progress s' = (0, P.hdr.length) ∧ s'.outq = [] ∧ s'.ninit = 0 := by
  have h := mtenc_inv h1 h2 hr
  refine ⟨inv_step h hs, ?_⟩
  rcases (mtenc_end_safe h1 h2 hr hs).2.2 with ⟨_, rfl⟩ | ⟨c', _, rfl⟩ <;> simp [progress, initSt]


-- ---------------------------------------------------------------------------------------------------------------------
-- non-vacuity: a concrete schedule reaches FULL_FLUSH -> STREAM_END, FINISH -> STREAM_END and a completed re-init
-- ---------------------------------------------------------------------------------------------------------------------

def exP : Params where
  hdr := [1, 2]
  enc := fun o c d => [UInt8.ofNat (100 + o)] ++ d ++ [UInt8.ofNat c]
  unpadded := fun _ _ d => d.length + 2
  tailBytes := fun idx => [9, UInt8.ofNat idx.length]
  alloc := 10

def exCfg : Cfg := { bs := 2, tmax := 2 }

/-- 3 bytes with FULL_FLUSH (two Blocks: block_size 2, then the flush cut), filter update, 1 byte with FINISH. -/
def exTrace1 : List Ev :=
  [.call [10, 11, 12] 100 .fullFlush, .mHdr, .mRead, .mEncIn, .wTop 0 0, .wEnc 0 false 0, .mEncIn, .wEnc 0 false 0, .wMarkIdle 0,
   .wTail 0, .mEncIn, .wTop 1 0, .wEnc 1 false 0, .mEncIn, .wEnc 1 false 0, .wMarkIdle 1, .wTail 1, .mEncIn, .mAfterIn, .mWake,
   .mRead, .mRead, .mRead, .mEncIn, .mAfterIn]

def exTrace2 : List Ev :=
  [.update 7, .call [13] 100 .finish, .mRead, .mEncIn, .wTop 0 0, .wEnc 0 false 0, .mEncIn, .wEnc 0 false 0, .wMarkIdle 0, .wTail 0,
   .mEncIn, .mAfterIn, .mWake, .mRead, .mRead, .mEncIn, .mAfterIn, .mTail]

def exTrace3 : List Ev := [.reinit { bs := 3, tmax := 1 }, .mExitIdle, .wExitIdle, .mJoin]

structure Obs where
  mpc : MPc
  seq : Seq
  lastRet : Option (Action × MtEnc.Ret)
  out : Bytes
  qlen : Nat
  flushPts : List Nat
  prog : Nat × Nat
  consumed : Bytes
  deriving DecidableEq

def obs (s : St) : Obs := ⟨s.mpc, s.seq, s.lastRet, s.out, s.outq.length, s.flushPts, progress s, s.consumed⟩

/-- after the FULL_FLUSH: STREAM_END, both Blocks delivered, queue empty -/
example : (run exP (initSt exCfg exP) exTrace1).map obs =
    some ⟨.out, .block, some (.fullFlush, END), [1, 2, 100, 10, 11, 0, 101, 12, 0], 0, [3, 3], (3, 9), [10, 11, 12]⟩ := by decide +kernel

/-- after FINISH: one Stream; the third Block uses the updated filter chain; progress = totals -/
example : (run exP (initSt exCfg exP) (exTrace1 ++ exTrace2)).map obs =
    some ⟨.out, .ended, some (.finish, END), [1, 2, 100, 10, 11, 0, 101, 12, 0, 102, 13, 7, 9, 3], 0, [3, 3, 4, 4], (4, 14), [10, 11, 12, 13]⟩ := by
  decide +kernel

/-- re-init on the used handle: the worker is told to exit, exits, is joined; the new Stream starts pristine -/
example : (run exP (initSt exCfg exP) (exTrace1 ++ exTrace2 ++ exTrace3)).map (fun s => (s.mpc, s.cfg.bs, s.ninit, s.progIn, s.progOut)) =
    some (.out, 3, 0, 0, 2) := by decide +kernel

/-- the hypotheses of mtenc_output / mtenc_progress are satisfiable: a reachable, healthy state with sequence = ended exists -/
example : ∃ s, Reachable exP exCfg s ∧ s.seq = .ended ∧ Healthy s := by
  have h : ∃ s, run exP (initSt exCfg exP) (exTrace1 ++ exTrace2) = some s ∧ s.seq = .ended ∧ s.err = none ∧ s.mpc = .out := by
    decide +kernel
  obtain ⟨s, h1, h2, h3, h4⟩ := h
  exact ⟨s, reachable_run _ Reachable.init h1, h2, h3, by unfold Dn; rw [h4]; simp⟩

/-- a waiting main thread and a sleeping worker really occur (the wake-up theorems are not vacuous) -/
example : (run exP (initSt exCfg exP)
    [.call [10] 100 .run, .mHdr, .mRead, .mEncIn, .mEncIn, .mEncIn, .mAfterIn, .call [] 100 .finish, .mRead, .wTop 0 0, .wEnc 0 false 0,
     .mEncIn, .mEncIn, .mAfterIn, .mWake]).map
    (fun s => (s.mpc, s.mWoken, waitCond s)) = some (.waiting, false, false) := by decide +kernel


def exTrace4 : List Ev :=
  [.call [10] 100 .run, .mHdr, .mRead, .mEncIn, .mEncIn, .mEncIn, .mAfterIn, .wTop 0 0, .wEnc 0 false 0, .wEnc 0 false 0]

/-- a worker asleep in worker_encode() waiting for more input (no signal yet, nothing to do yet) … -/
example : (run exP (initSt exCfg exP) exTrace4).map
    (fun s => s.outq.map fun e => e.wk.map fun w => (w.pc, w.asleep, w.woken, needsRun e w)) = some [some (.enc, true, false, false)] := by
  decide +kernel

/-- … is signalled by the main thread when it hands over THR_FINISH. -/
example : (run exP (initSt exCfg exP) (exTrace4 ++ [.call [] 100 .finish, .mRead, .mEncIn])).map
    (fun s => s.outq.map fun e => e.wk.map fun w => (w.pc, w.asleep, w.woken, needsRun e w)) = some [some (.enc, true, true, true)] := by
  decide +kernel


/-- the hypotheses of mtenc_error_returns are satisfiable: the main thread has handed over everything with FINISH and sleeps in
    wait_for_work(); then the worker fails (e.g. allocation failure in lzma_block_encoder_init): thread_error set, main signalled. -/
example : (run exP (initSt exCfg exP)
    [.call [10] 100 .finish, .mHdr, .mRead, .mEncIn, .mEncIn, .mEncIn, .mAfterIn, .mWake, .wTop 0 0, .wEncErr 0 MEM_ERROR]).map
    (fun s => (s.mpc, s.err, s.mWoken, waitCond s)) = some (.waiting, some MEM_ERROR, true, true) := by decide +kernel

/-- … and lzma_code() then returns LZMA_MEM_ERROR. -/
example : (run exP (initSt exCfg exP)
    [.call [10] 100 .finish, .mHdr, .mRead, .mEncIn, .mEncIn, .mEncIn, .mAfterIn, .mWake, .wTop 0 0, .wEncErr 0 MEM_ERROR, .mWake, .mRead]).map
    (fun s => (s.mpc, s.lastRet)) = some (.failed, some (.finish, MEM_ERROR)) := by decide +kernel

-- ---------------------------------------------------------------------------------------------------------------------
-- the original re-init protocol (xz 5.8.1): the two schedule-dependent defects are reachable (watch item F5, finding F7)
-- ---------------------------------------------------------------------------------------------------------------------

/-- Lost worker: a Block is handed over, the application re-initialises before the worker has noticed; the worker maps
    STOP -> IDLE at the top of worker_start(), threads_stop() is satisfied, and the worker is neither busy nor on threads_free. -/
example : OldReinit.run {} [.assign, .stopSignal, .wTop, .stopWaitDone] =
    some { state := .idle, pc := .top, inFree := false, newStream := true } := by decide

/-- ... and it stays lost: no transition of the worker or of the main thread puts it back (with one thread: deadlock). -/
theorem oldReinit_lost_forever (s : OldReinit.S) (e : OldReinit.E) (s' : OldReinit.S)
    (h1 : s.pc = .top) (h2 : s.state = .idle) (h3 : s.inFree = false) (h4 : s.stopping = false) (h5 : s.newStream = true)
    (hs : OldReinit.step s e = some s') :
    s'.pc = .top ∧ s'.state = .idle ∧ s'.inFree = false ∧ s'.stopping = false ∧ s'.newStream = true := by
  cases e <;> simp [OldReinit.step, h1, h2, h3, h4, h5] at hs

/-- Stale progress (F5): the stopped worker marks itself idle, the main thread resets `coder->progress_out` for the new Stream,
    and only then the worker adds its old `out_pos`: the new Stream reports 12 + 116 bytes although it has produced nothing. -/
example : (OldReinit.run {} [.assign, .wTop, .stopSignal, .wJob, .wMarkIdle, .stopWaitDone, .wTail]).map
    (fun s => (s.newStream, s.coderProgOut)) = some (true, 128) := by decide

-- ---------------------------------------------------------------------------------------------------------------------
-- the abstract Block encoder instantiated: end-to-end round trip of the threaded encoder under every schedule
-- ---------------------------------------------------------------------------------------------------------------------
section Std
open XzVerif.Container XzVerif.XzDecode XzVerif.XzEnv XzVerif.XzEncEnv XzVerif.E2E
open XzVerif.XzEncode (EncEnv streamEncodeMT)

/-- the delivered Blocks of a finished Stream: non-empty, at most block_size long, cut only at block_size / flush offsets, every
    flush offset a boundary -/
theorem ended_blocks {P : Params} {c : Cfg} (h1 : 0 < c.bs) (h2 : 0 < c.tmax) {s : St} (hr : Reachable P c s) (hend : s.seq = .ended) :
    cutsOk s.cfg.bs s.flushPts (doneShape s.done) 0 ∧ (∀ f ∈ s.flushPts, f ∈ closedEnds (doneShape s.done) 0) ∧
    (∀ d ∈ s.done.map (·.data), 0 < d.length ∧ d.length ≤ s.cfg.bs) ∧ (s.done.map (·.data)).flatten = s.consumed := by
  have h := mtenc_inv h1 h2 hr
  have hq := (h.b.seqTail (Or.inr hend)).1
  have hsh : allShape s = doneShape s.done := by simp [allShape, hq, shape]
  have hc := h.k.cuts; rw [hsh] at hc
  have hf := h.k.flush; rw [hsh] at hf
  refine ⟨hc, hf, ?_, ?_⟩
  · intro d hd; obtain ⟨b, hb, rfl⟩ := List.mem_map.mp hd; exact doneShape_lens s.done 0 hc b hb
  · have := (mtenc_output h1 h2 hr hend).2.1
    simpa [datas] using this

/-- **mtenc_output_eq_streamEncodeMT** (any encoder environment): the bytes the LTS has written when LZMA_FINISH returned
    LZMA_STREAM_END are exactly what the container model `XzEncode.streamEncodeMT` writes for the delivered Blocks — for every
    thread count and every schedule. -/
theorem mtenc_output_eq_streamEncodeMT (E : EncEnv) (check : Nat) (fs : List FilterOpts) (bs : Nat) {c : Cfg} (h1 : 0 < c.bs)
    (h2 : 0 < c.tmax) {s : St} (hr : Reachable (encParams E check fs bs) c s) (hend : s.seq = .ended) (hbs : s.cfg.bs = bs)
    (out : List UInt8) (henc : streamEncodeMT E { check := check, filters := fs } bs (s.done.map (·.data)) = .ok out) :
    s.out = out :=
  let h := mtenc_inv h1 h2 hr
  out_eq_streamEncodeMT E check fs bs h.b h.c h.k hend hbs out henc

/-- **mtenc_output_decodes_env**: the same for any environment `E` that agrees with the standard one (`stdEncEnv p parser`: delta/BCJ
    models, the executable LZMA2 chunker driven by `parser`, CRC32/CRC64/SHA-256) on the delivered Blocks — the form the
    kernel-evaluated example below uses (payload table). -/
theorem mtenc_output_decodes_env (p : Lzma.Props) (parser : Parser) (hp : ParserOk parser) (E : EncEnv) (check : Nat)
    (fs : List FilterOpts) (bs : Nat) {c : Cfg} (h1 : 0 < c.bs) (h2 : 0 < c.tmax) {s : St}
    (hr : Reachable (encParams E check fs bs) c s) (hend : s.seq = .ended) (hbs : s.cfg.bs = bs)
    (hE1 : E.rawInit = (stdEncEnv p parser).rawInit) (hE2 : E.check = (stdEncEnv p parser).check)
    (hE3 : ∀ b ∈ s.done, E.encPayload fs b.data = (stdEncEnv p parser).encPayload fs b.data)
    (hfs : xzChain p fs = true) (hx86 : fs.any isX86 = true → bs + 5 < 2 ^ 32)
    (out : List UInt8) (henc : streamEncodeMT E { check := check, filters := fs } bs (s.done.map (·.data)) = .ok out)
    (fl : Flags) (cap : Nat) (hcap : s.consumed.length ≤ cap) :
    s.out = out ∧
    xzDecode stdEnv fl s.out cap
      = { ret := .streamEnd, out := s.consumed, consumed := s.out.length, events := headerEvents stdEnv fl check } ∧
    ValidXz stdEnv fl s.out cap s.consumed s.out.length ∧ DValidXz stdEnv fl s.out cap s.consumed s.out.length ∧
    cutsOk bs s.flushPts (doneShape s.done) 0 ∧ (∀ f ∈ s.flushPts, f ∈ closedEnds (doneShape s.done) 0) := by
  obtain ⟨hc, hf, hl, hflat⟩ := ended_blocks h1 h2 hr hend
  rw [hbs] at hc hl
  have ho := mtenc_output_eq_streamEncodeMT E check fs bs h1 h2 hr hend hbs out henc
  have henc' : streamEncodeMT (stdEncEnv p parser) { check := check, filters := fs } bs (s.done.map (·.data)) = .ok out := by
    rw [← henc]
    refine (streamEncodeMT_congr E (stdEncEnv p parser) _ bs _ hE1 hE2 ?_).symm
    rw [flatMap_chunksOf bs _ hl]
    intro d hd
    obtain ⟨b, hb, rfl⟩ := List.mem_map.mp hd
    exact hE3 b hb
  have hrt := C01E2E.xz_roundtrip_std_mt_stateless p parser hp { check := check, filters := fs } bs (s.done.map (·.data)) out fl cap
    hfs hx86 henc' (by rw [hflat]; exact hcap)
  rw [hflat, ← ho] at hrt
  exact ⟨ho, hrt.1, hrt.2.1, hrt.2.2, hc, hf⟩

/-- **mtenc_output_decodes_std** — NO abstract encoder left. For every LZMA2 option set `p`, every parser with the stateless contract
    (`literalParser`, `runParser`, any `ParserOk`), every Check, every supported filter chain (x86 chains: block_size < 4 GiB − 5, C15's
    bound, as in C01E2E), every block size, every number of threads, every sequence of lzma_code calls (inputs, output space,
    RUN / FULL_FLUSH / FULL_BARRIER / FINISH) and EVERY schedule of the main thread and the workers (all states reachable in the LTS,
    incl. spurious wake-ups and time-outs): when LZMA_FINISH has returned LZMA_STREAM_END, the bytes written
      * are exactly the container model's `streamEncodeMT` of the delivered Blocks (given that it returns LZMA_OK: `henc`, the same
        residual hypothesis as in C01E2E — it fails only on the size limits of the format),
      * decode under the decoder model `xzDecode stdEnv` to exactly the input consumed, LZMA_STREAM_END, everything consumed,
      * are valid per both grammars (`ValidXz`, `DValidXz`),
      * and the Block boundaries are the requested ones (`cutsOk`: only at block_size and at flush/barrier/finish offsets; every such
        offset is a boundary). -/
theorem mtenc_output_decodes_std (p : Lzma.Props) (parser : Parser) (hp : ParserOk parser) (check : Nat) (fs : List FilterOpts)
    (bs : Nat) {c : Cfg} (h1 : 0 < c.bs) (h2 : 0 < c.tmax) {s : St}
    (hr : Reachable (encParams (stdEncEnv p parser) check fs bs) c s) (hend : s.seq = .ended) (hbs : s.cfg.bs = bs)
    (hfs : xzChain p fs = true) (hx86 : fs.any isX86 = true → bs + 5 < 2 ^ 32)
    (out : List UInt8)
    (henc : streamEncodeMT (stdEncEnv p parser) { check := check, filters := fs } bs (s.done.map (·.data)) = .ok out)
    (fl : Flags) (cap : Nat) (hcap : s.consumed.length ≤ cap) :
    s.out = out ∧
    xzDecode stdEnv fl s.out cap
      = { ret := .streamEnd, out := s.consumed, consumed := s.out.length, events := headerEvents stdEnv fl check } ∧
    ValidXz stdEnv fl s.out cap s.consumed s.out.length ∧ DValidXz stdEnv fl s.out cap s.consumed s.out.length ∧
    cutsOk bs s.flushPts (doneShape s.done) 0 ∧ (∀ f ∈ s.flushPts, f ∈ closedEnds (doneShape s.done) 0) :=
  mtenc_output_decodes_env p parser hp (stdEncEnv p parser) check fs bs h1 h2 hr hend hbs rfl rfl (fun _ _ => rfl) hfs hx86 out henc
    fl cap hcap

/-- … with the all-literals parser (its contract is proved for every input in Lemmas/E2EParsers.lean) -/
theorem mtenc_output_decodes_std_literal (p : Lzma.Props) (check : Nat) (fs : List FilterOpts) (bs : Nat) {c : Cfg} (h1 : 0 < c.bs)
    (h2 : 0 < c.tmax) {s : St} (hr : Reachable (encParams (stdEncEnv p literalParser) check fs bs) c s) (hend : s.seq = .ended)
    (hbs : s.cfg.bs = bs) (hfs : xzChain p fs = true) (hx86 : fs.any isX86 = true → bs + 5 < 2 ^ 32) (out : List UInt8)
    (henc : streamEncodeMT (stdEncEnv p literalParser) { check := check, filters := fs } bs (s.done.map (·.data)) = .ok out)
    (fl : Flags) (cap : Nat) (hcap : s.consumed.length ≤ cap) :
    xzDecode stdEnv fl s.out cap
      = { ret := .streamEnd, out := s.consumed, consumed := s.out.length, events := headerEvents stdEnv fl check } ∧
    DValidXz stdEnv fl s.out cap s.consumed s.out.length :=
  let h := mtenc_output_decodes_std p literalParser literalParser_ok check fs bs h1 h2 hr hend hbs hfs hx86 out henc fl cap hcap
  ⟨h.2.1, h.2.2.2.1⟩

/-- … and with the parser that emits matches -/
theorem mtenc_output_decodes_std_run (p : Lzma.Props) (check : Nat) (fs : List FilterOpts) (bs : Nat) {c : Cfg} (h1 : 0 < c.bs)
    (h2 : 0 < c.tmax) {s : St} (hr : Reachable (encParams (stdEncEnv p runParser) check fs bs) c s) (hend : s.seq = .ended)
    (hbs : s.cfg.bs = bs) (hfs : xzChain p fs = true) (hx86 : fs.any isX86 = true → bs + 5 < 2 ^ 32) (out : List UInt8)
    (henc : streamEncodeMT (stdEncEnv p runParser) { check := check, filters := fs } bs (s.done.map (·.data)) = .ok out)
    (fl : Flags) (cap : Nat) (hcap : s.consumed.length ≤ cap) :
    xzDecode stdEnv fl s.out cap
      = { ret := .streamEnd, out := s.consumed, consumed := s.out.length, events := headerEvents stdEnv fl check } ∧
    DValidXz stdEnv fl s.out cap s.consumed s.out.length :=
  let h := mtenc_output_decodes_std p runParser runParser_ok check fs bs h1 h2 hr hend hbs hfs hx86 out henc fl cap hcap
  ⟨h.2.1, h.2.2.2.1⟩

/-! ### kernel-evaluated example: 2 threads, 2 Blocks, a FULL_BARRIER, the second Block finishes FIRST

  "ab" + FULL_BARRIER, "c" + FINISH, block_size 4, CRC32, LZMA2 (dict 4 KiB, lc=lp=pb=0), literal parser. Two workers are created; the
  worker of Block 1 publishes before the worker of Block 0 (the main thread wakes up, finds nothing readable at the head of the
  queue and sleeps again); the output is nevertheless in input order and is the container model's output. The payloads are
  evaluated once by the kernel (`rawEncodeK`, payload table as in Props/C01EndToEnd.lean), then the LTS is run by the kernel. -/

def stdExTbl : List (List UInt8 × List UInt8) := [([0x61, 0x62], [1, 0, 1, 97, 98, 0]), ([0x63], [1, 0, 0, 99, 0])]

theorem stdExTbl_ok : ∀ e ∈ stdExTbl, rawEncodeK C01E2E.exP literalParser C01E2E.exCfg.filters e.1 = some e.2 := by decide +kernel

def stdExP : Params := encParams (tableEnv C01E2E.exP stdExTbl) 1 [.lzma2 4096] 4

def stdExTrace : List Ev :=
  [.call [0x61, 0x62] 1000 .fullBarrier, .mHdr, .mRead, .mEncIn, .mEncIn, .mEncIn, .mAfterIn,
   .call [0x63] 1000 .finish, .mRead, .mEncIn, .mEncIn, .mEncIn, .mAfterIn, .mWake,
   .wTop 1 20, .wEnc 1 false 20, .wMarkIdle 1, .wTail 1, .mWake,
   .wTop 0 20, .wEnc 0 false 20, .wMarkIdle 0, .wTail 0, .mWake, .mRead, .mRead, .mRead, .mEncIn, .mAfterIn, .mTail]

def stdExOut : List UInt8 :=
  [253, 55, 122, 88, 90, 0, 0, 1, 105, 34, 222, 54, 2, 192, 6, 2, 33, 1, 0, 0, 142, 85, 207, 94, 1, 0, 1, 97, 98, 0, 0,
   0, 109, 72, 131, 158, 2, 192, 5, 1, 33, 1, 0, 0, 240, 93, 251, 159, 1, 0, 0, 99, 0, 0, 0, 0, 111, 223, 185, 6, 0, 2,
   22, 2, 21, 1, 0, 0, 60, 177, 247, 59, 62, 48, 13, 139, 2, 0, 0, 0, 0, 1, 89, 90]

theorem stdEx_run : ∃ s, run stdExP (initSt { bs := 4, tmax := 2 } stdExP) stdExTrace = some s ∧ s.seq = .ended ∧ s.cfg.bs = 4 ∧
    s.ninit = 2 ∧ s.out = stdExOut ∧ s.done.map (·.data) = [[0x61, 0x62], [0x63]] ∧ s.consumed = [0x61, 0x62, 0x63] ∧
    s.flushPts = [2, 2, 3, 3] := by decide +kernel

theorem stdEx_container : streamEncodeMT (tableEnv C01E2E.exP stdExTbl) { check := 1, filters := [.lzma2 4096] } 4
    [[0x61, 0x62], [0x63]] = .ok stdExOut := by decide +kernel

/-- the example is an instance of `mtenc_output_decodes_env`: the bytes of this schedule decode to "abc" -/
theorem stdEx_decodes :
    xzDecode stdEnv {} stdExOut UNLIMITED
      = { ret := .streamEnd, out := [0x61, 0x62, 0x63], consumed := stdExOut.length, events := headerEvents stdEnv {} 1 } ∧
    DValidXz stdEnv {} stdExOut UNLIMITED [0x61, 0x62, 0x63] stdExOut.length := by
  obtain ⟨s, hrun, hend, hbs, _, hout, hdone, hcons, _⟩ := stdEx_run
  have hr : Reachable stdExP { bs := 4, tmax := 2 } s := reachable_run _ Reachable.init hrun
  have hE3 : ∀ b ∈ s.done, (tableEnv C01E2E.exP stdExTbl).encPayload [.lzma2 4096] b.data
      = (stdEncEnv C01E2E.exP literalParser).encPayload [.lzma2 4096] b.data := by
    intro b hb
    have hm : b.data ∈ s.done.map (·.data) := List.mem_map.mpr ⟨b, hb, rfl⟩
    rw [hdone] at hm
    refine table_agrees C01E2E.exP literalParser [.lzma2 4096] stdExTbl stdExTbl_ok b.data ?_
    simp only [List.mem_cons, List.mem_nil_iff, or_false] at hm
    rcases hm with hm | hm <;> rw [hm] <;> decide
  have henc : streamEncodeMT (tableEnv C01E2E.exP stdExTbl) { check := 1, filters := [.lzma2 4096] } 4 (s.done.map (·.data))
      = .ok stdExOut := by rw [hdone]; exact stdEx_container
  have h := mtenc_output_decodes_env C01E2E.exP literalParser literalParser_ok (tableEnv C01E2E.exP stdExTbl) 1 [.lzma2 4096] 4
    (c := { bs := 4, tmax := 2 }) (by decide) (by decide) hr hend hbs rfl rfl hE3 (by decide) (by intro h; simp [isX86] at h)
    stdExOut henc {} UNLIMITED (by rw [hcons]; decide)
  rw [hout, hcons] at h
  exact ⟨h.2.1, h.2.2.2.1⟩

end Std

end XzVerif.C08
